// Package c40: binlog field serialization (property C40).
//
// Each case names a column type and a value. The value is serialized with dolt's real binlog type
// serializer (typeSerializersMap, through the verif export) and the emitted bytes + TABLE_MAP metadata
// are decoded with the binlog row decoder vendored in the module cache
// (github.com/dolthub/vitess/go/mysql CellValue — the decoder MySQL-protocol replicas of the vitess family use).
package c40

import (
	"encoding/binary"
	"encoding/json"
	"fmt"
	"math"
	"reflect"
	"strconv"
	"strings"
	"time"

	"github.com/dolthub/go-mysql-server/sql"
	gmstypes "github.com/dolthub/go-mysql-server/sql/types"
	"github.com/dolthub/vitess/go/mysql"
	"github.com/dolthub/vitess/go/sqltypes"
	querypb "github.com/dolthub/vitess/go/vt/proto/query"

	"github.com/dolthub/dolt/go/libraries/doltcore/sqle/binlogreplication"

	"verifharness/hk"
)

func init() { hk.Register("c40", Run) }

type Case struct {
	T        string `json:"t"` // int year date datetime timestamp time decimal varchar char blob text enum set bit float double json
	Width    int    `json:"width,omitempty"`
	Unsigned bool   `json:"unsigned,omitempty"`
	I        string `json:"i,omitempty"`   // integer value as decimal string (int, year, enum, set, bit)
	Fsp      int    `json:"fsp,omitempty"` // datetime/timestamp precision
	// temporal: civil fields (UTC)
	Y, Mo, D, H, Mi, S, Us int
	Neg                    bool   `json:"neg,omitempty"`
	P, Sc                  int    // decimal precision/scale
	Dec                    string `json:"dec,omitempty"`
	MaxLen                 int    `json:"maxlen,omitempty"` // varchar/char length in characters (latin1/binary: bytes)
	Bytes                  []int  `json:"bytes,omitempty"`
	N                      int    `json:"n,omitempty"` // enum/set elements, bit width
	Bits                   string `json:"bits,omitempty"` // float/double: IEEE bit pattern, decimal
	JSON                   string `json:"json,omitempty"` // json: document text
	Expect                 []int  `json:"expect"`      // canonical text (bytes) of the stored value as a MySQL replica shows it
}

type Obs struct {
	Err      string `json:"err,omitempty"`
	Data     []int  `json:"data"`
	Typ      int    `json:"typ"`
	Meta     int    `json:"meta"`
	Decoded  string `json:"-"`
	DecB     []int  `json:"decoded"`
	DecErr   string `json:"decerr,omitempty"`
	Consumed int    `json:"consumed"`
	Agree    bool   `json:"agree"` // vitess decoded text == expected text, and consumed == len(data)
}

func toBytes(b []int) []byte {
	bs := make([]byte, len(b))
	for i, x := range b {
		bs[i] = byte(x)
	}
	return bs
}

func mkType(c Case) (sql.Type, interface{}, querypb.Type, error) {
	switch c.T {
	case "int":
		var t sql.Type
		var q querypb.Type
		switch {
		case c.Width == 1 && !c.Unsigned:
			t, q = gmstypes.Int8, querypb.Type_INT8
		case c.Width == 1:
			t, q = gmstypes.Uint8, querypb.Type_UINT8
		case c.Width == 2 && !c.Unsigned:
			t, q = gmstypes.Int16, querypb.Type_INT16
		case c.Width == 2:
			t, q = gmstypes.Uint16, querypb.Type_UINT16
		case c.Width == 3 && !c.Unsigned:
			t, q = gmstypes.Int24, querypb.Type_INT24
		case c.Width == 3:
			t, q = gmstypes.Uint24, querypb.Type_UINT24
		case c.Width == 4 && !c.Unsigned:
			t, q = gmstypes.Int32, querypb.Type_INT32
		case c.Width == 4:
			t, q = gmstypes.Uint32, querypb.Type_UINT32
		case c.Width == 8 && !c.Unsigned:
			t, q = gmstypes.Int64, querypb.Type_INT64
		default:
			t, q = gmstypes.Uint64, querypb.Type_UINT64
		}
		return t, c.I, q, nil
	case "year":
		var y int64
		fmt.Sscan(c.I, &y)
		return gmstypes.Year, y, querypb.Type_YEAR, nil
	case "date":
		return gmstypes.Date, time.Date(c.Y, time.Month(c.Mo), c.D, 0, 0, 0, 0, time.UTC), querypb.Type_DATE, nil
	case "datetime":
		t, err := gmstypes.CreateDatetimeType(querypb.Type_DATETIME, c.Fsp)
		return t, time.Date(c.Y, time.Month(c.Mo), c.D, c.H, c.Mi, c.S, c.Us*1000, time.UTC), querypb.Type_DATETIME, err
	case "timestamp":
		t, err := gmstypes.CreateDatetimeType(querypb.Type_TIMESTAMP, c.Fsp)
		return t, time.Date(c.Y, time.Month(c.Mo), c.D, c.H, c.Mi, c.S, c.Us*1000, time.UTC), querypb.Type_TIMESTAMP, err
	case "time":
		// dolt hands the serializer a time.Time whose UnixMicro is the signed duration
		us := ((int64(c.H)*60+int64(c.Mi))*60+int64(c.S))*1_000_000 + int64(c.Us)
		if c.Neg {
			us = -us
		}
		return gmstypes.Time, time.UnixMicro(us).UTC(), querypb.Type_TIME, nil
	case "decimal":
		t, err := gmstypes.CreateDecimalType(uint8(c.P), uint8(c.Sc))
		return t, c.Dec, querypb.Type_DECIMAL, err
	case "varchar":
		t, err := gmstypes.CreateString(querypb.Type_VARCHAR, int64(c.MaxLen), sql.Collation_latin1_bin)
		return t, string(toBytes(c.Bytes)), querypb.Type_VARCHAR, err
	case "char":
		t, err := gmstypes.CreateString(querypb.Type_CHAR, int64(c.MaxLen), sql.Collation_latin1_bin)
		return t, string(toBytes(c.Bytes)), querypb.Type_CHAR, err
	case "varbinary":
		t, err := gmstypes.CreateBinary(querypb.Type_VARBINARY, int64(c.MaxLen))
		return t, toBytes(c.Bytes), querypb.Type_VARBINARY, err
	case "blob":
		var t sql.Type
		switch c.Width {
		case 1:
			t = gmstypes.TinyBlob
		case 2:
			t = gmstypes.Blob
		case 3:
			t = gmstypes.MediumBlob
		default:
			t = gmstypes.LongBlob
		}
		return t, toBytes(c.Bytes), querypb.Type_BLOB, nil
	case "text":
		var t sql.Type
		switch c.Width {
		case 1:
			t = gmstypes.TinyText
		case 2:
			t = gmstypes.Text
		case 3:
			t = gmstypes.MediumText
		default:
			t = gmstypes.LongText
		}
		return t, string(toBytes(c.Bytes)), querypb.Type_TEXT, nil
	case "enum":
		vals := make([]string, c.N)
		for i := range vals {
			vals[i] = fmt.Sprintf("e%d", i+1)
		}
		t, err := gmstypes.CreateEnumType(vals, sql.Collation_Default)
		var v uint16
		fmt.Sscan(c.I, &v)
		return t, v, querypb.Type_ENUM, err
	case "set":
		vals := make([]string, c.N)
		for i := range vals {
			vals[i] = fmt.Sprintf("s%d", i+1)
		}
		t, err := gmstypes.CreateSetType(vals, sql.Collation_Default)
		var v uint64
		fmt.Sscan(c.I, &v)
		return t, v, querypb.Type_SET, err
	case "bit":
		t, err := gmstypes.CreateBitType(uint8(c.N))
		var v uint64
		fmt.Sscan(c.I, &v)
		return t, v, querypb.Type_BIT, err
	case "float":
		var b uint32
		fmt.Sscan(c.Bits, &b)
		return gmstypes.Float32, math.Float32frombits(b), querypb.Type_FLOAT32, nil
	case "double":
		var b uint64
		fmt.Sscan(c.Bits, &b)
		return gmstypes.Float64, math.Float64frombits(b), querypb.Type_FLOAT64, nil
	case "json":
		return gmstypes.JSON, c.JSON, querypb.Type_JSON, nil
	}
	return nil, nil, 0, fmt.Errorf("unknown type %q", c.T)
}

func Run(raw json.RawMessage) (any, error) {
	var c Case
	if err := json.Unmarshal(raw, &c); err != nil {
		return nil, err
	}
	if c.T == "row" {
		return runRow(c)
	}
	typ, val, q, err := mkType(c)
	if err != nil {
		return nil, err
	}
	ctx := sql.NewEmptyContext()
	var o Obs
	o.Data = []int{}
	data, bt, meta, err := binlogreplication.VerifSerialize(ctx, typ, val)
	if err != nil {
		o.Err = err.Error()
		return o, nil
	}
	for _, b := range data {
		o.Data = append(o.Data, int(b))
	}
	o.Typ, o.Meta = int(bt), int(meta)
	if c.T == "json" {
		// second decoder: a Go port of MySQL's json_binary.cc parsing rules (below), compared structurally with
		// the document; the vitess printer must also accept the bytes
		o.Consumed = len(data)
		var want interface{}
		if err := json.Unmarshal([]byte(c.JSON), &want); err != nil {
			return nil, err
		}
		if len(data) < 5 || int(binary.LittleEndian.Uint32(data))+4 != len(data) {
			o.DecErr = "bad length prefix"
			return o, nil
		}
		got, derr := parseJSON(data[4], data[5:])
		if derr != nil {
			o.DecErr = derr.Error()
			return o, nil
		}
		if _, verr := mysql.ConvertBinaryJSONToSQL(data[4:]); verr != nil {
			o.DecErr = "vitess: " + verr.Error()
			return o, nil
		}
		o.Agree = reflect.DeepEqual(got, want)
		return o, nil
	}
	// decode with padding after the cell so that an over-read shows up as a wrong length, not a panic
	buf := append(append([]byte{}, data...), 0xEE, 0xEE, 0xEE, 0xEE, 0xEE, 0xEE, 0xEE, 0xEE)
	v, n, derr := mysql.CellValue(buf, 0, bt, meta, q)
	if derr != nil {
		o.DecErr = derr.Error()
		return o, nil
	}
	o.Consumed = n
	o.Decoded = valueText(v)
	got := o.Decoded
	if c.T == "decimal" {
		// the decoder prints 9-digit groups with padding; compare the number, not the padding
		got = normDecimal(got)
	}
	for _, b := range []byte(o.Decoded) {
		o.DecB = append(o.DecB, int(b))
	}
	o.Agree = got == string(toBytes(c.Expect)) && n == len(data)
	if c.T == "float" {
		var b uint32
		fmt.Sscan(c.Bits, &b)
		f, perr := strconv.ParseFloat(o.Decoded, 32)
		o.Agree = perr == nil && math.Float32bits(float32(f)) == b && n == len(data)
	}
	if c.T == "double" {
		var b uint64
		fmt.Sscan(c.Bits, &b)
		f, perr := strconv.ParseFloat(o.Decoded, 64)
		o.Agree = perr == nil && math.Float64bits(f) == b && n == len(data)
	}
	return o, nil
}

// ---- Go port of MySQL's JSON binary parsing (sql-common/json_binary.cc: parse_value / parse_array_or_object /
// parse_scalar / read_variable_length), restricted to the types a document can contain ----
func rd(d []byte, off, w int) (int, error) {
	if off < 0 || off+w > len(d) {
		return 0, fmt.Errorf("read past end")
	}
	v := 0
	for i := w - 1; i >= 0; i-- {
		v = v<<8 | int(d[off+i])
	}
	return v, nil
}

func parseJSON(t byte, d []byte) (interface{}, error) {
	switch t {
	case 4:
		if len(d) < 1 {
			return nil, fmt.Errorf("short literal")
		}
		switch d[0] {
		case 0:
			return nil, nil
		case 1:
			return true, nil
		case 2:
			return false, nil
		}
		return nil, fmt.Errorf("bad literal")
	case 11:
		if len(d) < 8 {
			return nil, fmt.Errorf("short double")
		}
		return math.Float64frombits(binary.LittleEndian.Uint64(d)), nil
	case 12:
		l, n, shift := 0, 0, 0
		for {
			if n >= 5 || n >= len(d) {
				return nil, fmt.Errorf("bad string length")
			}
			b := d[n]
			l |= int(b&0x7f) << shift
			n++
			shift += 7
			if b&0x80 == 0 {
				break
			}
		}
		if n+l > len(d) {
			return nil, fmt.Errorf("string past end")
		}
		return string(d[n : n+l]), nil
	case 0, 1, 2, 3:
		large := t == 1 || t == 3
		isObj := t == 0 || t == 1
		w := 2
		if large {
			w = 4
		}
		count, err := rd(d, 0, w)
		if err != nil {
			return nil, err
		}
		size, err := rd(d, w, w)
		if err != nil {
			return nil, err
		}
		if size > len(d) {
			return nil, fmt.Errorf("size past end")
		}
		kent := 0
		if isObj {
			kent = w + 2
		}
		hdr := 2*w + count*kent + count*(1+w)
		if hdr > size {
			return nil, fmt.Errorf("header past size")
		}
		body := d[:size]
		value := func(i int) (interface{}, error) {
			eoff := 2*w + count*kent + i*(1+w)
			et := body[eoff]
			if et == 4 {
				return parseJSON(4, body[eoff+1:eoff+2])
			}
			off, _ := rd(body, eoff+1, w)
			if off < hdr || off >= size {
				return nil, fmt.Errorf("value offset out of range")
			}
			return parseJSON(et, body[off:])
		}
		if isObj {
			m := map[string]interface{}{}
			for i := 0; i < count; i++ {
				koff, _ := rd(body, 2*w+i*kent, w)
				klen, _ := rd(body, 2*w+i*kent+w, 2)
				if koff < hdr || koff+klen > size {
					return nil, fmt.Errorf("key out of range")
				}
				v, err := value(i)
				if err != nil {
					return nil, err
				}
				m[string(body[koff:koff+klen])] = v
			}
			if len(m) != count {
				return nil, fmt.Errorf("duplicate keys after decoding")
			}
			return m, nil
		}
		a := make([]interface{}, 0, count)
		for i := 0; i < count; i++ {
			v, err := value(i)
			if err != nil {
				return nil, err
			}
			a = append(a, v)
		}
		return a, nil
	}
	return nil, fmt.Errorf("unknown type %d", t)
}

func normDecimal(s string) string {
	// vitess prints inner 9-digit groups with "%9d" (space padded): read the padding as zeros
	neg := strings.HasPrefix(s, "-")
	s = strings.TrimPrefix(s, "-")
	s = strings.ReplaceAll(s, " ", "0")
	if s == "" || strings.HasPrefix(s, ".") {
		s = "0" + s
	}
	for len(s) > 1 && s[0] == '0' && s[1] != '.' {
		s = s[1:]
	}
	if strings.HasPrefix(s, ".") {
		s = "0" + s
	}
	if neg {
		s = "-" + s
	}
	return s
}

// runRow: an ENUM(n) column followed by an INT column. The cells are serialized with the real serializers and laid out
// one after the other, as serializeRowToBinlogBytes lays out the non-NULL columns of a row; the vitess row decoder then
// walks the row with the emitted metadata: the second cell is read where the first one ends ACCORDING TO THE METADATA.
func runRow(c Case) (any, error) {
	ctx := sql.NewEmptyContext()
	var o Obs
	o.Data = []int{}
	ec := c
	ec.T = "enum"
	et, ev, eq, err := mkType(ec)
	if err != nil {
		return nil, err
	}
	d1, bt1, m1, err := binlogreplication.VerifSerialize(ctx, et, ev)
	if err != nil {
		o.Err = err.Error()
		return o, nil
	}
	var z int64
	fmt.Sscan(c.Dec, &z)
	d2, bt2, m2, err := binlogreplication.VerifSerialize(ctx, gmstypes.Int32, z)
	if err != nil {
		o.Err = err.Error()
		return o, nil
	}
	row := append(append([]byte{}, d1...), d2...)
	for _, b := range row {
		o.Data = append(o.Data, int(b))
	}
	o.Typ, o.Meta = int(bt1), int(m1)
	buf := append(append([]byte{}, row...), 0xEE, 0xEE, 0xEE, 0xEE, 0xEE, 0xEE, 0xEE, 0xEE)
	v1, n1, derr := mysql.CellValue(buf, 0, bt1, m1, eq)
	if derr != nil {
		o.DecErr = derr.Error()
		return o, nil
	}
	v2, n2, derr := mysql.CellValue(buf, n1, bt2, m2, querypb.Type_INT32)
	if derr != nil {
		o.DecErr = derr.Error()
		return o, nil
	}
	o.Consumed = n1 + n2
	o.Decoded = valueText(v1) + "," + valueText(v2)
	for _, b := range []byte(o.Decoded) {
		o.DecB = append(o.DecB, int(b))
	}
	o.Agree = o.Decoded == string(toBytes(c.Expect)) && n1+n2 == len(row)
	return o, nil
}

func valueText(v sqltypes.Value) string {
	if v.IsNull() {
		return "NULL"
	}
	return string(v.Raw())
}
