// Package c38: branch-control pattern folding, matching and rule tables (property C38).
package c38

import (
	"context"
	"encoding/json"
	"fmt"
	"sort"
	"strings"
	"unicode"

	"github.com/dolthub/go-mysql-server/sql"
	"github.com/dolthub/go-mysql-server/sql/mysql_db"

	"github.com/dolthub/dolt/go/libraries/doltcore/branch_control"
	"github.com/dolthub/dolt/go/libraries/doltcore/sqle/dsess"

	"verifharness/hk"
	"verifharness/util"
)

func init() { hk.Register("c38", Run) }

type Rule struct {
	Ins  bool  `json:"ins"` // insert (true) or delete
	D    []int `json:"d"`
	B    []int `json:"b"`
	U    []int `json:"u"`
	H    []int `json:"h"`
	Perm int   `json:"perm"`
}

type Case struct {
	K    string    `json:"k"` // fold | m1 | acc | ns
	S    []int     `json:"s,omitempty"`
	P    []int     `json:"p,omitempty"`
	Coll int       `json:"coll,omitempty"` // 0 utf8mb4_0900_ai_ci, 1 utf8mb4_0900_bin
	Ops  []Rule    `json:"ops,omitempty"`
	Reqs [][][]int `json:"reqs,omitempty"` // each request: [db, branch, user, host]
	Sql  bool      `json:"sql,omitempty"`  // drive the tables through dolt_branch_control / dolt_branch_namespace_control
}

type Row struct {
	D    []int `json:"d"`
	B    []int `json:"b"`
	U    []int `json:"u"`
	H    []int `json:"h"`
	Perm int   `json:"perm"`
}

type Obs struct {
	Tab   [][]int64 `json:"tab"` // [code point, sort order ai_ci, sort order bin, strings.ToLower] for every code point of the case and U+FFFD
	Fold  []int     `json:"fold,omitempty"`
	Toks  []int64   `json:"toks,omitempty"` // ParseExpression(fold, coll)
	M     bool      `json:"m,omitempty"`
	Found []bool    `json:"found,omitempty"`
	Perms []int     `json:"perms,omitempty"`
	Rows  []Row     `json:"rows,omitempty"`
	Can   []bool    `json:"can,omitempty"`
	Err   string    `json:"errs,omitempty"`
	// SQL-driven cases: whether each statement was accepted (dolt_branch_control rejects a row that an existing rule
	// with the same permissions already covers; both tables reject a duplicate key)
	Applied []bool `json:"applied,omitempty"`
}

var (
	ci  = sql.Collation_utf8mb4_0900_ai_ci
	bin = sql.Collation_utf8mb4_0900_bin
)

func toStr(r []int) string {
	rs := make([]rune, len(r))
	for i, x := range r {
		rs[i] = rune(x)
	}
	return string(rs)
}

func fromStr(s string) []int {
	out := []int{}
	for _, r := range s {
		out = append(out, int(r))
	}
	return out
}

func table(cps map[int]bool) [][]int64 {
	cps[0xFFFD] = true
	keys := []int{}
	for k := range cps {
		keys = append(keys, k)
	}
	sort.Ints(keys)
	sc, sb := ci.Sorter(), bin.Sorter()
	out := [][]int64{}
	for _, k := range keys {
		out = append(out, []int64{int64(k), int64(sc(rune(k))), int64(sb(rune(k))), int64(unicode.ToLower(rune(k)))})
	}
	return out
}

func collect(cps map[int]bool, ls ...[]int) {
	for _, l := range ls {
		for _, c := range l {
			cps[c] = true
			cps[int(unicode.ToLower(rune(c)))] = true
		}
	}
}

func coll(i int) sql.CollationID {
	if i == 1 {
		return bin
	}
	return ci
}

func sqlQuote(s string) string {
	s = strings.ReplaceAll(s, "\\", "\\\\")
	s = strings.ReplaceAll(s, "'", "''")
	return "'" + s + "'"
}

// the stored form of a rule's columns (what a SQL DELETE ... WHERE has to name): folded, and lower-cased except the user
func stored(r Rule) (d, b, u, h string) {
	return strings.ToLower(branch_control.FoldExpression(toStr(r.D))), strings.ToLower(branch_control.FoldExpression(toStr(r.B))),
		branch_control.FoldExpression(toStr(r.U)), strings.ToLower(branch_control.FoldExpression(toStr(r.H)))
}

func permSet(p int) string {
	var parts []string
	if p&1 != 0 {
		parts = append(parts, "admin")
	}
	if p&2 != 0 {
		parts = append(parts, "write")
	}
	if p&4 != 0 {
		parts = append(parts, "merge")
	}
	if p&8 != 0 {
		parts = append(parts, "read")
	}
	return strings.Join(parts, ",")
}

func Run(raw json.RawMessage) (any, error) {
	var c Case
	if err := json.Unmarshal(raw, &c); err != nil {
		return nil, err
	}
	cps := map[int]bool{}
	var o Obs
	switch c.K {
	case "fold":
		collect(cps, c.S)
		f := branch_control.FoldExpression(toStr(c.S))
		o.Fold = fromStr(f)
		o.Toks = []int64{}
		for _, t := range branch_control.ParseExpression(f, coll(c.Coll)) {
			o.Toks = append(o.Toks, int64(t))
		}
	case "m1":
		collect(cps, c.P, c.S)
		f := branch_control.FoldExpression(toStr(c.P))
		o.Fold = fromStr(f)
		exprs := []branch_control.MatchExpression{{CollectionIndex: 0, SortOrders: branch_control.ParseExpression(f, coll(c.Coll))}}
		o.M = len(branch_control.Match(exprs, toStr(c.S), coll(c.Coll))) > 0
	case "acc":
		for _, r := range c.Ops {
			collect(cps, r.D, r.B, r.U, r.H)
		}
		for _, q := range c.Reqs {
			collect(cps, q...)
		}
		var ctl *branch_control.Controller
		if c.Sql {
			env, err := util.NewEnv(false)
			if err != nil {
				return nil, err
			}
			defer env.Close()
			s, err := env.NewSession()
			if err != nil {
				return nil, err
			}
			s.Ctx.Session.SetPrivilegeSet(mysql_db.NewPrivilegeSetWithAllPrivileges(), 1)
			if r := s.Exec("delete from dolt_branch_control"); r.Err != "" {
				return nil, fmt.Errorf("clear: %s", r.Err)
			}
			for _, r := range c.Ops {
				var q string
				if r.Ins {
					q = fmt.Sprintf("insert into dolt_branch_control values (%s, %s, %s, %s, %s)", sqlQuote(toStr(r.D)), sqlQuote(toStr(r.B)),
						sqlQuote(toStr(r.U)), sqlQuote(toStr(r.H)), sqlQuote(permSet(r.Perm)))
				} else {
					d, b, u, h := stored(r)
					q = fmt.Sprintf("delete from dolt_branch_control where `database` = %s and branch = %s and user = %s and host = %s",
						sqlQuote(d), sqlQuote(b), sqlQuote(u), sqlQuote(h))
				}
				res := s.Exec(q)
				if res.Err != "" {
					o.Err += q + ": " + res.Err + "\n"
				}
				o.Applied = append(o.Applied, res.Err == "")
			}
			ctl = dsess.DSessFromSess(s.Ctx.Session).GetController()
		} else {
			ctl = branch_control.CreateDefaultController(context.Background())
			ctl.Access.Delete("%", "%", "%", "%")
			for _, r := range c.Ops {
				if r.Ins {
					ctl.Access.Insert(toStr(r.D), toStr(r.B), toStr(r.U), toStr(r.H), branch_control.Permissions(r.Perm))
				} else {
					ctl.Access.Delete(toStr(r.D), toStr(r.B), toStr(r.U), toStr(r.H))
				}
			}
		}
		o.Found, o.Perms, o.Rows = []bool{}, []int{}, []Row{}
		for _, q := range c.Reqs {
			f, p := ctl.Access.Match(toStr(q[0]), toStr(q[1]), toStr(q[2]), toStr(q[3]))
			o.Found = append(o.Found, f)
			o.Perms = append(o.Perms, int(p))
		}
		it := ctl.Access.Iter()
		for {
			r, ok := it.Next()
			if !ok {
				break
			}
			o.Rows = append(o.Rows, Row{D: fromStr(r.Database), B: fromStr(r.Branch), U: fromStr(r.User), H: fromStr(r.Host), Perm: int(r.Permissions)})
			collect(cps, fromStr(r.Database), fromStr(r.Branch), fromStr(r.User), fromStr(r.Host))
		}
		sort.Slice(o.Rows, func(i, j int) bool {
			a, b := o.Rows[i], o.Rows[j]
			return fmt.Sprint(a.D, a.B, a.U, a.H) < fmt.Sprint(b.D, b.B, b.U, b.H)
		})
	case "ns":
		for _, r := range c.Ops {
			collect(cps, r.D, r.B, r.U, r.H)
		}
		for _, q := range c.Reqs {
			collect(cps, q...)
		}
		env, err := util.NewEnv(false)
		if err != nil {
			return nil, err
		}
		defer env.Close()
		s, err := env.NewSession()
		if err != nil {
			return nil, err
		}
		s.Ctx.Session.SetPrivilegeSet(mysql_db.NewPrivilegeSetWithAllPrivileges(), 1)
		for _, r := range c.Ops {
			var q string
			if r.Ins {
				q = fmt.Sprintf("insert into dolt_branch_namespace_control values (%s, %s, %s, %s)", sqlQuote(toStr(r.D)), sqlQuote(toStr(r.B)),
					sqlQuote(toStr(r.U)), sqlQuote(toStr(r.H)))
			} else {
				d, b, u, h := stored(r)
				q = fmt.Sprintf("delete from dolt_branch_namespace_control where `database` = %s and branch = %s and user = %s and host = %s",
					sqlQuote(d), sqlQuote(b), sqlQuote(u), sqlQuote(h))
			}
			res := s.Exec(q)
			if res.Err != "" {
				o.Err += q + ": " + res.Err + "\n"
			}
			o.Applied = append(o.Applied, res.Err == "")
		}
		ctl := dsess.DSessFromSess(s.Ctx.Session).GetController()
		o.Can, o.Rows = []bool{}, []Row{}
		for _, q := range c.Reqs {
			o.Can = append(o.Can, ctl.Namespace.CanCreate(toStr(q[0]), toStr(q[1]), toStr(q[2]), toStr(q[3])))
		}
		for _, v := range ctl.Namespace.Values {
			o.Rows = append(o.Rows, Row{D: fromStr(v.Database), B: fromStr(v.Branch), U: fromStr(v.User), H: fromStr(v.Host)})
			collect(cps, fromStr(v.Database), fromStr(v.Branch), fromStr(v.User), fromStr(v.Host))
		}
		sort.Slice(o.Rows, func(i, j int) bool {
			a, b := o.Rows[i], o.Rows[j]
			return fmt.Sprint(a.D, a.B, a.U, a.H) < fmt.Sprint(b.D, b.B, b.U, b.H)
		})
	default:
		return nil, fmt.Errorf("bad kind %q", c.K)
	}
	o.Tab = table(cps)
	return o, nil
}
