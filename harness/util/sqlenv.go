// Package util: helpers shared by the SQL-level harness packages — an
// in-process dolt SQL engine over a fresh test repository, with any number of
// independent sessions, and a canonical rendering of result rows.
package util

import (
	"context"
	"encoding/hex"
	"fmt"
	"io"
	"os"
	"sort"
	"strings"
	"sync/atomic"
	"time"

	"github.com/dolthub/go-mysql-server/sql"
	"github.com/dolthub/go-mysql-server/sql/types"

	"github.com/dolthub/dolt/go/cmd/dolt/commands/engine"
	"github.com/dolthub/dolt/go/libraries/doltcore/dtestutils"
	"github.com/dolthub/dolt/go/libraries/doltcore/env"
)

var envCounter int64

// Env is one repository + one engine.
type Env struct {
	DEnv   *env.DoltEnv
	Eng    *engine.SqlEngine
	DBName string
	tmpDir string
}

// NewEnv creates a fresh repository (in-memory file system unless onDisk) and an engine over it.
func NewEnv(onDisk bool, opts ...engine.ConfigOption) (*Env, error) {
	ctx := context.Background()
	var dEnv *env.DoltEnv
	e := &Env{}
	if onDisk {
		dEnv = dtestutils.CreateTestEnvForLocalFilesystem()
		if p, err := dEnv.FS.Abs("."); err == nil {
			e.tmpDir = p
		}
	} else {
		n := atomic.AddInt64(&envCounter, 1)
		dEnv = dtestutils.CreateTestEnvWithName(fmt.Sprintf("verif%d", n))
	}
	se, name, err := engine.NewSqlEngineForEnv(ctx, dEnv, opts...)
	if err != nil {
		return nil, err
	}
	e.DEnv, e.Eng, e.DBName = dEnv, se, name
	return e, nil
}

func (e *Env) Close() {
	if e.Eng != nil {
		e.Eng.Close()
	}
	if e.DEnv != nil && e.DEnv.DoltDB(context.Background()) != nil {
		e.DEnv.DoltDB(context.Background()).Close()
	}
	if e.tmpDir != "" && strings.Contains(e.tmpDir, "dolt-") {
		// CreateTestEnvForLocalFilesystem: <tmp>/dolt-XXXX/test
		os.RemoveAll(strings.TrimSuffix(e.tmpDir, "/test"))
	}
}

// Session is an independent SQL session (own transaction state) on the engine.
type Session struct {
	E   *Env
	Ctx *sql.Context
}

func (e *Env) NewSession() (*Session, error) {
	ctx, err := e.Eng.NewLocalContext(context.Background())
	if err != nil {
		return nil, err
	}
	ctx.SetCurrentDatabase(e.DBName)
	return &Session{E: e, Ctx: ctx}, nil
}

// Result of one statement, canonicalised.
type Result struct {
	Cols []string   `json:"cols,omitempty"`
	Rows [][]string `json:"rows"`
	Err  string     `json:"err,omitempty"`
}

// Exec runs one statement and drains its rows. Rows are rendered with Render.
func (s *Session) Exec(q string) Result {
	var r Result
	r.Rows = [][]string{}
	func() {
		defer func() {
			if p := recover(); p != nil {
				r.Err = fmt.Sprintf("PANIC: %v", p)
			}
		}()
		// every statement gets a fresh query time / pid like the server does
		s.Ctx.SetQueryTime(time.Now())
		sch, iter, _, err := s.E.Eng.Query(s.Ctx, q)
		if err != nil {
			r.Err = err.Error()
			return
		}
		for _, c := range sch {
			r.Cols = append(r.Cols, c.Name)
		}
		for {
			row, err := iter.Next(s.Ctx)
			if err == io.EOF {
				break
			}
			if err != nil {
				r.Err = err.Error()
				break
			}
			out := make([]string, len(row))
			for i, v := range row {
				out[i] = Render(s.Ctx, v)
			}
			r.Rows = append(r.Rows, out)
		}
		if err := iter.Close(s.Ctx); err != nil && r.Err == "" {
			r.Err = err.Error()
		}
	}()
	return r
}

// MustExec runs statements, returning the first error.
func (s *Session) MustExec(qs ...string) error {
	for _, q := range qs {
		if r := s.Exec(q); r.Err != "" {
			return fmt.Errorf("%s: %s", q, r.Err)
		}
	}
	return nil
}

// Render gives a canonical string for a SQL value: NULL, integers in decimal,
// strings verbatim (bytes hex-escaped as x'..' when not valid text is needed by
// the caller: use RenderBytes), times in RFC3339Nano UTC, decimals via String().
func Render(ctx *sql.Context, v interface{}) string {
	switch x := v.(type) {
	case nil:
		return "NULL"
	case string:
		return "s:" + x
	case []byte:
		return "b:" + hex.EncodeToString(x)
	case bool:
		if x {
			return "i:1"
		}
		return "i:0"
	case int8, int16, int32, int64, int, uint8, uint16, uint32, uint64, uint:
		return fmt.Sprintf("i:%d", x)
	case float32:
		return fmt.Sprintf("f:%v", x)
	case float64:
		return fmt.Sprintf("f:%v", x)
	case time.Time:
		return "t:" + x.UTC().Format("2006-01-02T15:04:05.999999999")
	case types.JSONDocument:
		s, err := x.JSONString()
		if err != nil {
			return "j!:" + err.Error()
		}
		return "j:" + s
	case sql.JSONWrapper:
		s, err := types.JsonToMySqlString(ctx, x)
		if err != nil {
			return "j!:" + err.Error()
		}
		return "j:" + s
	case sql.StringWrapper:
		s, err := x.Unwrap(ctx)
		if err != nil {
			return "s!:" + err.Error()
		}
		return "s:" + s
	case sql.BytesWrapper:
		b, err := x.Unwrap(ctx)
		if err != nil {
			return "b!:" + err.Error()
		}
		return "b:" + hex.EncodeToString(b)
	case types.OkResult:
		return fmt.Sprintf("ok:%d", x.RowsAffected)
	case fmt.Stringer:
		return "v:" + x.String()
	}
	return fmt.Sprintf("?:%T:%v", v, v)
}

// SortRows sorts rendered rows lexicographically (multiset comparison).
func SortRows(rows [][]string) {
	sort.Slice(rows, func(i, j int) bool {
		a, b := rows[i], rows[j]
		for k := 0; k < len(a) && k < len(b); k++ {
			if a[k] != b[k] {
				return a[k] < b[k]
			}
		}
		return len(a) < len(b)
	})
}
