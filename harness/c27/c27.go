// Package c27: keyless tables as multisets through SQL (property C27).
//
// One case is a SQL script: a list of steps executed in order against a fresh
// in-process dolt engine (in-memory repository). The generator (props/c27.py)
// writes the script (keyless table, DML with duplicate rows observed statement by statement, two branches and
// CALL dolt_merge in both directions) and
// marks the steps whose results are observations. The harness only executes
// and renders; everything is driven through the real SQL engine.
package c27

import (
	"encoding/json"

	"verifharness/hk"
	"verifharness/util"
)

func init() { hk.Register("c27", Run) }

type Step struct {
	Q    string `json:"q"`
	Keep string `json:"keep,omitempty"` // non-empty: report the result under this name
	Sess int    `json:"sess,omitempty"` // session index (sessions are created on demand)
}

type Case struct {
	Steps []Step `json:"steps"`
}

type StepOut struct {
	Cols []string   `json:"cols"`
	Rows [][]string `json:"rows"`
	Err  string     `json:"err"`
}

// RunScript executes the steps on a fresh environment and returns the kept results by name.
func RunScript(steps []Step) (map[string]StepOut, error) {
	env, err := util.NewEnv(false)
	if err != nil {
		return nil, err
	}
	defer env.Close()
	sessions := map[int]*util.Session{}
	out := map[string]StepOut{}
	for _, st := range steps {
		s, ok := sessions[st.Sess]
		if !ok {
			s, err = env.NewSession()
			if err != nil {
				return nil, err
			}
			sessions[st.Sess] = s
		}
		r := s.Exec(st.Q)
		if st.Keep != "" {
			cols := r.Cols
			if cols == nil {
				cols = []string{}
			}
			out[st.Keep] = StepOut{Cols: cols, Rows: r.Rows, Err: r.Err}
		}
	}
	return out, nil
}

func Run(raw json.RawMessage) (any, error) {
	var c Case
	if err := json.Unmarshal(raw, &c); err != nil {
		return nil, err
	}
	return RunScript(c.Steps)
}
