// Package c30: the fast tree-level merge agrees with the row-level merge (property C30).
//
// The same row histories are applied to three tables of one database:
//   t      no constraint: computeProllyTreePatches takes the chunk-level fast path
//   t_chk  same columns + a CHECK that is always true: needsCheckValidation -> row-by-row path
//   t_idx  same columns + a secondary index:           needsSecondaryIndexMerge -> row-by-row path
// Which path runs is a function of the schema alone (canFastMergeProllyTrees), so
// one dolt_merge exercises both on identical inputs. Observed per table: rows,
// conflict rows (base/ours/theirs), and the per-table merge statistics of
// merge.MergeCommits on the same two commits.
package c30

import (
	"context"
	"encoding/json"
	"fmt"
	"strings"

	"github.com/dolthub/dolt/go/libraries/doltcore/doltdb"
	"github.com/dolthub/dolt/go/libraries/doltcore/merge"
	"github.com/dolthub/dolt/go/libraries/doltcore/ref"
	"github.com/dolthub/dolt/go/libraries/doltcore/sqle/dsess"
	"github.com/dolthub/dolt/go/libraries/doltcore/table/editor"

	"verifharness/hk"
	"verifharness/util"
)

func init() { hk.Register("c30", Run) }

// a row: pk, a, b (nil = NULL)
type Row struct {
	Pk int  `json:"pk"`
	A  *int `json:"a"`
	B  *int `json:"b"`
}

type Case struct {
	Base  []Row `json:"base"`
	Left  []Row `json:"left"`  // full content of the left branch
	Right []Row `json:"right"` // full content of the right branch
}

type Stats struct {
	Adds, Deletes, Modifications, DataConflicts, ConstraintViolations int
}

type TableObs struct {
	Rows      [][]string `json:"rows"`
	Conflicts [][]string `json:"conflicts"` // base_a, base_b, our_a, our_b, their_a, their_b, pk(s)
	Stats     *Stats     `json:"stats"`
	NConf     string     `json:"nconf"`
}

type Obs struct {
	Tables   map[string]TableObs `json:"tables"`
	MergeErr string              `json:"merge_err"`
	MergeRow []string            `json:"merge_row"`
}

var tables = []string{"t", "t_chk", "t_idx"}

func lit(p *int) string {
	if p == nil {
		return "NULL"
	}
	return fmt.Sprint(*p)
}

func eq(x, y *int) bool {
	if x == nil || y == nil {
		return x == nil && y == nil
	}
	return *x == *y
}

// statements that take a table from content |from| to content |to|
func edits(tbl string, from, to []Row) []string {
	var out []string
	old := map[int]Row{}
	for _, r := range from {
		old[r.Pk] = r
	}
	seen := map[int]bool{}
	for _, r := range to {
		seen[r.Pk] = true
		if o, ok := old[r.Pk]; !ok {
			out = append(out, fmt.Sprintf("insert into %s values (%d, %s, %s)", tbl, r.Pk, lit(r.A), lit(r.B)))
		} else if !eq(o.A, r.A) || !eq(o.B, r.B) {
			out = append(out, fmt.Sprintf("update %s set a = %s, b = %s where pk = %d", tbl, lit(r.A), lit(r.B), r.Pk))
		}
	}
	for _, r := range from {
		if !seen[r.Pk] {
			out = append(out, fmt.Sprintf("delete from %s where pk = %d", tbl, r.Pk))
		}
	}
	return out
}

func Run(raw json.RawMessage) (any, error) {
	var c Case
	if err := json.Unmarshal(raw, &c); err != nil {
		return nil, err
	}
	env, err := util.NewEnv(false)
	if err != nil {
		return nil, err
	}
	defer env.Close()
	s, err := env.NewSession()
	if err != nil {
		return nil, err
	}
	must := func(qs ...string) error { return s.MustExec(qs...) }
	if err := must(
		"create table t (pk int primary key, a int, b int)",
		"create table t_chk (pk int primary key, a int, b int, constraint always_true check (pk > -2000000000))",
		"create table t_idx (pk int primary key, a int, b int, key idx_a (a))",
	); err != nil {
		return nil, err
	}
	for _, tbl := range tables {
		if err := must(edits(tbl, nil, c.Base)...); err != nil {
			return nil, err
		}
	}
	if err := must("call dolt_commit('-Am', 'base')", "call dolt_checkout('-b', 'other')"); err != nil {
		return nil, err
	}
	for _, tbl := range tables {
		if err := must(edits(tbl, c.Base, c.Right)...); err != nil {
			return nil, err
		}
	}
	if err := must("call dolt_commit('--allow-empty', '-Am', 'right')", "call dolt_checkout('main')"); err != nil {
		return nil, err
	}
	for _, tbl := range tables {
		if err := must(edits(tbl, c.Base, c.Left)...); err != nil {
			return nil, err
		}
	}
	if err := must("call dolt_commit('--allow-empty', '-Am', 'left')"); err != nil {
		return nil, err
	}

	o := Obs{Tables: map[string]TableObs{}}
	stats := map[string]*Stats{}
	// merge statistics: merge.MergeCommits on the two branch heads (what dolt_merge calls)
	func() {
		ddb := env.DEnv.DoltDB(context.Background())
		head, err1 := ddb.ResolveCommitRef(s.Ctx, ref.NewBranchRef("main"))
		other, err2 := ddb.ResolveCommitRef(s.Ctx, ref.NewBranchRef("other"))
		if err1 != nil || err2 != nil {
			o.MergeErr = fmt.Sprint("resolve: ", err1, err2)
			return
		}
		res, err := dsess.GetTableResolver(s.Ctx, env.DBName)
		if err != nil {
			o.MergeErr = "resolver: " + err.Error()
			return
		}
		r, err := merge.MergeCommits(s.Ctx, res, head, other, editor.Options{})
		if err != nil {
			o.MergeErr = "MergeCommits: " + err.Error()
			return
		}
		for tn, st := range r.Stats {
			stats[tn.Name] = &Stats{st.Adds, st.Deletes, st.Modifications, st.DataConflicts, st.ConstraintViolations}
		}
	}()
	_ = doltdb.TableName{}

	if err := must("set @@autocommit = 0", "set @@dolt_allow_commit_conflicts = 1", "set @@dolt_force_transaction_commit = 1"); err != nil {
		return nil, err
	}
	mr := s.Exec("call dolt_merge('other')")
	if mr.Err != "" {
		o.MergeErr += "dolt_merge: " + mr.Err
	} else if len(mr.Rows) > 0 {
		o.MergeRow = mr.Rows[0][1:] // without the commit hash
		if len(o.MergeRow) > 2 {
			o.MergeRow = o.MergeRow[:2]
		}
	}
	for _, tbl := range tables {
		var to TableObs
		r := s.Exec("select pk, a, b from " + tbl + " order by pk")
		if r.Err != "" {
			return nil, fmt.Errorf("select %s: %s", tbl, r.Err)
		}
		to.Rows = r.Rows
		cr := s.Exec("select base_pk, base_a, base_b, our_pk, our_a, our_b, their_pk, their_a, their_b from dolt_conflicts_" + tbl + " order by coalesce(base_pk, our_pk, their_pk)")
		if cr.Err != "" {
			if !strings.Contains(cr.Err, "not found") {
				return nil, fmt.Errorf("conflicts %s: %s", tbl, cr.Err)
			}
			cr.Rows = [][]string{}
		}
		to.Conflicts = cr.Rows
		nc := s.Exec("select num_conflicts from dolt_conflicts where `table` = '" + tbl + "'")
		if len(nc.Rows) > 0 {
			to.NConf = nc.Rows[0][0]
		} else {
			to.NConf = "0"
		}
		to.Stats = stats[tbl]
		o.Tables[tbl] = to
	}
	return o, nil
}
