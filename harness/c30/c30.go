// Package c30: the fast tree-level merge agrees with the row-level merge (property C30).
//
// The same row histories are applied to three tables of one database:
//   t      no constraint: computeProllyTreePatches takes the chunk-level fast path
//   t_chk  same columns + a CHECK that is always true: needsCheckValidation -> row-by-row path
//   t_idx  same columns + a secondary index:           needsSecondaryIndexMerge -> row-by-row path
// Which path runs is a function of the schema alone (canFastMergeProllyTrees), so
// one dolt_merge exercises both on identical inputs. Observed per table: rows,
// conflict rows (base/ours/theirs), and the per-table merge statistics of
// merge.MergeCommits on the same two commits.
package c30

import (
	"context"
	"encoding/json"
	"fmt"
	"math/rand"
	"strings"

	"github.com/dolthub/dolt/go/libraries/doltcore/doltdb"
	"github.com/dolthub/dolt/go/libraries/doltcore/doltdb/durable"
	"github.com/dolthub/dolt/go/libraries/doltcore/merge"
	"github.com/dolthub/dolt/go/libraries/doltcore/ref"
	"github.com/dolthub/dolt/go/libraries/doltcore/sqle/dsess"
	"github.com/dolthub/dolt/go/libraries/doltcore/table/editor"
	"github.com/dolthub/dolt/go/store/prolly/tree"
	"github.com/dolthub/dolt/go/store/val"

	"verifharness/hk"
	"verifharness/util"
)

func init() { hk.Register("c30", Run) }

// a row: pk, a, b (nil = NULL)
type Row struct {
	Pk int  `json:"pk"`
	A  *int `json:"a"`
	B  *int `json:"b"`
}

type Case struct {
	Base  []Row `json:"base"`
	Left  []Row `json:"left"`  // full content of the left branch
	Right []Row `json:"right"` // full content of the right branch
	// directed, boundary-aware cases: the harness builds a multi-chunk base table itself, reads the leaf chunk
	// boundaries of its primary index and places the edits of the two branches on / around boundary keys
	// (all random choices from Seed); the three contents are reported in Obs.In
	Scen    string `json:"scen"`
	Seed    int64  `json:"seed"`
	N       int    `json:"n"`
	Variant int    `json:"variant"`
}

type In struct {
	Base  []Row `json:"base"`
	Left  []Row `json:"left"`
	Right []Row `json:"right"`
}

type Stats struct {
	Adds, Deletes, Modifications, DataConflicts, ConstraintViolations int
}

type TableObs struct {
	Rows      [][]string `json:"rows"`
	Conflicts [][]string `json:"conflicts"` // base_a, base_b, our_a, our_b, their_a, their_b, pk(s)
	Stats     *Stats     `json:"stats"`
	NConf     string     `json:"nconf"`
}

type Obs struct {
	In       *In                 `json:"in,omitempty"`
	Bounds   []int               `json:"bounds,omitempty"` // last pk of every leaf chunk of the base primary index
	Note     string              `json:"note,omitempty"`
	Tables   map[string]TableObs `json:"tables"`
	MergeErr string              `json:"merge_err"`
	MergeRow []string            `json:"merge_row"`
}

var tables = []string{"t", "t_chk", "t_idx"}

func lit(p *int) string {
	if p == nil {
		return "NULL"
	}
	return fmt.Sprint(*p)
}

func eq(x, y *int) bool {
	if x == nil || y == nil {
		return x == nil && y == nil
	}
	return *x == *y
}

// statements that take a table from content |from| to content |to|
func edits(tbl string, from, to []Row) []string {
	var out []string
	old := map[int]Row{}
	for _, r := range from {
		old[r.Pk] = r
	}
	seen := map[int]bool{}
	for _, r := range to {
		seen[r.Pk] = true
		if o, ok := old[r.Pk]; !ok {
			out = append(out, fmt.Sprintf("insert into %s values (%d, %s, %s)", tbl, r.Pk, lit(r.A), lit(r.B)))
		} else if !eq(o.A, r.A) || !eq(o.B, r.B) {
			out = append(out, fmt.Sprintf("update %s set a = %s, b = %s where pk = %d", tbl, lit(r.A), lit(r.B), r.Pk))
		}
	}
	for _, r := range from {
		if !seen[r.Pk] {
			out = append(out, fmt.Sprintf("delete from %s where pk = %d", tbl, r.Pk))
		}
	}
	return out
}

func Run(raw json.RawMessage) (any, error) {
	var c Case
	if err := json.Unmarshal(raw, &c); err != nil {
		return nil, err
	}
	env, err := util.NewEnv(false)
	if err != nil {
		return nil, err
	}
	defer env.Close()
	s, err := env.NewSession()
	if err != nil {
		return nil, err
	}
	must := func(qs ...string) error { return s.MustExec(qs...) }
	if err := must(
		"create table t (pk int primary key, a int, b int)",
		"create table t_chk (pk int primary key, a int, b int, constraint always_true check (pk > -2000000000))",
		"create table t_idx (pk int primary key, a int, b int, key idx_a (a))",
	); err != nil {
		return nil, err
	}
	o := Obs{Tables: map[string]TableObs{}}
	if c.Scen != "" {
		r := rand.New(rand.NewSource(c.Seed))
		c.Base = nil
		for i := 1; i <= c.N; i++ {
			pk := 2 * i
			a, b := (pk*3)%500, (pk*7)%500
			c.Base = append(c.Base, Row{Pk: pk, A: &a, B: &b})
		}
		_ = r
	}
	for _, tbl := range tables {
		if c.Scen != "" {
			// multi-row inserts
			for i := 0; i < len(c.Base); i += 200 {
				var vals []string
				for _, rw := range c.Base[i:min(i+200, len(c.Base))] {
					vals = append(vals, fmt.Sprintf("(%d, %s, %s)", rw.Pk, lit(rw.A), lit(rw.B)))
				}
				if err := must("insert into " + tbl + " values " + strings.Join(vals, ",")); err != nil {
					return nil, err
				}
			}
		} else if err := must(edits(tbl, nil, c.Base)...); err != nil {
			return nil, err
		}
	}
	if err := must("call dolt_commit('-Am', 'base')"); err != nil {
		return nil, err
	}
	if c.Scen != "" {
		bounds, err := leafBounds(s, env.DBName, "t")
		if err != nil {
			return nil, err
		}
		o.Bounds = bounds
		c.Left, c.Right, o.Note = directed(c, bounds)
		o.In = &In{Base: c.Base, Left: c.Left, Right: c.Right}
	}
	if err := must("call dolt_checkout('-b', 'other')"); err != nil {
		return nil, err
	}
	for _, tbl := range tables {
		if err := must(edits(tbl, c.Base, c.Right)...); err != nil {
			return nil, err
		}
	}
	if err := must("call dolt_commit('--allow-empty', '-Am', 'right')", "call dolt_checkout('main')"); err != nil {
		return nil, err
	}
	for _, tbl := range tables {
		if err := must(edits(tbl, c.Base, c.Left)...); err != nil {
			return nil, err
		}
	}
	if err := must("call dolt_commit('--allow-empty', '-Am', 'left')"); err != nil {
		return nil, err
	}

	stats := map[string]*Stats{}
	// merge statistics: merge.MergeCommits on the two branch heads (what dolt_merge calls)
	func() {
		ddb := env.DEnv.DoltDB(context.Background())
		head, err1 := ddb.ResolveCommitRef(s.Ctx, ref.NewBranchRef("main"))
		other, err2 := ddb.ResolveCommitRef(s.Ctx, ref.NewBranchRef("other"))
		if err1 != nil || err2 != nil {
			o.MergeErr = fmt.Sprint("resolve: ", err1, err2)
			return
		}
		res, err := dsess.GetTableResolver(s.Ctx, env.DBName)
		if err != nil {
			o.MergeErr = "resolver: " + err.Error()
			return
		}
		r, err := merge.MergeCommits(s.Ctx, res, head, other, editor.Options{})
		if err != nil {
			o.MergeErr = "MergeCommits: " + err.Error()
			return
		}
		for tn, st := range r.Stats {
			stats[tn.Name] = &Stats{st.Adds, st.Deletes, st.Modifications, st.DataConflicts, st.ConstraintViolations}
		}
	}()
	_ = doltdb.TableName{}

	if err := must("set @@autocommit = 0", "set @@dolt_allow_commit_conflicts = 1", "set @@dolt_force_transaction_commit = 1"); err != nil {
		return nil, err
	}
	mr := s.Exec("call dolt_merge('other')")
	if mr.Err != "" {
		o.MergeErr += "dolt_merge: " + mr.Err
	} else if len(mr.Rows) > 0 {
		o.MergeRow = mr.Rows[0][1:] // without the commit hash
		if len(o.MergeRow) > 2 {
			o.MergeRow = o.MergeRow[:2]
		}
	}
	for _, tbl := range tables {
		var to TableObs
		r := s.Exec("select pk, a, b from " + tbl + " order by pk")
		if r.Err != "" {
			return nil, fmt.Errorf("select %s: %s", tbl, r.Err)
		}
		to.Rows = r.Rows
		cr := s.Exec("select base_pk, base_a, base_b, our_pk, our_a, our_b, their_pk, their_a, their_b from dolt_conflicts_" + tbl + " order by coalesce(base_pk, our_pk, their_pk)")
		if cr.Err != "" {
			if !strings.Contains(cr.Err, "not found") {
				return nil, fmt.Errorf("conflicts %s: %s", tbl, cr.Err)
			}
			cr.Rows = [][]string{}
		}
		to.Conflicts = cr.Rows
		nc := s.Exec("select num_conflicts from dolt_conflicts where `table` = '" + tbl + "'")
		if len(nc.Rows) > 0 {
			to.NConf = nc.Rows[0][0]
		} else {
			to.NConf = "0"
		}
		to.Stats = stats[tbl]
		o.Tables[tbl] = to
	}
	return o, nil
}

// last pk of every leaf chunk of a table's primary index (working root of the session)
func leafBounds(s *util.Session, db, tbl string) ([]int, error) {
	roots, ok := dsess.DSessFromSess(s.Ctx.Session).GetRoots(s.Ctx, db)
	if !ok {
		return nil, fmt.Errorf("no roots for %s", db)
	}
	t, ok, err := roots.Working.GetTable(s.Ctx, doltdb.TableName{Name: tbl})
	if err != nil || !ok {
		return nil, fmt.Errorf("table %s: %v", tbl, err)
	}
	idx, err := t.GetRowData(s.Ctx)
	if err != nil {
		return nil, err
	}
	m, err := durable.ProllyMapFromIndex(idx)
	if err != nil {
		return nil, err
	}
	var out []int
	err = m.WalkNodes(s.Ctx, func(_ context.Context, nd *tree.Node) error {
		if nd.IsLeaf() && nd.Count() > 0 {
			k, _ := m.KeyDesc().GetInt32(0, val.Tuple(nd.GetKey(nd.Count()-1)))
			out = append(out, int(k))
		}
		return nil
	})
	return out, err
}

func rowsWith(rows []Row, pk int, f func(r Row) *Row) []Row {
	var out []Row
	for _, r := range rows {
		if r.Pk == pk {
			if nr := f(r); nr != nil {
				out = append(out, *nr)
			}
			continue
		}
		out = append(out, r)
	}
	return out
}

func bump(p *int, d int) *int { v := *p + d; return &v }

// directed builds the two branch contents around the boundary keys K1 < K2 (last pks of two consecutive leaf chunks).
//   boundary1 (one side edits exactly the last key of a chunk the other side changed elsewhere):
//     left: shifts its chunk boundaries just before (deletes K1 / inserts K1+1 / deletes a key of the previous chunk)
//           and edits K2 (update / delete); right: updates a key in the middle of (K1, K2)
//   boundary2 (both sides edit the last key of a chunk differently):
//     left: updates K2; right: shifts (as above) and updates K2 on the same cell (conflict) or the other cell (cell-wise merge)
//   the -m variants mirror left and right.
func directed(c Case, bounds []int) (left, right []Row, note string) {
	r := rand.New(rand.NewSource(c.Seed + 1))
	left, right = append([]Row{}, c.Base...), append([]Row{}, c.Base...)
	if len(bounds) < 3 {
		return left, right, "too-few-chunks"
	}
	i := r.Intn(len(bounds) - 2)
	k0 := 0
	if i > 0 {
		k0 = bounds[i-1]
	}
	k1, k2 := bounds[i], bounds[i+1]
	mid := k1 + 2*(1+r.Intn(max(1, (k2-k1)/2-1)))
	if mid >= k2 {
		mid = k1 + 2
	}
	shift := func(rows []Row) []Row {
		switch c.Variant % 3 {
		case 0: // delete the boundary key of the previous chunk
			return rowsWith(rows, k1, func(Row) *Row { return nil })
		case 1: // insert a new key right after the previous boundary (odd pk: a gap)
			a, b := 7, 9
			var out []Row
			for _, rw := range rows {
				out = append(out, rw)
				if rw.Pk == k1 {
					out = append(out, Row{Pk: k1 + 1, A: &a, B: &b})
				}
			}
			return out
		default: // delete a key inside the previous chunk
			pk := k0 + 2*(1+r.Intn(max(1, (k1-k0)/2-1)))
			return rowsWith(rows, pk, func(Row) *Row { return nil })
		}
	}
	editK2 := func(rows []Row, onA bool, d int, del bool) []Row {
		return rowsWith(rows, k2, func(rw Row) *Row {
			if del {
				return nil
			}
			if onA {
				rw.A = bump(rw.A, d)
			} else {
				rw.B = bump(rw.B, d)
			}
			return &rw
		})
	}
	var x, y []Row // x: the side that is at row level (shifted), y: the side that holds the chunk-level patch
	switch c.Scen {
	case "boundary1", "boundary1-m":
		x = editK2(shift(left), true, 100, c.Variant%2 == 1 && c.Variant >= 3)
		y = rowsWith(right, mid, func(rw Row) *Row { rw.B = bump(rw.B, 200); return &rw })
	case "boundary2", "boundary2-m":
		y = editK2(left, true, 100, false)
		x = editK2(shift(right), c.Variant < 3, 300, false)
	default:
		return left, right, "unknown-scenario"
	}
	if c.Scen == "boundary1" || c.Scen == "boundary2-m" {
		return x, y, ""
	}
	if c.Scen == "boundary1-m" {
		return y, x, ""
	}
	// boundary2: left holds the range (y), right is shifted (x)
	return y, x, ""
}
