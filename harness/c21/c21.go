// Package c21: CommitWithWorkingSet moves head and working set together (property C21).
// Same driver as c20 (datas.Database handles over one shared chunk store); every case also
// reports the persisted dataset map read from one store root after every action
// (sequential histories) or sampled by a concurrent reader (goroutine batches).
package c21

import (
	"encoding/json"

	"verifharness/c20"
	"verifharness/hk"
)

func init() { hk.Register("c21", Run) }

func Run(raw json.RawMessage) (any, error) {
	var m map[string]json.RawMessage
	if err := json.Unmarshal(raw, &m); err != nil {
		return nil, err
	}
	m["crash"] = json.RawMessage("true")
	b, err := json.Marshal(m)
	if err != nil {
		return nil, err
	}
	return c20.Run(b)
}
