// Package c28: AUTO_INCREMENT values are never handed out twice (property C28).
// Several sessions, each on its own branch of one database, insert into the
// same table with generated and explicit ids; first a deterministic schedule
// (one statement at a time), then real goroutine concurrency.
package c28

import (
	"context"
	"encoding/json"
	"fmt"
	"sort"
	"sync"

	"github.com/dolthub/dolt/go/cmd/dolt/commands/engine"
	"verifharness/util"

	"verifharness/hk"
	"verifharness/sqlsched"
)

func init() { hk.Register("c28", Run) }

const (
	KGen      = 0 // INSERT without id           -> generated
	KExplicit = 1 // INSERT with id = x
	KCommit   = 2
	KRollback = 3
	KSwitch   = 4 // COMMIT, then check out branch x
)

type Case struct {
	NBranch int     `json:"nbranch"` // branches main, b1 .. b(n-1)
	Sess    []int   `json:"sess"`    // branch index of each session
	Autos   []int   `json:"autos"`
	Steps   [][]int `json:"steps"` // [sess, kind, x]
	Par     []int   `json:"par"`   // concurrent phase: inserts per session (goroutine per session)
}

type Obs struct {
	Ids    []int `json:"ids"`    // per step: id the inserted row got (-1 for non-inserts, -2 on error)
	LastID []int `json:"lastid"` // per step: LAST_INSERT_ID() after a generated insert, else -1
	ParIds []int `json:"parids"` // sorted ids handed out in the concurrent phase
	ParErr int   `json:"parerr"`
	Msg    string `json:"msg,omitempty"`
}

func branchName(i int) string {
	if i == 0 {
		return "main"
	}
	return fmt.Sprintf("b%d", i)
}

// ---------------------------------------------------------------------------------------------
// Mode "server": two tables with their own sequences, transactions on branches, ALTER TABLE ..
// AUTO_INCREMENT and restarts of the engine on the same database (tracker initialisation from roots).
type SCase struct {
	Mode    string  `json:"mode"`
	NBranch int     `json:"nbranch"`
	Sess    []int   `json:"sess"`
	Autos   []int   `json:"autos"`
	Steps   [][]int `json:"steps"` // [sess, kind, x, table]: 0 gen, 1 explicit x, 2 commit, 3 rollback, 4 switch to branch x, 5 restart, 6 alter auto_increment = x, 7 drop + create the table on the session's branch
}

type SObs struct {
	Ids []int  `json:"ids"` // id the row got; -1 not an insert; -2 error
	Msg string `json:"msg,omitempty"`
}

var tnames = []string{"t", "u"}

func runServer(raw json.RawMessage) (any, error) {
	var c SCase
	if err := json.Unmarshal(raw, &c); err != nil {
		return nil, err
	}
	setup := []string{"CREATE TABLE t (id int primary key auto_increment, v int)", "CREATE TABLE u (id int primary key auto_increment, v int)",
		"CALL dolt_commit('-Am', 'init')"}
	for b := 1; b < c.NBranch; b++ {
		setup = append(setup, fmt.Sprintf("CALL dolt_branch('%s')", branchName(b)))
	}
	w, err := sqlsched.NewWorld(0, setup)
	if err != nil {
		return nil, err
	}
	defer w.Close()
	cur := append([]int{}, c.Sess...)
	isAuto := func(i int) bool {
		for _, a := range c.Autos {
			if a == i {
				return true
			}
		}
		return false
	}
	var sess []*util.Session
	open := func() error {
		sess = nil
		for i := range c.Sess {
			s, err := w.Env.NewSession()
			if err != nil {
				return err
			}
			mode := "SET autocommit = 0"
			if isAuto(i) {
				mode = "SET autocommit = 1"
			}
			if err := s.MustExec(mode, "ROLLBACK", fmt.Sprintf("CALL dolt_checkout('%s')", branchName(cur[i])), "COMMIT"); err != nil {
				return err
			}
			sess = append(sess, s)
		}
		return nil
	}
	if err := open(); err != nil {
		return nil, err
	}
	var o SObs
	tag := 1000
	for _, st := range c.Steps {
		s, k, x, tb := st[0], st[1], st[2], tnames[st[3]%2]
		id := -1
		switch k {
		case 0, 1:
			tag++
			q := fmt.Sprintf("INSERT INTO %s (v) VALUES (%d)", tb, tag)
			if k == 1 {
				q = fmt.Sprintf("INSERT INTO %s (id, v) VALUES (%d, %d)", tb, x, tag)
			}
			r := sqlsched.Exec(sess[s], q)
			if r.Err != 0 {
				id, o.Msg = -2, r.Msg
				break
			}
			rb := sqlsched.Exec(sess[s], fmt.Sprintf("SELECT id FROM %s WHERE v = %d", tb, tag))
			if rb.Err != 0 || len(rb.Rows) != 1 {
				id, o.Msg = -2, "read back: "+rb.Msg
			} else {
				id = rb.Rows[0][0]
			}
		case 2:
			if r := sqlsched.Exec(sess[s], "COMMIT"); r.Err != 0 {
				id, o.Msg = -2, r.Msg
			}
		case 3:
			if r := sqlsched.Exec(sess[s], "ROLLBACK"); r.Err != 0 {
				id, o.Msg = -2, r.Msg
			}
		case 4:
			if err := sess[s].MustExec("COMMIT", fmt.Sprintf("CALL dolt_checkout('%s')", branchName(x)), "COMMIT"); err != nil {
				id, o.Msg = -2, err.Error()
			}
			cur[s] = x
		case 5:
			w.Env.Eng.Close()
			se, _, err := engine.NewSqlEngineForEnv(context.Background(), w.Env.DEnv)
			if err != nil {
				return nil, err
			}
			w.Env.Eng = se
			if err := open(); err != nil {
				return nil, err
			}
		case 6:
			if err := sess[s].MustExec("COMMIT", fmt.Sprintf("ALTER TABLE %s AUTO_INCREMENT = %d", tb, x), "COMMIT"); err != nil {
				id, o.Msg = -2, err.Error()
			}
		case 7:
			if err := sess[s].MustExec("COMMIT", "DROP TABLE "+tb, fmt.Sprintf("CREATE TABLE %s (id int primary key auto_increment, v int)", tb), "COMMIT"); err != nil {
				id, o.Msg = -2, err.Error()
			}
		}
		o.Ids = append(o.Ids, id)
	}
	return o, nil
}

func Run(raw json.RawMessage) (any, error) {
	var hdr struct {
		Mode string `json:"mode"`
	}
	_ = json.Unmarshal(raw, &hdr)
	if hdr.Mode == "server" {
		return runServer(raw)
	}
	var c Case
	if err := json.Unmarshal(raw, &c); err != nil {
		return nil, err
	}
	setup := []string{"CREATE TABLE t (id int primary key auto_increment, v int)", "CALL dolt_commit('-Am', 'init')"}
	for b := 1; b < c.NBranch; b++ {
		setup = append(setup, fmt.Sprintf("CALL dolt_branch('%s')", branchName(b)))
	}
	w, err := sqlsched.NewWorld(len(c.Sess), setup, c.Autos...)
	if err != nil {
		return nil, err
	}
	defer w.Close()
	for i, b := range c.Sess {
		if err := w.Sess[i].MustExec(fmt.Sprintf("CALL dolt_checkout('%s')", branchName(b)), "COMMIT"); err != nil {
			return nil, err
		}
	}
	var o Obs
	tag := 1000
	insert := func(s int, explicit int) (id, last int, msg string) {
		tag++
		var q string
		if explicit >= 0 {
			q = fmt.Sprintf("INSERT INTO t (id, v) VALUES (%d, %d)", explicit, tag)
		} else {
			q = fmt.Sprintf("INSERT INTO t (v) VALUES (%d)", tag)
		}
		r := sqlsched.Exec(w.Sess[s], q)
		if r.Err != 0 {
			return -2, -1, r.Msg
		}
		last = -1
		if explicit < 0 {
			l := sqlsched.Exec(w.Sess[s], "SELECT LAST_INSERT_ID()")
			if l.Err == 0 && len(l.Rows) == 1 {
				last = l.Rows[0][0]
			}
		}
		rb := sqlsched.Exec(w.Sess[s], fmt.Sprintf("SELECT id FROM t WHERE v = %d", tag))
		if rb.Err != 0 || len(rb.Rows) != 1 {
			return -2, last, "read back: " + rb.Msg
		}
		return rb.Rows[0][0], last, ""
	}
	for _, st := range c.Steps {
		s, k, x := st[0], st[1], st[2]
		id, last := -1, -1
		switch k {
		case KGen:
			var m string
			id, last, m = insert(s, -1)
			if m != "" {
				o.Msg = m
			}
		case KExplicit:
			var m string
			id, last, m = insert(s, x)
			if m != "" {
				o.Msg = m
			}
		case KCommit:
			if r := sqlsched.Exec(w.Sess[s], "COMMIT"); r.Err != 0 {
				id, o.Msg = -2, r.Msg
			}
		case KRollback:
			if r := sqlsched.Exec(w.Sess[s], "ROLLBACK"); r.Err != 0 {
				id, o.Msg = -2, r.Msg
			}
		case KSwitch:
			if err := w.Sess[s].MustExec("COMMIT", fmt.Sprintf("CALL dolt_checkout('%s')", branchName(x)), "COMMIT"); err != nil {
				id, o.Msg = -2, err.Error()
			}
		}
		o.Ids = append(o.Ids, id)
		o.LastID = append(o.LastID, last)
	}
	// concurrent phase: one goroutine per session, generated inserts only
	var mu sync.Mutex
	var wg sync.WaitGroup
	o.ParIds = []int{}
	for s, n := range c.Par {
		if s >= len(w.Sess) || n == 0 {
			continue
		}
		wg.Add(1)
		go func(s, n int) {
			defer wg.Done()
			for j := 0; j < n; j++ {
				r := sqlsched.Exec(w.Sess[s], "INSERT INTO t (v) VALUES (7)")
				if r.Err != 0 {
					mu.Lock()
					o.ParErr++
					o.Msg = r.Msg
					mu.Unlock()
					continue
				}
				l := sqlsched.Exec(w.Sess[s], "SELECT LAST_INSERT_ID()")
				mu.Lock()
				if l.Err == 0 && len(l.Rows) == 1 {
					o.ParIds = append(o.ParIds, l.Rows[0][0])
				} else {
					o.ParErr++
				}
				mu.Unlock()
			}
			sqlsched.Exec(w.Sess[s], "ROLLBACK")
		}(s, n)
	}
	wg.Wait()
	sort.Ints(o.ParIds)
	return o, nil
}
