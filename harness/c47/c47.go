// Package c47: DROP DATABASE / dolt_undrop / dolt_purge_dropped_databases
// through SQL on an on-disk environment (property C47).
//
// One case = a list of operations on one engine whose data directory holds the
// root database "test" (util.NewEnv(true)) and any number of nested databases:
//
//	create n        CREATE DATABASE `n`
//	mut n m i       a content change of live database n (kind m, unique number i)
//	drop n          DROP DATABASE `n`
//	undrop n        CALL dolt_undrop('n')
//	purge           CALL dolt_purge_dropped_databases()
//	burst n g       CREATE DATABASE n; DROP DATABASE n; ... at least g generations back to back (no other
//	                statements in between except the cheap observations below), continued up to 6
//	                generations until two consecutive drops fall into the same wall-clock second;
//	                reported as its individual create / drop steps
//
// After every operation the harness reports whether it succeeded, the live
// databases (exact names) each with a logical fingerprint (every branch with its
// HEAD / WORKING / STAGED root hashes, dolt_hashof_db, log hashes, status, tags,
// and the rows of every table of every branch's working set), and the names
// present in the dropped-database holding directory.
package c47

import (
	"crypto/sha1"
	"encoding/hex"
	"encoding/json"
	"fmt"
	"sort"
	"strings"
	"time"

	"verifharness/hk"
	"verifharness/util"
)

func init() { hk.Register("c47", Run) }

type Op struct {
	K string `json:"k"`
	N string `json:"n"`
	M int    `json:"m"`
	I int    `json:"i"`
	G int    `json:"g"` // burst: at least this many create+drop generations of n, back to back
}

type Case struct {
	Ops   []Op `json:"ops"`
	Debug bool `json:"debug"`
}

type LiveDB struct {
	Name string `json:"name"`
	FP   string `json:"fp"`
	Text string `json:"text,omitempty"`
}

type StepObs struct {
	// the operation this observation belongs to (a burst is reported as its create / drop steps)
	K       string   `json:"k"`
	N       string   `json:"n,omitempty"`
	M       int      `json:"m"`
	I       int      `json:"i"`
	Sec     int64    `json:"sec,omitempty"`     // drop inside a burst: wall-clock second at which it was issued
	SameSec bool     `json:"samesec,omitempty"` // ... and it is the same second as the previous drop of the burst
	OK      bool     `json:"ok"`
	Arg     string   `json:"arg,omitempty"` // undropx: the holding-directory name that was used
	Msg     string   `json:"msg,omitempty"`
	Live    []LiveDB `json:"live"`
	Dropped []string `json:"dropped"`
}

type Obs struct {
	Init  StepObs   `json:"init"`
	Steps []StepObs `json:"steps"`
}

const droppedDir = ".dolt_dropped_databases"

func str(v string) string { return strings.TrimPrefix(v, "s:") }

func q(s *util.Session, b *strings.Builder, label, query string) [][]string {
	r := s.Exec(query)
	fmt.Fprintf(b, "%s:", label)
	if r.Err != "" {
		fmt.Fprintf(b, "ERR(%s)", r.Err)
	}
	for _, row := range r.Rows {
		fmt.Fprintf(b, "[%s]", strings.Join(row, ","))
	}
	b.WriteString("\n")
	return r.Rows
}

// fingerprint of one live database, read through the observer session
func fingerprint(s *util.Session, name string) (string, string) {
	var b strings.Builder
	if r := s.Exec(fmt.Sprintf("USE `%s`", name)); r.Err != "" {
		return "ERR:" + r.Err, r.Err
	}
	q(s, &b, "active", "SELECT active_branch()")
	branches := q(s, &b, "branches", "SELECT name, hash, latest_commit_message FROM dolt_branches ORDER BY name")
	q(s, &b, "tags", "SELECT tag_name, tag_hash, message FROM dolt_tags ORDER BY tag_name")
	q(s, &b, "hashof_db", "SELECT dolt_hashof_db()")
	for _, br := range branches {
		bn := str(br[0])
		fmt.Fprintf(&b, "== branch %s\n", bn)
		if r := s.Exec(fmt.Sprintf("USE `%s/%s`", name, bn)); r.Err != "" {
			fmt.Fprintf(&b, "USE ERR %s\n", r.Err)
			continue
		}
		q(s, &b, "roots", "SELECT dolt_hashof_db('HEAD'), dolt_hashof_db('STAGED'), dolt_hashof_db('WORKING'), dolt_hashof_db()")
		q(s, &b, "hashof_db_branch", fmt.Sprintf("SELECT dolt_hashof_db('%s')", bn))
		q(s, &b, "log", "SELECT commit_hash, message FROM dolt_log")
		q(s, &b, "status", "SELECT table_name, staged, status FROM dolt_status ORDER BY table_name, staged")
		// HEAD and STAGED contents are pinned by their root hashes above; the working set's rows are listed
		r := s.Exec("SHOW TABLES")
		names := []string{}
		for _, row := range r.Rows {
			names = append(names, str(row[0]))
		}
		sort.Strings(names)
		fmt.Fprintf(&b, "tables: %s %s\n", strings.Join(names, ","), r.Err)
		for _, t := range names {
			rr := s.Exec(fmt.Sprintf("SELECT * FROM `%s`", t))
			util.SortRows(rr.Rows)
			fmt.Fprintf(&b, " %s %v:", t, rr.Cols)
			for _, row := range rr.Rows {
				fmt.Fprintf(&b, "[%s]", strings.Join(row, ","))
			}
			fmt.Fprintf(&b, "%s\n", rr.Err)
		}
	}
	h := sha1.Sum([]byte(b.String()))
	return hex.EncodeToString(h[:8]), b.String()
}

func observe(env *util.Env, debug bool) ([]LiveDB, []string) {
	live := []LiveDB{}
	s, err := env.NewSession()
	if err == nil {
		s.Ctx.SetCurrentDatabase("information_schema")
		r := s.Exec("SHOW DATABASES")
		names := []string{}
		for _, row := range r.Rows {
			n := str(row[0])
			if n == "information_schema" || n == "mysql" {
				continue
			}
			names = append(names, n)
		}
		sort.Strings(names)
		_ = s.MustExec("SET @@autocommit = 1")
		for _, n := range names {
			fp, text := fingerprint(s, n)
			l := LiveDB{Name: n, FP: fp}
			if debug {
				l.Text = text
			}
			live = append(live, l)
		}
	}
	_, dropped := observeDropped(env)
	return live, dropped
}

func observeDropped(env *util.Env) (bool, []string) {
	dropped := []string{}
	fs := env.DEnv.FS
	if ok, _ := fs.Exists(droppedDir); ok {
		_ = fs.Iter(droppedDir, false, func(path string, size int64, isDir bool) bool {
			i := strings.LastIndex(path, "/")
			dropped = append(dropped, path[i+1:])
			return false
		})
	}
	sort.Strings(dropped)
	return true, dropped
}

func mutate(s *util.Session, op Op) util.Result {
	run := func(qs ...string) util.Result {
		var r util.Result
		for _, x := range qs {
			r = s.Exec(x)
			if r.Err != "" {
				r.Err = x + ": " + r.Err
				return r
			}
		}
		return r
	}
	if r := s.Exec(fmt.Sprintf("USE `%s`", op.N)); r.Err != "" {
		return r
	}
	i := op.I
	tbl := fmt.Sprintf("CREATE TABLE IF NOT EXISTS t%d (pk int primary key, v int)", op.M%2)
	tn := fmt.Sprintf("t%d", op.M%2)
	switch op.M {
	case 0, 1: // committed row (table created on demand)
		return run(tbl, fmt.Sprintf("INSERT INTO %s VALUES (%d,%d)", tn, i, i*7), fmt.Sprintf("CALL dolt_commit('-A','-m','m%d')", i))
	case 2: // uncommitted, unstaged change
		return run(tbl, fmt.Sprintf("INSERT INTO %s VALUES (%d,%d)", tn, i, i*7))
	case 3: // staged change
		return run(tbl, fmt.Sprintf("INSERT INTO %s VALUES (%d,%d)", tn, i, i*7), "CALL dolt_add('-A')")
	case 4: // new branch with its own commit
		return run(fmt.Sprintf("CALL dolt_branch('b%d')", i), fmt.Sprintf("USE `%s/b%d`", op.N, i),
			fmt.Sprintf("CREATE TABLE IF NOT EXISTS u%d (pk int primary key, v int)", i), fmt.Sprintf("INSERT INTO u%d VALUES (%d,%d)", i, i, i),
			fmt.Sprintf("CALL dolt_commit('-A','-m','b%d')", i))
	case 5: // tag
		return run(fmt.Sprintf("CALL dolt_tag('g%d','HEAD','-m','tag%d')", i, i))
	case 6: // uncommitted new table on a new branch (dirty working set on a non-default branch)
		return run(fmt.Sprintf("CALL dolt_branch('w%d')", i), fmt.Sprintf("USE `%s/w%d`", op.N, i),
			fmt.Sprintf("CREATE TABLE n%d (pk int primary key, v int)", i), fmt.Sprintf("INSERT INTO n%d VALUES (%d,%d)", i, i, i))
	}
	return util.Result{Err: "unknown mutation"}
}

// cheap observation inside a burst: SHOW DATABASES and the holding directory are read; fingerprints of databases
// already seen in the previous observation are carried over (the full observation that ends the burst re-reads
// every one of them, so a change is still noticed, one step later), new names are fingerprinted.
func observeCheap(env *util.Env, prev []LiveDB, fresh string) ([]LiveDB, []string) {
	live := []LiveDB{}
	s, err := env.NewSession()
	if err != nil {
		return live, nil
	}
	s.Ctx.SetCurrentDatabase("information_schema")
	_ = s.MustExec("SET @@autocommit = 1")
	r := s.Exec("SHOW DATABASES")
	names := []string{}
	for _, row := range r.Rows {
		n := str(row[0])
		if n != "information_schema" && n != "mysql" {
			names = append(names, n)
		}
	}
	sort.Strings(names)
	for _, n := range names {
		fp := ""
		if !strings.EqualFold(n, fresh) {
			for _, p := range prev {
				if p.Name == n {
					fp = p.FP
				}
			}
		}
		if fp == "" {
			fp, _ = fingerprint(s, n)
		}
		live = append(live, LiveDB{Name: n, FP: fp})
	}
	_, dropped := observeDropped(env)
	return live, dropped
}

func exec1(env *util.Env, q string) util.Result {
	s, err := env.NewSession()
	if err != nil {
		return util.Result{Err: err.Error()}
	}
	s.Ctx.SetCurrentDatabase("information_schema")
	if e := s.MustExec("SET @@autocommit = 1"); e != nil {
		return util.Result{Err: e.Error()}
	}
	return s.Exec(q)
}

func burst(env *util.Env, op Op, prev []LiveDB, debug bool) []StepObs {
	out := []StepObs{}
	var lastSec int64
	hit := false
	minG := op.G
	if minG < 3 {
		minG = 3
	}
	for g := 1; g <= 6 && !(hit && g > minG); g++ {
		r := exec1(env, fmt.Sprintf("CREATE DATABASE `%s`", op.N))
		o := StepObs{K: "create", N: op.N, OK: r.Err == "", Msg: r.Err}
		o.Live, o.Dropped = observeCheap(env, prev, op.N)
		out = append(out, o)
		prev = o.Live
		if r.Err != "" {
			break
		}
		if g == 2 && time.Now().Nanosecond() > 300_000_000 {
			// start the second generation's drop right after a second boundary so that the third follows within the same second
			time.Sleep(time.Duration(1_000_000_000-time.Now().Nanosecond())*time.Nanosecond + 2*time.Millisecond)
		}
		sec := time.Now().Unix()
		r = exec1(env, fmt.Sprintf("DROP DATABASE `%s`", op.N))
		o = StepObs{K: "drop", N: op.N, OK: r.Err == "", Msg: r.Err, Sec: sec, SameSec: g >= 3 && sec == lastSec}
		if o.SameSec {
			hit = true
		}
		lastSec = sec
		o.Live, o.Dropped = observeCheap(env, prev, "")
		out = append(out, o)
		prev = o.Live
		if r.Err != "" {
			break
		}
	}
	// the burst ends with a full observation
	if n := len(out); n > 0 {
		out[n-1].Live, out[n-1].Dropped = observe(env, debug)
	}
	return out
}

func Run(raw json.RawMessage) (any, error) {
	var c Case
	if err := json.Unmarshal(raw, &c); err != nil {
		return nil, err
	}
	env, err := util.NewEnv(true)
	if err != nil {
		return nil, err
	}
	defer env.Close()
	var obs Obs
	obs.Steps = []StepObs{}
	obs.Init.OK = true
	obs.Init.K = "init"
	obs.Init.Live, obs.Init.Dropped = observe(env, c.Debug)
	prevLive := obs.Init.Live
	for _, op := range c.Ops {
		if op.K == "burst" {
			steps := burst(env, op, prevLive, c.Debug)
			obs.Steps = append(obs.Steps, steps...)
			if len(steps) > 0 {
				prevLive = steps[len(steps)-1].Live
			}
			continue
		}
		s, err := env.NewSession()
		if err != nil {
			return nil, err
		}
		s.Ctx.SetCurrentDatabase("information_schema")
		var r util.Result
		arg := ""
		if e := s.MustExec("SET @@autocommit = 1"); e != nil {
			r.Err = e.Error()
		} else {
			switch op.K {
			case "create":
				r = s.Exec(fmt.Sprintf("CREATE DATABASE `%s`", op.N))
			case "drop":
				r = s.Exec(fmt.Sprintf("DROP DATABASE `%s`", op.N))
			case "undrop":
				r = s.Exec(fmt.Sprintf("CALL dolt_undrop('%s')", op.N))
			case "undropx": // restore an earlier generation that was moved aside: <n>.backup.<millis>
				_, dr := observeDropped(env)
				o0 := op.N + ".backup.none"
				for _, d := range dr {
					if strings.HasPrefix(d, op.N+".backup.") {
						o0 = d
						break
					}
				}
				arg = o0
				r = s.Exec(fmt.Sprintf("CALL dolt_undrop('%s')", o0))
			case "purge":
				r = s.Exec("CALL dolt_purge_dropped_databases()")
			case "mut":
				r = mutate(s, op)
			default:
				return nil, fmt.Errorf("unknown op %q", op.K)
			}
		}
		o := StepObs{K: op.K, N: op.N, M: op.M, I: op.I}
		o.OK, o.Msg, o.Arg = r.Err == "", r.Err, arg
		o.Live, o.Dropped = observe(env, c.Debug)
		obs.Steps = append(obs.Steps, o)
		prevLive = o.Live
	}
	return obs, nil
}
