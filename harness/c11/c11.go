// Package c11: prolly maps as sorted dictionaries (property C11).
//
// One case builds a real prolly.Map from (key, value) pairs, dumps the shape of
// the real tree (nodes as nested lists, keys as small integers), runs every
// read API of prolly.Map, then drives a prolly.MutableMap through a sequence of
// Put / Delete / Checkpoint / Revert / flush operations and probes every read
// API of the mutable map at the requested points.
//
// Keys are tuples (a uint32, b uint32, pad bytes); the model key is a*W+b.
// The pad column is constant and only widens the tuples so that small maps
// give multi-level trees. Values are (v int64, pad bytes).
package c11

import (
	"context"
	"encoding/json"
	"fmt"
	"io"

	"github.com/dolthub/dolt/go/store/hash"
	"github.com/dolthub/dolt/go/store/prolly"
	"github.com/dolthub/dolt/go/store/prolly/tree"
	"github.com/dolthub/dolt/go/store/val"

	"verifharness/hk"
)

func init() { hk.Register("c11", Run) }

const W = 16

type Op struct {
	T    string `json:"t"` // put del cp rv fl rd
	K    int    `json:"k"`
	V    int    `json:"v"`
	Deep bool   `json:"deep"`
}

type Case struct {
	KW   int      `json:"kw"` // key pad width
	VW   int      `json:"vw"` // value pad width
	Init [][2]int `json:"init"`
	MaxP int      `json:"maxp"`
	Ops  []Op     `json:"ops"`
	Q    []int    `json:"q"`   // probe keys
	Pre  []int    `json:"pre"` // prefix probes (values of column a)
	Rng  [][]*int `json:"rng"` // key ranges [lo, hi), null = unbounded
	Ord  [][2]int `json:"ord"` // ordinal ranges
}

type Env struct {
	Ctx    context.Context
	Ns     tree.NodeStore
	kd, vd *val.TupleDesc
	pd     *val.TupleDesc
	kb, vb *val.TupleBuilder
	pb     *val.TupleBuilder
	kpad   []byte
	vpad   []byte
	// Enc (C13): values are exchanged as codes 2*v+nc; nc=1 is the same row stored
	// non-canonically (the trailing NULL pad field kept: | v | off1 | count=2 |),
	// which no TupleBuilder produces. The pad column is then nullable and NULL.
	Enc bool
}

func NewEnv(kw, vw int) *Env {
	e := &Env{Ctx: context.Background(), Ns: tree.NewTestNodeStore()}
	e.kd = val.NewTupleDescriptor(val.Type{Enc: val.Uint32Enc}, val.Type{Enc: val.Uint32Enc}, val.Type{Enc: val.ByteStringEnc})
	e.vd = val.NewTupleDescriptor(val.Type{Enc: val.Int64Enc}, val.Type{Enc: val.ByteStringEnc})
	e.pd = e.kd.PrefixDesc(1)
	e.kb = val.NewTupleBuilder(e.kd, e.Ns)
	e.vb = val.NewTupleBuilder(e.vd, e.Ns)
	e.pb = val.NewTupleBuilder(e.pd, e.Ns)
	e.kpad = make([]byte, kw)
	for i := range e.kpad {
		e.kpad[i] = byte('k')
	}
	e.vpad = make([]byte, vw)
	for i := range e.vpad {
		e.vpad[i] = byte('v')
	}
	return e
}

// NewEnvEnc: like NewEnv(kw, 0) with a nullable, always-NULL pad column in the value and
// values exchanged as codes 2*v+nc (see Env.Enc).
func NewEnvEnc(kw int) *Env {
	e := NewEnv(kw, 0)
	e.vd = val.NewTupleDescriptor(val.Type{Enc: val.Int64Enc}, val.Type{Enc: val.ByteStringEnc, Nullable: true})
	e.vb = val.NewTupleBuilder(e.vd, e.Ns)
	e.Enc = true
	return e
}

// FreshDescs returns separately allocated descriptors Equal to the environment's.
func (e *Env) FreshDescs() (*val.TupleDesc, *val.TupleDesc) {
	kd := val.NewTupleDescriptor(val.Type{Enc: val.Uint32Enc}, val.Type{Enc: val.Uint32Enc}, val.Type{Enc: val.ByteStringEnc})
	vd := val.NewTupleDescriptor(val.Type{Enc: val.Int64Enc}, val.Type{Enc: val.ByteStringEnc, Nullable: true})
	return kd, vd
}

func (e *Env) Descs() (*val.TupleDesc, *val.TupleDesc) { return e.kd, e.vd }

func (e *Env) Key(k int) val.Tuple {
	e.kb.PutUint32(0, uint32(k/W))
	e.kb.PutUint32(1, uint32(k%W))
	e.kb.PutByteString(2, e.kpad)
	t, err := e.kb.Build(e.Ctx, e.Ns.Pool())
	if err != nil {
		panic(err)
	}
	return t
}

func (e *Env) Pre(a int) val.Tuple {
	e.pb.PutUint32(0, uint32(a))
	t, err := e.pb.Build(e.Ctx, e.Ns.Pool())
	if err != nil {
		panic(err)
	}
	return t
}

func (e *Env) Val(v int) val.Tuple {
	if e.Enc {
		e.vb.PutInt64(0, int64(v/2))
		t, err := e.vb.Build(e.Ctx, e.Ns.Pool()) // pad left NULL: trimmed, count = 1
		if err != nil {
			panic(err)
		}
		if v%2 == 0 {
			return t
		}
		if t.Count() != 1 {
			panic("canonical value tuple expected to have one field")
		}
		// hand-crafted: the same field bytes, an explicit (empty = NULL) second field
		data := t[:len(t)-2]
		nc := make([]byte, 0, len(data)+4)
		nc = append(nc, data...)
		nc = append(nc, byte(len(data)), byte(len(data)>>8)) // offset of field 1
		nc = append(nc, 2, 0)                                // field count
		return val.Tuple(nc)
	}
	e.vb.PutInt64(0, int64(v))
	e.vb.PutByteString(1, e.vpad)
	t, err := e.vb.Build(e.Ctx, e.Ns.Pool())
	if err != nil {
		panic(err)
	}
	return t
}

func (e *Env) KeyOf(t val.Tuple) int {
	a, _ := e.kd.GetUint32(0, t)
	b, _ := e.kd.GetUint32(1, t)
	return int(a)*W + int(b)
}

func (e *Env) ValOf(t val.Tuple) int {
	v, _ := e.vd.GetInt64(0, t)
	if e.Enc {
		nc := 0
		if t.Count() > 1 {
			nc = 1
		}
		return 2*int(v) + nc
	}
	return int(v)
}

func (e *Env) Build(init [][2]int) prolly.Map {
	tups := make([]val.Tuple, 0, 2*len(init))
	for _, kv := range init {
		tups = append(tups, e.Key(kv[0]), e.Val(kv[1]))
	}
	m, err := prolly.NewMapFromTuples(e.Ctx, e.Ns, e.kd, e.vd, tups...)
	if err != nil {
		panic(err)
	}
	return m
}

// Shape is the dump of one node: leaf {"l": [[k,v]...]} or inner {"n": [[k,cnt,child]...]}.
type Shape struct {
	L [][2]int `json:"l,omitempty"`
	N []Child  `json:"n,omitempty"`
	// Leaf distinguishes an empty leaf from an (impossible) empty inner node
	Leaf bool `json:"leaf"`
}

type Child struct {
	K int    `json:"k"`
	C int    `json:"c"`
	T *Shape `json:"t"`
}

func (e *Env) Dump(nd *tree.Node) *Shape {
	if nd.IsLeaf() {
		s := &Shape{Leaf: true, L: [][2]int{}}
		for i := 0; i < nd.Count(); i++ {
			s.L = append(s.L, [2]int{e.KeyOf(val.Tuple(nd.GetKey(i))), e.ValOf(val.Tuple(nd.GetValue(i)))})
		}
		return s
	}
	s := &Shape{N: []Child{}}
	nd, err := nd.LoadSubtrees()
	if err != nil {
		panic(err)
	}
	for i := 0; i < nd.Count(); i++ {
		ch, err := e.Ns.Read(e.Ctx, hash.New(nd.GetValue(i)))
		if err != nil {
			panic(err)
		}
		s.N = append(s.N, Child{K: e.KeyOf(val.Tuple(nd.GetKey(i))), C: int(nd.GetSubtreeCount(i)), T: e.Dump(ch)})
	}
	return s
}

func (e *Env) Drain(it prolly.MapIter, err error) [][2]int {
	if err != nil {
		panic(err)
	}
	out := [][2]int{}
	for {
		k, v, err := it.Next(e.Ctx)
		if err == io.EOF {
			return out
		}
		if err != nil {
			panic(err)
		}
		out = append(out, [2]int{e.KeyOf(k), e.ValOf(v)})
		if len(out) > 1000000 {
			panic("iterator does not terminate")
		}
	}
}

// SafeDrain drains an iterator; a panic inside the implementation's iterator is
// reported as nil (the observation "this call blew up") instead of losing the whole case.
func (e *Env) SafeDrain(mk func() (prolly.MapIter, error)) (out *[][2]int) {
	defer func() {
		if p := recover(); p != nil {
			out = nil
		}
	}()
	l := e.Drain(mk())
	return &l
}

func (e *Env) Bound(b *int) val.Tuple {
	if b == nil {
		return nil
	}
	return e.Key(*b)
}

type SReads struct {
	Get    []*int      `json:"get"`
	Has    []bool      `json:"has"`
	GetP   [][]int     `json:"getp"` // [] absent, [k,v] found
	HasP   []bool      `json:"hasp"`
	All    [][2]int    `json:"all"`
	Rev    [][2]int    `json:"rev"`
	Rng    []*[][2]int `json:"rng"` // null = the call panicked
	OrdRng []*[][2]int `json:"ordrng"` // null = error
	Fetch  []*[][2]int `json:"fetch"`  // FetchOrdinalRange
	Ord    []int       `json:"ord"`
	Card   []int       `json:"card"`
	Count  int         `json:"count"`
	Last   *int        `json:"last"`
	Height int         `json:"height"`
}

func (e *Env) StaticReads(m prolly.Map, c *Case) SReads {
	var r SReads
	for _, q := range c.Q {
		var got *int
		err := m.Get(e.Ctx, e.Key(q), func(k, v val.Tuple) error {
			if k != nil {
				x := e.ValOf(v)
				if e.KeyOf(k) != q {
					x = -1
				}
				got = &x
			}
			return nil
		})
		if err != nil {
			panic(err)
		}
		r.Get = append(r.Get, got)
		h, err := m.Has(e.Ctx, e.Key(q))
		if err != nil {
			panic(err)
		}
		r.Has = append(r.Has, h)
		o, err := m.GetOrdinalForKey(e.Ctx, e.Key(q))
		if err != nil {
			panic(err)
		}
		r.Ord = append(r.Ord, int(o))
	}
	for _, a := range c.Pre {
		gp := []int{}
		err := m.GetPrefix(e.Ctx, e.Pre(a), e.pd, func(k, v val.Tuple) error {
			if k != nil {
				gp = []int{e.KeyOf(k), e.ValOf(v)}
			}
			return nil
		})
		if err != nil {
			panic(err)
		}
		r.GetP = append(r.GetP, gp)
		h, err := m.HasPrefix(e.Ctx, e.Pre(a), e.pd)
		if err != nil {
			panic(err)
		}
		r.HasP = append(r.HasP, h)
	}
	r.All = e.Drain(m.IterAll(e.Ctx))
	r.Rev = e.Drain(m.IterAllReverse(e.Ctx))
	for _, rg := range c.Rng {
		lo, hi := e.Bound(rg[0]), e.Bound(rg[1])
		r.Rng = append(r.Rng, e.SafeDrain(func() (prolly.MapIter, error) { return m.IterKeyRange(e.Ctx, lo, hi) }))
		n, err := m.GetKeyRangeCardinality(e.Ctx, e.Bound(rg[0]), e.Bound(rg[1]))
		if err != nil {
			panic(err)
		}
		r.Card = append(r.Card, int(n))
	}
	for _, ab := range c.Ord {
		it, err := m.IterOrdinalRange(e.Ctx, uint64(ab[0]), uint64(ab[1]))
		if err != nil {
			r.OrdRng = append(r.OrdRng, nil)
		} else {
			l := e.Drain(it, nil)
			r.OrdRng = append(r.OrdRng, &l)
		}
		it, err = m.FetchOrdinalRange(e.Ctx, uint64(ab[0]), uint64(ab[1]))
		if err != nil {
			r.Fetch = append(r.Fetch, nil)
		} else {
			l := e.Drain(it, nil)
			r.Fetch = append(r.Fetch, &l)
		}
	}
	n, err := m.Count()
	if err != nil {
		panic(err)
	}
	r.Count = n
	if lk := m.LastKey(e.Ctx); lk != nil {
		x := e.KeyOf(lk)
		r.Last = &x
	}
	r.Height = m.Height()
	return r
}

type MReads struct {
	At    int        `json:"at"` // index of the rd op
	Get   []*int     `json:"get"`
	Has   []bool     `json:"has"`
	GetP  [][]int    `json:"getp"`
	HasP  []bool     `json:"hasp"`
	All   [][2]int   `json:"all"`
	Rng   [][][2]int `json:"rng"`  // IterRange on column a: [lo/W, hi/W)
	KRng  []*[][2]int `json:"krng"` // IterKeyRange; null = the call panicked
	Map   *Shape     `json:"map"`  // Map(): materialised tree
	Edits bool       `json:"edits"`
}

func (e *Env) ARange(lo, hi *int) prolly.Range {
	f := prolly.RangeField{}
	if lo != nil {
		f.Lo = prolly.Bound{Binding: true, Inclusive: true, Value: e.pd.GetField(0, e.Pre(*lo/W))}
	}
	if hi != nil {
		f.Hi = prolly.Bound{Binding: true, Inclusive: false, Value: e.pd.GetField(0, e.Pre(*hi/W))}
	}
	return prolly.Range{Fields: []prolly.RangeField{f}, Desc: e.kd}
}

func (e *Env) MutReads(mut *prolly.MutableMap, c *Case, at int) MReads {
	r := MReads{At: at}
	for _, q := range c.Q {
		var got *int
		err := mut.Get(e.Ctx, e.Key(q), func(k, v val.Tuple) error {
			if k != nil {
				x := e.ValOf(v)
				if e.KeyOf(k) != q {
					x = -1
				}
				got = &x
			}
			return nil
		})
		if err != nil {
			panic(err)
		}
		r.Get = append(r.Get, got)
		h, err := mut.Has(e.Ctx, e.Key(q))
		if err != nil {
			panic(err)
		}
		r.Has = append(r.Has, h)
	}
	for _, a := range c.Pre {
		gp := []int{}
		err := mut.GetPrefix(e.Ctx, e.Pre(a), e.pd, func(k, v val.Tuple) error {
			if k != nil {
				gp = []int{e.KeyOf(k), e.ValOf(v)}
			}
			return nil
		})
		if err != nil {
			panic(err)
		}
		r.GetP = append(r.GetP, gp)
		h, err := mut.HasPrefix(e.Ctx, e.Pre(a), e.pd)
		if err != nil {
			panic(err)
		}
		r.HasP = append(r.HasP, h)
	}
	r.All = e.Drain(mut.IterAll(e.Ctx))
	for _, rg := range c.Rng {
		r.Rng = append(r.Rng, e.Drain(mut.IterRange(e.Ctx, e.ARange(rg[0], rg[1]))))
		lo, hi := e.Bound(rg[0]), e.Bound(rg[1])
		r.KRng = append(r.KRng, e.SafeDrain(func() (prolly.MapIter, error) { return mut.IterKeyRange(e.Ctx, lo, hi) }))
	}
	m, err := mut.Map(e.Ctx)
	if err != nil {
		panic(err)
	}
	r.Map = e.Dump(m.Node())
	r.Edits = mut.HasEdits()
	return r
}

type Obs struct {
	Tree0  *Shape   `json:"tree0"`
	S0     SReads   `json:"s0"`
	Flush  []*Shape `json:"flush"` // per op: static tree after the op when it changed, else null
	Pend   []int    `json:"pend"`  // per op: number of pending keys after the op
	Stash  []bool   `json:"stash"`
	Reads  []MReads `json:"reads"`
	Height int      `json:"height"`
}

func Run(raw json.RawMessage) (any, error) {
	var c Case
	if err := json.Unmarshal(raw, &c); err != nil {
		return nil, err
	}
	e := NewEnv(c.KW, c.VW)
	m := e.Build(c.Init)
	var o Obs
	o.Tree0 = e.Dump(m.Node())
	o.S0 = e.StaticReads(m, &c)
	o.Height = m.Height()
	o.Flush = []*Shape{}
	o.Pend = []int{}
	o.Stash = []bool{}
	o.Reads = []MReads{}
	if len(c.Ops) == 0 {
		return o, nil
	}
	mut := m.Mutate()
	if c.MaxP > 0 {
		mut = mut.WithMaxPending(c.MaxP)
	}
	for i, op := range c.Ops {
		before := mut.VerifStatic().Root.HashOf()
		switch op.T {
		case "put":
			if err := mut.Put(e.Ctx, e.Key(op.K), e.Val(op.V)); err != nil {
				panic(err)
			}
		case "del":
			if err := mut.Delete(e.Ctx, e.Key(op.K)); err != nil {
				panic(err)
			}
		case "cp":
			if err := mut.Checkpoint(e.Ctx); err != nil {
				panic(err)
			}
		case "rv":
			mut.Revert(e.Ctx)
		case "fl":
			if err := mut.VerifFlush(e.Ctx, op.Deep); err != nil {
				panic(err)
			}
		case "rd":
			o.Reads = append(o.Reads, e.MutReads(mut, &c, i))
		default:
			return nil, fmt.Errorf("unknown op %q", op.T)
		}
		after := mut.VerifStatic().Root
		if after.HashOf() != before {
			o.Flush = append(o.Flush, e.Dump(after))
		} else {
			o.Flush = append(o.Flush, nil)
		}
		o.Pend = append(o.Pend, mut.VerifPending())
		o.Stash = append(o.Stash, mut.VerifHasStash())
	}
	return o, nil
}
