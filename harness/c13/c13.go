// Package c13: diffs of prolly maps (property C13).
//
// One case builds two real prolly maps — B either derived from A by a batch of
// edits through the mutable map (so the trees share chunks) or built
// independently — dumps both tree shapes and reports the callback sequences of
// DiffMaps (both flag values), DiffMapsKeyRange and RangeDiffMaps.
package c13

import (
	"context"
	"encoding/json"
	"io"

	"github.com/dolthub/dolt/go/store/prolly"
	"github.com/dolthub/dolt/go/store/prolly/tree"
	"github.com/dolthub/dolt/go/store/val"

	"verifharness/c11"
	"verifharness/hk"
)

func init() { hk.Register("c13", Run) }

type Edit struct {
	K   int  `json:"k"`
	V   int  `json:"v"`
	Del bool `json:"del"`
}

type Case struct {
	KW    int      `json:"kw"`
	A     [][2]int `json:"a"`
	B     [][2]int `json:"b"`     // used when Edits is null: an independently built map
	Edits []Edit   `json:"edits"` // B = A with these edits applied through Mutate()/Map()
	Rel   bool     `json:"rel"`
	Sep   bool     `json:"sep"` // the second map carries separately allocated (Equal) descriptors
	Rng   [][]*int `json:"rng"`
}

// Change: [type, key, from, to] with type 1 added, 2 modified, 3 removed (tree.DiffType)
type Obs struct {
	TA   *c11.Shape `json:"ta"`
	TB   *c11.Shape `json:"tb"`
	Diff *[][4]int  `json:"diff"`
	All  *[][4]int  `json:"all"`
	KRng []*[][4]int `json:"krng"`
	RRng []*[][4]int `json:"rrng"`
}

func collect(e *c11.Env, run func(cb tree.DiffFn) error) (out *[][4]int) {
	defer func() {
		if p := recover(); p != nil {
			out = nil
		}
	}()
	l := [][4]int{}
	err := run(func(_ context.Context, d tree.Diff) error {
		c := [4]int{int(d.Type), e.KeyOf(val.Tuple(d.Key)), 0, 0}
		if d.From != nil {
			c[2] = e.ValOf(val.Tuple(d.From))
		}
		if d.To != nil {
			c[3] = e.ValOf(val.Tuple(d.To))
		}
		l = append(l, c)
		return nil
	})
	if err != nil && err != io.EOF {
		panic(err)
	}
	return &l
}

func Run(raw json.RawMessage) (any, error) {
	var c Case
	if err := json.Unmarshal(raw, &c); err != nil {
		return nil, err
	}
	e := c11.NewEnvEnc(c.KW) // values are codes 2*v+nc (nc = non-canonical encoding of the same row)
	a := e.Build(c.A)
	var b prolly.Map
	if c.Rel {
		mut := a.Mutate()
		for _, ed := range c.Edits {
			if ed.Del {
				if err := mut.Delete(e.Ctx, e.Key(ed.K)); err != nil {
					panic(err)
				}
			} else if err := mut.Put(e.Ctx, e.Key(ed.K), e.Val(ed.V)); err != nil {
				panic(err)
			}
		}
		var err error
		b, err = mut.Map(e.Ctx)
		if err != nil {
			panic(err)
		}
	} else {
		b = e.Build(c.B)
	}
	if c.Sep {
		kd2, vd2 := e.FreshDescs()
		kd, vd := e.Descs()
		if kd2 == kd || vd2 == vd || !vd2.Equals(vd) || !kd2.Equals(kd) {
			panic("fresh descriptors must be distinct objects that are Equal")
		}
		b = prolly.NewMap(b.Node(), e.Ns, kd2, vd2)
	}
	var o Obs
	o.TA = e.Dump(a.Node())
	o.TB = e.Dump(b.Node())
	o.Diff = collect(e, func(cb tree.DiffFn) error { return prolly.DiffMaps(e.Ctx, a, b, false, cb) })
	o.All = collect(e, func(cb tree.DiffFn) error { return prolly.DiffMaps(e.Ctx, a, b, true, cb) })
	o.KRng = []*[][4]int{}
	o.RRng = []*[][4]int{}
	for _, rg := range c.Rng {
		lo, hi := e.Bound(rg[0]), e.Bound(rg[1])
		o.KRng = append(o.KRng, collect(e, func(cb tree.DiffFn) error { return prolly.DiffMapsKeyRange(e.Ctx, a, b, lo, hi, cb) }))
		r := e.ARange(rg[0], rg[1])
		o.RRng = append(o.RRng, collect(e, func(cb tree.DiffFn) error { return prolly.RangeDiffMaps(e.Ctx, a, b, r, cb) }))
	}
	return o, nil
}
