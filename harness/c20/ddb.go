package c20

// doltdb-level histories (property C21): DoltDB.CommitWithWorkingSet on branches that have a head
// but no working set yet (fresh repository after WriteEmptyRepo, branch created by NewBranchAtCommit)
// and on branches that already have one.  A commit hook observes EVERY dataset update that becomes
// visible in the store: at each of them the (branch head, working set) pairs are read from one
// store root, so a combined update performed as two root updates shows its intermediate root.

import (
	"context"
	"encoding/json"
	"fmt"
	"sort"
	"sync"

	"github.com/dolthub/dolt/go/libraries/doltcore/doltdb"
	"github.com/dolthub/dolt/go/libraries/doltcore/ref"
	"github.com/dolthub/dolt/go/libraries/utils/filesys"
	"github.com/dolthub/dolt/go/store/datas"
	"github.com/dolthub/dolt/go/store/hash"
	"github.com/dolthub/dolt/go/store/types"
)

type DDBAct struct {
	K      string `json:"k"` // branch (NewBranchAtCommit of main's head: gets a working set) | rawbranch (SetHeadToCommit: head only) | cws
	Branch int    `json:"branch"`
}

type DDBCase struct {
	Acts []DDBAct `json:"acts"`
}

type DDBObs struct {
	Ops   []OpObs    `json:"ops"`   // one per cws
	M0    [][2]int   `json:"m0"`    // state before the first cws
	Roots [][][2]int `json:"roots"` // state at every visible dataset update, then after every call
	Final [][2]int   `json:"final"`
}

type ddbWorld struct {
	mu      sync.Mutex
	ids     map[hash.Hash]int
	nCommit int
	nWs     int
}

func (w *ddbWorld) commitID(h hash.Hash) int {
	w.mu.Lock()
	defer w.mu.Unlock()
	if id, ok := w.ids[h]; ok {
		return id
	}
	w.nCommit++
	w.ids[h] = w.nCommit
	return w.nCommit
}

func (w *ddbWorld) wsID(h hash.Hash) int {
	if h.IsEmpty() {
		return 0
	}
	w.mu.Lock()
	defer w.mu.Unlock()
	if id, ok := w.ids[h]; ok {
		return id
	}
	w.nWs++
	w.ids[h] = 100 + w.nWs
	return 100 + w.nWs
}

type rootObserver struct {
	read func(ctx context.Context)
}

func (h *rootObserver) Execute(ctx context.Context, _ datas.Dataset, _ *doltdb.DoltDB) (func(context.Context) error, error) {
	h.read(ctx)
	return nil, nil
}
func (h *rootObserver) ExecuteForWorkingSets() bool  { return true }
func (h *rootObserver) ExecuteForReplicaWrite() bool { return true }

func runDDB(raw json.RawMessage) (any, error) {
	var c DDBCase
	if err := json.Unmarshal(raw, &c); err != nil {
		return nil, err
	}
	ctx := context.Background()
	ddb, err := doltdb.LoadDoltDB(ctx, types.Format_DOLT, doltdb.InMemDoltDB, filesys.LocalFS)
	if err != nil {
		return nil, err
	}
	defer ddb.Close()
	if err := ddb.WriteEmptyRepo(ctx, "main", "verif", "verif@example.com"); err != nil {
		return nil, err
	}
	w := &ddbWorld{ids: map[hash.Hash]int{}}
	branches := map[int]bool{10: true}
	bref := func(n int) ref.DoltRef { return ref.NewBranchRef(sqlName(n)) }

	// (head, working set) of every known branch, read at ONE store root
	readAt := func() ([][2]int, error) {
		root, err := ddb.NomsRoot(ctx)
		if err != nil {
			return nil, err
		}
		out := [][2]int{}
		for n := range branches {
			cm, err := ddb.ResolveCommitRefAtRoot(ctx, bref(n), root)
			if err != nil {
				continue // branch not there (yet)
			}
			h, err := cm.HashOf()
			if err != nil {
				return nil, err
			}
			out = append(out, [2]int{n, w.commitID(h)})
			wsRef, err := ref.WorkingSetRefForHead(bref(n))
			if err != nil {
				return nil, err
			}
			if ws, err := ddb.ResolveWorkingSetAtRoot(ctx, wsRef, root); err == nil {
				wh, _ := ws.HashOf()
				if id := w.wsID(wh); id != 0 {
					out = append(out, [2]int{n + 10, id})
				}
			}
		}
		sort.Slice(out, func(i, j int) bool { return out[i][0] < out[j][0] })
		return out, nil
	}

	var obs DDBObs
	obs.Ops = []OpObs{}
	recording := false
	var recErr error
	record := func() {
		if !recording {
			return
		}
		r, err := readAt()
		if err != nil {
			recErr = err
			return
		}
		if n := len(obs.Roots); n == 0 || fmt.Sprint(obs.Roots[n-1]) != fmt.Sprint(r) {
			obs.Roots = append(obs.Roots, r)
		}
	}
	ddb.PrependCommitHooks(ctx, &rootObserver{read: func(context.Context) { record() }})

	started := false
	for _, a := range c.Acts {
		switch a.K {
		case "branch":
			cm, err := ddb.ResolveCommitRef(ctx, bref(10))
			if err != nil {
				return nil, err
			}
			if err := ddb.NewBranchAtCommit(ctx, bref(a.Branch), cm, nil); err != nil {
				return nil, fmt.Errorf("NewBranchAtCommit: %w", err)
			}
			branches[a.Branch] = true
		case "rawbranch":
			cm, err := ddb.ResolveCommitRef(ctx, bref(10))
			if err != nil {
				return nil, err
			}
			if err := ddb.SetHeadToCommit(ctx, bref(a.Branch), cm); err != nil {
				return nil, fmt.Errorf("SetHeadToCommit: %w", err)
			}
			branches[a.Branch] = true
		case "cws":
			if !started {
				started = true
				if obs.M0, err = readAt(); err != nil {
					return nil, err
				}
				recording = true
			}
			headRef := bref(a.Branch)
			wsRef, err := ref.WorkingSetRefForHead(headRef)
			if err != nil {
				return nil, err
			}
			cm, err := ddb.ResolveCommitRef(ctx, headRef)
			if err != nil {
				return nil, err
			}
			ch, _ := cm.HashOf()
			rootVal, err := cm.GetRootValue(ctx)
			if err != nil {
				return nil, err
			}
			var prev hash.Hash
			if ws, err := ddb.ResolveWorkingSet(ctx, wsRef); err == nil {
				prev, _ = ws.HashOf()
			}
			meta, err := datas.NewCommitMeta("verif", "verif@example.com", fmt.Sprintf("call %d", len(obs.Ops)))
			if err != nil {
				return nil, err
			}
			pending, err := ddb.NewPendingCommit(ctx, doltdb.Roots{Head: rootVal, Working: rootVal, Staged: rootVal}, nil, hash.Hash{}, meta)
			if err != nil {
				return nil, err
			}
			ws := doltdb.EmptyWorkingSet(wsRef).WithWorkingRoot(rootVal).WithStagedRoot(rootVal)
			o := OpObs{Exp: w.commitID(ch), Prev: w.wsID(prev)}
			newCm, cerr := ddb.CommitWithWorkingSet(ctx, headRef, wsRef, pending, ws, prev, doltdb.TodoWorkingSetMeta(), nil)
			o.Res, o.Msg = classify(cerr)
			if cerr == nil {
				nh, _ := newCm.HashOf()
				o.New = w.commitID(nh)
				if nws, err := ddb.ResolveWorkingSet(ctx, wsRef); err == nil {
					wh, _ := nws.HashOf()
					o.NewWs = w.wsID(wh)
				}
			}
			obs.Ops = append(obs.Ops, o)
			record()
		default:
			return nil, fmt.Errorf("unknown ddb action %q", a.K)
		}
	}
	if recErr != nil {
		return nil, recErr
	}
	recording = false
	if obs.Final, err = readAt(); err != nil {
		return nil, err
	}
	if obs.M0 == nil {
		obs.M0 = obs.Final
	}
	return obs, nil
}
