package c20

// SQL-level histories (property C20): several sessions of one in-process engine issue
// dolt_commit / dolt_branch -f / dolt_reset --hard / dolt_branch -D / dolt_branch <new> /
// dolt_checkout -b / dolt_tag on the same branches, sequentially (with sessions holding an
// open transaction = stale snapshot) or from goroutines released by a barrier.  The
// observation is, per call, whether it succeeded and the commit it installed (with that
// commit's parents read from dolt_commit_ancestors), and the final branch/tag heads.

import (
	"encoding/json"
	"fmt"
	"sort"
	"strings"
	"sync"

	"verifharness/util"
)

type SQLAct struct {
	K      string `json:"k"` // commit branchf reset delete create checkoutb tag begin txcommit rollback
	S      int    `json:"s"` // session
	Name   int    `json:"name"`
	Target int    `json:"target"` // setup commit id
}

type SQLCase struct {
	Conc      bool     `json:"conc"`
	NSessions int      `json:"nsessions"`
	Acts      []SQLAct `json:"acts"`
}

type SQLOp struct {
	K    string `json:"k"`
	S    int    `json:"s"`
	Ok   bool   `json:"ok"`
	Msg  string `json:"msg,omitempty"`
	Name int    `json:"name"`
	Exp  int    `json:"exp"`
	New  int    `json:"new"`
}

type SQLObs struct {
	Ops   []SQLOp      `json:"ops"`
	Extra []CommitSpec `json:"extra"`
	M0    [][2]int     `json:"m0"`
	Final [][2]int     `json:"final"`
}

func sqlName(n int) string {
	switch {
	case n == 10:
		return "main"
	case n > 10 && n < 20:
		return fmt.Sprintf("b%d", n-10)
	case n >= 30 && n < 40:
		return fmt.Sprintf("t%d", n-30)
	}
	return fmt.Sprintf("x%d", n)
}

type sqlWorld struct {
	mu     sync.Mutex
	h2id   map[string]int
	id2h   map[int]string
	extra  []CommitSpec
	nextID int
}

func (w *sqlWorld) id(h string) int {
	w.mu.Lock()
	defer w.mu.Unlock()
	if h == "" {
		return 0
	}
	if id, ok := w.h2id[h]; ok {
		return id
	}
	return unknownID
}

func val(r util.Result, i, j int) string {
	if i < len(r.Rows) && j < len(r.Rows[i]) {
		return strings.TrimPrefix(r.Rows[i][j], "s:")
	}
	return ""
}

func runSQL(raw json.RawMessage) (any, error) {
	var c SQLCase
	if err := json.Unmarshal(raw, &c); err != nil {
		return nil, err
	}
	env, err := util.NewEnv(false)
	if err != nil {
		return nil, err
	}
	defer env.Close()
	w := &sqlWorld{h2id: map[string]int{}, id2h: map[int]string{}, nextID: 1000}
	s0, err := env.NewSession()
	if err != nil {
		return nil, err
	}
	head := func(s *util.Session, rev string) string {
		return val(s.Exec(fmt.Sprintf("select hashof('%s')", rev)), 0, 0)
	}
	// setup: c1 (initial) <- c2 <- c3 on main; b1 at c2
	h1 := head(s0, "main")
	w.h2id[h1], w.id2h[1] = 1, h1
	for i := 2; i <= 3; i++ {
		r := s0.Exec(fmt.Sprintf("call dolt_commit('--allow-empty','-m','setup c%d')", i))
		if r.Err != "" {
			return nil, fmt.Errorf("setup commit: %s", r.Err)
		}
		h := head(s0, "main")
		w.h2id[h], w.id2h[i] = i, h
	}
	if r := s0.Exec(fmt.Sprintf("call dolt_branch('b1','%s')", w.id2h[2])); r.Err != "" {
		return nil, fmt.Errorf("setup branch: %s", r.Err)
	}
	readState := func() ([][2]int, error) {
		s, err := env.NewSession()
		if err != nil {
			return nil, err
		}
		out := [][2]int{}
		r := s.Exec("select name, hash from dolt_branches")
		if r.Err != "" {
			return nil, fmt.Errorf("dolt_branches: %s", r.Err)
		}
		for i := range r.Rows {
			nm, h := val(r, i, 0), val(r, i, 1)
			n := -1
			if nm == "main" {
				n = 10
			} else if strings.HasPrefix(nm, "b") {
				fmt.Sscanf(nm, "b%d", &n)
				n += 10
			}
			if n >= 0 {
				out = append(out, [2]int{n, w.id(h)})
			}
		}
		r = s.Exec("select tag_name from dolt_tags")
		for i := range r.Rows {
			nm := val(r, i, 0)
			n := 0
			fmt.Sscanf(nm, "t%d", &n)
			out = append(out, [2]int{30 + n, w.id(head(s, nm))})
		}
		sort.Slice(out, func(i, j int) bool { return out[i][0] < out[j][0] })
		return out, nil
	}
	var obs SQLObs
	obs.Extra = []CommitSpec{}
	if obs.M0, err = readState(); err != nil {
		return nil, err
	}

	sessions := make([]*util.Session, c.NSessions)
	onBranch := make([]int, c.NSessions)
	for i := range sessions {
		if sessions[i], err = env.NewSession(); err != nil {
			return nil, err
		}
		b := 10 + i%2 // sessions alternate between main and b1
		onBranch[i] = b
		if r := sessions[i].Exec(fmt.Sprintf("call dolt_checkout('%s')", sqlName(b))); r.Err != "" {
			return nil, fmt.Errorf("checkout: %s", r.Err)
		}
	}
	seq := 0
	var seqMu sync.Mutex
	do := func(a SQLAct) SQLOp {
		s := sessions[a.S]
		o := SQLOp{K: a.K, S: a.S, Name: a.Name}
		var r util.Result
		switch a.K {
		case "begin":
			r = s.Exec("start transaction")
		case "txcommit":
			r = s.Exec("commit")
		case "rollback":
			r = s.Exec("rollback")
		case "commit":
			seqMu.Lock()
			seq++
			msg := fmt.Sprintf("op %d", seq)
			seqMu.Unlock()
			o.Name = onBranch[a.S]
			r = s.Exec(fmt.Sprintf("call dolt_commit('--allow-empty','-m','%s')", msg))
			if r.Err == "" {
				h := val(r, 0, 0)
				pr := s.Exec(fmt.Sprintf("select parent_hash from dolt_commit_ancestors where commit_hash = '%s' order by parent_index", h))
				w.mu.Lock()
				id := w.nextID
				w.nextID++
				w.h2id[h], w.id2h[id] = id, h
				w.mu.Unlock()
				ps := []int{}
				for i := range pr.Rows {
					ps = append(ps, w.id(val(pr, i, 0)))
				}
				w.mu.Lock()
				w.extra = append(w.extra, CommitSpec{ID: id, Parents: ps, Val: 1})
				w.mu.Unlock()
				o.New = id
				if len(ps) > 0 {
					o.Exp = ps[0]
				}
			}
		case "branchf":
			o.New = a.Target
			r = s.Exec(fmt.Sprintf("call dolt_branch('-f','%s','%s')", sqlName(a.Name), w.id2h[a.Target]))
		case "reset":
			o.Name, o.New = onBranch[a.S], a.Target
			r = s.Exec(fmt.Sprintf("call dolt_reset('--hard','%s')", w.id2h[a.Target]))
		case "delete":
			r = s.Exec(fmt.Sprintf("call dolt_branch('-D','%s')", sqlName(a.Name)))
		case "create":
			o.New = a.Target
			r = s.Exec(fmt.Sprintf("call dolt_branch('%s','%s')", sqlName(a.Name), w.id2h[a.Target]))
		case "checkoutb":
			o.New = a.Target
			r = s.Exec(fmt.Sprintf("call dolt_checkout('-b','%s','%s')", sqlName(a.Name), w.id2h[a.Target]))
			if r.Err == "" {
				onBranch[a.S] = a.Name
			}
		case "tag":
			o.New = a.Target
			r = s.Exec(fmt.Sprintf("call dolt_tag('%s','%s')", sqlName(a.Name), w.id2h[a.Target]))
		}
		o.Ok, o.Msg = r.Err == "", r.Err
		return o
	}
	if c.Conc {
		res := make([]SQLOp, len(c.Acts))
		var start, done sync.WaitGroup
		start.Add(1)
		for i, a := range c.Acts {
			done.Add(1)
			go func(i int, a SQLAct) {
				defer done.Done()
				start.Wait()
				res[i] = do(a)
			}(i, a)
		}
		start.Done()
		done.Wait()
		obs.Ops = res
	} else {
		for _, a := range c.Acts {
			obs.Ops = append(obs.Ops, do(a))
		}
	}
	obs.Extra = append(obs.Extra, w.extra...)
	if obs.Final, err = readState(); err != nil {
		return nil, err
	}
	return obs, nil
}
