// Package c20: ref updates through datas.Database (properties C20 and C21).
//
// One case = a small world of pre-created commits / working sets / tags, an
// initial dataset map, several clients (each a datas.Database over its own
// view of one shared chunk store: chunks.MemoryStorage views or NomsBlockStore
// handles on one directory) and a list of API-granularity actions.  Sequential
// cases run the actions one after the other (stale views and stale handles
// force the optimistic retry path deterministically); concurrent cases release
// one call per client from a barrier.
package c20

import (
	"context"
	"encoding/json"
	"errors"
	"fmt"
	"os"
	"sort"
	"strings"
	"sync"
	"time"

	"github.com/dolthub/dolt/go/store/chunks"
	"github.com/dolthub/dolt/go/store/datas"
	"github.com/dolthub/dolt/go/store/hash"
	"github.com/dolthub/dolt/go/store/nbs"
	"github.com/dolthub/dolt/go/store/prolly/tree"
	"github.com/dolthub/dolt/go/store/types"

	"verifharness/hk"
)

func init() { hk.Register("c20", Run) }

type CommitSpec struct {
	ID      int   `json:"id"`
	Parents []int `json:"parents"`
	Val     int   `json:"val"`
}

type WsSpec struct {
	ID      int `json:"id"`
	Working int `json:"working"`
	Staged  int `json:"staged"`
}

type Act struct {
	K     string `json:"k"` // rebase get commit ff sethead delete updws commitws tag
	C     int    `json:"c"`
	R     int    `json:"r"`     // dataset name (branch / tag)
	W     int    `json:"w"`     // working-set name (0 = none)
	New   int    `json:"new"`   // commit id (commit ff sethead commitws tag)
	NewWs int    `json:"newws"` // working-set object id (updws commitws)
	Force bool   `json:"force"`
}

type Case struct {
	Conc     bool         `json:"conc"`
	Store    string       `json:"store"` // mem | nbs
	NClients int          `json:"nclients"`
	Values   int          `json:"values"`
	Commits  []CommitSpec `json:"commits"`
	Ws       []WsSpec     `json:"ws"`
	M0       [][2]int     `json:"m0"`
	Names    []int        `json:"names"`
	Acts     []Act        `json:"acts"`
	Crash    bool         `json:"crash"` // C21: also report the persisted (head, ws) pairs after every action
}

type OpObs struct {
	Res   string `json:"res"` // ok merge already lock dirty exists other
	Msg   string `json:"msg,omitempty"`
	Exp   int    `json:"exp"`
	Prev  int    `json:"prev"`
	New   int    `json:"new"`
	NewWs int    `json:"newws"`
}

type Obs struct {
	Ops    []OpObs      `json:"ops"`             // one per non-rebase/get action, in action order
	Final  [][2]int     `json:"final"`           // sorted by name
	Extra  []CommitSpec `json:"extra"`           // commits built by the calls that were not pre-created
	Roots  [][][2]int   `json:"roots,omitempty"` // persisted map after every action (fresh reader), when Crash
	Reopen [][2]int     `json:"reopen,omitempty"`
}

const unknownID = 9999

func dsName(n int) string {
	switch {
	case n >= 10 && n < 20:
		return fmt.Sprintf("refs/heads/b%d", n-10)
	case n >= 20 && n < 30:
		return fmt.Sprintf("workingSets/heads/b%d", n-20)
	case n >= 30 && n < 40:
		return fmt.Sprintf("refs/tags/t%d", n-30)
	}
	return fmt.Sprintf("refs/internal/x%d", n)
}

var fixedTime = time.Date(2020, 1, 2, 3, 4, 5, 0, time.UTC)

func commitMeta(desc string) *datas.CommitMeta {
	id := datas.CommitIdent{Name: "verif", Email: "verif@example.com", Date: datas.CommitDateAt(fixedTime)}
	return &datas.CommitMeta{Author: id, Committer: id, Description: desc}
}

func wsMeta() *datas.WorkingSetMeta {
	return &datas.WorkingSetMeta{Name: "verif", Email: "verif@example.com", Description: "ws", Timestamp: 1577934245}
}

func tagMeta() *datas.TagMeta {
	return &datas.TagMeta{Name: "verif", Email: "verif@example.com", Description: "tag", Timestamp: 1577934245000, UserTimestamp: 1577934245000}
}

func classify(err error) (string, string) {
	switch {
	case err == nil:
		return "ok", ""
	case errors.Is(err, datas.ErrMergeNeeded):
		return "merge", ""
	case errors.Is(err, datas.ErrAlreadyCommitted):
		return "already", ""
	case errors.Is(err, datas.ErrOptimisticLockFailed):
		return "lock", ""
	case errors.Is(err, datas.ErrDirtyWorkspace):
		return "dirty", ""
	case strings.Contains(err.Error(), "already exists and cannot be altered"):
		return "exists", ""
	}
	return "other", err.Error()
}

type world struct {
	ctx     context.Context
	nbf     *types.NomsBinFormat
	vals    map[int]types.Value
	commits map[int]CommitSpec
	ws      map[int]WsSpec
	h2id    map[hash.Hash]int
	id2h    map[int]hash.Hash
	byKey   map[string]int // commit identity -> id
	extra   []CommitSpec
	nextID  int
	mu      sync.Mutex
}

func commitKey(val int, parents []int) string { return fmt.Sprintf("%d|%v", val, parents) }

func (w *world) idOf(h hash.Hash) int {
	if h.IsEmpty() {
		return 0
	}
	w.mu.Lock()
	defer w.mu.Unlock()
	if id, ok := w.h2id[h]; ok {
		return id
	}
	return unknownID
}

func (w *world) hashes(ids []int) []hash.Hash {
	w.mu.Lock()
	defer w.mu.Unlock()
	out := make([]hash.Hash, len(ids))
	for i, id := range ids {
		out[i] = w.id2h[id]
	}
	return out
}

func (w *world) hashOf(id int) hash.Hash {
	w.mu.Lock()
	defer w.mu.Unlock()
	return w.id2h[id]
}

func (w *world) commitSpec(id int) CommitSpec {
	w.mu.Lock()
	defer w.mu.Unlock()
	return w.commits[id]
}

func (w *world) wsSpec(id int) (datas.WorkingSetSpec, error) {
	s := w.ws[id]
	wr, err := types.NewRef(w.vals[s.Working], w.nbf)
	if err != nil {
		return datas.WorkingSetSpec{}, err
	}
	sr, err := types.NewRef(w.vals[s.Staged], w.nbf)
	if err != nil {
		return datas.WorkingSetSpec{}, err
	}
	return datas.WorkingSetSpec{Meta: wsMeta(), WorkingRoot: wr, StagedRoot: sr}, nil
}

type client struct {
	db      datas.Database
	cs      chunks.ChunkStore
	handles map[int]datas.Dataset
}

func (c *client) get(ctx context.Context, n int) error {
	ds, err := c.db.GetDataset(ctx, dsName(n))
	if err != nil {
		return err
	}
	c.handles[n] = ds
	return nil
}

func contains(l []int, x int) bool {
	for _, y := range l {
		if y == x {
			return true
		}
	}
	return false
}

// effective identity of the commit a Commit / CommitWithWorkingSet call will build
func (w *world) effective(newID int, head int, force bool, withWS bool) (int, []int) {
	spec := w.commitSpec(newID)
	parents := append([]int{}, spec.Parents...)
	if withWS && len(parents) > 0 && !force && head != 0 && !contains(parents, head) {
		parents = append([]int{head}, parents...)
	}
	if head != 0 && !force && len(parents) == 0 {
		parents = []int{head}
	}
	w.mu.Lock()
	defer w.mu.Unlock()
	key := commitKey(spec.Val, parents)
	if id, ok := w.byKey[key]; ok {
		return id, parents
	}
	id := w.nextID
	w.nextID++
	w.byKey[key] = id
	cs := CommitSpec{ID: id, Parents: parents, Val: spec.Val}
	w.commits[id] = cs
	w.extra = append(w.extra, cs)
	return id, parents
}

func (w *world) learn(ds datas.Dataset, id int) {
	if h, ok := ds.MaybeHeadAddr(); ok {
		w.mu.Lock()
		if _, known := w.h2id[h]; !known {
			w.h2id[h] = id
			w.id2h[id] = h
		}
		w.mu.Unlock()
	}
}

// The NBS file manifest gives up on its file lock after 100 ms (lockFileTimeout) and the call fails
// before touching the manifest; on a heavily loaded machine that happens spuriously.  Such a call
// is repeated, as a client would, so that the observation is the outcome of a call that ran.
func isLockTimeout(msg string) bool { return strings.Contains(msg, "lock timeout exceeded") }

func retryLock(f func() error) error {
	var err error
	for i := 0; i < 100; i++ {
		if err = f(); err == nil || !isLockTimeout(err.Error()) {
			return err
		}
		time.Sleep(5 * time.Millisecond)
	}
	return err
}

func (w *world) doOp(c *client, a Act) OpObs {
	var o OpObs
	for i := 0; i < 100; i++ {
		o = w.doOpOnce(c, a)
		if !(o.Res == "other" && isLockTimeout(o.Msg)) {
			break
		}
		time.Sleep(5 * time.Millisecond)
	}
	return o
}

func (w *world) doOpOnce(c *client, a Act) OpObs {
	ctx := w.ctx
	var o OpObs
	headOf := func(n int) (datas.Dataset, int) {
		ds := c.handles[n]
		h, _ := ds.MaybeHeadAddr()
		return ds, w.idOf(h)
	}
	var err error
	switch a.K {
	case "commit":
		ds, exp := headOf(a.R)
		o.Exp = exp
		spec := w.commitSpec(a.New)
		eff, _ := w.effective(a.New, exp, a.Force, false)
		o.New = eff
		var nds datas.Dataset
		nds, err = c.db.Commit(ctx, ds, w.vals[spec.Val], datas.CommitOptions{Parents: w.hashes(spec.Parents), Meta: commitMeta(fmt.Sprintf("v%d", spec.Val)), Force: a.Force})
		if err == nil {
			w.learn(nds, eff)
		}
	case "ff":
		ds, exp := headOf(a.R)
		o.Exp, o.New = exp, a.New
		_, err = c.db.FastForward(ctx, ds, w.hashOf(a.New), "", false)
	case "sethead":
		ds, exp := headOf(a.R)
		o.Exp, o.New = exp, a.New
		_, err = c.db.SetHead(ctx, ds, w.hashOf(a.New), "")
	case "delete":
		ds, exp := headOf(a.R)
		o.Exp = exp
		wsPath := ""
		if a.W != 0 {
			wsPath = dsName(a.W)
		}
		_, err = c.db.Delete(ctx, ds, wsPath)
	case "updws":
		ds, prev := headOf(a.W)
		o.Prev, o.NewWs = prev, a.NewWs
		var spec datas.WorkingSetSpec
		spec, err = w.wsSpec(a.NewWs)
		if err == nil {
			ph, _ := ds.MaybeHeadAddr()
			_, err = c.db.UpdateWorkingSet(ctx, ds, spec, ph)
		}
	case "commitws":
		ds, exp := headOf(a.R)
		wds, prev := headOf(a.W)
		o.Exp, o.Prev, o.NewWs = exp, prev, a.NewWs
		spec := w.commitSpec(a.New)
		eff, _ := w.effective(a.New, exp, a.Force, true)
		o.New = eff
		var wspec datas.WorkingSetSpec
		wspec, err = w.wsSpec(a.NewWs)
		if err == nil {
			ph, _ := wds.MaybeHeadAddr()
			var nds datas.Dataset
			nds, _, err = c.db.CommitWithWorkingSet(ctx, ds, wds, w.vals[spec.Val], wspec, ph,
				datas.CommitOptions{Parents: w.hashes(spec.Parents), Meta: commitMeta(fmt.Sprintf("v%d", spec.Val)), Force: a.Force})
			if err == nil {
				w.learn(nds, eff)
			}
		}
	case "tag":
		ds, exp := headOf(a.R)
		o.Exp, o.New = exp, 200+a.New
		_, err = c.db.Tag(ctx, ds, w.hashOf(a.New), datas.TagOptions{Meta: tagMeta()})
	default:
		err = fmt.Errorf("unknown action %q", a.K)
	}
	o.Res, o.Msg = classify(err)
	return o
}

type storeFactory struct {
	mem *chunks.MemoryStorage
	dir string
	ctx context.Context
}

func (f *storeFactory) open() (cs chunks.ChunkStore, err error) {
	if f.mem != nil {
		return f.mem.NewViewWithDefaultFormat(), nil
	}
	err = retryLock(func() error {
		cs, err = f.openNBS()
		return err
	})
	return cs, err
}

func (f *storeFactory) openNBS() (chunks.ChunkStore, error) {
	return nbs.NewLocalStore(f.ctx, types.Format_DOLT.VersionString(), f.dir, 1<<20, nbs.NewUnlimitedMemQuotaProvider(), false)
}

type rawRef struct {
	n int
	h hash.Hash
}

// all names are read from ONE store root (the root cached by a freshly opened view)
func readRefsRaw(ctx context.Context, f *storeFactory, names []int) (out []rawRef, err error) {
	err = retryLock(func() error {
		cs, err := f.open()
		if err != nil {
			return err
		}
		db := datas.NewDatabase(cs)
		defer db.Close()
		out, err = readRefsFrom(ctx, db, names)
		return err
	})
	return out, err
}

// reads every name from the root currently cached by db's view (one store root)
func readRefsFrom(ctx context.Context, db datas.Database, names []int) ([]rawRef, error) {
	out := []rawRef{}
	for _, n := range names {
		ds, err := db.GetDataset(ctx, dsName(n))
		if err != nil {
			return nil, err
		}
		if h, ok := ds.MaybeHeadAddr(); ok {
			out = append(out, rawRef{n, h})
		}
	}
	sort.Slice(out, func(i, j int) bool { return out[i].n < out[j].n })
	return out, nil
}

func (w *world) toIDs(raw []rawRef) [][2]int {
	out := [][2]int{}
	for _, r := range raw {
		out = append(out, [2]int{r.n, w.idOf(r.h)})
	}
	return out
}

func readRefs(ctx context.Context, w *world, f *storeFactory, names []int) ([][2]int, error) {
	raw, err := readRefsRaw(ctx, f, names)
	if err != nil {
		return nil, err
	}
	return w.toIDs(raw), nil
}

func Run(raw json.RawMessage) (any, error) {
	var probe struct {
		SQL bool `json:"sql"`
		DDB bool `json:"ddb"`
	}
	if err := json.Unmarshal(raw, &probe); err == nil && probe.SQL {
		return runSQL(raw)
	}
	if probe.DDB {
		return runDDB(raw)
	}
	var c Case
	if err := json.Unmarshal(raw, &c); err != nil {
		return nil, err
	}
	ctx := context.Background()
	f := &storeFactory{ctx: ctx}
	if c.Store == "nbs" {
		dir, err := os.MkdirTemp("", "c20-nbs-")
		if err != nil {
			return nil, err
		}
		defer os.RemoveAll(dir)
		f.dir = dir
	} else {
		f.mem = &chunks.MemoryStorage{}
	}
	w := &world{ctx: ctx, vals: map[int]types.Value{}, commits: map[int]CommitSpec{}, ws: map[int]WsSpec{},
		h2id: map[hash.Hash]int{}, id2h: map[int]hash.Hash{}, byKey: map[string]int{}, nextID: 1000}

	// ---- setup through its own handle ----
	scs, err := f.open()
	if err != nil {
		return nil, err
	}
	svs := types.NewValueStore(scs)
	sdb := datas.NewTypesDatabase(svs, tree.NewNodeStore(scs))
	w.nbf = sdb.Format()
	for i := 1; i <= c.Values; i++ {
		v := types.String(fmt.Sprintf("value-%d", i))
		w.vals[i] = v
		if _, err := svs.WriteValue(ctx, v); err != nil {
			return nil, err
		}
	}
	for _, cm := range c.Commits {
		ds, err := sdb.GetDataset(ctx, fmt.Sprintf("refs/internal/c%d", cm.ID))
		if err != nil {
			return nil, err
		}
		ds, err = sdb.Commit(ctx, ds, w.vals[cm.Val], datas.CommitOptions{Parents: w.hashes(cm.Parents), Meta: commitMeta(fmt.Sprintf("v%d", cm.Val))})
		if err != nil {
			return nil, fmt.Errorf("setup commit %d: %w", cm.ID, err)
		}
		h, _ := ds.MaybeHeadAddr()
		if other, dup := w.h2id[h]; dup {
			return nil, fmt.Errorf("setup: commits %d and %d are the same object", other, cm.ID)
		}
		w.h2id[h], w.id2h[cm.ID] = cm.ID, h
		w.commits[cm.ID] = cm
		w.byKey[commitKey(cm.Val, cm.Parents)] = cm.ID
		// the tag object that Tag() would create for this commit
		tds, err := sdb.GetDataset(ctx, fmt.Sprintf("refs/internal/t%d", cm.ID))
		if err != nil {
			return nil, err
		}
		tds, err = sdb.Tag(ctx, tds, h, datas.TagOptions{Meta: tagMeta()})
		if err != nil {
			return nil, fmt.Errorf("setup tag %d: %w", cm.ID, err)
		}
		th, _ := tds.MaybeHeadAddr()
		w.h2id[th], w.id2h[200+cm.ID] = 200+cm.ID, th
	}
	for _, s := range c.Ws {
		w.ws[s.ID] = s
		ds, err := sdb.GetDataset(ctx, fmt.Sprintf("workingSets/internal/w%d", s.ID))
		if err != nil {
			return nil, err
		}
		spec, err := w.wsSpec(s.ID)
		if err != nil {
			return nil, err
		}
		ds, err = sdb.UpdateWorkingSet(ctx, ds, spec, hash.Hash{})
		if err != nil {
			return nil, fmt.Errorf("setup ws %d: %w", s.ID, err)
		}
		h, _ := ds.MaybeHeadAddr()
		w.h2id[h], w.id2h[s.ID] = s.ID, h
	}
	for _, e := range c.M0 {
		n, obj := e[0], e[1]
		ds, err := sdb.GetDataset(ctx, dsName(n))
		if err != nil {
			return nil, err
		}
		if _, isWs := w.ws[obj]; isWs {
			spec, err := w.wsSpec(obj)
			if err != nil {
				return nil, err
			}
			_, err = sdb.UpdateWorkingSet(ctx, ds, spec, hash.Hash{})
			if err != nil {
				return nil, fmt.Errorf("setup m0 ws: %w", err)
			}
		} else {
			if _, err = sdb.SetHead(ctx, ds, w.id2h[obj], ""); err != nil {
				return nil, fmt.Errorf("setup m0 head: %w", err)
			}
		}
	}
	sdb.Close()

	// ---- clients ----
	clients := make([]*client, c.NClients)
	for i := range clients {
		cs, err := f.open()
		if err != nil {
			return nil, err
		}
		cl := &client{db: datas.NewDatabase(cs), cs: cs, handles: map[int]datas.Dataset{}}
		for _, n := range c.Names {
			if err := cl.get(ctx, n); err != nil {
				return nil, err
			}
		}
		clients[i] = cl
	}
	defer func() {
		for _, cl := range clients {
			cl.db.Close()
		}
	}()

	var obs Obs
	obs.Ops = []OpObs{}
	obs.Extra = []CommitSpec{}
	if c.Conc {
		res := make([]OpObs, len(c.Acts))
		var start sync.WaitGroup
		var done sync.WaitGroup
		start.Add(1)
		for i, a := range c.Acts {
			done.Add(1)
			go func(i int, a Act) {
				defer done.Done()
				defer func() {
					if p := recover(); p != nil {
						res[i] = OpObs{Res: "other", Msg: fmt.Sprintf("panic: %v", p)}
					}
				}()
				start.Wait()
				res[i] = w.doOp(clients[a.C], a)
			}(i, a)
		}
		// C21: a concurrent reader samples the persisted map (one store root per sample) during the batch
		stop := make(chan struct{})
		var sampler sync.WaitGroup
		var samples [][]rawRef
		var samplerErr error
		if c.Crash {
			// one long-lived reader view, rebased before every sample (MemoryStorage.NewView reads the
			// root without its mutex, so views must not be created while writers run)
			rcs, err := f.open()
			if err != nil {
				return nil, err
			}
			rdb := datas.NewDatabase(rcs)
			defer rdb.Close()
			sampler.Add(1)
			go func() {
				defer sampler.Done()
				for n := 0; n < 400; n++ {
					if err := rcs.Rebase(ctx); err != nil {
						if isLockTimeout(err.Error()) {
							continue
						}
						samplerErr = err
						return
					}
					r, err := readRefsFrom(ctx, rdb, c.Names)
					if err != nil {
						if isLockTimeout(err.Error()) {
							continue
						}
						samplerErr = err
						return
					}
					if len(samples) == 0 || fmt.Sprint(samples[len(samples)-1]) != fmt.Sprint(r) {
						samples = append(samples, r)
					}
					select {
					case <-stop:
						return
					default:
					}
				}
			}()
		}
		start.Done()
		done.Wait()
		close(stop)
		sampler.Wait()
		if samplerErr != nil {
			return nil, samplerErr
		}
		if len(samples) > 12 {
			samples = samples[len(samples)-12:]
		}
		for _, sm := range samples {
			obs.Roots = append(obs.Roots, w.toIDs(sm)) // hashes are named after the batch: every built commit is known by now
		}
		obs.Ops = res
	} else {
		for _, a := range c.Acts {
			cl := clients[a.C]
			switch a.K {
			case "rebase":
				if err := retryLock(func() error { return cl.cs.Rebase(ctx) }); err != nil {
					return nil, err
				}
			case "get":
				if err := cl.get(ctx, a.R); err != nil {
					return nil, err
				}
			default:
				obs.Ops = append(obs.Ops, w.doOp(cl, a))
			}
			if c.Crash && a.K != "get" {
				r, err := readRefs(ctx, w, f, c.Names)
				if err != nil {
					return nil, err
				}
				obs.Roots = append(obs.Roots, r)
			}
		}
	}
	obs.Extra = append(obs.Extra, w.extra...)
	fin, err := readRefs(ctx, w, f, c.Names)
	if err != nil {
		return nil, err
	}
	obs.Final = fin
	return obs, nil
}
