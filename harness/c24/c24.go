// Package c24: committed data satisfies the declared constraints (property C24).
// t(pk primary key, a, b) with UNIQUE KEY ua(a) and CHECK (a <= b); C23 schedules
// (several sessions, DML, COMMIT / ROLLBACK) whose transactions are each valid but
// whose combination need not be. After every statement that can change the
// committed state the committed table is dumped by an independent session.
package c24

import (
	"encoding/json"
	"fmt"

	"verifharness/c23"
	"verifharness/hk"
	"verifharness/sqlsched"
)

func init() { hk.Register("c24", Run) }

type Obs struct {
	Steps     []sqlsched.StepObs `json:"steps"`
	Committed [][][]int          `json:"committed"` // committed table after each step
	Viol      []int              `json:"viol"`      // rows in dolt_constraint_violations after each step
}

func Run(raw json.RawMessage) (any, error) {
	var c c23.Case
	if err := json.Unmarshal(raw, &c); err != nil {
		return nil, err
	}
	setup := []string{"CREATE TABLE t (pk int primary key, a int, b int, UNIQUE KEY ua (a), CONSTRAINT ck CHECK (a <= b))"}
	for _, r := range c.Init {
		setup = append(setup, fmt.Sprintf("INSERT INTO t VALUES (%d, %s, %s)", r[0], sqlsched.V(r[1]), sqlsched.V(r[2])))
	}
	setup = append(setup, "CALL dolt_commit('-Am', 'init')")
	w, err := sqlsched.NewWorld(c.NSess, setup, c.Autos...)
	if err != nil {
		return nil, err
	}
	defer w.Close()
	f, err := w.Fresh()
	if err != nil {
		return nil, err
	}
	var o Obs
	for _, st := range c.Steps {
		so := sqlsched.Exec(w.Sess[st[0]], c23.Render(st))
		if !c.Raw {
			so.Msg = ""
		}
		o.Steps = append(o.Steps, so)
		f.Exec("ROLLBACK") // drop the reader's snapshot: read the committed state as of now
		fo := sqlsched.Exec(f, "SELECT pk, a, b FROM t")
		if fo.Err != 0 {
			return nil, fmt.Errorf("committed read: %s", fo.Msg)
		}
		o.Committed = append(o.Committed, fo.Rows)
		vo := sqlsched.Exec(f, "SELECT count(*) FROM dolt_constraint_violations")
		n := -1
		if vo.Err == 0 && len(vo.Rows) == 1 {
			n = vo.Rows[0][0]
		}
		o.Viol = append(o.Viol, n)
	}
	return o, nil
}
