// Package c24: committed data satisfies the declared constraints (property C24).
//
//	p(pk primary key, a int NOT NULL, b int)
//	t(pk primary key, a int, b int, UNIQUE KEY ua(a), CHECK (a <= b), FOREIGN KEY (b) REFERENCES p(pk))
//
// Keys >= 100 in a case address table p (pk = key-100), keys < 100 table t.
// Mode "txn": C23 schedules (several sessions, DML, COMMIT / ROLLBACK) whose transactions are each
// valid but whose combination need not be; after every statement the committed tables are
// dumped by an independent reader.  A session listed in "nofk" runs with foreign_key_checks = 0.
// Mode "merge": two branches get one batch of DML each (committed), then main merges the other
// branch with @@dolt_force_transaction_commit = 1; the merged tables and the rows of
// dolt_constraint_violations_t / _p are reported.
package c24

import (
	"encoding/json"
	"fmt"
	"strings"

	"verifharness/c23"
	"verifharness/hk"
	"verifharness/sqlsched"
)

func init() { hk.Register("c24", Run) }

type Case struct {
	c23.Case
	NoFK  []int   `json:"nofk"`  // sessions with foreign_key_checks = 0
	Mode  string  `json:"mode"`  // "" / "txn" | "merge"
	Left  [][]int `json:"left"`  // merge mode: statements [_, kind, x, y, z] applied on main
	Right [][]int `json:"right"` // merge mode: statements applied on branch b1
}

type Obs struct {
	Steps     []sqlsched.StepObs `json:"steps"`
	Committed [][][]int          `json:"committed"` // committed tables after each step (keys of p shifted by 100)
	Viol      []int              `json:"viol"`      // rows in dolt_constraint_violations after each step
	// merge mode
	MergeErr int     `json:"mergeerr"`
	Merged   [][]int `json:"merged"`  // tables after the merge
	VRows    [][]int `json:"vrows"`   // recorded violations: [type, key]; type 1 fk, 2 unique, 3 check, 4 not null
	Msg      string  `json:"msg,omitempty"`
}

const PBase = 100

var cols = []string{"a", "b"}

func tbl(k int) (string, int) {
	if k >= PBase {
		return "p", k - PBase
	}
	return "t", k
}

const dumpQ = "SELECT pk, a, b FROM t UNION ALL SELECT pk + 100, a, b FROM p"

func Render(st []int) string {
	x, y, z := st[2], st[3], st[4]
	tn, pk := tbl(x)
	switch st[1] {
	case c23.KBegin:
		return "BEGIN"
	case c23.KCommit:
		return "COMMIT"
	case c23.KRollback:
		return "ROLLBACK"
	case c23.KSelect:
		return dumpQ
	case c23.KInsert:
		return fmt.Sprintf("INSERT INTO %s VALUES (%d, %s, %s)", tn, pk, sqlsched.V(y), sqlsched.V(z))
	case c23.KUpdate:
		return fmt.Sprintf("UPDATE %s SET %s = %s WHERE pk = %d", tn, cols[y%2], sqlsched.V(z), pk)
	case c23.KDelete:
		return fmt.Sprintf("DELETE FROM %s WHERE pk = %d", tn, pk)
	case c23.KUpdAdd:
		return fmt.Sprintf("UPDATE %s SET %s = %s + %d WHERE pk = %d", tn, cols[y%2], cols[y%2], z, pk)
	case c23.KSelectKey:
		if tn == "p" {
			return fmt.Sprintf("SELECT pk + 100, a, b FROM p WHERE pk = %d", pk)
		}
		return fmt.Sprintf("SELECT pk, a, b FROM t WHERE pk = %d", pk)
	}
	return "SELECT 'bad kind'"
}

func setup(c *Case) []string {
	s := []string{
		"CREATE TABLE p (pk int primary key, a int NOT NULL, b int)",
		"CREATE TABLE t (pk int primary key, a int, b int, UNIQUE KEY ua (a), CONSTRAINT ck CHECK (a <= b), CONSTRAINT fk FOREIGN KEY (b) REFERENCES p (pk))",
	}
	// parents first
	for _, r := range c.Init {
		if r[0] >= PBase {
			s = append(s, fmt.Sprintf("INSERT INTO p VALUES (%d, %s, %s)", r[0]-PBase, sqlsched.V(r[1]), sqlsched.V(r[2])))
		}
	}
	for _, r := range c.Init {
		if r[0] < PBase {
			s = append(s, fmt.Sprintf("INSERT INTO t VALUES (%d, %s, %s)", r[0], sqlsched.V(r[1]), sqlsched.V(r[2])))
		}
	}
	return append(s, "CALL dolt_commit('-Am', 'init')")
}

func Run(raw json.RawMessage) (any, error) {
	var c Case
	if err := json.Unmarshal(raw, &c); err != nil {
		return nil, err
	}
	if c.Mode == "merge" {
		return runMerge(&c)
	}
	if c.Mode == "fkadd" {
		return runFkAdd(&c)
	}
	w, err := sqlsched.NewWorld(c.NSess, setup(&c), c.Autos...)
	if err != nil {
		return nil, err
	}
	defer w.Close()
	for _, s := range c.NoFK {
		if err := w.Sess[s].MustExec("SET foreign_key_checks = 0", "ROLLBACK"); err != nil {
			return nil, err
		}
	}
	f, err := w.Fresh()
	if err != nil {
		return nil, err
	}
	var o Obs
	for _, st := range c.Steps {
		so := sqlsched.Exec(w.Sess[st[0]], Render(st))
		if !c.Raw {
			so.Msg = ""
		}
		o.Steps = append(o.Steps, so)
		f.Exec("ROLLBACK") // drop the reader's snapshot: read the committed state as of now
		fo := sqlsched.Exec(f, dumpQ)
		if fo.Err != 0 {
			return nil, fmt.Errorf("committed read: %s", fo.Msg)
		}
		o.Committed = append(o.Committed, fo.Rows)
		vo := sqlsched.Exec(f, "SELECT count(*) FROM dolt_constraint_violations")
		n := -1
		if vo.Err == 0 && len(vo.Rows) == 1 {
			n = vo.Rows[0][0]
		}
		o.Viol = append(o.Viol, n)
	}
	return o, nil
}

// violation_type is an enum: 1 foreign key, 2 unique index, 3 check constraint, 4 not null
func vtype(s string) int {
	switch {
	case s == "i:1", strings.Contains(s, "foreign"):
		return 1
	case s == "i:2", strings.Contains(s, "unique"):
		return 2
	case s == "i:3", strings.Contains(s, "check"):
		return 3
	case s == "i:4", strings.Contains(s, "null"):
		return 4
	}
	return 9
}

func runMerge(c *Case) (any, error) {
	st := setup(c)
	st = append(st, "CALL dolt_branch('b1')")
	w, err := sqlsched.NewWorld(0, st)
	if err != nil {
		return nil, err
	}
	defer w.Close()
	s, err := w.Fresh() // autocommit session
	if err != nil {
		return nil, err
	}
	var o Obs
	apply := func(stmts [][]int) {
		for _, x := range stmts {
			so := sqlsched.Exec(s, Render(x))
			if !c.Raw {
				so.Msg = ""
			}
			so.Rows = [][]int{}
			o.Steps = append(o.Steps, so)
		}
	}
	apply(c.Left)
	if err := s.MustExec("CALL dolt_commit('-A', '--allow-empty', '-m', 'left')", "CALL dolt_checkout('b1')"); err != nil {
		return nil, err
	}
	apply(c.Right)
	if err := s.MustExec("CALL dolt_commit('-A', '--allow-empty', '-m', 'right')", "CALL dolt_checkout('main')", "SET @@dolt_force_transaction_commit = 1"); err != nil {
		return nil, err
	}
	m := s.Exec("CALL dolt_merge('b1')")
	if m.Err != "" {
		o.MergeErr = sqlsched.Classify(m.Err)
		if o.MergeErr == 0 {
			o.MergeErr = 3
		}
		o.Msg = m.Err
	}
	// conflicts make the merge a different story: report them as merge error 5
	cf := sqlsched.Exec(s, "SELECT count(*) FROM dolt_conflicts")
	if cf.Err == 0 && len(cf.Rows) == 1 && cf.Rows[0][0] > 0 {
		o.MergeErr = 5
	}
	fo := sqlsched.Exec(s, dumpQ)
	if fo.Err != 0 {
		return nil, fmt.Errorf("merged read: %s", fo.Msg)
	}
	o.Merged = fo.Rows
	o.VRows = [][]int{}
	for _, tn := range []string{"t", "p"} {
		r := s.Exec("SELECT violation_type, pk FROM dolt_constraint_violations_" + tn)
		if r.Err != "" {
			continue // no violations table rows for this table
		}
		for _, row := range r.Rows {
			ir, _, _ := sqlsched.IntRows([][]string{{row[1]}})
			k := ir[0][0]
			if tn == "p" {
				k += PBase
			}
			o.VRows = append(o.VRows, []int{vtype(strings.ToLower(row[0])), k})
		}
	}
	sortPairs(o.VRows)
	return o, nil
}

func sortPairs(p [][]int) {
	for i := 1; i < len(p); i++ {
		for j := i; j > 0 && (p[j][0] < p[j-1][0] || (p[j][0] == p[j-1][0] && p[j][1] < p[j-1][1])); j-- {
			p[j], p[j-1] = p[j-1], p[j]
		}
	}
}

// Mode "fkadd": the base has NO foreign key; main adds a unique index on p(b) and FOREIGN KEY t(b) -> p(b)
// (a non-pk reference through indexes that do not exist in the merge base), the other branch — not bound by
// the FK yet — changes parent and child rows; main merges it with forced commit.  Reported: merged tables
// and the recorded violations.
func runFkAdd(c *Case) (any, error) {
	st := []string{
		"CREATE TABLE p (pk int primary key, a int NOT NULL, b int)",
		"CREATE TABLE t (pk int primary key, a int, b int, UNIQUE KEY ua (a), CONSTRAINT ck CHECK (a <= b))",
	}
	for _, r := range c.Init {
		tn, pk := tbl(r[0])
		st = append(st, fmt.Sprintf("INSERT INTO %s VALUES (%d, %s, %s)", tn, pk, sqlsched.V(r[1]), sqlsched.V(r[2])))
	}
	st = append(st, "CALL dolt_commit('-Am', 'init')", "CALL dolt_branch('b1')")
	w, err := sqlsched.NewWorld(0, st)
	if err != nil {
		return nil, err
	}
	defer w.Close()
	s, err := w.Fresh()
	if err != nil {
		return nil, err
	}
	var o Obs
	if err := s.MustExec("ALTER TABLE p ADD UNIQUE INDEX idx_b (b)", "ALTER TABLE t ADD CONSTRAINT fkb FOREIGN KEY (b) REFERENCES p (b)"); err != nil {
		return nil, fmt.Errorf("add fk: %v", err)
	}
	apply := func(stmts [][]int) {
		for _, x := range stmts {
			so := sqlsched.Exec(s, Render(x))
			so.Msg = ""
			so.Rows = [][]int{}
			o.Steps = append(o.Steps, so)
		}
	}
	apply(c.Left)
	if err := s.MustExec("CALL dolt_commit('-A', '--allow-empty', '-m', 'left')", "CALL dolt_checkout('b1')"); err != nil {
		return nil, err
	}
	apply(c.Right)
	if err := s.MustExec("CALL dolt_commit('-A', '--allow-empty', '-m', 'right')", "CALL dolt_checkout('main')", "SET @@dolt_force_transaction_commit = 1"); err != nil {
		return nil, err
	}
	m := s.Exec("CALL dolt_merge('b1')")
	if m.Err != "" {
		o.MergeErr = 3
		if c.Raw {
			o.Msg = m.Err
		}
	}
	for _, tn := range []string{"t", "p"} {
		cf := sqlsched.Exec(s, "SELECT count(*) FROM dolt_conflicts_"+tn)
		if cf.Err == 0 && len(cf.Rows) == 1 && cf.Rows[0][0] > 0 {
			o.MergeErr = 5
		}
	}
	fo := sqlsched.Exec(s, dumpQ)
	if fo.Err != 0 {
		return nil, fmt.Errorf("merged read: %s", fo.Msg)
	}
	o.Merged = fo.Rows
	o.VRows = [][]int{}
	for _, tn := range []string{"t", "p"} {
		r := s.Exec("SELECT violation_type, pk FROM dolt_constraint_violations_" + tn)
		if r.Err != "" {
			continue
		}
		for _, row := range r.Rows {
			ir, _, _ := sqlsched.IntRows([][]string{{row[1]}})
			k := ir[0][0]
			if tn == "p" {
				k += PBase
			}
			o.VRows = append(o.VRows, []int{vtype(strings.ToLower(row[0])), k})
		}
	}
	sortPairs(o.VRows)
	return o, nil
}
