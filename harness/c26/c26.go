// Package c26: dolt's read paths against the reference engine and against explicit index ranges (property C26).
//
// One case = a SQL setup script (tables, indexes, rows), an optional commit followed by later changes, a list of
// SELECTs and a list of explicit index ranges.
//   - every SELECT runs on an in-process dolt engine and on go-mysql-server's in-memory engine loaded by the same
//     script (database "cur" = current data, "snap" = data at the commit, used for AS OF queries); the harness
//     reports dolt's rows, whether the reference engine returned the same multiset (same sequence when the query is
//     totally ordered) and which join operator dolt's plan uses;
//   - every range (one sql.MySQLRangeColumnExpr per index column, given by its two cuts) goes through the real
//     index.ProllyRangesForIndex (prollyRangesFromSqlRanges) and the real prolly.Map.IterRange of the stored index;
//     the harness reports the prolly.Range that was built, all stored keys and the keys the scan returned.
package c26

import (
	"context"
	"bytes"
	"encoding/binary"
	"encoding/json"
	"fmt"
	"io"
	"sort"
	"strings"

	gms "github.com/dolthub/go-mysql-server"
	"github.com/dolthub/go-mysql-server/memory"
	"github.com/dolthub/go-mysql-server/sql"

	"github.com/dolthub/dolt/go/libraries/doltcore/doltdb"
	"github.com/dolthub/dolt/go/libraries/doltcore/doltdb/durable"
	"github.com/dolthub/dolt/go/libraries/doltcore/sqle/dsess"
	"github.com/dolthub/dolt/go/libraries/doltcore/sqle/index"
	"github.com/dolthub/dolt/go/store/prolly"
	"github.com/dolthub/dolt/go/store/val"

	"verifharness/hk"
	"verifharness/util"
)

func init() { hk.Register("c26", Run) }

type Query struct {
	Q   string `json:"q"`   // text for dolt
	RQ  string `json:"rq"`  // text for the reference engine ("" = same as q)
	RDB string `json:"rdb"` // reference database: "cur" or "snap"
	Ord bool   `json:"ord"` // ORDER BY determines the order completely: compare as sequences
}

type RangeCase struct {
	T    string    `json:"t"`
	Ix   string    `json:"ix"`
	Cuts [][][]any `json:"cuts"` // per column: [lower, upper]; a cut is ["bn"] ["an"] ["aa"] ["b",k] ["a",k]
}

type Case struct {
	Setup   []string    `json:"setup"`
	Commit  bool        `json:"commit"`
	Commit2 bool        `json:"commit2"` // commit the later changes too (HEAD~1 is then the first commit)
	Later   []string    `json:"later"`
	Queries []Query     `json:"queries"`
	Ranges  []RangeCase `json:"ranges"`
}

type QOut struct {
	Rows   [][]*int64 `json:"rows"`
	Err    string     `json:"err"`
	RefEq  bool       `json:"ref_eq"`
	RefErr string     `json:"ref_err"`
	RefN   int        `json:"ref_n"`
	Plan   string     `json:"plan"`
	Ita    bool       `json:"ita"`
	PAlias []string   `json:"palias"` // table aliases in plan order (first = the join iterator's left side)
	PIndex []string   `json:"pindex"` // "index: [...]" entries of the plan's IndexedTableAccess nodes, in plan order
}

type BoundOut struct {
	V *int64 `json:"v"`
	B bool   `json:"b"`
	I bool   `json:"i"`
}
type FieldOut struct {
	Lo BoundOut `json:"lo"`
	Hi BoundOut `json:"hi"`
	Eq bool     `json:"eq"`
}
type ROut struct {
	Err      string     `json:"err"`
	N        int        `json:"n"` // number of prolly ranges built (0 = pruned)
	Fields   []FieldOut `json:"fields"`
	Tup      []*int64   `json:"tup"`
	Contig   bool       `json:"contig"`
	Skip     bool       `json:"skip"`
	Nullable []bool     `json:"nullable"`
	Bits     []int      `json:"bits"` // width of each key field's signed integer encoding
	All      [][]*int64 `json:"all"`
	Visit    [][]*int64 `json:"visit"`
}

type Obs struct {
	SetupErr string `json:"setup_err"`
	Queries  []QOut `json:"queries"`
	Ranges   []ROut `json:"ranges"`
}

// ---- reference engine -------------------------------------------------------

type refEngine struct {
	eng *gms.Engine
	ctx *sql.Context
}

func newRef() *refEngine {
	pro := memory.NewDBProvider(memory.NewDatabase("cur"), memory.NewDatabase("snap"))
	eng := gms.NewDefault(pro)
	sess := memory.NewSession(sql.NewBaseSession(), pro)
	ctx := sql.NewContext(context.Background(), sql.WithSession(sess))
	ctx.SetCurrentDatabase("cur")
	return &refEngine{eng: eng, ctx: ctx}
}

func (r *refEngine) exec(db, q string) (rows []sql.Row, err error) {
	defer func() {
		if p := recover(); p != nil {
			err = fmt.Errorf("PANIC: %v", p)
		}
	}()
	r.ctx.SetCurrentDatabase(db)
	_, iter, _, err := r.eng.Query(r.ctx, q)
	if err != nil {
		return nil, err
	}
	for {
		row, e := iter.Next(r.ctx)
		if e == io.EOF {
			break
		}
		if e != nil {
			iter.Close(r.ctx)
			return nil, e
		}
		rows = append(rows, row)
	}
	return rows, iter.Close(r.ctx)
}

// ---- cells --------------------------------------------------------------------

func cellOf(v any) (*int64, error) {
	var x int64
	switch t := v.(type) {
	case nil:
		return nil, nil
	case int8:
		x = int64(t)
	case int16:
		x = int64(t)
	case int32:
		x = int64(t)
	case int64:
		x = t
	case int:
		x = int64(t)
	case uint8:
		x = int64(t)
	case uint16:
		x = int64(t)
	case uint32:
		x = int64(t)
	case uint64:
		x = int64(t)
	case bool:
		if t {
			x = 1
		}
	default:
		return nil, fmt.Errorf("non-integer value %T", v)
	}
	return &x, nil
}

func cellsOf(rows []sql.Row) ([][]*int64, error) {
	out := make([][]*int64, 0, len(rows))
	for _, r := range rows {
		o := make([]*int64, len(r))
		for i, v := range r {
			c, err := cellOf(v)
			if err != nil {
				return nil, err
			}
			o[i] = c
		}
		out = append(out, o)
	}
	return out, nil
}

func rowKey(r []*int64) string {
	var sb strings.Builder
	for _, c := range r {
		if c == nil {
			sb.WriteString("N,")
		} else {
			fmt.Fprintf(&sb, "%d,", *c)
		}
	}
	return sb.String()
}

func sameRows(a, b [][]*int64, ordered bool) bool {
	if len(a) != len(b) {
		return false
	}
	ka, kb := make([]string, len(a)), make([]string, len(b))
	for i := range a {
		ka[i], kb[i] = rowKey(a[i]), rowKey(b[i])
	}
	if !ordered {
		sort.Strings(ka)
		sort.Strings(kb)
	}
	for i := range ka {
		if ka[i] != kb[i] {
			return false
		}
	}
	return true
}

// ---- dolt side ----------------------------------------------------------------

func doltRows(s *util.Session, q string) (rows []sql.Row, err error) {
	defer func() {
		if p := recover(); p != nil {
			err = fmt.Errorf("PANIC: %v", p)
		}
	}()
	_, iter, _, err := s.E.Eng.Query(s.Ctx, q)
	if err != nil {
		return nil, err
	}
	for {
		row, e := iter.Next(s.Ctx)
		if e == io.EOF {
			break
		}
		if e != nil {
			iter.Close(s.Ctx)
			return nil, e
		}
		rows = append(rows, row)
	}
	return rows, iter.Close(s.Ctx)
}

func planOf(s *util.Session, q string) (plan string, ita bool, aliases []string, indexes []string) {
	aliases, indexes = []string{}, []string{}
	rows, err := doltRows(s, "explain plan "+q)
	if err != nil {
		rows, err = doltRows(s, "explain "+q)
		if err != nil {
			return "err", false, aliases, indexes
		}
	}
	var sb strings.Builder
	for _, r := range rows {
		sb.WriteString(fmt.Sprint(r[0]))
		sb.WriteString("\n")
	}
	t := sb.String()
	for _, line := range strings.Split(t, "\n") {
		if i := strings.Index(line, "TableAlias("); i >= 0 {
			rest := line[i+len("TableAlias("):]
			if j := strings.Index(rest, ")"); j >= 0 {
				aliases = append(aliases, rest[:j])
			}
		}
		if i := strings.Index(line, "index: ["); i >= 0 {
			rest := line[i+len("index: ["):]
			if j := strings.Index(rest, "]"); j >= 0 {
				indexes = append(indexes, rest[:j])
			}
		}
	}
	ita = strings.Contains(t, "IndexedTableAccess")
	switch {
	case strings.Contains(t, "MergeJoin"):
		return "merge", ita, aliases, indexes
	case strings.Contains(t, "LookupJoin"):
		return "lookup", ita, aliases, indexes
	case strings.Contains(t, "HashJoin"):
		return "hash", ita, aliases, indexes
	case strings.Contains(t, "Join"):
		return "join", ita, aliases, indexes
	}
	return "none", ita, aliases, indexes
}

func mkCut(c []any, typ sql.Type) (sql.MySQLRangeCut, error) {
	if len(c) == 0 {
		return nil, fmt.Errorf("empty cut")
	}
	k, _ := c[0].(string)
	switch k {
	case "bn":
		return sql.BelowNull{}, nil
	case "an":
		return sql.AboveNull{}, nil
	case "aa":
		return sql.AboveAll{}, nil
	case "b", "a":
		if len(c) < 2 {
			return nil, fmt.Errorf("cut without key")
		}
		var f int64
		switch n := c[1].(type) {
		case json.Number:
			v, err := n.Int64()
			if err != nil {
				return nil, err
			}
			f = v
		case float64:
			f = int64(n)
		default:
			return nil, fmt.Errorf("cut key not a number")
		}
		// the key in the column's own Go type, as the engine's index builder hands it over
		key, _, err := typ.Convert(context.Background(), f)
		if err != nil {
			return nil, err
		}
		if k == "b" {
			return sql.Below{Key: key, Typ: typ}, nil
		}
		return sql.Above{Key: key, Typ: typ}, nil
	}
	return nil, fmt.Errorf("unknown cut %q", k)
}

func int32Field(b []byte) *int64 {
	if b == nil {
		return nil
	}
	var x int64
	switch len(b) {
	case 1:
		x = int64(int8(b[0]))
	case 2:
		x = int64(int16(binary.LittleEndian.Uint16(b)))
	case 4:
		x = int64(int32(binary.LittleEndian.Uint32(b)))
	case 8:
		x = int64(binary.LittleEndian.Uint64(b))
	default:
		x = -999999999
	}
	return &x
}

func keyCells(kd *val.TupleDesc, k val.Tuple) []*int64 {
	out := make([]*int64, kd.Count())
	for i := 0; i < kd.Count(); i++ {
		out[i] = int32Field(kd.GetField(i, k))
	}
	return out
}

func drain(ctx context.Context, kd *val.TupleDesc, it prolly.MapIter) ([][]*int64, error) {
	out := [][]*int64{}
	for {
		k, _, err := it.Next(ctx)
		if err == io.EOF || (err == nil && k == nil) {
			return out, nil
		}
		if err != nil {
			return out, err
		}
		out = append(out, keyCells(kd, k))
	}
}

func runRange(s *util.Session, rc RangeCase) (out ROut) {
	out.Fields, out.Tup, out.All, out.Visit, out.Nullable, out.Bits = []FieldOut{}, []*int64{}, [][]*int64{}, [][]*int64{}, []bool{}, []int{}
	defer func() {
		if p := recover(); p != nil {
			out.Err = fmt.Sprintf("PANIC: %v", p)
		}
	}()
	roots, ok := dsess.DSessFromSess(s.Ctx.Session).GetRoots(s.Ctx, s.E.DBName)
	if !ok {
		out.Err = "no roots"
		return
	}
	tbl, ok, err := roots.Working.GetTable(s.Ctx, doltdb.TableName{Name: rc.T})
	if err != nil || !ok {
		out.Err = fmt.Sprintf("table %s: %v", rc.T, err)
		return
	}
	idxs, err := index.DoltIndexesFromTable(s.Ctx, s.E.DBName, rc.T, tbl)
	if err != nil {
		out.Err = err.Error()
		return
	}
	var idx sql.Index
	for _, i := range idxs {
		if strings.EqualFold(i.ID(), rc.Ix) {
			idx = i
		}
	}
	if idx == nil {
		out.Err = "no index " + rc.Ix
		return
	}
	types := idx.ColumnExpressionTypes(s.Ctx)
	if len(rc.Cuts) > len(types) {
		out.Err = "too many columns"
		return
	}
	rng := make(sql.MySQLRange, len(rc.Cuts))
	for i, c := range rc.Cuts {
		lo, err := mkCut(c[0], types[i].Type)
		if err != nil {
			out.Err = err.Error()
			return
		}
		hi, err := mkCut(c[1], types[i].Type)
		if err != nil {
			out.Err = err.Error()
			return
		}
		rng[i] = sql.MySQLRangeColumnExpr{LowerBound: lo, UpperBound: hi, Typ: types[i].Type}
	}
	prs, err := index.ProllyRangesForIndex(s.Ctx, idx, sql.MySQLRangeCollection{rng})
	if err != nil {
		out.Err = "ranges: " + err.Error()
		return
	}
	var di durable.Index
	if strings.EqualFold(rc.Ix, "PRIMARY") {
		di, err = tbl.GetRowData(s.Ctx)
	} else {
		di, err = tbl.GetIndexRowData(s.Ctx, idx.ID())
	}
	if err != nil {
		out.Err = err.Error()
		return
	}
	m, err := durable.ProllyMapFromIndex(di)
	if err != nil {
		out.Err = err.Error()
		return
	}
	kd := m.KeyDesc()
	for _, t := range kd.Types {
		out.Nullable = append(out.Nullable, t.Nullable)
		switch t.Enc {
		case val.Int8Enc:
			out.Bits = append(out.Bits, 8)
		case val.Int16Enc:
			out.Bits = append(out.Bits, 16)
		case val.Int32Enc:
			out.Bits = append(out.Bits, 32)
		case val.Int64Enc:
			out.Bits = append(out.Bits, 64)
		default:
			out.Err = "key field is not a signed integer"
			return
		}
	}
	all, err := m.IterAll(s.Ctx)
	if err != nil {
		out.Err = err.Error()
		return
	}
	if out.All, err = drain(s.Ctx, kd, all); err != nil {
		out.Err = err.Error()
		return
	}
	out.N = len(prs)
	if len(prs) == 0 {
		return
	}
	if len(prs) > 1 {
		out.Err = "more than one prolly range"
		return
	}
	r := prs[0]
	for _, f := range r.Fields {
		out.Fields = append(out.Fields, FieldOut{
			Lo: BoundOut{V: int32Field(f.Lo.Value), B: f.Lo.Binding, I: f.Lo.Inclusive},
			Hi: BoundOut{V: int32Field(f.Hi.Value), B: f.Hi.Binding, I: f.Hi.Inclusive},
			Eq: f.BoundsAreEqual})
	}
	if r.Tup != nil {
		// BuildPermissive may put NULLs into NOT NULL fields: read by offset table, not by the descriptor's fixed layout
		// (a tuple stores no trailing NULL fields: pad to the descriptor's width)
		out.Tup = make([]*int64, kd.Count())
		for i := 0; i < r.Tup.Count() && i < len(out.Tup); i++ {
			out.Tup[i] = int32Field(r.Tup.GetField(i))
		}
	}
	out.Contig, out.Skip = r.IsContiguous, r.SkipRangeMatchCallback
	it, err := m.IterRange(s.Ctx, r)
	if err != nil {
		out.Err = "iter: " + err.Error()
		return
	}
	if out.Visit, err = drain(s.Ctx, kd, it); err != nil {
		out.Err = "iter: " + err.Error()
	}
	return
}

func Run(raw json.RawMessage) (any, error) {
	var c Case
	dec := json.NewDecoder(bytes.NewReader(raw))
	dec.UseNumber() // 64-bit cut keys exactly
	if err := dec.Decode(&c); err != nil {
		return nil, err
	}
	env, err := util.NewEnv(false)
	if err != nil {
		return nil, err
	}
	defer env.Close()
	s, err := env.NewSession()
	if err != nil {
		return nil, err
	}
	ref := newRef()
	o := Obs{Queries: []QOut{}, Ranges: []ROut{}}
	fail := func(where string, e error) (any, error) {
		o.SetupErr = where + ": " + e.Error()
		return o, nil
	}
	for _, q := range c.Setup {
		if r := s.Exec(q); r.Err != "" {
			return fail("dolt "+q, fmt.Errorf("%s", r.Err))
		}
		for _, db := range []string{"cur", "snap"} {
			if _, err := ref.exec(db, q); err != nil {
				return fail("ref "+q, err)
			}
		}
	}
	if c.Commit {
		for _, q := range []string{"call dolt_commit('--allow-empty','-Am','c1')", "call dolt_tag('v1')", "call dolt_branch('b1')"} {
			if r := s.Exec(q); r.Err != "" {
				return fail(q, fmt.Errorf("%s", r.Err))
			}
		}
	}
	for _, q := range c.Later {
		if r := s.Exec(q); r.Err != "" {
			return fail("dolt "+q, fmt.Errorf("%s", r.Err))
		}
		if _, err := ref.exec("cur", q); err != nil {
			return fail("ref "+q, err)
		}
	}
	if c.Commit && c.Commit2 {
		if r := s.Exec("call dolt_commit('--allow-empty','-Am','c2')"); r.Err != "" {
			return fail("commit2", fmt.Errorf("%s", r.Err))
		}
	}
	for _, q := range c.Queries {
		var qo QOut
		qo.Rows = [][]*int64{}
		rows, err := doltRows(s, q.Q)
		if err != nil {
			qo.Err = err.Error()
		} else if qo.Rows, err = cellsOf(rows); err != nil {
			qo.Err = err.Error()
			qo.Rows = [][]*int64{}
		}
		rq, rdb := q.RQ, q.RDB
		if rq == "" {
			rq = q.Q
		}
		if rdb == "" {
			rdb = "cur"
		}
		rrows, err := ref.exec(rdb, rq)
		if err != nil {
			qo.RefErr = err.Error()
		} else {
			rc, err := cellsOf(rrows)
			if err != nil {
				qo.RefErr = err.Error()
			} else {
				qo.RefN = len(rc)
				qo.RefEq = qo.Err == "" && sameRows(qo.Rows, rc, q.Ord)
			}
		}
		qo.Plan, qo.Ita, qo.PAlias, qo.PIndex = planOf(s, q.Q)
		o.Queries = append(o.Queries, qo)
	}
	for _, rc := range c.Ranges {
		o.Ranges = append(o.Ranges, runRange(s, rc))
	}
	return o, nil
}
