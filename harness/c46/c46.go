// Package c46: dolt_ignore decisions, staging-all and clean (property C46).
package c46

import (
	"context"
	"encoding/json"
	"fmt"
	"sort"
	"strings"

	"github.com/dolthub/dolt/go/libraries/doltcore/doltdb"
	"github.com/dolthub/dolt/go/libraries/doltcore/sqle/dsess"

	"verifharness/hk"
	"verifharness/util"
)

func init() { hk.Register("c46", Run) }

type Pat struct {
	P  []int `json:"p"`  // code points of the pattern
	Ig bool  `json:"ig"` // ignored column
}

type Op struct {
	O  string `json:"o"` // new | drop | mod | ren
	N  string `json:"n"`
	To string `json:"to,omitempty"`
	ID int    `json:"id,omitempty"`
	V  int    `json:"v,omitempty"` // mod: key of the inserted row (distinct per modification of a table)
}

type Case struct {
	K    string `json:"k"` // "dec" | "sql"
	Pats []Pat  `json:"pats"`
	Name []int  `json:"name,omitempty"` // dec: table name (code points)

	Head        []Op   `json:"head,omitempty"`     // sql: tables committed first (o = "new")
	IgnoreFirst bool   `json:"ignfirst,omitempty"` // sql: dolt_ignore is created (and committed) before the head commit
	Pre         []Op   `json:"pre,omitempty"`      // sql: changes staged before the ignore patterns exist
	Work        []Op   `json:"work,omitempty"`     // sql: working-set changes
	Act         string `json:"act,omitempty"`      // add_all | add_dot | commit_all | clean | clean_x | clean_dry
}

type Tbl struct {
	N   []int `json:"n"`
	ID  int   `json:"id"`
	Ver int   `json:"ver"`
}

type DecObs struct {
	Match []bool  `json:"match"` // MatchTablePattern per pattern, in order
	Res   int     `json:"res"`   // 0 Ignore 1 DontIgnore 2 Conflict 3 ErrorOccurred
	CT    [][]int `json:"ct"`    // conflict error: TruePatterns
	CF    [][]int `json:"cf"`    // conflict error: FalsePatterns
}

type SqlObs struct {
	Pats  []Pat  `json:"pats"` // dolt_ignore contents in storage (iteration) order
	PreH  []Tbl  `json:"preh"`
	PreS  []Tbl  `json:"pres"`
	PreW  []Tbl  `json:"prew"`
	Err   int    `json:"err"` // 0 none, 1 ignore-pattern conflict, 2 nothing to commit, 3 other
	ErrS  string `json:"errs,omitempty"`
	PostH []Tbl  `json:"posth"`
	PostS []Tbl  `json:"posts"`
	PostW []Tbl  `json:"postw"`
	Dec   []int  `json:"dec"` // IsTableNameIgnored for each name of prew ++ (pres names not in prew), informative
}

type Obs struct {
	Dec *DecObs `json:"dec,omitempty"`
	Sql *SqlObs `json:"sql,omitempty"`
}

func toStr(r []int) string {
	rs := make([]rune, len(r))
	for i, x := range r {
		rs[i] = rune(x)
	}
	return string(rs)
}

func fromStr(s string) []int {
	out := []int{}
	for _, r := range s {
		out = append(out, int(r))
	}
	return out
}

func decide(ips doltdb.IgnorePatterns, name string) (int, [][]int, [][]int) {
	res, err := ips.IsTableNameIgnored(doltdb.TableName{Name: name})
	ct, cf := [][]int{}, [][]int{}
	if c := doltdb.AsDoltIgnoreInConflict(err); c != nil {
		for _, p := range c.TruePatterns {
			ct = append(ct, fromStr(p))
		}
		for _, p := range c.FalsePatterns {
			cf = append(cf, fromStr(p))
		}
		if res != doltdb.IgnorePatternConflict {
			return 3, ct, cf
		}
		return 2, ct, cf
	}
	if err != nil {
		return 3, ct, cf
	}
	return int(res), ct, cf
}

func runDec(c Case) (any, error) {
	name := toStr(c.Name)
	var ips doltdb.IgnorePatterns
	o := &DecObs{Match: []bool{}}
	for _, p := range c.Pats {
		ps := toStr(p.P)
		ips = append(ips, doltdb.NewIgnorePattern(ps, p.Ig))
		m, err := doltdb.MatchTablePattern(ps, name)
		if err != nil {
			return nil, fmt.Errorf("MatchTablePattern: %v", err)
		}
		o.Match = append(o.Match, m)
	}
	o.Res, o.CT, o.CF = decide(ips, name)
	return Obs{Dec: o}, nil
}

func sqlQuote(s string) string {
	s = strings.ReplaceAll(s, "\\", "\\\\")
	s = strings.ReplaceAll(s, "'", "''")
	return "'" + s + "'"
}

func applyOps(s *util.Session, ops []Op) error {
	for _, op := range ops {
		var q []string
		switch op.O {
		case "new":
			q = []string{fmt.Sprintf("create table `%s` (k%d int primary key, v%d int)", op.N, op.ID, op.ID)}
		case "drop":
			q = []string{fmt.Sprintf("drop table `%s`", op.N)}
		case "mod":
			q = []string{fmt.Sprintf("insert into `%s` values (%d, 0)", op.N, op.V)}
		case "ren":
			q = []string{fmt.Sprintf("rename table `%s` to `%s`", op.N, op.To)}
		default:
			return fmt.Errorf("bad op %q", op.O)
		}
		if err := s.MustExec(q...); err != nil {
			return err
		}
	}
	return nil
}

func rootTables(ctx context.Context, root doltdb.RootValue) ([]Tbl, error) {
	names, err := root.GetTableNames(ctx, doltdb.DefaultSchemaName, true)
	if err != nil {
		return nil, err
	}
	sort.Strings(names)
	out := []Tbl{}
	for _, n := range names {
		t, ok, err := root.GetTable(ctx, doltdb.TableName{Name: n})
		if err != nil || !ok {
			return nil, fmt.Errorf("GetTable %s: %v %v", n, ok, err)
		}
		sch, err := t.GetSchema(ctx)
		if err != nil {
			return nil, err
		}
		id := 0
		for _, col := range sch.GetAllCols().GetColumns() {
			if strings.HasPrefix(col.Name, "v") {
				fmt.Sscanf(col.Name[1:], "%d", &id)
			}
		}
		idx, err := t.GetRowData(ctx)
		if err != nil {
			return nil, err
		}
		cnt, err := idx.Count()
		if err != nil {
			return nil, err
		}
		out = append(out, Tbl{N: fromStr(n), ID: id, Ver: int(cnt)})
	}
	return out, nil
}

func roots(s *util.Session) (h, st, w []Tbl, r doltdb.Roots, err error) {
	ds := dsess.DSessFromSess(s.Ctx.Session)
	r, ok := ds.GetRoots(s.Ctx, s.E.DBName)
	if !ok {
		return nil, nil, nil, r, fmt.Errorf("no roots")
	}
	if h, err = rootTables(s.Ctx, r.Head); err != nil {
		return
	}
	if st, err = rootTables(s.Ctx, r.Staged); err != nil {
		return
	}
	w, err = rootTables(s.Ctx, r.Working)
	return
}

func runSql(c Case) (any, error) {
	env, err := util.NewEnv(false)
	if err != nil {
		return nil, err
	}
	defer env.Close()
	s, err := env.NewSession()
	if err != nil {
		return nil, err
	}
	if c.IgnoreFirst {
		if err := s.MustExec("insert into dolt_ignore values ('zz_never_used', 0)", "delete from dolt_ignore"); err != nil {
			return nil, err
		}
	}
	if err := applyOps(s, c.Head); err != nil {
		return nil, err
	}
	if err := s.MustExec("call dolt_commit('-A', '--allow-empty', '-m', 'init')"); err != nil {
		return nil, err
	}
	if err := applyOps(s, c.Pre); err != nil {
		return nil, err
	}
	if len(c.Pre) > 0 {
		if err := s.MustExec("call dolt_add('-A')"); err != nil {
			return nil, err
		}
	}
	if err := applyOps(s, c.Work); err != nil {
		return nil, err
	}
	for _, p := range c.Pats {
		ig := 0
		if p.Ig {
			ig = 1
		}
		if err := s.MustExec(fmt.Sprintf("insert into dolt_ignore values (%s, %d)", sqlQuote(toStr(p.P)), ig)); err != nil {
			return nil, err
		}
	}
	o := &SqlObs{Pats: []Pat{}, Dec: []int{}}
	var r doltdb.Roots
	if o.PreH, o.PreS, o.PreW, r, err = roots(s); err != nil {
		return nil, err
	}
	// the patterns exactly as the implementation reads them
	pm, err := doltdb.GetIgnoredTablePatterns(s.Ctx, r, []string{doltdb.DefaultSchemaName})
	if err != nil {
		return nil, err
	}
	ips := pm[doltdb.DefaultSchemaName]
	for _, ip := range ips {
		o.Pats = append(o.Pats, Pat{P: fromStr(ip.Pattern), Ig: ip.Ignore})
	}
	seen := map[string]bool{}
	for _, l := range [][]Tbl{o.PreW, o.PreS} {
		for _, t := range l {
			n := toStr(t.N)
			if !seen[n] {
				seen[n] = true
				d, _, _ := decide(ips, n)
				o.Dec = append(o.Dec, d)
			}
		}
	}
	var q string
	switch c.Act {
	case "add_all":
		q = "call dolt_add('-A')"
	case "add_dot":
		q = "call dolt_add('.')"
	case "commit_all":
		q = "call dolt_commit('-A', '-m', 'c')"
	case "clean":
		q = "call dolt_clean()"
	case "clean_x":
		q = "call dolt_clean('-x')"
	case "clean_dry":
		q = "call dolt_clean('--dry-run')"
	default:
		return nil, fmt.Errorf("bad act %q", c.Act)
	}
	res := s.Exec(q)
	if res.Err != "" {
		o.ErrS = res.Err
		switch {
		case strings.Contains(res.Err, "dolt_ignore") && strings.Contains(res.Err, "conflict"):
			o.Err = 1
		case strings.Contains(res.Err, "nothing to commit"):
			o.Err = 2
		default:
			o.Err = 3
		}
	}
	if o.PostH, o.PostS, o.PostW, _, err = roots(s); err != nil {
		return nil, err
	}
	return Obs{Sql: o}, nil
}

func Run(raw json.RawMessage) (any, error) {
	var c Case
	if err := json.Unmarshal(raw, &c); err != nil {
		return nil, err
	}
	switch c.K {
	case "dec":
		return runDec(c)
	case "sql":
		return runSql(c)
	}
	return nil, fmt.Errorf("bad kind %q", c.K)
}
