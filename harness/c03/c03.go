// Package c03: chunk journal crash recovery (property C03). Drives the real
// journalWriter (create / writeCompressedChunk / commitRootHash / Close), takes
// the journal bytes it produced, damages them (truncate / zero-fill / garbage
// tail / bit flip / partial overwrite) and reopens every image through the real
// openJournalWriter + bootstrapJournal path in a fresh temp dir.
// The helpers are shared with package c04 (journal index).
package c03

import (
	"bytes"
	"encoding/json"
	"fmt"
	"os"
	"path/filepath"

	"github.com/dolthub/dolt/go/store/chunks"
	"github.com/dolthub/dolt/go/store/hash"
	"github.com/dolthub/dolt/go/store/nbs"

	"verifharness/hk"
)

func init() {
	hk.Register("c03", Run)
	hk.Register("c03sync", RunSync)
}

// markFd: when set (runner c03sync, executed under strace), BuildHistory brackets every API call with a marker write
// "VERIFMARK <case> <op> B|A" so that the syscall log shows which pwrite64/fsync happened before the call returned.
var markFd *os.File
var markCase = -1

func mark(op int, what string) {
	if markFd != nil {
		_, _ = markFd.Write([]byte(fmt.Sprintf("VERIFMARK %d %d %s\n", markCase, op, what)))
	}
}

// RunSync only runs the history through the real writer (with markers); the observation comes from the strace log.
func RunSync(raw json.RawMessage) (any, error) {
	var c Case
	if err := json.Unmarshal(raw, &c); err != nil {
		return nil, err
	}
	if markFd == nil {
		f, err := os.OpenFile("/dev/null", os.O_WRONLY, 0)
		if err != nil {
			return nil, err
		}
		markFd = f
	}
	markCase++
	if c.Big > 0 {
		return map[string]int{"n": 0}, nil
	}
	if c.Bufsz != 0 {
		old := nbs.VerifC03SetBuffSize(c.Bufsz)
		defer nbs.VerifC03SetBuffSize(old)
	}
	mark(-1, "S")
	h, err := BuildHistory(c.Ops, c.Maxnovel)
	mark(-1, "E")
	if err != nil {
		return nil, err
	}
	return map[string]int{"n": len(h.Ops)}, nil
}

type Op struct {
	K    string `json:"k"` // "chunk" (data, compressed by the real code) | "raw" (addr, full) | "commit" (root, ts)
	Data []int  `json:"data,omitempty"`
	Addr []int  `json:"addr,omitempty"`
	Full []int  `json:"full,omitempty"`
	Root []int  `json:"root,omitempty"`
	Ts   uint64 `json:"ts,omitempty"`
}

// Mut is a damage description. The position is either absolute (At) or relative to the start of the
// record written by op number Rec (Rec == len(ops) means the end of the journal) plus D.
type Mut struct {
	K     string `json:"k"` // trunc | zero | tail (bytes appended after the cut) | xor (bytes = masks) | crash (= trunc, after op Op) | none
	Op    int    `json:"op,omitempty"`
	Rec   *int   `json:"rec,omitempty"`
	D     int    `json:"d,omitempty"`
	At    *int   `json:"at,omitempty"`
	N     int    `json:"n,omitempty"`     // zero: number of zero bytes appended
	Bytes []int  `json:"bytes,omitempty"` // tail / over
	X     int    `json:"x,omitempty"`     // flip: xor mask
	Ro    bool   `json:"ro,omitempty"`
}

type Case struct {
	Bufsz    uint32 `json:"bufsz"`    // 0: leave journalWriterBuffSize alone
	Maxnovel int    `json:"maxnovel"` // wr.maxNovel (0: default)
	Ops      []Op   `json:"ops"`
	Muts     []Mut  `json:"muts"`
	All      bool   `json:"all,omitempty"` // additionally truncate at every offset (thorough tier)
	Big      int    `json:"big,omitempty"` // > 0: write this many MiB of chunk records after one commit (intermediate-sync path); nothing else is done
}

type OpOut struct {
	Kind      int    `json:"kind"` // 0 chunk, 1 commit
	Addr      []int  `json:"addr"` // chunk address or root
	Full      []int  `json:"full"` // chunk payload as written (compressed chunk bytes incl. chunk crc)
	Ts        uint64 `json:"ts"`
	Err       bool   `json:"err"`
	Start     int64  `json:"start"`     // writer offset before the op
	End       int64  `json:"end"`       // writer offset (written + buffered) after the op
	DiskAfter int64  `json:"diskafter"` // size of the journal file on disk when the op returned
}

type Look struct {
	Found bool   `json:"f"`
	Off   uint64 `json:"o"`
	Len   uint32 `json:"l"`
	St    int    `json:"st"`  // 0 absent, 1 read ok, 2 read error, 3 panic
	Sum   uint32 `json:"sum"` // crc of the bytes read when St == 1
}

type Res struct {
	Err       int    `json:"err"` // 0 ok, 1 data loss, 2 other error
	ErrText   string `json:"errtext,omitempty"`
	Root      []int  `json:"root"`
	Off       int64  `json:"off"`
	Count     uint32 `json:"count"`
	Looks     []Look `json:"looks"`
	SizeAfter int64  `json:"sizeafter"`
	Unchanged bool   `json:"unchanged"` // journal bytes identical before/after the open
	IdxAfter  []int  `json:"-"`
	IdxExists bool   `json:"idxexists"`
	Warnings  int    `json:"warnings"`
}

type MutOut struct {
	K     string `json:"k"`
	At    int    `json:"at"`
	N     int    `json:"n"`
	Bytes []int  `json:"bytes"`
	X     int    `json:"x"`
	Op    int    `json:"op"`
	Ro    bool   `json:"ro"`
	Res   Res    `json:"res"`
}

type Obs struct {
	Poly    uint32   `json:"poly"`
	Bufsz   uint32   `json:"bufsz"`
	RootSz  int      `json:"rootsz"`
	Ops     []OpOut  `json:"ops"`
	Journal []int    `json:"journal"`
	Known   [][]int  `json:"known"`
	Muts    []MutOut `json:"muts"`
	Fn      FnObs    `json:"fn"`
	Index   []int    `json:"index"` // journal.idx after Close
	Big     BigObs   `json:"big"`
}

// BigObs: a history large enough to cross journalMaybeSyncThreshold (a constant: cannot be lowered), checked on the Go side only.
type BigObs struct {
	Ran       bool `json:"ran"`
	AutoRoots int  `json:"autoroots"` // root records in the journal beyond the explicit commits
	Batches   int  `json:"batches"`
	IdxInv    bool `json:"idxinv"`    // every batch: each chunk record starting below the meta's end has its lookup in this or an earlier batch
	EndIsRoot bool `json:"endisroot"` // every meta's end is the offset of a root record
}

// FnObs: function-level cross-checks on the undamaged journal image.
type FnObs struct {
	RecordsOk bool  `json:"recordsok"` // concatenating writeChunkRecord/writeRootHashRecord outputs reproduces the journal
	ProcOff   int64 `json:"procoff"`   // processJournalRecords over the in-memory image
	ProcRecs  int   `json:"procrecs"`
	DataLoss  bool  `json:"dataloss"` // possibleDataLossCheck over the whole image
}

func ToBytes(b []int) []byte {
	out := make([]byte, len(b))
	for i, x := range b {
		out[i] = byte(x)
	}
	return out
}

func FromBytes(b []byte) []int {
	out := make([]int, len(b))
	for i, x := range b {
		out[i] = int(x)
	}
	return out
}

func ToHash(b []int) (h hash.Hash) {
	copy(h[:], ToBytes(b))
	return
}

var curTs uint64

// Hist is a journal + index produced by the real writer from an op list.
type Hist struct {
	Journal []byte
	Index   []byte
	Ops     []OpOut
	Known   []hash.Hash
}

// BuildHistory runs ops through the real journal writer in a fresh temp dir and returns the files it left.
func BuildHistory(ops []Op, maxnovel int) (*Hist, error) {
	dir, err := os.MkdirTemp("/tmp", "c03-hist-")
	if err != nil {
		return nil, err
	}
	defer os.RemoveAll(dir)
	path := filepath.Join(dir, nbs.VerifC03JournalFileName())
	restore := nbs.VerifC03SetTimestamp(func() uint64 { return curTs })
	defer restore()
	w, err := nbs.VerifC03Create(path, maxnovel)
	if err != nil {
		return nil, err
	}
	h := &Hist{}
	for opi, op := range ops {
		var o OpOut
		mark(opi, "B")
		off, buffered, _, _, _, _, _ := w.State()
		o.Start = off + int64(buffered)
		var e error
		switch op.K {
		case "chunk":
			ch := chunks.NewChunk(ToBytes(op.Data))
			cc := nbs.ChunkToCompressedChunk(ch)
			hh := ch.Hash()
			o.Addr = FromBytes(hh[:])
			o.Full = FromBytes(cc.FullCompressedChunk)
			e = w.WriteCompressedChunk(cc)
			h.Known = append(h.Known, hh)
		case "raw":
			hh := ToHash(op.Addr)
			o.Addr = FromBytes(hh[:])
			o.Full = append([]int{}, op.Full...)
			e = w.WriteRaw(hh, ToBytes(op.Full))
			h.Known = append(h.Known, hh)
		case "commit":
			o.Kind = 1
			curTs = op.Ts
			o.Ts = op.Ts
			hh := ToHash(op.Root)
			o.Addr = FromBytes(hh[:])
			o.Full = []int{}
			e = w.CommitRootHash(hh)
		default:
			_ = w.Close()
			return nil, fmt.Errorf("unknown op kind %q", op.K)
		}
		o.Err = e != nil
		mark(opi, "A")
		off, buffered, _, _, _, _, _ = w.State()
		o.End = off + int64(buffered)
		if st, serr := os.Stat(path); serr == nil {
			o.DiskAfter = st.Size()
		}
		h.Ops = append(h.Ops, o)
	}
	if err = w.Close(); err != nil {
		return nil, err
	}
	if h.Journal, err = os.ReadFile(path); err != nil {
		return nil, err
	}
	h.Index, _ = os.ReadFile(filepath.Join(dir, nbs.VerifC03IndexFileName()))
	var absent hash.Hash
	for i := range absent {
		absent[i] = 0xEE
	}
	h.Known = append(h.Known, absent)
	return h, nil
}

// ResolveAt turns a (rec, d) or absolute position into an offset clamped to [0, len(journal)].
func ResolveAt(h *Hist, rec *int, d int, at *int) int {
	p := 0
	if at != nil {
		p = *at
	} else if rec != nil {
		if *rec >= len(h.Ops) {
			p = len(h.Journal)
		} else if *rec >= 0 {
			p = int(h.Ops[*rec].Start)
		}
		p += d
	}
	if p < 0 {
		p = 0
	}
	if p > len(h.Journal) {
		p = len(h.Journal)
	}
	return p
}

// ApplyMut damages a journal image.
func ApplyMut(j []byte, k string, at, n int, bs []int, x int) []byte {
	switch k {
	case "trunc", "crash":
		return append([]byte{}, j[:at]...)
	case "zero":
		return append(append([]byte{}, j[:at]...), make([]byte, n)...)
	case "tail":
		return append(append([]byte{}, j[:at]...), ToBytes(bs)...)
	case "xor":
		out := append([]byte{}, j...)
		b := ToBytes(bs)
		for i := 0; i < len(b) && at+i < len(out); i++ {
			out[at+i] ^= b[i]
		}
		return out
	}
	return append([]byte{}, j...)
}

func lookOne(w *nbs.VerifC03Writer, hh hash.Hash) (l Look) {
	r := w.Lookup(hh)
	l.Found, l.Off, l.Len = r.Found, r.Offset, r.Length
	if !r.Found {
		return l
	}
	defer func() {
		if p := recover(); p != nil {
			l.St = 3
			l.Sum = 0
		}
	}()
	if r.Length > 1<<26 {
		// the read would allocate r.Length bytes; out of the generator's range
		l.St = 2
		return l
	}
	full, err := w.GetCompressedChunk(hh)
	if err != nil {
		l.St = 2
		return l
	}
	l.St = 1
	l.Sum = nbs.VerifC03Crc(full)
	return l
}

// OpenObserve writes the journal image (and, if idx != nil, the index image) into a fresh temp dir,
// opens it through openJournalWriter + bootstrapJournal, records what the store shows, closes it and
// reports the files as left behind. The temp dir is removed.
func OpenObserve(journal []byte, idx []byte, ro bool, maxnovel int, known []hash.Hash) (res Res, err error) {
	dir, err := os.MkdirTemp("/tmp", "c03-open-")
	if err != nil {
		return res, err
	}
	defer os.RemoveAll(dir)
	path := filepath.Join(dir, nbs.VerifC03JournalFileName())
	ipath := filepath.Join(dir, nbs.VerifC03IndexFileName())
	if err = os.WriteFile(path, journal, 0o644); err != nil {
		return res, err
	}
	if idx != nil {
		if err = os.WriteFile(ipath, idx, 0o644); err != nil {
			return res, err
		}
	}
	w, root, warnings, oerr := nbs.VerifC03Open(path, !ro, maxnovel)
	res.Warnings = len(warnings)
	res.Root = FromBytes(make([]byte, hash.ByteLen))
	res.Looks = []Look{}
	if oerr != nil {
		if nbs.VerifC03IsDataLoss(oerr) {
			res.Err = 1
		} else {
			res.Err = 2
			res.ErrText = oerr.Error()
		}
	} else {
		res.Root = FromBytes(root[:])
		off, _, _, _, _, count, _ := w.State()
		res.Off = off
		res.Count = count
		for _, hh := range known {
			res.Looks = append(res.Looks, lookOne(w, hh))
		}
		if cerr := w.Close(); cerr != nil {
			return res, cerr
		}
	}
	after, rerr := os.ReadFile(path)
	if rerr != nil {
		return res, rerr
	}
	res.SizeAfter = int64(len(after))
	res.Unchanged = bytes.Equal(after, journal)
	if ib, ierr := os.ReadFile(ipath); ierr == nil {
		res.IdxExists = true
		res.IdxAfter = FromBytes(ib)
	}
	return res, nil
}

func fnChecks(h *Hist) (f FnObs) {
	var cat []byte
	restore := nbs.VerifC03SetTimestamp(func() uint64 { return curTs })
	defer restore()
	for _, o := range h.Ops {
		if o.Err {
			continue
		}
		if o.Kind == 0 {
			cat = append(cat, nbs.VerifC03WriteChunkRecord(ToHash(o.Addr), ToBytes(o.Full))...)
		} else {
			curTs = o.Ts
			cat = append(cat, nbs.VerifC03WriteRootHashRecord(ToHash(o.Addr))...)
		}
	}
	f.RecordsOk = bytes.Equal(cat, h.Journal)
	off, recs, _, _ := nbs.VerifC03ProcessJournalRecords(h.Journal, 0)
	f.ProcOff, f.ProcRecs = off, len(recs)
	f.DataLoss, _ = nbs.VerifC03PossibleDataLossCheck(h.Journal)
	return f
}

// bigRun writes one commit and then mib MiB of 4 MiB chunk records (crossing journalMaybeSyncThreshold, so that
// writeCompressedChunk commits the current root by itself), one more commit, closes, and checks the index file
// against the journal with the real parsers.
func bigRun(mib int, maxnovel int) (b BigObs, err error) {
	dir, err := os.MkdirTemp("/tmp", "c03-big-")
	if err != nil {
		return b, err
	}
	defer os.RemoveAll(dir)
	path := filepath.Join(dir, nbs.VerifC03JournalFileName())
	restore := nbs.VerifC03SetTimestamp(func() uint64 { return 7 })
	defer restore()
	w, err := nbs.VerifC03Create(path, maxnovel)
	if err != nil {
		return b, err
	}
	var root hash.Hash
	root[0] = 9
	if err = w.CommitRootHash(root); err != nil {
		return b, err
	}
	payload := make([]byte, 4<<20)
	commits := 1
	for i := 0; i*4 < mib; i++ {
		var a hash.Hash
		a[0], a[1], a[2] = byte(i), byte(i>>8), 0x5a
		payload[0] = byte(i)
		if err = w.WriteRaw(a, payload); err != nil {
			return b, err
		}
	}
	root[1] = 1
	if err = w.CommitRootHash(root); err != nil {
		return b, err
	}
	commits++
	if err = w.Close(); err != nil {
		return b, err
	}
	journal, err := os.ReadFile(path)
	if err != nil {
		return b, err
	}
	idx, _ := os.ReadFile(filepath.Join(dir, nbs.VerifC03IndexFileName()))
	_, recs, _, perr := nbs.VerifC03ProcessJournalRecords(journal, 0)
	if perr != nil {
		return b, perr
	}
	_, batches, ierr := nbs.VerifC04ProcessIndexRecords(idx)
	if ierr != nil {
		return b, ierr
	}
	b.Ran = true
	roots := map[int64]bool{}
	nroots := 0
	for _, r := range recs {
		if r.Kind == 1 {
			roots[r.Off] = true
			nroots++
		}
	}
	b.AutoRoots = nroots - commits
	b.Batches = len(batches)
	b.IdxInv, b.EndIsRoot = true, true
	seen := map[uint64]bool{}
	for _, bt := range batches {
		for _, l := range bt.Lookups {
			seen[l.Offset] = true
		}
		if !roots[bt.End] {
			b.EndIsRoot = false
		}
		for _, r := range recs {
			if r.Kind == 2 && r.Off < bt.End && !seen[uint64(r.Off)+uint64(r.PayloadOff)] {
				b.IdxInv = false
			}
		}
	}
	return b, nil
}

func Run(raw json.RawMessage) (any, error) {
	var c Case
	if err := json.Unmarshal(raw, &c); err != nil {
		return nil, err
	}
	if c.Big > 0 {
		b, err := bigRun(c.Big, c.Maxnovel)
		if err != nil {
			return nil, err
		}
		return Obs{Poly: nbs.VerifC03CrcPoly(), Bufsz: nbs.VerifC03BuffSize(), RootSz: nbs.VerifC03RootHashRecordSize(),
			Ops: []OpOut{}, Journal: []int{}, Known: [][]int{}, Muts: []MutOut{}, Index: []int{}, Big: b,
			Fn: FnObs{RecordsOk: true}}, nil
	}
	if c.Bufsz != 0 {
		old := nbs.VerifC03SetBuffSize(c.Bufsz)
		defer nbs.VerifC03SetBuffSize(old)
	}
	h, err := BuildHistory(c.Ops, c.Maxnovel)
	if err != nil {
		return nil, err
	}
	o := Obs{Poly: nbs.VerifC03CrcPoly(), Bufsz: nbs.VerifC03BuffSize(), RootSz: nbs.VerifC03RootHashRecordSize(),
		Ops: h.Ops, Journal: FromBytes(h.Journal), Muts: []MutOut{}, Index: FromBytes(h.Index)}
	for _, k := range h.Known {
		o.Known = append(o.Known, FromBytes(k[:]))
	}
	o.Fn = fnChecks(h)
	muts := append([]Mut{}, c.Muts...)
	if c.All {
		for k := 0; k <= len(h.Journal); k++ {
			kk := k
			muts = append(muts, Mut{K: "trunc", At: &kk, Ro: k%7 == 3})
		}
	}
	for _, m := range muts {
		at := ResolveAt(h, m.Rec, m.D, m.At)
		img := ApplyMut(h.Journal, m.K, at, m.N, m.Bytes, m.X)
		res, err := OpenObserve(img, nil, m.Ro, c.Maxnovel, h.Known)
		if err != nil {
			return nil, err
		}
		bs := m.Bytes
		if bs == nil {
			bs = []int{}
		}
		o.Muts = append(o.Muts, MutOut{K: m.K, At: at, N: m.N, Bytes: bs, X: m.X, Op: m.Op, Ro: m.Ro, Res: res})
	}
	return o, nil
}
