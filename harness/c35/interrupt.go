package c35

// Interrupted transfers on the real code.  A dbfactory scheme "c35fail" is registered: it opens the ordinary
// file:// store and wraps its chunk store so that one chosen operation of the transfer fails (before it runs, in
// the middle, or after it ran but before the caller learns it).  dolt_push / dolt_fetch / dolt_pull / dolt_clone
// then run through the real actions + datas/pull code against that remote; after EVERY injected failure the
// destination (the remote for push, the local repository for fetch/pull/clone) is opened directly and its refs
// and chunks are handed to the model: every ref must have its whole closure present, and the store must be
// closed under references.

import (
	"context"
	"errors"
	"fmt"
	"io"
	"net/url"
	"sort"
	"strings"
	"sync"
	"time"

	"github.com/dolthub/dolt/go/libraries/doltcore/dbfactory"
	"github.com/dolthub/dolt/go/libraries/doltcore/doltdb"
	"github.com/dolthub/dolt/go/libraries/utils/filesys"
	"github.com/dolthub/dolt/go/store/chunks"
	"github.com/dolthub/dolt/go/store/datas"
	"github.com/dolthub/dolt/go/store/hash"
	"github.com/dolthub/dolt/go/store/nbs"
	"github.com/dolthub/dolt/go/store/prolly/tree"
	"github.com/dolthub/dolt/go/store/types"

	"verifharness/c09"
	"verifharness/util"
)

var errInjected = errors.New("c35: injected failure")

type failPlan struct {
	point string // "", wtf-before, wtf-mid, wtf-after, add-before, add-after, commit-before, commit-after, hasmany, getmany, sources, open
	k     int    // hasmany: fail the k-th call; getmany: fail after k chunks were delivered
	mu    sync.Mutex
	n     int  // calls / chunks seen so far
	fired bool // did the injected failure happen
}

var plan = &failPlan{}

func setPlan(point string, k int) {
	plan.mu.Lock()
	plan.point, plan.k, plan.n, plan.fired = point, k, 0, false
	plan.mu.Unlock()
}

func (p *failPlan) at(point string) bool {
	p.mu.Lock()
	defer p.mu.Unlock()
	if p.point == point {
		p.fired = true
		return true
	}
	return false
}

func (p *failPlan) count(point string) bool {
	p.mu.Lock()
	defer p.mu.Unlock()
	if p.point != point {
		return false
	}
	p.n++
	if p.n > p.k {
		p.fired = true
		return true
	}
	return false
}

func planFired() bool {
	plan.mu.Lock()
	defer plan.mu.Unlock()
	return plan.fired
}

type fullCS interface {
	chunks.ChunkStore
	chunks.TableFileStore
	GetManyCompressed(context.Context, hash.HashSet, func(context.Context, nbs.ToChunker)) error
}

type failCS struct{ fullCS }

func (f *failCS) WriteTableFile(ctx context.Context, id string, split uint64, n int, ch []byte, getRd func() (io.ReadCloser, uint64, error)) (io.Closer, error) {
	if plan.at("wtf-before") {
		return nil, errInjected
	}
	if plan.at("wtf-mid") {
		rd, sz, err := getRd()
		if err == nil {
			_, _ = io.CopyN(io.Discard, rd, int64(sz/2))
			rd.Close()
		}
		return nil, errInjected
	}
	c, err := f.fullCS.WriteTableFile(ctx, id, split, n, ch, getRd)
	if err == nil && plan.at("wtf-after") {
		return nil, errInjected
	}
	return c, err
}

// rendezvous of racing pushers: everybody waits until |k| callers have arrived (or a timeout)
var (
	rvMu      sync.Mutex
	rvArrived int
	rvCh      = make(chan struct{})
)

func rendezvous(k int) {
	rvMu.Lock()
	rvArrived++
	ch := rvCh
	if rvArrived >= k {
		rvArrived = 0
		rvCh = make(chan struct{})
		close(ch)
	}
	rvMu.Unlock()
	select {
	case <-ch:
	case <-time.After(4 * time.Second):
	}
}

func (f *failCS) AddTableFilesToManifest(ctx context.Context, m map[string]int, ga chunks.InsertAddrsCurry) error {
	plan.mu.Lock()
	isBarrier, k := plan.point == "barrier", plan.k
	plan.mu.Unlock()
	if isBarrier {
		rendezvous(k)
	}
	if plan.at("add-before") {
		return errInjected
	}
	err := f.fullCS.AddTableFilesToManifest(ctx, m, ga)
	if err == nil && plan.at("add-after") {
		return errInjected
	}
	return err
}

func (f *failCS) Commit(ctx context.Context, current, last hash.Hash) (bool, error) {
	if plan.at("commit-before") {
		return false, errInjected
	}
	ok, err := f.fullCS.Commit(ctx, current, last)
	if err == nil && ok && plan.at("commit-after") {
		return false, errInjected
	}
	return ok, err
}

func (f *failCS) HasMany(ctx context.Context, hs hash.HashSet) (hash.HashSet, error) {
	if plan.count("hasmany") {
		return nil, errInjected
	}
	return f.fullCS.HasMany(ctx, hs)
}

func (f *failCS) GetManyCompressed(ctx context.Context, hs hash.HashSet, found func(context.Context, nbs.ToChunker)) error {
	cctx, cancel := context.WithCancel(ctx)
	defer cancel()
	failed := false
	var mu sync.Mutex
	err := f.fullCS.GetManyCompressed(cctx, hs, func(c context.Context, tc nbs.ToChunker) {
		mu.Lock()
		stop := failed
		if !stop && plan.count("getmany") {
			failed, stop = true, true
			cancel()
		}
		mu.Unlock()
		if !stop {
			found(c, tc)
		}
	})
	if failed {
		return errInjected
	}
	return err
}

type failTF struct{ chunks.TableFile }

func (t failTF) Open(ctx context.Context) (io.ReadCloser, uint64, error) {
	if plan.at("open") {
		return nil, 0, errInjected
	}
	return t.TableFile.Open(ctx)
}

func (f *failCS) Sources(ctx context.Context) (chunks.TableFileSources, error) {
	if plan.at("sources") {
		return chunks.TableFileSources{}, errInjected
	}
	s, err := f.fullCS.Sources(ctx)
	if err != nil {
		return s, err
	}
	out := make([]chunks.TableFile, len(s.TableFiles))
	for i, tf := range s.TableFiles {
		out[i] = failTF{tf}
	}
	s.TableFiles = out
	return s, nil
}

type failFactory struct{}

func fileURL(u *url.URL) *url.URL {
	c := *u
	c.Scheme = dbfactory.FileScheme
	return &c
}

func (failFactory) PrepareDB(ctx context.Context, nbf *types.NomsBinFormat, u *url.URL, params map[string]interface{}) error {
	return dbfactory.FileFactory{}.PrepareDB(ctx, nbf, fileURL(u), params)
}

func (failFactory) CreateDB(ctx context.Context, nbf *types.NomsBinFormat, u *url.URL, params map[string]interface{}) (datas.Database, types.ValueReadWriter, tree.NodeStore, error) {
	db, _, _, err := dbfactory.FileFactory{}.CreateDB(ctx, nbf, fileURL(u), params)
	if err != nil {
		return nil, nil, nil, err
	}
	cs, ok := datas.ChunkStoreFromDatabase(db).(fullCS)
	if !ok {
		return nil, nil, nil, fmt.Errorf("c35fail: underlying store %T lacks a needed interface", datas.ChunkStoreFromDatabase(db))
	}
	w := &failCS{cs}
	vrw := types.NewValueStore(w)
	ns := tree.NewNodeStore(w)
	return datas.NewTypesDatabase(vrw, ns), vrw, ns, nil
}

func init() { dbfactory.DBFactories["c35fail"] = failFactory{} }

// ---------------------------------------------------------------------------

type Point struct {
	Op      string `json:"op"`
	Fail    string `json:"fail"`
	Fired   bool   `json:"fired"`
	OpErr   bool   `json:"op_err"`
	Present []int  `json:"present"` // universe chunks the destination holds
	Heads   []int  `json:"heads"`   // every dataset head of the destination
	Note    string `json:"note,omitempty"`
}

type universe struct {
	num  map[hash.Hash]int
	refs map[hash.Hash][]hash.Hash
	all  []hash.Hash
}

func (u *universe) id(h hash.Hash) int {
	if v, ok := u.num[h]; ok {
		return v
	}
	u.all = append(u.all, h)
	u.num[h] = len(u.all)
	return len(u.all)
}

// add walks cs from the start set with the real walker and registers every chunk found
func (u *universe) add(ctx context.Context, cs chunks.ChunkStore, start []hash.Hash) {
	todo := append([]hash.Hash{}, start...)
	for len(todo) > 0 {
		h := todo[len(todo)-1]
		todo = todo[:len(todo)-1]
		if h.IsEmpty() {
			continue
		}
		u.id(h)
		if _, ok := u.refs[h]; ok {
			continue
		}
		c, err := cs.Get(ctx, h)
		if err != nil || c.IsEmpty() {
			continue
		}
		as, err := c09.RealWalk(c.Data())
		if err != nil {
			continue
		}
		u.refs[h] = as
		todo = append(todo, as...)
	}
}

func (u *universe) graph() [][]int {
	out := [][]int{}
	for _, h := range u.all {
		as, ok := u.refs[h]
		if !ok {
			continue
		}
		row := []int{u.num[h]}
		seen := map[int]bool{}
		for _, a := range as {
			if a.IsEmpty() {
				continue
			}
			n := u.id(a)
			if !seen[n] {
				seen[n] = true
				row = append(row, n)
			}
		}
		out = append(out, row)
	}
	return out
}

// snapshot of a destination: its dataset heads and which universe chunks it has
func (u *universe) snapshot(ctx context.Context, ddb *doltdb.DoltDB) ([]int, []int, string) {
	db := doltdb.ExposeDatabaseFromDoltDB(ddb)
	cs := datas.ChunkStoreFromDatabase(db)
	_ = cs.Rebase(ctx)
	root, err := cs.Root(ctx)
	if err != nil {
		return nil, nil, "root: " + err.Error()
	}
	var heads []hash.Hash
	if !root.IsEmpty() {
		dss, err := db.DatasetsByRootHash(ctx, root)
		if err != nil {
			return nil, nil, "datasets: " + err.Error()
		}
		_ = dss.IterAll(ctx, func(id string, a hash.Hash) error { heads = append(heads, a); return nil })
		heads = append(heads, root)
	}
	u.add(ctx, cs, heads)
	hs := hash.NewHashSet(u.all...)
	absent, err := cs.HasMany(ctx, hs)
	if err != nil {
		return nil, nil, "hasmany: " + err.Error()
	}
	present := []int{}
	for _, h := range u.all {
		if !absent.Has(h) {
			present = append(present, u.num[h])
		}
	}
	hd := []int{}
	for _, h := range heads {
		hd = append(hd, u.num[h])
	}
	sort.Ints(hd)
	return present, hd, ""
}

var sinkPoints = []struct {
	p string
	k int
}{{"hasmany", 0}, {"hasmany", 1}, {"wtf-before", 0}, {"wtf-mid", 0}, {"wtf-after", 0}, {"add-before", 0}, {"add-after", 0}, {"commit-before", 0}, {"commit-after", 0}}

var srcPoints = []struct {
	p string
	k int
}{{"hasmany", 0}, {"getmany", 0}, {"getmany", 1}, {"getmany", 3}, {"getmany", 9}, {"getmany", 25}}

// RunInterrupt drives the interrupted-transfer schedule; fills o.Graph and o.Points.
func RunInterrupt(ctx context.Context, c Case, dir string, o *Obs) error {
	fileRemote := "file://" + dir + "/remote"
	failRemote := "c35fail://" + dir + "/remote"
	uni := &universe{num: map[hash.Hash]int{}, refs: map[hash.Hash][]hash.Hash{}}

	a, err := util.NewEnv(true)
	if err != nil {
		return err
	}
	defer a.Close()
	sa, _ := a.NewSession()
	must := func(sess *util.Session, qs ...string) {
		for _, q := range qs {
			if r := c09.Exec(sess, q); r.Err != "" && !c09.Tolerated(q, r.Err) {
				o.ScriptErrs = append(o.ScriptErrs, q+": "+r.Err)
			}
		}
	}
	cc := c.Case
	cc.Scn = "plain"
	must(sa, c09.Script(cc)...)
	must(sa, "call dolt_checkout('main')", fmt.Sprintf("call dolt_remote('add','origin','%s')", failRemote))
	setPlan("", 0)
	if err := dbfactory.PrepareDB(ctx, types.Format_DOLT, fileRemote, nil); err != nil {
		o.Notes = append(o.Notes, "prepare: "+err.Error())
	}
	remoteDB := func() (*doltdb.DoltDB, error) {
		return doltdb.LoadDoltDB(ctx, types.Format_DOLT, fileRemote, filesys.LocalFS)
	}
	point := func(op, fail string, opErr bool, ddb *doltdb.DoltDB) {
		p := Point{Op: op, Fail: fail, Fired: planFired(), OpErr: opErr}
		p.Present, p.Heads, p.Note = uni.snapshot(ctx, ddb)
		if p.Present == nil {
			p.Present, p.Heads = []int{}, []int{0}
		}
		o.Points = append(o.Points, p)
	}
	addSrc := func() {
		ddb := a.DEnv.DoltDB(ctx)
		cs := datas.ChunkStoreFromDatabase(doltdb.ExposeDatabaseFromDoltDB(ddb))
		root, _ := cs.Root(ctx)
		uni.add(ctx, cs, []hash.Hash{root})
	}
	// ---- push, sink-side failures; two rounds (empty remote, then a remote that holds part of the data)
	for round := 0; round < 2; round++ {
		if round == 1 {
			must(sa, "insert into u values (800,800)", "update t set c2 = 'pushed again' where pk = 2", "call dolt_commit('-am','round 2')")
		}
		addSrc()
		for _, sp := range sinkPoints {
			setPlan(sp.p, sp.k)
			r := sa.Exec("call dolt_push('origin','main')")
			rdb, err := remoteDB()
			if err != nil {
				o.Notes = append(o.Notes, "open remote: "+err.Error())
				continue
			}
			point(fmt.Sprintf("push%d", round), fmt.Sprintf("%s@%d", sp.p, sp.k), r.Err != "", rdb)
		}
		setPlan("", 0)
		if r := sa.Exec("call dolt_push('origin','main')"); r.Err != "" && !strings.Contains(r.Err, "up to date") && !strings.Contains(r.Err, "up-to-date") {
			o.Notes = append(o.Notes, "final push: "+r.Err)
		}
		if rdb, err := remoteDB(); err == nil {
			point(fmt.Sprintf("push%d", round), "none", false, rdb)
		}
	}
	// ---- fetch / pull into a second repository, source-side failures
	b, err := util.NewEnv(true)
	if err != nil {
		return err
	}
	defer b.Close()
	sb, _ := b.NewSession()
	must(sb, "set @@autocommit = 1", fmt.Sprintf("call dolt_remote('add','origin','%s')", failRemote))
	bdb := b.DEnv.DoltDB(ctx)
	for _, sp := range srcPoints {
		setPlan(sp.p, sp.k)
		r := sb.Exec("call dolt_fetch('origin')")
		point("fetch", fmt.Sprintf("%s@%d", sp.p, sp.k), r.Err != "", bdb)
	}
	setPlan("", 0)
	must(sb, "call dolt_fetch('origin')", "call dolt_checkout('-b','m2','origin/main')")
	point("fetch", "none", false, bdb)
	must(sa, "insert into u values (801,801)", "call dolt_commit('-am','round 3')", "call dolt_push('origin','main')")
	addSrc()
	for _, sp := range srcPoints {
		setPlan(sp.p, sp.k)
		r := sb.Exec("call dolt_pull('origin','main')")
		point("pull", fmt.Sprintf("%s@%d", sp.p, sp.k), r.Err != "", bdb)
	}
	setPlan("", 0)
	must(sb, "call dolt_pull('origin','main')")
	point("pull", "none", false, bdb)
	o.PullEqual = rows(sb, "select * from u") == rows(sa, "select * from u") && rows(sb, "select * from t") == rows(sa, "select * from t") &&
		rows(sb, "select * from wd") == rows(sa, "select * from wd")
	// ---- clone, source-side failures: the clone must either not exist or be complete
	o.CloneEqual = true
	for i, sp := range []string{"sources", "open"} {
		setPlan(sp, 0)
		name := fmt.Sprintf("clf%d", i)
		r := sa.Exec(fmt.Sprintf("call dolt_clone('%s','%s')", failRemote, name))
		fired := planFired()
		chk, _ := a.NewSession()
		u := chk.Exec("use " + name)
		p := Point{Op: "clone", Fail: sp, Fired: fired, OpErr: r.Err != "", Present: []int{}, Heads: []int{}}
		if u.Err == "" {
			// the database exists: it must read back completely
			if x := chk.Exec("select count(*) from t"); x.Err != "" {
				p.Heads = []int{0}
				p.Note = "clone exists but is unreadable: " + x.Err
			}
		}
		o.Points = append(o.Points, p)
	}
	setPlan("", 0)
	must(sa, fmt.Sprintf("call dolt_clone('%s','clok')", failRemote))
	cl, _ := a.NewSession()
	must(cl, "use clok")
	src, _ := a.NewSession()
	must(src, "call dolt_checkout('main')")
	for _, q := range []string{"select * from t", "select * from u", "select * from wd", "select dolt_hashof_db('HEAD')"} {
		if rows(cl, q) != rows(src, q) {
			o.CloneEqual = false
		}
	}
	o.Graph = uni.graph()
	return nil
}
