package c35

// An in-process remotesapi server (gRPC + HTTP on one loopback port, go/libraries/doltcore/remotesrv) so that
// push / clone / pull and racing pushes also run over the http:// transport (remotestorage client, Commit RPC).

import (
	"context"
	"fmt"
	"net"
	"path/filepath"
	"sync"
	"time"

	"github.com/sirupsen/logrus"
	"google.golang.org/grpc"

	remotesapi "github.com/dolthub/dolt/go/gen/proto/dolt/services/remotesapi/v1alpha1"
	"github.com/dolthub/dolt/go/libraries/doltcore/remotesrv"
	"github.com/dolthub/dolt/go/libraries/utils/filesys"
	"github.com/dolthub/dolt/go/store/nbs"
)

type csCache struct {
	mu  sync.Mutex
	dbs map[string]remotesrv.RemoteSrvStore
	fs  filesys.Filesys
}

func (c *csCache) Get(ctx context.Context, repopath, nbfVerStr string) (remotesrv.RemoteSrvStore, error) {
	c.mu.Lock()
	defer c.mu.Unlock()
	id := filepath.FromSlash(repopath)
	if cs, ok := c.dbs[id]; ok {
		return cs, nil
	}
	if err := c.fs.MkDirs(id); err != nil {
		return nil, err
	}
	path, err := c.fs.Abs(id)
	if err != nil {
		return nil, err
	}
	cs, err := nbs.NewLocalStore(ctx, nbfVerStr, path, 128*1024*1024, nbs.NewUnlimitedMemQuotaProvider(), false)
	if err != nil {
		return nil, err
	}
	c.dbs[id] = cs
	return cs, nil
}

// commitBarrier: when armed, Commit RPCs wait until |want| of them have arrived (or a timeout), so that racing
// pushers present the same expected root to the server.
type commitBarrier struct {
	mu      sync.Mutex
	want    int
	arrived int
	ch      chan struct{}
}

var barrier = &commitBarrier{}

func armBarrier(n int) {
	barrier.mu.Lock()
	barrier.want, barrier.arrived, barrier.ch = n, 0, make(chan struct{})
	barrier.mu.Unlock()
}

func (b *commitBarrier) wait() {
	b.mu.Lock()
	if b.want == 0 {
		b.mu.Unlock()
		return
	}
	b.arrived++
	ch := b.ch
	if b.arrived >= b.want {
		b.want = 0
		close(ch)
	}
	b.mu.Unlock()
	select {
	case <-ch:
	case <-time.After(4 * time.Second):
	}
}

func commitInterceptor(ctx context.Context, req interface{}, info *grpc.UnaryServerInfo, handler grpc.UnaryHandler) (interface{}, error) {
	if _, ok := req.(*remotesapi.CommitRequest); ok {
		barrier.wait()
	}
	return handler(ctx, req)
}

// startRemoteSrv serves repositories under dir; returns the base URL ("http://127.0.0.1:port") and a stop function.
func startRemoteSrv(dir string) (string, func(), error) {
	l, err := net.Listen("tcp", "127.0.0.1:0")
	if err != nil {
		return "", nil, err
	}
	port := l.Addr().(*net.TCPAddr).Port
	l.Close()
	addr := fmt.Sprintf("127.0.0.1:%d", port)
	fs, err := filesys.LocalFilesysWithWorkingDir(dir)
	if err != nil {
		return "", nil, err
	}
	lg := logrus.New()
	lg.SetLevel(logrus.PanicLevel)
	srv, err := remotesrv.NewServer(remotesrv.ServerArgs{
		Logger:             logrus.NewEntry(lg),
		HttpHost:           addr,
		HttpListenAddr:     addr,
		GrpcListenAddr:     addr,
		FS:                 fs,
		DBCache:            &csCache{dbs: map[string]remotesrv.RemoteSrvStore{}, fs: fs},
		ConcurrencyControl: remotesapi.PushConcurrencyControl_PUSH_CONCURRENCY_CONTROL_IGNORE_WORKING_SET,
		Options:            []grpc.ServerOption{grpc.UnaryInterceptor(commitInterceptor)},
	})
	if err != nil {
		return "", nil, err
	}
	ls, err := srv.Listeners()
	if err != nil {
		return "", nil, err
	}
	go srv.Serve(ls)
	return "http://" + addr, func() { srv.GracefulStop() }, nil
}
