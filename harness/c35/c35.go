// Package c35: push / clone / fetch / pull over file remotes (property C35).
//
// One case = a repository recipe (C09's scenarios) and a schedule.  Through SQL on the real engine:
// dolt_remote add (file:// remote in a temp dir), dolt_push of two branches, dolt_clone into a second
// database, a further commit + push + dolt_pull in the clone, a divergent (non fast-forward) push that must
// be refused and leave the remote untouched, then a forced push; and two sessions pushing different commits
// against the same remote head concurrently.  After every step the remote store is opened directly and
// examined with the REAL walker: refs, closedness, and presence of the closure of every pushed head.
package c35

import (
	"context"
	"encoding/json"
	"fmt"
	"os"
	"sort"
	"strings"
	"sync"

	"github.com/dolthub/dolt/go/cmd/dolt/cli"
	"github.com/dolthub/dolt/go/libraries/doltcore/dbfactory"
	"github.com/dolthub/dolt/go/libraries/doltcore/doltdb"
	"github.com/dolthub/dolt/go/libraries/doltcore/ref"
	"github.com/dolthub/dolt/go/libraries/utils/filesys"
	"github.com/dolthub/dolt/go/store/datas"
	"github.com/dolthub/dolt/go/store/hash"
	"github.com/dolthub/dolt/go/store/types"

	"verifharness/c09"
	"verifharness/hk"
	"verifharness/util"
)

func init() {
	hk.Register("c35", Run)
	// clone/pull progress is printed through cli.CliOut; keep it off the observation stream
	cli.CliOut = os.Stderr
}

type Case struct {
	c09.Case
	Race      bool `json:"race"`
	Grpc      bool `json:"grpc"`      // serve the remote over remotesapi (gRPC+HTTP, in-process remotesrv) instead of file://
	Interrupt bool `json:"interrupt"` // interrupted-transfer schedule (interrupt.go) instead of the plain one
}

type Obs struct {
	Graph       [][]int  `json:"graph"`        // universe: source chunks reachable before the first push
	Heads       []int    `json:"heads"`        // pushed heads
	RemoteHas   []int    `json:"remote_has"`   // which universe chunks the remote holds after the first push
	RefsMatch   bool     `json:"refs_match"`   // remote branch heads = pushed heads, after every step
	Closed      bool     `json:"closed"`       // remote store has no dangling reference, after every step
	CloneEqual  bool     `json:"clone_equal"`  // clone reads back identically
	PullEqual   bool     `json:"pull_equal"`   // after push + pull the clone equals the source
	NonFFRefuse bool     `json:"nonff_refused"` // divergent push refused and remote untouched
	ForceOK     bool     `json:"force_ok"`
	RaceOK      bool     `json:"race_ok"`      // of two concurrent pushes against one head at most one wins; remote = a winner, closed
	RaceWinners int      `json:"race_winners"`
	Points      []Point  `json:"points"` // interrupted transfers: destination state after every injected failure
	Notes       []string `json:"notes"`
	ScriptErrs  []string `json:"script_errs"`
}

func rows(s *util.Session, q string) string {
	r := s.Exec(q)
	util.SortRows(r.Rows)
	b, _ := json.Marshal(r.Rows)
	return string(b) + "|" + r.Err
}

type remoteView struct {
	heads  map[string]hash.Hash
	closed bool
	has    func(h hash.Hash) bool
	err    error
}

func examineRemote(ctx context.Context, url string) remoteView {
	var v remoteView
	rdb, err := doltdb.LoadDoltDB(ctx, types.Format_DOLT, url, filesys.LocalFS)
	if err != nil {
		v.err = err
		return v
	}
	// LoadDoltDB returns the process-wide cached instance also used by the engine's push/clone: never close it; refresh it
	_ = rdb.Rebase(ctx)
	cs := datas.ChunkStoreFromDatabase(doltdb.ExposeDatabaseFromDoltDB(rdb))
	root, err := cs.Root(ctx)
	if err != nil {
		v.err = err
		return v
	}
	reach, missing, err := c09.Closure(ctx, cs, []hash.Hash{root})
	if err != nil {
		v.err = err
		return v
	}
	v.closed = len(missing) == 0
	v.heads = map[string]hash.Hash{}
	brs, _ := rdb.GetBranches(ctx)
	for _, b := range brs {
		if cm, err := rdb.ResolveCommitRef(ctx, b); err == nil {
			h, _ := cm.HashOf()
			v.heads[b.GetPath()] = h
		}
	}
	present := reach.Copy()
	v.has = func(h hash.Hash) bool { return present.Has(h) && !missing.Has(h) }
	return v
}

func Run(raw json.RawMessage) (any, error) {
	var c Case
	if err := json.Unmarshal(raw, &c); err != nil {
		return nil, err
	}
	ctx := context.Background()
	dir, err := os.MkdirTemp("/tmp", "c35-")
	if err != nil {
		return nil, err
	}
	defer os.RemoveAll(dir)
	// the file remote is reached through the pass-through "c35fail" scheme so that racing pushers can be made to
	// rendezvous (interrupt.go); with no plan set it is the plain file:// store
	url := "c35fail://" + dir + "/remote"
	storeURL := "file://" + dir + "/remote" // where the remote's chunks live on disk (examined directly)
	if !c.Grpc {
		if err := dbfactory.PrepareDB(ctx, types.Format_DOLT, storeURL, nil); err != nil {
			return nil, err
		}
	}
	if c.Grpc {
		base, stop, err := startRemoteSrv(dir)
		if err != nil {
			return nil, err
		}
		defer stop()
		url = base + "/c35/remote"
		storeURL = "file://" + dir + "/c35/remote"
	}
	if c.Interrupt {
		o := &Obs{Graph: [][]int{}, Heads: []int{}, RemoteHas: []int{}, Points: []Point{}, Notes: []string{}, ScriptErrs: []string{}, RefsMatch: true, Closed: true}
		o.NonFFRefuse, o.ForceOK, o.RaceOK = true, true, true
		err := RunInterrupt(ctx, c, dir, o)
		setPlan("", 0)
		return o, err
	}
	e, err := util.NewEnv(true)
	if err != nil {
		return nil, err
	}
	defer e.Close()
	s, _ := e.NewSession()
	o := &Obs{Graph: [][]int{}, Heads: []int{}, RemoteHas: []int{}, Points: []Point{}, Notes: []string{}, ScriptErrs: []string{}, RefsMatch: true, Closed: true}

	must := func(sess *util.Session, qs ...string) {
		for _, q := range qs {
			if r := c09.Exec(sess, q); r.Err != "" && !c09.Tolerated(q, r.Err) {
				o.ScriptErrs = append(o.ScriptErrs, q+": "+r.Err)
			}
		}
	}
	cc := c.Case
	cc.Scn = "plain" // remotes transfer committed history; in-progress state stays local
	must(s, c09.Script(cc)...)
	must(s, "call dolt_checkout('main')", fmt.Sprintf("call dolt_remote('add','origin','%s')", url))

	ddb := e.DEnv.DoltDB(ctx)
	cs := datas.ChunkStoreFromDatabase(doltdb.ExposeDatabaseFromDoltDB(ddb))
	headOf := func(branch string) hash.Hash {
		cm, err := ddb.ResolveCommitRef(ctx, ref.NewBranchRef(branch))
		if err != nil {
			return hash.Hash{}
		}
		h, _ := cm.HashOf()
		return h
	}
	hMain, hOther := headOf("main"), headOf("other")
	// universe = closure of the two heads at the source
	uni, _, err := c09.Closure(ctx, cs, []hash.Hash{hMain, hOther})
	if err != nil {
		return o, err
	}
	var all []hash.Hash
	for h := range uni {
		all = append(all, h)
	}
	sort.Slice(all, func(i, j int) bool { return all[i].Compare(all[j]) < 0 })
	num := map[hash.Hash]int{}
	for i, h := range all {
		num[h] = i + 1
	}
	for _, h := range all {
		ch, err := cs.Get(ctx, h)
		if err != nil || ch.IsEmpty() {
			continue
		}
		as, _ := c09.RealWalk(ch.Data())
		row := []int{num[h]}
		seen := map[int]bool{}
		for _, a := range as {
			if n, ok := num[a]; ok && !seen[n] {
				seen[n] = true
				row = append(row, n)
			}
		}
		o.Graph = append(o.Graph, row)
	}
	o.Heads = []int{num[hMain], num[hOther]}

	check := func(stage string, want map[string]hash.Hash) remoteView {
		v := examineRemote(ctx, storeURL)
		if v.err != nil {
			o.Notes = append(o.Notes, stage+": open remote: "+v.err.Error())
			o.Closed = false
			return v
		}
		if !v.closed {
			o.Closed = false
			o.Notes = append(o.Notes, stage+": remote has dangling references")
		}
		for b, h := range want {
			if v.heads[b] != h {
				o.RefsMatch = false
				o.Notes = append(o.Notes, fmt.Sprintf("%s: remote %s = %s, want %s", stage, b, v.heads[b], h))
			}
		}
		return v
	}

	// 1. push two branches
	must(s, "call dolt_push('origin','main')", "call dolt_push('origin','other')")
	v := check("push", map[string]hash.Hash{"main": hMain, "other": hOther})
	if v.has != nil {
		for _, h := range all {
			if v.has(h) {
				o.RemoteHas = append(o.RemoteHas, num[h])
			}
		}
	}
	// 2. clone and read back
	must(s, fmt.Sprintf("call dolt_clone('%s','cl')", url))
	cl, _ := e.NewSession()
	must(cl, "set @@autocommit = 1", "use cl")
	src, _ := e.NewSession()
	must(src, "set @@autocommit = 1", "call dolt_checkout('main')")
	same := func() bool {
		ok := true
		for _, q := range []string{"select * from t", "select * from u", "select * from wd", "select dolt_hashof_db('HEAD')", "select commit_hash from dolt_log"} {
			if a, b := rows(src, q), rows(cl, q); a != b {
				ok = false
				o.Notes = append(o.Notes, "differs: "+q)
			}
		}
		return ok
	}
	o.CloneEqual = same() && rows(cl, "select * from t as of 'origin/other'") == rows(src, "select * from t as of 'other'")
	// 3. new commit, push, pull in the clone
	must(src, "insert into u values (900,900)", "call dolt_commit('-am','more')", "call dolt_push('origin','main')")
	check("push2", map[string]hash.Hash{"main": headOf("main")})
	must(cl, "call dolt_pull('origin','main')")
	o.PullEqual = same()
	// 4. divergent push from the clone must be refused; then forced
	must(src, "insert into u values (901,901)", "call dolt_commit('-am','source ahead')", "call dolt_push('origin','main')")
	before := headOf("main")
	must(cl, "insert into u values (950,950)", "call dolt_commit('-am','clone diverges')")
	r := cl.Exec("call dolt_push('origin','main')")
	v4 := check("nonff", map[string]hash.Hash{"main": before})
	o.NonFFRefuse = r.Err != "" && v4.err == nil && v4.heads["main"] == before
	if r.Err == "" {
		o.Notes = append(o.Notes, "non fast-forward push was accepted")
	}
	clHead := strings.TrimPrefix(strings.Trim(rows(cl, "select dolt_hashof('HEAD')"), "[]\"|"), "s:")
	rf := cl.Exec("call dolt_push('--force','origin','main')")
	v5 := check("force", map[string]hash.Hash{})
	o.ForceOK = rf.Err == "" && v5.err == nil && v5.heads["main"].String() == clHead
	if !o.ForceOK {
		o.Notes = append(o.Notes, "force: "+rf.Err+" remote="+v5.heads["main"].String()+" clone="+clHead)
	}
	// 5. two concurrent pushes against the same remote head
	o.RaceOK = true
	if c.Race {
		must(src, "call dolt_fetch('origin')", "call dolt_reset('--hard','origin/main')", "insert into u values (960,960)", "call dolt_commit('-am','racer a')")
		must(cl, "insert into u values (961,961)", "call dolt_commit('-am','racer b')")
		ha := headOf("main")
		hb := strings.TrimPrefix(strings.Trim(rows(cl, "select dolt_hashof('HEAD')"), "[]\"|"), "s:")
		var wg sync.WaitGroup
		var ea, eb string
		if c.Grpc {
			armBarrier(2) // both Commit RPCs reach the server with the same expected root
		} else {
			setPlan("barrier", 2) // both pushers have read the remote head before either updates it
		}
		wg.Add(2)
		go func() { defer wg.Done(); ea = src.Exec("call dolt_push('origin','main')").Err }()
		go func() { defer wg.Done(); eb = cl.Exec("call dolt_push('origin','main')").Err }()
		wg.Wait()
		setPlan("", 0)
		if ea == "" {
			o.RaceWinners++
		}
		if eb == "" {
			o.RaceWinners++
		}
		v6 := check("race", map[string]hash.Hash{})
		got := v6.heads["main"].String()
		switch {
		case v6.err != nil:
			o.RaceOK = false
		case o.RaceWinners > 1:
			o.RaceOK = false
			o.Notes = append(o.Notes, "both concurrent pushes succeeded")
		case o.RaceWinners == 1 && ea == "" && got != ha.String():
			o.RaceOK = false
		case o.RaceWinners == 1 && eb == "" && got != hb:
			o.RaceOK = false
		}
	}
	if len(o.Notes) > 8 {
		o.Notes = o.Notes[:8]
	}
	return o, nil
}
