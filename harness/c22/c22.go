// Package c22: each SQL transaction reads a stable snapshot (property C22).
// The schedules and observations are those of the C23 runner (several
// sessions, BEGIN / reads / DML / COMMIT / ROLLBACK on one engine).
package c22

import (
	"verifharness/c23"
	"verifharness/hk"
)

func init() { hk.Register("c22", c23.Run) }
