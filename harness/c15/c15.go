// Package c15: field codecs, tuple layout, tuple builder and tuple comparison
// of go/store/val (property C15).  One case = a tuple descriptor, a tuple
// length target and two rows; the real TupleBuilder / TupleDesc build, read
// back and compare them.
package c15

import (
	"bytes"
	"context"
	"encoding/json"
	"fmt"
	"math"
	"math/big"
	"strconv"
	"time"

	"github.com/cockroachdb/apd/v3"
	"github.com/dolthub/go-mysql-server/sql"
	"github.com/dolthub/go-mysql-server/sql/types"

	"github.com/dolthub/dolt/go/store/hash"
	"github.com/dolthub/dolt/go/store/pool"
	"github.com/dolthub/dolt/go/store/prolly/tree"
	"github.com/dolthub/dolt/go/store/val"

	"verifharness/hk"
)

func init() { hk.Register("c15", Run) }

type TypeJ struct {
	E string `json:"e"`
	N bool   `json:"n"`
}

// Cell is one SQL value: nil pointer = NULL.
type Cell struct {
	K     string `json:"k"` // z | n | b | date | dec | ad
	V     string `json:"v,omitempty"`
	B     []int  `json:"b,omitempty"`
	Y     int    `json:"y,omitempty"`
	M     int    `json:"m,omitempty"`
	D     int    `json:"d,omitempty"`
	Form  string `json:"form,omitempty"` // nan | inf | fin
	Neg   bool   `json:"neg,omitempty"`
	Coeff string `json:"coeff,omitempty"`
	Exp   int    `json:"exp,omitempty"`
}

type Case struct {
	Types  []TypeJ `json:"types"`
	Target int     `json:"target"`
	A      []*Cell `json:"a"`
	B      []*Cell `json:"b"`
	Hist   []HOp   `json:"hist"` // operations on ONE reused builder (all columns nullable)
	BN     int     `json:"bn"` // B is built with the descriptor of the first BN columns (0 = all): a row written before nullable columns were appended to the schema
}

// HOp is one step of a builder history: put | build | permissive | prefix | prefix_nr | recycle.
type HOp struct {
	Op string `json:"op"`
	I  int    `json:"i,omitempty"`
	K  int    `json:"k,omitempty"`
	C  *Cell  `json:"c,omitempty"`
}

type Obs struct {
	Hist      [][]int `json:"hist"` // tuples produced along the history
	A         []int   `json:"a"`
	Same      bool    `json:"same"`
	Variants  string  `json:"variants,omitempty"` // which build variant differed
	AOut      []int   `json:"a_out"`
	B         []int   `json:"b"`
	Count     int     `json:"count"`
	Fields    [][]int `json:"fields"` // nil = NULL
	Dec       []*Cell `json:"dec"`
	Cmp       int     `json:"cmp"`
	CmpBA     int     `json:"cmp_ba"`
	CmpNoFast int     `json:"cmp_nofast"`
	AddrsA    [][]int `json:"addrs_a"` // content address per adaptive cell of A (nil otherwise)
	AddrsB    [][]int `json:"addrs_b"`
}

var encByName = map[string]val.Encoding{
	"int8": val.Int8Enc, "uint8": val.Uint8Enc, "int16": val.Int16Enc, "uint16": val.Uint16Enc,
	"int32": val.Int32Enc, "uint32": val.Uint32Enc, "int64": val.Int64Enc, "uint64": val.Uint64Enc,
	"float32": val.Float32Enc, "float64": val.Float64Enc, "bit64": val.Bit64Enc, "decimal": val.DecimalEnc,
	"year": val.YearEnc, "date": val.DateEnc, "time": val.TimeEnc, "datetime": val.DatetimeEnc,
	"enum": val.EnumEnc, "set": val.SetEnc, "string": val.StringEnc, "bytes": val.ByteStringEnc,
	"hash128": val.Hash128Enc, "addr": val.CommitAddrEnc, "cell": val.CellEnc,
	"stradapt": val.StringAdaptiveEnc, "bytesadapt": val.BytesAdaptiveEnc,
}

func toBytes(b []int) []byte {
	out := make([]byte, len(b))
	for i, x := range b {
		out[i] = byte(x)
	}
	return out
}

func fromBytes(b []byte) []int {
	out := make([]int, len(b))
	for i, x := range b {
		out[i] = int(x)
	}
	return out
}

func mustI(s string) int64 {
	v, err := strconv.ParseInt(s, 10, 64)
	if err != nil {
		panic(err)
	}
	return v
}

func mustU(s string) uint64 {
	v, err := strconv.ParseUint(s, 10, 64)
	if err != nil {
		panic(err)
	}
	return v
}

type env struct {
	ctx context.Context
	ns  tree.NodeStore
	bp  pool.BuffPool
}

// put writes one cell; outline: supply adaptive values as (length, address).
func (e *env) put(tb *val.TupleBuilder, i int, enc val.Encoding, c *Cell, outline bool) {
	if c == nil {
		return
	}
	switch enc {
	case val.Int8Enc:
		tb.PutInt8(i, int8(mustI(c.V)))
	case val.Uint8Enc:
		tb.PutUint8(i, uint8(mustU(c.V)))
	case val.Int16Enc:
		tb.PutInt16(i, int16(mustI(c.V)))
	case val.Uint16Enc:
		tb.PutUint16(i, uint16(mustU(c.V)))
	case val.Int32Enc:
		tb.PutInt32(i, int32(mustI(c.V)))
	case val.Uint32Enc:
		tb.PutUint32(i, uint32(mustU(c.V)))
	case val.Int64Enc:
		tb.PutInt64(i, mustI(c.V))
	case val.Uint64Enc:
		tb.PutUint64(i, mustU(c.V))
	case val.Float32Enc:
		tb.PutFloat32(i, math.Float32frombits(uint32(mustU(c.V))))
	case val.Float64Enc:
		tb.PutFloat64(i, math.Float64frombits(mustU(c.V)))
	case val.Bit64Enc:
		tb.PutBit(i, mustU(c.V))
	case val.YearEnc:
		tb.PutYear(i, int16(mustU(c.V)))
	case val.EnumEnc:
		tb.PutEnum(i, uint16(mustU(c.V)))
	case val.SetEnc:
		tb.PutSet(i, mustU(c.V))
	case val.TimeEnc:
		tb.PutSqlTime(i, mustI(c.V))
	case val.DatetimeEnc:
		tb.PutDatetime(i, time.UnixMicro(mustI(c.V)).UTC())
	case val.DateEnc:
		tb.PutDate(i, time.Date(c.Y, time.Month(c.M), c.D, 0, 0, 0, 0, time.UTC))
	case val.DecimalEnc:
		d := new(apd.Decimal)
		switch c.Form {
		case "nan":
			d.Form = apd.NaN
		case "inf":
			d.Form = apd.Infinite
			d.Negative = c.Neg
		default:
			bi, ok := new(big.Int).SetString(c.Coeff, 10)
			if !ok {
				panic("bad coeff")
			}
			d.Coeff.SetMathBigInt(bi)
			d.Negative = c.Neg
			d.Exponent = int32(c.Exp)
		}
		tb.PutDecimal(i, d)
	case val.StringEnc:
		if err := tb.PutString(i, string(toBytes(c.B))); err != nil {
			panic(err)
		}
	case val.ByteStringEnc:
		tb.PutByteString(i, toBytes(c.B))
	case val.Hash128Enc:
		tb.PutHash128(i, toBytes(c.B))
	case val.CommitAddrEnc:
		tb.PutCommitAddr(i, hash.New(toBytes(c.B)))
	case val.CellEnc:
		var cl val.Cell
		copy(cl[:], toBytes(c.B))
		tb.PutCell(i, cl)
	case val.StringAdaptiveEnc, val.BytesAdaptiveEnc:
		content := toBytes(c.B)
		// An out-of-band adaptive value always describes more than 20 bytes (adaptive_value.go:
		// "the size is always greater than 20 when storing an address"); shorter contents are
		// supplied inline in the outline variant too.
		if outline && len(content) > hash.ByteLen {
			h, err := e.ns.WriteBytes(e.ctx, content)
			if err != nil {
				panic(err)
			}
			tb.PutAdaptiveFromOutline(i, int64(len(content)), h)
		} else if enc == val.StringAdaptiveEnc {
			if err := tb.PutAdaptiveStringFromInline(e.ctx, i, string(content)); err != nil {
				panic(err)
			}
		} else {
			if err := tb.PutAdaptiveBytesFromInline(e.ctx, i, content); err != nil {
				panic(err)
			}
		}
	default:
		panic("harness: encoding not handled")
	}
}

func (e *env) get(td *val.TupleDesc, i int, enc val.Encoding, tup val.Tuple) *Cell {
	switch enc {
	case val.Int8Enc:
		if v, ok := td.GetInt8(i, tup); ok {
			return &Cell{K: "z", V: strconv.FormatInt(int64(v), 10)}
		}
	case val.Uint8Enc:
		if v, ok := td.GetUint8(i, tup); ok {
			return &Cell{K: "n", V: strconv.FormatUint(uint64(v), 10)}
		}
	case val.Int16Enc:
		if v, ok := td.GetInt16(i, tup); ok {
			return &Cell{K: "z", V: strconv.FormatInt(int64(v), 10)}
		}
	case val.Uint16Enc:
		if v, ok := td.GetUint16(i, tup); ok {
			return &Cell{K: "n", V: strconv.FormatUint(uint64(v), 10)}
		}
	case val.Int32Enc:
		if v, ok := td.GetInt32(i, tup); ok {
			return &Cell{K: "z", V: strconv.FormatInt(int64(v), 10)}
		}
	case val.Uint32Enc:
		if v, ok := td.GetUint32(i, tup); ok {
			return &Cell{K: "n", V: strconv.FormatUint(uint64(v), 10)}
		}
	case val.Int64Enc:
		if v, ok := td.GetInt64(i, tup); ok {
			return &Cell{K: "z", V: strconv.FormatInt(v, 10)}
		}
	case val.Uint64Enc:
		if v, ok := td.GetUint64(i, tup); ok {
			return &Cell{K: "n", V: strconv.FormatUint(v, 10)}
		}
	case val.Float32Enc:
		if v, ok := td.GetFloat32(i, tup); ok {
			return &Cell{K: "n", V: strconv.FormatUint(uint64(math.Float32bits(v)), 10)}
		}
	case val.Float64Enc:
		if v, ok := td.GetFloat64(i, tup); ok {
			return &Cell{K: "n", V: strconv.FormatUint(math.Float64bits(v), 10)}
		}
	case val.Bit64Enc:
		if v, ok := td.GetBit(i, tup); ok {
			return &Cell{K: "n", V: strconv.FormatUint(v, 10)}
		}
	case val.YearEnc:
		if v, ok := td.GetYear(i, tup); ok {
			return &Cell{K: "n", V: strconv.FormatInt(int64(v), 10)}
		}
	case val.EnumEnc:
		if v, ok := td.GetEnum(i, tup); ok {
			return &Cell{K: "n", V: strconv.FormatUint(uint64(v), 10)}
		}
	case val.SetEnc:
		if v, ok := td.GetSet(i, tup); ok {
			return &Cell{K: "n", V: strconv.FormatUint(v, 10)}
		}
	case val.TimeEnc:
		if v, ok := td.GetSqlTime(i, tup); ok {
			return &Cell{K: "z", V: strconv.FormatInt(v, 10)}
		}
	case val.DatetimeEnc:
		if v, ok := td.GetDatetime(i, tup); ok {
			return &Cell{K: "z", V: strconv.FormatInt(v.UnixMicro(), 10)}
		}
	case val.DateEnc:
		if v, ok := td.GetDate(i, tup); ok {
			if v.Equal(types.ZeroTime) {
				return &Cell{K: "date"}
			}
			return &Cell{K: "date", Y: v.Year(), M: int(v.Month()), D: v.Day()}
		}
	case val.DecimalEnc:
		if v, ok := td.GetDecimal(i, tup); ok {
			switch v.Form {
			case apd.NaN:
				return &Cell{K: "dec", Form: "nan"}
			case apd.Infinite:
				return &Cell{K: "dec", Form: "inf", Neg: v.Negative}
			}
			return &Cell{K: "dec", Form: "fin", Neg: v.Negative, Coeff: v.Coeff.String(), Exp: int(v.Exponent)}
		}
	case val.StringEnc:
		if v, ok := td.GetString(i, tup); ok {
			return &Cell{K: "b", B: fromBytes([]byte(v))}
		}
	case val.ByteStringEnc:
		if v, ok := td.GetBytes(i, tup); ok {
			return &Cell{K: "b", B: fromBytes(v)}
		}
	case val.Hash128Enc:
		if v, ok := td.GetHash128(i, tup); ok {
			return &Cell{K: "b", B: fromBytes(v)}
		}
	case val.CommitAddrEnc:
		if v, ok := td.GetCommitAddr(i, tup); ok {
			return &Cell{K: "b", B: fromBytes(v[:])}
		}
	case val.CellEnc:
		if v, ok := td.GetCell(i, tup); ok {
			return &Cell{K: "b", B: fromBytes(v[:])}
		}
	case val.StringAdaptiveEnc:
		v, ok, err := td.GetStringAdaptiveValue(e.ctx, i, e.ns, tup)
		if err != nil {
			panic(err)
		}
		if ok {
			s, _, err := sql.Unwrap[string](e.ctx, v)
			if err != nil {
				panic(err)
			}
			return &Cell{K: "ad", B: fromBytes([]byte(s))}
		}
	case val.BytesAdaptiveEnc:
		v, ok, err := td.GetBytesAdaptiveValue(e.ctx, i, e.ns, tup)
		if err != nil {
			panic(err)
		}
		if ok {
			b, _, err := sql.Unwrap[[]byte](e.ctx, v)
			if err != nil {
				panic(err)
			}
			return &Cell{K: "ad", B: fromBytes(b)}
		}
	default:
		panic("harness: encoding not handled")
	}
	return nil
}

func (e *env) build(tb *val.TupleBuilder, encs []val.Encoding, row []*Cell, outline bool, order []int, permissive bool) val.Tuple {
	for _, i := range order {
		e.put(tb, i, encs[i], row[i], outline)
	}
	var t val.Tuple
	var err error
	if permissive {
		t, err = tb.BuildPermissive(e.ctx, e.bp)
	} else {
		t, err = tb.Build(e.ctx, e.bp)
	}
	if err != nil {
		panic(err)
	}
	return append(val.Tuple{}, t...)
}

func sign(c int) int {
	if c < 0 {
		return -1
	} else if c > 0 {
		return 1
	}
	return 0
}

func Run(raw json.RawMessage) (any, error) {
	var c Case
	if err := json.Unmarshal(raw, &c); err != nil {
		return nil, err
	}
	e := &env{ctx: context.Background(), ns: tree.NewTestNodeStore(), bp: pool.NewBuffPool()}
	n := len(c.Types)
	bn := c.BN
	if bn == 0 {
		bn = n
	}
	if len(c.A) != n || len(c.B) != bn || bn > n {
		return nil, fmt.Errorf("row length != type count")
	}
	vt := make([]val.Type, n)
	encs := make([]val.Encoding, n)
	for i, t := range c.Types {
		enc, ok := encByName[t.E]
		if !ok {
			return nil, fmt.Errorf("unknown encoding %q", t.E)
		}
		encs[i] = enc
		vt[i] = val.Type{Enc: enc, Nullable: t.N}
	}
	td := val.NewTupleDescriptorWithArgs(val.TupleDescriptorArgs{ValueStore: e.ns}, vt...)
	newTB := func() *val.TupleBuilder {
		return val.NewTupleBuilder(td, e.ns).WithMaxRowSize(uint16(c.Target))
	}
	fwd := make([]int, n)
	rev := make([]int, n)
	for i := range fwd {
		fwd[i] = i
		rev[i] = n - 1 - i
	}
	var o Obs
	tb := newTB()
	ta := e.build(tb, encs, c.A, false, fwd, false)
	o.A = fromBytes(ta)
	o.Same = true
	note := func(name string, t val.Tuple) {
		if !bytes.Equal(t, ta) {
			o.Same = false
			o.Variants += name + " "
		}
	}
	// the same builder again (recycled after building A, then after building B)
	note("recycled", e.build(tb, encs, c.A, false, fwd, false))
	var tbm val.Tuple
	if bn == n {
		tbm = e.build(tb, encs, c.B, false, fwd, false)
	} else {
		tdB := val.NewTupleDescriptorWithArgs(val.TupleDescriptorArgs{ValueStore: e.ns}, vt[:bn]...)
		tbm = e.build(val.NewTupleBuilder(tdB, e.ns).WithMaxRowSize(uint16(c.Target)), encs, c.B, false, fwd[:bn], false)
	}
	note("recycled-after-b", e.build(tb, encs, c.A, false, fwd, false))
	// Put calls in reverse column order, fresh builder
	note("reverse-order", e.build(newTB(), encs, c.A, false, rev, false))
	// BuildPermissive instead of Build
	note("permissive", e.build(newTB(), encs, c.A, false, fwd, true))
	// adaptive values supplied as (length, address)
	o.AOut = fromBytes(e.build(newTB(), encs, c.A, true, fwd, false))
	o.B = fromBytes(tbm)
	tbb := val.Tuple(tbm)

	o.Count = ta.Count()
	o.Fields = make([][]int, n)
	o.Dec = make([]*Cell, n)
	for i := 0; i < n; i++ {
		if f := ta.GetField(i); f != nil {
			o.Fields[i] = fromBytes(f)
		}
		if f2 := td.GetField(i, ta); !bytes.Equal(f2, ta.GetField(i)) || (f2 == nil) != (ta.GetField(i) == nil) {
			o.Same = false
			o.Variants += "fixed-access-getfield "
		}
		o.Dec[i] = e.get(td, i, encs[i], ta)
	}
	cmp, err := td.Compare(e.ctx, ta, tbb)
	if err != nil {
		return nil, err
	}
	o.Cmp = sign(cmp)
	cmp, err = td.Compare(e.ctx, tbb, ta)
	if err != nil {
		return nil, err
	}
	o.CmpBA = sign(cmp)
	cmp, err = td.WithoutFixedAccess().Compare(e.ctx, ta, tbb)
	if err != nil {
		return nil, err
	}
	o.CmpNoFast = sign(cmp)
	addrs := func(row []*Cell) [][]int {
		out := make([][]int, n)
		for i, cl := range row {
			if cl != nil && cl.K == "ad" {
				h, err := e.ns.WriteBytes(e.ctx, toBytes(cl.B))
				if err != nil {
					panic(err)
				}
				out[i] = fromBytes(h[:])
			}
		}
		return out
	}
	// builder history on one reused builder; every produced tuple is also built by a fresh builder from the
	// puts since the last Build / BuildPrefix / Recycle
	o.Hist = [][]int{}
	if len(c.Hist) > 0 {
		tbh := newTB()
		var since []HOp
		for _, h := range c.Hist {
			var got val.Tuple
			produced := false
			switch h.Op {
			case "put":
				e.put(tbh, h.I, encs[h.I], h.C, false)
				since = append(since, h)
				continue
			case "build", "permissive":
				var err error
				if h.Op == "build" {
					got, err = tbh.Build(e.ctx, e.bp)
				} else {
					got, err = tbh.BuildPermissive(e.ctx, e.bp)
				}
				if err != nil {
					panic(err)
				}
				produced = true
			case "prefix":
				got = tbh.BuildPrefix(e.bp, h.K)
				produced = true
			case "prefix_nr":
				got = tbh.BuildPrefixNoRecycle(e.bp, h.K)
				produced = true
			case "recycle":
				tbh.Recycle()
			default:
				panic("unknown history op")
			}
			if produced {
				got = append(val.Tuple{}, got...)
				o.Hist = append(o.Hist, fromBytes(got))
				fresh := newTB()
				for _, p := range since {
					e.put(fresh, p.I, encs[p.I], p.C, false)
				}
				var want val.Tuple
				switch h.Op {
				case "build", "permissive":
					want, _ = fresh.BuildPermissive(e.ctx, e.bp)
				default:
					want = fresh.BuildPrefixNoRecycle(e.bp, h.K)
				}
				if !bytes.Equal(want, got) {
					o.Same = false
					o.Variants += "history-vs-fresh "
				}
			}
			if h.Op != "prefix_nr" {
				since = nil
			}
		}
	}
	o.AddrsA = addrs(c.A)
	o.AddrsB = addrs(c.B)[:bn]
	return o, nil
}
