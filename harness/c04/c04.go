// Package c04: the journal index file never changes what the database contains (property C04).
// A history is run through the real journalWriter with a small maxNovel so that several index
// batches are flushed; the genuine index it left is then replaced by variants (missing, truncated,
// stale, damaged in every field, two ranges swapped, random bytes ...) and the same journal image is
// opened twice through openJournalWriter + bootstrapJournal: once with the index variant, once
// without any index.  Both observations are reported.
package c04

import (
	"bytes"
	"encoding/json"

	"github.com/dolthub/dolt/go/store/nbs"

	"verifharness/c03"
	"verifharness/hk"
)

func init() { hk.Register("c04", Run) }

// JMut: damage to the journal image (same for the with-index and the without-index open).
type JMut struct {
	K     string `json:"k"` // none | trunc | xor
	Rec   *int   `json:"rec,omitempty"`
	D     int    `json:"d,omitempty"`
	At    *int   `json:"at,omitempty"`
	Bytes []int  `json:"bytes,omitempty"`
}

// Var is one (journal damage, index variant, read-only) triple.
//
//	ik = genuine | missing | bytes (Bytes) | trunc (record number Rec of all index records, +D) |
//	     stale (truncate at batch boundary N) | xor (record kind Kind = lookup|meta, number N of that kind,
//	     field Fld, byte B of the field, mask X) | swap (batch Batch, lookups I and J of that batch) |
//	     swapx (global lookup numbers I, J) | setlen / setoff (lookup N, value V)
type Var struct {
	J     JMut   `json:"j"`
	Ik    string `json:"ik"`
	Bytes []int  `json:"bytes,omitempty"`
	Rec   int    `json:"rec,omitempty"`
	D     int    `json:"d,omitempty"`
	Kind  string `json:"kind,omitempty"`
	N     int    `json:"n,omitempty"`
	Fld   string `json:"fld,omitempty"`
	B     int    `json:"b,omitempty"`
	X     int    `json:"x,omitempty"`
	Batch int    `json:"batch,omitempty"`
	I     int    `json:"i,omitempty"`
	Jj    int    `json:"jj,omitempty"`
	V     uint64 `json:"v,omitempty"`
	Ro    bool   `json:"ro,omitempty"`
}

type Case struct {
	Bufsz    uint32   `json:"bufsz"`
	Maxnovel int      `json:"maxnovel"`
	Ops      []c03.Op `json:"ops"`
	Vars     []Var    `json:"vars"`
}

type Patch struct {
	Pos   int   `json:"pos"`
	Bytes []int `json:"bytes"`
}

type VarOut struct {
	Ik        string  `json:"ik"` // resolved kind (falls back to "genuine" when the index has no such record)
	Missing   bool    `json:"missing"`
	Explicit  bool    `json:"explicit"`
	Bytes     []int   `json:"bytes"`   // explicit index image (ik = bytes)
	Keep      int     `json:"keep"`    // otherwise: first Keep bytes of the genuine index ...
	Patches   []Patch `json:"patches"` // ... overwritten at these positions
	Fld       string  `json:"fld"`
	SameBatch bool    `json:"samebatch"`
	LI        int     `json:"li"` // resolved global lookup numbers (swap / set*)
	LJ        int     `json:"lj"`
	JK        string  `json:"jk"`
	JAt       int     `json:"jat"`
	JBytes    []int   `json:"jbytes"`
	Ro        bool    `json:"ro"`
	IdxLen    int     `json:"idxlen"`
	IdxSum    uint32  `json:"idxsum"`
	With      c03.Res `json:"with"`
	Without   c03.Res `json:"without"`
	IdxAfter  []int   `json:"idxafter"`
	IdxExists bool    `json:"idxexists"`
	IdxSame   bool    `json:"idxsame"` // index file (existence and bytes) identical before/after the with-index open
}

type Obs struct {
	Poly     uint32   `json:"poly"`
	Bufsz    uint32   `json:"bufsz"`
	LookupSz int      `json:"lookupsz"`
	MetaSz   int      `json:"metasz"`
	Journal  []int    `json:"journal"`
	Index    []int    `json:"index"`
	Known    [][]int  `json:"known"`
	OpEnds   []int64  `json:"opends"`
	FnOff    int64    `json:"fnoff"` // processIndexRecords over the genuine index
	FnErr    bool     `json:"fnerr"`
	FnBatch  []int    `json:"fnbatch"` // lookups per batch
	FnCrcOk  bool     `json:"fncrcok"` // every batch: meta checksum == running crc
	Vars     []VarOut `json:"vars"`
}

type irec struct {
	pos   int
	meta  bool
	batch int
}

// walk the genuine index: record positions (tag byte), batch number of each record
func walk(idx []byte, lsz, msz int) (recs []irec) {
	p, b := 0, 0
	for p < len(idx) {
		switch idx[p] {
		case 0:
			if p+1+lsz > len(idx) {
				return
			}
			recs = append(recs, irec{pos: p, batch: b})
			p += 1 + lsz
		case 1:
			if p+1+msz > len(idx) {
				return
			}
			recs = append(recs, irec{pos: p, meta: true, batch: b})
			p += 1 + msz
			b++
		default:
			return
		}
	}
	return
}

func be(v uint64, n int) []int {
	out := make([]int, n)
	for i := n - 1; i >= 0; i-- {
		out[i] = int(v & 255)
		v >>= 8
	}
	return out
}

func clamp(p, n int) int {
	if p < 0 {
		return 0
	}
	if p > n {
		return n
	}
	return p
}

func mod(a, n int) int {
	if n <= 0 {
		return 0
	}
	a %= n
	if a < 0 {
		a += n
	}
	return a
}

func resolve(v Var, idx []byte, lsz, msz int) (o VarOut) {
	recs := walk(idx, lsz, msz)
	var lks, metas []irec
	for _, r := range recs {
		if r.meta {
			metas = append(metas, r)
		} else {
			lks = append(lks, r)
		}
	}
	o.Ik, o.Keep, o.Patches, o.Bytes, o.JBytes = v.Ik, len(idx), []Patch{}, []int{}, []int{}
	o.LI, o.LJ = -1, -1
	genuine := func() { o.Ik = "genuine" }
	swap := func(a, b irec) {
		ra := c03.FromBytes(idx[a.pos+17 : a.pos+29])
		rb := c03.FromBytes(idx[b.pos+17 : b.pos+29])
		o.Patches = []Patch{{Pos: a.pos + 17, Bytes: rb}, {Pos: b.pos + 17, Bytes: ra}}
		o.SameBatch = a.batch == b.batch
	}
	switch v.Ik {
	case "missing":
		o.Missing = true
	case "bytes":
		o.Explicit = true
		o.Bytes = append([]int{}, v.Bytes...)
	case "trunc":
		r := mod(v.Rec, len(recs)+1)
		p := len(idx)
		if r < len(recs) {
			p = recs[r].pos
		}
		o.Keep = clamp(p+v.D, len(idx))
	case "stale":
		b := mod(v.N, len(metas)+1)
		if b == 0 {
			o.Keep = 0
		} else {
			o.Keep = metas[b-1].pos + 1 + msz
		}
	case "xor":
		var rs []irec
		var flds map[string][2]int
		if v.Kind == "meta" {
			rs = metas
			flds = map[string][2]int{"tag": {0, 1}, "start": {1, 8}, "end": {9, 8}, "cksum": {17, 4}, "root": {21, 20}}
		} else {
			rs = lks
			flds = map[string][2]int{"tag": {0, 1}, "addr": {1, 16}, "off": {17, 8}, "len": {25, 4}}
		}
		f, ok := flds[v.Fld]
		if len(rs) == 0 || !ok || v.X&255 == 0 {
			genuine()
			break
		}
		r := rs[mod(v.N, len(rs))]
		p := r.pos + f[0] + mod(v.B, f[1])
		o.Patches = []Patch{{Pos: p, Bytes: []int{int(idx[p]) ^ (v.X & 255)}}}
		o.Fld = v.Kind + "-" + v.Fld
	case "swap":
		// batches with at least two lookups
		per := map[int][]int{}
		var order []int
		for n, l := range lks {
			if len(per[l.batch]) == 0 {
				order = append(order, l.batch)
			}
			per[l.batch] = append(per[l.batch], n)
		}
		var ok []int
		for _, b := range order {
			if len(per[b]) >= 2 && b < len(metas) {
				ok = append(ok, b)
			}
		}
		if len(ok) == 0 {
			genuine()
			break
		}
		ls := per[ok[mod(v.Batch, len(ok))]]
		i := mod(v.I, len(ls))
		j := mod(v.Jj, len(ls)-1)
		if j >= i {
			j++
		}
		o.LI, o.LJ = ls[i], ls[j]
		swap(lks[o.LI], lks[o.LJ])
	case "swapx":
		if len(lks) < 2 {
			genuine()
			break
		}
		i := mod(v.I, len(lks))
		j := mod(v.Jj, len(lks)-1)
		if j >= i {
			j++
		}
		o.LI, o.LJ = i, j
		swap(lks[i], lks[j])
	case "setlen", "setoff":
		if len(lks) == 0 {
			genuine()
			break
		}
		o.LI = mod(v.N, len(lks))
		if v.Ik == "setlen" {
			o.Patches = []Patch{{Pos: lks[o.LI].pos + 25, Bytes: be(v.V, 4)}}
		} else {
			o.Patches = []Patch{{Pos: lks[o.LI].pos + 17, Bytes: be(v.V, 8)}}
		}
	default:
		genuine()
	}
	return o
}

func image(o VarOut, idx []byte) []byte {
	if o.Missing {
		return nil
	}
	if o.Explicit {
		return c03.ToBytes(o.Bytes)
	}
	out := append([]byte{}, idx[:o.Keep]...)
	for _, p := range o.Patches {
		for i, b := range p.Bytes {
			if p.Pos+i < len(out) {
				out[p.Pos+i] = byte(b)
			}
		}
	}
	return out
}

func Run(raw json.RawMessage) (any, error) {
	var c Case
	if err := json.Unmarshal(raw, &c); err != nil {
		return nil, err
	}
	if c.Bufsz != 0 {
		old := nbs.VerifC03SetBuffSize(c.Bufsz)
		defer nbs.VerifC03SetBuffSize(old)
	}
	h, err := c03.BuildHistory(c.Ops, c.Maxnovel)
	if err != nil {
		return nil, err
	}
	lsz, msz := nbs.VerifC04IndexSizes()
	o := Obs{Poly: nbs.VerifC03CrcPoly(), Bufsz: nbs.VerifC03BuffSize(), LookupSz: lsz, MetaSz: msz,
		Journal: c03.FromBytes(h.Journal), Index: c03.FromBytes(h.Index), Vars: []VarOut{}, FnBatch: []int{}, OpEnds: []int64{}}
	for _, k := range h.Known {
		o.Known = append(o.Known, c03.FromBytes(k[:]))
	}
	for _, op := range h.Ops {
		o.OpEnds = append(o.OpEnds, op.End)
	}
	off, batches, perr := nbs.VerifC04ProcessIndexRecords(h.Index)
	o.FnOff, o.FnErr, o.FnCrcOk = off, perr != nil, true
	for _, b := range batches {
		o.FnBatch = append(o.FnBatch, len(b.Lookups))
		if b.CheckSum != b.BatchCrc {
			o.FnCrcOk = false
		}
	}
	for _, v := range c.Vars {
		vo := resolve(v, h.Index, lsz, msz)
		vo.Ro = v.Ro
		vo.JK = v.J.K
		if vo.JK != "trunc" && vo.JK != "xor" {
			vo.JK = "none"
		}
		vo.JAt = c03.ResolveAt(h, v.J.Rec, v.J.D, v.J.At)
		if v.J.Bytes != nil {
			vo.JBytes = append([]int{}, v.J.Bytes...)
		}
		jimg := c03.ApplyMut(h.Journal, vo.JK, vo.JAt, 0, vo.JBytes, 0)
		iimg := image(vo, h.Index)
		vo.IdxLen = len(iimg)
		vo.IdxSum = nbs.VerifC03Crc(iimg)
		if vo.With, err = c03.OpenObserve(jimg, iimg, v.Ro, c.Maxnovel, h.Known); err != nil {
			return nil, err
		}
		if vo.Without, err = c03.OpenObserve(jimg, nil, v.Ro, c.Maxnovel, h.Known); err != nil {
			return nil, err
		}
		vo.IdxExists = vo.With.IdxExists
		vo.IdxAfter = []int{}
		if vo.With.IdxAfter != nil {
			vo.IdxAfter = vo.With.IdxAfter
		}
		vo.IdxSame = vo.IdxExists == (iimg != nil) && bytes.Equal(c03.ToBytes(vo.IdxAfter), iimg)
		o.Vars = append(o.Vars, vo)
	}
	return o, nil
}
