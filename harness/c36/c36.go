// Package c36: dump / re-import — SQL literal quoting, CSV field quoting, whole-table
// SQL dump and CSV export re-imported into a fresh database (property C36).
package c36

import (
	"bytes"
	"context"
	"encoding/json"
	"fmt"
	"io"
	"strings"

	"github.com/dolthub/go-mysql-server/sql"
	gmstypes "github.com/dolthub/go-mysql-server/sql/types"
	"github.com/dolthub/vitess/go/vt/sqlparser"

	"github.com/dolthub/dolt/go/libraries/doltcore/doltdb"
	"github.com/dolthub/dolt/go/libraries/doltcore/schema"
	"github.com/dolthub/dolt/go/libraries/doltcore/sqle/dsess"
	"github.com/dolthub/dolt/go/libraries/doltcore/sqle/sqlfmt"
	"github.com/dolthub/dolt/go/libraries/doltcore/table/editor"
	"github.com/dolthub/dolt/go/libraries/doltcore/table/untyped/sqlexport"
	"github.com/dolthub/dolt/go/libraries/doltcore/table/untyped/csv"
	"github.com/dolthub/dolt/go/store/types"

	"verifharness/hk"
	"verifharness/util"
)

func init() { hk.Register("c36", Run) }

type Case struct {
	Kind   string   `json:"kind"` // str | csv | table
	S      []int    `json:"s"`
	Fields [][]int  `json:"fields"` // csv: one record; null encoded as [-1]
	Cols   []string `json:"cols"`   // table: column definitions (without the pk)
	Rows   []string `json:"rows"`   // table: value tuples as SQL text "(1, ...)"
	N      int      `json:"n"`      // batch: number of rows pushed through the batched SQL export writer
}

func toBytes(b []int) []byte {
	o := make([]byte, len(b))
	for i, x := range b {
		o[i] = byte(x)
	}
	return o
}
func toInts(b []byte) []int {
	o := make([]int, len(b))
	for i, x := range b {
		o[i] = int(x)
	}
	return o
}

type nopCloser struct{ io.Writer }

func (nopCloser) Close() error { return nil }

func runStr(c Case) (any, error) {
	s := toBytes(c.S)
	q := sqlfmt.VerifQuoteAndEscapeString(string(s))
	h := sqlfmt.VerifHexEncodeBytes(s)
	out := map[string]interface{}{"q": toInts([]byte(q)), "h": toInts([]byte(h))}
	// the lexer dolt's parser uses on re-import
	tk := sqlparser.NewStringTokenizer(q)
	typ, val := tk.Scan()
	typ2, _ := tk.Scan()
	out["lex_ok"] = typ == sqlparser.STRING && typ2 == 0
	out["u"] = toInts(val)
	tk = sqlparser.NewStringTokenizer(h)
	typ, val = tk.Scan()
	out["hex_ok"] = typ == sqlparser.HEXNUM
	out["hexlit"] = toInts(val)
	return out, nil
}

func runCsv(c Case) (any, error) {
	ctx := sql.NewEmptyContext()
	n := len(c.Fields)
	sch := make(sql.Schema, n)
	row := make(sql.Row, n)
	for i, f := range c.Fields {
		sch[i] = &sql.Column{Name: fmt.Sprintf("c%d", i), Type: gmstypes.LongText, Nullable: true}
		if len(f) == 1 && f[0] == -1 {
			row[i] = nil
		} else {
			row[i] = string(toBytes(f))
		}
	}
	var buf bytes.Buffer
	info := csv.NewCSVInfo()
	w, err := csv.NewCSVSqlWriter(nopCloser{&buf}, sch, info)
	if err != nil {
		return nil, err
	}
	if err := w.WriteSqlRow(ctx, row); err != nil {
		return nil, err
	}
	if err := w.Close(ctx); err != nil {
		return nil, err
	}
	text := buf.Bytes()
	// strip the header line (c0,c1,...\n)
	nl := bytes.IndexByte(text, '\n')
	body := append([]byte{}, text[nl+1:]...)
	out := map[string]interface{}{"text": toInts(body)}
	r, err := csv.NewCSVReader(types.Format_DOLT, io.NopCloser(bytes.NewReader(text)), csv.NewCSVInfo())
	if err != nil {
		return nil, err
	}
	rows := [][][]int{}
	rerr := ""
	for {
		rr, err := r.ReadSqlRow(context.Background())
		if err == io.EOF {
			break
		}
		if err != nil {
			rerr = err.Error()
			break
		}
		fs := make([][]int, len(rr))
		for i, v := range rr {
			if v == nil {
				fs[i] = []int{-1}
			} else {
				fs[i] = toInts([]byte(v.(string)))
			}
		}
		rows = append(rows, fs)
		if len(rows) > 5 {
			break
		}
	}
	out["rows"] = rows
	out["rerr"] = rerr != ""
	out["rmsg"] = rerr
	return out, nil
}

func queryRows(s *util.Session, q string) ([]sql.Row, sql.Schema, error) {
	sch, iter, _, err := s.E.Eng.Query(s.Ctx, q)
	if err != nil {
		return nil, nil, err
	}
	var rows []sql.Row
	for {
		r, err := iter.Next(s.Ctx)
		if err == io.EOF {
			break
		}
		if err != nil {
			return nil, nil, err
		}
		rows = append(rows, r)
	}
	return rows, sch, iter.Close(s.Ctx)
}

func render(s *util.Session, rows []sql.Row) [][]string {
	out := make([][]string, len(rows))
	for i, r := range rows {
		o := make([]string, len(r))
		for j, v := range r {
			o[j] = util.Render(s.Ctx, v)
		}
		out[i] = o
	}
	return out
}

func firstDiff(a, b [][]string) string {
	if len(a) != len(b) {
		return fmt.Sprintf("row count %d vs %d", len(a), len(b))
	}
	for i := range a {
		for j := range a[i] {
			if j >= len(b[i]) || a[i][j] != b[i][j] {
				x := ""
				if j < len(b[i]) {
					x = b[i][j]
				}
				return fmt.Sprintf("row %d col %d: %.80q vs %.80q", i, j, a[i][j], x)
			}
		}
	}
	return ""
}

// runTable: create + fill a table, produce the SQL dump text the way `dolt dump` does
// (CREATE TABLE from SHOW CREATE TABLE, rows through sqlfmt.SqlRowAsInsertStmt) and a CSV export
// (csv.NewCSVSqlWriter), load both into fresh databases and compare schema text and every row.
func runTable(c Case) (any, error) {
	env, err := util.NewEnv(false)
	if err != nil {
		return nil, err
	}
	defer env.Close()
	s, err := env.NewSession()
	if err != nil {
		return nil, err
	}
	ddl := "create table t (pk int primary key, " + strings.Join(c.Cols, ", ") + ")"
	out := map[string]interface{}{"setup_err": "", "sql_same": false, "ddl_same": false, "csv_same": false, "sql_diff": "", "csv_diff": ""}
	if r := s.Exec(ddl); r.Err != "" {
		out["setup_err"] = "ddl: " + r.Err
		return out, nil
	}
	nrows := 0
	for _, r := range c.Rows {
		if x := s.Exec("insert into t values " + r); x.Err != "" {
			continue // a generated value the column type rejects: not part of the table
		}
		nrows++
	}
	out["nrows"] = nrows
	rows, qsch, err := queryRows(s, "select * from t order by pk")
	if err != nil {
		return nil, err
	}
	orig := render(s, rows)
	sc := s.Exec("show create table t")
	if sc.Err != "" || len(sc.Rows) != 1 {
		return nil, fmt.Errorf("show create table: %s", sc.Err)
	}
	createStmt := strings.TrimPrefix(sc.Rows[0][1], "s:")

	// ---- SQL dump
	tblSch, err := sessionSchema(s, "t")
	if err != nil {
		return nil, err
	}
	var dump []string
	dump = append(dump, createStmt)
	for _, r := range rows {
		st, err := sqlfmt.SqlRowAsInsertStmt(s.Ctx, r, "t", tblSch)
		if err != nil {
			out["sql_diff"] = "format: " + err.Error()
			dump = nil
			break
		}
		dump = append(dump, st)
	}
	if dump != nil {
		env2, err := util.NewEnv(false)
		if err != nil {
			return nil, err
		}
		s2, _ := env2.NewSession()
		bad := ""
		for _, st := range dump {
			if x := s2.Exec(st); x.Err != "" {
				bad = fmt.Sprintf("import: %.120s: %.160s", x.Err, st)
				break
			}
		}
		if bad != "" {
			out["sql_diff"] = bad
		} else {
			rows2, _, err := queryRows(s2, "select * from t order by pk")
			if err != nil {
				out["sql_diff"] = "select: " + err.Error()
			} else {
				d := firstDiff(orig, render(s2, rows2))
				out["sql_diff"] = d
				out["sql_same"] = d == ""
			}
			sc2 := s2.Exec("show create table t")
			out["ddl_same"] = sc2.Err == "" && len(sc2.Rows) == 1 && sc2.Rows[0][1] == sc.Rows[0][1]
		}
		env2.Close()
	}

	// ---- CSV export / import (typed values re-enter through INSERT of the parsed fields)
	var buf bytes.Buffer
	w, err := csv.NewCSVSqlWriter(nopCloser{&buf}, qsch, csv.NewCSVInfo())
	if err != nil {
		return nil, err
	}
	werr := ""
	for _, r := range rows {
		if err := w.WriteSqlRow(s.Ctx, r); err != nil {
			werr = err.Error()
			break
		}
	}
	w.Close(s.Ctx)
	if werr != "" {
		out["csv_diff"] = "write: " + werr
		return out, nil
	}
	rd, err := csv.NewCSVReader(types.Format_DOLT, io.NopCloser(bytes.NewReader(buf.Bytes())), csv.NewCSVInfo())
	if err != nil {
		return nil, err
	}
	env3, err := util.NewEnv(false)
	if err != nil {
		return nil, err
	}
	defer env3.Close()
	s3, _ := env3.NewSession()
	if x := s3.Exec(createStmt); x.Err != "" {
		out["csv_diff"] = "create: " + x.Err
		return out, nil
	}
	bad := ""
	for {
		rr, err := rd.ReadSqlRow(context.Background())
		if err == io.EOF {
			break
		}
		if err != nil {
			bad = "read: " + err.Error()
			break
		}
		vals := make([]string, len(rr))
		for i, v := range rr {
			if v == nil {
				vals[i] = "NULL"
			} else if strings.HasPrefix(strings.ToLower(qsch[i].Type.String()), "bit") {
				vals[i] = v.(string) // the CSV writer emits BIT values as base-10 integers
			} else if _, isBin := binaryCol(qsch[i]); isBin {
				vals[i] = sqlfmt.VerifHexEncodeBytes([]byte(v.(string)))
			} else {
				vals[i] = sqlfmt.VerifQuoteAndEscapeString(v.(string))
			}
		}
		if x := s3.Exec("insert into t values (" + strings.Join(vals, ",") + ")"); x.Err != "" {
			bad = fmt.Sprintf("insert: %.160s", x.Err)
			break
		}
	}
	if bad != "" {
		out["csv_diff"] = bad
		return out, nil
	}
	rows3, _, err := queryRows(s3, "select * from t order by pk")
	if err != nil {
		out["csv_diff"] = "select: " + err.Error()
		return out, nil
	}
	d := firstDiff(orig, render(s3, rows3))
	out["csv_diff"] = d
	out["csv_same"] = d == ""
	return out, nil
}

// runBatch drives the real BatchSqlExportWriter (the writer `dolt dump` uses by default) with N small
// rows (pk = 1..N) and parses every INSERT statement it wrote with the SQL parser: tuples per
// statement, and which of the primary keys 1..N are present, in order.
func runBatch(c Case) (any, error) {
	env, err := util.NewEnv(false)
	if err != nil {
		return nil, err
	}
	defer env.Close()
	s, err := env.NewSession()
	if err != nil {
		return nil, err
	}
	if err := s.MustExec("create table t (pk int primary key, v int)"); err != nil {
		return nil, err
	}
	roots, ok := dsess.DSessFromSess(s.Ctx.Session).GetRoots(s.Ctx, s.E.DBName)
	if !ok {
		return nil, fmt.Errorf("no roots")
	}
	sch, err := sessionSchema(s, "t")
	if err != nil {
		return nil, err
	}
	var buf bytes.Buffer
	w, err := sqlexport.OpenBatchedSQLExportWriter(s.Ctx, nopCloser{&buf}, roots.Working, "t", false, sch, editor.Options{})
	if err != nil {
		return nil, err
	}
	for i := 1; i <= c.N; i++ {
		if err := w.WriteSqlRow(s.Ctx, sql.Row{int32(i), int32(i % 7)}); err != nil {
			return nil, err
		}
	}
	if err := w.Close(s.Ctx); err != nil {
		return nil, err
	}
	counts := []int{}
	next := 1          // next expected primary key
	missing := []int{} // first few missing keys
	nmissing, extra, perr := 0, 0, ""
	for _, line := range strings.Split(buf.String(), "\n") {
		if !strings.HasPrefix(line, "INSERT INTO") {
			continue
		}
		st, err := sqlparser.Parse(strings.TrimSuffix(strings.TrimSpace(line), ";"))
		if err != nil {
			perr = trunc(err.Error())
			break
		}
		ins, ok := st.(*sqlparser.Insert)
		if !ok {
			perr = "not an insert"
			break
		}
		rows, ok := ins.Rows.(*sqlparser.AliasedValues)
		var vals sqlparser.Values
		if ok {
			vals = rows.Values
		} else if v, ok2 := ins.Rows.(sqlparser.Values); ok2 {
			vals = v
		} else {
			perr = fmt.Sprintf("unexpected rows node %T", ins.Rows)
			break
		}
		counts = append(counts, len(vals))
		for _, tup := range vals {
			pk := -1
			if lit, ok := tup[0].(*sqlparser.SQLVal); ok {
				fmt.Sscanf(string(lit.Val), "%d", &pk)
			}
			for next < pk {
				nmissing++
				if len(missing) < 5 {
					missing = append(missing, next)
				}
				next++
			}
			if pk == next {
				next++
			} else {
				extra++
			}
		}
	}
	for next <= c.N {
		nmissing++
		if len(missing) < 5 {
			missing = append(missing, next)
		}
		next++
	}
	return map[string]interface{}{"counts": counts, "nmissing": nmissing, "missing": missing, "extra": extra, "perr": perr}, nil
}

func trunc(s string) string {
	if len(s) > 200 {
		return s[:200]
	}
	return s
}

func binaryCol(c *sql.Column) (string, bool) {
	t := strings.ToLower(c.Type.String())
	return t, strings.Contains(t, "binary") || strings.Contains(t, "blob")
}

func sessionSchema(s *util.Session, name string) (schema.Schema, error) {
	roots, ok := dsess.DSessFromSess(s.Ctx.Session).GetRoots(s.Ctx, s.E.DBName)
	if !ok {
		return nil, fmt.Errorf("no roots for %s", s.E.DBName)
	}
	tbl, ok, err := roots.Working.GetTable(s.Ctx, doltdb.TableName{Name: name})
	if err != nil || !ok {
		return nil, fmt.Errorf("table %s not found: %v", name, err)
	}
	return tbl.GetSchema(s.Ctx)
}

func Run(raw json.RawMessage) (any, error) {
	var c Case
	if err := json.Unmarshal(raw, &c); err != nil {
		return nil, err
	}
	switch c.Kind {
	case "str":
		return runStr(c)
	case "csv":
		return runCsv(c)
	case "table":
		return runTable(c)
	case "batch":
		return runBatch(c)
	}
	return nil, fmt.Errorf("unknown kind %q", c.Kind)
}
