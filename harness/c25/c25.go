// Package c25: secondary indexes mirror their table (property C25).
// t(pk, a, b) with KEY ia(a) and KEY iba(b, a). A generated multi-session
// schedule of DML and commits (transaction merges go through the secondary
// merger) is run; then the committed table is read by a full scan of the
// primary index and, value by value, through each secondary index with
// covering queries (answered from the stored index entries alone); finally
// the indexes are dropped and re-created (rebuild) and read again.
package c25

import (
	"encoding/json"
	"fmt"
	"strings"

	"verifharness/c23"
	"verifharness/hk"
	"verifharness/sqlsched"
)

func init() { hk.Register("c25", Run) }

type Obs struct {
	Errs    []int   `json:"errs"`    // error class per step
	Full    [][]int `json:"full"`    // SELECT pk,a,b (primary scan)
	ByA     [][]int `json:"bya"`     // rows (a, pk) found through index ia, queried per value of a
	ByB     [][]int `json:"byb"`     // rows (b, a, pk) found through index iba, queried per value of b
	ByA2    [][]int `json:"bya2"`    // same after DROP INDEX / CREATE INDEX (rebuilt)
	ByB2    [][]int `json:"byb2"`
	UsesIdx bool    `json:"usesidx"` // the plans of the per-value queries use the secondary indexes
	Msg     string  `json:"msg,omitempty"`
}

var vals = []int{-1, 0, 1, 2, 3, 4, 5, 6}

func cond(col string, v int) string {
	if v < 0 {
		return col + " IS NULL"
	}
	return fmt.Sprintf("%s = %d", col, v)
}

func Run(raw json.RawMessage) (any, error) {
	var c c23.Case
	if err := json.Unmarshal(raw, &c); err != nil {
		return nil, err
	}
	setup := []string{"CREATE TABLE t (pk int primary key, a int, b int, KEY ia (a), KEY iba (b, a))"}
	for _, r := range c.Init {
		setup = append(setup, fmt.Sprintf("INSERT INTO t VALUES (%d, %s, %s)", r[0], sqlsched.V(r[1]), sqlsched.V(r[2])))
	}
	setup = append(setup, "CALL dolt_commit('-Am', 'init')")
	w, err := sqlsched.NewWorld(c.NSess, setup, c.Autos...)
	if err != nil {
		return nil, err
	}
	defer w.Close()
	var o Obs
	for _, st := range c.Steps {
		so := sqlsched.Exec(w.Sess[st[0]], c23.Render(st))
		o.Errs = append(o.Errs, so.Err)
	}
	f, err := w.Fresh()
	if err != nil {
		return nil, err
	}
	full := sqlsched.Exec(f, "SELECT pk, a, b FROM t")
	if full.Err != 0 {
		return nil, fmt.Errorf("full scan: %s", full.Msg)
	}
	o.Full = full.Rows
	read := func() (bya, byb [][]int, e error) {
		bya, byb = [][]int{}, [][]int{}
		for _, v := range vals {
			r := sqlsched.Exec(f, "SELECT a, pk FROM t WHERE "+cond("a", v))
			if r.Err != 0 {
				return nil, nil, fmt.Errorf("by a: %s", r.Msg)
			}
			bya = append(bya, r.Rows...)
			r = sqlsched.Exec(f, "SELECT b, a, pk FROM t WHERE "+cond("b", v))
			if r.Err != 0 {
				return nil, nil, fmt.Errorf("by b: %s", r.Msg)
			}
			byb = append(byb, r.Rows...)
		}
		return bya, byb, nil
	}
	if o.ByA, o.ByB, err = read(); err != nil {
		return nil, err
	}
	pa := f.Exec("EXPLAIN PLAN SELECT a, pk FROM t WHERE a = 1")
	pb := f.Exec("EXPLAIN PLAN SELECT b, a, pk FROM t WHERE b = 1")
	plan := func(rows [][]string) string {
		var sb strings.Builder
		for _, r := range rows {
			sb.WriteString(strings.Join(r, " "))
			sb.WriteString("\n")
		}
		return sb.String()
	}
	o.UsesIdx = strings.Contains(plan(pa.Rows), "t.a") && strings.Contains(plan(pa.Rows), "IndexedTableAccess") &&
		strings.Contains(plan(pb.Rows), "IndexedTableAccess")
	if !o.UsesIdx {
		o.Msg = plan(pa.Rows) + pa.Err + plan(pb.Rows) + pb.Err
	}
	if err := f.MustExec("ALTER TABLE t DROP INDEX ia", "ALTER TABLE t DROP INDEX iba", "CREATE INDEX ia ON t (a)", "CREATE INDEX iba ON t (b, a)"); err != nil {
		return nil, err
	}
	if o.ByA2, o.ByB2, err = read(); err != nil {
		return nil, err
	}
	return o, nil
}
