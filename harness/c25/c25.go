// Package c25: secondary indexes mirror their table (property C25).
// t(pk, a, b) with KEY ia(a) and KEY iba(b, a). A generated multi-session
// schedule of DML and commits (transaction merges go through the secondary
// merger) is run; then the committed table is read by a full scan of the
// primary index and, value by value, through each secondary index with
// covering queries (answered from the stored index entries alone); finally
// the indexes are dropped and re-created (rebuild) and read again.
package c25

import (
	"encoding/json"
	"fmt"
	"strings"

	"verifharness/c23"
	"verifharness/hk"
	"verifharness/sqlsched"
	"verifharness/util"
)

func init() { hk.Register("c25", Run) }

type Obs struct {
	Errs    []int   `json:"errs"`    // error class per step
	Full    [][]int `json:"full"`    // SELECT pk,a,b (primary scan)
	ByA     [][]int `json:"bya"`     // rows (a, pk) found through index ia, queried per value of a
	ByB     [][]int `json:"byb"`     // rows (b, a, pk) found through index iba, queried per value of b
	ByA2    [][]int `json:"bya2"`    // same after DROP INDEX / CREATE INDEX (rebuilt)
	ByB2    [][]int `json:"byb2"`
	UsesIdx bool    `json:"usesidx"` // the plans of the per-value queries use the secondary indexes
	Msg     string  `json:"msg,omitempty"`
}

var vals = []int{-1, 0, 1, 2, 3, 4, 5, 6}

func cond(col string, v int) string {
	if v < 0 {
		return col + " IS NULL"
	}
	return fmt.Sprintf("%s = %d", col, v)
}

func Run(raw json.RawMessage) (any, error) {
	var hdr struct {
		Mode string `json:"mode"`
	}
	_ = json.Unmarshal(raw, &hdr)
	switch hdr.Mode {
	case "vc":
		return runVC(raw)
	case "keyless":
		return runKeyless(raw)
	}
	var c c23.Case
	if err := json.Unmarshal(raw, &c); err != nil {
		return nil, err
	}
	setup := []string{"CREATE TABLE t (pk int primary key, a int, b int, KEY ia (a), KEY iba (b, a))"}
	for _, r := range c.Init {
		setup = append(setup, fmt.Sprintf("INSERT INTO t VALUES (%d, %s, %s)", r[0], sqlsched.V(r[1]), sqlsched.V(r[2])))
	}
	setup = append(setup, "CALL dolt_commit('-Am', 'init')")
	w, err := sqlsched.NewWorld(c.NSess, setup, c.Autos...)
	if err != nil {
		return nil, err
	}
	defer w.Close()
	var o Obs
	for _, st := range c.Steps {
		so := sqlsched.Exec(w.Sess[st[0]], c23.Render(st))
		o.Errs = append(o.Errs, so.Err)
	}
	f, err := w.Fresh()
	if err != nil {
		return nil, err
	}
	full := sqlsched.Exec(f, "SELECT pk, a, b FROM t")
	if full.Err != 0 {
		return nil, fmt.Errorf("full scan: %s", full.Msg)
	}
	o.Full = full.Rows
	read := func() (bya, byb [][]int, e error) {
		bya, byb = [][]int{}, [][]int{}
		for _, v := range vals {
			r := sqlsched.Exec(f, "SELECT a, pk FROM t WHERE "+cond("a", v))
			if r.Err != 0 {
				return nil, nil, fmt.Errorf("by a: %s", r.Msg)
			}
			bya = append(bya, r.Rows...)
			r = sqlsched.Exec(f, "SELECT b, a, pk FROM t WHERE "+cond("b", v))
			if r.Err != 0 {
				return nil, nil, fmt.Errorf("by b: %s", r.Msg)
			}
			byb = append(byb, r.Rows...)
		}
		return bya, byb, nil
	}
	if o.ByA, o.ByB, err = read(); err != nil {
		return nil, err
	}
	pa := f.Exec("EXPLAIN PLAN SELECT a, pk FROM t WHERE a = 1")
	pb := f.Exec("EXPLAIN PLAN SELECT b, a, pk FROM t WHERE b = 1")
	plan := func(rows [][]string) string {
		var sb strings.Builder
		for _, r := range rows {
			sb.WriteString(strings.Join(r, " "))
			sb.WriteString("\n")
		}
		return sb.String()
	}
	o.UsesIdx = strings.Contains(plan(pa.Rows), "t.a") && strings.Contains(plan(pa.Rows), "IndexedTableAccess") &&
		strings.Contains(plan(pb.Rows), "IndexedTableAccess")
	if !o.UsesIdx {
		o.Msg = plan(pa.Rows) + pa.Err + plan(pb.Rows) + pb.Err
	}
	if err := f.MustExec("ALTER TABLE t DROP INDEX ia", "ALTER TABLE t DROP INDEX iba", "CREATE INDEX ia ON t (a)", "CREATE INDEX iba ON t (b, a)"); err != nil {
		return nil, err
	}
	if o.ByA2, o.ByB2, err = read(); err != nil {
		return nil, err
	}
	return o, nil
}

// ---------------------------------------------------------------------------------------------
// Mode "vc": version-control operations.  Two branches get DML (the right one may also add NOT NULL
// to column b), then main runs dolt_merge (forced commit; conflicts resolved with --ours/--theirs)
// or dolt_cherry_pick, optionally dolt_revert; after every operation the table is read by a full
// scan and through each secondary index; finally the indexes are re-created and read again.

type VCCase struct {
	Init    [][]int `json:"init"`
	Left    [][]int `json:"left"`    // statements [_, kind, x, y, z] on main
	Right   [][]int `json:"right"`   // statements on branch b1
	NotNull bool    `json:"notnull"` // right: UPDATE t SET b = 0 WHERE b IS NULL; ALTER TABLE t MODIFY b int NOT NULL
	Op      string  `json:"op"`      // "merge" | "cherry"
	Resolve string  `json:"resolve"` // "ours" | "theirs"
	Revert  bool    `json:"revert"`
	Raw     bool    `json:"raw,omitempty"`
}

type Checkpoint struct {
	Label int     `json:"label"` // 0 before the operation, 1 after merge / cherry-pick, 2 after revert, 3 after index rebuild
	Err   int     `json:"err"`   // error class of the operation that led here (0 none)
	Full  [][]int `json:"full"`
	ByA   [][]int `json:"bya"`
	ByB   [][]int `json:"byb"`
}

type VCObs struct {
	Points    []Checkpoint `json:"points"`
	Conflicts int          `json:"conflicts"` // rows in dolt_conflicts_t after the operation (before resolving)
	Viol      [][]int      `json:"viol"`      // [violation type, pk] recorded by the operation
	UsesIdx   bool         `json:"usesidx"`
	Msg       string       `json:"msg,omitempty"`
}

func readIdx(f interface{ Exec(string) util.Result }, ss *util.Session) (full, bya, byb [][]int, err error) {
	fr := sqlsched.Exec(ss, "SELECT pk, a, b FROM t")
	if fr.Err != 0 {
		return nil, nil, nil, fmt.Errorf("full scan: %s", fr.Msg)
	}
	bya, byb = [][]int{}, [][]int{}
	for _, v := range vals {
		r := sqlsched.Exec(ss, "SELECT a, pk FROM t WHERE "+cond("a", v))
		if r.Err != 0 {
			return nil, nil, nil, fmt.Errorf("by a: %s", r.Msg)
		}
		bya = append(bya, r.Rows...)
		r = sqlsched.Exec(ss, "SELECT b, a, pk FROM t WHERE "+cond("b", v))
		if r.Err != 0 {
			return nil, nil, nil, fmt.Errorf("by b: %s", r.Msg)
		}
		byb = append(byb, r.Rows...)
	}
	return fr.Rows, bya, byb, nil
}

func runVC(raw json.RawMessage) (any, error) {
	var c VCCase
	if err := json.Unmarshal(raw, &c); err != nil {
		return nil, err
	}
	setup := []string{"CREATE TABLE t (pk int primary key, a int, b int, KEY ia (a), KEY iba (b, a))"}
	for _, r := range c.Init {
		setup = append(setup, fmt.Sprintf("INSERT INTO t VALUES (%d, %s, %s)", r[0], sqlsched.V(r[1]), sqlsched.V(r[2])))
	}
	setup = append(setup, "CALL dolt_commit('-Am', 'init')", "CALL dolt_branch('b1')")
	w, err := sqlsched.NewWorld(0, setup)
	if err != nil {
		return nil, err
	}
	defer w.Close()
	s, err := w.Fresh()
	if err != nil {
		return nil, err
	}
	var o VCObs
	for _, st := range c.Left {
		sqlsched.Exec(s, c23.Render(st))
	}
	if err := s.MustExec("CALL dolt_commit('-A', '--allow-empty', '-m', 'left')", "CALL dolt_checkout('b1')"); err != nil {
		return nil, err
	}
	if c.NotNull {
		if err := s.MustExec("UPDATE t SET b = 0 WHERE b IS NULL", "ALTER TABLE t MODIFY b int NOT NULL"); err != nil {
			return nil, err
		}
	}
	for _, st := range c.Right {
		sqlsched.Exec(s, c23.Render(st))
	}
	if err := s.MustExec("CALL dolt_commit('-A', '--allow-empty', '-m', 'right')", "CALL dolt_checkout('main')", "SET @@dolt_force_transaction_commit = 1"); err != nil {
		return nil, err
	}
	point := func(label, errc int) error {
		full, bya, byb, err := readIdx(nil, s)
		if err != nil {
			return err
		}
		o.Points = append(o.Points, Checkpoint{Label: label, Err: errc, Full: full, ByA: bya, ByB: byb})
		return nil
	}
	if err := point(0, 0); err != nil {
		return nil, err
	}
	// the operation
	var m util.Result
	if c.Op == "cherry" {
		m = s.Exec("CALL dolt_cherry_pick('b1')")
	} else {
		m = s.Exec("CALL dolt_merge('b1')")
	}
	opErr := 0
	if m.Err != "" {
		opErr = 3
		o.Msg = m.Err
	}
	cf := sqlsched.Exec(s, "SELECT count(*) FROM dolt_conflicts_t")
	if cf.Err == 0 && len(cf.Rows) == 1 {
		o.Conflicts = cf.Rows[0][0]
	}
	if o.Conflicts > 0 {
		if r := s.Exec(fmt.Sprintf("CALL dolt_conflicts_resolve('--%s', 't')", c.Resolve)); r.Err != "" {
			opErr = 3
			o.Msg += " resolve: " + r.Err
		}
	}
	o.Viol = [][]int{}
	if r := s.Exec("SELECT violation_type, pk FROM dolt_constraint_violations_t"); r.Err == "" {
		for _, row := range r.Rows {
			ir, _, _ := sqlsched.IntRows([][]string{{row[0], row[1]}})
			o.Viol = append(o.Viol, ir[0])
		}
	}
	if opErr == 0 {
		if r := s.Exec("CALL dolt_commit('-A', '--allow-empty', '--force', '-m', 'op')"); r.Err != "" && !strings.Contains(r.Err, "nothing to commit") {
			o.Msg += " commit: " + r.Err
		}
	}
	if err := point(1, opErr); err != nil {
		return nil, err
	}
	if c.Revert && opErr == 0 {
		r := s.Exec("CALL dolt_revert('HEAD')")
		e := 0
		if r.Err != "" {
			e = 3
			o.Msg += " revert: " + r.Err
		}
		if err := point(2, e); err != nil {
			return nil, err
		}
	}
	pa := s.Exec("EXPLAIN PLAN SELECT a, pk FROM t WHERE a = 1")
	plan := ""
	for _, r := range pa.Rows {
		plan += strings.Join(r, " ") + "\n"
	}
	o.UsesIdx = strings.Contains(plan, "IndexedTableAccess")
	if err := s.MustExec("ALTER TABLE t DROP INDEX ia", "ALTER TABLE t DROP INDEX iba", "CREATE INDEX ia ON t (a)", "CREATE INDEX iba ON t (b, a)"); err != nil {
		return nil, err
	}
	if err := point(3, 0); err != nil {
		return nil, err
	}
	if !c.Raw {
		o.Msg = ""
	}
	return o, nil
}

// ---------------------------------------------------------------------------------------------
// Mode "keyless": k(a int, b int, KEY ka (a)) without a primary key; duplicate rows; DELETE / UPDATE
// with LIMIT on one exact row value; after every statement the table is read by a scan and through
// the index, with multiplicities.

type KLCase struct {
	Steps [][]int `json:"steps"` // [kind, a, b, n, z]: 0 insert n copies of (a,b); 1 delete up to n copies; 2 set b=z on up to n copies; 3 set a=z on up to n copies
	Raw   bool    `json:"raw,omitempty"`
}

type KLPoint struct {
	Err  int     `json:"err"`
	Aff  int     `json:"aff"`
	Scan [][]int `json:"scan"` // rows (a, b) with multiplicity
	ByA  [][]int `json:"bya"`  // rows (a, b) found through the index, per value of a
}

type KLObs struct {
	Points  []KLPoint `json:"points"`
	Rebuilt [][]int   `json:"rebuilt"` // index reads after DROP / CREATE INDEX
	UsesIdx bool      `json:"usesidx"`
	Msg     string    `json:"msg,omitempty"`
}

func eqn(col string, v int) string {
	if v < 0 {
		return col + " IS NULL"
	}
	return fmt.Sprintf("%s = %d", col, v)
}

func runKeyless(raw json.RawMessage) (any, error) {
	var c KLCase
	if err := json.Unmarshal(raw, &c); err != nil {
		return nil, err
	}
	w, err := sqlsched.NewWorld(0, []string{"CREATE TABLE k (a int, b int, KEY ka (a))", "CALL dolt_commit('-Am', 'init')"})
	if err != nil {
		return nil, err
	}
	defer w.Close()
	s, err := w.Fresh()
	if err != nil {
		return nil, err
	}
	var o KLObs
	viaIdx := func() ([][]int, error) {
		out := [][]int{}
		for _, v := range vals {
			r := sqlsched.Exec(s, "SELECT a, b FROM k WHERE "+cond("a", v))
			if r.Err != 0 {
				return nil, fmt.Errorf("by a: %s", r.Msg)
			}
			out = append(out, r.Rows...)
		}
		return out, nil
	}
	for _, st := range c.Steps {
		kind, a, b, n, z := st[0], st[1], st[2], st[3], st[4]
		var q string
		where := eqn("a", a) + " AND " + eqn("b", b)
		switch kind {
		case 0:
			row := fmt.Sprintf("(%s, %s)", sqlsched.V(a), sqlsched.V(b))
			rows := []string{}
			for i := 0; i < n; i++ {
				rows = append(rows, row)
			}
			q = "INSERT INTO k VALUES " + strings.Join(rows, ", ")
		case 1:
			q = fmt.Sprintf("DELETE FROM k WHERE %s LIMIT %d", where, n)
		case 2:
			q = fmt.Sprintf("UPDATE k SET b = %s WHERE %s LIMIT %d", sqlsched.V(z), where, n)
		case 3:
			q = fmt.Sprintf("UPDATE k SET a = %s WHERE %s LIMIT %d", sqlsched.V(z), where, n)
		}
		r := sqlsched.Exec(s, q)
		if r.Err != 0 && c.Raw {
			o.Msg += q + ": " + r.Msg + "; "
		}
		sc := sqlsched.Exec(s, "SELECT a, b FROM k")
		if sc.Err != 0 {
			return nil, fmt.Errorf("scan: %s", sc.Msg)
		}
		bya, err := viaIdx()
		if err != nil {
			return nil, err
		}
		o.Points = append(o.Points, KLPoint{Err: r.Err, Aff: r.Aff, Scan: sc.Rows, ByA: bya})
	}
	pa := s.Exec("EXPLAIN PLAN SELECT a, b FROM k WHERE a = 1")
	plan := ""
	for _, r := range pa.Rows {
		plan += strings.Join(r, " ") + "\n"
	}
	o.UsesIdx = strings.Contains(plan, "IndexedTableAccess")
	if err := s.MustExec("ALTER TABLE k DROP INDEX ka", "CREATE INDEX ka ON k (a)"); err != nil {
		return nil, err
	}
	if o.Rebuilt, err = viaIdx(); err != nil {
		return nil, err
	}
	return o, nil
}
