// Package c23: concurrent transactions merge at commit (properties C23 and C22 share this runner).
package c23

import (
	"encoding/json"
	"fmt"
	"strings"

	"verifharness/hk"
	"verifharness/sqlsched"
	"verifharness/util"
)

func init() { hk.Register("c23", Run) }

// Statement kinds.
const (
	KBegin = iota
	KCommit
	KRollback
	KSelect    // SELECT pk,a,b FROM t
	KInsert    // x=k y=a z=b
	KUpdate    // x=k y=col(0:a,1:b) z=v
	KDelete    // x=k
	KUpdAdd    // x=k y=col z=d      UPDATE t SET col = col + d WHERE pk = k
	KSelectKey // x=k
	KDoltCommit    // CALL dolt_commit('-m', ..): commits what is staged
	KDoltAdd       // CALL dolt_add('-A')
	KDoltCommitAll // CALL dolt_commit('-a', '-m', ..)
	KReadHead      // SELECT .. FROM t AS OF 'HEAD'
	KReadBranch    // SELECT .. FROM t AS OF 'main'
	KReadRevDb     // SELECT .. FROM `<db>/main`.t
	KReadStaged    // SELECT .. FROM t AS OF 'STAGED'
	KReadHeadUC    // SELECT .. FROM <DB IN UPPER CASE>.t AS OF 'HEAD'
	KReadBranchUC  // SELECT .. FROM <Db In Mixed Case>.t AS OF 'main'
)

type Case struct {
	Init  [][]int `json:"init"`  // rows (pk,a,b) committed before the sessions start
	NSess int     `json:"nsess"`
	Autos []int   `json:"autos"` // sessions with autocommit on
	Steps [][]int `json:"steps"` // [sess, kind, x, y, z]
	Raw   bool    `json:"raw,omitempty"`
	Mode  string  `json:"mode,omitempty"` // "roots": also report HEAD / STAGED / WORKING of the branch after every statement
}

type Obs struct {
	Steps []sqlsched.StepObs `json:"steps"`
	Final [][]int            `json:"final"` // committed table as a fresh session sees it
	// roots mode: per statement, the branch's HEAD, STAGED and WORKING table as an independent reader sees them
	Head    [][][]int `json:"head,omitempty"`
	Staged  [][][]int `json:"staged,omitempty"`
	Working [][][]int `json:"working,omitempty"`
}

var cols = []string{"a", "b"}

func Render(st []int) string {
	x, y, z := st[2], st[3], st[4]
	switch st[1] {
	case KBegin:
		return "BEGIN"
	case KCommit:
		return "COMMIT"
	case KRollback:
		return "ROLLBACK"
	case KSelect:
		return "SELECT pk, a, b FROM t"
	case KInsert:
		return fmt.Sprintf("INSERT INTO t VALUES (%d, %s, %s)", x, sqlsched.V(y), sqlsched.V(z))
	case KUpdate:
		return fmt.Sprintf("UPDATE t SET %s = %s WHERE pk = %d", cols[y%2], sqlsched.V(z), x)
	case KDelete:
		return fmt.Sprintf("DELETE FROM t WHERE pk = %d", x)
	case KUpdAdd:
		return fmt.Sprintf("UPDATE t SET %s = %s + %d WHERE pk = %d", cols[y%2], cols[y%2], z, x)
	case KSelectKey:
		return fmt.Sprintf("SELECT pk, a, b FROM t WHERE pk = %d", x)
	case KDoltCommit:
		return "CALL dolt_commit('-m', 'c')"
	case KDoltAdd:
		return "CALL dolt_add('-A')"
	case KDoltCommitAll:
		return "CALL dolt_commit('-a', '-m', 'c')"
	case KReadHead:
		return "SELECT pk, a, b FROM t AS OF 'HEAD'"
	case KReadBranch:
		return "SELECT pk, a, b FROM t AS OF 'main'"
	case KReadStaged:
		return "SELECT pk, a, b FROM t AS OF 'STAGED'"
	}
	return "SELECT 'bad kind'"
}

func mixedCase(s string) string {
	b := []byte(strings.ToLower(s))
	for i := 0; i < len(b); i += 2 {
		if b[i] >= 'a' && b[i] <= 'z' {
			b[i] -= 32
		}
	}
	return string(b)
}

func Run(raw json.RawMessage) (any, error) {
	var c Case
	if err := json.Unmarshal(raw, &c); err != nil {
		return nil, err
	}
	setup := []string{"CREATE TABLE t (pk int primary key, a int, b int)"}
	for _, r := range c.Init {
		setup = append(setup, fmt.Sprintf("INSERT INTO t VALUES (%d, %s, %s)", r[0], sqlsched.V(r[1]), sqlsched.V(r[2])))
	}
	setup = append(setup, "CALL dolt_commit('-Am', 'init')")
	w, err := sqlsched.NewWorld(c.NSess, setup, c.Autos...)
	if err != nil {
		return nil, err
	}
	defer w.Close()
	var o Obs
	var reader *util.Session
	if c.Mode == "roots" {
		if reader, err = w.Fresh(); err != nil {
			return nil, err
		}
	}
	for _, st := range c.Steps {
		q := Render(st)
		switch st[1] {
		case KReadRevDb:
			q = "SELECT pk, a, b FROM `" + w.Env.DBName + "/main`.t"
		case KReadHeadUC: // database names are case-insensitive: the same read as KReadHead
			q = "SELECT pk, a, b FROM `" + strings.ToUpper(w.Env.DBName) + "`.t AS OF 'HEAD'"
		case KReadBranchUC:
			q = "SELECT pk, a, b FROM `" + mixedCase(w.Env.DBName) + "`.t AS OF 'main'"
		}
		so := sqlsched.Exec(w.Sess[st[0]], q)
		if st[1] >= KDoltCommit && st[1] <= KDoltCommitAll {
			so.Rows = [][]int{} // commit hash / status are not observables
			so.Aff = 0
		}
		if !c.Raw {
			so.Msg = ""
		}
		o.Steps = append(o.Steps, so)
		if reader != nil {
			reader.Exec("ROLLBACK") // read the branch as of now
			h := sqlsched.Exec(reader, "SELECT pk, a, b FROM t AS OF 'HEAD'")
			sg := sqlsched.Exec(reader, "SELECT pk, a, b FROM t AS OF 'STAGED'")
			wk := sqlsched.Exec(reader, "SELECT pk, a, b FROM t")
			if h.Err != 0 || sg.Err != 0 || wk.Err != 0 {
				return nil, fmt.Errorf("roots read: %s %s %s", h.Msg, sg.Msg, wk.Msg)
			}
			o.Head = append(o.Head, h.Rows)
			o.Staged = append(o.Staged, sg.Rows)
			o.Working = append(o.Working, wk.Rows)
		}
	}
	f, err := w.Fresh()
	if err != nil {
		return nil, err
	}
	fo := sqlsched.Exec(f, "SELECT pk, a, b FROM t")
	if fo.Err != 0 {
		return nil, fmt.Errorf("final read: %s", fo.Msg)
	}
	o.Final = fo.Rows
	return o, nil
}
