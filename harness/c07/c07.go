// Package c07: no dangling references in committed state (property C07).
//
// One case = a memtable capacity and a list of events on a real NomsBlockStore
// (nbs.NewLocalStore on a temp dir): put a chunk (with a declared list of child
// addresses, present or not), commit, rebase, a peer handle committing, and
// table-file additions.  After every event the harness reports the result, the
// handle's Root(), the manifest root seen by a freshly opened handle, and
// whether every chunk reachable from that root over the declared reference
// graph answers Has on the fresh handle.
package c07

import (
	"bytes"
	"context"
	"encoding/json"
	"errors"
	"fmt"
	"io"
	"os"
	"strings"
	"time"

	"github.com/dolthub/dolt/go/store/chunks"
	"github.com/dolthub/dolt/go/store/hash"
	"github.com/dolthub/dolt/go/store/nbs"
	"github.com/dolthub/dolt/go/store/types"

	"verifharness/hk"
)

func init() { hk.Register("c07", Run) }

type ChunkSpec struct {
	ID   int   `json:"id"`
	Refs []int `json:"refs"`
	Size int   `json:"size"`
}

type Event struct {
	K       string      `json:"k"` // put commit rebase ext addtables
	Chunk   *ChunkSpec  `json:"chunk,omitempty"`
	Current int         `json:"current"`
	Last    int         `json:"last"`
	Root    int         `json:"root"`
	Chunks  []ChunkSpec `json:"chunks,omitempty"`
}

type Case struct {
	Cap    int     `json:"cap"`
	Events []Event `json:"events"`
}

type EObs struct {
	Res   string `json:"res"` // ok false dangling noop other
	Msg   string `json:"msg,omitempty"`
	Last  int    `json:"last"` // commit: the |last| argument actually passed (resolved from Root() when the case says -1)
	HRoot int    `json:"hroot"`
	MRoot int    `json:"mroot"`
	Reach bool   `json:"reach"`
}

const unknownID = 9999

type env struct {
	ctx   context.Context
	dir   string
	refs  map[int][]int // declared reference graph (by chunk id)
	h2id  map[hash.Hash]int
	id2h  map[int]hash.Hash
	sizes map[int]int
}

func chunkData(id, size int) []byte {
	b := []byte(fmt.Sprintf("c%d:", id))
	for len(b) < size {
		b = append(b, 'x')
	}
	return b
}

func (e *env) chunk(cs ChunkSpec) chunks.Chunk {
	c := chunks.NewChunk(chunkData(cs.ID, cs.Size))
	e.h2id[c.Hash()] = cs.ID
	e.id2h[cs.ID] = c.Hash()
	if _, ok := e.refs[cs.ID]; !ok {
		e.refs[cs.ID] = cs.Refs
	}
	return c
}

// address of a chunk id that may never be written
func (e *env) addrOf(id int) hash.Hash {
	if id == 0 {
		return hash.Hash{}
	}
	if h, ok := e.id2h[id]; ok {
		return h
	}
	sz := e.sizes[id]
	if sz == 0 {
		sz = 8
	}
	h := chunks.NewChunk(chunkData(id, sz)).Hash()
	e.id2h[id] = h
	e.h2id[h] = id
	return h
}

func (e *env) idOf(h hash.Hash) int {
	if h.IsEmpty() {
		return 0
	}
	if id, ok := e.h2id[h]; ok {
		return id
	}
	return unknownID
}

func (e *env) getAddrs(c chunks.Chunk) chunks.InsertAddrsCb {
	return func(ctx context.Context, addrs hash.HashSet, _ chunks.PendingRefExists) error {
		id, ok := e.h2id[c.Hash()]
		if !ok {
			return fmt.Errorf("getAddrs: unknown chunk %s", c.Hash())
		}
		for _, r := range e.refs[id] {
			addrs.Insert(e.addrOf(r))
		}
		return nil
	}
}

func (e *env) open(memTable uint64) (st *nbs.NomsBlockStore, err error) {
	err = retryLock(func() error {
		st, err = nbs.NewLocalStore(e.ctx, types.Format_DOLT.VersionString(), e.dir, memTable, nbs.NewUnlimitedMemQuotaProvider(), false)
		return err
	})
	return st, err
}

// lockFileTimeout (100 ms) expires spuriously on a loaded machine; the call fails before touching the
// manifest and is repeated.
func retryLock(f func() error) error {
	var err error
	for i := 0; i < 100; i++ {
		if err = f(); err == nil || !strings.Contains(err.Error(), "lock timeout exceeded") {
			return err
		}
		time.Sleep(5 * time.Millisecond)
	}
	return err
}

func classify(err error) (string, string) {
	if err == nil {
		return "ok", ""
	}
	if errors.Is(err, nbs.ErrDanglingRef) || errors.Is(err, nbs.ErrTableFileNotFound) {
		return "dangling", ""
	}
	return "other", err.Error()
}

// walk from the manifest root over the declared graph on a fresh handle
func (e *env) inspect() (int, bool, error) {
	st, err := e.open(1 << 20)
	if err != nil {
		return 0, false, err
	}
	defer st.Close()
	var root hash.Hash
	err = retryLock(func() error {
		var rerr error
		root, rerr = st.Root(e.ctx)
		return rerr
	})
	if err != nil {
		return 0, false, err
	}
	rid := e.idOf(root)
	if rid == 0 {
		return 0, true, nil
	}
	seen := map[int]bool{}
	todo := []int{rid}
	for len(todo) > 0 {
		id := todo[0]
		todo = todo[1:]
		if seen[id] {
			continue
		}
		seen[id] = true
		ok, err := st.Has(e.ctx, e.addrOf(id))
		if err != nil {
			return rid, false, err
		}
		if !ok {
			return rid, false, nil
		}
		todo = append(todo, e.refs[id]...)
	}
	return rid, true, nil
}

func Run(raw json.RawMessage) (any, error) {
	var c Case
	if err := json.Unmarshal(raw, &c); err != nil {
		return nil, err
	}
	ctx := context.Background()
	dir, err := os.MkdirTemp("", "c07-nbs-")
	if err != nil {
		return nil, err
	}
	defer os.RemoveAll(dir)
	e := &env{ctx: ctx, dir: dir, refs: map[int][]int{}, h2id: map[hash.Hash]int{}, id2h: map[int]hash.Hash{}, sizes: map[int]int{}}
	// sizes of every chunk named anywhere (so that addresses of never-written children are those of the
	// chunk the case would write for that id)
	for _, ev := range c.Events {
		if ev.Chunk != nil {
			e.sizes[ev.Chunk.ID] = ev.Chunk.Size
		}
		for _, cs := range ev.Chunks {
			e.sizes[cs.ID] = cs.Size
		}
	}
	st, err := e.open(uint64(c.Cap))
	if err != nil {
		return nil, err
	}
	defer st.Close()

	out := []EObs{}
	for _, ev := range c.Events {
		var o EObs
		switch ev.K {
		case "put":
			ch := e.chunk(*ev.Chunk)
			o.Res, o.Msg = classify(retryLock(func() error { return st.Put(ctx, ch, e.getAddrs) }))
		case "commit":
			last := e.addrOf(0)
			if ev.Last < 0 {
				last, err = st.Root(ctx)
				if err != nil {
					return nil, err
				}
			} else {
				last = e.addrOf(ev.Last)
			}
			o.Last = e.idOf(last)
			var ok bool
			err := retryLock(func() error {
				var cerr error
				ok, cerr = st.Commit(ctx, e.addrOf(ev.Current), last)
				return cerr
			})
			o.Res, o.Msg = classify(err)
			if err == nil && !ok {
				o.Res = "false"
			}
		case "rebase":
			o.Res, o.Msg = classify(retryLock(func() error { return st.Rebase(ctx) }))
		case "ext":
			peer, err := e.open(1 << 20)
			if err != nil {
				return nil, err
			}
			perr := func() error {
				for _, cs := range ev.Chunks {
					if err := peer.Put(ctx, e.chunk(cs), e.getAddrs); err != nil {
						return err
					}
				}
				last, err := peer.Root(ctx)
				if err != nil {
					return err
				}
				var ok bool
				err = retryLock(func() error {
					var cerr error
					ok, cerr = peer.Commit(ctx, e.addrOf(ev.Root), last)
					return cerr
				})
				if err == nil && !ok {
					return errors.New("peer commit refused")
				}
				return err
			}()
			peer.Close()
			o.Res, o.Msg = classify(perr)
			if o.Res == "dangling" {
				o.Res = "noop"
			}
		case "addtables":
			cl := make([]chunks.Chunk, len(ev.Chunks))
			for i, cs := range ev.Chunks {
				cl[i] = e.chunk(cs)
			}
			name, data, split, err := nbs.WriteChunks(cl)
			if err != nil {
				return nil, err
			}
			closer, err := st.WriteTableFile(ctx, name, split, len(cl), nil, func() (io.ReadCloser, uint64, error) {
				return io.NopCloser(bytes.NewReader(data)), uint64(len(data)), nil
			})
			if err != nil {
				return nil, fmt.Errorf("WriteTableFile: %w", err)
			}
			aerr := retryLock(func() error { return st.AddTableFilesToManifest(ctx, map[string]int{name: len(cl)}, e.getAddrs) })
			if closer != nil {
				closer.Close()
			}
			o.Res, o.Msg = classify(aerr)
		default:
			return nil, fmt.Errorf("unknown event %q", ev.K)
		}
		hr, err := st.Root(ctx)
		if err != nil {
			return nil, err
		}
		o.HRoot = e.idOf(hr)
		mr, reach, err := e.inspect()
		if err != nil {
			return nil, err
		}
		o.MRoot, o.Reach = mr, reach
		out = append(out, o)
	}
	return out, nil
}
