// Package c33: historical reads through SQL (property C33).
//
// One case = a script of operations on one session (autocommit on) over a fresh
// in-memory repository with up to two tables t1,t2 (pk int primary key, some of
// the int columns c1..c4).  While the script runs the harness records, for every
// commit it sees, the parents and the contents of the tables at commit time (read
// with a plain SELECT on the clean working set right after the commit), and for
// every branch its last working-set contents.  At the end it reads everything back
// through every historical access path and reports the answers:
//
//	SELECT * FROM t AS OF '<hash | branch | tag | HEAD>[~n|^n]*'
//	SELECT * FROM `db/<rev>`.t         and   USE `db/<rev>`; SELECT * FROM t
//	SELECT * FROM dolt_history_t WHERE commit_hash = '<hash>'
//	SELECT * FROM dolt_history_t
package c33

import (
	"encoding/json"
	"fmt"
	"sort"
	"strconv"
	"strings"

	"verifharness/hk"
	"verifharness/util"
)

func init() { hk.Register("c33", Run) }

type Op struct {
	K    string `json:"k"`    // create droptable put putrev del addcol dropcol commit branch checkout tag merge mergeff
	T    int    `json:"t"`    // table
	Cols []int  `json:"cols"` // create: column numbers
	Pk   int    `json:"pk"`
	Vals []*int `json:"vals"` // put: four values, the first (number of current columns) are used
	C    int    `json:"c"`    // addcol/dropcol
	B    string `json:"b"`    // branch/checkout/merge/tag name
}

type Case struct {
	Ops []Op `json:"ops"`
}

// Table contents: column numbers (0 = pk first) and rows (pk, cells)
type Tab struct {
	T    int      `json:"t"`
	Cols []int    `json:"cols"` // non-key columns in order
	Rows [][]*int `json:"rows"` // each: pk, then one cell per column
}

type Commit struct {
	Hash    string `json:"hash"`
	Parents []int  `json:"parents"`
	Tabs    []Tab  `json:"tabs"`
}

type Branch struct {
	Name    string `json:"name"`
	Head    int    `json:"head"`
	Working []Tab  `json:"working"`
}

type Tag struct {
	Name string `json:"name"`
	At   int    `json:"at"`
}

type Anc struct {
	Caret bool `json:"caret"`
	N     int  `json:"n"`
}

type Query struct {
	Kind string `json:"kind"` // asof revdb userevdb histat histall
	Base string `json:"base"` // hash branch tag head
	Idx  int    `json:"idx"`  // hash: commit index
	Name string `json:"name"` // branch / tag name
	Anc  []Anc  `json:"anc"`
	T    int    `json:"t"`
	// answer
	Err  bool     `json:"err"`
	Msg  string   `json:"msg,omitempty"`
	Cols []int    `json:"cols"`
	Rows [][]*int `json:"rows"` // histall: commit index, pk, cells ; others: pk, cells
}

type Obs struct {
	Commits  []Commit `json:"commits"`
	Branches []Branch `json:"branches"`
	Tags     []Tag    `json:"tags"`
	Cur      string   `json:"cur"`
	Steps    []string `json:"steps"` // per op: "" ok or the error text
	Queries  []Query  `json:"queries"`
	Dirty    bool     `json:"dirty"` // current branch has uncommitted changes at read time
}

func tname(t int) string { return fmt.Sprintf("t%d", t) }
func cname(c int) string { return fmt.Sprintf("c%d", c) }

func colNum(name string) int {
	if name == "pk" {
		return 0
	}
	n, err := strconv.Atoi(strings.TrimPrefix(name, "c"))
	if err != nil || !strings.HasPrefix(name, "c") {
		return -1
	}
	return n
}

func cellSQL(c *int) string {
	if c == nil {
		return "NULL"
	}
	return strconv.Itoa(*c)
}

func parseCell(v string) *int {
	if v == "NULL" {
		return nil
	}
	n, err := strconv.Atoi(strings.TrimPrefix(v, "i:"))
	if err != nil {
		panic("unexpected cell " + v)
	}
	return &n
}

func str(v string) string { return strings.TrimPrefix(v, "s:") }

// decode a result whose columns are pk, c*, and possibly trailing history columns
func decode(r util.Result, hashIdx map[string]int, withCommit bool) (cols []int, rows [][]*int) {
	cols = []int{}
	rows = [][]*int{}
	n := len(r.Cols)
	hcol := -1
	for i, c := range r.Cols {
		if c == "commit_hash" {
			hcol = i
			n = i
			break
		}
	}
	if n == 0 || r.Cols[0] != "pk" {
		panic(fmt.Sprintf("unexpected columns %v", r.Cols))
	}
	for _, c := range r.Cols[1:n] {
		k := colNum(c)
		if k <= 0 {
			panic(fmt.Sprintf("unexpected columns %v", r.Cols))
		}
		cols = append(cols, k)
	}
	for _, row := range r.Rows {
		out := []*int{}
		if withCommit {
			ci := 999
			if hcol >= 0 {
				if x, ok := hashIdx[str(row[hcol])]; ok {
					ci = x
				}
			}
			out = append(out, &ci)
		}
		for i := 0; i < n; i++ {
			out = append(out, parseCell(row[i]))
		}
		rows = append(rows, out)
	}
	sort.SliceStable(rows, func(i, j int) bool {
		a, b := rows[i], rows[j]
		for k := 0; k < len(a) && k < len(b); k++ {
			if a[k] == nil || b[k] == nil {
				if a[k] == nil && b[k] != nil {
					return true
				}
				if a[k] != nil && b[k] == nil {
					return false
				}
				continue
			}
			if *a[k] != *b[k] {
				return *a[k] < *b[k]
			}
		}
		return len(a) < len(b)
	})
	return
}

func snap(s *util.Session) []Tab {
	out := []Tab{}
	for t := 1; t <= 2; t++ {
		r := s.Exec("SELECT * FROM " + tname(t) + " ORDER BY pk")
		if r.Err != "" {
			continue
		}
		cols, rows := decode(r, nil, false)
		out = append(out, Tab{T: t, Cols: cols, Rows: rows})
	}
	return out
}

func one(s *util.Session, q string) string {
	r := s.Exec(q)
	if r.Err != "" || len(r.Rows) == 0 {
		return "!" + r.Err
	}
	return str(r.Rows[0][0])
}

func revString(q Query, commits []Commit) string {
	var b string
	switch q.Base {
	case "hash":
		b = commits[q.Idx].Hash
	case "branch", "tag":
		b = q.Name
	case "head":
		b = "HEAD"
	}
	for _, a := range q.Anc {
		if a.Caret {
			b += fmt.Sprintf("^%d", a.N)
		} else {
			b += fmt.Sprintf("~%d", a.N)
		}
	}
	return b
}

func Run(raw json.RawMessage) (any, error) {
	var c Case
	if err := json.Unmarshal(raw, &c); err != nil {
		return nil, err
	}
	env, err := util.NewEnv(false)
	if err != nil {
		return nil, err
	}
	defer env.Close()
	s, err := env.NewSession()
	if err != nil {
		return nil, err
	}
	if err := s.MustExec("SET @@autocommit = 1"); err != nil {
		return nil, err
	}
	db := env.DBName
	var obs Obs
	hashIdx := map[string]int{}
	working := map[string][]Tab{}
	record := func() error { // record HEAD of the current branch if it is a commit not seen yet
		h := one(s, "SELECT dolt_hashof('HEAD')")
		if _, ok := hashIdx[h]; ok {
			return nil
		}
		if n := one(s, "SELECT count(*) FROM dolt_status"); n != "i:0" {
			return fmt.Errorf("new commit %s with a dirty working set (%s)", h, n)
		}
		r := s.Exec(fmt.Sprintf("SELECT parent_hash FROM dolt_commit_ancestors WHERE commit_hash = '%s' ORDER BY parent_index", h))
		if r.Err != "" {
			return fmt.Errorf("ancestors: %s", r.Err)
		}
		cm := Commit{Hash: h, Parents: []int{}, Tabs: snap(s)}
		for _, row := range r.Rows {
			if row[0] == "NULL" {
				continue
			}
			p, ok := hashIdx[str(row[0])]
			if !ok {
				return fmt.Errorf("unknown parent %s of %s", row[0], h)
			}
			cm.Parents = append(cm.Parents, p)
		}
		hashIdx[h] = len(obs.Commits)
		obs.Commits = append(obs.Commits, cm)
		return nil
	}
	if err := record(); err != nil {
		return nil, err
	}
	cur := one(s, "SELECT active_branch()")
	working[cur] = snap(s)
	schema := func(t int) []int { // current working columns of t, nil if absent
		for _, tb := range working[cur] {
			if tb.T == t {
				return tb.Cols
			}
		}
		return nil
	}
	for n, op := range c.Ops {
		var r util.Result
		switch op.K {
		case "create":
			cs := []string{"pk int primary key"}
			for _, k := range op.Cols {
				cs = append(cs, cname(k)+" int")
			}
			r = s.Exec(fmt.Sprintf("CREATE TABLE %s (%s)", tname(op.T), strings.Join(cs, ", ")))
		case "droptable":
			r = s.Exec("DROP TABLE " + tname(op.T))
		case "put":
			cols := schema(op.T)
			if cols == nil || len(cols) > len(op.Vals) {
				r.Err = "harness: put does not fit the current schema"
				break
			}
			vs := []string{strconv.Itoa(op.Pk)}
			for _, v := range op.Vals[:len(cols)] { // the first len(cols) of the offered values
				vs = append(vs, cellSQL(v))
			}
			r = s.Exec(fmt.Sprintf("REPLACE INTO %s VALUES (%s)", tname(op.T), strings.Join(vs, ",")))
		case "putrev": // write through the revision database name `db/<b>` (b: a branch, possibly also the name of a tag)
			w, isBranch := working[op.B]
			var cols []int
			ti := -1
			for i, tb := range w {
				if tb.T == op.T {
					cols, ti = tb.Cols, i
				}
			}
			if !isBranch || ti < 0 || len(cols) > len(op.Vals) {
				r.Err = "harness: putrev does not fit"
				break
			}
			vs := []string{strconv.Itoa(op.Pk)}
			for _, v := range op.Vals[:len(cols)] {
				vs = append(vs, cellSQL(v))
			}
			r = s.Exec(fmt.Sprintf("REPLACE INTO `%s/%s`.%s VALUES (%s)", db, op.B, tname(op.T), strings.Join(vs, ",")))
			if r.Err == "" {
				// the branch's recorded working set: the same upsert applied to the recorded rows
				pk := op.Pk
				row := []*int{&pk}
				row = append(row, op.Vals[:len(cols)]...)
				rows := [][]*int{}
				done := false
				for _, old := range w[ti].Rows {
					if *old[0] == op.Pk {
						rows = append(rows, row)
						done = true
					} else {
						if !done && *old[0] > op.Pk {
							rows = append(rows, row)
							done = true
						}
						rows = append(rows, old)
					}
				}
				if !done {
					rows = append(rows, row)
				}
				nw := append([]Tab{}, w...)
				nw[ti] = Tab{T: op.T, Cols: cols, Rows: rows}
				working[op.B] = nw
			}
		case "del":
			r = s.Exec(fmt.Sprintf("DELETE FROM %s WHERE pk = %d", tname(op.T), op.Pk))
		case "addcol":
			r = s.Exec(fmt.Sprintf("ALTER TABLE %s ADD COLUMN %s int", tname(op.T), cname(op.C)))
		case "dropcol":
			r = s.Exec(fmt.Sprintf("ALTER TABLE %s DROP COLUMN %s", tname(op.T), cname(op.C)))
		case "commit":
			r = s.Exec(fmt.Sprintf("CALL dolt_commit('-A','--allow-empty','-m','op%d')", n))
		case "branch":
			r = s.Exec(fmt.Sprintf("CALL dolt_branch('%s')", op.B))
			if r.Err == "" {
				hi := hashIdx[one(s, "SELECT dolt_hashof('HEAD')")]
				working[op.B] = obs.Commits[hi].Tabs
			}
		case "checkout":
			r = s.Exec(fmt.Sprintf("CALL dolt_checkout('%s')", op.B))
		case "tag":
			r = s.Exec(fmt.Sprintf("CALL dolt_tag('%s')", op.B))
		case "merge":
			r = s.Exec(fmt.Sprintf("CALL dolt_merge('%s','--no-ff','-m','merge%d')", op.B, n))
			if r.Err == "" && len(r.Rows) > 0 && len(r.Rows[0]) > 2 && r.Rows[0][2] != "i:0" {
				r.Err = "conflicts"
				s.Exec("CALL dolt_merge('--abort')")
			}
		case "mergeff":
			r = s.Exec(fmt.Sprintf("CALL dolt_merge('%s')", op.B))
			if r.Err == "" && len(r.Rows) > 0 && len(r.Rows[0]) > 2 && r.Rows[0][2] != "i:0" {
				r.Err = "conflicts"
				s.Exec("CALL dolt_merge('--abort')")
			}
		default:
			return nil, fmt.Errorf("unknown op %q", op.K)
		}
		obs.Steps = append(obs.Steps, r.Err)
		cur = one(s, "SELECT active_branch()")
		if err := record(); err != nil {
			return nil, err
		}
		working[cur] = snap(s)
	}
	if obs.Steps == nil {
		obs.Steps = []string{}
	}
	obs.Cur = cur
	obs.Dirty = one(s, "SELECT count(*) FROM dolt_status") != "i:0"
	// refs
	rb := s.Exec("SELECT name, hash FROM dolt_branches ORDER BY name")
	for _, row := range rb.Rows {
		name := str(row[0])
		hi, ok := hashIdx[str(row[1])]
		if !ok {
			return nil, fmt.Errorf("branch %s at an unrecorded commit", name)
		}
		w, ok := working[name]
		if !ok {
			return nil, fmt.Errorf("no working set recorded for branch %s", name)
		}
		obs.Branches = append(obs.Branches, Branch{Name: name, Head: hi, Working: w})
	}
	rt := s.Exec("SELECT tag_name, tag_hash FROM dolt_tags ORDER BY tag_name")
	obs.Tags = []Tag{}
	for _, row := range rt.Rows {
		hi, ok := hashIdx[str(row[1])]
		if !ok {
			return nil, fmt.Errorf("tag %s at an unrecorded commit", row[0])
		}
		obs.Tags = append(obs.Tags, Tag{Name: str(row[0]), At: hi})
	}

	// ---- the read battery ----
	s2, err := env.NewSession() // for USE `db/rev`
	if err != nil {
		return nil, err
	}
	if err := s2.MustExec("SET @@autocommit = 1"); err != nil {
		return nil, err
	}
	ancs := [][]Anc{{}, {{false, 1}}, {{false, 2}}, {{true, 1}}, {{true, 2}}, {{false, 1}, {true, 2}}, {{true, 2}, {false, 1}}, {{false, 3}}}
	var qs []Query
	for t := 1; t <= 2; t++ {
		for i := range obs.Commits {
			qs = append(qs, Query{Kind: "asof", Base: "hash", Idx: i, T: t}, Query{Kind: "revdb", Base: "hash", Idx: i, T: t},
				Query{Kind: "histat", Base: "hash", Idx: i, T: t})
			if i%3 == 2 {
				qs = append(qs, Query{Kind: "userevdb", Base: "hash", Idx: i, T: t}, Query{Kind: "asof", Base: "hash", Idx: i, Anc: ancs[1+i%7], T: t},
					Query{Kind: "revdb", Base: "hash", Idx: i, Anc: ancs[1+(i+3)%7], T: t})
			}
		}
		for _, a := range ancs {
			qs = append(qs, Query{Kind: "asof", Base: "head", Anc: a, T: t})
		}
		for bi, b := range obs.Branches {
			qs = append(qs, Query{Kind: "revdb", Base: "branch", Name: b.Name, T: t}, Query{Kind: "userevdb", Base: "branch", Name: b.Name, T: t})
			for ai, a := range ancs {
				qs = append(qs, Query{Kind: "asof", Base: "branch", Name: b.Name, Anc: a, T: t})
				if ai > 0 && (ai+bi)%3 == 0 {
					qs = append(qs, Query{Kind: "revdb", Base: "branch", Name: b.Name, Anc: a, T: t})
				}
			}
		}
		for _, g := range obs.Tags {
			qs = append(qs, Query{Kind: "asof", Base: "tag", Name: g.Name, T: t}, Query{Kind: "revdb", Base: "tag", Name: g.Name, T: t},
				Query{Kind: "userevdb", Base: "tag", Name: g.Name, T: t}, Query{Kind: "asof", Base: "tag", Name: g.Name, Anc: ancs[1], T: t},
				Query{Kind: "revdb", Base: "tag", Name: g.Name, Anc: ancs[3], T: t})
		}
		qs = append(qs, Query{Kind: "histall", T: t})
	}
	for i := range qs {
		q := &qs[i]
		if q.Anc == nil {
			q.Anc = []Anc{}
		}
		var r util.Result
		switch q.Kind {
		case "asof":
			r = s.Exec(fmt.Sprintf("SELECT * FROM %s AS OF '%s'", tname(q.T), revString(*q, obs.Commits)))
		case "revdb": // on the second session, which never checked anything out (no cached revision databases)
			r = s2.Exec(fmt.Sprintf("SELECT * FROM `%s/%s`.%s", db, revString(*q, obs.Commits), tname(q.T)))
		case "userevdb":
			r = s2.Exec(fmt.Sprintf("USE `%s/%s`", db, revString(*q, obs.Commits)))
			if r.Err == "" {
				r = s2.Exec("SELECT * FROM " + tname(q.T))
			}
			s2.Exec("USE `" + db + "`")
		case "histat":
			r = s.Exec(fmt.Sprintf("SELECT * FROM dolt_history_%s WHERE commit_hash = '%s'", tname(q.T), obs.Commits[q.Idx].Hash))
		case "histall":
			r = s.Exec("SELECT * FROM dolt_history_" + tname(q.T))
		}
		if r.Err != "" {
			q.Err, q.Msg, q.Cols, q.Rows = true, r.Err, []int{}, [][]*int{}
			continue
		}
		q.Cols, q.Rows = decode(r, hashIdx, q.Kind == "histall")
	}
	obs.Queries = qs
	return obs, nil
}
