package c19

import (
	"context"
	"testing"
	"time"
)

func TestSQLSmoke(t *testing.T) {
	ctx := context.Background()
	h := [][]int{{}, {0}, {0}, {1, 2}, {2, 1}, {3}, {4}, {5, 6}}
	t0 := time.Now()
	g, s, err := buildSQL(ctx, h, 7)
	if err != nil {
		t.Fatal(err)
	}
	defer s.Close()
	t.Logf("buildSQL: %v, %d commits, init=%s", time.Since(t0), len(g.Addrs), s.InitHash)
	for i, a := range g.Addrs {
		t.Logf("commit %d = %s", i, a)
	}

	wantMb := map[[2]int][]int{{3, 4}: {1, 2}, {4, 3}: {1, 2}, {5, 6}: {1, 2}, {0, 7}: {0}, {7, 7}: {7}}
	for _, p := range [][2]int{{3, 4}, {4, 3}, {5, 6}, {0, 7}, {7, 7}} {
		mb := s.MergeBase(p[0], p[1])
		t.Logf("MergeBase(%d,%d) = %d", p[0], p[1], mb)
		ok := false
		for _, w := range wantMb[p] {
			ok = ok || w == mb
		}
		if !ok {
			t.Errorf("MergeBase(%d,%d) = %d, wanted one of %v", p[0], p[1], mb, wantMb[p])
		}
	}
	// the orphaned original initial commit shares nothing with the graph
	t.Logf("MergeBaseOf(init, b0) = %d", s.MergeBaseOf(s.InitHash, "b0"))
	t.Logf("MergeBaseOf(b0, init) = %d", s.MergeBaseOf("b0", s.InitHash))
	t.Logf("MergeBaseOf(init, init) = %d", s.MergeBaseOf(s.InitHash, s.InitHash))
	t.Logf("MergeBaseOf(nosuch, b0) = %d", s.MergeBaseOf("nosuch", "b0"))

	want := map[string][2]int{
		"b7": {0, 7}, "b7~0": {0, 7}, "b7^2": {0, 6}, "b7^2~2": {0, 2}, "b7~9": {1, 0}, "b7^3": {1, 0}, "b7^0": {1, 0},
		"b5~1^2": {0, 2}, "b0~0": {0, 0}, "b0~": {1, 0},
	}
	specs := []string{"b7", "b7~0", "b7^2", "b7^2~2", "b7~9", "b7^3", "b7^0", "b5~1^2", "b0~0", "b0~",
		// extras, logged only
		"b7~1 ", " b7~1", "b7 ~1", "b7x", "b7~x", "b7~99999999999999999999", "B7^", "b7^^2", "b7~02", "b7~-1", "b7..b5", "b7'", "b7\\", "b7^1^2~"}
	for _, sp := range specs {
		code, idx, rs := s.resolveSpecDetail(sp)
		t.Logf("ResolveSpec(%q) = (%d,%d)   hashof=%s log=%s asof=%s", sp, code, idx, rs[0], rs[1], rs[2])
		if w, found := want[sp]; found && (w[0] != code || w[1] != idx) {
			t.Errorf("ResolveSpec(%q) = (%d,%d), wanted %v", sp, code, idx, w)
		}
	}
	for _, e := range s.Errs {
		t.Logf("Errs: %s", e)
	}

	// a second graph on a second engine in the same process
	t1 := time.Now()
	_, s2, err := buildSQL(ctx, h, 8)
	if err != nil {
		t.Fatal(err)
	}
	s2.Close()
	t.Logf("second buildSQL: %v", time.Since(t1))

	// merges whose first parent is an ancestor of the second (a fast-forward made --no-ff), and a merge of merges
	h3 := [][]int{{}, {0}, {0, 1}, {1}, {1, 2}, {2, 3}, {4, 5}, {5, 4}, {0, 7}}
	t2 := time.Now()
	_, s3, err := buildSQL(ctx, h3, 9)
	if err != nil {
		t.Fatal(err)
	}
	t.Logf("third buildSQL: %v", time.Since(t2))
	t.Logf("raw unrelated: %+v", s3.sess.Exec("select dolt_merge_base('"+s3.InitHash+"','b0')"))
	t.Logf("raw null: %+v", s3.sess.Exec("select dolt_merge_base(NULL,'b0')"))
	t.Logf("MergeBase(6,7) = %d, MergeBase(7,6) = %d, MergeBase(8,3) = %d", s3.MergeBase(6, 7), s3.MergeBase(7, 6), s3.MergeBase(8, 3))
	for _, sp := range []string{"b8^2^2^1~", "b8^", "b8^^", "b2^2", "b2~2"} {
		code, idx, rs := s3.resolveSpecDetail(sp)
		t.Logf("ResolveSpec(%q) = (%d,%d)   hashof=%s log=%s asof=%s", sp, code, idx, rs[0], rs[1], rs[2])
	}
	s3.Close()

	for _, bad := range [][][]int{{{}, {}}, {{}, {0}, {0}, {0, 1, 2}}, {{}, {0, 0}}, {{0}}} {
		if _, _, err := buildSQL(ctx, bad, 0); err == nil {
			t.Errorf("buildSQL(%v) accepted", bad)
		} else {
			t.Logf("buildSQL(%v): %v", bad, err)
		}
	}
}
