// Package c19: merge bases, ancestor specs and fast-forward checks (property C19).
package c19

import (
	"context"
	"encoding/json"
	"errors"

	"github.com/dolthub/dolt/go/libraries/doltcore/doltdb"
	"github.com/dolthub/dolt/go/libraries/doltcore/ref"
	"github.com/dolthub/dolt/go/store/datas"
	"github.com/dolthub/dolt/go/store/hash"

	"verifharness/c18"
	"verifharness/hk"
)

func init() { hk.Register("c19", Run) }

type Spec struct {
	Start  int   `json:"start"`  // the spec is "b<start>" + suffix, or "<hash of commit start>" + suffix
	Suffix []int `json:"suffix"` // bytes
	Hash   bool  `json:"hash"`   // name the start commit by its 32-character hash instead of its branch
}

type Case struct {
	H     [][]int `json:"h"`
	Salt  int     `json:"salt"`
	Pairs [][]int `json:"pairs"`
	Specs []Spec  `json:"specs"`
	// SQL: build the history through the SQL surface (dolt_commit / dolt_merge / dolt_branch on an
	// in-process engine) and additionally resolve merge bases with dolt_merge_base() and specs with
	// dolt_hashof(), dolt_log(rev) and AS OF. Shapes: one root, at most two distinct parents.
	SQL bool `json:"sql"`
}

type Obs struct {
	Rank    []int   `json:"rank"`
	Heights []int   `json:"heights"`
	Mb      []int   `json:"mb"`    // datas.FindCommonAncestor per pair: index, -1 none, -2 error
	Mbp     []int   `json:"mbp"`   // findCommonAncestorUsingParentsList per pair
	Mbd     []int   `json:"mbd"`   // doltdb.GetCommitAncestor per pair; in SQL mode: select dolt_merge_base('b<a>','b<b>')
	Ff      []int   `json:"ff"`    // DoltDB.CanFastForward(branch of first, second): see ffCode
	Specs   [][]int `json:"specs"` // [code, index]: 0 ok, 1 rejected by NewCommitSpec, 2 ErrInvalidAncestorSpec, 3 other error
	Bases   [][]int  `json:"bases"` // bytes of the base name used for each spec (branch name or commit hash)
	Errs    []string `json:"errs,omitempty"`
}

func ffCode(ok bool, err error) int {
	switch {
	case ok && err == nil:
		return 0
	case ok && errors.Is(err, doltdb.ErrUpToDate):
		return 1
	case !ok && errors.Is(err, doltdb.ErrIsAhead):
		return 2
	case !ok && err == nil:
		return 3
	case !ok && errors.Is(err, doltdb.ErrNoCommonAncestor):
		return 4
	}
	return 5
}

func Run(raw json.RawMessage) (any, error) {
	var c Case
	if err := json.Unmarshal(raw, &c); err != nil {
		return nil, err
	}
	ctx := context.Background()
	var g *c18.Graph
	var sess *sqlSession
	var err error
	if c.SQL {
		g, sess, err = buildSQL(ctx, c.H, c.Salt)
		if sess != nil {
			defer sess.Close()
		}
	} else {
		g, err = c18.Build(ctx, c.H, c.Salt, nil)
	}
	if err != nil {
		return nil, err
	}
	n := len(c.H)
	dcs := make([]*datas.Commit, n)
	cms := make([]*doltdb.Commit, n)
	o := Obs{Rank: g.Rank(), Heights: []int{}, Mb: []int{}, Mbp: []int{}, Mbd: []int{}, Ff: []int{}, Specs: [][]int{}, Bases: [][]int{}}
	for i := 0; i < n; i++ {
		dcs[i], err = g.Load(ctx, i)
		if err != nil {
			return nil, err
		}
		cms[i], err = doltdb.NewCommit(ctx, g.VRW, g.NS, dcs[i])
		if err != nil {
			return nil, err
		}
		o.Heights = append(o.Heights, int(dcs[i].Height()))
	}
	idxOf := func(h hash.Hash, ok bool, err error) int {
		if err != nil {
			o.Errs = append(o.Errs, err.Error())
			return -2
		}
		if !ok {
			return -1
		}
		if i, found := g.Idx[h]; found {
			return i
		}
		return 1000000
	}
	for _, p := range c.Pairs {
		a, b := p[0], p[1]
		o.Mb = append(o.Mb, idxOf(datas.FindCommonAncestor(ctx, dcs[a], dcs[b], g.VRW, g.VRW, g.NS, g.NS)))
		o.Mbp = append(o.Mbp, idxOf(datas.VerifFindCommonAncestorUsingParentsList(ctx, dcs[a], dcs[b], g.VRW, g.VRW, g.NS, g.NS)))
		oc, err := doltdb.GetCommitAncestor(ctx, cms[a], cms[b])
		if sess != nil {
			o.Mbd = append(o.Mbd, sess.MergeBase(a, b))
		} else if errors.Is(err, doltdb.ErrNoCommonAncestor) {
			o.Mbd = append(o.Mbd, -1)
		} else if err != nil {
			o.Mbd = append(o.Mbd, idxOf(hash.Hash{}, false, err))
		} else {
			o.Mbd = append(o.Mbd, idxOf(oc.Addr, true, nil))
		}
		ok, err := g.DDB.CanFastForward(ctx, ref.NewBranchRef(c18.BranchName(a)), cms[b])
		o.Ff = append(o.Ff, ffCode(ok, err))
	}
	for _, s := range c.Specs {
		bs := make([]byte, len(s.Suffix))
		for i, x := range s.Suffix {
			bs[i] = byte(x)
		}
		base := c18.BranchName(s.Start)
		if s.Hash {
			base = g.Addrs[s.Start].String()
		}
		bb := make([]int, len(base))
		for i := 0; i < len(base); i++ {
			bb[i] = int(base[i])
		}
		o.Bases = append(o.Bases, bb)
		str := base + string(bs)
		if sess != nil {
			// SQL mode: the observation is what dolt_hashof / dolt_log(rev) / AS OF agree on. Through SQL
			// a rejected spec and a walk that leaves the graph carry the same error text, so code 1 is
			// refined to 2 with the doltdb-level error when (and only when) SQL reported an error.
			code, idx := sess.ResolveSpec(str)
			if code == 1 {
				if cs, err := doltdb.NewCommitSpec(str); err == nil {
					if _, err := g.DDB.Resolve(ctx, cs, nil); errors.Is(err, doltdb.ErrInvalidAncestorSpec) {
						code = 2
					}
				}
			}
			o.Specs = append(o.Specs, []int{code, idx})
			continue
		}
		cs, err := doltdb.NewCommitSpec(str)
		if err != nil {
			o.Specs = append(o.Specs, []int{1, 0})
			continue
		}
		oc, err := g.DDB.Resolve(ctx, cs, nil)
		if errors.Is(err, doltdb.ErrInvalidAncestorSpec) {
			o.Specs = append(o.Specs, []int{2, 0})
			continue
		}
		if err != nil {
			o.Errs = append(o.Errs, err.Error())
			o.Specs = append(o.Specs, []int{3, 0})
			continue
		}
		if i, found := g.Idx[oc.Addr]; found {
			o.Specs = append(o.Specs, []int{0, i})
		} else {
			o.Specs = append(o.Specs, []int{3, 0})
		}
	}
	return o, nil
}
