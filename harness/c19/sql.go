package c19

// The same kind of commit DAG as c18.Build, but created through the SQL surface
// (dolt_checkout / dolt_commit / dolt_merge / dolt_branch on an in-process
// engine), and merge bases / revision specs resolved through SQL.
//
// Every commit i adds the row (i, i) to the table t, merge commits included
// (merge --no-commit, insert, commit), so the set of pks visible
// `AS OF '<spec>'` is exactly the ancestors-or-self set of the resolved commit:
// the AS OF surface identifies the commit by itself (max pk) and checks the
// whole closure.
//
// Commit 0 is the unique root: the repository's "Initialize data repository"
// commit is amended (dolt_commit --amend on a parentless commit gives a new
// parentless commit) into one that creates t and holds row 0. The original
// initial commit stays in the store, unreachable from every branch; its hash is
// kept in sqlSession.InitHash (a commit unrelated to the whole graph).

import (
	"context"
	"fmt"
	"sort"
	"strconv"
	"strings"

	"github.com/dolthub/dolt/go/libraries/doltcore/doltdb"
	"github.com/dolthub/dolt/go/libraries/doltcore/ref"
	"github.com/dolthub/dolt/go/store/datas"
	"github.com/dolthub/dolt/go/store/hash"

	"verifharness/c18"
	"verifharness/util"
)

// sqlSession is a dolt SQL session on a fresh in-memory database whose history has the shape h.
type sqlSession struct {
	Errs     []string
	InitHash string // the repository's original initial commit (not part of the graph)

	env  *util.Env
	sess *util.Session
	g    *c18.Graph
	anc  [][]int // anc[i] = sorted ancestors-or-self of commit i
}

// sqlLit renders s as a MySQL string literal.
func sqlLit(s string) string {
	var b strings.Builder
	b.WriteByte('\'')
	for i := 0; i < len(s); i++ {
		switch c := s[i]; c {
		case '\'':
			b.WriteString("''")
		case '\\':
			b.WriteString("\\\\")
		case 0:
			b.WriteString("\\0")
		case '\n':
			b.WriteString("\\n")
		case '\r':
			b.WriteString("\\r")
		case 0x1a:
			b.WriteString("\\Z")
		default:
			b.WriteByte(c)
		}
	}
	b.WriteByte('\'')
	return b.String()
}

// sqlRepresentable: the spec reaches the SQL functions byte for byte (printable ASCII only).
// Other bytes are still sent (escaped or raw) but the parser / collation layer may alter or reject them.
func sqlRepresentable(spec string) bool {
	for i := 0; i < len(spec); i++ {
		if spec[i] < 0x20 || spec[i] > 0x7e {
			return false
		}
	}
	return true
}

func firstCell(r util.Result) (string, bool) {
	if len(r.Rows) == 0 || len(r.Rows[0]) == 0 {
		return "", false
	}
	return r.Rows[0][0], true
}

func buildSQL(ctx context.Context, h [][]int, salt int) (*c18.Graph, *sqlSession, error) {
	n := len(h)
	if n == 0 {
		return nil, nil, fmt.Errorf("empty history")
	}
	for i, ps := range h {
		if (i == 0) != (len(ps) == 0) {
			return nil, nil, fmt.Errorf("commit %d: exactly commit 0 must be the root", i)
		}
		if len(ps) > 2 {
			return nil, nil, fmt.Errorf("commit %d: %d parents", i, len(ps))
		}
		if len(ps) == 2 && ps[0] == ps[1] {
			return nil, nil, fmt.Errorf("commit %d: duplicate parent", i)
		}
		for _, p := range ps {
			if p < 0 || p >= i {
				return nil, nil, fmt.Errorf("commit %d: parent %d is not an earlier commit", i, p)
			}
		}
	}
	env, err := util.NewEnv(false)
	if err != nil {
		return nil, nil, err
	}
	ok := false
	defer func() {
		if !ok {
			env.Close()
		}
	}()
	sess, err := env.NewSession()
	if err != nil {
		return nil, nil, err
	}
	s := &sqlSession{env: env, sess: sess}
	if err := sess.MustExec("set @@autocommit = 1"); err != nil {
		return nil, nil, err
	}
	if c, found := firstCell(sess.Exec("select dolt_hashof('HEAD')")); found {
		s.InitHash = strings.TrimPrefix(c, "s:")
	}

	ddb := env.DEnv.DoltDB(ctx)
	g := &c18.Graph{DDB: ddb, DB: doltdb.ExposeDatabaseFromDoltDB(ddb), VRW: ddb.ValueReadWriter(), NS: ddb.NodeStore(), Idx: map[hash.Hash]int{}}
	s.g = g

	// commitHash runs a dolt_commit / dolt_merge call and returns the hash in its first column.
	commitHash := func(q string) (hash.Hash, error) {
		r := sess.Exec(q)
		if r.Err != "" {
			return hash.Hash{}, fmt.Errorf("%s: %s", q, r.Err)
		}
		c, found := firstCell(r)
		if !found || !strings.HasPrefix(c, "s:") {
			return hash.Hash{}, fmt.Errorf("%s: no commit hash in result %v", q, r.Rows)
		}
		hh, valid := hash.MaybeParse(strings.TrimPrefix(c, "s:"))
		if !valid {
			return hash.Hash{}, fmt.Errorf("%s: result %q is not a hash", q, c)
		}
		return hh, nil
	}

	for i, ps := range h {
		msg := fmt.Sprintf("c%d-%d", i, salt)
		ins := fmt.Sprintf("insert into t values (%d, %d)", i, i)
		var addr hash.Hash
		switch len(ps) {
		case 0:
			if err := sess.MustExec("create table t (pk int primary key, v int)", ins); err != nil {
				return nil, nil, err
			}
			addr, err = commitHash(fmt.Sprintf("call dolt_commit('--amend', '-A', '-m', '%s')", msg))
		case 1:
			if err := sess.MustExec(fmt.Sprintf("call dolt_checkout('-b', 't%d', 'b%d')", i, ps[0]), ins); err != nil {
				return nil, nil, err
			}
			addr, err = commitHash(fmt.Sprintf("call dolt_commit('-A', '-m', '%s')", msg))
		case 2:
			if err := sess.MustExec(fmt.Sprintf("call dolt_checkout('-b', 't%d', 'b%d')", i, ps[0])); err != nil {
				return nil, nil, err
			}
			mq := fmt.Sprintf("call dolt_merge('--no-ff', '--no-commit', 'b%d')", ps[1])
			mr := sess.Exec(mq)
			if mr.Err != "" {
				return nil, nil, fmt.Errorf("%s: %s", mq, mr.Err)
			}
			// columns: hash, fast_forward, conflicts, message
			if len(mr.Rows) != 1 || len(mr.Rows[0]) < 3 || mr.Rows[0][1] != "i:0" || mr.Rows[0][2] != "i:0" {
				return nil, nil, fmt.Errorf("%s: unexpected result %v", mq, mr.Rows)
			}
			if err := sess.MustExec(ins); err != nil {
				return nil, nil, err
			}
			addr, err = commitHash(fmt.Sprintf("call dolt_commit('-A', '-m', '%s')", msg))
		}
		if err != nil {
			return nil, nil, fmt.Errorf("commit %d: %w", i, err)
		}
		if err := sess.MustExec(fmt.Sprintf("call dolt_branch('b%d')", i)); err != nil {
			return nil, nil, err
		}
		if _, dup := g.Idx[addr]; dup {
			return nil, nil, fmt.Errorf("commit %d: address collides with an earlier commit", i)
		}
		g.Addrs = append(g.Addrs, addr)
		g.Idx[addr] = i
	}

	// Read the graph back below SQL: branch heads and parent lists.
	for i, ps := range h {
		cm, err := ddb.ResolveCommitRef(ctx, ref.NewBranchRef(c18.BranchName(i)))
		if err != nil {
			return nil, nil, fmt.Errorf("branch b%d: %w", i, err)
		}
		hh, err := cm.HashOf()
		if err != nil {
			return nil, nil, err
		}
		if hh != g.Addrs[i] {
			return nil, nil, fmt.Errorf("branch b%d points at %s, commit %d is %s", i, hh, i, g.Addrs[i])
		}
		dc, err := datas.LoadCommitAddr(ctx, g.VRW, g.Addrs[i])
		if err != nil {
			return nil, nil, err
		}
		refs, err := datas.GetCommitParents(ctx, g.VRW, dc.NomsValue())
		if err != nil {
			return nil, nil, err
		}
		got := []int{}
		for _, r := range refs {
			idx, found := g.Idx[r.Addr()]
			if !found {
				idx = 1000000
			}
			got = append(got, idx)
		}
		same := len(got) == len(ps)
		for j := 0; same && j < len(ps); j++ {
			same = got[j] == ps[j]
		}
		if !same {
			return nil, nil, fmt.Errorf("commit %d: parents read back as %v, wanted %v", i, got, ps)
		}
		phs, err := cm.ParentHashes(ctx)
		if err != nil {
			return nil, nil, err
		}
		if len(phs) != len(ps) {
			return nil, nil, fmt.Errorf("commit %d: ParentHashes has %d entries, wanted %d", i, len(phs), len(ps))
		}
		for j, p := range ps {
			if phs[j] != g.Addrs[p] {
				return nil, nil, fmt.Errorf("commit %d: ParentHashes[%d] is not commit %d", i, j, p)
			}
		}
	}

	s.anc = make([][]int, n)
	for i, ps := range h {
		set := map[int]bool{i: true}
		for _, p := range ps {
			for _, a := range s.anc[p] {
				set[a] = true
			}
		}
		for a := range set {
			s.anc[i] = append(s.anc[i], a)
		}
		sort.Ints(s.anc[i])
	}
	ok = true
	return g, s, nil
}

// hashIdx maps a rendered hash cell to a commit index (1000000: not a commit of the graph).
func (s *sqlSession) hashIdx(cell string) (int, bool) {
	hh, valid := hash.MaybeParse(strings.TrimPrefix(cell, "s:"))
	if !valid || !strings.HasPrefix(cell, "s:") {
		return 0, false
	}
	if i, found := s.g.Idx[hh]; found {
		return i, true
	}
	return 1000000, true
}

// MergeBase runs `select dolt_merge_base('b<a>','b<b>')`: commit index, -1 when SQL returns NULL or
// the error is "no common ancestor", -2 on any other error.
func (s *sqlSession) MergeBase(a, b int) int {
	return s.MergeBaseOf(c18.BranchName(a), c18.BranchName(b))
}

// MergeBaseOf is MergeBase on arbitrary revision strings.
func (s *sqlSession) MergeBaseOf(l, r string) int {
	q := fmt.Sprintf("select dolt_merge_base(%s, %s)", sqlLit(l), sqlLit(r))
	res := s.sess.Exec(q)
	if res.Err != "" {
		if strings.Contains(res.Err, doltdb.ErrNoCommonAncestor.Error()) {
			return -1
		}
		s.Errs = append(s.Errs, q+": "+res.Err)
		return -2
	}
	c, found := firstCell(res)
	if !found {
		s.Errs = append(s.Errs, q+": no row")
		return -2
	}
	if c == "NULL" {
		return -1
	}
	i, valid := s.hashIdx(c)
	if !valid {
		s.Errs = append(s.Errs, q+": result "+c)
		return -2
	}
	return i
}

// surface outcome: code 0 (idx valid), 1 (rejected as an invalid spec), 3 (other; msg set)
type surf struct {
	code int
	idx  int
	msg  string
}

// classifyErr: the error texts with which doltdb rejects a revision string. "invalid ancestor spec"
// is doltdb.ErrInvalidAncestorSpec, which is returned both by the parser (^N with N not 1 or 2) and by
// Commit.GetAncestor when the walk leaves the graph: the SQL surfaces only show the text, so the
// codes 1 and 2 of the datas-level observation are both reported as 1 here.
func classifyErr(e string) surf {
	for _, t := range []string{
		doltdb.ErrInvalidAncestorSpec.Error(), // "invalid ancestor spec"
		"Invalid HEAD spec",                   // parseInstructions: a byte other than ^ ~ digit
		"strconv.",                            // parseInstructions: number out of range
		doltdb.ErrInvalidBranchOrHash.Error(), // NewCommitSpec: name is not a valid branch name
	} {
		if strings.Contains(e, t) {
			return surf{code: 1, msg: e}
		}
	}
	return surf{code: 3, msg: e}
}

func (s *sqlSession) hashSurface(q string) surf {
	r := s.sess.Exec(q)
	if r.Err != "" {
		return classifyErr(r.Err)
	}
	c, found := firstCell(r)
	if !found {
		return surf{code: 3, msg: "no row"}
	}
	i, valid := s.hashIdx(c)
	if !valid {
		return surf{code: 3, msg: "result " + c}
	}
	if i == 1000000 {
		return surf{code: 3, msg: "resolves outside the graph: " + c}
	}
	return surf{idx: i}
}

func (s *sqlSession) asOfSurface(q string) surf {
	r := s.sess.Exec(q)
	if r.Err != "" {
		return classifyErr(r.Err)
	}
	got := []int{}
	for _, row := range r.Rows {
		v, err := strconv.Atoi(strings.TrimPrefix(row[0], "i:"))
		if err != nil || !strings.HasPrefix(row[0], "i:") {
			return surf{code: 3, msg: "pk " + row[0]}
		}
		got = append(got, v)
	}
	if len(got) == 0 {
		return surf{code: 3, msg: "no rows"}
	}
	top := got[len(got)-1] // order by pk
	if top < 0 || top >= len(s.anc) {
		return surf{code: 3, msg: fmt.Sprintf("pks %v", got)}
	}
	want := s.anc[top]
	same := len(want) == len(got)
	for j := 0; same && j < len(got); j++ {
		same = want[j] == got[j]
	}
	if !same {
		return surf{code: 3, msg: fmt.Sprintf("pks %v are not the ancestors-or-self %v of commit %d", got, want, top)}
	}
	return surf{idx: top}
}

// ResolveSpec resolves spec through dolt_hashof, dolt_log(rev) and AS OF.
// (0, idx): all three resolve to commit idx; (1, 0): all three reject the spec as invalid (see classifyErr:
// this covers both codes 1 and 2 of the datas-level observation); (3, 0): anything else, details in s.Errs.
func (s *sqlSession) ResolveSpec(spec string) (int, int) {
	code, idx, _ := s.resolveSpecDetail(spec)
	return code, idx
}

func (s *sqlSession) resolveSpecDetail(spec string) (int, int, [3]surf) {
	lit := sqlLit(spec)
	rs := [3]surf{
		s.hashSurface("select dolt_hashof(" + lit + ")"),
		s.hashSurface("select commit_hash from dolt_log(" + lit + ") limit 1"),
		s.asOfSurface("select pk from t as of " + lit + " order by pk"),
	}
	if rs[0].code == 0 && rs[1].code == 0 && rs[2].code == 0 && rs[0].idx == rs[1].idx && rs[0].idx == rs[2].idx {
		return 0, rs[0].idx, rs
	}
	if rs[0].code == 1 && rs[1].code == 1 && rs[2].code == 1 {
		return 1, 0, rs
	}
	s.Errs = append(s.Errs, fmt.Sprintf("spec %q: hashof=%s log=%s asof=%s", spec, rs[0], rs[1], rs[2]))
	return 3, 0, rs
}

func (x surf) String() string {
	if x.code == 0 {
		return fmt.Sprintf("ok:%d", x.idx)
	}
	return fmt.Sprintf("err%d(%s)", x.code, x.msg)
}

func (s *sqlSession) Close() {
	if s.env != nil {
		s.env.Close()
		s.env = nil
	}
}
