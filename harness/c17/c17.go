// Package c17: stored (indexed) JSON documents vs in-memory JSON documents, location-key
// order, JSON three-way merge (property C17).
package c17

import (
	"context"
	"encoding/json"
	"fmt"
	"io"
	"math"
	"sort"

	"github.com/dolthub/go-mysql-server/sql"
	"github.com/dolthub/go-mysql-server/sql/types"

	"github.com/dolthub/dolt/go/libraries/doltcore/merge"
	"github.com/dolthub/dolt/go/store/prolly/tree"

	"verifharness/hk"
	"verifharness/util"
)

func init() { hk.Register("c17", Run) }

type Op struct {
	M    int             `json:"m"` // 0 set 1 insert 2 replace 3 remove 4 array_append 5 array_insert 6 lookup
	Path string          `json:"path"`
	Val  json.RawMessage `json:"val"`
}

type Case struct {
	Kind  string          `json:"kind"` // ops | merge | loc | sqlmerge
	Doc   json.RawMessage `json:"doc"`
	Ops   []Op            `json:"ops"`
	Base  json.RawMessage `json:"base"`
	Left  json.RawMessage `json:"left"`
	Right json.RawMessage `json:"right"`
	P     string          `json:"p"`
	Q     string          `json:"q"`
}

// ---- canonical JSON value rendering: ["n"] ["b",true] ["i",5] ["s",[bytes]] ["a",[..]] ["o",[[[keybytes],v]..]] ----
func bytesOf(s string) []int {
	out := make([]int, len(s))
	for i := 0; i < len(s); i++ {
		out[i] = int(s[i])
	}
	return out
}

func canon(v interface{}) (interface{}, error) {
	switch x := v.(type) {
	case nil:
		return []interface{}{"n"}, nil
	case bool:
		return []interface{}{"b", x}, nil
	case float64:
		if x != math.Trunc(x) || math.Abs(x) > 9e15 {
			return nil, fmt.Errorf("non-integral number %v", x)
		}
		return []interface{}{"i", int64(x)}, nil
	case int64:
		return []interface{}{"i", x}, nil
	case int:
		return []interface{}{"i", int64(x)}, nil
	case json.Number:
		n, err := x.Int64()
		if err != nil {
			return nil, err
		}
		return []interface{}{"i", n}, nil
	case string:
		return []interface{}{"s", bytesOf(x)}, nil
	case []interface{}:
		l := make([]interface{}, 0, len(x))
		for _, e := range x {
			c, err := canon(e)
			if err != nil {
				return nil, err
			}
			l = append(l, c)
		}
		return []interface{}{"a", l}, nil
	case map[string]interface{}:
		keys := make([]string, 0, len(x))
		for k := range x {
			keys = append(keys, k)
		}
		sort.Strings(keys)
		l := make([]interface{}, 0, len(x))
		for _, k := range keys {
			c, err := canon(x[k])
			if err != nil {
				return nil, err
			}
			l = append(l, []interface{}{bytesOf(k), c})
		}
		return []interface{}{"o", l}, nil
	}
	return nil, fmt.Errorf("unexpected JSON value type %T", v)
}

func canonWrapper(ctx context.Context, w sql.JSONWrapper) (interface{}, error) {
	// always go through the serialized text so that lazily parsed / indexed documents are read back
	b, err := types.MarshallJson(ctx, w)
	if err != nil {
		return nil, err
	}
	var v interface{}
	if err := json.Unmarshal(b, &v); err != nil {
		return nil, fmt.Errorf("result is not valid JSON text: %v: %q", err, trunc(string(b)))
	}
	return canon(v)
}

func trunc(s string) string {
	if len(s) > 200 {
		return s[:200] + "..."
	}
	return s
}

func parse(raw json.RawMessage) (interface{}, error) {
	var v interface{}
	err := json.Unmarshal(raw, &v)
	return v, err
}

func indexed(ctx context.Context, ns tree.NodeStore, v interface{}) (tree.IndexedJsonDocument, error) {
	root, err := tree.SerializeJsonToAddr(ctx, ns, types.JSONDocument{Val: v})
	if err != nil {
		return tree.IndexedJsonDocument{}, err
	}
	return tree.NewIndexedJsonDocument(root, ns), nil
}

type Res struct {
	Err   bool        `json:"err"`
	Msg   string      `json:"msg,omitempty"`
	Chg   bool        `json:"chg"`
	Found bool        `json:"found"` // lookup only
	Doc   interface{} `json:"doc"`
}

func apply(ctx context.Context, d types.MutableJSON, op Op, val sql.JSONWrapper) (sql.JSONWrapper, bool, bool, error) {
	var r types.MutableJSON
	var chg bool
	var err error
	switch op.M {
	case 0:
		r, chg, err = d.Set(ctx, op.Path, val)
	case 1:
		r, chg, err = d.Insert(ctx, op.Path, val)
	case 2:
		r, chg, err = d.Replace(ctx, op.Path, val)
	case 3:
		r, chg, err = d.Remove(ctx, op.Path)
	case 4:
		r, chg, err = d.ArrayAppend(ctx, op.Path, val)
	case 5:
		r, chg, err = d.ArrayInsert(ctx, op.Path, val)
	case 6:
		w, e := types.LookupJSONValue(ctx, d, op.Path)
		if e != nil {
			return nil, false, false, e
		}
		if w == nil {
			return nil, false, false, nil
		}
		return w, false, true, nil
	default:
		return nil, false, false, fmt.Errorf("bad mode")
	}
	if err != nil {
		return nil, false, false, err
	}
	return r, chg, true, nil
}

func mkRes(ctx context.Context, w sql.JSONWrapper, chg, found bool, err error) Res {
	if err != nil {
		return Res{Err: true, Msg: trunc(err.Error()), Doc: []interface{}{"n"}}
	}
	if w == nil {
		return Res{Found: false, Chg: chg, Doc: []interface{}{"n"}}
	}
	c, cerr := canonWrapper(ctx, w)
	if cerr != nil {
		return Res{Err: true, Msg: "CANON: " + trunc(cerr.Error()), Doc: []interface{}{"n"}}
	}
	return Res{Chg: chg, Found: found, Doc: c}
}

type Step struct {
	S Res `json:"s"` // stored (IndexedJsonDocument)
	M Res `json:"m"` // in-memory (types.JSONDocument) on the same input
}

func runOps(c Case) (any, error) {
	ctx := sql.NewEmptyContext()
	ns := tree.NewTestNodeStore()
	v, err := parse(c.Doc)
	if err != nil {
		return nil, err
	}
	cur, err := indexed(ctx, ns, v)
	if err != nil {
		return nil, err
	}
	steps := []Step{}
	chunks := 0
	for _, op := range c.Ops {
		var val sql.JSONWrapper
		if op.M != 3 && op.M != 6 {
			pv, err := parse(op.Val)
			if err != nil {
				return nil, err
			}
			val = types.JSONDocument{Val: pv}
		}
		// in-memory reference on a private copy of the same input document
		b, err := cur.GetBytes(ctx)
		if err != nil {
			return nil, err
		}
		if n := len(b) / 4096; n > chunks {
			chunks = n
		}
		var memv interface{}
		if err := json.Unmarshal(b, &memv); err != nil {
			return nil, err
		}
		var valm sql.JSONWrapper
		if val != nil {
			pv, _ := parse(op.Val)
			valm = types.JSONDocument{Val: pv}
		}
		mw, mchg, mfound, merr := apply(ctx, types.JSONDocument{Val: memv}, op, valm)
		sw, schg, sfound, serr := apply(ctx, cur, op, val)
		st := Step{S: mkRes(ctx, sw, schg, sfound, serr), M: mkRes(ctx, mw, mchg, mfound, merr)}
		steps = append(steps, st)
		if serr == nil && sw != nil && op.M != 6 && !st.S.Err {
			// continue the chain from the stored result, re-indexed
			root, err := tree.SerializeJsonToAddr(ctx, ns, sw)
			if err != nil {
				return nil, err
			}
			cur = tree.NewIndexedJsonDocument(root, ns)
		}
	}
	return map[string]interface{}{"steps": steps, "kb": chunks}, nil
}

type MRes struct {
	Err      bool        `json:"err"`
	Msg      string      `json:"msg,omitempty"`
	Conflict bool        `json:"conflict"`
	Doc      interface{} `json:"doc"`
}

type DiffKey struct {
	Key []int `json:"key"`
	Ty  int   `json:"ty"` // 0 added 1 modified 2 removed
}

func diffKeys(ctx context.Context, from, to sql.JSONWrapper) ([]DiffKey, string) {
	d, err := tree.NewJsonDiffer(ctx, from, to)
	if err != nil {
		return nil, err.Error()
	}
	out := []DiffKey{}
	for {
		df, err := d.Next(ctx)
		if err == io.EOF {
			return out, ""
		}
		if err != nil {
			return out, err.Error()
		}
		ty := 1
		switch df.Type {
		case tree.AddedDiff:
			ty = 0
		case tree.RemovedDiff:
			ty = 2
		}
		k := make([]int, len(df.Key))
		for i, b := range df.Key {
			k[i] = int(b)
		}
		out = append(out, DiffKey{Key: k, Ty: ty})
		if len(out) > 10000 {
			return out, "too many diffs"
		}
	}
}

func doMerge(ctx context.Context, ns tree.NodeStore, b, l, r sql.JSONWrapper) MRes {
	res, conflict, err := merge.MergeJSON(ctx, ns, b, l, r)
	if err != nil {
		return MRes{Err: true, Msg: trunc(err.Error()), Doc: []interface{}{"n"}}
	}
	if conflict {
		return MRes{Conflict: true, Doc: []interface{}{"n"}}
	}
	c, cerr := canonWrapper(ctx, res)
	if cerr != nil {
		return MRes{Err: true, Msg: "CANON: " + trunc(cerr.Error()), Doc: []interface{}{"n"}}
	}
	return MRes{Doc: c}
}

func runMerge(c Case) (any, error) {
	ctx := sql.NewEmptyContext()
	ns := tree.NewTestNodeStore()
	var vs [3]interface{}
	var idx [3]sql.JSONWrapper
	var mem [3]sql.JSONWrapper
	for i, raw := range []json.RawMessage{c.Base, c.Left, c.Right} {
		v, err := parse(raw)
		if err != nil {
			return nil, err
		}
		vs[i] = v
		d, err := indexed(ctx, ns, v)
		if err != nil {
			return nil, err
		}
		idx[i] = d
		v2, _ := parse(raw)
		mem[i] = types.JSONDocument{Val: v2}
	}
	out := map[string]interface{}{}
	lk, e1 := diffKeys(ctx, idx[0], idx[1])
	rk, e2 := diffKeys(ctx, idx[0], idx[2])
	mlk, e3 := diffKeys(ctx, mem[0], mem[1])
	mrk, e4 := diffKeys(ctx, mem[0], mem[2])
	out["ilkeys"], out["irkeys"], out["mlkeys"], out["mrkeys"] = lk, rk, mlk, mrk
	out["differr"] = e1 + e2 + e3 + e4
	out["idx"] = doMerge(ctx, ns, idx[0], idx[1], idx[2])
	// fresh in-memory values: the in-memory merge path serializes left and edits an indexed copy
	for i, raw := range []json.RawMessage{c.Base, c.Left, c.Right} {
		v2, _ := parse(raw)
		mem[i] = types.JSONDocument{Val: v2}
	}
	out["mem"] = doMerge(ctx, ns, mem[0], mem[1], mem[2])
	return out, nil
}

func runLoc(c Case) (any, error) {
	kp, err1 := tree.VerifJsonLocationKey(c.P)
	kq, err2 := tree.VerifJsonLocationKey(c.Q)
	if err1 != nil || err2 != nil {
		return map[string]interface{}{"err": true}, nil
	}
	cmp, err := tree.VerifCompareJsonLocationKeys(kp, kq)
	if err != nil {
		return map[string]interface{}{"err": true}, nil
	}
	toInts := func(b []byte) []int {
		o := make([]int, len(b))
		for i, x := range b {
			o[i] = int(x)
		}
		return o
	}
	return map[string]interface{}{"err": false, "kp": toInts(kp), "kq": toInts(kq), "cmp": cmp}, nil
}

// runSQLMerge: a row merge with a JSON column through dolt_merge.
func runSQLMerge(c Case) (any, error) {
	env, err := util.NewEnv(false)
	if err != nil {
		return nil, err
	}
	defer env.Close()
	s, err := env.NewSession()
	if err != nil {
		return nil, err
	}
	q := func(raw json.RawMessage) string {
		b := []byte(raw)
		out := make([]byte, 0, len(b)+2)
		for _, ch := range b {
			if ch == '\'' || ch == '\\' {
				out = append(out, '\\')
			}
			out = append(out, ch)
		}
		return "'" + string(out) + "'"
	}
	if err := s.MustExec(
		"create table t (pk int primary key, j json)",
		"insert into t values (1, "+q(c.Base)+")",
		"call dolt_commit('-Am','base')",
		"call dolt_checkout('-b','other')",
		"update t set j = "+q(c.Right)+" where pk = 1",
		"call dolt_commit('--allow-empty','-Am','right')",
		"call dolt_checkout('main')",
		"update t set j = "+q(c.Left)+" where pk = 1",
		"call dolt_commit('--allow-empty','-Am','left')",
		"set @@dolt_allow_commit_conflicts = 1",
		"set @@autocommit = 0",
	); err != nil {
		return nil, err
	}
	mr := s.Exec("call dolt_merge('other')")
	out := MRes{Doc: []interface{}{"n"}}
	if mr.Err != "" {
		out.Err = true
		out.Msg = trunc(mr.Err)
		return map[string]interface{}{"sql": out}, nil
	}
	cr := s.Exec("select count(*) from dolt_conflicts_t")
	if cr.Err == "" && len(cr.Rows) == 1 && cr.Rows[0][0] != "i:0" {
		out.Conflict = true
		return map[string]interface{}{"sql": out}, nil
	}
	rr := s.Exec("select cast(j as char) from t where pk = 1")
	if rr.Err != "" || len(rr.Rows) != 1 {
		out.Err = true
		out.Msg = "read back: " + rr.Err
		return map[string]interface{}{"sql": out}, nil
	}
	txt := rr.Rows[0][0]
	if len(txt) > 2 && txt[:2] == "s:" {
		txt = txt[2:]
	}
	var v interface{}
	if err := json.Unmarshal([]byte(txt), &v); err != nil {
		out.Err = true
		out.Msg = "merged value is not JSON: " + trunc(txt)
		return map[string]interface{}{"sql": out}, nil
	}
	cv, err := canon(v)
	if err != nil {
		return nil, err
	}
	out.Doc = cv
	return map[string]interface{}{"sql": out}, nil
}

func Run(raw json.RawMessage) (any, error) {
	var c Case
	if err := json.Unmarshal(raw, &c); err != nil {
		return nil, err
	}
	switch c.Kind {
	case "ops":
		return runOps(c)
	case "merge":
		return runMerge(c)
	case "loc":
		return runLoc(c)
	case "sqlmerge":
		return runSQLMerge(c)
	}
	return nil, fmt.Errorf("unknown kind %q", c.Kind)
}
