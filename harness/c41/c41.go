// Package c41: single writer per database directory; read-only opens are pure
// (property C41).  One case = directory preparation + a schedule of
// open/load/write/close steps over 2-3 REAL OS processes.  The processes are
// `os.Args[0] c41child` children driven over stdin/stdout (one JSON command
// per line); they open the directory through dbfactory.FileFactory.CreateDB
// with the same parameters dolt uses (journal, fail_on_journal_lock_timeout,
// skip_journal_lock_timeout, disable_singleton_cache), so the real fslock /
// flock(2) is exercised across processes.
package c41

import (
	"bufio"
	"bytes"
	"context"
	"crypto/sha256"
	"encoding/hex"
	"encoding/json"
	"errors"
	"fmt"
	"io"
	"net/url"
	"os"
	"os/exec"
	"path/filepath"
	"regexp"
	"runtime/debug"
	"sort"
	"strings"
	"sync"
	"time"

	"github.com/dolthub/dolt/go/libraries/doltcore/dbfactory"
	"github.com/dolthub/dolt/go/store/chunks"
	"github.com/dolthub/dolt/go/store/datas"
	"github.com/dolthub/dolt/go/store/hash"
	"github.com/dolthub/dolt/go/store/nbs"
	"github.com/dolthub/dolt/go/store/types"

	"verifharness/hk"
)

func init() {
	hk.Register("c41", Run)
	hk.Register("c41child", runChildRegistered)
	// The child is not a JSONL case runner: it is started as `<binary> c41child`
	// and speaks its own protocol. hk.Main would wrap it in the case loop, so
	// intercept before main() runs.
	if len(os.Args) >= 2 && os.Args[1] == "c41child" {
		Child()
		os.Exit(0)
	}
}

func runChildRegistered(json.RawMessage) (any, error) {
	return nil, errors.New("c41child is a process entry point, not a case runner")
}

// ---------------------------------------------------------------------------
// result codes (shared with Corr.v)
// ---------------------------------------------------------------------------
const (
	cOK          = 0
	cRW          = 1
	cRO          = 2
	cErrLocked   = 3
	cErrReadOnly = 4
	cErrLoad     = 5
	cPanic       = 6
	cErrOther    = 7
	cHang        = 8
	cBadStep     = 9
)

// ---------------------------------------------------------------------------
// child process
// ---------------------------------------------------------------------------
type cmd struct {
	Op   string `json:"op"` // open | load | write | close | quit
	Dir  string `json:"dir,omitempty"`
	Mode string `json:"mode,omitempty"` // failfast | fallback
	Skip bool   `json:"skip,omitempty"` // skip_journal_lock_timeout
	Data string `json:"data,omitempty"` // chunk payload for write
}

type reply struct {
	Code  int    `json:"code"`
	Root  string `json:"root,omitempty"`
	Msg   string `json:"msg,omitempty"`
	Panic string `json:"panic,omitempty"`
}

type childState struct {
	ddb datas.Database
	cs  chunks.ChunkStore
}

func chunkFor(data string) chunks.Chunk { return chunks.NewChunk([]byte(data)) }

func noAddrs(chunks.Chunk) chunks.InsertAddrsCb {
	return func(context.Context, hash.HashSet, chunks.PendingRefExists) error { return nil }
}

func classify(err error) int {
	switch {
	case err == nil:
		return cOK
	case errors.Is(err, nbs.ErrDatabaseLocked):
		return cErrLocked
	case errors.Is(err, nbs.VerifC41ErrReadOnlyManifest):
		return cErrReadOnly
	default:
		return cErrOther
	}
}

func (st *childState) exec(c cmd) (r reply) {
	defer func() {
		if p := recover(); p != nil {
			r = reply{Code: cPanic, Panic: fmt.Sprintf("%v\n%s", p, debug.Stack())}
		}
	}()
	ctx := context.Background()
	switch c.Op {
	case "open":
		if st.ddb != nil {
			return reply{Code: cBadStep, Msg: "already open"}
		}
		u, err := url.Parse("file://" + filepath.ToSlash(c.Dir))
		if err != nil {
			return reply{Code: cErrOther, Msg: err.Error()}
		}
		params := map[string]interface{}{
			dbfactory.ChunkJournalParam:          struct{}{},
			dbfactory.DisableSingletonCacheParam: struct{}{},
		}
		if c.Mode == "failfast" {
			params[dbfactory.FailOnJournalLockTimeoutParam] = struct{}{}
		}
		if c.Skip {
			params[dbfactory.SkipJournalLockTimeoutParam] = struct{}{}
		}
		ddb, _, _, err := dbfactory.FileFactory{}.CreateDB(ctx, types.Format_DOLT, u, params)
		if err != nil {
			return reply{Code: classify(err), Msg: err.Error()}
		}
		st.ddb = ddb
		st.cs = datas.ChunkStoreFromDatabase(ddb)
		switch st.cs.AccessMode() {
		case chunks.ExclusiveAccessMode_ReadOnly:
			return reply{Code: cRO}
		case chunks.ExclusiveAccessMode_Exclusive:
			return reply{Code: cRW}
		default:
			return reply{Code: cErrOther, Msg: "unexpected access mode"}
		}
	case "load":
		if st.ddb == nil {
			return reply{Code: cBadStep, Msg: "not open"}
		}
		root, err := st.cs.Root(ctx)
		if err != nil {
			return reply{Code: cErrLoad, Msg: err.Error()}
		}
		return reply{Code: cOK, Root: root.String()}
	case "write":
		if st.ddb == nil {
			return reply{Code: cBadStep, Msg: "not open"}
		}
		last, err := st.cs.Root(ctx) // first access loads the store (ensureLoad)
		if err != nil {
			return reply{Code: cErrLoad, Msg: err.Error()}
		}
		ch := chunkFor(c.Data)
		if err = st.cs.Put(ctx, ch, noAddrs); err != nil {
			return reply{Code: classify(err), Msg: "put: " + err.Error()}
		}
		ok, err := st.cs.Commit(ctx, ch.Hash(), last)
		if err != nil {
			return reply{Code: classify(err), Msg: "commit: " + err.Error()}
		}
		if !ok {
			return reply{Code: cErrOther, Msg: "commit: optimistic lock failed"}
		}
		root, err := st.cs.Root(ctx)
		if err != nil {
			return reply{Code: cErrOther, Msg: err.Error()}
		}
		return reply{Code: cOK, Root: root.String()}
	case "close":
		if st.ddb == nil {
			return reply{Code: cBadStep, Msg: "not open"}
		}
		err := st.ddb.Close()
		st.ddb, st.cs = nil, nil
		if err != nil {
			return reply{Code: cErrOther, Msg: err.Error()}
		}
		return reply{Code: cOK}
	}
	return reply{Code: cBadStep, Msg: "unknown op " + c.Op}
}

// Child is the entry point of `h_c41 c41child`.
func Child() {
	in := bufio.NewReaderSize(os.Stdin, 1<<16)
	out := json.NewEncoder(os.Stdout)
	st := &childState{}
	for {
		line, err := in.ReadBytes('\n')
		if len(bytes.TrimSpace(line)) > 0 {
			var c cmd
			if e := json.Unmarshal(line, &c); e != nil {
				_ = out.Encode(reply{Code: cBadStep, Msg: e.Error()})
				continue
			}
			if c.Op == "quit" {
				if st.ddb != nil {
					_ = st.ddb.Close()
				}
				_ = out.Encode(reply{Code: cOK})
				return
			}
			_ = out.Encode(st.exec(c))
		}
		if err != nil {
			if st.ddb != nil {
				_ = st.ddb.Close()
			}
			return
		}
	}
}

// ---------------------------------------------------------------------------
// parent side: child handles
// ---------------------------------------------------------------------------
type child struct {
	cmd     *exec.Cmd
	stdin   io.WriteCloser
	lines   chan []byte
	stderr  *bytes.Buffer
	dead    bool
	straceF string
}

func spawn(strace bool) (*child, error) {
	c := &child{stderr: &bytes.Buffer{}}
	if strace {
		f, err := os.CreateTemp("", "c41-strace-*.txt")
		if err != nil {
			return nil, err
		}
		f.Close()
		c.straceF = f.Name()
		c.cmd = exec.Command("strace", "-f", "-y", "-s", "0", "-o", c.straceF,
			"-e", "trace=openat,open,creat,pwrite64,write,writev,ftruncate,truncate,rename,renameat,renameat2,unlink,unlinkat,mkdir,mkdirat,link,linkat,symlink,symlinkat,fallocate,utimensat,fchmod,fchmodat,chmod",
			os.Args[0], "c41child")
	} else {
		c.cmd = exec.Command(os.Args[0], "c41child")
	}
	c.cmd.Stderr = c.stderr
	var err error
	if c.stdin, err = c.cmd.StdinPipe(); err != nil {
		return nil, err
	}
	so, err := c.cmd.StdoutPipe()
	if err != nil {
		return nil, err
	}
	if err = c.cmd.Start(); err != nil {
		return nil, err
	}
	c.lines = make(chan []byte, 4)
	go func() {
		rd := bufio.NewReaderSize(so, 1<<16)
		for {
			l, e := rd.ReadBytes('\n')
			if len(l) > 0 && l[0] == '{' {
				c.lines <- l
			}
			if e != nil {
				close(c.lines)
				return
			}
		}
	}()
	return c, nil
}

func (c *child) kill() {
	if c.dead {
		return
	}
	c.dead = true
	_ = c.stdin.Close()
	done := make(chan struct{})
	go func() { _ = c.cmd.Wait(); close(done) }()
	select {
	case <-done:
	case <-time.After(3 * time.Second):
		_ = c.cmd.Process.Kill()
		<-done
	}
}

func (c *child) send(m cmd, timeout time.Duration) reply {
	if c.dead {
		return reply{Code: cHang, Msg: "child is gone"}
	}
	b, _ := json.Marshal(m)
	if _, err := c.stdin.Write(append(b, '\n')); err != nil {
		c.kill()
		return reply{Code: cPanic, Panic: "child died (write): " + tail(c.stderr.String())}
	}
	select {
	case l, ok := <-c.lines:
		if !ok {
			c.kill()
			// a Go panic outside our recover (other goroutine) or os.Exit ends up here
			return reply{Code: cPanic, Panic: "child died: " + tail(c.stderr.String())}
		}
		var r reply
		if err := json.Unmarshal(l, &r); err != nil {
			return reply{Code: cErrOther, Msg: "bad reply: " + string(l)}
		}
		return r
	case <-time.After(timeout):
		_ = c.cmd.Process.Kill()
		c.kill()
		return reply{Code: cHang, Msg: "no reply within " + timeout.String()}
	}
}

func tail(s string) string {
	if len(s) > 1500 {
		return s[len(s)-1500:]
	}
	return s
}

var (
	poolMu sync.Mutex
	pool   []*child
)

func pooled(i int) (*child, error) {
	for len(pool) <= i {
		pool = append(pool, nil)
	}
	if pool[i] == nil || pool[i].dead {
		c, err := spawn(false)
		if err != nil {
			return nil, err
		}
		pool[i] = c
	}
	return pool[i], nil
}

// ---------------------------------------------------------------------------
// directory snapshots
// ---------------------------------------------------------------------------
type fent struct {
	Size  int64
	Sum   string
	Mtime int64
	Dir   bool
}

func snapshot(dir string) (map[string]fent, error) {
	out := map[string]fent{}
	err := filepath.Walk(dir, func(p string, info os.FileInfo, err error) error {
		if err != nil {
			return err
		}
		rel, _ := filepath.Rel(dir, p)
		if rel == "." {
			return nil
		}
		e := fent{Size: info.Size(), Mtime: info.ModTime().UnixNano(), Dir: info.IsDir()}
		if info.Mode().IsRegular() {
			f, err := os.Open(p)
			if err != nil {
				return err
			}
			h := sha256.New()
			_, err = io.Copy(h, f)
			f.Close()
			if err != nil {
				return err
			}
			e.Sum = hex.EncodeToString(h.Sum(nil))
		} else if info.IsDir() {
			e.Size = 0
			e.Mtime = 0 // directory mtimes change with temp files of the writer; entries are compared instead
		}
		out[rel] = e
		return nil
	})
	return out, err
}

const (
	mMan = 1 << iota
	mJournal
	mIdx
	mLock
	mOther
)

func classBit(rel string) int {
	switch rel {
	case nbs.VerifC41ManifestFileName:
		return mMan
	case nbs.VerifC41JournalFileName:
		return mJournal
	case nbs.VerifC41JournalIndexFileName:
		return mIdx
	case nbs.VerifC41LockFileName:
		return mLock
	}
	return mOther
}

// diff returns the content-change mask (existence, size, sha256) and whether the
// directory is bit-for-bit and mtime-for-mtime identical.
func diff(a, b map[string]fent) (mask int, pure bool, what []string) {
	pure = true
	names := map[string]bool{}
	for k := range a {
		names[k] = true
	}
	for k := range b {
		names[k] = true
	}
	keys := make([]string, 0, len(names))
	for k := range names {
		keys = append(keys, k)
	}
	sort.Strings(keys)
	for _, k := range keys {
		x, okx := a[k]
		y, oky := b[k]
		if okx != oky || x.Size != y.Size || x.Sum != y.Sum || x.Dir != y.Dir {
			mask |= classBit(k)
			pure = false
			what = append(what, k+":content")
		} else if x.Mtime != y.Mtime {
			pure = false
			what = append(what, k+":mtime")
		}
	}
	return
}

// ---------------------------------------------------------------------------
// templates (built once per harness process through the real code, in-process)
// ---------------------------------------------------------------------------
func dataFor(id int) string { return fmt.Sprintf("c41-chunk-%d", id) }

type tmpl struct {
	dir      string            // where it was built (removed once loaded into memory)
	files    map[string][]byte // final state: relative path -> content
	dirs     []string          // relative paths of sub-directories
	idxA     []byte // journal.idx as of the end of session A (stale index)
	manA     []byte // manifest as of the end of session A (stale manifest)
	journalA int64  // journal size at the end of session A
}

var (
	tmplMu sync.Mutex
	tmpls  = map[string]*tmpl{}
	tmplRt string
)

func inproc(dir string, f func(st *childState) error) error {
	st := &childState{}
	if r := st.exec(cmd{Op: "open", Dir: dir, Mode: "failfast", Skip: true}); r.Code != cRW {
		return fmt.Errorf("template open: %+v", r)
	}
	err := f(st)
	if r := st.exec(cmd{Op: "close"}); r.Code != cOK && err == nil {
		err = fmt.Errorf("template close: %+v", r)
	}
	return err
}

func writeIDs(st *childState, ids ...int) error {
	for _, id := range ids {
		if r := st.exec(cmd{Op: "write", Data: dataFor(id)}); r.Code != cOK {
			return fmt.Errorf("template write %d: %+v", id, r)
		}
	}
	return nil
}

func getTemplate(kind string) (*tmpl, error) {
	tmplMu.Lock()
	defer tmplMu.Unlock()
	if t, ok := tmpls[kind]; ok {
		return t, nil
	}
	if tmplRt == "" {
		d, err := os.MkdirTemp("", "c41-tmpl-")
		if err != nil {
			return nil, err
		}
		tmplRt = d
	}
	dir := filepath.Join(tmplRt, kind)
	if err := os.MkdirAll(dir, 0o777); err != nil {
		return nil, err
	}
	t := &tmpl{dir: dir}
	var err error
	switch kind {
	case "small":
		// session A: commits 1,2 ; session B: commit 3
		err = inproc(dir, func(st *childState) error { return writeIDs(st, 1, 2) })
	case "big":
		// session A: more than journalIndexDefaultMaxNovel filler chunks + chunk 1 in ONE commit
		// (seals one index batch), session B: commit 2
		err = inproc(dir, func(st *childState) error {
			ctx := context.Background()
			if _, e := st.cs.Root(ctx); e != nil {
				return e
			}
			for i := 0; i < nbs.VerifC41IndexMaxNovel+6; i++ {
				if e := st.cs.Put(ctx, chunkFor(fmt.Sprintf("c41-fill-%d", i)), noAddrs); e != nil {
					return e
				}
			}
			return writeIDs(st, 1)
		})
	default:
		return nil, fmt.Errorf("unknown template %q", kind)
	}
	if err != nil {
		return nil, err
	}
	if t.idxA, err = os.ReadFile(filepath.Join(dir, nbs.VerifC41JournalIndexFileName)); err != nil {
		return nil, err
	}
	if t.manA, err = os.ReadFile(filepath.Join(dir, nbs.VerifC41ManifestFileName)); err != nil {
		return nil, err
	}
	fi, err := os.Stat(filepath.Join(dir, nbs.VerifC41JournalFileName))
	if err != nil {
		return nil, err
	}
	t.journalA = fi.Size()
	switch kind {
	case "small":
		err = inproc(dir, func(st *childState) error { return writeIDs(st, 3) })
	case "big":
		err = inproc(dir, func(st *childState) error { return writeIDs(st, 2) })
	}
	if err != nil {
		return nil, err
	}
	// keep the template in memory and leave nothing behind in /tmp
	t.files = map[string][]byte{}
	err = filepath.Walk(dir, func(p string, info os.FileInfo, err error) error {
		if err != nil {
			return err
		}
		rel, _ := filepath.Rel(dir, p)
		if rel == "." {
			return nil
		}
		if info.IsDir() {
			t.dirs = append(t.dirs, rel)
			return nil
		}
		b, err := os.ReadFile(p)
		if err != nil {
			return err
		}
		t.files[rel] = b
		return nil
	})
	if err != nil {
		return nil, err
	}
	_ = os.RemoveAll(dir)
	if ents, e := os.ReadDir(tmplRt); e == nil && len(ents) == 0 {
		_ = os.Remove(tmplRt)
		tmplRt = ""
	}
	tmpls[kind] = t
	return t, nil
}

func (t *tmpl) materialise(dst string) error {
	for _, d := range t.dirs {
		if err := os.MkdirAll(filepath.Join(dst, d), 0o777); err != nil {
			return err
		}
	}
	for rel, b := range t.files {
		if err := os.WriteFile(filepath.Join(dst, rel), b, 0o666); err != nil {
			return err
		}
	}
	return nil
}

// ---------------------------------------------------------------------------
// case
// ---------------------------------------------------------------------------
type Prep struct {
	Tmpl string `json:"tmpl"` // small | big
	Tail string `json:"tail"` // none | short | garbage | zeros | partial | loss
	Idx  string `json:"idx"`  // fresh | missing | stale | empty | cut | cutmeta | crc | badtag
	Man  string `json:"man"`  // fresh | stale
	Lock string `json:"lock"` // present | missing
}

type Step struct {
	P    int    `json:"p"`
	Op   string `json:"op"`   // open | load | write | close
	Mode string `json:"mode"` // failfast | fallback   (open)
	Skip bool   `json:"skip"` // skip lock timeout      (open)
	ID   int    `json:"id"`   // chunk id               (write)
}

type Case struct {
	Prep   Prep   `json:"prep"`
	Steps  []Step `json:"steps"`
	NProc  int    `json:"nproc"`
	Strace int    `json:"strace"` // index of the process to run under strace, -1 = none
}

type StepObs struct {
	Code int      `json:"code"`
	Root int      `json:"root"`
	Mask int      `json:"mask"`
	Pure bool     `json:"pure"`
	Msg  string   `json:"msg,omitempty"`
	What []string `json:"what,omitempty"`
}

type Obs struct {
	Steps        []StepObs `json:"steps"`
	StraceRan    bool      `json:"strace_ran"`
	StraceWrites int       `json:"strace_writes"`
	StraceSeen   int       `json:"strace_seen"` // traced calls that mention the directory at all (shows the trace is live)
	StraceLines  []string  `json:"strace_lines,omitempty"`
	Panics       []string  `json:"panics,omitempty"`
}

func applyPrep(dir string, p Prep, t *tmpl) error {
	jp := filepath.Join(dir, nbs.VerifC41JournalFileName)
	ip := filepath.Join(dir, nbs.VerifC41JournalIndexFileName)
	mp := filepath.Join(dir, nbs.VerifC41ManifestFileName)
	appendTo := func(path string, b []byte) error {
		f, err := os.OpenFile(path, os.O_WRONLY|os.O_APPEND, 0o666)
		if err != nil {
			return err
		}
		defer f.Close()
		_, err = f.Write(b)
		return err
	}
	jb, err := os.ReadFile(jp)
	if err != nil {
		return err
	}
	rsz := nbs.VerifC41RootHashRecordSize()
	lastRoot := jb[len(jb)-rsz:] // a cleanly closed journal ends with a root hash record
	switch p.Tail {
	case "", "none":
	case "short": // fewer than 4 bytes: not even a length field
		err = appendTo(jp, []byte{0x00, 0x00, 0x01})
	case "garbage": // a length field beyond the maximum record size, then noise
		err = appendTo(jp, []byte{0xff, 0xff, 0xff, 0xff, 0xde, 0xad, 0xbe, 0xef, 0x01, 0x02, 0x03, 0x04, 0x05})
	case "zeros": // historical zero padding
		err = appendTo(jp, make([]byte, 64))
	case "partial": // a torn record: the first half of a valid root hash record
		err = appendTo(jp, lastRoot[:rsz/2])
	case "badcrc": // a full-length record whose checksum does not match
		b := append([]byte{}, lastRoot...)
		b[len(b)-1] ^= 0x5a
		err = appendTo(jp, b)
	case "loss": // noise followed by a valid root record and another valid record: possible data loss
		b := []byte{0xff, 0xff, 0xff, 0xff, 0x11, 0x22, 0x33}
		b = append(b, lastRoot...)
		b = append(b, lastRoot...)
		err = appendTo(jp, b)
	default:
		return fmt.Errorf("unknown tail %q", p.Tail)
	}
	if err != nil {
		return err
	}
	ib, err := os.ReadFile(ip)
	if err != nil {
		return err
	}
	lsz := nbs.VerifC41IndexLookupRecSize
	switch p.Idx {
	case "", "fresh":
	case "missing":
		err = os.Remove(ip)
	case "stale":
		err = os.WriteFile(ip, t.idxA, 0o666)
	case "empty":
		err = os.WriteFile(ip, nil, 0o666)
	case "cut": // torn inside the last trailing lookup record
		if len(ib) < lsz {
			return fmt.Errorf("index too small to cut")
		}
		err = os.WriteFile(ip, ib[:len(ib)-lsz/2], 0o666)
	case "cutmeta": // big template only: torn inside the meta record of the sealed batch
		cut := len(t.idxA) - nbs.VerifC41IndexMetaRecSize/2
		err = os.WriteFile(ip, ib[:cut], 0o666)
	case "crc": // flip one address byte of the first lookup: batch checksum no longer matches
		b := append([]byte{}, ib...)
		b[3] ^= 0x40
		err = os.WriteFile(ip, b, 0o666)
	case "badtag": // unknown record tag at the first record boundary
		b := append([]byte{}, ib...)
		b[0] = 7
		err = os.WriteFile(ip, b, 0o666)
	default:
		return fmt.Errorf("unknown idx %q", p.Idx)
	}
	if err != nil {
		return err
	}
	switch p.Man {
	case "", "fresh":
	case "stale":
		err = os.WriteFile(mp, t.manA, 0o666)
	default:
		return fmt.Errorf("unknown man %q", p.Man)
	}
	if err != nil {
		return err
	}
	if p.Lock == "missing" {
		err = os.Remove(filepath.Join(dir, nbs.VerifC41LockFileName))
	}
	return err
}

func Run(raw json.RawMessage) (any, error) {
	poolMu.Lock()
	defer poolMu.Unlock()
	var c Case
	c.Strace = -1
	if err := json.Unmarshal(raw, &c); err != nil {
		return nil, err
	}
	if c.NProc < 1 || c.NProc > 4 {
		return nil, fmt.Errorf("nproc out of range")
	}
	t, err := getTemplate(c.Prep.Tmpl)
	if err != nil {
		return nil, fmt.Errorf("template: %w", err)
	}
	dir, err := os.MkdirTemp("", "c41-case-")
	if err != nil {
		return nil, err
	}
	defer os.RemoveAll(dir)
	if err = t.materialise(dir); err != nil {
		return nil, err
	}
	if err = applyPrep(dir, c.Prep, t); err != nil {
		return nil, fmt.Errorf("prep: %w", err)
	}

	// chunk id <-> root hash
	ids := map[string]int{hash.Hash{}.String(): 0}
	for id := 1; id <= 3; id++ {
		ids[chunkFor(dataFor(id)).Hash().String()] = id
	}
	for _, s := range c.Steps {
		if s.Op == "write" {
			ids[chunkFor(dataFor(s.ID)).Hash().String()] = s.ID
		}
	}

	procs := make([]*child, c.NProc)
	var traced *child
	for i := range procs {
		if i == c.Strace {
			if procs[i], err = spawn(true); err != nil {
				return nil, fmt.Errorf("strace spawn: %w", err)
			}
			traced = procs[i]
		} else if procs[i], err = pooled(i); err != nil {
			return nil, err
		}
	}
	isOpen := make([]bool, c.NProc)
	everRW := make([]bool, c.NProc)
	// names that exist without the traced process having created them
	known := map[string]bool{}
	if s0, err := snapshot(dir); err == nil {
		for k := range s0 {
			known[filepath.Join(dir, k)] = true
		}
	}
	var o Obs
	o.Steps = []StepObs{}
	for _, s := range c.Steps {
		if s.P < 0 || s.P >= c.NProc {
			return nil, fmt.Errorf("bad process index")
		}
		before, err := snapshot(dir)
		if err != nil {
			return nil, err
		}
		m := cmd{Op: s.Op}
		switch s.Op {
		case "open":
			m.Dir, m.Mode, m.Skip = dir, s.Mode, s.Skip
		case "write":
			m.Data = dataFor(s.ID)
		}
		r := procs[s.P].send(m, 30*time.Second)
		after, err := snapshot(dir)
		if err != nil {
			return nil, err
		}
		so := StepObs{Code: r.Code, Msg: r.Msg}
		if r.Panic != "" {
			o.Panics = append(o.Panics, r.Panic)
		}
		if r.Root != "" {
			if id, ok := ids[r.Root]; ok {
				so.Root = id
			} else {
				so.Root = 999
			}
		}
		so.Mask, so.Pure, so.What = diff(before, after)
		o.Steps = append(o.Steps, so)
		if s.P != c.Strace {
			for k := range after {
				known[filepath.Join(dir, k)] = true
			}
		}
		switch {
		case s.Op == "open" && (r.Code == cRW || r.Code == cRO):
			isOpen[s.P] = true
			if r.Code == cRW {
				everRW[s.P] = true
			}
		case s.Op == "close":
			isOpen[s.P] = false
		}
	}
	// leave every pooled child closed for the next case
	for i, p := range procs {
		if p == traced {
			continue
		}
		if isOpen[i] && !p.dead {
			p.send(cmd{Op: "close"}, 30*time.Second)
		}
	}
	if traced != nil {
		if !traced.dead {
			traced.send(cmd{Op: "quit"}, 30*time.Second)
		}
		traced.kill()
		o.StraceRan = !everRW[c.Strace]
		if o.StraceRan {
			o.StraceWrites, o.StraceLines = straceWrites(traced.straceF, dir, known)
			if b, err := os.ReadFile(traced.straceF); err == nil {
				o.StraceSeen = strings.Count(string(b), dir)
			}
		}
		os.Remove(traced.straceF)
	}
	return o, nil
}

var (
	reOpenFlags = regexp.MustCompile(`O_[A-Z_]+(\|O_[A-Z_]+)*`)
	reResult    = regexp.MustCompile(`\)\s*=\s*(-?\d+)`)
)

// straceWrites counts successful write-class system calls that touch a path
// inside |dir|: write/pwrite/ftruncate/rename/unlink/mkdir/link/chmod/utimens on
// such a path, and openat with O_TRUNC, or with O_CREAT when it actually
// created the file (O_CREAT on an existing file changes nothing; the LOCK file
// is always opened that way).  Opening read-write alone is not a modification.
func straceWrites(path, dir string, existed map[string]bool) (int, []string) {
	b, err := os.ReadFile(path)
	if err != nil {
		return -1, []string{err.Error()}
	}
	n := 0
	var lines []string
	// join "<unfinished ...>" / "<... resumed>" pairs per pid
	pending := map[string]string{}
	var merged []string
	for _, ln := range strings.Split(string(b), "\n") {
		f := strings.Fields(ln)
		if len(f) < 2 {
			continue
		}
		if i := strings.Index(ln, "<unfinished ...>"); i >= 0 {
			pending[f[0]] = ln[:i]
			continue
		}
		if f[1] == "<..." {
			if j := strings.Index(ln, "resumed>"); j >= 0 {
				ln = pending[f[0]] + ln[j+len("resumed>"):]
				delete(pending, f[0])
			}
		}
		merged = append(merged, ln)
	}
	for _, ln := range merged {
		if !strings.Contains(ln, dir) {
			continue
		}
		m := reResult.FindStringSubmatch(ln)
		if m == nil || strings.HasPrefix(m[1], "-") {
			continue // failed or unfinished call
		}
		f := strings.Fields(ln)
		if len(f) < 2 {
			continue
		}
		call := f[1]
		if i := strings.Index(call, "("); i >= 0 {
			call = call[:i]
		}
		bad := false
		switch call {
		case "openat", "open", "creat":
			flags := reOpenFlags.FindString(ln)
			if strings.Contains(flags, "O_TRUNC") || call == "creat" {
				bad = true
			} else if strings.Contains(flags, "O_CREAT") {
				// created only if it did not exist when the session ended unchanged; the
				// snapshot comparison covers existence, so flag creation of a name that is
				// not in the directory now (created and removed) or is new
				if j := strings.LastIndex(ln, "<"); j >= 0 {
					p := strings.TrimSuffix(ln[j+1:], ">")
					if !existed[p] {
						bad = true
					}
				}
			}
		default:
			bad = true // every other traced call is write-class
			if (call == "write" || call == "writev") && !strings.Contains(strings.SplitN(ln, ",", 2)[0], dir) {
				bad = false // a write to some other fd whose arguments merely mention the path
			}
		}
		if bad {
			n++
			if len(lines) < 8 {
				lines = append(lines, strings.TrimSpace(ln))
			}
		}
	}
	return n, lines
}
