// Package c06: table files and archives round-trip any chunk set (property C06).
// Writes chunk sets with the real tableWriter, conjoins table files with
// planRangeCopyConjoin, builds archives with the ArchiveStreamWriter and reads
// everything back through tableReader / archiveChunkSource; also drives
// prollyBinSearch directly.
package c06

import (
	"bytes"
	"context"
	"encoding/json"
	"fmt"
	"os"
	"sort"

	"github.com/golang/snappy"

	"github.com/dolthub/dolt/go/store/chunks"
	"github.com/dolthub/dolt/go/store/hash"
	"github.com/dolthub/dolt/go/store/nbs"

	"verifharness/hk"
)

func init() { hk.Register("c06", Run) }

type Chunk struct {
	A []int `json:"a"`
	D []int `json:"d"`
}

type Case struct {
	Kind   string    `json:"kind"` // table | search | archive
	Tables [][]Chunk `json:"tables,omitempty"`
	Probes [][]int   `json:"probes,omitempty"`
	Pre    []bool    `json:"pre,omitempty"`
	S      []uint64  `json:"s,omitempty"`
	T      uint64    `json:"t,omitempty"`
	Chunks []Chunk   `json:"chunks,omitempty"`
}

type Rec struct {
	A   []int  `json:"a"`
	D   []int  `json:"d"`
	Z   []int  `json:"z"`
	Crc uint32 `json:"crc"`
}

type Table struct {
	Recs   []Rec      `json:"recs"`
	Tuples [][]uint64 `json:"tuples"` // (prefix, ordinal) in index order
}

type Opt struct {
	Some bool  `json:"some"`
	D    []int `json:"d"`
}

type Obs struct {
	Kind    string     `json:"kind"`
	Tables  []Table    `json:"tables,omitempty"` // in plan order for a conjoin
	Merged  [][]uint64 `json:"merged,omitempty"`
	File    []int      `json:"file,omitempty"`
	Count   uint32     `json:"count"`
	Unc     uint64     `json:"unc"`
	Has     []bool     `json:"has"`
	Get     []Opt      `json:"get"`
	Hm      []bool     `json:"hm"`
	HmRem   bool       `json:"hmrem"`
	Gm      []Chunk    `json:"gm"`
	GmFlags []bool     `json:"gmflags"`
	GmRem   bool       `json:"gmrem"`
	Iter    []Chunk    `json:"iter"`
	R       int        `json:"r"`
	Prefix  []uint64   `json:"prefixes,omitempty"`
	Suffix  [][]int    `json:"suffixes,omitempty"`
}

func toHash(a []int) hash.Hash {
	var h hash.Hash
	for i := 0; i < len(a) && i < hash.ByteLen; i++ {
		h[i] = byte(a[i])
	}
	return h
}

func toBytes(a []int) []byte {
	b := make([]byte, len(a))
	for i, x := range a {
		b[i] = byte(x)
	}
	return b
}

func fromBytes(b []byte) []int {
	out := make([]int, len(b))
	for i, x := range b {
		out[i] = int(x)
	}
	return out
}

func sortChunks(cs []Chunk) {
	sort.SliceStable(cs, func(i, j int) bool {
		c := bytes.Compare(toBytes(cs[i].A), toBytes(cs[j].A))
		if c != 0 {
			return c < 0
		}
		return bytes.Compare(toBytes(cs[i].D), toBytes(cs[j].D)) < 0
	})
}

func toChunks(cs []chunks.Chunk) []Chunk {
	out := make([]Chunk, 0, len(cs))
	for _, c := range cs {
		h := c.Hash()
		out = append(out, Chunk{A: fromBytes(h[:]), D: fromBytes(c.Data())})
	}
	sortChunks(out)
	return out
}

func tuplesOf(ctx context.Context, t *nbs.VerifTable) ([][]uint64, error) {
	ps, err := t.Prefixes(ctx)
	if err != nil {
		return nil, err
	}
	os, err := t.Ordinals(ctx)
	if err != nil {
		return nil, err
	}
	out := make([][]uint64, len(ps))
	for i := range ps {
		out[i] = []uint64{ps[i], uint64(os[i])}
	}
	return out, nil
}

func runTable(ctx context.Context, c Case) (any, error) {
	var o Obs
	o.Kind = "table"
	files := make([][]byte, len(c.Tables))
	tabs := make([]Table, len(c.Tables))
	for i, tc := range c.Tables {
		cs := make([]chunks.Chunk, len(tc))
		for j, ch := range tc {
			cs[j] = chunks.NewChunkWithHash(toHash(ch.A), toBytes(ch.D))
			z := snappy.Encode(nil, toBytes(ch.D))
			tabs[i].Recs = append(tabs[i].Recs, Rec{A: ch.A, D: ch.D, Z: fromBytes(z), Crc: nbs.VerifCrc(z)})
		}
		f, _, err := nbs.VerifWriteTable(cs)
		if err != nil {
			return nil, err
		}
		files[i] = f
		t, err := nbs.VerifOpenTable(ctx, f)
		if err != nil {
			return nil, err
		}
		tabs[i].Tuples, err = tuplesOf(ctx, t)
		t.Close()
		if err != nil {
			return nil, err
		}
	}
	var file []byte
	if len(files) == 1 {
		file = files[0]
		o.Tables = tabs
	} else {
		out, order, _, err := nbs.VerifConjoinTables(ctx, files)
		if err != nil {
			return nil, err
		}
		file = out
		for _, k := range order {
			o.Tables = append(o.Tables, tabs[k])
		}
	}
	o.File = fromBytes(file)
	t, err := nbs.VerifOpenTable(ctx, file)
	if err != nil {
		return nil, err
	}
	defer t.Close()
	if len(files) > 1 {
		if o.Merged, err = tuplesOf(ctx, t); err != nil {
			return nil, err
		}
	}
	o.Count = t.Count()
	o.Unc = t.UncompressedLen()
	probes := make([]hash.Hash, len(c.Probes))
	for i, p := range c.Probes {
		probes[i] = toHash(p)
	}
	for _, h := range probes {
		b, err := t.Has(h)
		if err != nil {
			return nil, err
		}
		o.Has = append(o.Has, b)
		d, err := t.Get(ctx, h)
		if err != nil {
			return nil, err
		}
		if d == nil {
			o.Get = append(o.Get, Opt{})
		} else {
			o.Get = append(o.Get, Opt{Some: true, D: fromBytes(d)})
		}
		// lookup must agree with has
		_, _, found, err := t.Lookup(h)
		if err != nil || found != b {
			return nil, fmt.Errorf("lookup/has disagree on %s: %v", h.String(), err)
		}
	}
	o.Hm, o.HmRem, err = t.HasMany(probes, append([]bool(nil), c.Pre...))
	if err != nil {
		return nil, err
	}
	got, flags, rem, err := t.GetMany(ctx, probes, append([]bool(nil), c.Pre...), false)
	if err != nil {
		return nil, err
	}
	gotc, flagsc, remc, err := t.GetMany(ctx, probes, append([]bool(nil), c.Pre...), true)
	if err != nil {
		return nil, err
	}
	o.Gm, o.GmFlags, o.GmRem = toChunks(got), flags, rem
	// the compressed path must agree with the plain one
	a, _ := json.Marshal(o.Gm)
	b, _ := json.Marshal(toChunks(gotc))
	if !bytes.Equal(a, b) || fmt.Sprint(flags) != fmt.Sprint(flagsc) || rem != remc {
		return nil, fmt.Errorf("getMany and getManyCompressed disagree")
	}
	it, err := t.IterateAll(ctx)
	if err != nil {
		return nil, err
	}
	o.Iter = toChunks(it)
	return o, nil
}

func runArchive(ctx context.Context, c Case) (any, error) {
	var o Obs
	o.Kind = "archive"
	dir, err := os.MkdirTemp("", "c06-")
	if err != nil {
		return nil, err
	}
	defer os.RemoveAll(dir)
	cs := make([]chunks.Chunk, len(c.Chunks))
	for j, ch := range c.Chunks {
		cs[j] = chunks.NewChunkWithHash(toHash(ch.A), toBytes(ch.D))
	}
	a, err := nbs.VerifBuildArchive(ctx, dir, cs)
	if err != nil {
		return nil, err
	}
	defer a.Close()
	o.Count = a.Count()
	for _, p := range c.Probes {
		h := toHash(p)
		b, err := a.Has(h)
		if err != nil {
			return nil, err
		}
		o.Has = append(o.Has, b)
		d, err := a.Get(ctx, h)
		if err != nil {
			return nil, err
		}
		if d == nil {
			o.Get = append(o.Get, Opt{})
		} else {
			o.Get = append(o.Get, Opt{Some: true, D: fromBytes(d)})
		}
	}
	it, err := a.IterateAll(ctx)
	if err != nil {
		return nil, err
	}
	o.Iter = toChunks(it)
	ps, ss := a.VerifArchiveIndex()
	o.Prefix = ps
	for _, s := range ss {
		o.Suffix = append(o.Suffix, fromBytes(s))
	}
	return o, nil
}

func Run(raw json.RawMessage) (any, error) {
	var c Case
	if err := json.Unmarshal(raw, &c); err != nil {
		return nil, err
	}
	ctx := context.Background()
	switch c.Kind {
	case "table":
		return runTable(ctx, c)
	case "search":
		return Obs{Kind: "search", R: nbs.VerifProllyBinSearch(c.S, c.T)}, nil
	case "archive":
		return runArchive(ctx, c)
	}
	return nil, fmt.Errorf("unknown kind %q", c.Kind)
}
