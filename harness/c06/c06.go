// Package c06: table files and archives round-trip any chunk set (property C06).
// Writes chunk sets with the real tableWriter, conjoins table files with
// planRangeCopyConjoin, builds archives with the ArchiveStreamWriter and reads
// everything back through tableReader / archiveChunkSource; also drives
// prollyBinSearch directly.
package c06

import (
	"bytes"
	"context"
	"encoding/json"
	"fmt"
	"os"
	"sort"

	"github.com/golang/snappy"

	"github.com/dolthub/dolt/go/store/chunks"
	"github.com/dolthub/dolt/go/store/hash"
	"github.com/dolthub/dolt/go/store/nbs"

	"verifharness/hk"
)

func init() { hk.Register("c06", Run) }

type Chunk struct {
	A []int `json:"a"`
	D []int `json:"d"`
}

type Case struct {
	Kind   string    `json:"kind"` // table | search | archive
	Tables [][]Chunk `json:"tables,omitempty"`
	Probes [][]int   `json:"probes,omitempty"`
	Pre    []bool    `json:"pre,omitempty"`
	S      []uint64  `json:"s,omitempty"`
	T      uint64    `json:"t,omitempty"`
	Chunks []Chunk   `json:"chunks,omitempty"`
	N      int       `json:"n,omitempty"`    // bigarchive: number of generated chunks
	Seed   int       `json:"seed,omitempty"` // bigarchive: generator seed
}

type Rec struct {
	A   []int  `json:"a"`
	D   []int  `json:"d"`
	Z   []int  `json:"z"`
	Crc uint32 `json:"crc"`
}

type Table struct {
	Recs   []Rec      `json:"recs"`
	Tuples [][]uint64 `json:"tuples"` // (prefix, ordinal) in index order
}

type Opt struct {
	Some bool  `json:"some"`
	D    []int `json:"d"`
}

type Obs struct {
	Kind    string     `json:"kind"`
	Tables  []Table    `json:"tables,omitempty"` // in plan order for a conjoin
	Merged  [][]uint64 `json:"merged,omitempty"`
	File    []int      `json:"file,omitempty"`
	Count   uint32     `json:"count"`
	Unc     uint64     `json:"unc"`
	Has     []bool     `json:"has"`
	Get     []Opt      `json:"get"`
	Hm      []bool     `json:"hm"`
	HmRem   bool       `json:"hmrem"`
	Gm      []Chunk    `json:"gm"`
	GmFlags []bool     `json:"gmflags"`
	GmRem   bool       `json:"gmrem"`
	Iter    []Chunk    `json:"iter"`
	R       int        `json:"r"`
	Prefix  []uint64   `json:"prefixes,omitempty"`
	Suffix  [][]int    `json:"suffixes,omitempty"`
	// bigarchive: counts computed in Go (the chunk set is too big for a Coq term)
	NHas      int  `json:"nhas"`      // written chunks reported present
	NGetOk    int  `json:"ngetok"`    // written chunks read back byte for byte
	NIter     int  `json:"niter"`     // chunks delivered by iterateAllChunks
	NIterOk   int  `json:"niterok"`   // ... that are written chunks with the right bytes (distinct)
	NAbsentOk int  `json:"nabsentok"` // absent probes reported absent (has and get)
	NAbsent   int  `json:"nabsent"`   // absent probes tried
	Sorted    bool `json:"sorted"`    // archive index sorted by full address
	// small archives: raw index block, staged span lengths, chunk refs per index position
	Idx      []int    `json:"idx,omitempty"`
	SpanLens []uint64 `json:"spanlens,omitempty"`
	Refs     [][]int  `json:"refs,omitempty"`
}

func toHash(a []int) hash.Hash {
	var h hash.Hash
	for i := 0; i < len(a) && i < hash.ByteLen; i++ {
		h[i] = byte(a[i])
	}
	return h
}

func toBytes(a []int) []byte {
	b := make([]byte, len(a))
	for i, x := range a {
		b[i] = byte(x)
	}
	return b
}

func fromBytes(b []byte) []int {
	out := make([]int, len(b))
	for i, x := range b {
		out[i] = int(x)
	}
	return out
}

func sortChunks(cs []Chunk) {
	sort.SliceStable(cs, func(i, j int) bool {
		c := bytes.Compare(toBytes(cs[i].A), toBytes(cs[j].A))
		if c != 0 {
			return c < 0
		}
		return bytes.Compare(toBytes(cs[i].D), toBytes(cs[j].D)) < 0
	})
}

func toChunks(cs []chunks.Chunk) []Chunk {
	out := make([]Chunk, 0, len(cs))
	for _, c := range cs {
		h := c.Hash()
		out = append(out, Chunk{A: fromBytes(h[:]), D: fromBytes(c.Data())})
	}
	sortChunks(out)
	return out
}

func tuplesOf(ctx context.Context, t *nbs.VerifTable) ([][]uint64, error) {
	ps, err := t.Prefixes(ctx)
	if err != nil {
		return nil, err
	}
	os, err := t.Ordinals(ctx)
	if err != nil {
		return nil, err
	}
	out := make([][]uint64, len(ps))
	for i := range ps {
		out[i] = []uint64{ps[i], uint64(os[i])}
	}
	return out, nil
}

func runTable(ctx context.Context, c Case) (any, error) {
	var o Obs
	o.Kind = "table"
	files := make([][]byte, len(c.Tables))
	tabs := make([]Table, len(c.Tables))
	for i, tc := range c.Tables {
		cs := make([]chunks.Chunk, len(tc))
		for j, ch := range tc {
			cs[j] = chunks.NewChunkWithHash(toHash(ch.A), toBytes(ch.D))
			z := snappy.Encode(nil, toBytes(ch.D))
			tabs[i].Recs = append(tabs[i].Recs, Rec{A: ch.A, D: ch.D, Z: fromBytes(z), Crc: nbs.VerifCrc(z)})
		}
		f, _, err := nbs.VerifWriteTable(cs)
		if err != nil {
			return nil, err
		}
		files[i] = f
		t, err := nbs.VerifOpenTable(ctx, f)
		if err != nil {
			return nil, err
		}
		tabs[i].Tuples, err = tuplesOf(ctx, t)
		t.Close()
		if err != nil {
			return nil, err
		}
	}
	var file []byte
	if len(files) == 1 {
		file = files[0]
		o.Tables = tabs
	} else {
		out, order, _, err := nbs.VerifConjoinTables(ctx, files)
		if err != nil {
			return nil, err
		}
		file = out
		for _, k := range order {
			o.Tables = append(o.Tables, tabs[k])
		}
	}
	o.File = fromBytes(file)
	t, err := nbs.VerifOpenTable(ctx, file)
	if err != nil {
		return nil, err
	}
	defer t.Close()
	if len(files) > 1 {
		if o.Merged, err = tuplesOf(ctx, t); err != nil {
			return nil, err
		}
	}
	o.Count = t.Count()
	o.Unc = t.UncompressedLen()
	probes := make([]hash.Hash, len(c.Probes))
	for i, p := range c.Probes {
		probes[i] = toHash(p)
	}
	for _, h := range probes {
		b, err := t.Has(h)
		if err != nil {
			return nil, err
		}
		o.Has = append(o.Has, b)
		d, err := t.Get(ctx, h)
		if err != nil {
			return nil, err
		}
		if d == nil {
			o.Get = append(o.Get, Opt{})
		} else {
			o.Get = append(o.Get, Opt{Some: true, D: fromBytes(d)})
		}
		// lookup must agree with has
		_, _, found, err := t.Lookup(h)
		if err != nil || found != b {
			return nil, fmt.Errorf("lookup/has disagree on %s: %v", h.String(), err)
		}
	}
	o.Hm, o.HmRem, err = t.HasMany(probes, append([]bool(nil), c.Pre...))
	if err != nil {
		return nil, err
	}
	got, flags, rem, err := t.GetMany(ctx, probes, append([]bool(nil), c.Pre...), false)
	if err != nil {
		return nil, err
	}
	gotc, flagsc, remc, err := t.GetMany(ctx, probes, append([]bool(nil), c.Pre...), true)
	if err != nil {
		return nil, err
	}
	o.Gm, o.GmFlags, o.GmRem = toChunks(got), flags, rem
	// the compressed path must agree with the plain one
	a, _ := json.Marshal(o.Gm)
	b, _ := json.Marshal(toChunks(gotc))
	if !bytes.Equal(a, b) || fmt.Sprint(flags) != fmt.Sprint(flagsc) || rem != remc {
		return nil, fmt.Errorf("getMany and getManyCompressed disagree")
	}
	it, err := t.IterateAll(ctx)
	if err != nil {
		return nil, err
	}
	o.Iter = toChunks(it)
	return o, nil
}

func runArchive(ctx context.Context, c Case) (any, error) {
	var o Obs
	o.Kind = "archive"
	dir, err := os.MkdirTemp("", "c06-")
	if err != nil {
		return nil, err
	}
	defer os.RemoveAll(dir)
	cs := make([]chunks.Chunk, len(c.Chunks))
	for j, ch := range c.Chunks {
		cs[j] = chunks.NewChunkWithHash(toHash(ch.A), toBytes(ch.D))
	}
	a, err := nbs.VerifBuildArchive(ctx, dir, cs)
	if err != nil {
		return nil, err
	}
	defer a.Close()
	o.Count = a.Count()
	for _, p := range c.Probes {
		h := toHash(p)
		b, err := a.Has(h)
		if err != nil {
			return nil, err
		}
		o.Has = append(o.Has, b)
		d, err := a.Get(ctx, h)
		if err != nil {
			return nil, err
		}
		if d == nil {
			o.Get = append(o.Get, Opt{})
		} else {
			o.Get = append(o.Get, Opt{Some: true, D: fromBytes(d)})
		}
	}
	it, err := a.IterateAll(ctx)
	if err != nil {
		return nil, err
	}
	o.Iter = toChunks(it)
	ps, ss := a.VerifArchiveIndex()
	o.Prefix = ps
	for _, s := range ss {
		o.Suffix = append(o.Suffix, fromBytes(s))
	}
	raw, ends, refs, err := a.VerifArchiveIndexBytes(ctx)
	if err != nil {
		return nil, err
	}
	o.Idx = fromBytes(raw)
	prev := uint64(0)
	for _, e := range ends {
		o.SpanLens = append(o.SpanLens, e-prev)
		prev = e
	}
	for _, r := range refs {
		o.Refs = append(o.Refs, []int{int(r[0]), int(r[1])})
	}
	return o, nil
}

// runBigArchive converts N (> maxSamples) generated chunks to an archive through the
// ArchiveStreamWriter: the first maxSamples are queued as snappy chunks, then a zstd
// dictionary is built and everything is staged. Membership is compared here.
func runBigArchive(ctx context.Context, c Case) (any, error) {
	var o Obs
	o.Kind = "bigarchive"
	dir, err := os.MkdirTemp("", "c06-")
	if err != nil {
		return nil, err
	}
	defer os.RemoveAll(dir)
	x := uint64(c.Seed)*2862933555777941757 + 3037000493
	next := func() uint64 { x ^= x << 13; x ^= x >> 7; x ^= x << 17; return x }
	words := []string{"alpha", "beta", "gamma", "delta", "row", "key", "value", "dolt", "chunk", "node"}
	cs := make([]chunks.Chunk, c.N)
	want := map[hash.Hash][]byte{}
	for i := 0; i < c.N; i++ {
		var b bytes.Buffer
		fmt.Fprintf(&b, "%d:", i)
		for k := 0; k < 4+int(next()%8); k++ {
			b.WriteString(words[next()%uint64(len(words))])
			b.WriteByte(byte('0' + next()%10))
		}
		var h hash.Hash
		v := next()
		for k := 0; k < 8; k++ {
			h[k] = byte(v >> (8 * k))
		}
		if i%7 == 0 && i > 0 { // shared prefixes
			prev := cs[i-1].Hash()
			copy(h[:8], prev[:8])
		}
		w := next()
		for k := 8; k < 20; k++ {
			h[k] = byte(w >> (8 * (k % 8)))
		}
		h[19] = byte(i)
		h[18] = byte(i >> 8)
		cs[i] = chunks.NewChunkWithHash(h, b.Bytes())
		want[h] = b.Bytes()
	}
	a, err := nbs.VerifBuildArchive(ctx, dir, cs)
	if err != nil {
		return nil, err
	}
	defer a.Close()
	o.Count = a.Count()
	for h, d := range want {
		ok, err := a.Has(h)
		if err != nil {
			return nil, err
		}
		if ok {
			o.NHas++
		}
		got, err := a.Get(ctx, h)
		if err != nil {
			return nil, err
		}
		if got != nil && bytes.Equal(got, d) {
			o.NGetOk++
		}
	}
	it, err := a.IterateAll(ctx)
	if err != nil {
		return nil, err
	}
	seen := map[hash.Hash]bool{}
	for _, ch := range it {
		o.NIter++
		if d, ok := want[ch.Hash()]; ok && bytes.Equal(d, ch.Data()) && !seen[ch.Hash()] {
			seen[ch.Hash()] = true
			o.NIterOk++
		}
	}
	for i := 0; i < 50 && i < c.N; i++ {
		h := cs[i*(c.N/50+1)%c.N].Hash()
		h[12] ^= 0x55 // same prefix, different suffix
		if _, dup := want[h]; dup {
			continue
		}
		o.NAbsent++
		ok, err := a.Has(h)
		if err != nil {
			return nil, err
		}
		got, err := a.Get(ctx, h)
		if err != nil {
			return nil, err
		}
		if !ok && got == nil {
			o.NAbsentOk++
		}
	}
	ps, ss := a.VerifArchiveIndex()
	o.Sorted = true
	for i := 1; i < len(ps); i++ {
		if ps[i-1] > ps[i] || (ps[i-1] == ps[i] && bytes.Compare(ss[i-1], ss[i]) >= 0) {
			o.Sorted = false
		}
	}
	return o, nil
}

func Run(raw json.RawMessage) (any, error) {
	var c Case
	if err := json.Unmarshal(raw, &c); err != nil {
		return nil, err
	}
	ctx := context.Background()
	switch c.Kind {
	case "table":
		return runTable(ctx, c)
	case "search":
		return Obs{Kind: "search", R: nbs.VerifProllyBinSearch(c.S, c.T)}, nil
	case "archive":
		return runArchive(ctx, c)
	case "bigarchive":
		return runBigArchive(ctx, c)
	}
	return nil, fmt.Errorf("unknown kind %q", c.Kind)
}
