// Package c09: the reference walker against the loaders (property C09).
//
// One case = a recipe for a repository state (in-progress merge / cherry-pick /
// revert series / interactive rebase, stashes, tags, staged and unstaged
// changes, secondary indexes, out-of-band values, foreign keys).  The state is
// built through SQL on the real engine.  Then, over a second DoltDB that reads
// the same store through a recording chunk-store wrapper:
//   - every reachable chunk is enumerated with the REAL SerialMessage.WalkAddrs,
//   - for each object of the non-node kinds the harness decodes the flatbuffer
//     fields (to hand the message to the model), records what the real walker
//     reports, and records which of the object's own addresses the REAL loader
//     (ResolveWorkingSet, ReadCommit/GetRootValue/GetParent/GetCommitClosure,
//     ReadRootValue/GetTable/GetForeignKeyCollection, TableFromAddr/…,
//     ResolveTag, GetStashes, Datasets) reads;
//   - every table is read completely (rows with out-of-band values, all
//     secondary indexes, artifacts) and every commit closure is iterated; reads
//     outside the real walker's closure of that table/commit are counted.
package c09

import (
	"context"
	"encoding/json"
	"fmt"
	"sort"
	"strings"
	"sync"
	"time"

	"github.com/dolthub/go-mysql-server/sql"

	"github.com/dolthub/dolt/go/gen/fb/serial"
	"github.com/dolthub/dolt/go/libraries/doltcore/doltdb"
	"github.com/dolthub/dolt/go/libraries/doltcore/doltdb/durable"
	"github.com/dolthub/dolt/go/libraries/doltcore/ref"
	"github.com/dolthub/dolt/go/libraries/doltcore/schema/encoding"
	"github.com/dolthub/dolt/go/store/chunks"
	"github.com/dolthub/dolt/go/store/datas"
	"github.com/dolthub/dolt/go/store/hash"
	"github.com/dolthub/dolt/go/store/prolly"
	"github.com/dolthub/dolt/go/store/prolly/tree"
	"github.com/dolthub/dolt/go/store/types"
	"github.com/dolthub/dolt/go/store/val"

	"verifharness/hk"
	"verifharness/util"
)

func init() { hk.Register("c09", Run) }

type Case struct {
	Scn      string `json:"scn"` // plain | merge | cherry | revert | rebase | rebase_conflict
	Staged   bool   `json:"staged"`
	Unstaged bool   `json:"unstaged"`
	Tag      bool   `json:"tag"`
	Stash    bool   `json:"stash"`
	FK       bool   `json:"fk"`
	Idx      bool   `json:"idx"`
	Blob     bool   `json:"blob"`
	Rows     int    `json:"rows"`
	Pending  bool   `json:"pending"` // revert: two commits so that one stays pending
	Wide     bool   `json:"wide"`    // a table whose rows exceed the 2 KiB tuple target with a dozen ~200-byte TEXT columns
	CommitC  bool   `json:"commitc"` // revert_foreign: commit the conflicted state (merge state cleared, artifacts stay)
}

type MS struct {
	PW   int   `json:"pw"`
	FC   int   `json:"fc"`
	PH   *int  `json:"ph"`
	Pend []int `json:"pend"`
}
type RS struct {
	PW   int `json:"pw"`
	Onto int `json:"onto"`
}
type Node struct {
	K   string `json:"k"` // prolly | am | art | blob | closure | vector
	AA  []int  `json:"aa"`
	XA  []int  `json:"xa"`  // value_addrs / key_addrs
	Lvl int    `json:"lvl"` // closure only
}
type Msg struct {
	K       string `json:"k"` // storeroot stashlist stash tag ws root table commit
	A       []int  `json:"a,omitempty"`
	St      *int   `json:"st"`
	MS      *MS    `json:"ms"`
	RS      *RS    `json:"rs"`
	N1      *Node  `json:"n1"`
	N2      *Node  `json:"n2"`
	Parents []int  `json:"parents,omitempty"`
}
type ObjObs struct {
	Name   string `json:"name"`
	Msg    Msg    `json:"msg"`
	Walked []int  `json:"walked"`
	Loaded []int  `json:"loaded"`
	// per-field report of loaded-but-not-walked addresses, for finding keys
	Missing []string `json:"missing"`
}
type Obs struct {
	Objs        []ObjObs       `json:"objs"`
	Stray       int            `json:"stray"`
	StrayBase   int            `json:"stray_base"` // reads of the conflict artifacts' base/their root-ish outside the table's walker closure
	StrayDetail []string       `json:"stray_detail"`
	ScriptErrs  []string       `json:"script_errs"`
	Kinds       map[string]int `json:"kinds"`
	Reachable   int            `json:"reachable"`
	Trees       int            `json:"trees"`
	SmallOOB    int            `json:"small_oob"` // out-of-band adaptive values with a one-byte length prefix (value of 21..240 bytes) read back
}

// ---------------------------------------------------------------------------
// recording chunk store
// ---------------------------------------------------------------------------
type RecCS struct {
	chunks.ChunkStore
	mu    sync.Mutex
	reads hash.HashSet
}

func NewRecCS(cs chunks.ChunkStore) *RecCS { return &RecCS{ChunkStore: cs, reads: hash.HashSet{}} }

func (r *RecCS) note(h hash.Hash) {
	r.mu.Lock()
	r.reads.Insert(h)
	r.mu.Unlock()
}
func (r *RecCS) Reset() {
	r.mu.Lock()
	r.reads = hash.HashSet{}
	r.mu.Unlock()
}
func (r *RecCS) Reads() hash.HashSet {
	r.mu.Lock()
	defer r.mu.Unlock()
	return r.reads.Copy()
}
func (r *RecCS) Get(ctx context.Context, h hash.Hash) (chunks.Chunk, error) {
	r.note(h)
	return r.ChunkStore.Get(ctx, h)
}
func (r *RecCS) GetMany(ctx context.Context, hs hash.HashSet, found func(context.Context, *chunks.Chunk)) error {
	for h := range hs {
		r.note(h)
	}
	return r.ChunkStore.GetMany(ctx, hs, found)
}

// ---------------------------------------------------------------------------
// walking with the real walker
// ---------------------------------------------------------------------------

// RealWalk returns what SerialMessage.WalkAddrs reports for the chunk bytes.
func RealWalk(data []byte) ([]hash.Hash, error) {
	var out []hash.Hash
	err := types.SerialMessage(data).WalkAddrs(types.Format_DOLT, func(a hash.Hash) error {
		out = append(out, a)
		return nil
	})
	return out, err
}

// Closure computes the set of chunks reachable from the start set with the real walker.
// Missing chunks are reported in the second result.
func Closure(ctx context.Context, cs chunks.ChunkStore, start []hash.Hash) (hash.HashSet, hash.HashSet, error) {
	seen := hash.HashSet{}
	missing := hash.HashSet{}
	todo := append([]hash.Hash{}, start...)
	for len(todo) > 0 {
		h := todo[len(todo)-1]
		todo = todo[:len(todo)-1]
		if h.IsEmpty() || seen.Has(h) {
			continue
		}
		seen.Insert(h)
		c, err := cs.Get(ctx, h)
		if err != nil {
			return nil, nil, err
		}
		if c.IsEmpty() {
			missing.Insert(h)
			continue
		}
		as, err := RealWalk(c.Data())
		if err != nil {
			return nil, nil, fmt.Errorf("walk %s (%s): %w", h, serial.GetFileID(c.Data()), err)
		}
		todo = append(todo, as...)
	}
	return seen, missing, nil
}

// ---------------------------------------------------------------------------
// numbering
// ---------------------------------------------------------------------------
type numbering struct {
	m map[hash.Hash]int
}

func (n *numbering) id(h hash.Hash) int {
	if h.IsEmpty() {
		return 0
	}
	if v, ok := n.m[h]; ok {
		return v
	}
	v := len(n.m) + 1
	n.m[h] = v
	return v
}
func (n *numbering) ids(hs []hash.Hash) []int {
	out := make([]int, 0, len(hs))
	for _, h := range hs {
		out = append(out, n.id(h))
	}
	return out
}
func (n *numbering) bytesID(b []byte) int {
	if len(b) != hash.ByteLen {
		return 0
	}
	return n.id(hash.New(b))
}

func splitAddrs(b []byte) []hash.Hash {
	var out []hash.Hash
	for i := 0; i+hash.ByteLen <= len(b); i += hash.ByteLen {
		out = append(out, hash.New(b[i:i+hash.ByteLen]))
	}
	return out
}

// decodeNode decodes an (embedded or stand-alone) prolly-ish message into the model node.
func decodeNode(nm *numbering, bs []byte) (*Node, []hash.Hash, error) {
	switch serial.GetFileID(bs) {
	case serial.AddressMapFileID:
		m, err := serial.TryGetRootAsAddressMap(bs, serial.MessagePrefixSz)
		if err != nil {
			return nil, nil, err
		}
		as := splitAddrs(m.AddressArrayBytes())
		return &Node{K: "am", AA: nm.ids(as), XA: []int{}}, as, nil
	case serial.ProllyTreeNodeFileID:
		m, err := serial.TryGetRootAsProllyTreeNode(bs, serial.MessagePrefixSz)
		if err != nil {
			return nil, nil, err
		}
		as := splitAddrs(m.AddressArrayBytes())
		var vs []hash.Hash
		items := m.ValueItemsBytes()
		for i := 0; i < m.ValueAddressOffsetsLength(); i++ {
			o := int(m.ValueAddressOffsets(i))
			vs = append(vs, hash.New(items[o:o+hash.ByteLen]))
		}
		return &Node{K: "prolly", AA: nm.ids(as), XA: nm.ids(vs)}, append(as, vs...), nil
	case serial.VectorIndexNodeFileID:
		m, err := serial.TryGetRootAsVectorIndexNode(bs, serial.MessagePrefixSz)
		if err != nil {
			return nil, nil, err
		}
		as := splitAddrs(m.AddressArrayBytes())
		return &Node{K: "vector", AA: nm.ids(as), XA: []int{}}, as, nil
	}
	return nil, nil, fmt.Errorf("embedded message of unexpected kind %q", serial.GetFileID(bs))
}

type field struct {
	name  string
	addrs []hash.Hash
}

// decode one chunk of a non-node kind into the model message + its address fields (by name)
func decodeMsg(nm *numbering, data []byte) (*Msg, []field, error) {
	switch serial.GetFileID(data) {
	case serial.StoreRootFileID:
		m, err := serial.TryGetRootAsStoreRoot(data, serial.MessagePrefixSz)
		if err != nil {
			return nil, nil, err
		}
		if m.AddressMapLength() == 0 {
			return &Msg{K: "storeroot"}, nil, nil
		}
		n, as, err := decodeNode(nm, m.AddressMapBytes())
		if err != nil {
			return nil, nil, err
		}
		return &Msg{K: "storeroot", N1: n}, []field{{"StoreRoot.address_map", as}}, nil
	case serial.StashListFileID:
		m, err := serial.TryGetRootAsStashList(data, serial.MessagePrefixSz)
		if err != nil {
			return nil, nil, err
		}
		if m.AddressMapLength() == 0 {
			return &Msg{K: "stashlist"}, nil, nil
		}
		n, as, err := decodeNode(nm, m.AddressMapBytes())
		if err != nil {
			return nil, nil, err
		}
		return &Msg{K: "stashlist", N1: n}, []field{{"StashList.address_map", as}}, nil
	case serial.StashFileID:
		m, err := serial.TryGetRootAsStash(data, serial.MessagePrefixSz)
		if err != nil {
			return nil, nil, err
		}
		a, b := hash.New(m.StashRootAddrBytes()), hash.New(m.HeadCommitAddrBytes())
		return &Msg{K: "stash", A: []int{nm.id(a), nm.id(b)}}, []field{{"Stash.stash_root_addr", []hash.Hash{a}}, {"Stash.head_commit_addr", []hash.Hash{b}}}, nil
	case serial.TagFileID:
		m, err := serial.TryGetRootAsTag(data, serial.MessagePrefixSz)
		if err != nil {
			return nil, nil, err
		}
		a := hash.New(m.CommitAddrBytes())
		return &Msg{K: "tag", A: []int{nm.id(a)}}, []field{{"Tag.commit_addr", []hash.Hash{a}}}, nil
	case serial.WorkingSetFileID:
		m, err := serial.TryGetRootAsWorkingSet(data, serial.MessagePrefixSz)
		if err != nil {
			return nil, nil, err
		}
		w := hash.New(m.WorkingRootAddrBytes())
		out := &Msg{K: "ws", A: []int{nm.id(w)}}
		fs := []field{{"WorkingSet.working_root_addr", []hash.Hash{w}}}
		if m.StagedRootAddrLength() != 0 {
			s := hash.New(m.StagedRootAddrBytes())
			v := nm.id(s)
			out.St = &v
			fs = append(fs, field{"WorkingSet.staged_root_addr", []hash.Hash{s}})
		}
		ms, err := m.TryMergeState(nil)
		if err != nil {
			return nil, nil, err
		}
		if ms != nil {
			pw, fc := hash.New(ms.PreWorkingRootAddrBytes()), hash.New(ms.FromCommitAddrBytes())
			x := &MS{PW: nm.id(pw), FC: nm.id(fc), Pend: []int{}}
			fs = append(fs, field{"merge_state.pre_working_root_addr", []hash.Hash{pw}}, field{"merge_state.from_commit_addr", []hash.Hash{fc}})
			if b := ms.PreMergeHeadCommitAddrBytes(); len(b) > 0 {
				ph := hash.New(b)
				v := nm.id(ph)
				x.PH = &v
				fs = append(fs, field{"merge_state.pre_merge_head_commit_addr", []hash.Hash{ph}})
			}
			var ps []hash.Hash
			for i := 0; i < ms.PendingCommitHashesLength(); i++ {
				if h, ok := hash.MaybeParse(string(ms.PendingCommitHashes(i))); ok {
					ps = append(ps, h)
					x.Pend = append(x.Pend, nm.id(h))
				}
			}
			if len(ps) > 0 {
				fs = append(fs, field{"merge_state.pending_commit_hashes", ps})
			}
			out.MS = x
		}
		rs, err := m.TryRebaseState(nil)
		if err != nil {
			return nil, nil, err
		}
		if rs != nil {
			pw, on := hash.New(rs.PreWorkingRootAddrBytes()), hash.New(rs.OntoCommitAddrBytes())
			out.RS = &RS{PW: nm.id(pw), Onto: nm.id(on)}
			fs = append(fs, field{"rebase_state.pre_working_root_addr", []hash.Hash{pw}}, field{"rebase_state.onto_commit_addr", []hash.Hash{on}})
		}
		return out, fs, nil
	case serial.RootValueFileID:
		m, err := serial.TryGetRootAsRootValue(data, serial.MessagePrefixSz)
		if err != nil {
			return nil, nil, err
		}
		n, as, err := decodeNode(nm, m.TablesBytes())
		if err != nil {
			return nil, nil, err
		}
		fk := hash.New(m.ForeignKeyAddrBytes())
		fs := []field{{"RootValue.tables", as}}
		if !fk.IsEmpty() {
			fs = append(fs, field{"RootValue.foreign_key_addr", []hash.Hash{fk}})
		}
		return &Msg{K: "root", A: []int{nm.id(fk)}, N1: n}, fs, nil
	case serial.TableFileID:
		m, err := serial.TryGetRootAsTable(data, serial.MessagePrefixSz)
		if err != nil {
			return nil, nil, err
		}
		cf, err := m.TryConflicts(nil)
		if err != nil {
			return nil, nil, err
		}
		if cf == nil {
			return nil, nil, fmt.Errorf("table without conflicts sub-table")
		}
		sch := hash.New(m.SchemaBytes())
		hs := []hash.Hash{sch, hash.New(cf.DataBytes()), hash.New(cf.OurSchemaBytes()), hash.New(cf.TheirSchemaBytes()),
			hash.New(cf.AncestorSchemaBytes()), hash.New(m.ViolationsBytes()), hash.New(m.ArtifactsBytes())}
		names := []string{"Table.schema", "Conflicts.data", "Conflicts.our_schema", "Conflicts.their_schema", "Conflicts.ancestor_schema", "Table.violations", "Table.artifacts"}
		var fs []field
		for i, h := range hs {
			if !h.IsEmpty() {
				fs = append(fs, field{names[i], []hash.Hash{h}})
			}
		}
		sec, sas, err := decodeNode(nm, m.SecondaryIndexesBytes())
		if err != nil {
			return nil, nil, err
		}
		prim, pas, err := decodeNode(nm, m.PrimaryIndexBytes())
		if err != nil {
			return nil, nil, err
		}
		fs = append(fs, field{"Table.secondary_indexes", sas}, field{"Table.primary_index", pas})
		return &Msg{K: "table", A: nm.ids(hs), N1: sec, N2: prim}, fs, nil
	case serial.CommitFileID:
		m, err := serial.TryGetRootAsCommit(data, serial.MessagePrefixSz)
		if err != nil {
			return nil, nil, err
		}
		ps := splitAddrs(m.ParentAddrsBytes())
		r := hash.New(m.RootBytes())
		cl := hash.Hash{}
		if b := m.ParentClosureBytes(); len(b) == hash.ByteLen {
			cl = hash.New(b)
		}
		fs := []field{{"Commit.parent_addrs", ps}, {"Commit.root", []hash.Hash{r}}}
		if !cl.IsEmpty() {
			fs = append(fs, field{"Commit.parent_closure", []hash.Hash{cl}})
		}
		return &Msg{K: "commit", A: []int{nm.id(r), nm.id(cl)}, Parents: nm.ids(ps)}, fs, nil
	}
	return nil, nil, nil
}

// ---------------------------------------------------------------------------
// building the state
// ---------------------------------------------------------------------------
// Exec runs one statement, retrying when the manifest lock could not be taken in time (machine under load).
func Exec(s *util.Session, q string) util.Result {
	var r util.Result
	for i := 0; i < 6; i++ {
		r = s.Exec(q)
		if !strings.Contains(r.Err, "lock timeout exceeded") {
			return r
		}
		time.Sleep(time.Duration(200*(i+1)) * time.Millisecond)
	}
	return r
}

// Script is the SQL recipe of a case (shared with the C08 and C35 harnesses).
func Script(c Case) []string { return script(c) }

// Tolerated reports whether a failing statement is part of the scenario (a reported conflict).
func Tolerated(q, e string) bool { return tolerated(q, e) }

func script(c Case) []string {
	rows := c.Rows
	if rows < 3 {
		rows = 3
	}
	cols := "pk int primary key, c1 int, c2 varchar(40)"
	if c.Blob {
		cols += ", b longtext, j json"
	}
	if c.Idx {
		cols += ", key idx1 (c1), key idx2 (c2)"
	}
	q := []string{"set @@autocommit = 1", "create table t (" + cols + ")", "create table u (id int primary key, v int)"}
	if c.FK {
		q = append(q, "create table p (id int primary key)", "create table ch (id int primary key, pid int, foreign key (pid) references p(id))",
			"insert into p values (1),(2)", "insert into ch values (1,1),(2,2)")
	}
	var vals []string
	for i := 1; i <= rows; i++ {
		v := fmt.Sprintf("(%d, %d, 'row %d'", i, i*10, i)
		if c.Blob {
			if i%3 == 0 {
				v += fmt.Sprintf(", repeat('x%d', 3000), '{\"k\": \"%s\"}'", i, strings.Repeat("j", 2500))
			} else {
				v += ", 'small', '{\"a\": 1}'"
			}
		}
		vals = append(vals, v+")")
		if len(vals) == 200 || i == rows {
			q = append(q, "insert into t values "+strings.Join(vals, ","))
			vals = nil
		}
	}
	if c.Wide {
		// wide rows: the inline tuple would exceed the tuple length target, so TupleBuilder moves some of the
		// ~200-byte TEXT values out of band (adaptive encoding with a one-byte length prefix)
		cols := []string{"id int primary key"}
		for i := 1; i <= 12; i++ {
			cols = append(cols, fmt.Sprintf("t%d text", i))
		}
		q = append(q, "create table wd ("+strings.Join(cols, ", ")+")")
		for r := 1; r <= 4; r++ {
			vals := []string{fmt.Sprintf("%d", r)}
			for i := 1; i <= 12; i++ {
				vals = append(vals, fmt.Sprintf("repeat('%c%d.', %d)", 'a'+i, r, 50+r+i))
			}
			q = append(q, "insert into wd values ("+strings.Join(vals, ", ")+")")
		}
	}
	q = append(q, "insert into u values (1,1)", "call dolt_commit('-Am','base')")
	if c.Tag {
		q = append(q, "call dolt_tag('v1')", "call dolt_tag('v2','HEAD','-m','annotated')")
	}
	q = append(q,
		"call dolt_checkout('-b','other')",
		"update t set c1 = 1001 where pk = 1", "call dolt_commit('-am','other 1')",
		"insert into t (pk,c1,c2) values (5000, 5, 'other only')", "call dolt_commit('-am','other 2')",
		"call dolt_checkout('main')",
		"update t set c1 = 2001 where pk = 1", "call dolt_commit('-am','main 1')",
		"update t set c1 = 2002 where pk = 1", "call dolt_commit('-am','main 2')",
		"update t set c2 = 'main 3' where pk = 2", "call dolt_commit('-am','main 3')",
		// a merge commit in history (no conflict) so that a commit with two parents and a closure exists
		"call dolt_checkout('-b','side','HEAD~3')", "insert into u values (7,7)", "call dolt_commit('-am','side')",
		"call dolt_checkout('main')", "call dolt_merge('side','--no-ff','-m','merge side')",
	)
	if c.Stash {
		q = append(q, "insert into u values (50,50)", "call dolt_stash('push','st1')", "insert into u values (51,51)", "call dolt_stash('push','st1')")
	}
	q = append(q, "set @@dolt_allow_commit_conflicts = 1")
	switch c.Scn {
	case "merge":
		q = append(q, "call dolt_merge('other')")
	case "cherry":
		q = append(q, "call dolt_cherry_pick('other~1')")
	case "revert":
		if c.Pending {
			q = append(q, "call dolt_revert('HEAD~3','HEAD~2')")
		} else {
			q = append(q, "call dolt_revert('HEAD~3')")
		}
	case "revert_foreign":
		// revert, on main, a commit that is not in main's history: the conflict artifacts record that commit as base root-ish
		q = append(q, "call dolt_revert('other~1')")
		if c.CommitC {
			q = append(q, "call dolt_commit('-am','keep the conflicts','--force')")
		}
	case "rebase":
		q = append(q, "call dolt_checkout('other')", "call dolt_rebase('-i','main')")
	case "rebase_conflict":
		q = append(q, "call dolt_checkout('other')", "call dolt_rebase('-i','main')", "call dolt_rebase('--continue')")
	}
	if c.Staged {
		q = append(q, "insert into u values (100,100)", "call dolt_add('u')")
	}
	if c.Unstaged {
		q = append(q, "insert into u values (101,101)")
	}
	return q
}

// tolerated script errors: statements whose failure is itself the scenario (conflicts reported as errors)
func tolerated(q, e string) bool {
	le := strings.ToLower(e)
	return strings.Contains(le, "conflict") || strings.Contains(le, "constraint violation")
}

func setOf(ids []int) []int {
	m := map[int]bool{}
	for _, i := range ids {
		if i != 0 {
			m[i] = true
		}
	}
	out := make([]int, 0, len(m))
	for i := range m {
		out = append(out, i)
	}
	sort.Ints(out)
	return out
}

func Run(raw json.RawMessage) (any, error) {
	var c Case
	if err := json.Unmarshal(raw, &c); err != nil {
		return nil, err
	}
	ctx := context.Background()
	e, err := util.NewEnv(false)
	if err != nil {
		return nil, err
	}
	defer e.Close()
	s, err := e.NewSession()
	if err != nil {
		return nil, err
	}
	obs := &Obs{Objs: []ObjObs{}, StrayDetail: []string{}, ScriptErrs: []string{}, Kinds: map[string]int{}}
	for _, q := range script(c) {
		if r := Exec(s, q); r.Err != "" {
			if !tolerated(q, r.Err) {
				obs.ScriptErrs = append(obs.ScriptErrs, q+": "+r.Err)
			}
		}
	}
	ddb := e.DEnv.DoltDB(ctx)
	cs := datas.ChunkStoreFromDatabase(doltdb.ExposeDatabaseFromDoltDB(ddb))
	rec := NewRecCS(cs)
	rdb, err := doltdb.DoltDBFromCS(rec, "")
	if err != nil {
		return nil, err
	}
	if err := Examine(ctx, cs, rec, rdb, obs); err != nil {
		return obs, err
	}
	return obs, nil
}

// Examine fills obs from the store (cs unrecorded, rec/rdb recording view of the same store).
func Examine(ctx context.Context, cs chunks.ChunkStore, rec *RecCS, rdb *doltdb.DoltDB, obs *Obs) error {
	nm := &numbering{m: map[hash.Hash]int{}}
	smallOOB = 0
	defer func() { obs.SmallOOB = smallOOB }()
	root, err := cs.Root(ctx)
	if err != nil {
		return err
	}
	reach, missing, err := Closure(ctx, cs, []hash.Hash{root})
	if err != nil {
		return err
	}
	obs.Reachable = len(reach)
	if len(missing) > 0 {
		obs.StrayDetail = append(obs.StrayDetail, fmt.Sprintf("%d chunks reachable through the walker are absent", len(missing)))
		obs.Stray += len(missing)
	}
	// dataset ids by head address
	dsByAddr := map[hash.Hash][]string{}
	db := doltdb.ExposeDatabaseFromDoltDB(rdb)
	dss, err := db.Datasets(ctx)
	if err != nil {
		return err
	}
	var dsIDs []string
	_ = dss.IterAll(ctx, func(id string, a hash.Hash) error {
		dsByAddr[a] = append(dsByAddr[a], id)
		dsIDs = append(dsIDs, id)
		return nil
	})
	sort.Strings(dsIDs)

	// classify reachable chunks
	byKind := map[string][]hash.Hash{}
	var all []hash.Hash
	for h := range reach {
		all = append(all, h)
	}
	sort.Slice(all, func(i, j int) bool { return all[i].Compare(all[j]) < 0 })
	for _, h := range all {
		ch, err := cs.Get(ctx, h)
		if err != nil || ch.IsEmpty() {
			continue
		}
		k := serial.GetFileID(ch.Data())
		byKind[k] = append(byKind[k], h)
		obs.Kinds[k]++
	}
	sctx := sql.NewEmptyContext()

	load := func(f func() error) (hash.HashSet, error) {
		rdb.PurgeCaches()
		encoding.VerifPurgeSchemaCache()
		rec.Reset()
		err := f()
		return rec.Reads(), err
	}

	addObj := func(name string, h hash.Hash, loader func() error) error {
		ch, err := cs.Get(ctx, h)
		if err != nil {
			return err
		}
		msg, fields, err := decodeMsg(nm, ch.Data())
		if err != nil || msg == nil {
			return err
		}
		walked, err := RealWalk(ch.Data())
		if err != nil {
			return err
		}
		reads, lerr := load(loader)
		if lerr != nil {
			obs.ScriptErrs = append(obs.ScriptErrs, "loader "+name+": "+lerr.Error())
		}
		wset := hash.NewHashSet(walked...)
		var loaded []hash.Hash
		var miss []string
		for _, f := range fields {
			for _, a := range f.addrs {
				if reads.Has(a) {
					loaded = append(loaded, a)
					if !wset.Has(a) {
						miss = append(miss, f.name)
					}
				}
			}
		}
		if miss == nil {
			miss = []string{}
		}
		obs.Objs = append(obs.Objs, ObjObs{Name: name, Msg: *msg, Walked: setOf(nm.ids(walked)), Loaded: setOf(nm.ids(loaded)), Missing: miss})
		return nil
	}

	// store root: the datasets map
	if err := addObj("storeroot", root, func() error {
		m, err := db.Datasets(ctx)
		if err != nil {
			return err
		}
		var ids []string
		_ = m.IterAll(ctx, func(id string, _ hash.Hash) error { ids = append(ids, id); return nil })
		for _, id := range ids {
			if _, err := db.GetDataset(ctx, id); err != nil {
				return err
			}
		}
		return nil
	}); err != nil {
		return err
	}
	// working sets, tags, stash lists by dataset
	for _, id := range dsIDs {
		id := id
		ds, err := db.GetDataset(ctx, id)
		if err != nil {
			return err
		}
		h, ok := ds.MaybeHeadAddr()
		if !ok {
			continue
		}
		switch {
		case ref.IsWorkingSet(id):
			wsRef := ref.NewWorkingSetRef(id)
			if err := addObj("ws:"+id, h, func() error {
				ws, err := rdb.ResolveWorkingSet(ctx, wsRef)
				if err != nil {
					return err
				}
				if ws.MergeActive() {
					// what `--continue` does with the remaining hashes of a series
					for _, hs := range ws.MergeState().PendingRevertCommitHashes() {
						spec, err := doltdb.NewCommitSpec(hs)
						if err != nil {
							return err
						}
						if _, err := rdb.Resolve(ctx, spec, nil); err != nil {
							return err
						}
					}
				}
				return nil
			}); err != nil {
				return err
			}
		case strings.HasPrefix(id, "refs/tags/"):
			name := strings.TrimPrefix(id, "refs/tags/")
			if err := addObj("tag:"+name, h, func() error {
				_, err := rdb.ResolveTag(ctx, ref.NewTagRef(name))
				return err
			}); err != nil {
				return err
			}
		case strings.HasPrefix(id, "refs/stashes/"):
			name := strings.TrimPrefix(id, "refs/stashes/")
			if err := addObj("stashlist:"+name, h, func() error {
				sts, err := rdb.GetStashes(ctx)
				if err != nil {
					return err
				}
				for i := range sts {
					if _, _, _, err := rdb.GetStashRootAndHeadCommitAtIdx(ctx, i, name); err != nil {
						break
					}
				}
				return nil
			}); err != nil {
				return err
			}
		}
	}
	// stashes
	for i, h := range byKind[serial.StashFileID] {
		if i >= 2 {
			break
		}
		h := h
		if err := addObj(fmt.Sprintf("stash:%d", i), h, func() error {
			v, err := rdb.ValueReadWriter().ReadValue(ctx, h)
			if err != nil || v == nil {
				return err
			}
			m, err := serial.TryGetRootAsStash([]byte(v.(types.SerialMessage)), serial.MessagePrefixSz)
			if err != nil {
				return err
			}
			// datas.LoadStash equivalent: read the stash root value and the head commit
			if _, err := rdb.ReadRootValue(ctx, hash.New(m.StashRootAddrBytes())); err != nil {
				return err
			}
			_, err = rdb.ReadCommit(ctx, hash.New(m.HeadCommitAddrBytes()))
			return err
		}); err != nil {
			return err
		}
	}
	// commits: prefer those with a closure and with two parents
	commits := byKind[serial.CommitFileID]
	sort.SliceStable(commits, func(i, j int) bool { return commitRank(ctx, cs, commits[i]) > commitRank(ctx, cs, commits[j]) })
	for i, h := range commits {
		if i >= 4 {
			break
		}
		h := h
		if err := addObj(fmt.Sprintf("commit:%d", i), h, func() error {
			oc, err := rdb.ReadCommit(ctx, h)
			if err != nil {
				return err
			}
			cm, ok := oc.ToCommit()
			if !ok {
				return nil
			}
			if _, err := cm.GetRootValue(ctx); err != nil {
				return err
			}
			for p := 0; p < cm.NumParents(); p++ {
				if _, err := cm.GetParent(ctx, p); err != nil {
					return err
				}
			}
			_, err = cm.GetCommitClosure(ctx)
			return err
		}); err != nil {
			return err
		}
	}
	// root values
	for i, h := range byKind[serial.RootValueFileID] {
		if i >= 3 {
			break
		}
		h := h
		if err := addObj(fmt.Sprintf("root:%d", i), h, func() error {
			rv, err := rdb.ReadRootValue(ctx, h)
			if err != nil {
				return err
			}
			names, err := rv.GetTableNames(ctx, doltdb.DefaultSchemaName, true)
			if err != nil {
				return err
			}
			for _, n := range names {
				if _, _, err := rv.GetTable(ctx, doltdb.TableName{Name: n}); err != nil {
					return err
				}
			}
			_, err = rv.GetForeignKeyCollection(ctx)
			return err
		}); err != nil {
			return err
		}
	}
	// tables: object-level (direct fields) and tree-level (everything a complete read touches)
	tables := byKind[serial.TableFileID]
	sort.SliceStable(tables, func(i, j int) bool { return tableRank(ctx, cs, tables[i]) > tableRank(ctx, cs, tables[j]) })
	for i, h := range tables {
		if i >= 40 {
			break
		}
		h := h
		var treeReads hash.HashSet
		loader := func() error { return readWholeTable(ctx, sctx, rdb, h) }
		if i < 4 {
			if err := addObj(fmt.Sprintf("table:%d", i), h, loader); err != nil {
				return err
			}
			treeReads = rec.Reads()
		} else {
			r, err := load(loader)
			if err != nil {
				obs.ScriptErrs = append(obs.ScriptErrs, "tree loader: "+err.Error())
			}
			treeReads = r
		}
		cl, _, err := Closure(ctx, cs, []hash.Hash{h})
		if err != nil {
			return err
		}
		obs.Trees++
		for r := range treeReads {
			if !cl.Has(r) {
				obs.Stray++
				ch, _ := cs.Get(ctx, r)
				obs.StrayDetail = append(obs.StrayDetail, fmt.Sprintf("table %s: read of %s (%s) outside the walker closure", h, r, serial.GetFileID(ch.Data())))
			}
		}
		// what reading dolt_conflicts_<t> additionally dereferences: the base and their root-ish of every conflict artifact
		baseReads, berr := load(func() error { return readConflictRootIshes(ctx, rdb, h) })
		if berr != nil {
			obs.ScriptErrs = append(obs.ScriptErrs, "conflict root-ish loader: "+berr.Error())
		}
		for r := range baseReads {
			if !cl.Has(r) {
				obs.StrayBase++
				ch, _ := cs.Get(ctx, r)
				obs.StrayDetail = append(obs.StrayDetail, fmt.Sprintf("table %s: conflict root-ish read of %s (%s) outside the walker closure", h, r, serial.GetFileID(ch.Data())))
			}
		}
	}
	// commit closures: iterate completely
	for i, h := range commits {
		if i >= 3 {
			break
		}
		h := h
		reads, err := load(func() error {
			oc, err := rdb.ReadCommit(ctx, h)
			if err != nil {
				return err
			}
			cm, ok := oc.ToCommit()
			if !ok {
				return nil
			}
			cc, err := cm.GetCommitClosure(ctx)
			if err != nil {
				return err
			}
			hs, err := cc.AsHashSet(ctx)
			if err != nil {
				return err
			}
			for a := range hs {
				if _, err := rdb.ReadCommit(ctx, a); err != nil {
					return err
				}
			}
			return nil
		})
		if err != nil {
			obs.ScriptErrs = append(obs.ScriptErrs, "closure loader: "+err.Error())
		}
		cl, _, err := Closure(ctx, cs, []hash.Hash{h})
		if err != nil {
			return err
		}
		obs.Trees++
		for r := range reads {
			if !cl.Has(r) {
				obs.Stray++
				obs.StrayDetail = append(obs.StrayDetail, fmt.Sprintf("commit %s: read of %s outside the walker closure", h, r))
			}
		}
	}
	if len(obs.StrayDetail) > 10 {
		obs.StrayDetail = obs.StrayDetail[:10]
	}
	return nil
}

func commitRank(ctx context.Context, cs chunks.ChunkStore, h hash.Hash) int {
	ch, err := cs.Get(ctx, h)
	if err != nil || ch.IsEmpty() {
		return 0
	}
	m, err := serial.TryGetRootAsCommit(ch.Data(), serial.MessagePrefixSz)
	if err != nil {
		return 0
	}
	r := len(m.ParentAddrsBytes()) / hash.ByteLen
	if len(m.ParentClosureBytes()) == hash.ByteLen && !hash.New(m.ParentClosureBytes()).IsEmpty() {
		r += 2
	}
	return r
}

func tableRank(ctx context.Context, cs chunks.ChunkStore, h hash.Hash) int {
	ch, err := cs.Get(ctx, h)
	if err != nil || ch.IsEmpty() {
		return 0
	}
	m, err := serial.TryGetRootAsTable(ch.Data(), serial.MessagePrefixSz)
	if err != nil {
		return 0
	}
	r := 0
	if !hash.New(m.ArtifactsBytes()).IsEmpty() {
		r += 4
	}
	if am, err := serial.TryGetRootAsAddressMap(m.SecondaryIndexesBytes(), serial.MessagePrefixSz); err == nil && len(am.AddressArrayBytes()) > 0 {
		r += 2
	}
	if p, err := serial.TryGetRootAsProllyTreeNode(m.PrimaryIndexBytes(), serial.MessagePrefixSz); err == nil && (len(p.AddressArrayBytes()) > 0 || p.ValueAddressOffsetsLength() > 0) {
		r += 1
	}
	return r
}

// readWholeTable loads the table at h through the real loaders and reads everything it holds.
func readWholeTable(ctx context.Context, sctx *sql.Context, rdb *doltdb.DoltDB, h hash.Hash) error {
	vrw, ns := rdb.ValueReadWriter(), rdb.NodeStore()
	tbl, err := durable.TableFromAddr(ctx, vrw, ns, h)
	if err != nil {
		return err
	}
	sch, err := tbl.GetSchema(ctx)
	if err != nil {
		return err
	}
	rows, err := tbl.GetTableRows(ctx)
	if err != nil {
		return err
	}
	if err := readIndex(ctx, sctx, ns, rows); err != nil {
		return err
	}
	is, err := tbl.GetIndexes(ctx)
	if err != nil {
		return err
	}
	if err := durable.IterAllIndexes(ctx, sch, is, func(name string, idx durable.Index) error {
		return readIndex(ctx, sctx, ns, idx)
	}); err != nil {
		return err
	}
	ai, err := tbl.GetArtifacts(ctx)
	if err != nil {
		return err
	}
	am := durable.ProllyMapFromArtifactIndex(ai)
	it, err := am.IterAllArtifacts(ctx)
	if err != nil {
		return err
	}
	for {
		if _, err := it.Next(ctx); err != nil {
			break
		}
	}
	return nil
}

// readConflictRootIshes does what the dolt_conflicts_<t> reader does with every conflict artifact
// (sqle/dtables/conflicts_tables_prolly.go loadTableMaps): load the root values named by the artifact's
// base root-ish (JSON metadata in the value) and their root-ish (key).
func readConflictRootIshes(ctx context.Context, rdb *doltdb.DoltDB, h hash.Hash) error {
	vrw, ns := rdb.ValueReadWriter(), rdb.NodeStore()
	tbl, err := durable.TableFromAddr(ctx, vrw, ns, h)
	if err != nil {
		return err
	}
	ai, err := tbl.GetArtifacts(ctx)
	if err != nil {
		return err
	}
	it, err := durable.ProllyMapFromArtifactIndex(ai).IterAllConflicts(ctx)
	if err != nil {
		return err
	}
	for {
		ca, err := it.Next(ctx)
		if err != nil {
			return nil
		}
		if _, err := doltdb.LoadRootValueFromRootIshAddr(ctx, vrw, ns, ca.Metadata.BaseRootIsh); err != nil {
			return err
		}
		if _, err := doltdb.LoadRootValueFromRootIshAddr(ctx, vrw, ns, ca.TheirRootIsh); err != nil {
			return err
		}
	}
}

func readIndex(ctx context.Context, sctx *sql.Context, ns tree.NodeStore, idx durable.Index) error {
	m, err := durable.ProllyMapFromIndex(idx)
	if err != nil {
		return nil // proximity maps are not produced by this generator
	}
	return readMap(ctx, sctx, ns, m)
}

func readMap(ctx context.Context, sctx *sql.Context, ns tree.NodeStore, m prolly.Map) error {
	kd, vd := m.Descriptors()
	it, err := m.IterAll(ctx)
	if err != nil {
		return err
	}
	for {
		k, v, err := it.Next(ctx)
		if err != nil {
			break
		}
		readTuple(ctx, sctx, ns, kd, k)
		readTuple(ctx, sctx, ns, vd, v)
	}
	return nil
}

// smallOOB counts the out-of-band adaptive values with a one-byte length prefix seen by readTuple
var smallOOB int

func readTuple(ctx context.Context, sctx *sql.Context, ns tree.NodeStore, td *val.TupleDesc, t val.Tuple) {
	val.IterAdaptiveFields(td, func(j int, _ val.Type) {
		if av := val.AdaptiveValue(t.GetField(j)); av.IsOutOfBand() && len(av) == hash.ByteLen+1 {
			smallOOB++
		}
	})
	for i := 0; i < td.Count(); i++ {
		v, err := tree.GetField(ctx, td, i, t, ns)
		if err != nil || v == nil {
			continue
		}
		_ = util.Render(sctx, v) // unwraps out-of-band strings / bytes / JSON
	}
}
