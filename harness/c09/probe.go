package c09

import (
	"encoding/json"

	"verifharness/hk"
	"verifharness/util"
)

func init() { hk.Register("c09sql", RunSQL) }

// RunSQL: development probe — runs statements on a fresh repository and returns every result.
// {"q":[...], "disk":bool}
func RunSQL(raw json.RawMessage) (any, error) {
	var c struct {
		Q    []string `json:"q"`
		Disk bool     `json:"disk"`
	}
	if err := json.Unmarshal(raw, &c); err != nil {
		return nil, err
	}
	e, err := util.NewEnv(c.Disk)
	if err != nil {
		return nil, err
	}
	defer e.Close()
	s, err := e.NewSession()
	if err != nil {
		return nil, err
	}
	type R struct {
		Q    string     `json:"q"`
		Rows [][]string `json:"rows"`
		Err  string     `json:"err,omitempty"`
	}
	var out []R
	for _, q := range c.Q {
		r := s.Exec(q)
		if len(r.Rows) > 12 {
			r.Rows = r.Rows[:12]
		}
		out = append(out, R{q, r.Rows, r.Err})
	}
	return out, nil
}
