// Package c32: diff tables / table functions and dolt_patch round trip (property C32).
//
// One case = two commits of one table t(pk int primary key, a int, s varchar(40),
// x text, v varbinary(40)) (optionally with a schema change in the second commit:
// add column d int / drop column a) and a list of byte strings for the string
// literal encoder.  The harness reports the rows of dolt_diff(), of dolt_diff_t,
// the kinds of the dolt_patch() statements, the table after executing the patch
// on a checkout of the first commit, and for every string the literal produced by
// the encoder used by sqlfmt (vitess sqltypes EncodeSQL) and what the SQL
// tokenizer reads back from it.
package c32

import (
	"encoding/hex"
	"encoding/json"
	"fmt"
	"sort"
	"strconv"
	"strings"

	"github.com/dolthub/vitess/go/vt/sqlparser"

	"github.com/dolthub/dolt/go/libraries/doltcore/sqle/sqlfmt"

	"verifharness/hk"
	"verifharness/util"
)

func init() { hk.Register("c32", Run) }

// Cell: null | {"i":n} | {"s":[bytes]} (text) | {"b":[bytes]} (binary)
type Cell struct {
	I *int   `json:"i,omitempty"`
	S []int  `json:"s,omitempty"`
	B []int  `json:"b,omitempty"`
	K string `json:"k,omitempty"` // "s" / "b" for empty strings
}

type Row struct {
	K  int     `json:"k"`
	Cs []*Cell `json:"c"` // a, s, x, v [, d]
}

type Case struct {
	A      []Row   `json:"a"`
	B      []Row   `json:"b"`
	Schema string  `json:"schema"` // "" | addcol | dropcol
	Strs   [][]int `json:"strs"`
}

type DiffRow struct {
	Type string   `json:"type"`
	From []string `json:"from"` // canonical cells incl. pk, nil when added
	To   []string `json:"to"`
}

type Lit struct {
	Lit []int `json:"lit"`
	Dec []int `json:"dec"`
	Ok  bool  `json:"ok"`
}

type Obs struct {
	Rows1    [][]string `json:"rows1"`
	Rows2    [][]string `json:"rows2"`
	Diff     []DiffRow  `json:"diff"`
	DiffSys  []DiffRow  `json:"diffsys"`
	Stmts    []string   `json:"stmts"` // kinds: insert update delete alter other
	StmtTxt  []string   `json:"stmttxt"`
	RtRows   [][]string `json:"rtrows"`
	RtDataEq bool       `json:"rtdata"`
	RtSchEq  bool       `json:"rtschema"`
	RtErrs   []string   `json:"rterrs"`
	Lits     []Lit      `json:"lits"`
	Note     string     `json:"note,omitempty"`
}

func toBytes(b []int) []byte {
	out := make([]byte, len(b))
	for i, x := range b {
		out[i] = byte(x)
	}
	return out
}

func fromBytes(b []byte) []int {
	out := make([]int, len(b))
	for i, x := range b {
		out[i] = int(x)
	}
	return out
}

func lit(c *Cell) string {
	switch {
	case c == nil:
		return "NULL"
	case c.I != nil:
		return strconv.Itoa(*c.I)
	case c.K == "b" || c.B != nil:
		return "x'" + hex.EncodeToString(toBytes(c.B)) + "'"
	default:
		if len(c.S) == 0 {
			return "''"
		}
		return "CAST(x'" + hex.EncodeToString(toBytes(c.S)) + "' AS CHAR)"
	}
}

// canonical cell: N | I<n> | S<hex> | B<hex>
func canon(v string) string {
	switch {
	case v == "NULL":
		return "N"
	case strings.HasPrefix(v, "i:"):
		return "I" + v[2:]
	case strings.HasPrefix(v, "s:"):
		return "S" + hex.EncodeToString([]byte(v[2:]))
	case strings.HasPrefix(v, "b:"):
		return "B" + v[2:]
	}
	return "?" + v
}

func canonRows(rows [][]string) [][]string {
	out := make([][]string, len(rows))
	for i, r := range rows {
		out[i] = make([]string, len(r))
		for j, v := range r {
			out[i][j] = canon(v)
		}
	}
	return out
}

func insertRows(s *util.Session, rows []Row) error {
	for _, r := range rows {
		vals := []string{strconv.Itoa(r.K)}
		for _, c := range r.Cs {
			vals = append(vals, lit(c))
		}
		if err := s.MustExec("INSERT INTO t VALUES (" + strings.Join(vals, ",") + ")"); err != nil {
			return err
		}
	}
	return nil
}

func readDiff(r util.Result) ([]DiffRow, string) {
	if r.Err != "" {
		return nil, r.Err
	}
	var fromIdx, toIdx []int
	typeIdx := -1
	for i, c := range r.Cols {
		switch {
		case c == "diff_type":
			typeIdx = i
		case c == "from_commit" || c == "to_commit" || c == "from_commit_date" || c == "to_commit_date":
		case strings.HasPrefix(c, "from_"):
			fromIdx = append(fromIdx, i)
		case strings.HasPrefix(c, "to_"):
			toIdx = append(toIdx, i)
		}
	}
	// columns in a fixed order by name so that from/to line up: pk first then the rest alphabetically
	order := func(idx []int, pre string) []int {
		sort.Slice(idx, func(a, b int) bool {
			na, nb := strings.TrimPrefix(r.Cols[idx[a]], pre), strings.TrimPrefix(r.Cols[idx[b]], pre)
			if (na == "pk") != (nb == "pk") {
				return na == "pk"
			}
			return na < nb
		})
		return idx
	}
	fromIdx, toIdx = order(fromIdx, "from_"), order(toIdx, "to_")
	out := []DiffRow{}
	for _, row := range r.Rows {
		d := DiffRow{Type: strings.TrimPrefix(row[typeIdx], "s:")}
		if d.Type != "added" {
			for _, i := range fromIdx {
				d.From = append(d.From, canon(row[i]))
			}
		}
		if d.Type != "removed" {
			for _, i := range toIdx {
				d.To = append(d.To, canon(row[i]))
			}
		}
		out = append(out, d)
	}
	sort.Slice(out, func(a, b int) bool { return keyOf(out[a]) < keyOf(out[b]) })
	return out, ""
}

func keyOf(d DiffRow) int {
	c := d.To
	if c == nil {
		c = d.From
	}
	n, _ := strconv.Atoi(strings.TrimPrefix(c[0], "I"))
	return n
}

func stmtKind(s string) string {
	u := strings.ToUpper(strings.TrimSpace(s))
	switch {
	case strings.HasPrefix(u, "INSERT"):
		return "insert"
	case strings.HasPrefix(u, "UPDATE"):
		return "update"
	case strings.HasPrefix(u, "DELETE"):
		return "delete"
	case strings.HasPrefix(u, "ALTER") && strings.Contains(u, "RENAME COLUMN"):
		return "alter-rename"
	case strings.HasPrefix(u, "ALTER") && strings.Contains(u, "MODIFY COLUMN"):
		return "alter-modify"
	case strings.HasPrefix(u, "ALTER") && strings.Contains(u, " ADD "):
		return "alter-add"
	case strings.HasPrefix(u, "ALTER") && strings.Contains(u, " DROP "):
		return "alter-drop"
	case strings.HasPrefix(u, "ALTER"):
		return "alter"
	}
	return "other"
}

func Run(raw json.RawMessage) (any, error) {
	var c Case
	if err := json.Unmarshal(raw, &c); err != nil {
		return nil, err
	}
	var o Obs
	o.RtErrs = []string{}
	// ---- string literals: the encoder sqlfmt.quoteAndEscapeString uses, and the tokenizer
	for _, bs := range c.Strs {
		// the function sqlfmt uses for every string value of INSERT / UPDATE statements (add-only export)
		l := sqlfmt.VerifQuoteAndEscapeString(string(toBytes(bs)))
		tk := sqlparser.NewStringTokenizer(l)
		typ, val := tk.Scan()
		next, _ := tk.Scan()
		o.Lits = append(o.Lits, Lit{Lit: fromBytes([]byte(l)), Dec: fromBytes(val), Ok: typ == sqlparser.STRING && next == 0})
	}
	if o.Lits == nil {
		o.Lits = []Lit{}
	}
	env, err := util.NewEnv(false)
	if err != nil {
		return nil, err
	}
	defer env.Close()
	s, err := env.NewSession()
	if err != nil {
		return nil, err
	}
	if err := s.MustExec("CREATE TABLE t (pk int primary key, a int, s varchar(40), x text, v varbinary(40))"); err != nil {
		return nil, err
	}
	if err := insertRows(s, c.A); err != nil {
		return nil, err
	}
	r := s.Exec("CALL dolt_commit('-A','-m','c1')")
	if r.Err != "" {
		return nil, fmt.Errorf("commit 1: %s", r.Err)
	}
	h1 := strings.TrimPrefix(r.Rows[0][0], "s:")
	o.Rows1 = canonRows(s.Exec("SELECT * FROM t ORDER BY pk").Rows)
	switch c.Schema {
	case "addcol":
		if err := s.MustExec("ALTER TABLE t ADD COLUMN d int"); err != nil {
			return nil, err
		}
	case "dropcol":
		if err := s.MustExec("ALTER TABLE t DROP COLUMN a"); err != nil {
			return nil, err
		}
	case "rename":
		if err := s.MustExec("ALTER TABLE t RENAME COLUMN a TO a2"); err != nil {
			return nil, err
		}
	case "modify":
		if err := s.MustExec("ALTER TABLE t MODIFY COLUMN a bigint"); err != nil {
			return nil, err
		}
	case "change":
		if err := s.MustExec("ALTER TABLE t CHANGE COLUMN a a2 bigint"); err != nil {
			return nil, err
		}
	case "renmod":
		// rename in one commit, retype in the next: the patch spans both
		if err := s.MustExec("ALTER TABLE t RENAME COLUMN a TO a2", "CALL dolt_commit('-A','-m','c1b')", "ALTER TABLE t MODIFY COLUMN a2 bigint"); err != nil {
			return nil, err
		}
	}
	if err := s.MustExec("DELETE FROM t"); err != nil {
		return nil, err
	}
	if err := insertRows(s, c.B); err != nil {
		return nil, err
	}
	r = s.Exec("CALL dolt_commit('-A','--allow-empty','-m','c2')")
	if r.Err != "" {
		return nil, fmt.Errorf("commit 2: %s", r.Err)
	}
	h2 := strings.TrimPrefix(r.Rows[0][0], "s:")
	rows2 := s.Exec("SELECT * FROM t ORDER BY pk")
	o.Rows2 = canonRows(rows2.Rows)
	sch2 := s.Exec("SHOW CREATE TABLE t")

	var note string
	o.Diff, note = readDiff(s.Exec(fmt.Sprintf("SELECT * FROM dolt_diff('%s','%s','t')", h1, h2)))
	o.Note += note
	o.DiffSys, note = readDiff(s.Exec(fmt.Sprintf("SELECT * FROM dolt_diff_t WHERE to_commit='%s' AND from_commit='%s'", h2, h1)))
	o.Note += note

	p := s.Exec(fmt.Sprintf("SELECT statement FROM dolt_patch('%s','%s') ORDER BY statement_order", h1, h2))
	if p.Err != "" {
		o.Note += "patch: " + p.Err
	}
	o.Stmts = []string{}
	o.StmtTxt = []string{}
	for _, row := range p.Rows {
		st := strings.TrimPrefix(row[0], "s:")
		o.Stmts = append(o.Stmts, stmtKind(st))
		o.StmtTxt = append(o.StmtTxt, st)
	}
	// ---- round trip
	if err := s.MustExec(fmt.Sprintf("CALL dolt_checkout('-b','rt','%s')", h1)); err != nil {
		return nil, err
	}
	for _, st := range o.StmtTxt {
		if e := s.Exec(st); e.Err != "" {
			o.RtErrs = append(o.RtErrs, e.Err)
		}
	}
	rt := s.Exec("SELECT * FROM t ORDER BY pk")
	o.RtRows = canonRows(rt.Rows)
	schrt := s.Exec("SHOW CREATE TABLE t")
	o.RtDataEq = rt.Err == "" && fmt.Sprint(rt.Rows) == fmt.Sprint(rows2.Rows)
	o.RtSchEq = schrt.Err == "" && fmt.Sprint(schrt.Rows) == fmt.Sprint(sch2.Rows)
	if len(o.StmtTxt) > 40 {
		o.StmtTxt = o.StmtTxt[:40]
	}
	return o, nil
}
