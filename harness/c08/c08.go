// Package c08: garbage collection keeps everything reachable (property C08).
//
// One case = a repository recipe (the C09 scenarios: in-progress merge / cherry-pick / revert series /
// interactive rebase, stashes, tags, staged+unstaged changes, ...) + garbage (a deleted branch) + a GC mode
// + optionally a concurrent writer session.  On an on-disk repository the harness records, before
// `call dolt_gc(...)`: the results of a fixed list of read-back queries over every branch, tag, working set,
// stash and merge/rebase state, and the chunk graph reachable through the REAL walker; after: the same
// queries from a fresh session, presence of every previously reachable chunk, and closedness of the store.
package c08

import (
	"context"
	"encoding/json"
	"fmt"
	"os"
	"sort"
	"strings"
	"sync"
	"time"

	"github.com/dolthub/dolt/go/libraries/doltcore/doltdb"
	"github.com/dolthub/dolt/go/store/datas"
	"github.com/dolthub/dolt/go/store/hash"

	"verifharness/c09"
	"verifharness/hk"
	"verifharness/util"
)

func init() { hk.Register("c08", Run) }

type Case struct {
	c09.Case
	Mode       string `json:"mode"` // "", "--shallow", "--full", "--archive-level=0", "--archive-level=1"
	Concurrent bool   `json:"concurrent"`
	Continue   string `json:"cont"` // "", "revert": after GC delete nothing, try --continue of the series (F2 end-to-end)
	DropX      bool   `json:"dropx"` // revert scenario over a commit of a branch that is deleted before GC
	Remote     bool   `json:"remote"`   // remote-tracking refs (push two branches to a file remote, fetch)
	Window     bool   `json:"window"`   // commit landing between entering the collector and BeginGC (window.go)
	PreGC      bool   `json:"pregc"`    // default gc first (history moves to the old generation), then re-target refs, then the gc under test
	ConfBase   bool   `json:"confbase"` // committed conflicts whose base root-ish is a commit of a branch deleted before GC; dolt_conflicts_t is read after
}

type Obs struct {
	Graph      [][]int  `json:"graph"` // [addr, ref...] per chunk reachable before GC (real walker)
	Root       int      `json:"root"`
	Kept       bool     `json:"kept"`        // every chunk reachable from a dataset head before GC is present after
	FpEqual    bool     `json:"fp_equal"`    // read-back queries identical
	PostClosed bool     `json:"post_closed"` // after GC nothing reachable is missing
	Acked      bool     `json:"acked"`       // every acknowledged concurrent commit is readable after GC
	GcErr      string   `json:"gc_err"`
	FpDiff     []string `json:"fp_diff"`
	Missing    int      `json:"missing"`
	Before     int      `json:"before"`
	After      int      `json:"after"`
	AckedN     int      `json:"acked_n"`
	ContErr    string   `json:"cont_err"`
	ScriptErrs []string `json:"script_errs"`
}

func fingerprint(e *util.Env) (map[string]string, error) {
	s, err := e.NewSession()
	if err != nil {
		return nil, err
	}
	fp := map[string]string{}
	put := func(k string, r util.Result) {
		util.SortRows(r.Rows)
		b, _ := json.Marshal(r.Rows)
		fp[k] = string(b) + "|" + r.Err
	}
	br := s.Exec("select name, hash from dolt_branches order by name")
	put("branches", br)
	put("tags", s.Exec("select tag_name, tag_hash from dolt_tags order by tag_name"))
	tg := s.Exec("select tag_name from dolt_tags order by tag_name")
	for _, row := range tg.Rows {
		name := strings.TrimPrefix(row[0], "s:")
		put("tagdata:"+name, s.Exec(fmt.Sprintf("select * from u as of '%s'", name)))
		put("taglog:"+name, s.Exec(fmt.Sprintf("select count(*) from dolt_log('%s')", name)))
	}
	put("stashes", s.Exec("select * from dolt_stashes"))
	put("remote_branches", s.Exec("select name, hash from dolt_remote_branches order by name"))
	put("remote_data", s.Exec("select * from t as of 'origin/other'"))
	for _, row := range br.Rows {
		name := strings.TrimPrefix(row[0], "s:")
		bs, err := e.NewSession()
		if err != nil {
			return nil, err
		}
		if r := bs.Exec(fmt.Sprintf("call dolt_checkout('%s')", name)); r.Err != "" {
			fp["checkout:"+name] = r.Err
			continue
		}
		for _, q := range []string{"select * from t", "select * from u", "select * from dolt_status", "select * from dolt_merge_status",
			"select * from dolt_conflicts", "select * from dolt_conflicts_t", "select * from dolt_rebase", "select dolt_hashof_db()",
			"select dolt_hashof_db('STAGED')", "select dolt_hashof_db('HEAD')", "select commit_hash, message from dolt_log",
			"select * from dolt_diff_t", "select * from ch", "select count(*) from t where c1 > 0", "select * from w", "select * from wd"} {
			put(name+":"+q, bs.Exec(q))
		}
	}
	return fp, nil
}

func Run(raw json.RawMessage) (any, error) {
	var c Case
	if err := json.Unmarshal(raw, &c); err != nil {
		return nil, err
	}
	ctx := context.Background()
	if c.Window {
		obs := &Obs{Graph: [][]int{}, FpDiff: []string{}, ScriptErrs: []string{}}
		err := RunWindow(ctx, c, obs)
		return obs, err
	}
	e, err := util.NewEnv(true)
	if err != nil {
		return nil, err
	}
	defer e.Close()
	s, err := e.NewSession()
	if err != nil {
		return nil, err
	}
	obs := &Obs{Graph: [][]int{}, FpDiff: []string{}, ScriptErrs: []string{}}
	exec := func(qs ...string) {
		for _, q := range qs {
			if r := c09.Exec(s, q); r.Err != "" && !c09.Tolerated(q, r.Err) {
				obs.ScriptErrs = append(obs.ScriptErrs, q+": "+r.Err)
			}
		}
	}
	qs := c09.Script(c.Case)
	if c.DropX {
		// a revert series whose second commit lives on a branch that is deleted before the collection
		qs = []string{"set @@autocommit = 1", "create table t (pk int primary key, c1 int, c2 varchar(40))", "create table u (id int primary key, v int)",
			"insert into t values (1,1,'a'),(2,2,'b')", "call dolt_commit('-Am','base')",
			"call dolt_checkout('-b','x')", "insert into t values (77,77,'x')", "call dolt_commit('-am','x 1')", "call dolt_checkout('main')",
			// main gets x's change through a different commit, so that reverting x's commit on main is a real change
			"call dolt_cherry_pick('x')",
			"update t set c1 = 2001 where pk = 1", "call dolt_commit('-am','main A')", "update t set c1 = 2002 where pk = 1", "call dolt_commit('-am','main B')",
			"set @@dolt_allow_commit_conflicts = 1", "call dolt_revert('HEAD~1','x')", "call dolt_branch('-D','x')"}
	}
	if c.ConfBase {
		qs = []string{"set @@autocommit = 1", "create table t (pk int primary key, c1 int, c2 varchar(40))", "create table u (id int primary key, v int)",
			"insert into t values (1,1,'a'),(2,2,'b')", "call dolt_commit('-Am','base')",
			"call dolt_checkout('-b','x')", "update t set c1 = 77 where pk = 1", "call dolt_commit('-am','X')", "call dolt_checkout('main')",
			"update t set c1 = 2001 where pk = 1", "call dolt_commit('-am','A')",
			"set @@dolt_allow_commit_conflicts = 1", "call dolt_revert('x')", "call dolt_commit('-am','keep the conflicts','--force')",
			"call dolt_branch('-D','x')"}
	}
	exec(qs...)
	if c.Remote {
		rdir, err := os.MkdirTemp("/tmp", "c08-remote-")
		if err == nil {
			defer os.RemoveAll(rdir)
			rs, _ := e.NewSession()
			for _, q := range []string{"set @@autocommit = 1", "call dolt_checkout('other')", fmt.Sprintf("call dolt_remote('add','origin','file://%s/r')", rdir),
				"call dolt_push('origin','other')", "call dolt_push('origin','side')", "call dolt_fetch('origin')"} {
				if r := c09.Exec(rs, q); r.Err != "" {
					obs.ScriptErrs = append(obs.ScriptErrs, "remote: "+q+": "+r.Err)
				}
			}
		}
	}
	if c.PreGC {
		// history that ends up in the old generation and is afterwards reachable only from a tag / stash / working set
		ps, _ := e.NewSession()
		for _, q := range []string{"set @@autocommit = 1", "call dolt_checkout('-b','temp','main')", "insert into u values (600,600)", "call dolt_commit('-Am','temp 1')",
			"insert into u values (601,601)", "call dolt_commit('-Am','temp 2')", "call dolt_tag('vtemp')",
			"insert into u values (602,602)", "call dolt_stash('push','sttemp')",
			"call dolt_checkout('main')", "call dolt_gc()"} {
			if r := c09.Exec(ps, q); r.Err != "" && !c09.Tolerated(q, r.Err) {
				obs.ScriptErrs = append(obs.ScriptErrs, "pregc: "+q+": "+r.Err)
			}
		}
		ps2, _ := e.NewSession()
		for _, q := range []string{"set @@autocommit = 1", "call dolt_checkout('main')", "call dolt_branch('-D','temp')"} {
			if r := c09.Exec(ps2, q); r.Err != "" && !c09.Tolerated(q, r.Err) {
				obs.ScriptErrs = append(obs.ScriptErrs, "pregc: "+q+": "+r.Err)
			}
		}
	}
	// garbage: a branch with a commit, deleted
	gs, _ := e.NewSession()
	for _, q := range []string{"set @@autocommit = 1", "call dolt_checkout('-b','junk','main')", "create table junk (id int primary key)", "insert into junk values (1),(2),(3)",
		"call dolt_commit('-Am','junk')", "call dolt_checkout('main')", "call dolt_branch('-D','junk')"} {
		if r := gs.Exec(q); r.Err != "" && !strings.Contains(r.Err, "conflict") && !strings.Contains(r.Err, "merge") {
			obs.ScriptErrs = append(obs.ScriptErrs, "junk: "+q+": "+r.Err)
		}
	}
	if c.Concurrent {
		ws, _ := e.NewSession()
		for _, q := range []string{"set @@autocommit = 1", "call dolt_checkout('-b','wbranch','main~1')", "create table w (id int primary key)", "call dolt_commit('-Am','w')"} {
			if r := ws.Exec(q); r.Err != "" {
				obs.ScriptErrs = append(obs.ScriptErrs, "writer setup: "+q+": "+r.Err)
			}
		}
	}

	ddb := e.DEnv.DoltDB(ctx)
	cs := datas.ChunkStoreFromDatabase(doltdb.ExposeDatabaseFromDoltDB(ddb))
	root, err := cs.Root(ctx)
	if err != nil {
		return obs, err
	}
	reach, _, err := c09.Closure(ctx, cs, []hash.Hash{root})
	if err != nil {
		return obs, err
	}
	// dataset heads
	var heads []hash.Hash
	dss, err := doltdb.ExposeDatabaseFromDoltDB(ddb).Datasets(ctx)
	if err != nil {
		return obs, err
	}
	_ = dss.IterAll(ctx, func(id string, a hash.Hash) error {
		// the concurrent writer legitimately replaces the heads of its own branch
		if !strings.Contains(id, "wbranch") {
			heads = append(heads, a)
		}
		return nil
	})
	fromHeads, _, err := c09.Closure(ctx, cs, heads)
	if err != nil {
		return obs, err
	}
	// numbered graph
	var all []hash.Hash
	for h := range reach {
		all = append(all, h)
	}
	sort.Slice(all, func(i, j int) bool { return all[i].Compare(all[j]) < 0 })
	num := map[hash.Hash]int{}
	for i, h := range all {
		num[h] = i + 1
	}
	for _, h := range all {
		ch, err := cs.Get(ctx, h)
		if err != nil || ch.IsEmpty() {
			continue
		}
		as, err := c09.RealWalk(ch.Data())
		if err != nil {
			return obs, err
		}
		row := []int{num[h]}
		seen := map[int]bool{}
		for _, a := range as {
			if n, ok := num[a]; ok && !seen[n] {
				seen[n] = true
				row = append(row, n)
			}
		}
		obs.Graph = append(obs.Graph, row)
	}
	obs.Root = num[root]
	obs.Before = len(reach)

	fp1, err := fingerprint(e)
	if err != nil {
		return obs, err
	}

	// concurrent writer
	var wg sync.WaitGroup
	stop := make(chan struct{})
	var acked []int
	if c.Concurrent {
		wg.Add(1)
		go func() {
			defer wg.Done()
			ws, err := e.NewSession()
			if err != nil {
				return
			}
			ws.Exec("set @@autocommit = 1")
			ws.Exec("call dolt_checkout('wbranch')")
			for i := 1; i < 400; i++ {
				select {
				case <-stop:
					return
				default:
				}
				r1 := ws.Exec(fmt.Sprintf("insert into w values (%d)", i))
				if r1.Err != "" {
					// the collection may invalidate the session; reconnect as a client would
					if ns, err := e.NewSession(); err == nil {
						ws = ns
						ws.Exec("set @@autocommit = 1")
						ws.Exec("call dolt_checkout('wbranch')")
					}
					continue
				}
				r2 := ws.Exec(fmt.Sprintf("call dolt_commit('-Am','w %d')", i))
				if r2.Err == "" {
					acked = append(acked, i)
				}
			}
		}()
		time.Sleep(30 * time.Millisecond)
	}

	gcq := "call dolt_gc()"
	if c.Mode != "" {
		gcq = fmt.Sprintf("call dolt_gc('%s')", c.Mode)
	}
	g, _ := e.NewSession()
	if r := c09.Exec(g, gcq); r.Err != "" {
		obs.GcErr = r.Err
	}
	close(stop)
	wg.Wait()

	// after
	obs.Kept = true
	for h := range fromHeads {
		ok, err := cs.Has(ctx, h)
		if err != nil || !ok {
			obs.Kept = false
			obs.Missing++
		}
	}
	root2, err := cs.Root(ctx)
	if err != nil {
		return obs, err
	}
	reach2, missing2, err := c09.Closure(ctx, cs, []hash.Hash{root2})
	if err != nil {
		return obs, err
	}
	obs.After = len(reach2)
	obs.PostClosed = len(missing2) == 0
	fp2, err := fingerprint(e)
	if err != nil {
		return obs, err
	}
	obs.FpEqual = true
	for k, v := range fp1 {
		if strings.HasPrefix(k, "wbranch:") || k == "branches" {
			if k == "branches" && !c.Concurrent && fp2[k] != v {
				obs.FpEqual = false
				obs.FpDiff = append(obs.FpDiff, k)
			}
			continue
		}
		if fp2[k] != v {
			obs.FpEqual = false
			obs.FpDiff = append(obs.FpDiff, k+": "+v+" => "+fp2[k])
		}
	}
	if len(obs.FpDiff) > 5 {
		obs.FpDiff = obs.FpDiff[:5]
	}
	obs.Acked = true
	obs.AckedN = len(acked)
	if c.Concurrent {
		rs, _ := e.NewSession()
		rs.Exec("call dolt_checkout('wbranch')")
		r := rs.Exec("select id from w as of 'HEAD'")
		have := map[string]bool{}
		for _, row := range r.Rows {
			have[row[0]] = true
		}
		for _, i := range acked {
			if !have[fmt.Sprintf("i:%d", i)] {
				obs.Acked = false
			}
		}
		if r.Err != "" {
			obs.Acked = false
		}
	}
	if c.Continue == "revert" {
		ns, _ := e.NewSession()
		for _, q := range []string{"set @@autocommit = 1", "set @@dolt_allow_commit_conflicts = 1", "call dolt_conflicts_resolve('--theirs','t')", "call dolt_add('t')", "call dolt_revert('--continue')"} {
			if r := ns.Exec(q); r.Err != "" {
				obs.ContErr = q + ": " + r.Err
				break
			}
		}
		// the whole series must have been applied: main A reverted (c1 back to 1) and x's row gone
		if obs.ContErr == "" {
			r := ns.Exec("select pk, c1 from t order by pk")
			b, _ := json.Marshal(r.Rows)
			if string(b) != `[["i:1","i:1"],["i:2","i:2"]]` {
				obs.ContErr = "series not applied: " + string(b) + " " + r.Err
			}
		}
	}
	if c.Continue == "resolve" {
		// finish the operation that was in progress when the collection ran
		var qs []string
		branch := "main"
		switch c.Scn {
		case "merge":
			qs = []string{"call dolt_conflicts_resolve('--theirs','t')", "call dolt_commit('-am','merge finished after gc')"}
		case "cherry":
			qs = []string{"call dolt_conflicts_resolve('--theirs','t')", "call dolt_add('-A')", "call dolt_cherry_pick('--continue')"}
		case "rebase_conflict":
			branch = "dolt_rebase_other"
			qs = []string{"call dolt_conflicts_resolve('--theirs','t')", "call dolt_add('-A')", "call dolt_rebase('--continue')"}
		case "rebase":
			branch = "dolt_rebase_other"
			qs = []string{"call dolt_rebase('--abort')"}
		}
		ns, _ := e.NewSession()
		for _, q := range append([]string{"set @@autocommit = 1", "set @@dolt_allow_commit_conflicts = 1", fmt.Sprintf("call dolt_checkout('%s')", branch)}, qs...) {
			if r := c09.Exec(ns, q); r.Err != "" {
				obs.ContErr = q + ": " + r.Err
				break
			}
		}
	}
	if c.Continue == "conflicts_read" {
		ns, _ := e.NewSession()
		if r := ns.Exec("select base_c1, our_c1, their_c1 from dolt_conflicts_t"); r.Err != "" {
			obs.ContErr = "select from dolt_conflicts_t: " + r.Err
		} else if b, _ := json.Marshal(r.Rows); string(b) != `[["i:77","i:2001","i:1"]]` {
			obs.ContErr = "dolt_conflicts_t changed: " + string(b)
		}
	}
	return obs, nil
}
