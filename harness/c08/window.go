package c08

// A commit that lands after the collector has been entered but before the chunk store is in GC mode
// (ChunkStoreGarbageCollector.BeginGC has not installed the keeper yet).  ValueStore.GC can sit in that window
// for a long time (it waits for a previous collection; NomsBlockStore.BeginGC waits for a conjoin).  The
// interleaving is made deterministic with a chunk-store wrapper whose BeginGC lets the "concurrent session"
// write and commit just before delegating; the collection itself is the real ValueStore.GC.

import (
	"context"

	"github.com/dolthub/dolt/go/store/chunks"
	"github.com/dolthub/dolt/go/store/hash"
	"github.com/dolthub/dolt/go/store/types"
)

type windowStore struct {
	*chunks.MemoryStoreView
	beforeBeginGC func()
}

func (s *windowStore) BeginGC(ctx context.Context, keeper func(hash.Hash) bool, mode chunks.GCMode) error {
	if f := s.beforeBeginGC; f != nil {
		s.beforeBeginGC = nil
		f()
	}
	return s.MemoryStoreView.BeginGC(ctx, keeper, mode)
}

// MemoryStoreView only supports collecting into itself; unwrap |dest|.
func (s *windowStore) MarkAndSweepChunks(ctx context.Context, getAddrs chunks.GetAddrs, filter chunks.HasManyFunc, dest chunks.ChunkStore, cfg chunks.GCConfig, incremental bool) (chunks.MarkAndSweeper, error) {
	return s.MemoryStoreView.MarkAndSweepChunks(ctx, getAddrs, filter, s.MemoryStoreView, cfg, incremental)
}

type windowSafepoint struct{ vs *types.ValueStore }

func (c windowSafepoint) BeginGC(context.Context, func(hash.Hash) bool) error {
	c.vs.PurgeCaches()
	return nil
}
func (c windowSafepoint) EstablishPreFinalizeSafepoint(context.Context) error  { return nil }
func (c windowSafepoint) EstablishPostFinalizeSafepoint(context.Context) error { return nil }
func (c windowSafepoint) CancelSafepoint()                                      {}

// RunWindow: values written and committed by a "concurrent session" inside the window must survive.
// nChunks values are chained under the new root (root1 -> v_n -> ... -> v_1).
func RunWindow(ctx context.Context, c Case, obs *Obs) error {
	ts := &chunks.TestStorage{}
	cs := &windowStore{MemoryStoreView: ts.NewViewWithDefaultFormat().(*chunks.MemoryStoreView)}
	vs := types.NewValueStore(cs)

	write := func(v types.Value) (types.Ref, error) { return vs.WriteValue(ctx, v) }
	first, err := write(types.String("first"))
	if err != nil {
		return err
	}
	r0, err := write(first)
	if err != nil {
		return err
	}
	root0 := r0.TargetHash()
	empty, err := vs.Root(ctx)
	if err != nil {
		return err
	}
	if ok, err := vs.Commit(ctx, root0, empty); err != nil || !ok {
		obs.ScriptErrs = append(obs.ScriptErrs, "initial commit failed")
		return err
	}
	n := c.Rows
	if n < 1 {
		n = 1
	}
	var chain []hash.Hash
	var root1 hash.Hash
	cs.beforeBeginGC = func() {
		cur, err := write(types.String("second"))
		if err != nil {
			return
		}
		chain = append(chain, cur.TargetHash())
		for i := 1; i < n; i++ {
			cur, err = write(cur)
			if err != nil {
				return
			}
			chain = append(chain, cur.TargetHash())
		}
		top, err := write(cur)
		if err != nil {
			return
		}
		root1 = top.TargetHash()
		if ok, err := vs.Commit(ctx, root1, root0); err != nil || !ok {
			obs.ScriptErrs = append(obs.ScriptErrs, "the concurrent session's commit did not succeed")
		}
	}
	mode := chunks.GCMode_Default
	if c.Mode == "--full" {
		mode = chunks.GCMode_Full
	}
	cfg := chunks.GCConfig{Mode: mode, ArchiveLevel: chunks.NoArchive, IncrementalFileSize: chunks.IncrementalGCTablesDisabled}
	if err := vs.GC(ctx, cfg, hash.HashSet{}, hash.HashSet{}, windowSafepoint{vs}); err != nil {
		obs.GcErr = err.Error()
	}
	vs.PurgeCaches()
	if root1.IsEmpty() {
		obs.ScriptErrs = append(obs.ScriptErrs, "the concurrent session did not run inside the window")
	}
	// graph handed to the model: what is reachable from the committed root (chain, then root1)
	obs.Graph = [][]int{}
	id := 1
	prev := 0
	for range chain {
		if prev == 0 {
			obs.Graph = append(obs.Graph, []int{id})
		} else {
			obs.Graph = append(obs.Graph, []int{id, prev})
		}
		prev = id
		id++
	}
	obs.Graph = append(obs.Graph, []int{id, prev})
	obs.Root = id
	obs.Before = len(obs.Graph)
	root, err := vs.Root(ctx)
	if err != nil {
		return err
	}
	obs.Kept, obs.PostClosed, obs.FpEqual, obs.Acked = true, true, root == root1, true
	for _, h := range append(append([]hash.Hash{}, chain...), root1) {
		ok, err := cs.Has(ctx, h)
		if err != nil || !ok {
			obs.Kept = false
			obs.Missing++
		}
		if v, err := vs.ReadValue(ctx, h); err != nil || v == nil {
			obs.PostClosed = false
		}
	}
	obs.AckedN = len(chain) + 1
	return nil
}
