// Package c39: remotesrv sealed URLs and file-handler path confinement (property C39).
//
// Two kinds of cases:
//
//	seal   — the real singleSymmetricKeySealer (key chosen by the harness through the verif export)
//	         seals a URL; the sealed URL is mutated as the case says and handed to the real Unseal.
//	handle — the real filehandler.ServeHTTP is driven (httptest recorder) over a fresh sandbox
//	         directory tree with a DBCache that does what the standalone `remotesrv` binary's
//	         LocalCSCache does (go/utils/remotesrv/cscache.go is package main and cannot be imported;
//	         its Get is reproduced verbatim below). The tree is diffed around the request.
//
// Nothing is ever created outside the sandbox: a case whose path has more ".." segments than the
// root is deep inside the sandbox is refused (obs.skipped).
package c39

import (
	"context"
	"crypto/aes"
	"crypto/cipher"
	"encoding/base64"
	"encoding/json"
	"fmt"
	"net/http"
	"net/http/httptest"
	"net/url"
	"os"
	"path/filepath"
	"sort"
	"strconv"
	"strings"
	"sync"
	"time"

	"github.com/sirupsen/logrus"

	remotesapi "github.com/dolthub/dolt/go/gen/proto/dolt/services/remotesapi/v1alpha1"
	"github.com/dolthub/dolt/go/libraries/doltcore/remotesrv"
	"github.com/dolthub/dolt/go/libraries/utils/filesys"
	"github.com/dolthub/dolt/go/store/nbs"

	"verifharness/hk"
)

func init() { hk.Register("c39", Run) }

// Safety net for seeded / regressed servers: the process works from a deep scratch directory under /tmp (a relative
// escape cannot reach /repo or /verif), and request paths that begin with two or more slashes always continue with
// "tmp/c39-abs-guard/…" (the generator guarantees it, the harness refuses anything else), which the harness maps to a
// per-process directory /tmp/c39g-<pid>: if a faulty server treats such a path as absolute it lands there, is reported as a
// touched directory / served file outside /SB, and is removed again.
const guardToken = "tmp/c39-abs-guard"

var guardReal = fmt.Sprintf("tmp/c39g-%d", os.Getpid())

var chdirOnce sync.Once

func enterScratch() {
	chdirOnce.Do(func() {
		d, err := os.MkdirTemp("", "c39-cwd-")
		if err == nil {
			deep := filepath.Join(d, "d1", "d2", "d3", "d4", "d5", "d6")
			if os.MkdirAll(deep, 0o755) == nil {
				os.Chdir(deep)
			}
		}
	})
}

// leadingSlashesOK: a path with >= 2 leading slashes must continue with the guard token and contain no ".." segment
func leadingSlashesOK(p string) bool {
	t := strings.TrimLeft(p, "/")
	if len(p)-len(t) < 2 {
		return true
	}
	return strings.HasPrefix(t, guardToken+"/") && countDotDot(p) == 0
}

// ---------------------------------------------------------------- case / observation types

type Fld struct {
	K string `json:"k"` // absent | bad | val | rel (nbf/exp: original value + Off, optional Pre/Suf strings) | flip (req: flip one bit)
	V []int  `json:"v,omitempty"`
	// for K == "rel"
	Off int64 `json:"off,omitempty"`
	Pre []int `json:"pre,omitempty"`
	Suf []int `json:"suf,omitempty"`
}

type URLc struct {
	Path  []int `json:"path"`
	Query []int `json:"query"`
}

type Mut struct {
	T      string `json:"t"` // none path req reqof nonce nbf exp forge
	P      []int  `json:"p,omitempty"`
	F      *Fld   `json:"f,omitempty"`
	U2     *URLc  `json:"u2,omitempty"`
	NbfOff int64  `json:"nbf_off,omitempty"` // forge: window relative to now
	ExpOff int64  `json:"exp_off,omitempty"`
}

type Case struct {
	Kind string `json:"kind"` // seal | handle | grpc
	// grpc: RemoteChunkStore service method called in-process; repo given as repo_path, or as repo_id (org, name)
	GMethod string `json:"gmethod,omitempty"` // Root | Rebase | GetRepoMetadata | GetUploadLocations
	Org     []int  `json:"org,omitempty"`
	RName   []int  `json:"rname,omitempty"`
	UseID   bool   `json:"useid,omitempty"`
	// seal
	U   URLc `json:"u"`
	Mut Mut  `json:"mut"`
	// handle
	Mode     int     `json:"mode"`   // 0 identity sealer + URL.Path set directly; 1 real sealer over a URL string; 2 raw request target
	Method   string  `json:"method"` // GET POST PUT DELETE
	ReadOnly bool    `json:"ro"`
	QBad     bool    `json:"qbad"`
	Path     []int   `json:"path"`
	Files    [][]int `json:"files"` // planted files, relative to the sandbox (slash paths)
	Dirs     [][]int `json:"dirs"`  // planted directories, relative to the sandbox
	RootRel  []int   `json:"root"`  // root relative to the sandbox, e.g. r1/r2/r3/r4/root
}

type FldOut struct {
	K string `json:"k"` // absent | bad | val
	V []int  `json:"v"`
}

type UnsealOut struct {
	K     string `json:"k"` // ok | rej | panic
	Code  int    `json:"code"`
	Path  []int  `json:"path"`
	Query []int  `json:"query"`
	Msg   string `json:"msg,omitempty"`
}

type Obs struct {
	Skipped string `json:"skipped,omitempty"`
	// seal
	Key    []int     `json:"key,omitempty"`
	Nonce  []int     `json:"nonce,omitempty"`
	Now1   int64     `json:"now1,omitempty"`
	Now2   int64     `json:"now2,omitempty"`
	NowU   int64     `json:"nowu,omitempty"`
	SPath  []int     `json:"spath,omitempty"`
	Pt     []int     `json:"pt,omitempty"`
	MutF   *FldOut   `json:"mutf,omitempty"`  // resolved field mutation
	Nonce2 []int     `json:"nonce2,omitempty"` // reqof: the other URL's seal parameters
	D1     int64     `json:"d1,omitempty"`
	D2     int64     `json:"d2,omitempty"`
	Nbfs   []int     `json:"nbfs,omitempty"` // forge: strings used
	Exps   []int     `json:"exps,omitempty"`
	Res    UnsealOut `json:"res"`
	// handle
	Status  int     `json:"status"`
	Cleaned []int   `json:"cleaned"`
	Joined  []int   `json:"joined"`
	Read    []int   `json:"read"` // contents served (planted files contain their own /SB path); nil if none
	HasRead bool    `json:"hasread"`
	GErr    bool    `json:"gerr"` // grpc: the call returned an error
	Touched [][]int `json:"touched"`
}

func toStr(b []int) string {
	bs := make([]byte, len(b))
	for i, x := range b {
		bs[i] = byte(x)
	}
	return string(bs)
}

func fromBytes(s []byte) []int {
	out := make([]int, len(s))
	for i := range s {
		out[i] = int(s[i])
	}
	return out
}

func fromStr(s string) []int { return fromBytes([]byte(s)) }

// ---------------------------------------------------------------- sealer cases

var fixedKey = func() []byte {
	k := make([]byte, 32)
	for i := range k {
		k[i] = byte(7*i + 3)
	}
	return k
}()

const sealPrefix = "/single_symmetric_key_sealed_request/"

func gcm(key []byte) cipher.AEAD {
	block, err := aes.NewCipher(key)
	if err != nil {
		panic(err)
	}
	a, err := cipher.NewGCM(block)
	if err != nil {
		panic(err)
	}
	return a
}

func rejCode(msg string) int {
	switch {
	case strings.Contains(msg, "does not start with"):
		return 1
	case strings.Contains(msg, "does not include"):
		return 2
	case strings.Contains(msg, "error parsing nbf"), strings.Contains(msg, "error parsing exp"):
		return 3
	case strings.Contains(msg, "error parsing nonce"):
		return 4
	case strings.Contains(msg, "nbf is invalid"):
		return 5
	case strings.Contains(msg, "exp is invalid"):
		return 6
	case strings.Contains(msg, "error parsing req"):
		return 7
	case strings.Contains(msg, "error opening sealed url"):
		return 8
	case strings.Contains(msg, "error parsing unsealed request uri"):
		return 9
	case strings.Contains(msg, "did not equal request path"):
		return 10
	}
	return 99
}

func safeUnseal(s remotesrv.Sealer, u *url.URL) (out UnsealOut) {
	defer func() {
		if p := recover(); p != nil {
			out = UnsealOut{K: "panic", Msg: fmt.Sprint(p), Path: []int{}, Query: []int{}}
		}
	}()
	r, err := s.Unseal(u)
	if err != nil {
		return UnsealOut{K: "rej", Code: rejCode(err.Error()), Msg: err.Error(), Path: []int{}, Query: []int{}}
	}
	return UnsealOut{K: "ok", Path: fromStr(r.Path), Query: fromStr(r.RawQuery)}
}

// resolve a field mutation against the original raw string value of the parameter;
// returns the new raw parameter (nil = dropped) and its symbolic form.
func resolveFld(f *Fld, orig string, isB64 bool) (*string, FldOut) {
	switch f.K {
	case "absent":
		return nil, FldOut{K: "absent", V: []int{}}
	case "bad": // only meaningful for base64 parameters
		s := "!*not-base64*!"
		return &s, FldOut{K: "bad", V: []int{}}
	case "rel":
		n, _ := strconv.ParseInt(orig, 10, 64)
		s := toStr(f.Pre) + strconv.FormatInt(n+f.Off, 10) + toStr(f.Suf)
		return &s, FldOut{K: "val", V: fromStr(s)}
	case "flip":
		raw, _ := base64.RawURLEncoding.DecodeString(orig)
		if len(raw) > 0 {
			i := int(f.Off) % len(raw)
			if i < 0 {
				i += len(raw)
			}
			raw[i] ^= 0x01
		}
		s := base64.RawURLEncoding.EncodeToString(raw)
		// symbolic: bytes that are not a ciphertext of the model's AEAD
		return &s, FldOut{K: "val", V: []int{0}}
	default: // val
		if isB64 {
			s := base64.RawURLEncoding.EncodeToString([]byte(toStr(f.V)))
			return &s, FldOut{K: "val", V: f.V}
		}
		s := toStr(f.V)
		return &s, FldOut{K: "val", V: f.V}
	}
}

func runSeal(c Case) (any, error) {
	var o Obs
	key := fixedKey
	sealer := remotesrv.VerifSingleSymmetricKeySealer(key)
	a := gcm(key)
	u := &url.URL{Scheme: "http", Host: "remote.example:8080", Path: toStr(c.U.Path), RawQuery: toStr(c.U.Query)}

	var su *url.URL
	if c.Mut.T == "forge" {
		// what a holder of the key could issue: same format, chosen window
		now := time.Now().UnixMilli()
		nbfs := strconv.FormatInt(now+c.Mut.NbfOff, 10)
		exps := strconv.FormatInt(now+c.Mut.ExpOff, 10)
		nonce := []byte{9, 8, 7, 6, 5, 4, 3, 2, 1, 0, 1, 2}
		// the plaintext is taken from a URL the real sealer issues for the same request, so the forged URL has exactly
		// Seal's payload format, whatever that is
		ru, err := sealer.Seal(u)
		if err != nil {
			return nil, err
		}
		rq := ru.Query()
		rn, _ := base64.RawURLEncoding.DecodeString(rq.Get("nonce"))
		rc, _ := base64.RawURLEncoding.DecodeString(rq.Get("req"))
		rpt, err := a.Open(nil, rn, rc, []byte(rq.Get("nbf")+":"+rq.Get("exp")))
		if err != nil {
			return nil, fmt.Errorf("harness could not open what Seal produced: %w", err)
		}
		requestURI := string(rpt)
		ct := a.Seal(nil, nonce, []byte(requestURI), []byte(nbfs+":"+exps))
		r := *u
		r.Path = sealPrefix + u.EscapedPath()
		r.RawQuery = url.Values{
			"req": {base64.RawURLEncoding.EncodeToString(ct)}, "nbf": {nbfs}, "exp": {exps},
			"nonce": {base64.RawURLEncoding.EncodeToString(nonce)},
		}.Encode()
		su = &r
		o.Nbfs, o.Exps = fromStr(nbfs), fromStr(exps)
	} else {
		var err error
		su, err = sealer.Seal(u)
		if err != nil {
			return nil, err
		}
	}
	// the URL travels as a string
	su, err := url.Parse(su.String())
	if err != nil {
		return nil, err
	}
	q := su.Query()
	nonce, err := base64.RawURLEncoding.DecodeString(q.Get("nonce"))
	if err != nil {
		return nil, err
	}
	nbf, _ := strconv.ParseInt(q.Get("nbf"), 10, 64)
	exp, _ := strconv.ParseInt(q.Get("exp"), 10, 64)
	ct, err := base64.RawURLEncoding.DecodeString(q.Get("req"))
	if err != nil {
		return nil, err
	}
	pt, err := a.Open(nil, nonce, ct, []byte(q.Get("nbf")+":"+q.Get("exp")))
	if err != nil {
		return nil, fmt.Errorf("harness could not open what Seal produced: %w", err)
	}
	o.Key, o.Nonce, o.Now1, o.Now2 = fromBytes(key), fromBytes(nonce), nbf+10000, exp-900000
	o.SPath, o.Pt = fromStr(su.Path), fromBytes(pt)

	set := func(name string, v *string) {
		if v == nil {
			q.Del(name)
		} else {
			q.Set(name, *v)
		}
	}
	switch c.Mut.T {
	case "none", "forge":
	case "path":
		su.Path = toStr(c.Mut.P)
		su.RawPath = ""
	case "req":
		v, f := resolveFld(c.Mut.F, q.Get("req"), true)
		set("req", v)
		o.MutF = &f
	case "reqof":
		u2 := &url.URL{Scheme: "http", Host: "remote.example:8080", Path: toStr(c.Mut.U2.Path), RawQuery: toStr(c.Mut.U2.Query)}
		s2, err := sealer.Seal(u2)
		if err != nil {
			return nil, err
		}
		q2 := s2.Query()
		n2, _ := base64.RawURLEncoding.DecodeString(q2.Get("nonce"))
		nbf2, _ := strconv.ParseInt(q2.Get("nbf"), 10, 64)
		exp2, _ := strconv.ParseInt(q2.Get("exp"), 10, 64)
		o.Nonce2, o.D1, o.D2 = fromBytes(n2), nbf2+10000, exp2-900000
		q.Set("req", q2.Get("req"))
	case "nonce":
		v, f := resolveFld(c.Mut.F, q.Get("nonce"), true)
		set("nonce", v)
		o.MutF = &f
	case "nbf":
		v, f := resolveFld(c.Mut.F, q.Get("nbf"), false)
		set("nbf", v)
		o.MutF = &f
	case "exp":
		v, f := resolveFld(c.Mut.F, q.Get("exp"), false)
		set("exp", v)
		o.MutF = &f
	default:
		return nil, fmt.Errorf("unknown mutation %q", c.Mut.T)
	}
	su.RawQuery = q.Encode()
	su, err = url.Parse(su.String())
	if err != nil {
		return nil, err
	}
	o.NowU = time.Now().UnixMilli()
	o.Res = safeUnseal(sealer, su)
	return o, nil
}

// ---------------------------------------------------------------- handler cases

// what go/utils/remotesrv/cscache.go LocalCSCache does
type localCSCache struct {
	mu  sync.Mutex
	dbs map[string]remotesrv.RemoteSrvStore
	fs  filesys.Filesys
}

func (cache *localCSCache) Get(ctx context.Context, repopath, nbfVerStr string) (remotesrv.RemoteSrvStore, error) {
	cache.mu.Lock()
	defer cache.mu.Unlock()
	id := filepath.FromSlash(repopath)
	if cs, ok := cache.dbs[id]; ok {
		return cs, nil
	}
	err := cache.fs.MkDirs(id)
	if err != nil {
		return nil, err
	}
	path, err := cache.fs.Abs(id)
	if err != nil {
		return nil, err
	}
	var newCS *nbs.NomsBlockStore
	for attempt := 0; attempt < 6; attempt++ {
		newCS, err = nbs.NewLocalStore(ctx, nbfVerStr, path, 1<<20, nbs.NewUnlimitedMemQuotaProvider(), false)
		if err == nil || !strings.Contains(err.Error(), "lock timeout") {
			break
		}
		time.Sleep(time.Duration(200*(attempt+1)) * time.Millisecond) // harness robustness: manifest LOCK contention
	}
	if err != nil {
		return nil, err
	}
	cache.dbs[id] = newCS
	return newCS, nil
}

type entry struct{ dir bool }

func snapshot(root string) map[string]entry {
	m := map[string]entry{}
	filepath.Walk(root, func(p string, info os.FileInfo, err error) error {
		if err == nil {
			m[p] = entry{dir: info.IsDir()}
		}
		return nil
	})
	return m
}

const maxUp = 4 // root is 5 levels below the sandbox

func countDotDot(p string) int {
	n := 0
	for _, s := range strings.Split(p, "/") {
		if s == ".." {
			n++
		}
	}
	return n
}

var quiet = func() *logrus.Entry {
	l := logrus.New()
	l.SetLevel(logrus.PanicLevel)
	l.SetOutput(os.Stderr)
	return logrus.NewEntry(l)
}()

func runHandle(c Case) (any, error) {
	var o Obs
	o.Touched = [][]int{}
	p := toStr(c.Path)
	seen := p
	if c.Mode == 2 {
		un, err := url.PathUnescape(p)
		if err != nil {
			return nil, err
		}
		seen = un
	}
	if countDotDot(seen) > maxUp {
		o.Skipped = "more .. segments than the sandbox is deep"
		return o, nil
	}
	if !leadingSlashesOK(seen) {
		o.Skipped = "path with several leading slashes that does not continue with the guard directory"
		return o, nil
	}
	enterScratch()
	// the guard token in the request becomes this process's guard directory (and back in what is reported)
	p = strings.ReplaceAll(p, guardToken, guardReal)
	seen = strings.ReplaceAll(seen, guardToken, guardReal)
	guardAbs := "/" + guardReal
	os.RemoveAll(guardAbs)
	defer os.RemoveAll(guardAbs)
	rootRel := toStr(c.RootRel)
	if strings.Count(rootRel, "/") != 4 || strings.Contains(rootRel, "..") {
		return nil, fmt.Errorf("root must be exactly 5 levels below the sandbox")
	}
	sb, err := os.MkdirTemp("", "c39-sb-")
	if err != nil {
		return nil, err
	}
	defer os.RemoveAll(sb)
	norm := func(abs string) string {
		if strings.HasPrefix(abs, guardAbs) {
			return "/" + guardToken + strings.TrimPrefix(abs, guardAbs)
		}
		return "/SB" + strings.TrimPrefix(abs, sb)
	}
	root := filepath.Join(sb, rootRel)
	if err := os.MkdirAll(root, 0o755); err != nil {
		return nil, err
	}
	if strings.Contains(seen, guardReal) && c.Method == "GET" {
		// bait for a GET that treats the path as absolute: the same file name exists under the guard directory
		bait := "/" + strings.TrimLeft(seen, "/")
		if os.MkdirAll(filepath.Dir(bait), 0o755) == nil {
			os.WriteFile(bait, []byte("/"+guardToken+strings.TrimPrefix(bait, guardAbs)), 0o644)
		}
	}
	for _, d := range c.Dirs {
		if err := os.MkdirAll(filepath.Join(sb, toStr(d)), 0o755); err != nil {
			return nil, err
		}
	}
	for _, f := range c.Files {
		abs := filepath.Join(sb, toStr(f))
		if err := os.MkdirAll(filepath.Dir(abs), 0o755); err != nil {
			return nil, err
		}
		if err := os.WriteFile(abs, []byte(norm(abs)), 0o644); err != nil {
			return nil, err
		}
	}
	pin := strings.TrimLeft(strings.ReplaceAll(seen, guardReal, guardToken), "/")
	o.Cleaned = fromStr(filepath.Clean(pin))
	o.Joined = fromStr(filepath.Join("/SB/"+rootRel, pin))

	fs, err := filesys.LocalFilesysWithWorkingDir(root)
	if err != nil {
		return nil, err
	}
	cache := &localCSCache{dbs: map[string]remotesrv.RemoteSrvStore{}, fs: fs}
	defer func() {
		for _, cs := range cache.dbs {
			cs.Close()
		}
	}()
	var sealer remotesrv.Sealer
	if c.Mode == 1 {
		sealer = remotesrv.VerifSingleSymmetricKeySealer(fixedKey)
	} else {
		sealer = remotesrv.VerifIdentitySealer()
	}
	h := remotesrv.NewFileHandler(quiet, cache, fs, c.ReadOnly, sealer, false)

	body := "table file bytes written by the c39 harness"
	query := ""
	if c.Method == "POST" || c.Method == "PUT" {
		if c.QBad {
			query = fmt.Sprintf("content_length=%d", len(body))
		} else {
			query = fmt.Sprintf("num_chunks=1&content_length=%d", len(body))
		}
	}
	var req *http.Request
	switch c.Mode {
	case 0:
		req = httptest.NewRequest(c.Method, "http://remote.example/", strings.NewReader(body))
		req.URL = &url.URL{Scheme: "http", Host: "remote.example", Path: p, RawQuery: query}
	case 1:
		su, err := sealer.Seal(&url.URL{Scheme: "http", Host: "remote.example", Path: p, RawQuery: query})
		if err != nil {
			return nil, err
		}
		req = httptest.NewRequest(c.Method, su.String(), strings.NewReader(body))
	case 2:
		t := "http://remote.example" + p
		if query != "" {
			t += "?" + query
		}
		req = httptest.NewRequest(c.Method, t, strings.NewReader(body))
	default:
		return nil, fmt.Errorf("bad mode")
	}
	before := snapshot(sb)
	guardBefore := snapshot(guardAbs)
	w := httptest.NewRecorder()
	h.ServeHTTP(w, req)
	after := snapshot(sb)
	for pth, e := range snapshot(guardAbs) { // anything new under the guard directory is an escape
		if _, old := guardBefore[pth]; !old {
			after[pth] = e
		}
	}
	o.Status = w.Code

	// directories created (leaf ones) or written into
	touched := map[string]bool{}
	hasNewChild := map[string]bool{}
	for pth := range after {
		if _, old := before[pth]; !old {
			hasNewChild[filepath.Dir(pth)] = true
		}
	}
	for pth, e := range after {
		if _, old := before[pth]; old {
			continue
		}
		if e.dir {
			if !hasNewChild[pth] {
				touched[pth] = true
			}
		} else {
			touched[filepath.Dir(pth)] = true
		}
	}
	var ts []string
	for t := range touched {
		ts = append(ts, strings.ReplaceAll(norm(t), guardReal, guardToken))
	}
	sort.Strings(ts)
	for _, t := range ts {
		o.Touched = append(o.Touched, fromStr(t))
	}
	if c.Method == "GET" && (w.Code == 200 || w.Code == 206) {
		o.HasRead = true
		o.Read = fromBytes(w.Body.Bytes())
	}
	return o, nil
}

// ---------------------------------------------------------------- gRPC service cases
// The real RemoteChunkStore (NewHttpFSBackedChunkStore) over the sandbox with the LocalCSCache logic; one service
// method is called in-process with a client-chosen repo_path / repo_id and the tree is diffed around the call.
func runGrpc(c Case) (any, error) {
	var o Obs
	o.Touched = [][]int{}
	enterScratch()
	rootRel := toStr(c.RootRel)
	if strings.Count(rootRel, "/") != 4 || strings.Contains(rootRel, "..") {
		return nil, fmt.Errorf("root must be exactly 5 levels below the sandbox")
	}
	sb, err := os.MkdirTemp("", "c39-sb-")
	if err != nil {
		return nil, err
	}
	defer os.RemoveAll(sb)
	norm := func(abs string) string { return "/SB" + strings.TrimPrefix(abs, sb) }
	repoPath := toStr(c.Path)
	if c.UseID {
		repoPath = toStr(c.Org) + "/" + toStr(c.RName)
	}
	// never leave the sandbox: relative paths may climb at most maxUp levels, absolute ones must be "/SB/..."
	if strings.HasPrefix(repoPath, "/") {
		if !strings.HasPrefix(repoPath, "/SB/") || countDotDot(repoPath) > 0 {
			o.Skipped = "absolute repo path outside the sandbox"
			return o, nil
		}
	} else if countDotDot(repoPath) > maxUp {
		o.Skipped = "more .. segments than the sandbox is deep"
		return o, nil
	}
	real := func(p string) string {
		if strings.HasPrefix(p, "/SB/") {
			return sb + strings.TrimPrefix(p, "/SB")
		}
		return p
	}
	root := filepath.Join(sb, rootRel)
	if err := os.MkdirAll(root, 0o755); err != nil {
		return nil, err
	}
	for _, d := range c.Dirs {
		if err := os.MkdirAll(filepath.Join(sb, toStr(d)), 0o755); err != nil {
			return nil, err
		}
	}
	for _, f := range c.Files {
		abs := filepath.Join(sb, toStr(f))
		if err := os.MkdirAll(filepath.Dir(abs), 0o755); err != nil {
			return nil, err
		}
		if err := os.WriteFile(abs, []byte(norm(abs)), 0o644); err != nil {
			return nil, err
		}
	}
	o.Joined = fromStr(filepath.Join("/SB/"+rootRel, repoPath))
	o.Cleaned = fromStr(filepath.Clean(repoPath))
	fs, err := filesys.LocalFilesysWithWorkingDir(root)
	if err != nil {
		return nil, err
	}
	cache := &localCSCache{dbs: map[string]remotesrv.RemoteSrvStore{}, fs: fs}
	defer func() {
		for _, cs := range cache.dbs {
			cs.Close()
		}
	}()
	rs := remotesrv.NewHttpFSBackedChunkStore(quiet, "remote.example:80", cache, fs, "http", remotesapi.PushConcurrencyControl_PUSH_CONCURRENCY_CONTROL_IGNORE_WORKING_SET,
		remotesrv.VerifSingleSymmetricKeySealer(fixedKey), nil)
	ctx := context.Background()
	var id *remotesapi.RepoId
	rp := real(repoPath)
	if c.UseID {
		id = &remotesapi.RepoId{Org: real(toStr(c.Org)), RepoName: toStr(c.RName)}
		rp = ""
	}
	before := snapshot(sb)
	var cerr error
	switch c.GMethod {
	case "Root":
		_, cerr = rs.Root(ctx, &remotesapi.RootRequest{RepoId: id, RepoPath: rp})
	case "Rebase":
		_, cerr = rs.Rebase(ctx, &remotesapi.RebaseRequest{RepoId: id, RepoPath: rp})
	case "GetRepoMetadata":
		_, cerr = rs.GetRepoMetadata(ctx, &remotesapi.GetRepoMetadataRequest{RepoId: id, RepoPath: rp,
			ClientRepoFormat: &remotesapi.ClientRepoFormat{NbfVersion: "__DOLT__", NbsVersion: "5"}})
	case "GetUploadLocations":
		h := make([]byte, 20)
		_, cerr = rs.GetUploadLocations(ctx, &remotesapi.GetUploadLocsRequest{RepoId: id, RepoPath: rp, TableFileHashes: [][]byte{h},
			TableFileDetails: []*remotesapi.TableFileDetails{{Id: h, ContentLength: 1, NumChunks: 1}}})
	default:
		return nil, fmt.Errorf("unknown grpc method %q", c.GMethod)
	}
	after := snapshot(sb)
	o.GErr = cerr != nil
	touched := map[string]bool{}
	hasNewChild := map[string]bool{}
	for pth := range after {
		if _, old := before[pth]; !old {
			hasNewChild[filepath.Dir(pth)] = true
		}
	}
	for pth, e := range after {
		if _, old := before[pth]; old {
			continue
		}
		if e.dir {
			if !hasNewChild[pth] {
				touched[pth] = true
			}
		} else {
			touched[filepath.Dir(pth)] = true
		}
	}
	var ts []string
	for t := range touched {
		ts = append(ts, norm(t))
	}
	sort.Strings(ts)
	for _, t := range ts {
		o.Touched = append(o.Touched, fromStr(t))
	}
	return o, nil
}

func Run(raw json.RawMessage) (any, error) {
	var c Case
	if err := json.Unmarshal(raw, &c); err != nil {
		return nil, err
	}
	switch c.Kind {
	case "seal":
		return runSeal(c)
	case "handle":
		return runHandle(c)
	case "grpc":
		return runGrpc(c)
	}
	return nil, fmt.Errorf("unknown kind %q", c.Kind)
}
