// Package c37: schemas serialize faithfully and column tags are deterministic (property C37).
//
// One case is a DDL script in two parts (Main, Branch). The harness
//   - runs Main on `main` of a fresh in-memory repository A, commits, then runs Branch on two
//     branches b1 and b2 forked from that commit, commits both and merges b1 into b2;
//   - runs Main, a commit, and Branch on `main` of an independent fresh repository B;
//   - after every tag-relevant statement of the A/main and A/b1 runs reads the working root back
//     through the doltdb API (root.GetTable -> table.GetSchema) and reports table -> (column, kind, tag);
//   - reports, for every column that needed a fresh tag, the seed key (simple table name, simple column
//     name, kinds of the existing columns, kind) and the first candidates the real
//     schema.AutoGenerateTag draws for that key (obtained by calling the exported function with a
//     growing exclusion set: same seed => same sequence);
//   - for every table of the final b1 root runs the real encoding.SerializeSchema /
//     encoding.DeserializeSchema and reports the modelled fields of the stored and of the
//     round-tripped schema side by side, plus schema.SchemasAreEqual and TypeInfo.Equals per column.
//
// The harness only executes and renders; the generator (props/c37.py) writes the script.
package c37

import (
	"bytes"
	"context"
	"crypto/sha1"
	"encoding/hex"
	"encoding/json"
	"fmt"
	"regexp"
	"sort"
	"strings"

	"github.com/dolthub/dolt/go/libraries/doltcore/doltdb"
	"github.com/dolthub/dolt/go/libraries/doltcore/schema"
	"github.com/dolthub/dolt/go/libraries/doltcore/schema/encoding"
	"github.com/dolthub/dolt/go/libraries/doltcore/sqle/dsess"
	"github.com/dolthub/dolt/go/store/types"
	"github.com/dolthub/go-mysql-server/sql/expression/function/vector"

	"verifharness/hk"
	"verifharness/util"
)

func init() { hk.Register("c37", Run) }

type Stmt struct {
	Op    string `json:"op"`              // create | addcol | dropcol | droptable | rename | modify | commit | other
	Table string `json:"table,omitempty"` // exact table name
	Col   string `json:"col,omitempty"`   // addcol/dropcol/rename/modify: the column
	To    string `json:"to,omitempty"`    // rename: new name
	Q     string `json:"q"`
}

type Case struct {
	Main   []Stmt   `json:"main"`
	Branch []Stmt   `json:"branch"`
	Extra  []string `json:"extra"` // run in a third repository C: tables with fulltext / vector indexes and foreign keys (round trip only)
	// same DDL statements, different commit placement: Base is committed; X and Y are run on two branches of one repository
	// (then merged) and Y also in an independent repository; Fresh in a repository that never had the tables
	Recreate *Recreate `json:"recreate,omitempty"`
}

type Recreate struct {
	Base  []Stmt `json:"base"`
	X     []Stmt `json:"x"`
	Y     []Stmt `json:"y"`
	Fresh []Stmt `json:"fresh"`
}

type RCObs struct {
	Base    []StepObs   `json:"base"`
	X       []StepObs   `json:"x"`
	Y       []StepObs   `json:"y"`
	Fresh   []StepObs   `json:"fresh"`
	YRepoE  []string    `json:"yrepoerrs"`
	XT      []Tbl       `json:"xt"`
	YT      []Tbl       `json:"yt"`
	YRepoT  []Tbl       `json:"yrepot"`
	FreshT  []Tbl       `json:"fresht"`
	Merge   util.Result `json:"merge"`
	SchConf util.Result `json:"schconf"`
	Merged  []Tbl       `json:"merged"`
}

type ColTag struct {
	Name string `json:"name"`
	Kind int    `json:"kind"`
	Tag  uint64 `json:"tag"`
}

type Tbl struct {
	Name string   `json:"name"`
	Cols []ColTag `json:"cols"`
}

type Cand struct {
	Table string   `json:"table"` // simple table name
	Col   string   `json:"col"`   // simple column name
	Kinds []int    `json:"kinds"`
	Kind  int      `json:"kind"`
	Seq   []uint64 `json:"seq"`
}

type StepObs struct {
	Err   string   `json:"err"`
	Kinds []int    `json:"kinds"` // create: kinds of the declared columns in order; addcol/modify: kind of the column
	Names []string `json:"names"` // create: stored column names in order
	Pos   int      `json:"pos"`   // addcol: position of the new column in the stored schema
	After []Tbl    `json:"after"` // working root after the statement (tables sorted by name)
}

type ColF struct {
	Name     string `json:"name"`
	Tag      uint64 `json:"tag"`
	Ty       string `json:"ty"` // sql type string '#' storage encoding
	Nullable bool   `json:"nullable"`
	PK       bool   `json:"pk"`
	AutoInc  bool   `json:"autoinc"`
	Default  string `json:"default"`
	Gen      string `json:"gen"`
	OnUpd    string `json:"onupd"`
	Virtual  bool   `json:"virtual"`
	Comment  string `json:"comment"`
	Hidden   bool   `json:"hidden"`
	SysHid   bool   `json:"syshidden"`
	TyEq     bool   `json:"tyeq"` // TypeInfo.Equals(stored, round-tripped) (only meaningful on the round-tripped side)
}

type FTF struct {
	Config   string `json:"config"`
	Pos      string `json:"pos"`
	DocCount string `json:"doccount"`
	Global   string `json:"global"`
	RowCount string `json:"rowcount"`
	KeyType  int    `json:"keytype"`
	KeyName  string `json:"keyname"`
	KeyPos   []int  `json:"keypos"`
}

type IdxF struct {
	Name      string   `json:"name"`
	Tags      []uint64 `json:"tags"`
	Unique    bool     `json:"unique"`
	Comment   string   `json:"comment"`
	Prefix    []int    `json:"prefix"`
	UserDef   bool     `json:"userdef"`
	Spatial   bool     `json:"spatial"`
	Fulltext  bool     `json:"fulltext"`
	Vector    bool     `json:"vector"`
	Predicate string   `json:"predicate"`
	FT        FTF      `json:"ft"`
	VecDist   int      `json:"vecdist"` // 0 none (zero value), 1 L2Squared, 2 anything else
}

type ChkF struct {
	Name     string `json:"name"`
	Expr     string `json:"expr"`
	Enforced bool   `json:"enforced"`
	NotValid bool   `json:"notvalid"`
}

// FKF is one doltdb.ForeignKey, field by field.
type FKF struct {
	Name      string   `json:"name"`
	Table     string   `json:"table"` // schema NUL name when schema-qualified
	Index     string   `json:"index"`
	Cols      []uint64 `json:"cols"`
	RefTable  string   `json:"reftable"`
	RefIndex  string   `json:"refindex"`
	RefCols   []uint64 `json:"refcols"`
	OnUpdate  int      `json:"onupdate"`
	OnDelete  int      `json:"ondelete"`
	UnresCols []string `json:"unrescols"`
	UnresRef  []string `json:"unresref"`
	NotValid  bool     `json:"notvalid"`
	Match     int      `json:"match"`
}

type FKObs struct {
	Env    string `json:"env"`
	Err    string `json:"err"`
	Stored []FKF  `json:"stored"`
	Back   []FKF  `json:"back"`
	Twice  bool   `json:"twice"` // serializing twice, and serializing the deserialized collection, give identical bytes
}

type SchF struct {
	Cols    []ColF `json:"cols"`
	PkOrd   []int  `json:"pkord"`
	Idx     []IdxF `json:"idx"`
	Chk     []ChkF `json:"chk"`
	Coll    int    `json:"coll"`
	Comment string `json:"comment"`
	RowSize int    `json:"rowsize"`
}

type RT struct {
	Table  string `json:"table"`
	Err    string `json:"err"`
	Stored SchF   `json:"stored"`
	Back   SchF   `json:"back"`
	Equal  bool   `json:"equal"` // schema.SchemasAreEqual(stored, back)
	Create string `json:"create"` // SHOW CREATE TABLE in repository A (b1)
	Env    string `json:"env"`    // "A" (branch b1 of repository A) or "C" (the extra script's repository)
	Twice  bool   `json:"twice"`  // SerializeSchema(sch) twice: identical bytes
	Reser  bool   `json:"reser"`  // SerializeSchema(DeserializeSchema(bytes)) = bytes
	Bytes  string `json:"bytes"`  // sha1 of the serialized message
	Hash   string `json:"hash"`   // table.GetSchemaHash
}

type Obs struct {
	Steps    []StepObs         `json:"steps"` // Main ++ Branch(b1) in repository A
	Cands    []Cand            `json:"cands"`
	B1       []Tbl             `json:"b1"`
	B2       []Tbl             `json:"b2"`
	B2Errs   []string          `json:"b2errs"`
	EnvB     []Tbl             `json:"envb"`
	EnvBErrs []string          `json:"envberrs"`
	Merge    util.Result       `json:"merge"`
	SchConf  util.Result       `json:"schconf"`
	Merged   []Tbl             `json:"merged"`
	RT       []RT              `json:"rt"`
	CreateB  map[string]string `json:"createb"` // SHOW CREATE TABLE in repository B
	BytesB   map[string]string `json:"bytesb"`  // sha1 of SerializeSchema of the table's schema as read in repository B
	HashB    map[string]string `json:"hashb"`   // table.GetSchemaHash in repository B
	HashB2   map[string]string `json:"hashb2"`  // table.GetSchemaHash on branch b2 of repository A
	FKs      []FKObs           `json:"fks"`
	ExtraErr []string          `json:"extraerr"`
	RC       *RCObs            `json:"rc,omitempty"`
}

var simpleRe = regexp.MustCompile("[^a-zA-Z0-9]+")

// same transformation as schema.simpleString (unexported); only used to label the candidate keys
func simple(s string) string { return strings.ToLower(simpleRe.ReplaceAllString(s, "")) }

func roots(s *util.Session) (doltdb.Roots, error) {
	r, ok := dsess.DSessFromSess(s.Ctx.Session).GetRoots(s.Ctx, s.E.DBName)
	if !ok {
		return doltdb.Roots{}, fmt.Errorf("no roots for %s", s.E.DBName)
	}
	return r, nil
}

func rootTables(ctx context.Context, root doltdb.RootValue) ([]Tbl, error) {
	names, err := root.GetTableNames(ctx, doltdb.DefaultSchemaName, true)
	if err != nil {
		return nil, err
	}
	sort.Strings(names)
	out := []Tbl{}
	for _, n := range names {
		t, ok, err := root.GetTable(ctx, doltdb.TableName{Name: n})
		if err != nil || !ok {
			return nil, fmt.Errorf("GetTable %s: %v %v", n, ok, err)
		}
		sch, err := t.GetSchema(ctx)
		if err != nil {
			return nil, err
		}
		tb := Tbl{Name: n, Cols: []ColTag{}}
		for _, col := range sch.GetAllCols().GetColumns() {
			tb.Cols = append(tb.Cols, ColTag{Name: col.Name, Kind: int(col.Kind), Tag: col.Tag})
		}
		out = append(out, tb)
	}
	return out, nil
}

func findTbl(ts []Tbl, name string) *Tbl {
	for i := range ts {
		if ts[i].Name == name {
			return &ts[i]
		}
	}
	return nil
}

// candidates enumerates the first distinct values the real AutoGenerateTag draws for a seed key,
// until one falls outside |avoid| (that one included).
func candidates(table string, kinds []types.NomsKind, col string, kind types.NomsKind, avoid map[uint64]bool) []uint64 {
	excl := schema.TagMapping{}
	var seq []uint64
	for len(seq) < 64 {
		t := schema.AutoGenerateTag(excl, table, kinds, col, kind)
		seq = append(seq, t)
		excl.Add(t, table)
		if !avoid[t] {
			break
		}
	}
	return seq
}

type runner struct {
	s     *util.Session
	cands map[string]Cand
}

// step executes one statement; when |detail| it also reports the state and the candidate keys.
func (r *runner) step(st Stmt, detail bool) (StepObs, error) {
	o := StepObs{Kinds: []int{}, Names: []string{}, After: []Tbl{}}
	ctx := r.s.Ctx
	var pre doltdb.Roots
	var preWork []Tbl
	var err error
	if detail {
		if pre, err = roots(r.s); err != nil {
			return o, err
		}
		if preWork, err = rootTables(ctx, pre.Working); err != nil {
			return o, err
		}
	}
	res := r.s.Exec(st.Q)
	o.Err = res.Err
	if !detail {
		return o, nil
	}
	post, err := roots(r.s)
	if err != nil {
		return o, err
	}
	if o.After, err = rootTables(ctx, post.Working); err != nil {
		return o, err
	}
	if res.Err != "" {
		return o, nil
	}
	avoid := map[uint64]bool{}
	for _, rt := range []doltdb.RootValue{pre.Head, pre.Working, post.Working} {
		tm, err := doltdb.GetAllTagsForRoots(ctx, rt)
		if err != nil {
			return o, err
		}
		for t := range tm {
			avoid[t] = true
		}
	}
	tn := doltdb.TableName{Name: st.Table}
	var names []string
	var kinds []types.NomsKind
	var head doltdb.RootValue
	switch st.Op {
	case "create":
		t := findTbl(o.After, st.Table)
		if t == nil {
			return o, fmt.Errorf("created table %s not in the working root", st.Table)
		}
		for _, c := range t.Cols {
			names = append(names, c.Name)
			kinds = append(kinds, types.NomsKind(c.Kind))
			o.Names = append(o.Names, c.Name)
			o.Kinds = append(o.Kinds, c.Kind)
		}
		head = pre.Head
	case "addcol", "modify":
		t := findTbl(o.After, st.Table)
		if t == nil {
			return o, fmt.Errorf("altered table %s not in the working root", st.Table)
		}
		o.Pos = -1
		for i, c := range t.Cols {
			if strings.EqualFold(c.Name, st.Col) {
				o.Pos = i
				o.Kinds = append(o.Kinds, c.Kind)
				names = append(names, c.Name)
				kinds = append(kinds, types.NomsKind(c.Kind))
			}
		}
		if o.Pos < 0 {
			return o, fmt.Errorf("column %s not found after %s", st.Col, st.Q)
		}
		if st.Op == "modify" {
			return o, nil
		}
	default:
		return o, nil
	}
	_ = preWork
	// the seed keys: the real GetExistingColumns decides which stored columns take part
	// (all columns of the table in the working root; for a table only present in HEAD the shared ones)
	existing, err := doltdb.GetExistingColumns(ctx, pre.Working, head, tn, names, kinds)
	if err != nil {
		return o, err
	}
	var ekinds []types.NomsKind
	for _, c := range existing {
		ekinds = append(ekinds, c.Kind)
	}
	for i := range names {
		reused := false
		for _, c := range existing {
			if strings.EqualFold(names[i], c.Name) && kinds[i] == c.TypeInfo.NomsKind() {
				reused = true
			}
		}
		if reused {
			continue
		}
		ks := make([]int, len(ekinds))
		for j, k := range ekinds {
			ks[j] = int(k)
		}
		cd := Cand{Table: simple(st.Table), Col: simple(names[i]), Kinds: ks, Kind: int(kinds[i])}
		key := fmt.Sprintf("%s|%s|%v|%d", cd.Table, cd.Col, cd.Kinds, cd.Kind)
		seq := candidates(st.Table, ekinds, names[i], kinds[i], avoid)
		if old, ok := r.cands[key]; !ok || len(old.Seq) < len(seq) {
			cd.Seq = seq
			r.cands[key] = cd
		}
		ekinds = append(ekinds, kinds[i])
	}
	return o, nil
}

func schFields(sch, ref schema.Schema) SchF {
	f := SchF{Cols: []ColF{}, PkOrd: []int{}, Idx: []IdxF{}, Chk: []ChkF{}}
	refCols := ref.GetAllCols().GetColumns()
	for i, c := range sch.GetAllCols().GetColumns() {
		cf := ColF{Name: c.Name, Tag: c.Tag, Ty: fmt.Sprintf("%s#%d", c.TypeInfo.ToSqlType().String(), c.TypeInfo.Encoding()),
			Nullable: c.IsNullable(), PK: c.IsPartOfPK, AutoInc: c.AutoIncrement, Default: c.Default, Gen: c.Generated,
			OnUpd: c.OnUpdate, Virtual: c.Virtual, Comment: c.Comment, Hidden: c.Hidden, SysHid: c.SystemHidden}
		if i < len(refCols) {
			cf.TyEq = c.TypeInfo.Equals(refCols[i].TypeInfo) && c.Kind == refCols[i].Kind
		}
		f.Cols = append(f.Cols, cf)
	}
	f.PkOrd = append(f.PkOrd, sch.GetPkOrdinals()...)
	for _, ix := range sch.Indexes().AllIndexes() {
		xf := IdxF{Name: ix.Name(), Tags: append([]uint64{}, ix.IndexedColumnTags()...), Unique: ix.IsUnique(), Comment: ix.Comment(), Prefix: []int{}}
		for _, p := range ix.PrefixLengths() {
			xf.Prefix = append(xf.Prefix, int(p))
		}
		xf.UserDef, xf.Spatial, xf.Fulltext, xf.Vector, xf.Predicate = ix.IsUserDefined(), ix.IsSpatial(), ix.IsFullText(), ix.IsVector(), ix.Predicate()
		fp := ix.FullTextProperties()
		xf.FT = FTF{Config: fp.ConfigTable, Pos: fp.PositionTable, DocCount: fp.DocCountTable, Global: fp.GlobalCountTable, RowCount: fp.RowCountTable,
			KeyType: int(fp.KeyType), KeyName: fp.KeyName, KeyPos: []int{}}
		for _, p := range fp.KeyPositions {
			xf.FT.KeyPos = append(xf.FT.KeyPos, int(p))
		}
		switch ix.VectorProperties().DistanceType.(type) {
		case nil:
			xf.VecDist = 0
		case vector.DistanceL2Squared:
			xf.VecDist = 1
		default:
			xf.VecDist = 2
		}
		f.Idx = append(f.Idx, xf)
	}
	if sch.Checks() != nil {
		for _, ck := range sch.Checks().AllChecks() {
			f.Chk = append(f.Chk, ChkF{Name: ck.Name(), Expr: ck.Expression(), Enforced: ck.Enforced(), NotValid: ck.IsNotValid()})
		}
	}
	f.Coll = int(sch.GetCollation())
	f.Comment = sch.GetComment()
	f.RowSize = int(sch.GetTargetRowSize())
	return f
}

func sha(b []byte) string { h := sha1.Sum(b); return hex.EncodeToString(h[:]) }

func roundTrips(s *util.Session, env string) ([]RT, error) {
	rs, err := roots(s)
	if err != nil {
		return nil, err
	}
	ctx := s.Ctx
	names, err := rs.Working.GetTableNames(ctx, doltdb.DefaultSchemaName, true)
	if err != nil {
		return nil, err
	}
	sort.Strings(names)
	out := []RT{}
	for _, n := range names {
		rt := RT{Table: n, Env: env}
		t, ok, err := rs.Working.GetTable(ctx, doltdb.TableName{Name: n})
		if err != nil || !ok {
			return nil, fmt.Errorf("GetTable %s: %v %v", n, ok, err)
		}
		sch, err := t.GetSchema(ctx)
		if err != nil {
			return nil, err
		}
		rt.Stored = schFields(sch, sch)
		rt.Back = SchF{Cols: []ColF{}, PkOrd: []int{}, Idx: []IdxF{}, Chk: []ChkF{}}
		vrw := t.ValueReadWriter()
		msg, err := encoding.SerializeSchema(ctx, vrw, sch)
		if err != nil {
			rt.Err = "serialize: " + err.Error()
		} else if back, err := encoding.DeserializeSchema(ctx, vrw.Format(), msg); err != nil {
			rt.Err = "deserialize: " + err.Error()
		} else {
			rt.Back = schFields(back, sch)
			rt.Equal = schema.SchemasAreEqual(sch, back)
			rt.Bytes = sha([]byte(msg))
			if msg2, err := encoding.SerializeSchema(ctx, vrw, sch); err == nil {
				rt.Twice = bytes.Equal([]byte(msg), []byte(msg2))
			}
			if msg3, err := encoding.SerializeSchema(ctx, vrw, back); err == nil {
				rt.Reser = bytes.Equal([]byte(msg), []byte(msg3))
			}
		}
		if h, err := t.GetSchemaHash(ctx); err == nil {
			rt.Hash = h.String()
		}
		r := s.Exec("show create table `" + n + "`")
		if r.Err == "" && len(r.Rows) == 1 && len(r.Rows[0]) == 2 {
			rt.Create = r.Rows[0][1]
		} else {
			rt.Create = "ERR " + r.Err
		}
		out = append(out, rt)
	}
	return out, nil
}

// schemaIDs: per table of the session's working root, sha1 of SerializeSchema and the stored schema hash.
func schemaIDs(s *util.Session) (map[string]string, map[string]string, error) {
	rs, err := roots(s)
	if err != nil {
		return nil, nil, err
	}
	ctx := s.Ctx
	names, err := rs.Working.GetTableNames(ctx, doltdb.DefaultSchemaName, true)
	if err != nil {
		return nil, nil, err
	}
	bs, hs := map[string]string{}, map[string]string{}
	for _, n := range names {
		t, ok, err := rs.Working.GetTable(ctx, doltdb.TableName{Name: n})
		if err != nil || !ok {
			return nil, nil, fmt.Errorf("GetTable %s: %v %v", n, ok, err)
		}
		sch, err := t.GetSchema(ctx)
		if err != nil {
			return nil, nil, err
		}
		if msg, err := encoding.SerializeSchema(ctx, t.ValueReadWriter(), sch); err == nil {
			bs[n] = sha([]byte(msg))
		}
		if h, err := t.GetSchemaHash(ctx); err == nil {
			hs[n] = h.String()
		}
	}
	return bs, hs, nil
}

func fkFields(fkc *doltdb.ForeignKeyCollection) []FKF {
	out := []FKF{}
	enc := func(tn doltdb.TableName) string {
		if tn.Schema == "" {
			return tn.Name
		}
		return tn.Schema + "\x00" + tn.Name
	}
	for _, fk := range fkc.AllKeys() {
		f := FKF{Name: fk.Name, Table: enc(fk.TableName), Index: fk.TableIndex, Cols: append([]uint64{}, fk.TableColumns...),
			RefTable: enc(fk.ReferencedTableName), RefIndex: fk.ReferencedTableIndex, RefCols: append([]uint64{}, fk.ReferencedTableColumns...),
			OnUpdate: int(fk.OnUpdate), OnDelete: int(fk.OnDelete),
			UnresCols: append([]string{}, fk.UnresolvedFKDetails.TableColumns...), UnresRef: append([]string{}, fk.UnresolvedFKDetails.ReferencedTableColumns...),
			NotValid: fk.IsNotValid, Match: int(fk.MatchType)}
		out = append(out, f)
	}
	return out
}

// fkRoundTrip pushes the root's foreign key collection through the real SerializeForeignKeys / DeserializeForeignKeys.
func fkRoundTrip(s *util.Session, env string) (FKObs, error) {
	o := FKObs{Env: env, Stored: []FKF{}, Back: []FKF{}}
	rs, err := roots(s)
	if err != nil {
		return o, err
	}
	ctx := s.Ctx
	fkc, err := rs.Working.GetForeignKeyCollection(ctx)
	if err != nil {
		return o, err
	}
	o.Stored = fkFields(fkc)
	vrw := rs.Working.VRW()
	v, err := doltdb.SerializeForeignKeys(ctx, vrw, fkc)
	if err != nil {
		o.Err = "serialize: " + err.Error()
		return o, nil
	}
	back, err := doltdb.DeserializeForeignKeys(ctx, vrw.Format(), v)
	if err != nil {
		o.Err = "deserialize: " + err.Error()
		return o, nil
	}
	o.Back = fkFields(back)
	v2, err2 := doltdb.SerializeForeignKeys(ctx, vrw, fkc)
	v3, err3 := doltdb.SerializeForeignKeys(ctx, vrw, back)
	if err2 == nil && err3 == nil {
		b1, b2, b3 := []byte(v.(types.SerialMessage)), []byte(v2.(types.SerialMessage)), []byte(v3.(types.SerialMessage))
		o.Twice = bytes.Equal(b1, b2) && bytes.Equal(b1, b3)
	}
	return o, nil
}

func finalTables(s *util.Session) ([]Tbl, error) {
	rs, err := roots(s)
	if err != nil {
		return nil, err
	}
	return rootTables(s.Ctx, rs.Working)
}

func Run(raw json.RawMessage) (any, error) {
	var c Case
	if err := json.Unmarshal(raw, &c); err != nil {
		return nil, err
	}
	o := Obs{Steps: []StepObs{}, Cands: []Cand{}, B2Errs: []string{}, EnvBErrs: []string{}, CreateB: map[string]string{}}

	// ---- repository A ----
	envA, err := util.NewEnv(false)
	if err != nil {
		return nil, err
	}
	defer envA.Close()
	sA, err := envA.NewSession()
	if err != nil {
		return nil, err
	}
	r := &runner{s: sA, cands: map[string]Cand{}}
	for _, st := range c.Main {
		so, err := r.step(st, true)
		if err != nil {
			return nil, err
		}
		o.Steps = append(o.Steps, so)
	}
	if err := sA.MustExec("call dolt_commit('--allow-empty','-Am','main')", "call dolt_checkout('-b','b1')"); err != nil {
		return nil, err
	}
	for _, st := range c.Branch {
		so, err := r.step(st, true)
		if err != nil {
			return nil, err
		}
		o.Steps = append(o.Steps, so)
	}
	if err := sA.MustExec("call dolt_commit('--allow-empty','-Am','b1')"); err != nil {
		return nil, err
	}
	if o.B1, err = finalTables(sA); err != nil {
		return nil, err
	}
	if o.RT, err = roundTrips(sA, "A"); err != nil {
		return nil, err
	}
	o.FKs = []FKObs{}
	if fo, err := fkRoundTrip(sA, "A"); err != nil {
		return nil, err
	} else {
		o.FKs = append(o.FKs, fo)
	}
	if err := sA.MustExec("call dolt_checkout('main')", "call dolt_checkout('-b','b2')"); err != nil {
		return nil, err
	}
	r2 := &runner{s: sA}
	for _, st := range c.Branch {
		so, _ := r2.step(st, false)
		o.B2Errs = append(o.B2Errs, so.Err)
	}
	if err := sA.MustExec("call dolt_commit('--allow-empty','-Am','b2')"); err != nil {
		return nil, err
	}
	if o.B2, err = finalTables(sA); err != nil {
		return nil, err
	}
	if _, o.HashB2, err = schemaIDs(sA); err != nil {
		return nil, err
	}
	o.Merge = sA.Exec("call dolt_merge('b1')")
	o.SchConf = sA.Exec("select table_name, description from dolt_schema_conflicts")
	if o.Merged, err = finalTables(sA); err != nil {
		return nil, err
	}

	// ---- independent repository B ----
	envB, err := util.NewEnv(false)
	if err != nil {
		return nil, err
	}
	defer envB.Close()
	sB, err := envB.NewSession()
	if err != nil {
		return nil, err
	}
	rb := &runner{s: sB}
	for _, st := range c.Main {
		so, _ := rb.step(st, false)
		o.EnvBErrs = append(o.EnvBErrs, so.Err)
	}
	if err := sB.MustExec("call dolt_commit('--allow-empty','-Am','main')"); err != nil {
		return nil, err
	}
	for _, st := range c.Branch {
		so, _ := rb.step(st, false)
		o.EnvBErrs = append(o.EnvBErrs, so.Err)
	}
	if o.EnvB, err = finalTables(sB); err != nil {
		return nil, err
	}
	if o.BytesB, o.HashB, err = schemaIDs(sB); err != nil {
		return nil, err
	}
	for _, t := range o.EnvB {
		rr := sB.Exec("show create table `" + t.Name + "`")
		if rr.Err == "" && len(rr.Rows) == 1 && len(rr.Rows[0]) == 2 {
			o.CreateB[t.Name] = rr.Rows[0][1]
		} else {
			o.CreateB[t.Name] = "ERR " + rr.Err
		}
	}

	// ---- repository C: the extra script (round trips only) ----
	o.ExtraErr = []string{}
	if len(c.Extra) > 0 {
		envC, err := util.NewEnv(false)
		if err != nil {
			return nil, err
		}
		defer envC.Close()
		sC, err := envC.NewSession()
		if err != nil {
			return nil, err
		}
		for _, q := range c.Extra {
			o.ExtraErr = append(o.ExtraErr, sC.Exec(q).Err)
		}
		rtc, err := roundTrips(sC, "C")
		if err != nil {
			return nil, err
		}
		o.RT = append(o.RT, rtc...)
		fo, err := fkRoundTrip(sC, "C")
		if err != nil {
			return nil, err
		}
		o.FKs = append(o.FKs, fo)
	}

	// ---- same statements, different commit placement ----
	if c.Recreate != nil {
		rc, err := runRecreate(c.Recreate, r.cands)
		if err != nil {
			return nil, err
		}
		o.RC = rc
	}
	keys := make([]string, 0, len(r.cands))
	for k := range r.cands {
		keys = append(keys, k)
	}
	sort.Strings(keys)
	for _, k := range keys {
		o.Cands = append(o.Cands, r.cands[k])
	}
	return o, nil
}

func runPart(s *util.Session, cands map[string]Cand, stmts []Stmt, detail bool) ([]StepObs, []string, error) {
	r := &runner{s: s, cands: cands}
	out := []StepObs{}
	errs := []string{}
	for _, st := range stmts {
		so, err := r.step(st, detail)
		if err != nil {
			return nil, nil, err
		}
		out = append(out, so)
		errs = append(errs, so.Err)
	}
	return out, errs, nil
}

func runRecreate(rc *Recreate, cands map[string]Cand) (*RCObs, error) {
	o := &RCObs{}
	newSess := func() (*util.Env, *util.Session, error) {
		e, err := util.NewEnv(false)
		if err != nil {
			return nil, nil, err
		}
		s, err := e.NewSession()
		if err != nil {
			e.Close()
			return nil, nil, err
		}
		return e, s, nil
	}
	// repository E: two branches
	eE, sE, err := newSess()
	if err != nil {
		return nil, err
	}
	defer eE.Close()
	if o.Base, _, err = runPart(sE, cands, rc.Base, true); err != nil {
		return nil, err
	}
	if err := sE.MustExec("call dolt_commit('--allow-empty','-Am','base')", "call dolt_checkout('-b','x')"); err != nil {
		return nil, err
	}
	if o.X, _, err = runPart(sE, cands, rc.X, true); err != nil {
		return nil, err
	}
	if err := sE.MustExec("call dolt_commit('--allow-empty','-Am','x')"); err != nil {
		return nil, err
	}
	if o.XT, err = finalTables(sE); err != nil {
		return nil, err
	}
	if err := sE.MustExec("call dolt_checkout('main')", "call dolt_checkout('-b','y')"); err != nil {
		return nil, err
	}
	if o.Y, _, err = runPart(sE, cands, rc.Y, true); err != nil {
		return nil, err
	}
	if err := sE.MustExec("call dolt_commit('--allow-empty','-Am','y')"); err != nil {
		return nil, err
	}
	if o.YT, err = finalTables(sE); err != nil {
		return nil, err
	}
	o.Merge = sE.Exec("call dolt_merge('x')")
	o.SchConf = sE.Exec("select table_name, description from dolt_schema_conflicts")
	if o.Merged, err = finalTables(sE); err != nil {
		return nil, err
	}
	// repository F: the Y route in an independent repository
	eF, sF, err := newSess()
	if err != nil {
		return nil, err
	}
	defer eF.Close()
	if _, _, err = runPart(sF, nil, rc.Base, false); err != nil {
		return nil, err
	}
	if err := sF.MustExec("call dolt_commit('--allow-empty','-Am','base')"); err != nil {
		return nil, err
	}
	if _, o.YRepoE, err = runPart(sF, nil, rc.Y, false); err != nil {
		return nil, err
	}
	if o.YRepoT, err = finalTables(sF); err != nil {
		return nil, err
	}
	// repository G: never had the tables
	eG, sG, err := newSess()
	if err != nil {
		return nil, err
	}
	defer eG.Close()
	if o.Fresh, _, err = runPart(sG, cands, rc.Fresh, true); err != nil {
		return nil, err
	}
	if o.FreshT, err = finalTables(sG); err != nil {
		return nil, err
	}
	return o, nil
}

// ---- c37find: search a column name whose first tag candidate is a given tag (used once to build the
// witness of the duplicate-tag finding; the result is pinned in props/c37.py) ----

func init() { hk.Register("c37find", Find) }

type FindCase struct {
	Table  string `json:"table"`
	Kinds  []int  `json:"kinds"`
	Kind   int    `json:"kind"`
	Target uint64 `json:"target"`
	Prefix string `json:"prefix"`
	Max    int    `json:"max"`
}

func Find(raw json.RawMessage) (any, error) {
	var c FindCase
	if err := json.Unmarshal(raw, &c); err != nil {
		return nil, err
	}
	var ks []types.NomsKind
	for _, k := range c.Kinds {
		ks = append(ks, types.NomsKind(k))
	}
	found := []string{}
	for i := 0; i < c.Max && len(found) < 3; i++ {
		n := fmt.Sprintf("%s%d", c.Prefix, i)
		if schema.AutoGenerateTag(schema.TagMapping{}, c.Table, ks, n, types.NomsKind(c.Kind)) == c.Target {
			found = append(found, n)
		}
	}
	return map[string]any{"names": found}, nil
}
