// Package c44: ref names and revision specs (property C44).
package c44

import (
	"encoding/json"

	"github.com/dolthub/dolt/go/libraries/doltcore/doltdb"
	"github.com/dolthub/dolt/go/libraries/doltcore/ref"
	"github.com/dolthub/dolt/go/store/datas"

	"verifharness/hk"
)

func init() { hk.Register("c44", Run) }

type Case struct {
	S []int `json:"s"` // bytes of the candidate name / spec
}

type Split struct {
	Err  bool    `json:"err"`
	Name []int   `json:"name"`
	Rle  [][]int `json:"rle"` // run-length encoded instructions: [parent, count]
}

type Obs struct {
	Vd    bool   `json:"vd"` // ValidateDatasetId == nil
	Vb    bool   `json:"vb"` // IsValidBranchName
	Vt    bool   `json:"vt"` // IsValidTagName
	Split Split  `json:"split"`
	Cs    Split  `json:"cs"`
	CsTy  string `json:"csty"`
}

func toStr(b []int) string {
	bs := make([]byte, len(b))
	for i, x := range b {
		bs[i] = byte(x)
	}
	return string(bs)
}

func fromStr(s string) []int {
	out := make([]int, len(s))
	for i := 0; i < len(s); i++ {
		out[i] = int(s[i])
	}
	return out
}

func rle(ins []int) [][]int {
	out := [][]int{}
	for _, p := range ins {
		if n := len(out); n > 0 && out[n-1][0] == p {
			out[n-1][1]++
		} else {
			out = append(out, []int{p, 1})
		}
	}
	return out
}

func Run(raw json.RawMessage) (any, error) {
	var c Case
	if err := json.Unmarshal(raw, &c); err != nil {
		return nil, err
	}
	s := toStr(c.S)
	var o Obs
	o.Vd = datas.ValidateDatasetId(s) == nil
	o.Vb = ref.IsValidBranchName(s)
	o.Vt = ref.IsValidTagName(s)
	name, as, err := doltdb.SplitAncestorSpec(s)
	if err != nil {
		o.Split = Split{Err: true, Name: []int{}, Rle: [][]int{}}
	} else {
		o.Split = Split{Name: fromStr(name), Rle: rle(as.Instructions)}
	}
	cs, err := doltdb.NewCommitSpec(s)
	if err != nil {
		o.Cs = Split{Err: true, Name: []int{}, Rle: [][]int{}}
	} else {
		base, ty, ins := cs.VerifParts()
		o.Cs = Split{Name: fromStr(base), Rle: rle(ins)}
		o.CsTy = ty
	}
	return o, nil
}
