// Package c01: chunk reads return exactly the bytes stored under that address
// (property C01).  Drives real NomsBlockStore instances (in-memory blobstore,
// local directory, GenerationalNBS over two local directories) through a
// history of put / commit / read operations with synthetic addresses
// (chunks.NewChunkWithHash) so that 8-byte address prefixes collide.
package c01

import (
	"bytes"
	"context"
	"encoding/json"
	"fmt"
	"os"
	"sort"
	"sync"

	"github.com/dolthub/dolt/go/store/blobstore"
	"github.com/dolthub/dolt/go/store/chunks"
	"github.com/dolthub/dolt/go/store/constants"
	"github.com/dolthub/dolt/go/store/hash"
	"github.com/dolthub/dolt/go/store/nbs"

	"verifharness/hk"
)

func init() { hk.Register("c01", Run) }

type Op struct {
	K string  `json:"k"`
	A []int   `json:"a,omitempty"`
	D []int   `json:"d,omitempty"`
	L [][]int `json:"l,omitempty"`
}

type Case struct {
	Cfg   int  `json:"cfg"` // 0 in-memory blobstore, 1 local dir, 2 generational + ghost store, 3 generational with nil ghostGen
	MemSz int  `json:"memsz"`
	Ops   []Op `json:"ops"`
}

type Chunk struct {
	A []int `json:"a"`
	D []int `json:"d"`
}

// Ob is one observation; exactly one group of fields is meaningful per kind.
type Ob struct {
	K      string  `json:"k"` // put flush data bool chunks addrs err
	Code   int     `json:"code,omitempty"`
	Ok     bool    `json:"ok,omitempty"`
	Some   bool    `json:"some,omitempty"`
	D      []int   `json:"d,omitempty"`
	B      bool    `json:"b,omitempty"`
	Chunks []Chunk `json:"chunks,omitempty"`
	Addrs  [][]int `json:"addrs,omitempty"`
	Err    string  `json:"err,omitempty"`
}

func toHash(a []int) hash.Hash {
	var h hash.Hash
	for i := 0; i < len(a) && i < hash.ByteLen; i++ {
		h[i] = byte(a[i])
	}
	return h
}

func toBytes(a []int) []byte {
	b := make([]byte, len(a))
	for i, x := range a {
		b[i] = byte(x)
	}
	return b
}

func fromBytes(b []byte) []int {
	out := make([]int, len(b))
	for i, x := range b {
		out[i] = int(x)
	}
	return out
}

func hashInts(h hash.Hash) []int { return fromBytes(h[:]) }

func noRefs(c chunks.Chunk) chunks.InsertAddrsCb {
	return func(ctx context.Context, addrs hash.HashSet, exists chunks.PendingRefExists) error { return nil }
}

type cs interface {
	Get(ctx context.Context, h hash.Hash) (chunks.Chunk, error)
	GetMany(ctx context.Context, hashes hash.HashSet, found func(context.Context, *chunks.Chunk)) error
	GetManyCompressed(ctx context.Context, hashes hash.HashSet, found func(context.Context, nbs.ToChunker)) error
	Has(ctx context.Context, h hash.Hash) (bool, error)
	HasMany(ctx context.Context, hashes hash.HashSet) (hash.HashSet, error)
	Put(ctx context.Context, c chunks.Chunk, getAddrs chunks.InsertAddrsCurry) error
	Root(ctx context.Context) (hash.Hash, error)
	Commit(ctx context.Context, current, last hash.Hash) (bool, error)
	IterateAllChunks(ctx context.Context, cb func(chunks.Chunk)) error
}

func sortChunks(cs []Chunk) {
	sort.Slice(cs, func(i, j int) bool {
		c := bytes.Compare(toBytes(cs[i].A), toBytes(cs[j].A))
		if c != 0 {
			return c < 0
		}
		return bytes.Compare(toBytes(cs[i].D), toBytes(cs[j].D)) < 0
	})
}

func put(ctx context.Context, s cs, h hash.Hash, d []byte) (ob Ob) {
	ob.K = "put"
	defer func() {
		if p := recover(); p != nil {
			ob.Code = 2
			ob.Err = fmt.Sprint(p)
		}
	}()
	if err := s.Put(ctx, chunks.NewChunkWithHash(h, d), noRefs); err != nil {
		ob.Code = 1
		ob.Err = err.Error()
	}
	return ob
}

func flush(ctx context.Context, s cs) Ob {
	root, err := s.Root(ctx)
	if err != nil {
		return Ob{K: "err", Err: err.Error()}
	}
	ok, err := s.Commit(ctx, root, root)
	if err != nil {
		return Ob{K: "flush", Ok: false, Err: err.Error()}
	}
	return Ob{K: "flush", Ok: ok}
}

func Run(raw json.RawMessage) (any, error) {
	var c Case
	if err := json.Unmarshal(raw, &c); err != nil {
		return nil, err
	}
	ctx := context.Background()
	q := nbs.NewUnlimitedMemQuotaProvider()
	ver := constants.FormatDoltString
	var dirs []string
	defer func() {
		for _, d := range dirs {
			os.RemoveAll(d)
		}
	}()
	local := func() (*nbs.NomsBlockStore, error) {
		d, err := os.MkdirTemp("", "c01-")
		if err != nil {
			return nil, err
		}
		dirs = append(dirs, d)
		return nbs.NewLocalStore(ctx, ver, d, uint64(c.MemSz), q, false)
	}
	var store, old cs
	switch c.Cfg {
	case 0:
		s, err := nbs.NewBSStore(ctx, ver, blobstore.NewInMemoryBlobstore(""), uint64(c.MemSz), q)
		if err != nil {
			return nil, err
		}
		defer s.Close()
		store = s
	case 1:
		s, err := local()
		if err != nil {
			return nil, err
		}
		defer s.Close()
		store = s
	default:
		o, err := local()
		if err != nil {
			return nil, err
		}
		defer o.Close()
		n, err := local()
		if err != nil {
			return nil, err
		}
		defer n.Close()
		if c.Cfg == 2 {
			// the dbfactory configuration: a real (empty) ghost store
			gd, err := os.MkdirTemp("", "c01-")
			if err != nil {
				return nil, err
			}
			dirs = append(dirs, gd)
			ghost, err := nbs.NewGhostBlockStore(gd)
			if err != nil {
				return nil, err
			}
			store = nbs.NewGenerationalCS(o, n, ghost)
		} else {
			// the store/spec configuration: ghostGen == nil
			store = nbs.NewGenerationalCS(o, n, nil)
		}
		old = o
	}

	obs := make([]Ob, 0, len(c.Ops))
	set := func(l [][]int) hash.HashSet {
		hs := hash.HashSet{}
		for _, a := range l {
			hs.Insert(toHash(a))
		}
		return hs
	}
	for _, op := range c.Ops {
		switch op.K {
		case "put":
			obs = append(obs, put(ctx, store, toHash(op.A), toBytes(op.D)))
		case "putold":
			obs = append(obs, put(ctx, old, toHash(op.A), toBytes(op.D)))
		case "flush":
			obs = append(obs, flush(ctx, store))
		case "flushold":
			obs = append(obs, flush(ctx, old))
		case "get":
			ch, err := store.Get(ctx, toHash(op.A))
			if err != nil {
				obs = append(obs, Ob{K: "err", Err: err.Error()})
			} else if ch.IsEmpty() {
				obs = append(obs, Ob{K: "data"})
			} else if ch.Hash() != toHash(op.A) {
				obs = append(obs, Ob{K: "err", Err: "chunk returned under a different address"})
			} else {
				obs = append(obs, Ob{K: "data", Some: true, D: fromBytes(ch.Data())})
			}
		case "has":
			b, err := store.Has(ctx, toHash(op.A))
			if err != nil {
				obs = append(obs, Ob{K: "err", Err: err.Error()})
			} else {
				obs = append(obs, Ob{K: "bool", B: b})
			}
		case "getmany", "getmanyc":
			var mu sync.Mutex
			out := []Chunk{}
			var err error
			if op.K == "getmany" {
				err = store.GetMany(ctx, set(op.L), func(_ context.Context, ch *chunks.Chunk) {
					mu.Lock()
					defer mu.Unlock()
					out = append(out, Chunk{A: hashInts(ch.Hash()), D: fromBytes(ch.Data())})
				})
			} else {
				var cerr error
				err = store.GetManyCompressed(ctx, set(op.L), func(_ context.Context, tc nbs.ToChunker) {
					mu.Lock()
					defer mu.Unlock()
					ch, e := tc.ToChunk()
					if e != nil {
						cerr = e
						return
					}
					if ch.Hash() != tc.Hash() {
						cerr = fmt.Errorf("ToChunk changed the address")
						return
					}
					out = append(out, Chunk{A: hashInts(ch.Hash()), D: fromBytes(ch.Data())})
				})
				if err == nil {
					err = cerr
				}
			}
			if err != nil {
				obs = append(obs, Ob{K: "err", Err: err.Error()})
			} else {
				sortChunks(out)
				obs = append(obs, Ob{K: "chunks", Chunks: out})
			}
		case "hasmany":
			absent, err := store.HasMany(ctx, set(op.L))
			if err != nil {
				obs = append(obs, Ob{K: "err", Err: err.Error()})
			} else {
				l := [][]int{}
				for h := range absent {
					l = append(l, hashInts(h))
				}
				sort.Slice(l, func(i, j int) bool { return bytes.Compare(toBytes(l[i]), toBytes(l[j])) < 0 })
				obs = append(obs, Ob{K: "addrs", Addrs: l})
			}
		case "iter":
			out := []Chunk{}
			var mu sync.Mutex
			err := store.IterateAllChunks(ctx, func(ch chunks.Chunk) {
				mu.Lock()
				defer mu.Unlock()
				out = append(out, Chunk{A: hashInts(ch.Hash()), D: fromBytes(ch.Data())})
			})
			if err != nil {
				obs = append(obs, Ob{K: "err", Err: err.Error()})
			} else {
				sortChunks(out)
				obs = append(obs, Ob{K: "chunks", Chunks: out})
			}
		default:
			return nil, fmt.Errorf("unknown op %q", op.K)
		}
	}
	return obs, nil
}
