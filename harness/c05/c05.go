// Package c05: manifest codec and the manifest-update / grace-prune directory protocol (property C05).
package c05

import (
	"encoding/json"
	"fmt"
	"os"
	"path/filepath"
	"sort"
	"strconv"
	"strings"
	"time"

	"github.com/dolthub/dolt/go/store/hash"
	"github.com/dolthub/dolt/go/store/nbs"

	"verifharness/hk"
)

func init() { hk.Register("c05", Run) }

type Spec struct {
	Name  string `json:"name"`
	Count uint32 `json:"count"`
}

type Manifest struct {
	Vers     []int  `json:"vers"`
	Nbf      []int  `json:"nbf"`
	Lock     string `json:"lock"`
	Root     string `json:"root"`
	GcGen    string `json:"gcgen"`
	Specs    []Spec `json:"specs"`
	Appendix []Spec `json:"appendix"`
}

type Op struct {
	Op    string   `json:"op"`
	Id    int      `json:"id"`
	Mt    int64    `json:"mt"`
	Sz    int      `json:"sz"`
	H     string   `json:"h"`
	Arch  bool     `json:"arch"`
	Gc    bool     `json:"gc"`
	Last  string   `json:"last"`
	New   Manifest `json:"new"`
	Abort bool     `json:"abort"`
	Hook  []Op     `json:"hook"`
	Grace int64    `json:"grace"`
	Probe int64    `json:"probe"`
	Extra []string `json:"extra"`
	After []Op     `json:"after"`
	Under []Op     `json:"under"`
}

type Case struct {
	Kind string   `json:"kind"`
	M    Manifest `json:"m"`
	Text []int    `json:"text"`
	Ops  []Op     `json:"ops"`
}

type PObs struct {
	Class string    `json:"class"`
	M     *Manifest `json:"m,omitempty"`
}

type File struct {
	K  string `json:"k"` // t table, a archive, tt temp table, tm temp manifest
	H  string `json:"h,omitempty"`
	Id int    `json:"id"`
	Mt int64  `json:"mt"`
	Sz int64  `json:"sz"`
}

type Snap struct {
	Manifest []int  `json:"manifest"` // nil when absent
	Has      bool   `json:"has"`
	Mmt      int64  `json:"mmt"`
	Files    []File `json:"files"`
}

type Entry struct {
	S    map[string]any `json:"s"`
	Code int            `json:"code"`
	Aux  int            `json:"aux"`
	Lock string         `json:"lock"`
	Snap *Snap          `json:"snap"`
}

type Obs struct {
	WText  []int   `json:"wtext,omitempty"`
	WClass string  `json:"wclass,omitempty"`
	Parse  *PObs   `json:"parse,omitempty"`
	Trace  []Entry `json:"trace,omitempty"`
}

func toStr(b []int) string {
	bs := make([]byte, len(b))
	for i, x := range b {
		bs[i] = byte(x)
	}
	return string(bs)
}

func fromBytes(s []byte) []int {
	out := make([]int, len(s))
	for i := range s {
		out[i] = int(s[i])
	}
	return out
}

func toV(m Manifest) nbs.VerifC05Manifest {
	v := nbs.VerifC05Manifest{Vers: toStr(m.Vers), Nbf: toStr(m.Nbf), Lock: m.Lock, Root: m.Root, GcGen: m.GcGen}
	for _, s := range m.Specs {
		v.Specs = append(v.Specs, nbs.VerifC05Spec{Name: s.Name, Count: s.Count})
	}
	for _, s := range m.Appendix {
		v.Appendix = append(v.Appendix, nbs.VerifC05Spec{Name: s.Name, Count: s.Count})
	}
	return v
}

func fromV(v nbs.VerifC05Manifest) *Manifest {
	m := &Manifest{Vers: fromBytes([]byte(v.Vers)), Nbf: fromBytes([]byte(v.Nbf)), Lock: v.Lock, Root: v.Root, GcGen: v.GcGen, Specs: []Spec{}, Appendix: []Spec{}}
	for _, s := range v.Specs {
		m.Specs = append(m.Specs, Spec{s.Name, s.Count})
	}
	for _, s := range v.Appendix {
		m.Appendix = append(m.Appendix, Spec{s.Name, s.Count})
	}
	return m
}

func parseObs(text []byte) *PObs {
	v, class := nbs.VerifC05Parse(text)
	o := &PObs{Class: class}
	if class == "ok" {
		o.M = fromV(v)
	}
	return o
}

func Run(raw json.RawMessage) (any, error) {
	var c Case
	if err := json.Unmarshal(raw, &c); err != nil {
		return nil, err
	}
	switch c.Kind {
	case "write":
		text, class := nbs.VerifC05Write(toV(c.M))
		o := Obs{WText: fromBytes(text), WClass: class}
		if class == "ok" {
			o.Parse = parseObs(text)
		} else {
			o.Parse = &PObs{Class: "none"}
		}
		return o, nil
	case "parse":
		return Obs{Parse: parseObs([]byte(toStr(c.Text)))}, nil
	case "trace":
		return runTrace(c.Ops)
	}
	return nil, fmt.Errorf("unknown kind %q", c.Kind)
}

// ---------------------------------------------------------------------------

var base = time.Unix(1700000000, 0)

type world struct {
	dir    string
	fmS    *nbs.VerifC05FM
	fmP    *nbs.VerifC05FM
	tmpIds map[string]int // real temp manifest name -> model id
	trace  []Entry
}

func (w *world) at(t int64) time.Time { return base.Add(time.Duration(t) * time.Second) }

func (w *world) ageLock() {
	p := filepath.Join(w.dir, nbs.VerifC05LockFileName)
	if _, err := os.Stat(p); err == nil {
		_ = os.Chtimes(p, base, base)
	}
}

func (w *world) snap() *Snap {
	s := &Snap{Files: []File{}}
	ents, err := os.ReadDir(w.dir)
	if err != nil {
		panic(err)
	}
	for _, e := range ents {
		name := e.Name()
		info, err := e.Info()
		if err != nil {
			continue
		}
		mt := int64(info.ModTime().Sub(base) / time.Second)
		switch {
		case name == nbs.VerifC05ManifestFileName:
			b, err := os.ReadFile(filepath.Join(w.dir, name))
			if err != nil {
				panic(err)
			}
			s.Manifest, s.Has, s.Mmt = fromBytes(b), true, mt
		case strings.HasPrefix(name, nbs.VerifC05TempTablePrefix):
			id, _ := strconv.Atoi(name[len(nbs.VerifC05TempTablePrefix):])
			s.Files = append(s.Files, File{K: "tt", Id: id, Mt: mt, Sz: info.Size()})
		case strings.HasPrefix(name, nbs.VerifC05TempManifestPrefix):
			id, ok := w.tmpIds[name]
			if !ok {
				id = -1
			}
			s.Files = append(s.Files, File{K: "tm", Id: id, Mt: mt, Sz: info.Size()})
		case len(name) == 32 && hash.IsValid(name):
			s.Files = append(s.Files, File{K: "t", H: name, Mt: mt, Sz: info.Size()})
		case len(name) == 37 && strings.HasSuffix(name, ".darc") && hash.IsValid(name[:32]):
			s.Files = append(s.Files, File{K: "a", H: name[:32], Mt: mt, Sz: info.Size()})
		}
	}
	sort.Slice(s.Files, func(i, j int) bool {
		a, b := s.Files[i], s.Files[j]
		if a.K != b.K {
			return a.K < b.K
		}
		if a.H != b.H {
			return a.H < b.H
		}
		return a.Id < b.Id
	})
	return s
}

func (w *world) emit(s map[string]any, code int, withSnap bool) int {
	e := Entry{S: s, Code: code}
	if withSnap {
		e.Snap = w.snap()
	}
	w.trace = append(w.trace, e)
	return len(w.trace) - 1
}

func (w *world) claimTemp(id int, mt int64) {
	ents, _ := os.ReadDir(w.dir)
	for _, e := range ents {
		n := e.Name()
		if strings.HasPrefix(n, nbs.VerifC05TempManifestPrefix) {
			if _, ok := w.tmpIds[n]; !ok {
				w.tmpIds[n] = id
				_ = os.Chtimes(filepath.Join(w.dir, n), w.at(mt), w.at(mt))
			}
		}
	}
}

var updCodes = map[string]int{"ok": 0, "gcgen": 2, "missing": 3, "nbf": 4, "nonzero": 5, "corrupt": 6, "eof": 6, "version": 6,
	"specname": 6, "count": 6, "lock": 6, "gcgenhash": 6, "gcroot": 7, "busy": 8, "write": 11}

func hasSkip(sk []string, sub string) bool {
	for _, s := range sk {
		if strings.Contains(s, sub) {
			return true
		}
	}
	return false
}

func (w *world) run(ops []Op) {
	for _, op := range ops {
		w.ageLock()
		switch op.Op {
		case "tmpt":
			p := filepath.Join(w.dir, nbs.VerifC05TempTablePrefix+strconv.Itoa(op.Id))
			code := 0
			if _, err := os.Stat(p); err == nil {
				code = 9
			} else {
				if err := os.WriteFile(p, make([]byte, op.Sz), 0644); err != nil {
					panic(err)
				}
				_ = os.Chtimes(p, w.at(op.Mt), w.at(op.Mt))
			}
			w.emit(map[string]any{"k": "STmpTable", "id": op.Id, "mt": op.Mt, "sz": op.Sz}, code, true)
		case "land":
			p := filepath.Join(w.dir, nbs.VerifC05TempTablePrefix+strconv.Itoa(op.Id))
			name := op.H
			if op.Arch {
				name += ".darc"
			}
			code := 0
			if err := os.Rename(p, filepath.Join(w.dir, name)); err != nil {
				code = 9
			}
			w.emit(map[string]any{"k": "SLand", "id": op.Id, "h": op.H, "arch": op.Arch}, code, true)
		case "unlinktmp":
			_ = os.Remove(filepath.Join(w.dir, nbs.VerifC05TempTablePrefix+strconv.Itoa(op.Id)))
			w.emit(map[string]any{"k": "SUnlinkTmp", "id": op.Id}, 0, true)
		case "touch":
			p := filepath.Join(w.dir, "other_"+strconv.Itoa(op.Id))
			_ = os.WriteFile(p, []byte("x"), 0644)
			_ = os.Chtimes(p, w.at(op.Mt), w.at(op.Mt))
			w.emit(map[string]any{"k": "ETouch", "id": op.Id, "mt": op.Mt}, 0, true)
		case "update":
			w.update(op)
		case "prune":
			w.prune(op)
		default:
			panic("unknown op " + op.Op)
		}
	}
}

func (w *world) update(op Op) {
	lockStep := map[string]any{"k": "ULock", "gc": op.Gc, "last": op.Last, "new": op.New}
	tempStep := map[string]any{"k": "UTemp", "id": op.Id, "mt": op.Mt}
	hookCalled := false
	hook := func() error {
		hookCalled = true
		w.claimTemp(op.Id, op.Mt)
		w.ageLock()
		w.emit(lockStep, 0, false)
		w.emit(tempStep, 0, true)
		w.run(op.Hook)
		if op.Abort {
			return fmt.Errorf("verif: write hook asks to give up")
		}
		return nil
	}
	ret, class := w.fmS.Update(op.Gc, op.Last, toV(op.New), hook)
	if !hookCalled {
		switch class {
		case "busy":
			w.emit(lockStep, 8, true)
		case "write":
			w.claimTemp(op.Id, op.Mt)
			w.emit(lockStep, 0, false)
			w.emit(tempStep, 11, true)
		default:
			w.emit(lockStep, 99, true)
		}
		return
	}
	if op.Abort {
		w.emit(map[string]any{"k": "UAbort"}, 0, true)
		return
	}
	code, ok := updCodes[class]
	if !ok {
		code = 98
	}
	i := w.emit(map[string]any{"k": "UFinish"}, code, true)
	if class == "ok" {
		w.trace[i].Lock = ret.Lock
	}
}

func (w *world) prune(op Op) {
	scanIdx := w.emit(map[string]any{"k": "PScan", "grace": op.Grace, "probe": op.Probe}, -1, false)
	lockIdx := -1
	underCalled := false
	after := func() {
		w.trace[scanIdx].Snap = w.snap()
		w.run(op.After)
		w.ageLock()
	}
	onLock := func() {
		lockIdx = w.emit(map[string]any{"k": "PLock", "extra": op.Extra}, -1, false)
	}
	under := func() {
		underCalled = true
		w.trace[lockIdx].Code = 0
		w.trace[lockIdx].Snap = w.snap()
		w.run(op.Under)
	}
	res := nbs.VerifC05Prune(w.dir, time.Duration(op.Grace)*time.Second, w.at(op.Probe), w.at(op.Probe), w.fmP, op.Extra, after, under, onLock)
	switch {
	case hasSkip(res.Skipped, "not quiescent"):
		w.trace[scanIdx].Code = 20
	case !res.LockCalled:
		w.trace[scanIdx].Code = 21
	default:
		w.trace[scanIdx].Code = 0
	}
	if w.trace[scanIdx].Snap == nil {
		w.trace[scanIdx].Snap = w.snap()
	}
	if res.Err != "" {
		w.trace[scanIdx].Code = 97
	}
	if lockIdx < 0 {
		return
	}
	if !underCalled {
		switch {
		case res.LockErr == "busy" || hasSkip(res.Skipped, "could not take the manifest lock"):
			w.trace[lockIdx].Code = 8
		case res.LockErr != "":
			w.trace[lockIdx].Code = 6
		case hasSkip(res.Skipped, "the manifest was updated while pruning"):
			w.trace[lockIdx].Code = 22
		default:
			w.trace[lockIdx].Code = 96
		}
		w.trace[lockIdx].Snap = w.snap()
		return
	}
	code := 23
	if hasSkip(res.Skipped, "changed after the scan") {
		code = 26
	}
	i := w.emit(map[string]any{"k": "TUnlinkAll"}, code, true)
	w.trace[i].Aux = res.Deleted
}

func runTrace(ops []Op) (any, error) {
	dir, err := os.MkdirTemp("/tmp", "c05-")
	if err != nil {
		return nil, err
	}
	defer os.RemoveAll(dir)
	w := &world{dir: dir, tmpIds: map[string]int{}}
	if w.fmS, err = nbs.VerifC05OpenFM(dir); err != nil {
		return nil, err
	}
	defer w.fmS.Close()
	if w.fmP, err = nbs.VerifC05OpenFM(dir); err != nil {
		return nil, err
	}
	defer w.fmP.Close()
	w.run(ops)
	return Obs{Trace: w.trace}, nil
}
