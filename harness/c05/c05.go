// Package c05: manifest codec and the manifest-update / grace-prune directory protocol (property C05).
package c05

import (
	"context"
	"encoding/json"
	"fmt"
	"os"
	"path/filepath"
	"sort"
	"strconv"
	"strings"
	"time"

	"github.com/dolthub/dolt/go/store/chunks"
	"github.com/dolthub/dolt/go/store/constants"
	"github.com/dolthub/dolt/go/store/hash"
	"github.com/dolthub/dolt/go/store/nbs"

	"verifharness/hk"
)

func init() { hk.Register("c05", Run) }

type Spec struct {
	Name  string `json:"name"`
	Count uint32 `json:"count"`
}

type Manifest struct {
	Vers     []int  `json:"vers"`
	Nbf      []int  `json:"nbf"`
	Lock     string `json:"lock"`
	Root     string `json:"root"`
	GcGen    string `json:"gcgen"`
	Specs    []Spec `json:"specs"`
	Appendix []Spec `json:"appendix"`
}

type Op struct {
	Op         string   `json:"op"`
	Id         int      `json:"id"`
	Mt         int64    `json:"mt"`
	Sz         int      `json:"sz"`
	H          string   `json:"h"`
	Arch       bool     `json:"arch"`
	Gc         bool     `json:"gc"`
	Last       string   `json:"last"`
	New        Manifest `json:"new"`
	Abort      bool     `json:"abort"`
	Hook       []Op     `json:"hook"`
	Grace      int64    `json:"grace"`
	Probe      int64    `json:"probe"`
	Extra      []string `json:"extra"`
	After      []Op     `json:"after"`
	Under      []Op     `json:"under"`
	Up         Manifest `json:"up"`
	Cj         []Spec   `json:"cj"`
	C          Spec     `json:"c"`
	X          int      `json:"x"`
	RootChange bool     `json:"root_change"`
	Mid        int      `json:"mid"`
}

type Case struct {
	Kind string   `json:"kind"`
	M    Manifest `json:"m"`
	Text []int    `json:"text"`
	Ops  []Op     `json:"ops"`
	Up   Manifest `json:"up"`
	Cj   []Spec   `json:"cj"`
	C    Spec     `json:"c"`
}

type PObs struct {
	Class string    `json:"class"`
	M     *Manifest `json:"m,omitempty"`
}

type File struct {
	K  string `json:"k"` // t table, a archive, tt temp table, tm temp manifest
	H  string `json:"h,omitempty"`
	Id int    `json:"id"`
	Mt int64  `json:"mt"`
	Sz int64  `json:"sz"`
}

type Snap struct {
	Manifest []int  `json:"manifest"` // nil when absent
	Has      bool   `json:"has"`
	Mmt      int64  `json:"mmt"`
	Files    []File `json:"files"`
}

type Entry struct {
	S    map[string]any `json:"s"`
	Code int            `json:"code"`
	Aux  int            `json:"aux"`
	Lock string         `json:"lock"`
	Snap *Snap          `json:"snap"`
}

type Obs struct {
	WText  []int    `json:"wtext,omitempty"`
	WClass string   `json:"wclass,omitempty"`
	Parse  *PObs    `json:"parse,omitempty"`
	Trace  []Entry  `json:"trace,omitempty"`
	Conj   *ConjObs `json:"conj,omitempty"`
}

type ConjObs struct {
	Applied bool   `json:"applied"`
	Specs   []Spec `json:"specs"`
}

func toStr(b []int) string {
	bs := make([]byte, len(b))
	for i, x := range b {
		bs[i] = byte(x)
	}
	return string(bs)
}

func fromBytes(s []byte) []int {
	out := make([]int, len(s))
	for i := range s {
		out[i] = int(s[i])
	}
	return out
}

func toV(m Manifest) nbs.VerifC05Manifest {
	v := nbs.VerifC05Manifest{Vers: toStr(m.Vers), Nbf: toStr(m.Nbf), Lock: m.Lock, Root: m.Root, GcGen: m.GcGen}
	for _, s := range m.Specs {
		v.Specs = append(v.Specs, nbs.VerifC05Spec{Name: s.Name, Count: s.Count})
	}
	for _, s := range m.Appendix {
		v.Appendix = append(v.Appendix, nbs.VerifC05Spec{Name: s.Name, Count: s.Count})
	}
	return v
}

func toVS(l []Spec) []nbs.VerifC05Spec {
	var out []nbs.VerifC05Spec
	for _, s := range l {
		out = append(out, nbs.VerifC05Spec{Name: s.Name, Count: s.Count})
	}
	return out
}

func fromV(v nbs.VerifC05Manifest) *Manifest {
	m := &Manifest{Vers: fromBytes([]byte(v.Vers)), Nbf: fromBytes([]byte(v.Nbf)), Lock: v.Lock, Root: v.Root, GcGen: v.GcGen, Specs: []Spec{}, Appendix: []Spec{}}
	for _, s := range v.Specs {
		m.Specs = append(m.Specs, Spec{s.Name, s.Count})
	}
	for _, s := range v.Appendix {
		m.Appendix = append(m.Appendix, Spec{s.Name, s.Count})
	}
	return m
}

func parseObs(text []byte) *PObs {
	v, class := nbs.VerifC05Parse(text)
	o := &PObs{Class: class}
	if class == "ok" {
		o.M = fromV(v)
	}
	return o
}

func Run(raw json.RawMessage) (any, error) {
	var c Case
	if err := json.Unmarshal(raw, &c); err != nil {
		return nil, err
	}
	switch c.Kind {
	case "write":
		text, class := nbs.VerifC05Write(toV(c.M))
		o := Obs{WText: fromBytes(text), WClass: class}
		if class == "ok" {
			o.Parse = parseObs(text)
		} else {
			o.Parse = &PObs{Class: "none"}
		}
		return o, nil
	case "parse":
		return Obs{Parse: parseObs([]byte(toStr(c.Text)))}, nil
	case "trace":
		return runTrace(c.Ops)
	case "conj":
		_, calls, class := nbs.VerifC05Conjoin(nil, toV(c.Up), toVS(c.Cj), nbs.VerifC05Spec{Name: c.C.Name, Count: c.C.Count}, nil, nil)
		if class != "ok" {
			return nil, fmt.Errorf("conjoin: %s", class)
		}
		o := &ConjObs{Specs: []Spec{}}
		if len(calls) > 0 {
			o.Applied = true
			o.Specs = fromV(calls[0].New).Specs
		}
		return Obs{Conj: o}, nil
	}
	return nil, fmt.Errorf("unknown kind %q", c.Kind)
}

// ---------------------------------------------------------------------------

var base = time.Unix(1700000000, 0)

type world struct {
	dir            string
	fmS            *nbs.VerifC05FM
	fmP            *nbs.VerifC05FM
	tmpIds         map[string]int // real temp manifest name -> model id
	trace          []Entry
	held           int // > 0 while some actor of this harness holds the LOCK (inside a write hook / under-lock hook)
	spurious       bool
	storeA, storeB *nbs.NomsBlockStore
}

func (w *world) at(t int64) time.Time { return base.Add(time.Duration(t) * time.Second) }

func (w *world) ageLock() {
	p := filepath.Join(w.dir, nbs.VerifC05LockFileName)
	if _, err := os.Stat(p); err == nil {
		_ = os.Chtimes(p, base, base)
	}
}

func (w *world) snap() *Snap {
	s := &Snap{Files: []File{}}
	ents, err := os.ReadDir(w.dir)
	if err != nil {
		panic(err)
	}
	for _, e := range ents {
		name := e.Name()
		info, err := e.Info()
		if err != nil {
			continue
		}
		mt := int64(info.ModTime().Sub(base) / time.Second)
		switch {
		case name == nbs.VerifC05ManifestFileName:
			b, err := os.ReadFile(filepath.Join(w.dir, name))
			if err != nil {
				panic(err)
			}
			s.Manifest, s.Has, s.Mmt = fromBytes(b), true, mt
		case strings.HasPrefix(name, nbs.VerifC05TempTablePrefix):
			id, _ := strconv.Atoi(name[len(nbs.VerifC05TempTablePrefix):])
			s.Files = append(s.Files, File{K: "tt", Id: id, Mt: mt, Sz: info.Size()})
		case strings.HasPrefix(name, nbs.VerifC05TempManifestPrefix):
			id, ok := w.tmpIds[name]
			if !ok {
				id = -1
			}
			s.Files = append(s.Files, File{K: "tm", Id: id, Mt: mt, Sz: info.Size()})
		case len(name) == 32 && hash.IsValid(name):
			s.Files = append(s.Files, File{K: "t", H: name, Mt: mt, Sz: info.Size()})
		case len(name) == 37 && strings.HasSuffix(name, ".darc") && hash.IsValid(name[:32]):
			s.Files = append(s.Files, File{K: "a", H: name[:32], Mt: mt, Sz: info.Size()})
		}
	}
	sort.Slice(s.Files, func(i, j int) bool {
		a, b := s.Files[i], s.Files[j]
		if a.K != b.K {
			return a.K < b.K
		}
		if a.H != b.H {
			return a.H < b.H
		}
		return a.Id < b.Id
	})
	return s
}

func (w *world) emit(s map[string]any, code int, withSnap bool) int {
	e := Entry{S: s, Code: code}
	if withSnap {
		e.Snap = w.snap()
	}
	w.trace = append(w.trace, e)
	return len(w.trace) - 1
}

func (w *world) claimTemp(id int, mt int64) {
	ents, _ := os.ReadDir(w.dir)
	for _, e := range ents {
		n := e.Name()
		if strings.HasPrefix(n, nbs.VerifC05TempManifestPrefix) {
			if _, ok := w.tmpIds[n]; !ok {
				w.tmpIds[n] = id
				_ = os.Chtimes(filepath.Join(w.dir, n), w.at(mt), w.at(mt))
			}
		}
	}
}

var updCodes = map[string]int{"ok": 0, "gcgen": 2, "missing": 3, "nbf": 4, "nonzero": 5, "corrupt": 6, "eof": 6, "version": 6,
	"specname": 6, "count": 6, "lock": 6, "gcgenhash": 6, "gcroot": 7, "busy": 8, "write": 11}

func hasSkip(sk []string, sub string) bool {
	for _, s := range sk {
		if strings.Contains(s, sub) {
			return true
		}
	}
	return false
}

func (w *world) run(ops []Op) {
	for _, op := range ops {
		w.ageLock()
		switch op.Op {
		case "tmpt":
			p := filepath.Join(w.dir, nbs.VerifC05TempTablePrefix+strconv.Itoa(op.Id))
			code := 0
			if _, err := os.Stat(p); err == nil {
				code = 9
			} else {
				if err := os.WriteFile(p, make([]byte, op.Sz), 0644); err != nil {
					panic(err)
				}
				_ = os.Chtimes(p, w.at(op.Mt), w.at(op.Mt))
			}
			w.emit(map[string]any{"k": "STmpTable", "id": op.Id, "mt": op.Mt, "sz": op.Sz}, code, true)
		case "land":
			p := filepath.Join(w.dir, nbs.VerifC05TempTablePrefix+strconv.Itoa(op.Id))
			name := op.H
			if op.Arch {
				name += ".darc"
			}
			code := 0
			if err := os.Rename(p, filepath.Join(w.dir, name)); err != nil {
				code = 9
			}
			w.emit(map[string]any{"k": "SLand", "id": op.Id, "h": op.H, "arch": op.Arch}, code, true)
		case "unlinktmp":
			_ = os.Remove(filepath.Join(w.dir, nbs.VerifC05TempTablePrefix+strconv.Itoa(op.Id)))
			w.emit(map[string]any{"k": "SUnlinkTmp", "id": op.Id}, 0, true)
		case "touch":
			p := filepath.Join(w.dir, "other_"+strconv.Itoa(op.Id))
			_ = os.WriteFile(p, []byte("x"), 0644)
			_ = os.Chtimes(p, w.at(op.Mt), w.at(op.Mt))
			w.emit(map[string]any{"k": "ETouch", "id": op.Id, "mt": op.Mt}, 0, true)
		case "update":
			w.update(op)
		case "prune":
			w.prune(op)
		case "conjoin":
			w.conjoin(op)
		case "b_commit":
			w.bCommit(op)
		case "a_open":
			w.aOpen()
		case "a_rebase":
			w.aOpen()
			if err := w.storeA.Rebase(context.Background()); err != nil {
				panic(err)
			}
		case "a_prune":
			w.aPrune(op)
		case "fresh":
			p := filepath.Join(w.dir, "other_"+strconv.Itoa(op.Id))
			_ = os.WriteFile(p, []byte("x"), 0644)
			mt := int64(time.Since(base)/time.Second) - 1
			_ = os.Chtimes(p, w.at(mt), w.at(mt))
			w.emit(map[string]any{"k": "ETouch", "id": op.Id, "mt": mt}, 0, true)
		case "drop_first_spec":
			w.dropFirstSpec(op)
		default:
			panic("unknown op " + op.Op)
		}
	}
}

func (w *world) update(op Op) {
	lockStep := map[string]any{"k": "ULock", "gc": op.Gc, "last": op.Last, "new": op.New}
	tempStep := map[string]any{"k": "UTemp", "id": op.Id, "mt": op.Mt}
	hookCalled := false
	hook := func() error {
		hookCalled = true
		w.held++
		defer func() { w.held-- }()
		w.claimTemp(op.Id, op.Mt)
		w.ageLock()
		w.emit(lockStep, 0, false)
		w.emit(tempStep, 0, true)
		w.run(op.Hook)
		if op.Abort {
			return fmt.Errorf("verif: write hook asks to give up")
		}
		return nil
	}
	ret, class := w.fmS.Update(op.Gc, op.Last, toV(op.New), hook)
	if !hookCalled {
		switch class {
		case "busy":
			if w.held == 0 {
				w.spurious = true // nobody in this harness holds the LOCK: the 100 ms flock timeout fired under load
			}
			w.emit(lockStep, 8, true)
		case "write":
			w.claimTemp(op.Id, op.Mt)
			w.emit(lockStep, 0, false)
			w.emit(tempStep, 11, true)
		default:
			w.emit(lockStep, 99, true)
		}
		return
	}
	if op.Abort {
		w.emit(map[string]any{"k": "UAbort"}, 0, true)
		return
	}
	code, ok := updCodes[class]
	if !ok {
		code = 98
	}
	i := w.emit(map[string]any{"k": "UFinish"}, code, true)
	if class == "ok" {
		w.trace[i].Lock = ret.Lock
	}
}

func (w *world) prune(op Op) {
	scanIdx := w.emit(map[string]any{"k": "PScan", "grace": op.Grace, "probe": op.Probe}, -1, false)
	lockIdx := -1
	underCalled := false
	after := func() {
		w.trace[scanIdx].Snap = w.snap()
		w.run(op.After)
		w.ageLock()
	}
	onLock := func() {
		lockIdx = w.emit(map[string]any{"k": "PLock", "extra": op.Extra}, -1, false)
	}
	under := func() {
		underCalled = true
		w.held++
		defer func() { w.held-- }()
		w.trace[lockIdx].Code = 0
		w.trace[lockIdx].Snap = w.snap()
		w.run(op.Under)
	}
	res := nbs.VerifC05Prune(w.dir, time.Duration(op.Grace)*time.Second, w.at(op.Probe), w.at(op.Probe), w.fmP, op.Extra, after, under, onLock)
	switch {
	case hasSkip(res.Skipped, "not quiescent"):
		w.trace[scanIdx].Code = 20
	case !res.LockCalled:
		w.trace[scanIdx].Code = 21
	default:
		w.trace[scanIdx].Code = 0
	}
	if w.trace[scanIdx].Snap == nil {
		w.trace[scanIdx].Snap = w.snap()
	}
	if res.Err != "" {
		w.trace[scanIdx].Code = 97
	}
	if lockIdx < 0 {
		return
	}
	if !underCalled {
		switch {
		case res.LockErr == "busy" || hasSkip(res.Skipped, "could not take the manifest lock"):
			if w.held == 0 {
				w.spurious = true
			}
			w.trace[lockIdx].Code = 8
		case res.LockErr != "":
			w.trace[lockIdx].Code = 6
		case hasSkip(res.Skipped, "the manifest was updated while pruning"):
			w.trace[lockIdx].Code = 22
		default:
			w.trace[lockIdx].Code = 96
		}
		w.trace[lockIdx].Snap = w.snap()
		return
	}
	code := 23
	if hasSkip(res.Skipped, "changed after the scan") {
		code = 26
	}
	i := w.emit(map[string]any{"k": "TUnlinkAll"}, code, true)
	w.trace[i].Aux = res.Deleted
}

func runTrace(ops []Op) (any, error) {
	dir, err := os.MkdirTemp("/tmp", "c05-")
	if err != nil {
		return nil, err
	}
	defer os.RemoveAll(dir)
	w := &world{dir: dir, tmpIds: map[string]int{}}
	if w.fmS, err = nbs.VerifC05OpenFM(dir); err != nil {
		return nil, err
	}
	defer w.fmS.Close()
	if w.fmP, err = nbs.VerifC05OpenFM(dir); err != nil {
		return nil, err
	}
	defer w.fmP.Close()
	defer func() {
		if w.storeA != nil {
			w.storeA.Close()
		}
		if w.storeB != nil {
			w.storeB.Close()
		}
	}()
	w.run(ops)
	if w.spurious {
		return nil, fmt.Errorf("spurious-lock-timeout")
	}
	return Obs{Trace: w.trace}, nil
}

// ---------------------------------------------------------------------------
// conjoinOperation.updateManifest against the real fileManifest

func (w *world) conjoin(op Op) {
	hook := func(n int, last string, m nbs.VerifC05Manifest) func() error {
		return func() error {
			w.held++
			defer func() { w.held-- }()
			w.claimTemp(op.Id+n, op.Mt)
			w.ageLock()
			w.emit(map[string]any{"k": "ULock", "gc": false, "last": last, "new": fromV(m)}, 0, false)
			w.emit(map[string]any{"k": "UTemp", "id": op.Id + n, "mt": op.Mt}, 0, true)
			if n == 0 {
				w.run(op.Hook)
			}
			return nil
		}
	}
	after := func(n int, c nbs.VerifC05Call) {
		if c.Class == "busy" {
			if w.held == 0 {
				w.spurious = true
			}
			w.emit(map[string]any{"k": "ULock", "gc": false, "last": c.Last, "new": fromV(c.New)}, 8, true)
			return
		}
		code, ok := updCodes[c.Class]
		if !ok {
			code = 98
		}
		i := w.emit(map[string]any{"k": "UFinish"}, code, true)
		if c.Class == "ok" {
			w.trace[i].Lock = c.Ret.Lock
		}
	}
	nbs.VerifC05Conjoin(w.fmS, toV(op.Up), toVS(op.Cj), nbs.VerifC05Spec{Name: op.C.Name, Count: op.C.Count}, hook, after)
}

// ---------------------------------------------------------------------------
// real NomsBlockStore handles on the directory: B writes, A prunes

func noAddrs(chunks.Chunk) chunks.InsertAddrsCb {
	return func(context.Context, hash.HashSet, chunks.PendingRefExists) error { return nil }
}

func openStore(dir string) *nbs.NomsBlockStore {
	st, err := nbs.NewLocalStore(context.Background(), constants.FormatDefaultString, dir, 1<<16, nbs.NewUnlimitedMemQuotaProvider(), false)
	if err != nil {
		panic(err)
	}
	if _, err := st.Root(context.Background()); err != nil {
		panic(err)
	}
	return st
}

func (w *world) aOpen() {
	if w.storeA == nil {
		w.storeA = openStore(w.dir)
	}
}

func (w *world) tableNames() map[string]bool {
	out := map[string]bool{}
	ents, _ := os.ReadDir(w.dir)
	for _, e := range ents {
		if len(e.Name()) == 32 && hash.IsValid(e.Name()) {
			out[e.Name()] = true
		}
	}
	return out
}

func (w *world) diskManifest() (*Manifest, bool) {
	b, err := os.ReadFile(filepath.Join(w.dir, nbs.VerifC05ManifestFileName))
	if err != nil {
		return nil, false
	}
	v, class := nbs.VerifC05Parse(b)
	if class != "ok" {
		panic("manifest does not parse: " + class)
	}
	return fromV(v), true
}

// emitPublish reports what a real store just did as model steps: the table files that appeared, then the manifest swap.
func (w *world) emitPublish(before map[string]bool, prev *Manifest, had bool, op Op) {
	k := 0
	for name := range w.tableNames() {
		if before[name] {
			continue
		}
		p := filepath.Join(w.dir, name)
		_ = os.Chtimes(p, w.at(op.Mt), w.at(op.Mt))
		info, _ := os.Stat(p)
		w.emit(map[string]any{"k": "STmpTable", "id": op.Id + k, "mt": op.Mt, "sz": int(info.Size())}, 0, false)
		w.emit(map[string]any{"k": "SLand", "id": op.Id + k, "h": name, "arch": false}, 0, false)
		k++
	}
	cur, ok := w.diskManifest()
	if !ok || (had && cur.Lock == prev.Lock) {
		return
	}
	mp := filepath.Join(w.dir, nbs.VerifC05ManifestFileName)
	_ = os.Chtimes(mp, w.at(op.Mt), w.at(op.Mt))
	last := "00000000000000000000000000000000"
	if had {
		last = prev.Lock
	}
	w.emit(map[string]any{"k": "ULock", "gc": false, "last": last, "new": cur}, 0, false)
	w.emit(map[string]any{"k": "UTemp", "id": op.Mid, "mt": op.Mt}, 0, false)
	i := w.emit(map[string]any{"k": "UFinish"}, 0, true)
	w.trace[i].Lock = cur.Lock
}

func (w *world) bCommit(op Op) {
	ctx := context.Background()
	if w.storeB == nil {
		w.storeB = openStore(w.dir)
	}
	before := w.tableNames()
	prev, had := w.diskManifest()
	c := chunks.NewChunk([]byte(fmt.Sprintf("c05-chunk-%04d", op.X)))
	for try := 0; ; try++ {
		if err := w.storeB.Put(ctx, c, noAddrs); err != nil {
			panic(err)
		}
		last, err := w.storeB.Root(ctx)
		if err != nil {
			panic(err)
		}
		cur := last
		if op.RootChange {
			cur = c.Hash()
		}
		ok, err := w.storeB.Commit(ctx, cur, last)
		if err != nil && strings.Contains(err.Error(), "timed out reading database manifest") && try < 5 {
			continue
		}
		if err != nil {
			panic(err)
		}
		if ok || try >= 3 {
			break
		}
		if err := w.storeB.Rebase(ctx); err != nil {
			panic(err)
		}
	}
	w.emitPublish(before, prev, had, op)
}

func (w *world) dropFirstSpec(op Op) {
	cur, ok := w.diskManifest()
	if !ok || len(cur.Specs) == 0 {
		return
	}
	nm := *cur
	nm.Specs = append([]Spec{}, cur.Specs[1:]...)
	nm.Lock = op.H
	w.update(Op{Op: "update", Gc: false, Last: cur.Lock, New: nm, Id: op.Id, Mt: op.Mt})
}

func (w *world) aPrune(op Op) {
	w.aOpen()
	w.ageLock()
	// what A has rebased to (its own view, exported API only): these are the pruning process's own references
	upstream := []string{}
	if src, serr := w.storeA.Sources(context.Background()); serr == nil {
		for _, tf := range append(append([]chunks.TableFile{}, src.TableFiles...), src.AppendixTableFiles...) {
			upstream = append(upstream, tf.FileID())
		}
	} else {
		panic(serr)
	}
	var stats nbs.PruneStats
	var err error
	for try := 0; try < 5; try++ {
		stats, err = w.storeA.PruneUnreferencedWithGrace(context.Background(), time.Duration(op.Grace)*time.Second)
		if err != nil || !hasSkip(stats.Skipped, "could not take the manifest lock") {
			break
		}
	}
	probe := int64(time.Since(base) / time.Second)
	scan := w.emit(map[string]any{"k": "PScan", "grace": op.Grace, "probe": probe}, 0, false)
	if err != nil {
		w.trace[scan].Code = 97
		w.trace[scan].Snap = w.snap()
		return
	}
	if hasSkip(stats.Skipped, "not quiescent") {
		w.trace[scan].Code = 20
		w.trace[scan].Snap = w.snap()
		return
	}
	lk := w.emit(map[string]any{"k": "PLock", "extra": upstream}, 0, false)
	switch {
	case hasSkip(stats.Skipped, "could not take the manifest lock"):
		w.spurious = true
		w.trace[lk].Code = 8
		w.trace[lk].Snap = w.snap()
		return
	case hasSkip(stats.Skipped, "the manifest was updated while pruning"):
		w.trace[lk].Code = 22
		w.trace[lk].Snap = w.snap()
		return
	}
	code := 23
	if hasSkip(stats.Skipped, "changed after the scan") {
		code = 26
	}
	i := w.emit(map[string]any{"k": "TUnlinkAll"}, code, true)
	w.trace[i].Aux = stats.FilesDeleted
}
