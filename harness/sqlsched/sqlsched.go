// Package sqlsched: helpers shared by the SQL-level schedule harnesses
// (C22, C23, C24, C25, C28): run a generated list of (session, statement) on one
// in-process engine with several independent sessions and canonicalise what
// each statement returned.
package sqlsched

import (
	"fmt"
	"sort"
	"strconv"
	"strings"

	"verifharness/util"
)

// Error classes of one statement.
const (
	ErrNone       = 0
	ErrRetry      = 1 // serialization failure: the transaction conflicts with a committed one, retry
	ErrConstraint = 2 // duplicate key / unique / not null / foreign key / check
	ErrOther      = 3
)

// Null is how SQL NULL is written in integer observations.
const Null = -1

// StepObs is the canonical observation of one statement.
type StepObs struct {
	Err  int     `json:"err"`
	Aff  int     `json:"aff"`  // rows affected (OkResult), 0 otherwise
	Rows [][]int `json:"rows"` // integer result rows, NULL = -1, sorted
	Msg  string  `json:"msg,omitempty"`
}

// Classify maps an error text of the engine to a class.
func Classify(msg string) int {
	if msg == "" {
		return ErrNone
	}
	l := strings.ToLower(msg)
	switch {
	case strings.Contains(l, "retry transaction"), strings.Contains(l, "serialization failure"),
		strings.Contains(l, "lock deadlock"), strings.Contains(l, "try restarting transaction"):
		return ErrRetry
	case strings.Contains(l, "duplicate primary key"), strings.Contains(l, "duplicate unique key"),
		strings.Contains(l, "duplicate entry"), strings.Contains(l, "cannot be null"),
		strings.Contains(l, "foreign key"), strings.Contains(l, "check constraint"),
		strings.Contains(l, "constraint violation"), strings.Contains(l, "non-nullable"):
		return ErrConstraint
	}
	return ErrOther
}

// IntRows converts rendered rows ("i:5", "NULL") to integers; anything else is reported as -999.
func IntRows(rows [][]string) (out [][]int, aff int, isOk bool) {
	out = [][]int{}
	for _, r := range rows {
		if len(r) >= 1 && strings.HasPrefix(r[0], "ok:") {
			n, _ := strconv.Atoi(r[0][3:])
			return [][]int{}, n, true
		}
		ir := make([]int, len(r))
		for i, c := range r {
			switch {
			case c == "NULL":
				ir[i] = Null
			case strings.HasPrefix(c, "i:"):
				n, err := strconv.Atoi(c[2:])
				if err != nil {
					n = -999
				}
				ir[i] = n
			case strings.HasPrefix(c, "v:"), strings.HasPrefix(c, "f:"):
				f, err := strconv.ParseFloat(c[2:], 64)
				if err != nil {
					ir[i] = -999
				} else {
					ir[i] = int(f)
				}
			default:
				ir[i] = -999
			}
		}
		out = append(out, ir)
	}
	sort.Slice(out, func(i, j int) bool {
		a, b := out[i], out[j]
		for k := 0; k < len(a) && k < len(b); k++ {
			if a[k] != b[k] {
				return a[k] < b[k]
			}
		}
		return len(a) < len(b)
	})
	return out, 0, false
}

// Exec runs one statement on one session and canonicalises the result.
func Exec(s *util.Session, q string) StepObs {
	r := s.Exec(q)
	var o StepObs
	o.Rows = [][]int{}
	if r.Err != "" {
		o.Err = Classify(r.Err)
		o.Msg = r.Err
		if len(o.Msg) > 200 {
			o.Msg = o.Msg[:200]
		}
		return o
	}
	rows, aff, _ := IntRows(r.Rows)
	o.Rows, o.Aff = rows, aff
	return o
}

// World is one engine with n sessions (autocommit off unless stated).
type World struct {
	Env  *util.Env
	Sess []*util.Session
}

// NewWorld creates an engine, runs the setup statements on a setup session
// (autocommit on), then opens n sessions; session i runs with autocommit on iff
// i is listed in autos, all others with autocommit off. No transaction is open
// in any session when NewWorld returns.
func NewWorld(n int, setup []string, autos ...int) (*World, error) {
	env, err := util.NewEnv(false)
	if err != nil {
		return nil, err
	}
	w := &World{Env: env}
	s0, err := env.NewSession()
	if err != nil {
		env.Close()
		return nil, err
	}
	if err := s0.MustExec(setup...); err != nil {
		env.Close()
		return nil, err
	}
	for i := 0; i < n; i++ {
		s, err := env.NewSession()
		if err != nil {
			env.Close()
			return nil, err
		}
		mode := "SET autocommit = 0"
		for _, a := range autos {
			if a == i {
				mode = "SET autocommit = 1"
			}
		}
		if err := s.MustExec(mode, "ROLLBACK"); err != nil {
			env.Close()
			return nil, err
		}
		w.Sess = append(w.Sess, s)
	}
	return w, nil
}

func (w *World) Close() { w.Env.Close() }

// Fresh opens one more session (autocommit on): used for final reads of the committed state.
func (w *World) Fresh() (*util.Session, error) { return w.Env.NewSession() }

// V renders an integer cell (NULL = -1).
func V(x int) string {
	if x < 0 {
		return "NULL"
	}
	return fmt.Sprintf("%d", x)
}
