// Package c12: tree shape depends only on content (property C12).
//
// One case = one final content + several construction routes. Every route drives
// the real prolly code (bulk chunker, MutableMap flushes = tree.ApplyMutations,
// MergeMaps = patch generator + ApplyPatches, AddressMap editor, BlobBuilder) and
// the observation is, per route, the root hash and the chunk lengths of every
// level; for route 0 also the decisions of the real node splitter on every run
// (asked from the splitter directly, not derived from the tree).
package c12

import (
	"bytes"
	"context"
	"encoding/json"
	"fmt"
	"math/rand"
	"sort"

	"github.com/dolthub/go-mysql-server/sql"
	gmstypes "github.com/dolthub/go-mysql-server/sql/types"

	"github.com/dolthub/dolt/go/store/hash"
	"github.com/dolthub/dolt/go/store/prolly"
	"github.com/dolthub/dolt/go/store/prolly/tree"
	"github.com/dolthub/dolt/go/store/val"

	"verifharness/hk"
)

func init() { hk.Register("c12", Run) }

type Case struct {
	Kind   string   `json:"kind"` // map | addr | blob
	Seed   int64    `json:"seed"`
	N      int      `json:"n"`      // number of entries (blob: bytes)
	KSpace int      `json:"kspace"` // keys drawn from [0, kspace)
	KPad   int      `json:"kpad"`   // > 0: keys carry this many extra bytes
	VMin   int      `json:"vmin"`
	VMax   int      `json:"vmax"`
	Bigs   []int    `json:"bigs"`   // sizes of a few very large values placed at random keys of the content
	Routes []string `json:"routes"` // construction routes; route 0 must be "bulk"
	Chunk  int      `json:"chunk"`  // blob chunk size
	Del    []int    `json:"del"`    // "delbig": sizes of large rows present only in the starting tree
}

type Route struct {
	Name   string  `json:"name"`
	Root   []int   `json:"root"`
	Levels [][]int `json:"levels"` // bottom-up: chunk lengths
	Count  int     `json:"count"`
}

type Obs struct {
	Routes []Route `json:"routes"`
	N      []int   `json:"n"`   // items per level (route 0)
	Dec    [][]int `json:"dec"` // per level: ids of the items after which the splitter reports a boundary
	MaxVal int     `json:"maxval"`
	MergeHeights []int `json:"merge_heights"` // height of the right-hand tree of every mergetail / mergehead route that ran
	// blobs: the node returned by BlobBuilder.Chunk is not the node at the returned address
	NodeAddrMismatch bool `json:"node_addr_mismatch"`
}

var ctx = context.Background()

type kv struct {
	k int64
	v []byte
}

var kdPlain = val.NewTupleDescriptor(val.Type{Enc: val.Int64Enc})
var kdWide = val.NewTupleDescriptor(val.Type{Enc: val.Int64Enc}, val.Type{Enc: val.ByteStringEnc})
var kd = kdPlain
var keyPad = 0 // > 0: wide keys (int, pad bytes): small fan-out on every level, tall trees with few rows
var vd = val.NewTupleDescriptor(val.Type{Enc: val.ByteStringEnc, Nullable: true})

func mkKey(ns tree.NodeStore, k int64) val.Tuple {
	b := val.NewTupleBuilder(kd, ns)
	b.PutInt64(0, k)
	if keyPad > 0 {
		p := make([]byte, keyPad)
		for i := range p {
			p[i] = byte(k*7 + int64(i)*13)
		}
		b.PutByteString(1, p)
	}
	t, err := b.Build(ctx, ns.Pool())
	if err != nil {
		panic(err)
	}
	return t
}

func mkVal(ns tree.NodeStore, v []byte) val.Tuple {
	b := val.NewTupleBuilder(vd, ns)
	b.PutByteString(0, v)
	t, err := b.Build(ctx, ns.Pool())
	if err != nil {
		panic(err)
	}
	return t
}

func valFor(k int64, seed int64, size int, salt int) []byte {
	r := rand.New(rand.NewSource(seed*7919 + k*31 + int64(salt)))
	b := make([]byte, size)
	r.Read(b)
	return b
}

func bulk(ns tree.NodeStore, content []kv) prolly.Map {
	tups := make([]val.Tuple, 0, 2*len(content))
	for _, e := range content {
		tups = append(tups, mkKey(ns, e.k), mkVal(ns, e.v))
	}
	m, err := prolly.NewMapFromTuples(ctx, ns, kd, vd, tups...)
	if err != nil {
		panic(err)
	}
	return m
}

type edit struct {
	k   int64
	v   []byte
	del bool
}

// apply edits in the given order, flushing (tree.ApplyMutations) after random batch sizes
func applyBatches(ns tree.NodeStore, m prolly.Map, edits []edit, r *rand.Rand, maxBatch int) prolly.Map {
	i := 0
	for i < len(edits) {
		b := 1 + r.Intn(maxBatch)
		if r.Intn(4) == 0 {
			b = 1 + r.Intn(3)
		}
		mut := m.Mutate()
		for j := 0; j < b && i < len(edits); j, i = j+1, i+1 {
			e := edits[i]
			var err error
			if e.del {
				err = mut.Delete(ctx, mkKey(ns, e.k))
			} else {
				err = mut.Put(ctx, mkKey(ns, e.k), mkVal(ns, e.v))
			}
			if err != nil {
				panic(err)
			}
		}
		var err error
		m, err = mut.Map(ctx)
		if err != nil {
			panic(err)
		}
	}
	return m
}

// levels of a tree, bottom-up; every level is the list of its nodes left to right
func walk(ns tree.NodeStore, root *tree.Node) [][]*tree.Node {
	top := []*tree.Node{root}
	all := [][]*tree.Node{top}
	cur := top
	for len(cur) > 0 && !cur[0].IsLeaf() {
		var next []*tree.Node
		for _, nd := range cur {
			for i := 0; i < nd.Count(); i++ {
				ch, err := ns.Read(ctx, hash.New(nd.GetValue(i)))
				if err != nil {
					panic(err)
				}
				next = append(next, ch)
			}
		}
		all = append(all, next)
		cur = next
	}
	// reverse: bottom-up
	for i, j := 0, len(all)-1; i < j; i, j = i+1, j-1 {
		all[i], all[j] = all[j], all[i]
	}
	return all
}

func hashInts(h hash.Hash) []int {
	out := make([]int, len(h))
	for i, b := range h {
		out[i] = int(b)
	}
	return out
}

func routeObs(name string, ns tree.NodeStore, root *tree.Node) (Route, [][]*tree.Node) {
	lv := walk(ns, root)
	r := Route{Name: name, Root: hashInts(root.HashOf())}
	for _, nodes := range lv {
		var lens []int
		for _, nd := range nodes {
			if nd.Count() > 0 {
				lens = append(lens, nd.Count())
			}
		}
		if lens == nil {
			lens = []int{}
		}
		r.Levels = append(r.Levels, lens)
	}
	c, _ := root.TreeCount()
	r.Count = c
	return r, lv
}

// decisions of the real splitter for every run of every level of the tree
func decisions(lv [][]*tree.Node) (n []int, dec [][]int) { return decisionsWith(lv, nil) }

// leafVal, when non-nil, is the value the chunker was given for every leaf entry (commit closures: the
// 1-byte placeholder that is not serialized); otherwise the stored value is used
func decisionsWith(lv [][]*tree.Node, leafVal []byte) (n []int, dec [][]int) {
	var ids []int // ids of the items of the current level = ordinal of the last leaf entry below
	for l, nodes := range lv {
		var newIds []int
		var d []int
		pos := 0
		cnt := 0
		for _, nd := range nodes {
			keys := make([]tree.Item, nd.Count())
			vals := make([]tree.Item, nd.Count())
			for i := 0; i < nd.Count(); i++ {
				keys[i], vals[i] = nd.GetKey(i), nd.GetValue(i)
				if l == 0 && leafVal != nil {
					vals[i] = leafVal
				}
			}
			ds := tree.VerifSplitDecisions(l, keys, vals)
			for i := range ds {
				id := pos
				if l > 0 {
					id = ids[pos]
				}
				if ds[i] {
					d = append(d, id)
				}
				if i == len(ds)-1 {
					newIds = append(newIds, id)
				}
				pos++
			}
			cnt += nd.Count()
		}
		if d == nil {
			d = []int{}
		}
		n = append(n, cnt)
		dec = append(dec, d)
		ids = newIds
	}
	return
}

func genContent(c Case, r *rand.Rand) []kv {
	keys := map[int64]bool{}
	for len(keys) < c.N {
		keys[int64(r.Intn(c.KSpace))] = true
	}
	var ks []int64
	for k := range keys {
		ks = append(ks, k)
	}
	sort.Slice(ks, func(i, j int) bool { return ks[i] < ks[j] })
	content := make([]kv, len(ks))
	for i, k := range ks {
		sz := c.VMin
		if c.VMax > c.VMin {
			sz += r.Intn(c.VMax - c.VMin + 1)
		}
		content[i] = kv{k, valFor(k, c.Seed, sz, 0)}
	}
	for _, sz := range c.Bigs {
		if len(content) > 0 {
			i := r.Intn(len(content))
			content[i].v = valFor(content[i].k, c.Seed, sz, 1)
		}
	}
	return content
}

func runMap(c Case) (any, error) {
	kd, keyPad = kdPlain, 0
	if c.KPad > 0 {
		kd, keyPad = kdWide, c.KPad
	}
	r := rand.New(rand.NewSource(c.Seed))
	ns := tree.NewTestNodeStore()
	content := genContent(c, r)
	inContent := map[int64]bool{}
	for _, e := range content {
		inContent[e.k] = true
	}
	var o Obs
	for _, e := range content {
		if len(e.v) > o.MaxVal {
			o.MaxVal = len(e.v)
		}
	}
	base := bulk(ns, content)
	var leafBoundaryKeys []int // indices into content of first/last entries of leaf chunks
	for ri, name := range c.Routes {
		var m prolly.Map
		switch name {
		case "bulk":
			m = base
		case "incr": // random-order inserts, random batch sizes, from the empty map
			es := make([]edit, len(content))
			for i, e := range content {
				es[i] = edit{k: e.k, v: e.v}
			}
			r.Shuffle(len(es), func(i, j int) { es[i], es[j] = es[j], es[i] })
			m = applyBatches(ns, bulk(ns, nil), es, r, 1+len(es)/4)
		case "asc1": // ascending, small batches (appends at the right edge)
			es := make([]edit, len(content))
			for i, e := range content {
				es[i] = edit{k: e.k, v: e.v}
			}
			m = applyBatches(ns, bulk(ns, nil), es, r, 40)
		case "insdel": // content plus extra keys, then the extras are deleted
			var es []edit
			var extras []int64
			for i := 0; i < 1+len(content)/3; i++ {
				k := int64(r.Intn(c.KSpace + 10))
				if !inContent[k] {
					extras = append(extras, k)
				}
			}
			for _, e := range content {
				es = append(es, edit{k: e.k, v: e.v})
			}
			for _, k := range extras {
				es = append(es, edit{k: k, v: valFor(k, c.Seed, c.VMin+r.Intn(c.VMax-c.VMin+1), 2)})
			}
			r.Shuffle(len(es), func(i, j int) { es[i], es[j] = es[j], es[i] })
			m = applyBatches(ns, bulk(ns, nil), es, r, 1+len(es)/3)
			var ds []edit
			for _, k := range extras {
				ds = append(ds, edit{k: k, del: true})
			}
			r.Shuffle(len(ds), func(i, j int) { ds[i], ds[j] = ds[j], ds[i] })
			m = applyBatches(ns, m, ds, r, 1+len(ds)/2)
		case "other": // start from a different tree: other values, some keys missing, some extra
			var start []kv
			var es []edit
			for _, e := range content {
				switch r.Intn(4) {
				case 0: // missing in the start
					es = append(es, edit{k: e.k, v: e.v})
				case 1: // other value (other size)
					start = append(start, kv{e.k, valFor(e.k, c.Seed, c.VMin+r.Intn(c.VMax-c.VMin+1), 3)})
					es = append(es, edit{k: e.k, v: e.v})
				default:
					start = append(start, e)
				}
			}
			for i := 0; i < len(content)/4; i++ {
				k := int64(r.Intn(c.KSpace + 10))
				if !inContent[k] {
					inContent[k] = true // avoid duplicates in start
					start = append(start, kv{k, valFor(k, c.Seed, c.VMin, 4)})
					es = append(es, edit{k: k, del: true})
					defer func(k int64) { delete(inContent, k) }(k)
				}
			}
			sort.Slice(start, func(i, j int) bool { return start[i].k < start[j].k })
			r.Shuffle(len(es), func(i, j int) { es[i], es[j] = es[j], es[i] })
			m = applyBatches(ns, bulk(ns, start), es, r, 1+len(es)/2)
		case "shrink": // a much larger tree is cut down to the content (height shrinks)
			var start []kv
			var ds []edit
			start = append(start, content...)
			seen := map[int64]bool{}
			for i := 0; i < 3*len(content)+200; i++ {
				k := int64(c.KSpace + 10 + r.Intn(8*c.KSpace+1000))
				if !seen[k] {
					seen[k] = true
					start = append(start, kv{k, valFor(k, c.Seed, c.VMax, 5)})
					ds = append(ds, edit{k: k, del: true})
				}
			}
			sort.Slice(start, func(i, j int) bool { return start[i].k < start[j].k })
			r.Shuffle(len(ds), func(i, j int) { ds[i], ds[j] = ds[j], ds[i] })
			m = applyBatches(ns, bulk(ns, start), ds, r, 1+len(ds))
		case "bnd": // the entries at leaf chunk edges are missing / different in the start, then put back one by one
			var start []kv
			var es []edit
			isB := map[int]bool{}
			for _, i := range leafBoundaryKeys {
				isB[i] = true
			}
			for i, e := range content {
				if isB[i] {
					if r.Intn(2) == 0 {
						start = append(start, kv{e.k, valFor(e.k, c.Seed, c.VMin+r.Intn(c.VMax-c.VMin+1), 6)})
					}
					es = append(es, edit{k: e.k, v: e.v})
				} else {
					start = append(start, e)
				}
			}
			r.Shuffle(len(es), func(i, j int) { es[i], es[j] = es[j], es[i] })
			m = applyBatches(ns, bulk(ns, start), es, r, 2)
		case "bnddel": // extra keys right next to leaf chunk edges are deleted
			var start []kv
			var ds []edit
			start = append(start, content...)
			for _, i := range leafBoundaryKeys {
				for _, k := range []int64{content[i].k - 1, content[i].k + 1} {
					if k >= 0 && !inContent[k] {
						inContent[k] = true
						defer func(k int64) { delete(inContent, k) }(k)
						start = append(start, kv{k, valFor(k, c.Seed, c.VMin+r.Intn(c.VMax-c.VMin+1), 7)})
						ds = append(ds, edit{k: k, del: true})
					}
				}
			}
			sort.Slice(start, func(i, j int) bool { return start[i].k < start[j].k })
			r.Shuffle(len(ds), func(i, j int) { ds[i], ds[j] = ds[j], ds[i] })
			m = applyBatches(ns, bulk(ns, start), ds, r, 1+len(ds)/3)
		case "delbig": // very large rows exist only in the starting tree and are deleted / shrunk
			var start []kv
			var es []edit
			start = append(start, content...)
			for _, sz := range c.Del {
				if r.Intn(2) == 0 || len(content) == 0 {
					k := int64(r.Intn(c.KSpace + 10))
					if !inContent[k] {
						inContent[k] = true
						defer func(k int64) { delete(inContent, k) }(k)
						start = append(start, kv{k, valFor(k, c.Seed, sz, 8)})
						es = append(es, edit{k: k, del: true})
					}
				} else {
					i := r.Intn(len(content))
					for j := range start {
						if start[j].k == content[i].k {
							start[j] = kv{content[i].k, valFor(content[i].k, c.Seed, sz, 9)}
						}
					}
					es = append(es, edit{k: content[i].k, v: content[i].v})
				}
			}
			sort.Slice(start, func(i, j int) bool { return start[i].k < start[j].k })
			m = applyBatches(ns, bulk(ns, start), es, r, 1+len(es))
		case "mergetail", "mergehead":
			// right's change is confined to the LAST (FIRST) leaf of the base, the base ends (starts) exactly on a
			// leaf boundary, left appends (prepends) rows beyond it; the merge result is the content
			m = base
			name = name + "-skipped"
			if len(content) >= 12 {
				tail := name == "mergetail-skipped"
				mi := len(content)*3/5 + r.Intn(1+len(content)/4)
				if !tail {
					mi = len(content)/8 + r.Intn(1+len(content)/4)
				}
				tp := append([]kv{}, content...)
				tp[mi] = kv{tp[mi].k, valFor(tp[mi].k, c.Seed, c.VMin+r.Intn(c.VMax-c.VMin+1), 21)}
				lvp := walk(ns, bulk(ns, tp).Node())
				pos, s0, e0 := 0, -1, -1
				for _, nd := range lvp[0] {
					if mi >= pos && mi < pos+nd.Count() {
						s0, e0 = pos, pos+nd.Count()
					}
					pos += nd.Count()
				}
				var bse, lft, rgt []kv
				ok := false
				if tail && e0 > 0 && e0 < len(content) {
					bse = append(bse, tp[:e0]...)
					lft = append(append(lft, bse...), content[e0:]...)
					rgt = append(rgt, bse...)
					rgt[mi] = content[mi]
					ok = true
				} else if !tail && s0 > 0 {
					bse = append(bse, tp[s0:]...)
					lft = append(append(lft, content[:s0]...), bse...)
					rgt = append(rgt, bse...)
					rgt[mi-s0] = content[mi]
					ok = true
				}
				if ok {
					var err error
					m, _, err = prolly.MergeMaps(ctx, bulk(ns, lft), bulk(ns, rgt), bulk(ns, bse), func(l, r tree.Diff) (tree.Diff, bool) {
						panic("unexpected collision")
					})
					if err != nil {
						return nil, err
					}
					name = name[:len(name)-len("-skipped")]
					o.MergeHeights = append(o.MergeHeights, bulk(ns, rgt).Height())
				}
			}
		case "merge": // three-way merge whose result is the content
			var bse, lft, rgt []kv
			for _, e := range content {
				switch r.Intn(6) {
				case 0: // added on the left
					lft = append(lft, e)
				case 1: // added on the right
					rgt = append(rgt, e)
				case 2: // modified on the right
					old := kv{e.k, valFor(e.k, c.Seed, c.VMin+r.Intn(c.VMax-c.VMin+1), 10)}
					bse, lft, rgt = append(bse, old), append(lft, old), append(rgt, e)
				case 3: // modified on the left
					old := kv{e.k, valFor(e.k, c.Seed, c.VMin+r.Intn(c.VMax-c.VMin+1), 11)}
					bse, lft, rgt = append(bse, old), append(lft, e), append(rgt, old)
				default:
					bse, lft, rgt = append(bse, e), append(lft, e), append(rgt, e)
				}
			}
			for i := 0; i < len(content)/5; i++ { // deleted on one side
				k := int64(r.Intn(c.KSpace + 10))
				if !inContent[k] {
					inContent[k] = true
					defer func(k int64) { delete(inContent, k) }(k)
					e := kv{k, valFor(k, c.Seed, c.VMin, 12)}
					if r.Intn(2) == 0 {
						bse, lft = append(bse, e), append(lft, e)
					} else {
						bse, rgt = append(bse, e), append(rgt, e)
					}
				}
			}
			for _, s := range []*[]kv{&bse, &lft, &rgt} {
				x := *s
				sort.Slice(x, func(i, j int) bool { return x[i].k < x[j].k })
			}
			var err error
			m, _, err = prolly.MergeMaps(ctx, bulk(ns, lft), bulk(ns, rgt), bulk(ns, bse), func(l, r tree.Diff) (tree.Diff, bool) {
				panic("unexpected collision")
			})
			if err != nil {
				return nil, err
			}
		default:
			return nil, fmt.Errorf("unknown route %q", name)
		}
		ro, lv := routeObs(name, ns, m.Node())
		o.Routes = append(o.Routes, ro)
		if ri == 0 {
			o.N, o.Dec = decisions(lv)
			pos := 0
			for _, nd := range lv[0] {
				if nd.Count() > 0 {
					leafBoundaryKeys = append(leafBoundaryKeys, pos, pos+nd.Count()-1)
					pos += nd.Count()
				}
			}
		}
		// sanity of the harness itself: the route really produced the content
		if ro.Count != len(content) {
			return nil, fmt.Errorf("route %s: %d entries, want %d", name, ro.Count, len(content))
		}
		it, err := m.IterAll(ctx)
		if err != nil {
			return nil, err
		}
		for i := 0; i < len(content); i++ {
			k, v, err := it.Next(ctx)
			if err != nil {
				return nil, err
			}
			kk, _ := kd.GetInt64(0, k)
			vv, _ := vd.GetBytes(0, v)
			if kk != content[i].k || !bytes.Equal(vv, content[i].v) {
				return nil, fmt.Errorf("route %s: entry %d differs from the content", name, i)
			}
		}
	}
	return o, nil
}

func runAddr(c Case) (any, error) {
	r := rand.New(rand.NewSource(c.Seed))
	ns := tree.NewTestNodeStore()
	names := map[string]hash.Hash{}
	for len(names) < c.N {
		n := fmt.Sprintf("refs/heads/b%0*d", 1+r.Intn(c.VMax+1), r.Intn(c.KSpace))
		names[n] = hash.Of([]byte(n))
	}
	var sorted []string
	for n := range names {
		sorted = append(sorted, n)
	}
	sort.Strings(sorted)
	var o Obs
	for ri, name := range c.Routes {
		am, err := prolly.NewEmptyAddressMap(ns)
		if err != nil {
			return nil, err
		}
		order := append([]string{}, sorted...)
		batch := len(order) + 1
		var extras []string
		switch name {
		case "bulk":
		case "incr":
			r.Shuffle(len(order), func(i, j int) { order[i], order[j] = order[j], order[i] })
			batch = 1 + r.Intn(1+len(order)/3)
		case "insdel":
			for i := 0; i < 1+len(order)/3; i++ {
				n := fmt.Sprintf("refs/tags/x%d", r.Intn(c.KSpace))
				if _, ok := names[n]; !ok {
					extras = append(extras, n)
				}
			}
			order = append(order, extras...)
			r.Shuffle(len(order), func(i, j int) { order[i], order[j] = order[j], order[i] })
			batch = 1 + r.Intn(1+len(order)/2)
		default:
			return nil, fmt.Errorf("unknown route %q", name)
		}
		for i := 0; i < len(order); {
			ed := am.Editor()
			for j := 0; j < batch && i < len(order); j, i = j+1, i+1 {
				if err := ed.Add(ctx, order[i], hash.Of([]byte(order[i]))); err != nil {
					return nil, err
				}
			}
			if am, err = ed.Flush(ctx); err != nil {
				return nil, err
			}
		}
		if len(extras) > 0 {
			ed := am.Editor()
			seen := map[string]bool{}
			for _, n := range extras {
				if !seen[n] {
					seen[n] = true
					if err := ed.Delete(ctx, n); err != nil {
						return nil, err
					}
				}
			}
			if am, err = ed.Flush(ctx); err != nil {
				return nil, err
			}
		}
		ro, lv := routeObs(name, ns, am.Node())
		if ro.Count != len(sorted) {
			return nil, fmt.Errorf("addr route %s: %d entries, want %d", name, ro.Count, len(sorted))
		}
		o.Routes = append(o.Routes, ro)
		if ri == 0 {
			o.N, o.Dec = decisions(lv)
		}
	}
	return o, nil
}

// blobs: fixed fan-out trees; routes = fresh builder / builder re-used after other blobs
func runBlob(c Case) (any, error) {
	r := rand.New(rand.NewSource(c.Seed))
	ns := tree.NewTestNodeStore()
	data := make([]byte, c.N)
	r.Read(data)
	var o Obs
	// the observed root is the ADDRESS BlobBuilder.Chunk returns (what callers store in the row), the tree is
	// walked from that address; the returned node is only cross-checked against it
	build := func(bb *tree.BlobBuilder, d []byte) (*tree.Node, error) {
		bb.SetNodeStore(ns)
		bb.Init(len(d))
		nd, h, err := bb.Chunk(ctx, bytes.NewReader(d))
		bb.Reset()
		if err != nil || nd == nil {
			return nd, err
		}
		top, err := ns.Read(ctx, h)
		if err != nil {
			return nil, err
		}
		if nd.HashOf() != h {
			o.NodeAddrMismatch = true
		}
		return top, nil
	}
	shared, err := tree.NewBlobBuilder(c.Chunk)
	if err != nil {
		return nil, err
	}
	for _, name := range c.Routes {
		var bb *tree.BlobBuilder
		switch name {
		case "bulk":
			if bb, err = tree.NewBlobBuilder(c.Chunk); err != nil {
				return nil, err
			}
		case "reuse": // same builder after blobs of other sizes (deeper and shallower)
			bb = shared
			// first a taller blob (at least two address levels), then shallower ones, then the target
			for _, n := range []int{c.N*3 + 2*c.Chunk*(c.Chunk/20) + 7, c.Chunk + 1 + r.Intn(c.Chunk*(c.Chunk/20)), 1 + r.Intn(c.N+1), c.Chunk} {
				other := make([]byte, n)
				r.Read(other)
				if _, err := build(bb, other); err != nil {
					return nil, err
				}
			}
		default:
			return nil, fmt.Errorf("unknown route %q", name)
		}
		nd, err := build(bb, data)
		if err != nil {
			return nil, err
		}
		ro := Route{Name: name, Levels: [][]int{}}
		if nd != nil {
			ro.Root = hashInts(nd.HashOf())
			lv := walk(ns, nd)
			for l, nodes := range lv {
				lens := []int{}
				for _, n := range nodes {
					if n.Count() == 0 {
						lens = append(lens, 0)
					} else if l == 0 && n.IsLeaf() {
						lens = append(lens, len(n.GetValue(0)))
					} else {
						lens = append(lens, n.Count())
					}
				}
				ro.Levels = append(ro.Levels, lens)
			}
		} else {
			ro.Root = []int{}
		}
		o.Routes = append(o.Routes, ro)
	}
	o.N, o.Dec = []int{c.N}, [][]int{}
	return o, nil
}

// commit closures: keys (height, commit address), empty values
func runClosure(c Case) (any, error) {
	r := rand.New(rand.NewSource(c.Seed))
	ns := tree.NewTestNodeStore()
	type ck struct {
		h uint64
		a hash.Hash
	}
	seen := map[ck]bool{}
	var content []ck
	for len(content) < c.N {
		k := ck{uint64(r.Intn(c.KSpace + 1)), hash.Of([]byte(fmt.Sprint("c", r.Intn(1<<30))))}
		if !seen[k] {
			seen[k] = true
			content = append(content, k)
		}
	}
	var o Obs
	for ri, name := range c.Routes {
		cc, err := prolly.NewEmptyCommitClosure(ns)
		if err != nil {
			return nil, err
		}
		order := append([]ck{}, content...)
		var extras []ck
		batch := len(order) + 1
		switch name {
		case "bulk":
		case "incr":
			r.Shuffle(len(order), func(i, j int) { order[i], order[j] = order[j], order[i] })
			batch = 1 + r.Intn(1+len(order)/3)
		case "asc1": // in key order, small batches
			sort.Slice(order, func(i, j int) bool {
				if order[i].h != order[j].h {
					return order[i].h < order[j].h
				}
				return bytes.Compare(order[i].a[:], order[j].a[:]) < 0
			})
			batch = 1 + r.Intn(25)
		case "insdel": // NOTE: CommitClosureEditor.Delete is a no-op on the real code (leaf values read back as nil,
			// so ApplyMutations takes "don't delete what isn't there"); the route is kept for the day it works
			for i := 0; i < 1+len(order)/3; i++ {
				k := ck{uint64(r.Intn(c.KSpace + 1)), hash.Of([]byte(fmt.Sprint("x", r.Intn(1<<30))))}
				if !seen[k] {
					seen[k] = true
					defer func(k ck) { delete(seen, k) }(k)
					extras = append(extras, k)
				}
			}
			order = append(order, extras...)
			r.Shuffle(len(order), func(i, j int) { order[i], order[j] = order[j], order[i] })
			batch = 1 + r.Intn(1+len(order)/2)
		default:
			return nil, fmt.Errorf("unknown route %q", name)
		}
		for i := 0; i < len(order); {
			ed := cc.Editor()
			for j := 0; j < batch && i < len(order); j, i = j+1, i+1 {
				if err := ed.Add(ctx, prolly.NewCommitClosureKey(ns.Pool(), order[i].h, order[i].a)); err != nil {
					return nil, err
				}
			}
			if cc, err = ed.Flush(ctx); err != nil {
				return nil, err
			}
		}
		if len(extras) > 0 {
			ed := cc.Editor()
			for _, k := range extras {
				if err := ed.Delete(ctx, prolly.NewCommitClosureKey(ns.Pool(), k.h, k.a)); err != nil {
					return nil, err
				}
			}
			if cc, err = ed.Flush(ctx); err != nil {
				return nil, err
			}
		}
		ro, lv := routeObs(name, ns, cc.Node())
		if ro.Count != len(content) {
			return nil, fmt.Errorf("closure route %s: %d entries, want %d", name, ro.Count, len(content))
		}
		o.Routes = append(o.Routes, ro)
		if ri == 0 {
			o.N, o.Dec = decisionsWith(lv, make([]byte, 1))
		}
	}
	return o, nil
}

// JSON documents (json_chunker.go): the same document serialised in one go, and
// reached from variants of it through IndexedJsonDocument.Set / Insert / Remove.
// Only object members with scalar / string values are touched. Observed: root
// hash and the number of nodes per level (the leaf splitter of JSON documents is
// not the node splitter, so no shape is predicted for this kind).
func runJSON(c Case) (any, error) {
	r := rand.New(rand.NewSource(c.Seed))
	ns := tree.NewTestNodeStore()
	target := map[string]interface{}{}
	var keys []string
	for i := 0; i < c.N; i++ {
		k := fmt.Sprintf("k%04d", i)
		keys = append(keys, k)
		if r.Intn(3) == 0 {
			target[k] = float64(r.Intn(100000))
		} else {
			b := make([]byte, c.VMin+r.Intn(c.VMax-c.VMin+1))
			for j := range b {
				b[j] = byte('a' + r.Intn(26))
			}
			target[k] = string(b)
		}
	}
	sctx := sql.NewEmptyContext()
	ser := func(m map[string]interface{}) (*tree.Node, error) {
		return tree.SerializeJsonToAddr(ctx, ns, gmstypes.JSONDocument{Val: m})
	}
	var o Obs
	for _, name := range c.Routes {
		var root *tree.Node
		var err error
		switch name {
		case "bulk":
			root, err = ser(target)
		case "set", "insert", "remove":
			variant := map[string]interface{}{}
			for k, v := range target {
				variant[k] = v
			}
			type ed struct {
				k string
			}
			var eds []string
			for i := 0; i < 1+r.Intn(4) && len(keys) > 0; i++ {
				k := keys[r.Intn(len(keys))]
				switch name {
				case "set":
					variant[k] = "other" + fmt.Sprint(r.Intn(1000))
				case "insert":
					delete(variant, k)
				case "remove":
					k = k + "x"
					variant[k] = "extra"
				}
				eds = append(eds, k)
			}
			root, err = ser(variant)
			if err != nil {
				return nil, err
			}
			var doc gmstypes.MutableJSON = tree.NewIndexedJsonDocument(root, ns)
			for _, k := range eds {
				switch name {
				case "set":
					doc, _, err = doc.Set(sctx, "$."+k, gmstypes.JSONDocument{Val: target[k]})
				case "insert":
					doc, _, err = doc.Insert(sctx, "$."+k, gmstypes.JSONDocument{Val: target[k]})
				case "remove":
					doc, _, err = doc.Remove(sctx, "$."+k)
				}
				if err != nil {
					return nil, err
				}
			}
			w, ok := doc.(sql.JSONWrapper)
			if !ok {
				return nil, fmt.Errorf("json route %s: result is not a JSONWrapper", name)
			}
			root, err = tree.SerializeJsonToAddr(ctx, ns, w)
		default:
			return nil, fmt.Errorf("unknown route %q", name)
		}
		if err != nil {
			return nil, err
		}
		ro := Route{Name: name, Root: hashInts(root.HashOf()), Levels: [][]int{}}
		for _, nodes := range walkJSON(ns, root) {
			ro.Levels = append(ro.Levels, []int{len(nodes)})
		}
		o.Routes = append(o.Routes, ro)
	}
	o.N, o.Dec = []int{0}, [][]int{}
	return o, nil
}

// like walk, but level-0 nodes of a JSON document are blobs (their single value is not an address)
func walkJSON(ns tree.NodeStore, root *tree.Node) [][]*tree.Node {
	cur := []*tree.Node{root}
	all := [][]*tree.Node{cur}
	for len(cur) > 0 && cur[0].Level() > 0 {
		var next []*tree.Node
		for _, nd := range cur {
			for i := 0; i < nd.Count(); i++ {
				ch, err := ns.Read(ctx, hash.New(nd.GetValue(i)))
				if err != nil {
					panic(err)
				}
				next = append(next, ch)
			}
		}
		all = append(all, next)
		cur = next
	}
	for i, j := 0, len(all)-1; i < j; i, j = i+1, j-1 {
		all[i], all[j] = all[j], all[i]
	}
	return all
}

func Run(raw json.RawMessage) (any, error) {
	var c Case
	if err := json.Unmarshal(raw, &c); err != nil {
		return nil, err
	}
	switch c.Kind {
	case "map":
		return runMap(c)
	case "addr":
		return runAddr(c)
	case "blob":
		return runBlob(c)
	case "closure":
		return runClosure(c)
	case "json":
		return runJSON(c)
	}
	return nil, fmt.Errorf("unknown kind %q", c.Kind)
}
