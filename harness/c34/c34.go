// Package c34: stash / reset / checkout through SQL (property C34).
//
// One case = initial contents of two tables t1,t2(pk int primary key, a int, b int)
// committed on main, a second branch "other" with its own committed contents, and
// a sequence of operations on one session.  After every operation the harness
// reports the outcome, the active branch, the HEAD / STAGED / WORKING contents
// (AS OF), the number of stashes and the hashes of the working and staged roots.
package c34

import (
	"encoding/json"
	"fmt"
	"strconv"
	"strings"

	"verifharness/hk"
	"verifharness/util"
)

func init() { hk.Register("c34", Run) }

type Row struct {
	T  int    `json:"t"`
	K  int    `json:"k"`
	Cs []*int `json:"c"`
}

type Op struct {
	Kind string `json:"kind"` // edit add addall commit stash pop reset_hard reset_hard_to reset_soft reset_soft_to checkout checkout_move
	T    int    `json:"t"`    // edit/add: table
	Rows []Row  `json:"rows"` // edit: new rows of table t
	To   int    `json:"to"`   // reset_*_to: index into the list of commits made so far (0 = initial main, 1 = other, 2.. = commits made by ops)
	B    string `json:"b"`    // checkout: branch
}

type Case struct {
	Main  []Row `json:"main"`
	Other []Row `json:"other"`
	Ops   []Op  `json:"ops"`
}

type StepObs struct {
	Kind    string `json:"kind"` // ok | err
	Msg     string `json:"msg,omitempty"`
	Branch  string `json:"branch"`
	Head    []Row  `json:"head"`
	Staged  []Row  `json:"staged"`
	Working []Row  `json:"working"`
	Stashes int    `json:"stashes"`
	WHash   string `json:"whash"`
	SHash   string `json:"shash"`
	HHash   string `json:"hhash"`
	Status  int    `json:"status"`
	Commit  int    `json:"commit"` // index of HEAD in the commit list, -1 unknown
}

type Obs struct {
	Steps []StepObs `json:"steps"`
	Auto  string    `json:"auto"`
}

func tname(t int) string { return fmt.Sprintf("t%d", t) }

func cellSQL(c *int) string {
	if c == nil {
		return "NULL"
	}
	return strconv.Itoa(*c)
}

func parseCell(v string) *int {
	if v == "NULL" {
		return nil
	}
	n, err := strconv.Atoi(strings.TrimPrefix(v, "i:"))
	if err != nil {
		panic("unexpected cell " + v)
	}
	return &n
}

func setTable(s *util.Session, t int, rows []Row) error {
	if err := s.MustExec("DELETE FROM " + tname(t)); err != nil {
		return err
	}
	for _, r := range rows {
		if r.T != t {
			continue
		}
		q := fmt.Sprintf("INSERT INTO %s VALUES (%d,%s,%s)", tname(r.T), r.K, cellSQL(r.Cs[0]), cellSQL(r.Cs[1]))
		if err := s.MustExec(q); err != nil {
			return err
		}
	}
	return nil
}

func readAsOf(s *util.Session, rev string) []Row {
	out := []Row{}
	for t := 1; t <= 2; t++ {
		r := s.Exec(fmt.Sprintf("SELECT pk,a,b FROM %s AS OF '%s' ORDER BY pk", tname(t), rev))
		if r.Err != "" {
			return []Row{{T: 99, K: 0, Cs: []*int{nil, nil}}}
		}
		for _, row := range r.Rows {
			out = append(out, Row{T: t, K: *parseCell(row[0]), Cs: []*int{parseCell(row[1]), parseCell(row[2])}})
		}
	}
	return out
}

func one(s *util.Session, q string) string {
	r := s.Exec(q)
	if r.Err != "" || len(r.Rows) == 0 {
		return "!" + r.Err
	}
	return strings.TrimPrefix(r.Rows[0][0], "s:")
}

func Run(raw json.RawMessage) (any, error) {
	var c Case
	if err := json.Unmarshal(raw, &c); err != nil {
		return nil, err
	}
	env, err := util.NewEnv(false)
	if err != nil {
		return nil, err
	}
	defer env.Close()
	s, err := env.NewSession()
	if err != nil {
		return nil, err
	}
	auto := one(s, "SELECT @@autocommit")
	if err := s.MustExec("SET @@autocommit = 1"); err != nil {
		return nil, err
	}
	for t := 1; t <= 2; t++ {
		if err := s.MustExec(fmt.Sprintf("CREATE TABLE %s (pk int primary key, a int, b int)", tname(t))); err != nil {
			return nil, err
		}
	}
	commits := []string{}
	commit := func(msg string) error {
		r := s.Exec(fmt.Sprintf("CALL dolt_commit('-A','--allow-empty','-m','%s')", msg))
		if r.Err != "" {
			return fmt.Errorf("commit: %s", r.Err)
		}
		commits = append(commits, strings.TrimPrefix(r.Rows[0][0], "s:"))
		return nil
	}
	for t := 1; t <= 2; t++ {
		if err := setTable(s, t, c.Main); err != nil {
			return nil, err
		}
	}
	if err := commit("main0"); err != nil {
		return nil, err
	}
	if err := s.MustExec("CALL dolt_checkout('-b','other')"); err != nil {
		return nil, err
	}
	for t := 1; t <= 2; t++ {
		if err := setTable(s, t, c.Other); err != nil {
			return nil, err
		}
	}
	if err := commit("other0"); err != nil {
		return nil, err
	}
	if err := s.MustExec("CALL dolt_checkout('main')"); err != nil {
		return nil, err
	}
	var obs Obs
	obs.Auto = auto
	for n, op := range c.Ops {
		var r util.Result
		switch op.Kind {
		case "edit":
			if err := setTable(s, op.T, op.Rows); err != nil {
				r.Err = err.Error()
			}
		case "add":
			r = s.Exec(fmt.Sprintf("CALL dolt_add('%s')", tname(op.T)))
		case "addall":
			r = s.Exec("CALL dolt_add('-A')")
		case "commit":
			r = s.Exec(fmt.Sprintf("CALL dolt_commit('-m','op%d')", n))
			if r.Err == "" {
				commits = append(commits, strings.TrimPrefix(r.Rows[0][0], "s:"))
			}
		case "stash":
			r = s.Exec("CALL dolt_stash('push','st')")
		case "stash_bad":
			// an illegal stash name: the push must fail and must not touch the working set
			r = s.Exec("CALL dolt_stash('push','my stash')")
		case "pop":
			r = s.Exec("CALL dolt_stash('pop','st')")
		case "reset_hard":
			r = s.Exec("CALL dolt_reset('--hard')")
		case "reset_hard_to":
			r = s.Exec(fmt.Sprintf("CALL dolt_reset('--hard','%s')", commits[op.To%len(commits)]))
		case "reset_soft":
			r = s.Exec("CALL dolt_reset()")
		case "reset_soft_t":
			r = s.Exec(fmt.Sprintf("CALL dolt_reset('%s')", tname(op.T)))
		case "reset_soft_to":
			r = s.Exec(fmt.Sprintf("CALL dolt_reset('--soft','%s')", commits[op.To%len(commits)]))
		case "checkout":
			r = s.Exec(fmt.Sprintf("CALL dolt_checkout('%s')", op.B))
		case "checkout_move":
			r = s.Exec(fmt.Sprintf("CALL dolt_checkout('--move','%s')", op.B))
		default:
			return nil, fmt.Errorf("unknown op %q", op.Kind)
		}
		var o StepObs
		o.Kind = "ok"
		if r.Err != "" {
			o.Kind, o.Msg = "err", r.Err
		}
		o.Branch = one(s, "SELECT active_branch()")
		o.Head, o.Staged, o.Working = readAsOf(s, "HEAD"), readAsOf(s, "STAGED"), readAsOf(s, "WORKING")
		o.Stashes, _ = strconv.Atoi(strings.TrimPrefix(one(s, "SELECT count(*) FROM dolt_stashes"), "i:"))
		o.WHash, o.SHash, o.HHash = one(s, "SELECT dolt_hashof_db('WORKING')"), one(s, "SELECT dolt_hashof_db('STAGED')"), one(s, "SELECT dolt_hashof_db('HEAD')")
		o.Status, _ = strconv.Atoi(strings.TrimPrefix(one(s, "SELECT count(*) FROM dolt_status"), "i:"))
		o.Commit = -1
		hh := one(s, "SELECT dolt_hashof('HEAD')")
		for i, h := range commits {
			if h == hh {
				o.Commit = i
			}
		}
		obs.Steps = append(obs.Steps, o)
	}
	if obs.Steps == nil {
		obs.Steps = []StepObs{}
	}
	return obs, nil
}
