// Package c02: root commit as compare-and-swap on the manifest (property C02).
//
// Two or three real NomsBlockStore clients (nbs.NewLocalStore) share one temp
// directory and execute a generated interleaving of Put / Commit / Rebase at
// API granularity, sequentially in one goroutine. After every call the harness
// records the result, the caller's Root(), the persisted manifest (re-read from
// the manifest file) and what a fresh open of the directory sees.
package c02

import (
	"context"
	"encoding/json"
	"errors"
	"fmt"
	"os"
	"path/filepath"
	"sort"
	"strings"
	"sync"
	"time"

	"github.com/dolthub/dolt/go/store/chunks"
	"github.com/dolthub/dolt/go/store/constants"
	"github.com/dolthub/dolt/go/store/hash"
	"github.com/dolthub/dolt/go/store/nbs"

	"verifharness/hk"
)

func init() { hk.Register("c02", Run) }

type Op struct {
	C    int    `json:"c"`    // client index
	Op   string `json:"op"`   // put | rebase | commit
	X    int    `json:"x"`    // put: chunk id
	Cur  int    `json:"cur"`  // commit: chunk id, 0 = empty hash, -1 = caller's Root()
	Last int    `json:"last"` // commit: same encoding
}

type Case struct {
	Mode string `json:"mode"` // "" = directory store (fileManifest), "journal" = journaling store (ChunkJournal)
	N    int   `json:"n"`    // clients
	Cap  int   `json:"cap"`  // memtable capacity in chunks
	Univ []int `json:"univ"` // chunk ids of the universe
	Ops  []Op  `json:"ops"`
}

type Step struct {
	Res    int     `json:"res"`    // 0 ok/true, 1 false, 2 dangling-ref error, 3 other error
	Err    string  `json:"err,omitempty"`
	CRoot  int     `json:"croot"`  // caller's Root()
	DRoot  int     `json:"droot"`  // persisted manifest root
	DSpecs [][]int `json:"dspecs"` // persisted table names as ordered chunk-id lists
	FRoot  int     `json:"froot"`  // fresh open: Root()
	FHas   []int   `json:"fhas"`   // fresh open: chunks of the universe it Has
}

type Obs struct {
	Steps []Step `json:"steps"`
}

const chunkLen = 10 // len("chunk-0001")

func chunkOf(id int) chunks.Chunk { return chunks.NewChunk([]byte(fmt.Sprintf("chunk-%04d", id))) }

func noAddrs(chunks.Chunk) chunks.InsertAddrsCb {
	return func(context.Context, hash.HashSet, chunks.PendingRefExists) error { return nil }
}

const unknownID = 999999

var (
	tblMu    sync.Mutex
	tblCache = map[string][]int{} // table file name -> ordered chunk ids (content addressed: valid across cases)
)

// permutations of ids (small: at most cap elements)
func permute(ids []int, f func([]int) bool) bool {
	var rec func(k int) bool
	rec = func(k int) bool {
		if k == len(ids) {
			return f(ids)
		}
		for i := k; i < len(ids); i++ {
			ids[k], ids[i] = ids[i], ids[k]
			if rec(k + 1) {
				return true
			}
			ids[k], ids[i] = ids[i], ids[k]
		}
		return false
	}
	return rec(0)
}

// tableChunks maps a table file name to the ordered list of chunk ids it was
// written with: the set comes from the file's index prefixes, the order is the
// permutation for which nbs.WriteChunks produces the same (content-addressed) name.
func tableChunks(ctx context.Context, dir, name string, univ []int) []int {
	tblMu.Lock()
	defer tblMu.Unlock()
	if v, ok := tblCache[name]; ok {
		return v
	}
	f, err := os.Open(filepath.Join(dir, name))
	if err != nil {
		return []int{unknownID}
	}
	defer f.Close()
	prefixes, cleanup, err := nbs.GetTableIndexPrefixes(ctx, f)
	if err != nil {
		return []int{unknownID}
	}
	defer cleanup()
	byPrefix := map[uint64]int{}
	for _, id := range univ {
		byPrefix[chunkOf(id).Hash().Prefix()] = id
	}
	ids := []int{}
	for _, p := range prefixes {
		id, ok := byPrefix[p]
		if !ok {
			return []int{unknownID}
		}
		ids = append(ids, id)
	}
	sort.Ints(ids)
	var found []int
	if len(ids) <= 7 {
		permute(ids, func(p []int) bool {
			cs := make([]chunks.Chunk, len(p))
			for i, id := range p {
				cs[i] = chunkOf(id)
			}
			n, _, _, err := nbs.WriteChunks(cs)
			if err == nil && n == name {
				found = append([]int{}, p...)
				return true
			}
			return false
		})
	}
	if found == nil {
		found = append([]int{unknownID}, ids...)
	}
	tblCache[name] = found
	return found
}

// lockTimeout recognises the spurious failure of the 100 ms flock timeout of
// fileManifest under machine load; it is never an observation.
func lockTimeout(msg string) bool {
	return strings.Contains(msg, "timed out reading database manifest") || strings.Contains(msg, "lock timeout")
}

func Run(raw json.RawMessage) (any, error) {
	var c Case
	if err := json.Unmarshal(raw, &c); err != nil {
		return nil, err
	}
	var o any
	var err error
	for attempt := 0; attempt < 5; attempt++ {
		retry := false
		if c.Mode == "journal" {
			var jo JObs
			jo, err = runJournal(c)
			o = jo
			for _, s := range jo.Steps {
				retry = retry || lockTimeout(s.Err)
			}
		} else {
			var do Obs
			do, err = runDir(c)
			o = do
			for _, s := range do.Steps {
				retry = retry || lockTimeout(s.Err)
			}
		}
		if err != nil && lockTimeout(err.Error()) {
			retry = true
		}
		if !retry {
			break
		}
		time.Sleep(time.Duration(50*(attempt+1)) * time.Millisecond)
	}
	return o, err
}

func runDir(c Case) (Obs, error) {
	var o Obs
	ctx := context.Background()
	dir, err := os.MkdirTemp("/tmp", "c02-")
	if err != nil {
		return o, err
	}
	defer os.RemoveAll(dir)

	idOf := map[hash.Hash]int{{}: 0}
	for _, id := range c.Univ {
		idOf[chunkOf(id).Hash()] = id
	}
	rootID := func(h hash.Hash) int {
		if id, ok := idOf[h]; ok {
			return id
		}
		return unknownID
	}
	hashOf := func(id int) hash.Hash {
		if id == 0 {
			return hash.Hash{}
		}
		return chunkOf(id).Hash()
	}
	open := func() (*nbs.NomsBlockStore, error) {
		return nbs.NewLocalStore(ctx, constants.FormatDefaultString, dir, uint64(c.Cap*chunkLen), nbs.NewUnlimitedMemQuotaProvider(), false)
	}

	clients := make([]*nbs.NomsBlockStore, c.N)
	for i := range clients {
		st, err := open()
		if err != nil {
			return o, err
		}
		clients[i] = st
		defer st.Close()
	}

	for _, op := range c.Ops {
		st := clients[op.C]
		var s Step
		switch op.Op {
		case "put":
			if err := st.Put(ctx, chunkOf(op.X), noAddrs); err != nil {
				s.Res, s.Err = 3, err.Error()
			}
		case "rebase":
			if err := st.Rebase(ctx); err != nil {
				s.Res, s.Err = 3, err.Error()
			}
		case "commit":
			self, err := st.Root(ctx)
			if err != nil {
				return o, err
			}
			res := func(id int) hash.Hash {
				if id < 0 {
					return self
				}
				return hashOf(id)
			}
			ok, err := st.Commit(ctx, res(op.Cur), res(op.Last))
			switch {
			case err != nil && errors.Is(err, nbs.ErrDanglingRef):
				s.Res, s.Err = 2, err.Error()
			case err != nil:
				s.Res, s.Err = 3, err.Error()
			case !ok:
				s.Res = 1
			}
		default:
			return o, fmt.Errorf("unknown op %q", op.Op)
		}
		r, err := st.Root(ctx)
		if err != nil {
			return o, err
		}
		s.CRoot = rootID(r)

		// the persisted manifest, re-read from the file
		s.DSpecs = [][]int{}
		if f, err := os.Open(filepath.Join(dir, "manifest")); err == nil {
			mi, perr := nbs.ParseManifest(f)
			f.Close()
			if perr != nil {
				return o, perr
			}
			s.DRoot = rootID(mi.GetRoot())
			for i := 0; i < mi.NumTableSpecs(); i++ {
				s.DSpecs = append(s.DSpecs, tableChunks(ctx, dir, mi.GetTableSpecInfo(i).GetName(), c.Univ))
			}
		} else if !os.IsNotExist(err) {
			return o, err
		}

		// a fresh open of the directory
		fr, err := open()
		if err != nil {
			s.FRoot = unknownID
			s.FHas = []int{}
			s.Err += " fresh-open: " + err.Error()
		} else {
			h, err := fr.Root(ctx)
			if err != nil {
				fr.Close()
				return o, err
			}
			s.FRoot = rootID(h)
			s.FHas = []int{}
			for _, id := range c.Univ {
				has, err := fr.Has(ctx, chunkOf(id).Hash())
				if err != nil {
					fr.Close()
					return o, err
				}
				if has {
					s.FHas = append(s.FHas, id)
				}
			}
			if err := fr.Close(); err != nil {
				return o, err
			}
		}
		o.Steps = append(o.Steps, s)
	}
	return o, nil
}

// ---------------------------------------------------------------------------
// Journaling store (nbs.NewLocalJournalingStore): ONE writer, holding the
// exclusive LOCK for its lifetime; ChunkJournal.Update is the manifest step.

type JStep struct {
	Res   int    `json:"res"`   // 0 ok/true, 1 false, 2 dangling-ref error, 3 other error, 4 read-only error
	Err   string `json:"err,omitempty"`
	CRoot int    `json:"croot"` // the writer's Root() (probe: the second handle's Root())
	Has   []int  `json:"has"`   // chunks of the universe the writer Has (probe: unchanged writer)
	RO    bool   `json:"ro"`    // probe: the second handle opened read-only
	PHas  []int  `json:"phas"`  // probe: chunks of the universe the second handle Has
}

type JObs struct {
	Steps []JStep `json:"steps"`
}

func runJournal(c Case) (JObs, error) {
	var o JObs
	ctx := context.Background()
	dir, err := os.MkdirTemp("/tmp", "c02-j-")
	if err != nil {
		return o, err
	}
	defer os.RemoveAll(dir)
	idOf := map[hash.Hash]int{{}: 0}
	for _, id := range c.Univ {
		idOf[chunkOf(id).Hash()] = id
	}
	rootID := func(h hash.Hash) int {
		if id, ok := idOf[h]; ok {
			return id
		}
		return unknownID
	}
	hashOf := func(id int) hash.Hash {
		if id == 0 {
			return hash.Hash{}
		}
		return chunkOf(id).Hash()
	}
	open := func() (*nbs.NomsBlockStore, error) {
		return nbs.NewLocalJournalingStore(ctx, constants.FormatDefaultString, dir, nbs.NewUnlimitedMemQuotaProvider(), false, func(error) {})
	}
	st, err := open()
	if err != nil {
		return o, err
	}
	defer func() {
		if st != nil {
			st.Close()
		}
	}()
	if _, err := st.Root(ctx); err != nil { // forces the lazy load
		return o, err
	}
	for _, op := range c.Ops {
		var s JStep
		switch op.Op {
		case "put":
			if err := st.Put(ctx, chunkOf(op.X), noAddrs); err != nil {
				s.Res, s.Err = 3, err.Error()
			}
		case "rebase":
			if err := st.Rebase(ctx); err != nil {
				s.Res, s.Err = 3, err.Error()
			}
		case "commit":
			self, err := st.Root(ctx)
			if err != nil {
				return o, err
			}
			res := func(id int) hash.Hash {
				if id < 0 {
					return self
				}
				return hashOf(id)
			}
			ok, err := st.Commit(ctx, res(op.Cur), res(op.Last))
			switch {
			case err != nil && errors.Is(err, nbs.ErrDanglingRef):
				s.Res, s.Err = 2, err.Error()
			case err != nil:
				s.Res, s.Err = 3, err.Error()
			case !ok:
				s.Res = 1
			}
		case "reopen":
			// graceful close, then a fresh journaling open becomes the writer
			cerr := st.Close()
			st = nil
			if cerr != nil {
				s.Res, s.Err = 3, "close: "+cerr.Error()
			}
			st, err = open()
			if err != nil {
				return o, err
			}
			if _, err := st.Root(ctx); err != nil {
				return o, err
			}
			if st.AccessMode() != chunks.ExclusiveAccessMode_Exclusive {
				s.Res, s.Err = 3, s.Err+" reopen is not exclusive"
			}
		case "probe":
			// a second handle while the writer is open
			p, err := open()
			if err != nil {
				s.Res, s.Err = 3, "probe open: "+err.Error()
				break
			}
			pr, err := p.Root(ctx)
			if err != nil {
				s.Res, s.Err = 3, "probe root: "+err.Error()
				p.Close()
				break
			}
			s.RO = p.AccessMode() == chunks.ExclusiveAccessMode_ReadOnly
			s.CRoot = rootID(pr)
			s.PHas = []int{}
			for _, id := range c.Univ {
				if has, err := p.Has(ctx, chunkOf(id).Hash()); err == nil && has {
					s.PHas = append(s.PHas, id)
				}
			}
			perr := p.Put(ctx, chunkOf(op.X), noAddrs)
			var ok bool
			if perr == nil {
				ok, perr = p.Commit(ctx, chunkOf(op.X).Hash(), pr)
			}
			switch {
			case perr != nil && strings.Contains(perr.Error(), "read only"):
				s.Res, s.Err = 4, perr.Error()
			case perr != nil:
				s.Res, s.Err = 3, perr.Error()
			case !ok:
				s.Res = 1
			}
			p.Close()
		default:
			return o, fmt.Errorf("unknown op %q", op.Op)
		}
		if op.Op != "probe" {
			r, err := st.Root(ctx)
			if err != nil {
				return o, err
			}
			s.CRoot = rootID(r)
		}
		s.Has = []int{}
		for _, id := range c.Univ {
			has, err := st.Has(ctx, chunkOf(id).Hash())
			if err != nil {
				return o, err
			}
			if has {
				s.Has = append(s.Has, id)
			}
		}
		o.Steps = append(o.Steps, s)
	}
	return o, nil
}
