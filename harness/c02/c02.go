// Package c02: root commit as compare-and-swap on the manifest (property C02).
//
// Two or three real NomsBlockStore clients (nbs.NewLocalStore) share one temp
// directory and execute a generated interleaving of Put / Commit / Rebase at
// API granularity, sequentially in one goroutine. After every call the harness
// records the result, the caller's Root(), the persisted manifest (re-read from
// the manifest file) and what a fresh open of the directory sees.
package c02

import (
	"context"
	"encoding/json"
	"errors"
	"fmt"
	"os"
	"path/filepath"
	"sort"
	"sync"

	"github.com/dolthub/dolt/go/store/chunks"
	"github.com/dolthub/dolt/go/store/constants"
	"github.com/dolthub/dolt/go/store/hash"
	"github.com/dolthub/dolt/go/store/nbs"

	"verifharness/hk"
)

func init() { hk.Register("c02", Run) }

type Op struct {
	C    int    `json:"c"`    // client index
	Op   string `json:"op"`   // put | rebase | commit
	X    int    `json:"x"`    // put: chunk id
	Cur  int    `json:"cur"`  // commit: chunk id, 0 = empty hash, -1 = caller's Root()
	Last int    `json:"last"` // commit: same encoding
}

type Case struct {
	N    int   `json:"n"`    // clients
	Cap  int   `json:"cap"`  // memtable capacity in chunks
	Univ []int `json:"univ"` // chunk ids of the universe
	Ops  []Op  `json:"ops"`
}

type Step struct {
	Res    int     `json:"res"`    // 0 ok/true, 1 false, 2 dangling-ref error, 3 other error
	Err    string  `json:"err,omitempty"`
	CRoot  int     `json:"croot"`  // caller's Root()
	DRoot  int     `json:"droot"`  // persisted manifest root
	DSpecs [][]int `json:"dspecs"` // persisted table names as ordered chunk-id lists
	FRoot  int     `json:"froot"`  // fresh open: Root()
	FHas   []int   `json:"fhas"`   // fresh open: chunks of the universe it Has
}

type Obs struct {
	Steps []Step `json:"steps"`
}

const chunkLen = 10 // len("chunk-0001")

func chunkOf(id int) chunks.Chunk { return chunks.NewChunk([]byte(fmt.Sprintf("chunk-%04d", id))) }

func noAddrs(chunks.Chunk) chunks.InsertAddrsCb {
	return func(context.Context, hash.HashSet, chunks.PendingRefExists) error { return nil }
}

const unknownID = 999999

var (
	tblMu    sync.Mutex
	tblCache = map[string][]int{} // table file name -> ordered chunk ids (content addressed: valid across cases)
)

// permutations of ids (small: at most cap elements)
func permute(ids []int, f func([]int) bool) bool {
	var rec func(k int) bool
	rec = func(k int) bool {
		if k == len(ids) {
			return f(ids)
		}
		for i := k; i < len(ids); i++ {
			ids[k], ids[i] = ids[i], ids[k]
			if rec(k + 1) {
				return true
			}
			ids[k], ids[i] = ids[i], ids[k]
		}
		return false
	}
	return rec(0)
}

// tableChunks maps a table file name to the ordered list of chunk ids it was
// written with: the set comes from the file's index prefixes, the order is the
// permutation for which nbs.WriteChunks produces the same (content-addressed) name.
func tableChunks(ctx context.Context, dir, name string, univ []int) []int {
	tblMu.Lock()
	defer tblMu.Unlock()
	if v, ok := tblCache[name]; ok {
		return v
	}
	f, err := os.Open(filepath.Join(dir, name))
	if err != nil {
		return []int{unknownID}
	}
	defer f.Close()
	prefixes, cleanup, err := nbs.GetTableIndexPrefixes(ctx, f)
	if err != nil {
		return []int{unknownID}
	}
	defer cleanup()
	byPrefix := map[uint64]int{}
	for _, id := range univ {
		byPrefix[chunkOf(id).Hash().Prefix()] = id
	}
	ids := []int{}
	for _, p := range prefixes {
		id, ok := byPrefix[p]
		if !ok {
			return []int{unknownID}
		}
		ids = append(ids, id)
	}
	sort.Ints(ids)
	var found []int
	if len(ids) <= 7 {
		permute(ids, func(p []int) bool {
			cs := make([]chunks.Chunk, len(p))
			for i, id := range p {
				cs[i] = chunkOf(id)
			}
			n, _, _, err := nbs.WriteChunks(cs)
			if err == nil && n == name {
				found = append([]int{}, p...)
				return true
			}
			return false
		})
	}
	if found == nil {
		found = append([]int{unknownID}, ids...)
	}
	tblCache[name] = found
	return found
}

func Run(raw json.RawMessage) (any, error) {
	var c Case
	if err := json.Unmarshal(raw, &c); err != nil {
		return nil, err
	}
	ctx := context.Background()
	dir, err := os.MkdirTemp("/tmp", "c02-")
	if err != nil {
		return nil, err
	}
	defer os.RemoveAll(dir)

	idOf := map[hash.Hash]int{{}: 0}
	for _, id := range c.Univ {
		idOf[chunkOf(id).Hash()] = id
	}
	rootID := func(h hash.Hash) int {
		if id, ok := idOf[h]; ok {
			return id
		}
		return unknownID
	}
	hashOf := func(id int) hash.Hash {
		if id == 0 {
			return hash.Hash{}
		}
		return chunkOf(id).Hash()
	}
	open := func() (*nbs.NomsBlockStore, error) {
		return nbs.NewLocalStore(ctx, constants.FormatDefaultString, dir, uint64(c.Cap*chunkLen), nbs.NewUnlimitedMemQuotaProvider(), false)
	}

	clients := make([]*nbs.NomsBlockStore, c.N)
	for i := range clients {
		st, err := open()
		if err != nil {
			return nil, err
		}
		clients[i] = st
		defer st.Close()
	}

	var o Obs
	for _, op := range c.Ops {
		st := clients[op.C]
		var s Step
		switch op.Op {
		case "put":
			if err := st.Put(ctx, chunkOf(op.X), noAddrs); err != nil {
				s.Res, s.Err = 3, err.Error()
			}
		case "rebase":
			if err := st.Rebase(ctx); err != nil {
				s.Res, s.Err = 3, err.Error()
			}
		case "commit":
			self, err := st.Root(ctx)
			if err != nil {
				return nil, err
			}
			res := func(id int) hash.Hash {
				if id < 0 {
					return self
				}
				return hashOf(id)
			}
			ok, err := st.Commit(ctx, res(op.Cur), res(op.Last))
			switch {
			case err != nil && errors.Is(err, nbs.ErrDanglingRef):
				s.Res, s.Err = 2, err.Error()
			case err != nil:
				s.Res, s.Err = 3, err.Error()
			case !ok:
				s.Res = 1
			}
		default:
			return nil, fmt.Errorf("unknown op %q", op.Op)
		}
		r, err := st.Root(ctx)
		if err != nil {
			return nil, err
		}
		s.CRoot = rootID(r)

		// the persisted manifest, re-read from the file
		s.DSpecs = [][]int{}
		if f, err := os.Open(filepath.Join(dir, "manifest")); err == nil {
			mi, perr := nbs.ParseManifest(f)
			f.Close()
			if perr != nil {
				return nil, perr
			}
			s.DRoot = rootID(mi.GetRoot())
			for i := 0; i < mi.NumTableSpecs(); i++ {
				s.DSpecs = append(s.DSpecs, tableChunks(ctx, dir, mi.GetTableSpecInfo(i).GetName(), c.Univ))
			}
		} else if !os.IsNotExist(err) {
			return nil, err
		}

		// a fresh open of the directory
		fr, err := open()
		if err != nil {
			s.FRoot = unknownID
			s.FHas = []int{}
			s.Err += " fresh-open: " + err.Error()
		} else {
			h, err := fr.Root(ctx)
			if err != nil {
				fr.Close()
				return nil, err
			}
			s.FRoot = rootID(h)
			s.FHas = []int{}
			for _, id := range c.Univ {
				has, err := fr.Has(ctx, chunkOf(id).Hash())
				if err != nil {
					fr.Close()
					return nil, err
				}
				if has {
					s.FHas = append(s.FHas, id)
				}
			}
			if err := fr.Close(); err != nil {
				return nil, err
			}
		}
		o.Steps = append(o.Steps, s)
	}
	return o, nil
}
