// Package c10: corrupted storage files are reported, never misread (property C10).
//
// "c10"  is the parent runner: it forwards every case to a pooled child process
//
//	("c10w") so that a panic on a goroutine of the implementation (errgroup
//	readers), a runtime crash or an OOM is an observation, not a lost run.
//
// "c10w" is the worker: it drives the real nbs code on one case.
package c10

import (
	"bufio"
	"bytes"
	"context"
	"encoding/json"
	"errors"
	"fmt"
	"io"
	"os"
	"os/exec"
	"path/filepath"
	"strings"
	"sync"
	"syscall"
	"time"

	"github.com/dolthub/dolt/go/store/chunks"
	"github.com/dolthub/dolt/go/store/constants"
	"github.com/dolthub/dolt/go/store/hash"
	"github.com/dolthub/dolt/go/store/nbs"

	"verifharness/hk"
)

func init() {
	hk.Register("c10", Run)
	hk.Register("c10w", Work)
}

// ---------------------------------------------------------------------------
// case / observation
// ---------------------------------------------------------------------------

type Mut struct {
	Reg   string `json:"reg"` // axor / aset: archive region spans | prefixes | refs | suffixes | footer | meta
	Op    string `json:"op"`  // xor | set | trunc | append | del | ins | swaprec | cprec | axor | aset
	Pos   int    `json:"pos"`
	V     int    `json:"v"`
	N     int    `json:"n"`
	I     int    `json:"i"`
	J     int    `json:"j"`
	Bytes []int  `json:"bytes"`
}

type JRec struct {
	T    string `json:"t"` // chunk | root | raw | crcraw
	Data []int  `json:"data"`
}

type Case struct {
	K      string  `json:"k"`      // table | journal | manifest
	Chunks [][]int `json:"chunks"` // table: chunk contents
	Absent [][]int `json:"absent"` // table: contents whose addresses are looked up although never stored
	Cnt    int     `json:"cnt"`    // table: chunk count the manifest claims (-1: the written one)
	Recs   []JRec  `json:"recs"`   // journal
	Specs  []struct {
		Name []int `json:"name"`
		Cnt  int   `json:"cnt"`
	} `json:"specs"` // manifest
	Nbf   []int `json:"nbf"`
	Lock  []int `json:"lock"`
	Root  []int `json:"root"`
	GcGen []int `json:"gcgen"`
	Muts  []Mut `json:"muts"`
	Gm    bool  `json:"gm"`    // table: also run the getMany phase
	Short []int `json:"short"` // table (probe only, never generated): ResolveShortHash of this prefix string
	// resolve: short prefixes to resolve. tuple: index tuple of the pristine file whose hash is taken
	// (negative: from the end), n: number of characters kept; or raw: literal characters
	Shorts []struct {
		Tuple int   `json:"tuple"`
		N     int   `json:"n"`
		Raw   []int `json:"raw"`
	} `json:"shorts"`

	// store: a real database directory
	Layout  string    `json:"layout"`  // table | journal | archive
	Batches [][][]int `json:"batches"` // chunk contents per commit
	Target  string    `json:"target"`  // manifest | table | journal | idx | archive
	TargetN int       `json:"targetn"` // which table file (sorted by name)
	Extras  bool      `json:"extras"`  // table/archive: also run hasMany / extract / tolerant iteration

	Phase string `json:"phase,omitempty"` // set by the parent: main | getmany
	Dir   string `json:"dir,omitempty"`   // set by the parent: scratch directory of this case
}

type AddrObs struct {
	Has string `json:"has"` // t | f | err | panic
	Get string `json:"get"` // absent | ok | bad | eof | crc | empty | snappy | err | panic
}

type ResolveObs struct {
	Code string   `json:"code"` // ok | err | panic
	Res  []string `json:"res"`
}

type JRecObs struct {
	Off  int64 `json:"off"`
	Kind int   `json:"kind"`
	Addr []int `json:"addr"`
	Plen int   `json:"plen"`
}

type SpecObs struct {
	Name []int `json:"name"`
	Cnt  int   `json:"cnt"`
}

type Obs struct {
	K     string `json:"k"`
	Bytes []int  `json:"bytes"` // the (corrupted) file the implementation was given
	// table
	Cnt      int       `json:"cnt"`
	Addrs    [][]int   `json:"addrs"`
	Open     string    `json:"open"` // ok | err | panic
	OpenErr  string    `json:"openerr,omitempty"`
	Res      []AddrObs `json:"res"`
	Iter     string    `json:"iter"`            // ok | bad | err | panic | skip
	IterN    int       `json:"itern"`           // chunks delivered by the iteration
	Short    string    `json:"short,omitempty"` // probe: ok | err | panic
	GetMany  string    `json:"getmany"`         // ok | bad | err | crash | skip
	Detail   []string  `json:"detail,omitempty"`
	CrashMsg string    `json:"crashmsg,omitempty"`
	Extra    []int     `json:"extra"` // oracle-only operations: 0 ok | 1 wrong content | 2 err | 3 panic
	ExtraOps []string  `json:"extraops,omitempty"`
	// resolve
	Shorts  [][]int      `json:"shorts"`
	Resolve []ResolveObs `json:"resolve"`
	// journal
	Class string    `json:"class"` // ok | dataloss | err | panic
	Recs  []JRecObs `json:"recs"`
	Off   int64     `json:"off"`
	// manifest
	Vers  []int     `json:"vers"`
	Nbf   []int     `json:"nbf"`
	Lock  []int     `json:"lock"`
	Root  []int     `json:"root"`
	GcGen []int     `json:"gcgen"`
	Specs []SpecObs `json:"specs"`
}

func toBytes(b []int) []byte {
	out := make([]byte, len(b))
	for i, x := range b {
		out[i] = byte(x)
	}
	return out
}

func fromBytes(b []byte) []int {
	out := make([]int, len(b))
	for i, x := range b {
		out[i] = int(x)
	}
	return out
}

func toHash(b []int) hash.Hash {
	var h hash.Hash
	copy(h[:], toBytes(b))
	return h
}

// ---------------------------------------------------------------------------
// mutations
// ---------------------------------------------------------------------------

func norm(pos, n int) int {
	if n == 0 {
		return 0
	}
	if pos < 0 {
		pos = n + pos
	}
	pos %= n
	if pos < 0 {
		pos += n
	}
	return pos
}

// recSpans returns (offset,length) of every chunk record of a pristine table file.
func recSpans(file []byte) [][2]int {
	if len(file) < 20 {
		return nil
	}
	c := int(uint32(file[len(file)-20])<<24 | uint32(file[len(file)-19])<<16 | uint32(file[len(file)-18])<<8 | uint32(file[len(file)-17]))
	idx := len(file) - 28*c - 20
	if idx < 0 {
		return nil
	}
	out := make([][2]int, c)
	off := 0
	for i := 0; i < c; i++ {
		p := idx + 12*c + 4*i
		l := int(uint32(file[p])<<24 | uint32(file[p+1])<<16 | uint32(file[p+2])<<8 | uint32(file[p+3]))
		out[i] = [2]int{off, l}
		off += l
	}
	return out
}

// archiveRegion returns the start offset of a region of a pristine archive file (-1: unknown).
func archiveRegion(file []byte, reg string) int {
	n := len(file)
	if n < 220 {
		return -1
	}
	u32 := func(p int) int {
		return int(uint32(file[p])<<24 | uint32(file[p+1])<<16 | uint32(file[p+2])<<8 | uint32(file[p+3]))
	}
	ft := n - 220
	ver := int(file[n-8])
	fs := 220
	isz := u32(ft)<<32 | u32(ft+4)
	if ver < 3 {
		fs = 216
		isz = u32(ft + 4)
	}
	spans, cnt, meta := u32(ft+8), u32(ft+12), u32(ft+16)
	idx := n - fs - meta - isz
	switch reg {
	case "spans":
		return idx
	case "prefixes":
		return idx + 8*spans
	case "refs":
		return idx + 8*spans + 8*cnt
	case "suffixes":
		return idx + 8*spans + 16*cnt
	case "meta":
		return n - fs - meta
	case "footer":
		return ft
	}
	return -1
}

func mutate(file []byte, muts []Mut) []byte {
	f := append([]byte{}, file...)
	spans := recSpans(file)
	for _, m := range muts {
		switch m.Op {
		case "aswaprefs": // exchange the data span ids of index entries I and J of an archive
			base := archiveRegion(file, "refs")
			a, b := base+8*m.I+4, base+8*m.J+4
			if base >= 0 && a+4 <= len(f) && b+4 <= len(f) && a >= 0 && b >= 0 {
				for k := 0; k < 4; k++ {
					f[a+k], f[b+k] = file[b+k], file[a+k]
				}
			}
		case "axor", "aset":
			base := archiveRegion(file, m.Reg)
			if base < 0 {
				continue
			}
			p := base + m.Pos
			if m.Op == "axor" {
				if p >= 0 && p < len(f) {
					f[p] ^= byte(m.V)
				}
			} else {
				for i, b := range m.Bytes {
					if p+i >= 0 && p+i < len(f) {
						f[p+i] = byte(b)
					}
				}
			}
		case "xor":
			if len(f) > 0 {
				f[norm(m.Pos, len(f))] ^= byte(m.V)
			}
		case "set":
			if len(f) > 0 {
				p := norm(m.Pos, len(f))
				for i, b := range m.Bytes {
					if p+i < len(f) {
						f[p+i] = byte(b)
					}
				}
			}
		case "trunc":
			k := m.N % (len(f) + 1)
			f = f[:len(f)-k]
		case "append":
			f = append(f, toBytes(m.Bytes)...)
		case "del":
			if len(f) > 0 {
				p := norm(m.Pos, len(f))
				e := p + m.N
				if e > len(f) {
					e = len(f)
				}
				f = append(f[:p:p], f[e:]...)
			}
		case "ins":
			p := 0
			if len(f) > 0 {
				p = norm(m.Pos, len(f))
			}
			nf := append([]byte{}, f[:p]...)
			nf = append(nf, toBytes(m.Bytes)...)
			f = append(nf, f[p:]...)
		case "swaprec":
			if m.I < len(spans) && m.J < len(spans) && spans[m.I][1] == spans[m.J][1] {
				a, b, l := spans[m.I][0], spans[m.J][0], spans[m.I][1]
				if a+l <= len(f) && b+l <= len(f) {
					tmp := append([]byte{}, f[a:a+l]...)
					copy(f[a:a+l], f[b:b+l])
					copy(f[b:b+l], tmp)
				}
			}
		case "cprec": // overwrite record i with the bytes of record j (equal length)
			if m.I < len(spans) && m.J < len(spans) && spans[m.I][1] == spans[m.J][1] {
				a, b, l := spans[m.I][0], spans[m.J][0], spans[m.I][1]
				if a+l <= len(f) && b+l <= len(f) {
					copy(f[a:a+l], append([]byte{}, f[b:b+l]...))
				}
			}
		}
	}
	return f
}

// ---------------------------------------------------------------------------
// worker
// ---------------------------------------------------------------------------

func panicClass(p any) string {
	s := fmt.Sprint(p)
	switch {
	case strings.Contains(s, "slice bounds out of range"):
		return "slice"
	case strings.Contains(s, "index out of range"):
		return "index"
	case strings.Contains(s, "could not parse Hash"):
		return "hashparse"
	default:
		return "other"
	}
}

// safe runs f and converts a panic on this goroutine into ("panic", message).
func safe(f func() string) (res string, msg string) {
	defer func() {
		if p := recover(); p != nil {
			res = "panic"
			msg = panicClass(p) + ": " + fmt.Sprint(p)
		}
	}()
	return f(), ""
}

func errClass(err error) string {
	s := err.Error()
	switch {
	case errors.Is(err, io.EOF) || errors.Is(err, io.ErrUnexpectedEOF) || strings.Contains(s, "failed to read all data"):
		return "eof"
	case strings.Contains(s, "checksum error"):
		return "crc"
	case strings.Contains(s, "failed to get data"):
		return "empty"
	case strings.Contains(s, "snappy"):
		return "snappy"
	default:
		return "err"
	}
}

// Work answers on os.Stdout directly (hk buffers its own output until exit): one line
// {"w":1,"obs":..}|{"w":1,"err":..}|{"w":1,"panic":..}, preceded by a newline so that a
// partially flushed hk line never glues onto it. The parent skips every line without "w".
var limitOnce sync.Once

// limitMemory caps the worker's address space: a read path that allocates what a corrupted length or
// count field says dies quickly ("out of memory") instead of thrashing the machine for minutes.
func limitMemory() {
	lim := syscall.Rlimit{Cur: 3 << 30, Max: 3 << 30}
	syscall.Setrlimit(syscall.RLIMIT_AS, &lim)
}

func Work(raw json.RawMessage) (any, error) {
	limitOnce.Do(limitMemory)
	var line struct {
		W     int    `json:"w"`
		Obs   any    `json:"obs,omitempty"`
		Err   string `json:"err,omitempty"`
		Panic string `json:"panic,omitempty"`
	}
	line.W = 1
	func() {
		defer func() {
			if p := recover(); p != nil {
				line.Panic = fmt.Sprint(p)
			}
		}()
		obs, err := work1(raw)
		if err != nil {
			line.Err = err.Error()
		}
		line.Obs = obs
	}()
	b, err := json.Marshal(line)
	if err != nil {
		b = []byte(`{"w":1,"err":"marshal"}`)
	}
	os.Stdout.Write(append(append([]byte{'\n'}, b...), '\n'))
	return nil, nil
}

func work1(raw json.RawMessage) (any, error) {
	var c Case
	if err := json.Unmarshal(raw, &c); err != nil {
		return nil, err
	}
	switch c.K {
	case "table":
		return workTable(&c, false)
	case "archive":
		return workTable(&c, true)
	case "store":
		return workStore(&c)
	case "resolve":
		return workResolve(&c)
	case "journal":
		return workJournal(&c)
	case "manifest":
		return workManifest(&c)
	}
	return nil, fmt.Errorf("unknown case kind %q", c.K)
}

func workTable(c *Case, archive bool) (any, error) {
	ctx := context.Background()
	data := make([][]byte, len(c.Chunks))
	for i, ch := range c.Chunks {
		data[i] = toBytes(ch)
	}
	var file []byte
	var name hash.Hash
	var addrs []hash.Hash
	var err error
	fname := ""
	if archive {
		name, file, addrs, err = nbs.VerifC10BuildArchive(c.Dir, data)
		fname = name.String() + nbs.ArchiveFileSuffix
	} else {
		file, name, addrs, err = nbs.VerifC10BuildTable(data)
		fname = name.String()
	}
	if err != nil {
		return nil, err
	}
	for _, a := range c.Absent {
		addrs = append(addrs, hash.Of(toBytes(a)))
	}
	cnt := c.Cnt
	if cnt < 0 {
		cnt = len(c.Chunks)
	}
	mf := mutate(file, c.Muts)
	o := Obs{K: c.K, Bytes: fromBytes(mf), Cnt: cnt, Iter: "skip", GetMany: "skip", Res: []AddrObs{}, Recs: []JRecObs{}, Specs: []SpecObs{}, Extra: []int{}}
	for _, a := range addrs {
		o.Addrs = append(o.Addrs, fromBytes(a[:]))
	}
	if err := os.WriteFile(filepath.Join(c.Dir, fname), mf, 0o644); err != nil {
		return nil, err
	}
	var tbl *nbs.VerifC10Table
	var msg string
	o.Open, msg = safe(func() string {
		t, err := nbs.VerifC10OpenTable(ctx, c.Dir, name, uint32(cnt))
		if err != nil {
			o.OpenErr = err.Error()
			return "err"
		}
		tbl = t
		return "ok"
	})
	if msg != "" {
		o.Detail = append(o.Detail, "open: "+msg)
	}
	if o.Open != "ok" {
		return o, nil
	}
	defer func() {
		defer func() { recover() }()
		tbl.Close()
	}()
	if c.Phase == "getmany" {
		// runs on errgroup goroutines: a panic there kills this process (the parent reports "crash")
		found, _, err := tbl.GetMany(ctx, addrs)
		if err != nil {
			o.GetMany = "err"
			return o, nil
		}
		o.GetMany = "ok"
		for h, d := range found {
			if hash.Of(d) != h {
				o.GetMany = "bad"
			}
		}
		return o, nil
	}
	if c.Phase == "iter" {
		o.Iter, msg = safe(func() string {
			res := "ok"
			err := tbl.IterateAll(ctx, func(h hash.Hash, d []byte) {
				o.IterN++
				if hash.Of(d) != h {
					res = "bad"
				}
			})
			if err != nil {
				return "err"
			}
			return res
		})
		if msg != "" {
			o.Detail = append(o.Detail, "iter: "+msg)
		}
		return o, nil
	}
	if c.Phase == "extras" {
		hasRes := make([]string, len(addrs))
		for i, a := range addrs {
			hasRes[i], _ = safe(func() string {
				ok, err := tbl.Has(a)
				if err != nil {
					return "err"
				}
				if ok {
					return "t"
				}
				return "f"
			})
		}
		runExtras(ctx, &o, tbl, addrs, hasRes)
		return o, nil
	}
	for _, a := range addrs {
		var r AddrObs
		r.Has, msg = safe(func() string {
			ok, err := tbl.Has(a)
			if err != nil {
				return "err"
			}
			if ok {
				return "t"
			}
			return "f"
		})
		if msg != "" {
			o.Detail = append(o.Detail, "has: "+msg)
		}
		r.Get, msg = safe(func() string {
			d, err := tbl.Get(ctx, a)
			if err != nil {
				return errClass(err)
			}
			if d == nil {
				return "absent"
			}
			if hash.Of(d) == a {
				return "ok"
			}
			return "bad"
		})
		if msg != "" {
			o.Detail = append(o.Detail, "get: "+msg)
		}
		o.Res = append(o.Res, r)
	}
	if len(c.Short) > 0 {
		o.Short, msg = safe(func() string {
			_, _, err := tbl.ResolveShortHash(toBytes(c.Short))
			if err != nil {
				return "err"
			}
			return "ok"
		})
		if msg != "" {
			o.Detail = append(o.Detail, "short: "+msg)
		}
	}
	if archive && c.Phase == "main" {
		// the archive iteration can take the whole process down (buffer doubling on a corrupt span length): own phase
		return o, nil
	}
	o.Iter, msg = safe(func() string {
		res := "ok"
		err := tbl.IterateAll(ctx, func(h hash.Hash, d []byte) {
			o.IterN++
			if hash.Of(d) != h {
				res = "bad"
			}
		})
		if err != nil {
			return "err"
		}
		return res
	})
	if msg != "" {
		o.Detail = append(o.Detail, "iter: "+msg)
	}
	return o, nil
}

func runExtras(ctx context.Context, o *Obs, tbl *nbs.VerifC10Table, addrs []hash.Hash, hasRes []string) {
	extra := func(op string, f func() string) {
		r, m := safe(f)
		code := map[string]int{"ok": 0, "bad": 1, "err": 2, "panic": 3}[r]
		o.Extra = append(o.Extra, code)
		o.ExtraOps = append(o.ExtraOps, op+":"+r)
		if m != "" {
			o.Detail = append(o.Detail, op+": "+m)
		}
	}
	extra("hasmany", func() string {
		present, _, err := tbl.HasMany(addrs)
		if err != nil {
			return "err"
		}
		for i, p := range present {
			if i < len(hasRes) && ((hasRes[i] == "t") != p) && (hasRes[i] == "t" || hasRes[i] == "f") {
				return "bad" // hasMany disagrees with has
			}
		}
		return "ok"
	})
	extra("tolerant", func() string {
		res := "ok"
		tbl.TolerantIterateAll(ctx, func(h hash.Hash, d []byte) {
			if hash.Of(d) != h {
				res = "bad"
			}
		})
		return res
	})
	extra("extract", func() string {
		res := "ok"
		_, err := tbl.Extract(ctx, func(h hash.Hash, d []byte) {
			if hash.Of(d) != h {
				res = "bad"
			}
		})
		if err != nil {
			return "err"
		}
		return res
	})
}

// ---------------------------------------------------------------------------
// store level: a real database directory, one file corrupted, opened through the public constructors
// ---------------------------------------------------------------------------

func noAddrs(chunks.Chunk) chunks.InsertAddrsCb {
	return func(context.Context, hash.HashSet, chunks.PendingRefExists) error { return nil }
}

func openStore(ctx context.Context, layout, dir string) (*nbs.NomsBlockStore, error) {
	if layout == "journal" {
		return nbs.NewLocalJournalingStore(ctx, constants.FormatDefaultString, dir, nbs.NewUnlimitedMemQuotaProvider(), false, func(error) {})
	}
	return nbs.NewLocalStore(ctx, constants.FormatDefaultString, dir, 1<<16, nbs.NewUnlimitedMemQuotaProvider(), false)
}

func tableFiles(dir string) []string {
	ents, _ := os.ReadDir(dir)
	var out []string
	for _, e := range ents {
		n := e.Name()
		if len(n) == 32 && n != "vvvvvvvvvvvvvvvvvvvvvvvvvvvvvvvv" {
			if _, ok := hash.MaybeParse(n); ok {
				out = append(out, n)
			}
		}
	}
	return out
}

// buildStore creates the database, returns the addresses stored and the path of the target file ("" if absent).
func buildStore(ctx context.Context, c *Case, dir string) (addrs []hash.Hash, target string, err error) {
	if err = os.MkdirAll(dir, 0o755); err != nil {
		return
	}
	st, err := openStore(ctx, c.Layout, dir)
	if err != nil {
		return
	}
	last, err := st.Root(ctx)
	if err != nil {
		return
	}
	var all [][]byte
	for _, b := range c.Batches {
		var root hash.Hash
		for _, d := range b {
			ch := chunks.NewChunk(toBytes(d))
			if err = st.Put(ctx, ch, noAddrs); err != nil {
				return
			}
			addrs = append(addrs, ch.Hash())
			all = append(all, toBytes(d))
			root = ch.Hash()
		}
		var ok bool
		if ok, err = st.Commit(ctx, root, last); err != nil || !ok {
			if err == nil {
				err = errors.New("commit refused")
			}
			return
		}
		last = root
	}
	if err = st.Close(); err != nil {
		return
	}
	if c.Layout == "archive" {
		// replace the (single) table file by an archive of the same chunks and point the manifest at it
		tfs := tableFiles(dir)
		if len(tfs) != 1 {
			return nil, "", fmt.Errorf("archive layout needs exactly one table file, have %d", len(tfs))
		}
		var aname hash.Hash
		if aname, _, _, err = nbs.VerifC10BuildArchive(dir, all); err != nil {
			return
		}
		var mb []byte
		if mb, err = os.ReadFile(filepath.Join(dir, "manifest")); err != nil {
			return
		}
		mb = bytes.Replace(mb, []byte(tfs[0]), []byte(aname.String()), 1)
		if err = os.WriteFile(filepath.Join(dir, "manifest"), mb, 0o644); err != nil {
			return
		}
		os.Remove(filepath.Join(dir, tfs[0]))
	}
	switch c.Target {
	case "manifest":
		target = filepath.Join(dir, "manifest")
	case "journal":
		target = filepath.Join(dir, "vvvvvvvvvvvvvvvvvvvvvvvvvvvvvvvv")
	case "idx":
		target = filepath.Join(dir, "journal.idx")
	case "table":
		tfs := tableFiles(dir)
		if len(tfs) > 0 {
			target = filepath.Join(dir, tfs[norm(c.TargetN, len(tfs))])
		}
	case "archive":
		m, _ := filepath.Glob(filepath.Join(dir, "*"+nbs.ArchiveFileSuffix))
		if len(m) > 0 {
			target = m[0]
		}
	}
	if target != "" {
		if _, e := os.Stat(target); e != nil {
			target = ""
		}
	}
	return
}

func workStore(c *Case) (any, error) {
	ctx := context.Background()
	dir := filepath.Join(c.Dir, "db-"+c.Phase)
	addrs, target, err := buildStore(ctx, c, dir)
	if err != nil {
		return nil, err
	}
	for _, a := range c.Absent {
		addrs = append(addrs, hash.Of(toBytes(a)))
	}
	o := Obs{K: "store", Iter: "skip", GetMany: "skip", Res: []AddrObs{}, Recs: []JRecObs{}, Specs: []SpecObs{}, Extra: []int{}}
	if target == "" {
		o.Open = "notarget"
		return o, nil
	}
	orig, err := os.ReadFile(target)
	if err != nil {
		return nil, err
	}
	mf := mutate(orig, c.Muts)
	o.Cnt = len(mf)
	if err := os.WriteFile(target, mf, 0o644); err != nil {
		return nil, err
	}
	add := func(op, r, m string) {
		code := map[string]int{"ok": 0, "bad": 1, "err": 2, "panic": 3}[r]
		o.Extra = append(o.Extra, code)
		o.ExtraOps = append(o.ExtraOps, op+":"+r)
		if m != "" {
			o.Detail = append(o.Detail, op+": "+m)
		}
	}
	var st *nbs.NomsBlockStore
	r, m := safe(func() string {
		s, err := openStore(ctx, c.Layout, dir)
		if err != nil {
			o.OpenErr = err.Error()
			return "err"
		}
		st = s
		return "ok"
	})
	o.Open = r
	add("open", r, m)
	if r != "ok" {
		return o, nil
	}
	defer func() {
		defer func() { recover() }()
		st.Close()
	}()
	if c.Phase == "getmany" {
		o.Extra, o.ExtraOps = []int{}, nil
		set := hash.NewHashSet(addrs...)
		var mu sync.Mutex
		bad := false
		err := st.GetMany(ctx, set, func(_ context.Context, ch *chunks.Chunk) {
			mu.Lock()
			defer mu.Unlock()
			if hash.Of(ch.Data()) != ch.Hash() || !set.Has(ch.Hash()) {
				bad = true
			}
		})
		switch {
		case err != nil:
			o.GetMany = "err"
		case bad:
			o.GetMany = "bad"
		default:
			o.GetMany = "ok"
		}
		return o, nil
	}
	r, m = safe(func() string {
		if _, err := st.Root(ctx); err != nil {
			return "err"
		}
		return "ok"
	})
	add("root", r, m)
	for _, a := range addrs {
		r, m = safe(func() string {
			if _, err := st.Has(ctx, a); err != nil {
				return "err"
			}
			return "ok"
		})
		add("has", r, m)
		r, m = safe(func() string {
			ch, err := st.Get(ctx, a)
			if err != nil {
				return "err"
			}
			if ch.IsEmpty() {
				return "ok"
			}
			if hash.Of(ch.Data()) != a {
				return "bad"
			}
			return "ok"
		})
		add("get", r, m)
	}
	r, m = safe(func() string {
		if _, err := st.HasMany(ctx, hash.NewHashSet(addrs...)); err != nil {
			return "err"
		}
		return "ok"
	})
	add("hasmany", r, m)
	return o, nil
}

// tupleHash returns the address spelled by index tuple j of a pristine table file.
func tupleHash(file []byte, j int) (h hash.Hash) {
	c := len(recSpans(file))
	if c == 0 {
		return
	}
	j = norm(j, c)
	idx := len(file) - 28*c - 20
	t := idx + 12*j
	ord := int(uint32(file[t+8])<<24 | uint32(file[t+9])<<16 | uint32(file[t+10])<<8 | uint32(file[t+11]))
	copy(h[:8], file[t:t+8])
	copy(h[8:], file[idx+16*c+12*ord:idx+16*c+12*ord+12])
	return
}

func workResolve(c *Case) (any, error) {
	ctx := context.Background()
	data := make([][]byte, len(c.Chunks))
	for i, ch := range c.Chunks {
		data[i] = toBytes(ch)
	}
	file, name, _, err := nbs.VerifC10BuildTable(data)
	if err != nil {
		return nil, err
	}
	cnt := c.Cnt
	if cnt < 0 {
		cnt = len(c.Chunks)
	}
	mf := mutate(file, c.Muts)
	o := Obs{K: "resolve", Bytes: fromBytes(mf), Cnt: cnt, Iter: "skip", GetMany: "skip", Res: []AddrObs{}, Recs: []JRecObs{}, Specs: []SpecObs{}, Shorts: [][]int{}, Resolve: []ResolveObs{}}
	var shorts [][]byte
	for _, s := range c.Shorts {
		if s.Raw != nil {
			shorts = append(shorts, toBytes(s.Raw))
			continue
		}
		str := tupleHash(file, s.Tuple).String()
		n := s.N
		if n > len(str) {
			n = len(str)
		}
		shorts = append(shorts, []byte(str[:n]))
	}
	for _, s := range shorts {
		o.Shorts = append(o.Shorts, fromBytes(s))
	}
	if err := os.WriteFile(filepath.Join(c.Dir, name.String()), mf, 0o644); err != nil {
		return nil, err
	}
	var tbl *nbs.VerifC10Table
	var msg string
	o.Open, msg = safe(func() string {
		t, err := nbs.VerifC10OpenTable(ctx, c.Dir, name, uint32(cnt))
		if err != nil {
			o.OpenErr = err.Error()
			return "err"
		}
		tbl = t
		return "ok"
	})
	if msg != "" {
		o.Detail = append(o.Detail, "open: "+msg)
	}
	if o.Open != "ok" {
		return o, nil
	}
	defer func() {
		defer func() { recover() }()
		tbl.Close()
	}()
	for _, s := range shorts {
		var r ResolveObs
		r.Res = []string{}
		r.Code, msg = safe(func() string {
			res, _, err := tbl.ResolveShortHash(s)
			if err != nil {
				return "err"
			}
			r.Res = append(r.Res, res...)
			return "ok"
		})
		if msg != "" {
			o.Detail = append(o.Detail, "resolve: "+msg)
			r.Res = []string{}
		}
		o.Resolve = append(o.Resolve, r)
	}
	return o, nil
}

func workJournal(c *Case) (any, error) {
	var buf []byte
	for _, r := range c.Recs {
		switch r.T {
		case "chunk":
			rec, _ := nbs.VerifC10ChunkRecord(toBytes(r.Data))
			buf = append(buf, rec...)
		case "root":
			buf = append(buf, nbs.VerifC10RootRecord(toHash(r.Data))...)
		case "raw":
			buf = append(buf, toBytes(r.Data)...)
		case "crcraw": // length(4) ++ data ++ crc: a record with a valid checksum and arbitrary fields
			body := toBytes(r.Data)
			l := uint32(len(body) + 8)
			rec := []byte{byte(l >> 24), byte(l >> 16), byte(l >> 8), byte(l)}
			rec = append(rec, body...)
			cs := nbs.VerifC10Crc(rec)
			rec = append(rec, byte(cs>>24), byte(cs>>16), byte(cs>>8), byte(cs))
			buf = append(buf, rec...)
		}
	}
	buf = mutate(buf, c.Muts)
	o := Obs{K: "journal", Bytes: fromBytes(buf), Res: []AddrObs{}, Recs: []JRecObs{}, Specs: []SpecObs{}}
	var msg string
	o.Class, msg = safe(func() string {
		recs, off, _, err := nbs.VerifC10ScanJournal(context.Background(), buf)
		o.Off = off
		for _, r := range recs {
			o.Recs = append(o.Recs, JRecObs{Off: r.Off, Kind: int(r.Kind), Addr: fromBytes(r.Addr[:]), Plen: r.PayloadLen})
		}
		if err != nil {
			if nbs.VerifC10IsDataLoss(err) {
				return "dataloss"
			}
			o.OpenErr = err.Error()
			return "err"
		}
		return "ok"
	})
	if msg != "" {
		o.Detail = append(o.Detail, "scan: "+msg)
		o.Recs = []JRecObs{}
		o.Off = 0
	}
	return o, nil
}

func workManifest(c *Case) (any, error) {
	specs := []nbs.VerifC10Spec{}
	for _, s := range c.Specs {
		specs = append(specs, nbs.VerifC10Spec{Name: toHash(s.Name), Count: uint32(s.Cnt)})
	}
	buf, err := nbs.VerifC10WriteManifest(string(toBytes(c.Nbf)), toHash(c.Lock), toHash(c.Root), toHash(c.GcGen), specs)
	if err != nil {
		return nil, err
	}
	buf = mutate(buf, c.Muts)
	o := Obs{K: "manifest", Bytes: fromBytes(buf), Res: []AddrObs{}, Recs: []JRecObs{}, Specs: []SpecObs{}}
	var msg string
	o.Class, msg = safe(func() string {
		m, err := nbs.VerifC10ParseManifest(buf)
		if err != nil {
			o.OpenErr = err.Error()
			return "err"
		}
		o.Vers = fromBytes([]byte(m.Vers))
		o.Nbf = fromBytes([]byte(m.NbfVers))
		o.Lock = fromBytes([]byte(m.Lock.String()))
		o.Root = fromBytes([]byte(m.Root.String()))
		o.GcGen = fromBytes([]byte(m.GcGen.String()))
		for _, s := range m.Specs {
			o.Specs = append(o.Specs, SpecObs{Name: fromBytes([]byte(s.Name.String())), Cnt: int(s.Count)})
		}
		return "ok"
	})
	if msg != "" {
		o.Detail = append(o.Detail, "parse: "+msg)
	}
	return o, nil
}

// ---------------------------------------------------------------------------
// parent: pooled child
// ---------------------------------------------------------------------------

type child struct {
	cmd    *exec.Cmd
	in     io.WriteCloser
	out    *bufio.Reader
	errbuf *tailBuf
}

type tailBuf struct {
	mu sync.Mutex
	b  []byte
}

func (t *tailBuf) Write(p []byte) (int, error) {
	t.mu.Lock()
	defer t.mu.Unlock()
	t.b = append(t.b, p...)
	if len(t.b) > 1<<16 {
		t.b = t.b[:1<<16] // keep the head: the panic message comes first
	}
	return len(p), nil
}

func (t *tailBuf) String() string {
	t.mu.Lock()
	defer t.mu.Unlock()
	return string(t.b)
}

var cur *child

func startChild() (*child, error) {
	cmd := exec.Command(os.Args[0], "c10w")
	in, err := cmd.StdinPipe()
	if err != nil {
		return nil, err
	}
	out, err := cmd.StdoutPipe()
	if err != nil {
		return nil, err
	}
	eb := &tailBuf{}
	cmd.Stderr = eb
	if err := cmd.Start(); err != nil {
		return nil, err
	}
	return &child{cmd: cmd, in: in, out: bufio.NewReaderSize(out, 1<<20), errbuf: eb}, nil
}

type childLine struct {
	W     int             `json:"w"`
	Obs   json.RawMessage `json:"obs"`
	Err   string          `json:"err"`
	Panic string          `json:"panic"`
}

// ask sends one case to the child; crashed=true when the child died before answering.
func ask(c *Case) (line childLine, crashed bool, crashMsg string, err error) {
	if cur == nil {
		if cur, err = startChild(); err != nil {
			return
		}
	}
	b, _ := json.Marshal(c)
	b = append(b, '\n')
	type rd struct {
		l   []byte
		err error
	}
	ch := make(chan rd, 1)
	k := cur
	go func() {
		if _, werr := k.in.Write(b); werr != nil {
			ch <- rd{nil, werr}
			return
		}
		for {
			l, rerr := k.out.ReadBytes('\n')
			if rerr != nil {
				ch <- rd{nil, rerr}
				return
			}
			var probe childLine
			if json.Unmarshal(l, &probe) == nil && probe.W == 1 {
				ch <- rd{l, nil}
				return
			}
		}
	}()
	var r rd
	select {
	case r = <-ch:
	case <-time.After(45 * time.Second):
		k.cmd.Process.Kill()
		r = rd{nil, errors.New("timeout")}
	}
	if r.err != nil || len(bytes.TrimSpace(r.l)) == 0 {
		k.in.Close()
		k.cmd.Wait()
		msg := k.errbuf.String()
		if r.err != nil && r.err.Error() == "timeout" {
			msg = "timeout\n" + msg
		}
		cur = nil
		return childLine{}, true, msg, nil
	}
	if jerr := json.Unmarshal(r.l, &line); jerr != nil {
		return childLine{}, false, "", jerr
	}
	return line, false, "", nil
}

func firstLines(s string, n int) string {
	ls := strings.SplitN(s, "\n", n+1)
	if len(ls) > n {
		ls = ls[:n]
	}
	return strings.Join(ls, "\n")
}

func Run(raw json.RawMessage) (any, error) {
	var c Case
	if err := json.Unmarshal(raw, &c); err != nil {
		return nil, err
	}
	dir, err := os.MkdirTemp("/tmp", "c10-")
	if err != nil {
		return nil, err
	}
	defer os.RemoveAll(dir)
	c.Dir = dir
	c.Phase = "main"
	line, crashed, cmsg, err := ask(&c)
	if err != nil {
		return nil, err
	}
	if crashed {
		return map[string]any{"k": c.K, "crash": firstLines(cmsg, 6)}, nil
	}
	if line.Panic != "" {
		return map[string]any{"k": c.K, "crash": "worker panic: " + firstLines(line.Panic, 6)}, nil
	}
	if line.Err != "" {
		return nil, errors.New(line.Err)
	}
	if c.K != "table" && c.K != "archive" && c.K != "store" {
		return line.Obs, nil
	}
	var o Obs
	if err := json.Unmarshal(line.Obs, &o); err != nil {
		return nil, err
	}
	if o.Open == "ok" && c.K == "archive" {
		c.Phase = "iter"
		l4, crashed4, cmsg4, err := ask(&c)
		if err != nil {
			return nil, err
		}
		switch {
		case crashed4:
			o.Iter = "panic"
			o.Detail = append(o.Detail, "iter: crash: "+firstLines(cmsg4, 3))
		case l4.Panic != "":
			o.Iter = "panic"
			o.Detail = append(o.Detail, "iter: crash: "+firstLines(l4.Panic, 3))
		case l4.Err != "":
			return nil, errors.New(l4.Err)
		default:
			var o4 Obs
			if err := json.Unmarshal(l4.Obs, &o4); err != nil {
				return nil, err
			}
			o.Iter, o.IterN = o4.Iter, o4.IterN
			o.Detail = append(o.Detail, o4.Detail...)
		}
	}
	if o.Open == "ok" && c.Extras && c.K != "store" {
		c.Phase = "extras"
		l3, crashed3, cmsg3, err := ask(&c)
		if err != nil {
			return nil, err
		}
		switch {
		case crashed3:
			o.Extra = []int{3}
			o.ExtraOps = []string{"extras:crash"}
			o.Detail = append(o.Detail, "extras: crash: "+firstLines(cmsg3, 3))
		case l3.Panic != "":
			o.Extra = []int{3}
			o.ExtraOps = []string{"extras:crash"}
			o.Detail = append(o.Detail, "extras: crash: "+firstLines(l3.Panic, 3))
		case l3.Err != "":
			return nil, errors.New(l3.Err)
		default:
			var o3 Obs
			if err := json.Unmarshal(l3.Obs, &o3); err != nil {
				return nil, err
			}
			o.Extra, o.ExtraOps = o3.Extra, o3.ExtraOps
			o.Detail = append(o.Detail, o3.Detail...)
		}
	}
	if o.Open == "ok" && c.Gm {
		c.Phase = "getmany"
		l2, crashed2, cmsg2, err := ask(&c)
		if err != nil {
			return nil, err
		}
		switch {
		case crashed2:
			o.GetMany = "crash"
			o.CrashMsg = firstLines(cmsg2, 4)
		case l2.Panic != "":
			o.GetMany = "crash"
			o.CrashMsg = firstLines(l2.Panic, 4)
		case l2.Err != "":
			return nil, errors.New(l2.Err)
		default:
			var o2 Obs
			if err := json.Unmarshal(l2.Obs, &o2); err != nil {
				return nil, err
			}
			o.GetMany = o2.GetMany
		}
	}
	return o, nil
}
