// Package c16: adaptive (inline / out-of-band) values, the blob tree behind
// them and their comparison (property C16), at the store level and through SQL.
package c16

import (
	"bytes"
	"context"
	"encoding/hex"
	"encoding/json"
	"fmt"
	"strconv"
	"strings"

	"github.com/dolthub/go-mysql-server/sql"
	gmstypes "github.com/dolthub/go-mysql-server/sql/types"

	"github.com/dolthub/dolt/go/libraries/doltcore/schema"
	"github.com/dolthub/dolt/go/store/pool"
	"github.com/dolthub/dolt/go/store/prolly/tree"
	"github.com/dolthub/dolt/go/store/val"

	"verifharness/hk"
	"verifharness/util"
)

func init() { hk.Register("c16", Run) }

type Spec struct {
	N    int     `json:"n"`
	Pat  []int   `json:"pat"`
	Muts [][]int `json:"muts"` // [position, byte]
}

func (s Spec) expand() []byte {
	out := make([]byte, s.N)
	for i := range out {
		if len(s.Pat) > 0 {
			out[i] = byte(s.Pat[i%len(s.Pat)])
		}
	}
	for _, m := range s.Muts {
		if m[0] < len(out) {
			out[m[0]] = byte(m[1])
		}
	}
	return out
}

type Case struct {
	Kind   string `json:"kind"` // api | sql
	Target int    `json:"target"`
	X      Spec   `json:"x"`
	Y      Spec   `json:"y"`
	SQLTy  int    `json:"sqlty"` // 0 longtext, 1 longblob, 2 json
	Vals   []Spec `json:"vals"`
	Prefix int    `json:"prefix"`
	CKind  int    `json:"ckind"` // cmp cases: 0 utf8mb4_0900_ai_ci, 1 utf8mb4_0900_bin, 2 JSON
	XS     string `json:"xs"`    // hex of x / y (UTF-8 text or a JSON literal)
	YS     string `json:"ys"`
	SQL    bool   `json:"sql"`
}

type CmpObs struct {
	XY          []*int   `json:"xy"` // ii io oi oo
	YX          []*int   `json:"yx"`
	RefXY       int      `json:"ref_xy"`
	RefYX       int      `json:"ref_yx"`
	TupleXY     int      `json:"tuple_xy"`
	TupleYX     int      `json:"tuple_yx"`
	InlineX     bool     `json:"inline_x"`
	InlineY     bool     `json:"inline_y"`
	LenX        int      `json:"len_x"`
	LenY        int      `json:"len_y"`
	SQLDistinct int      `json:"sql_distinct"`
	SQLFirst    int      `json:"sql_first"`
	Notes       []string `json:"notes,omitempty"`
}

type ApiObs struct {
	ReadOK   bool   `json:"read_ok"`
	Height   int    `json:"height"`
	Leaves   int    `json:"leaves"`
	LastLeaf int    `json:"last_leaf"`
	Out      []int  `json:"out"`
	Built    []int  `json:"built"`
	Cmp      []*int `json:"cmp"` // ii io oi oo
	AddrX    []int  `json:"addr_x"`
	AddrY    []int  `json:"addr_y"`
}

type SqlObs struct {
	ReadIn      bool     `json:"read_in"`
	ReadOut     bool     `json:"read_out"`
	ReadSel     bool     `json:"read_sel"`
	ReadUpd     bool     `json:"read_upd"`
	OrderIn     []int    `json:"order_in"`
	OrderOut    []int    `json:"order_out"`
	OrderSel    []int    `json:"order_sel"`
	OrderUpd    []int    `json:"order_upd"`
	DistinctSel int      `json:"distinct_sel"`
	DistinctUpd int      `json:"distinct_upd"`
	JSONFull    bool     `json:"json_full"`
	DistinctIn  int      `json:"distinct_in"`
	DistinctOut int      `json:"distinct_out"`
	GroupsIn    int      `json:"groups_in"`
	GroupsOut   int      `json:"groups_out"`
	Join        int      `json:"join"`
	Unique      []bool   `json:"unique"`
	HashSame    bool     `json:"hash_same"`
	Notes       []string `json:"notes,omitempty"` // SQL errors and details of failed read-backs
}

type Obs struct {
	Api *ApiObs `json:"api,omitempty"`
	Sql *SqlObs `json:"sql,omitempty"`
	Cmp *CmpObs `json:"cmp,omitempty"`
}

func fromBytes(b []byte) []int {
	out := make([]int, len(b))
	for i, x := range b {
		out[i] = int(x)
	}
	return out
}

func sign(c int) int {
	if c < 0 {
		return -1
	} else if c > 0 {
		return 1
	}
	return 0
}

func runAPI(c Case) (*ApiObs, error) {
	ctx := context.Background()
	ns := tree.NewTestNodeStore()
	x, y := c.X.expand(), c.Y.expand()
	o := &ApiObs{}
	hx, err := ns.WriteBytes(ctx, x)
	if err != nil {
		return nil, err
	}
	hy, err := ns.WriteBytes(ctx, y)
	if err != nil {
		return nil, err
	}
	o.AddrX, o.AddrY = fromBytes(hx[:]), fromBytes(hy[:])
	o.ReadOK = true
	for _, p := range []struct {
		b []byte
	}{{x}, {y}} {
		if len(p.b) == 0 {
			continue
		}
		h, _ := ns.WriteBytes(ctx, p.b)
		got, err := ns.ReadBytes(ctx, h)
		if err != nil || !bytes.Equal(got, p.b) {
			o.ReadOK = false
		}
	}
	if len(x) > 0 {
		root, err := ns.Read(ctx, hx)
		if err != nil {
			return nil, err
		}
		o.Height = root.Level()
		err = tree.WalkNodes(ctx, root, ns, func(ctx context.Context, n *tree.Node) error {
			if n.IsLeaf() {
				o.Leaves++
				o.LastLeaf = len(n.GetValue(0))
			}
			return nil
		})
		if err != nil {
			return nil, err
		}
	}
	outX, err := val.NewOutOfBandAdaptiveValue(ctx, ns, x)
	if err != nil {
		return nil, err
	}
	outY, err := val.NewOutOfBandAdaptiveValue(ctx, ns, y)
	if err != nil {
		return nil, err
	}
	// an empty value has no out-of-band form ([0] ++ address reads as an inline value): use the inline form
	if len(x) == 0 {
		outX = val.AdaptiveValueInlineBytes(x)
	}
	if len(y) == 0 {
		outY = val.AdaptiveValueInlineBytes(y)
	}
	o.Out = fromBytes(outX)
	td := val.NewTupleDescriptorWithArgs(val.TupleDescriptorArgs{ValueStore: ns}, val.Type{Enc: val.StringAdaptiveEnc, Nullable: true})
	tb := val.NewTupleBuilder(td, ns).WithMaxRowSize(uint16(c.Target))
	if err := tb.PutAdaptiveStringFromInline(ctx, 0, string(x)); err != nil {
		return nil, err
	}
	tup, err := tb.Build(ctx, pool.NewBuffPool())
	if err != nil {
		return nil, err
	}
	o.Built = fromBytes(tup.GetField(0))
	inX, inY := val.AdaptiveValueInlineBytes(x), val.AdaptiveValueInlineBytes(y)
	okX, okY := len(x)+1 <= c.Target, len(y)+1 <= c.Target
	cmp := func(ok bool, l, r []byte) *int {
		if !ok {
			return nil
		}
		v, err := ns.CompareAdaptive(ctx, l, r, val.StringAdaptiveEnc)
		if err != nil {
			panic(err)
		}
		s := sign(v)
		return &s
	}
	o.Cmp = []*int{cmp(okX && okY, inX, inY), cmp(okX, inX, outY), cmp(okY, outX, inY), cmp(true, outX, outY)}
	return o, nil
}

var sqlTypes = []string{"longtext", "longblob", "json"}

// lit is the SQL literal for value b of row id. JSON rows are whole documents
// (string member k = b, plus a number, a nested array/object, a boolean and null).
func lit(ty int, b []byte, id int) string {
	if ty == 2 {
		short := b
		if len(short) > 10 {
			short = short[:10]
		}
		return fmt.Sprintf(`'{"k": "%s", "n": %d, "a": [1, {"b": null}, "%s"], "t": true}'`, string(b), id, string(short))
	}
	return "x'" + hex.EncodeToString(b) + "'"
}

func rendered(ty int, b []byte) string {
	if ty == 1 {
		return "b:" + hex.EncodeToString(b)
	}
	return "s:" + string(b)
}

func runSQL(c Case) (*SqlObs, error) {
	e, err := util.NewEnv(false)
	if err != nil {
		return nil, err
	}
	defer e.Close()
	s, err := e.NewSession()
	if err != nil {
		return nil, err
	}
	o := &SqlObs{ReadIn: true, ReadOut: true, ReadSel: true, ReadUpd: true, HashSame: true, JSONFull: true}
	note := func(f string, a ...any) { o.Notes = append(o.Notes, fmt.Sprintf(f, a...)) }
	ty := sqlTypes[c.SQLTy]
	expr := "v"
	if c.SQLTy == 2 {
		expr = "json_unquote(json_extract(v, '$.k'))"
	}
	must := func(q string) bool {
		r := s.Exec(q)
		if r.Err != "" {
			qq := q
			if len(qq) > 120 {
				qq = qq[:120] + "..."
			}
			note("%s: %s", qq, r.Err)
			return false
		}
		return true
	}
	const pads = 8
	padCols, padDefs := "", ""
	for i := 0; i < pads; i++ {
		padDefs += fmt.Sprintf(", p%d longtext", i)
	}
	must("create table tin (id int primary key, v " + ty + ")")
	must("create table tout (id int primary key, v " + ty + padDefs + ")")
	must("create table tsel (id int primary key, v " + ty + ")")
	must("create table tupd (id int primary key, v " + ty + padDefs + ")")
	_ = padCols
	vals := make([][]byte, len(c.Vals))
	for i, sp := range c.Vals {
		vals[i] = sp.expand()
		id := i + 1
		must(fmt.Sprintf("insert into tin values (%d, %s)", id, lit(c.SQLTy, vals[i], id)))
		// neighbours slightly shorter than the value: the value is the largest saver and goes out of band first
		pl := len(vals[i]) - 1
		if pl > 1000 {
			pl = 1000
		}
		if pl < 0 {
			pl = 0
		}
		pad := "'" + strings.Repeat("p", pl) + "'"
		q := fmt.Sprintf("insert into tout values (%d, %s", id, lit(c.SQLTy, vals[i], id))
		// tupd: the row starts with a one-byte value (inline) next to the same neighbours, then UPDATE writes the value
		qu := fmt.Sprintf("insert into tupd values (%d, %s", id, lit(c.SQLTy, []byte("u"), id))
		for j := 0; j < pads; j++ {
			q += ", " + pad
			qu += ", " + pad
		}
		must(q + ")")
		must(qu + ")")
		must(fmt.Sprintf("update tupd set v = %s where id = %d", lit(c.SQLTy, vals[i], id), id))
	}
	// tsel: filled from storage (values arrive as stored: inline or out of band)
	must("insert into tsel select id, v from tout")
	for _, t := range []string{"tin", "tout", "tsel", "tupd"} {
		r := s.Exec("select id, " + expr + " from " + t + " order by id")
		ok := r.Err == "" && len(r.Rows) == len(vals)
		if r.Err != "" {
			note("read %s: %s", t, r.Err)
		}
		if ok {
			for i, row := range r.Rows {
				want := rendered(c.SQLTy, vals[i])
				if row[0] != "i:"+strconv.Itoa(i+1) || row[1] != want {
					ok = false
					got := row[1]
					if len(got) > 60 {
						got = got[:60]
					}
					note("read %s id %d: got len %d %q", t, i+1, len(row[1]), got)
					break
				}
			}
		}
		switch t {
		case "tin":
			o.ReadIn = ok
		case "tout":
			o.ReadOut = ok
		case "tsel":
			o.ReadSel = ok
		default:
			o.ReadUpd = ok
		}
	}
	if c.SQLTy == 2 {
		// whole documents: identical from every table and equal to CAST(literal AS JSON)
		var first [][]string
		for _, t := range []string{"tin", "tout", "tsel", "tupd"} {
			r := s.Exec("select id, v from " + t + " order by id")
			if r.Err != "" || len(r.Rows) != len(vals) {
				o.JSONFull = false
				note("json read %s: %s (%d rows)", t, r.Err, len(r.Rows))
				continue
			}
			if first == nil {
				first = r.Rows
				for i := range vals {
					rc := s.Exec("select cast(" + lit(2, vals[i], i+1) + " as json)")
					if rc.Err != "" || len(rc.Rows) != 1 || rc.Rows[0][0] != r.Rows[i][1] {
						o.JSONFull = false
						note("json doc %d differs from CAST(literal AS JSON): %s", i+1, rc.Err)
					}
				}
				continue
			}
			for i := range r.Rows {
				if r.Rows[i][1] != first[i][1] {
					o.JSONFull = false
					note("json doc %d of %s differs from tin", i+1, t)
					break
				}
			}
		}
	}
	ids := func(q string) []int {
		r := s.Exec(q)
		if r.Err != "" {
			note("%s: %s", q, r.Err)
			return []int{}
		}
		out := []int{}
		for _, row := range r.Rows {
			v, _ := strconv.Atoi(strings.TrimPrefix(row[0], "i:"))
			out = append(out, v)
		}
		return out
	}
	one := func(q string) int {
		l := ids(q)
		if len(l) != 1 {
			return 999999
		}
		return l[0]
	}
	o.OrderIn = ids("select id from tin order by " + expr + ", id")
	o.OrderOut = ids("select id from tout order by " + expr + ", id")
	o.OrderSel = ids("select id from tsel order by " + expr + ", id")
	o.OrderUpd = ids("select id from tupd order by " + expr + ", id")
	o.DistinctSel = one("select count(*) from (select distinct " + expr + " as g from tsel) x")
	o.DistinctUpd = one("select count(*) from (select distinct " + expr + " as g from tupd) x")
	if c.SQLTy == 1 {
		// COUNT(DISTINCT blob) fails in the engine on non-UTF-8 bytes whatever the storage form (not this property): use SELECT DISTINCT
		o.DistinctIn = one("select count(*) from (select distinct v from tin) x")
		o.DistinctOut = one("select count(*) from (select distinct v from tout) x")
	} else {
		o.DistinctIn = one("select count(distinct " + expr + ") from tin")
		o.DistinctOut = one("select count(distinct " + expr + ") from tout")
	}
	o.GroupsIn = one("select count(*) from (select " + expr + " as g, count(*) as c from tin group by g) x")
	o.GroupsOut = one("select count(*) from (select " + expr + " as g, count(*) as c from tout group by g) x")
	if c.SQLTy == 2 {
		o.Join = one("select count(*) from tin a join tout b on json_unquote(json_extract(a.v, '$.k')) = json_unquote(json_extract(b.v, '$.k'))")
	} else {
		o.Join = one("select count(*) from tin a join tout b on a.v = b.v")
	}
	o.Unique = []bool{}
	if c.SQLTy != 2 {
		must(fmt.Sprintf("create table tu (id int primary key, v %s, unique key uk (v(%d)))", ty, c.Prefix))
		for i := range vals {
			r := s.Exec(fmt.Sprintf("insert into tu select id, v from tout where id = %d", i+1))
			acc := r.Err == ""
			if !acc && !strings.Contains(strings.ToLower(r.Err), "duplicate") {
				note("unique insert %d: %s", i+1, r.Err)
			}
			o.Unique = append(o.Unique, acc)
		}
	}
	// same table hash however the value was produced
	must("create table th (id int primary key, v " + ty + ")")
	for i := range vals {
		if i >= 2 {
			break
		}
		var hs []string
		hashOf := func() string {
			r := s.Exec("select dolt_hashof_table('th')")
			if r.Err != "" || len(r.Rows) != 1 {
				note("hashof: %s", r.Err)
				return "?"
			}
			return r.Rows[0][0]
		}
		// the stored rows carry their own id inside JSON documents: rebuild the literal with that id
		must(fmt.Sprintf("insert into th values (1, %s)", lit(c.SQLTy, vals[i], i+1)))
		hs = append(hs, hashOf())
		must("delete from th")
		must(fmt.Sprintf("insert into th select 1, v from tout where id = %d", i+1))
		hs = append(hs, hashOf())
		must("delete from th")
		must(fmt.Sprintf("insert into th select 1, v from tin where id = %d", i+1))
		hs = append(hs, hashOf())
		must("delete from th")
		must(fmt.Sprintf("insert into th select 1, v from tupd where id = %d", i+1))
		hs = append(hs, hashOf())
		must("delete from th")
		if c.SQLTy == 2 {
			must(fmt.Sprintf("insert into th values (1, %s)", lit(c.SQLTy, []byte("u"), i+1)))
			must(fmt.Sprintf("update th set v = %s where id = 1", lit(c.SQLTy, vals[i], i+1)))
			hs = append(hs, hashOf())
			must("delete from th")
		}
		if c.SQLTy != 2 {
			h := len(vals[i]) / 2
			must(fmt.Sprintf("insert into th values (1, %s)", lit(c.SQLTy, vals[i][:h], 1)))
			must(fmt.Sprintf("update th set v = concat(v, %s) where id = 1", lit(c.SQLTy, vals[i][h:], 1)))
			hs = append(hs, hashOf())
			must("delete from th")
			// UPDATE from a short value to the literal
			must(fmt.Sprintf("insert into th values (1, %s)", lit(c.SQLTy, []byte("u"), 1)))
			must(fmt.Sprintf("update th set v = %s where id = 1", lit(c.SQLTy, vals[i], 1)))
			hs = append(hs, hashOf())
			must("delete from th")
		}
		for _, h := range hs {
			if h != hs[0] || h == "?" {
				o.HashSame = false
				note("table hash differs for value %d: %v", i+1, hs)
				break
			}
		}
	}
	return o, nil
}

// runCmp: comparison of two adaptive values under a collation / as JSON documents, in every
// representation combination and both operand orders, at the value store, at the tuple comparator and
// (collated text) through SQL. The reference is go-mysql-server's comparator on the whole values.
func runCmp(c Case) (*CmpObs, error) {
	ctx := context.Background()
	ns := tree.NewTestNodeStore()
	x, err := hex.DecodeString(c.XS)
	if err != nil {
		return nil, err
	}
	y, err := hex.DecodeString(c.YS)
	if err != nil {
		return nil, err
	}
	o := &CmpObs{}
	var cmp func(l, r val.AdaptiveValue) (int, error)
	var typ val.Type
	var args val.TupleDescriptorArgs
	collName := "utf8mb4_0900_ai_ci"
	if c.CKind == 2 {
		// stored format of the documents
		canon := func(b []byte) ([]byte, error) {
			var v interface{}
			if err := json.Unmarshal(b, &v); err != nil {
				return nil, err
			}
			return gmstypes.MarshallJson(ctx, gmstypes.JSONDocument{Val: v})
		}
		if x, err = canon(x); err != nil {
			return nil, err
		}
		if y, err = canon(y); err != nil {
			return nil, err
		}
		var vx, vy interface{}
		_ = json.Unmarshal(x, &vx)
		_ = json.Unmarshal(y, &vy)
		r, err := gmstypes.CompareJSON(ctx, vx, vy)
		if err != nil {
			return nil, err
		}
		o.RefXY = sign(r)
		r, err = gmstypes.CompareJSON(ctx, vy, vx)
		if err != nil {
			return nil, err
		}
		o.RefYX = sign(r)
		cmp = func(l, r val.AdaptiveValue) (int, error) { return ns.CompareAdaptive(ctx, l, r, val.JsonAdaptiveEnc) }
		typ = val.Type{Enc: val.JsonAdaptiveEnc, Nullable: true}
		args = val.TupleDescriptorArgs{ValueStore: ns}
	} else {
		coll := sql.Collation_utf8mb4_0900_ai_ci
		if c.CKind == 1 {
			coll = sql.Collation_utf8mb4_0900_bin
			collName = "utf8mb4_0900_bin"
		}
		st := gmstypes.CreateLongText(coll)
		r, err := st.Compare(ctx, string(x), string(y))
		if err != nil {
			return nil, err
		}
		o.RefXY = sign(r)
		r, err = st.Compare(ctx, string(y), string(x))
		if err != nil {
			return nil, err
		}
		o.RefYX = sign(r)
		cmp = func(l, r val.AdaptiveValue) (int, error) { return ns.CompareAdaptiveCollatedStrings(ctx, l, r, coll) }
		typ = val.Type{Enc: val.StringAdaptiveEnc, Nullable: true}
		args = val.TupleDescriptorArgs{Comparator: schema.CollationTupleComparator{Collations: []sql.CollationID{coll}}, ValueStore: ns}
	}
	o.LenX, o.LenY = len(x), len(y)
	o.InlineX, o.InlineY = len(x)+1 <= c.Target, len(y)+1 <= c.Target
	form := func(b []byte) (val.AdaptiveValue, val.AdaptiveValue, error) {
		in := val.AdaptiveValue(val.AdaptiveValueInlineBytes(b))
		if len(b) == 0 {
			return in, in, nil
		}
		out, err := val.NewOutOfBandAdaptiveValue(ctx, ns, b)
		return in, out, err
	}
	inX, outX, err := form(x)
	if err != nil {
		return nil, err
	}
	inY, outY, err := form(y)
	if err != nil {
		return nil, err
	}
	one := func(ok bool, l, r val.AdaptiveValue) (*int, error) {
		if !ok {
			return nil, nil
		}
		v, err := cmp(l, r)
		if err != nil {
			return nil, err
		}
		s := sign(v)
		return &s, nil
	}
	row := func(il, ir bool, inL, outL, inR, outR val.AdaptiveValue) ([]*int, error) {
		out := make([]*int, 4)
		var err error
		if out[0], err = one(il && ir, inL, inR); err != nil {
			return nil, err
		}
		if out[1], err = one(il, inL, outR); err != nil {
			return nil, err
		}
		if out[2], err = one(ir, outL, inR); err != nil {
			return nil, err
		}
		if out[3], err = one(true, outL, outR); err != nil {
			return nil, err
		}
		return out, nil
	}
	if o.XY, err = row(o.InlineX, o.InlineY, inX, outX, inY, outY); err != nil {
		return nil, err
	}
	if o.YX, err = row(o.InlineY, o.InlineX, inY, outY, inX, outX); err != nil {
		return nil, err
	}
	// tuple level: the builder decides the representation
	td := val.NewTupleDescriptorWithArgs(args, typ)
	bp := pool.NewBuffPool()
	mk := func(b []byte) (val.Tuple, error) {
		tb := val.NewTupleBuilder(td, ns).WithMaxRowSize(uint16(c.Target))
		var err error
		if c.CKind == 2 {
			err = tb.PutAdaptiveJsonFromInline(ctx, 0, b)
		} else {
			err = tb.PutAdaptiveStringFromInline(ctx, 0, string(b))
		}
		if err != nil {
			return nil, err
		}
		t, err := tb.Build(ctx, bp)
		return append(val.Tuple{}, t...), err
	}
	tx, err := mk(x)
	if err != nil {
		return nil, err
	}
	ty, err := mk(y)
	if err != nil {
		return nil, err
	}
	r, err := td.Compare(ctx, tx, ty)
	if err != nil {
		return nil, err
	}
	o.TupleXY = sign(r)
	if r, err = td.Compare(ctx, ty, tx); err != nil {
		return nil, err
	}
	o.TupleYX = sign(r)
	if c.SQL && c.CKind != 2 {
		e, err := util.NewEnv(false)
		if err != nil {
			return nil, err
		}
		defer e.Close()
		s, err := e.NewSession()
		if err != nil {
			return nil, err
		}
		note := func(f string, a ...any) { o.Notes = append(o.Notes, fmt.Sprintf(f, a...)) }
		must := func(q string) {
			if r := s.Exec(q); r.Err != "" {
				qq := q
				if len(qq) > 100 {
					qq = qq[:100] + "..."
				}
				note("%s: %s", qq, r.Err)
			}
		}
		must("create table tin (id int primary key, v longtext collate " + collName + ")")
		must("create table tout (id int primary key, v longtext collate " + collName + ", p0 longtext, p1 longtext, p2 longtext)")
		pad := "'" + strings.Repeat("p", 700) + "'"
		must(fmt.Sprintf("insert into tin values (1, convert(x'%s' using utf8mb4))", hex.EncodeToString(x)))
		must(fmt.Sprintf("insert into tout values (2, convert(x'%s' using utf8mb4), %s, %s, %s)", hex.EncodeToString(y), pad, pad, pad))
		num := func(q string) int {
			r := s.Exec(q)
			if r.Err != "" || len(r.Rows) != 1 {
				note("%s: %s", q, r.Err)
				return 999999
			}
			v, _ := strconv.Atoi(strings.TrimPrefix(r.Rows[0][0], "i:"))
			return v
		}
		// number of distinct values among {x in tin (inline when it fits), y in tout (forced out of band)} as the equality join
		// sees it. (SELECT DISTINCT on a collated LONGTEXT is not collation-aware in the engine even for one-character inline
		// values — 'e' and 'é' stay two rows — so it is not used here; GROUP BY and joins are.)
		o.SQLDistinct = 2 - num("select count(*) from tin a join tout b on a.v = b.v")
		o.SQLFirst = num("select id from (select id, v from tin union all select id, v from tout) u order by v, id limit 1")
	}
	return o, nil
}

func Run(raw json.RawMessage) (any, error) {
	var c Case
	if err := json.Unmarshal(raw, &c); err != nil {
		return nil, err
	}
	if c.Kind == "cmp" {
		o, err := runCmp(c)
		return Obs{Cmp: o}, err
	}
	if c.Kind == "sql" {
		o, err := runSQL(c)
		return Obs{Sql: o}, err
	}
	o, err := runAPI(c)
	return Obs{Api: o}, err
}
