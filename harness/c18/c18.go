// Package c18: commit metadata (height, parent closure, address stability) — property C18.
// Also exports the graph builder used by package c19.
package c18

import (
	"bytes"
	"context"
	"encoding/json"
	"errors"
	"fmt"
	"io"
	"sort"
	"time"

	"github.com/dolthub/dolt/go/libraries/doltcore/doltdb"
	"github.com/dolthub/dolt/go/store/chunks"
	"github.com/dolthub/dolt/go/store/datas"
	"github.com/dolthub/dolt/go/store/hash"
	"github.com/dolthub/dolt/go/store/prolly/tree"
	"github.com/dolthub/dolt/go/store/types"

	"verifharness/hk"
)

func init() { hk.Register("c18", Run) }

type Case struct {
	H    [][]int `json:"h"`    // parent lists, by creation index (parents are earlier indices)
	Salt int     `json:"salt"` // varies the commit messages, hence the addresses and their byte order
	// Amend[i] = j: commit i is written with CommitOptions.AmendedCommit = address of commit j on j's
	// dataset (dolt commit --amend / squash: same parents as j, j's branch then points at i).
	Amend map[string]int `json:"amend,omitempty"`
	// Sel: the commits whose stored closure is reported (nil = all). Large histories report only a few.
	Sel []int `json:"sel,omitempty"`
}

type Obs struct {
	Heights  []int     `json:"heights"`
	Parents  [][]int   `json:"parents"`
	Closures [][][]int `json:"closures"` // per selected commit: [height, index] in IterAllReverse order
	Levels   []int     `json:"levels"`   // per commit: number of levels of the prolly tree holding its closure (0 = none)
	Stable   bool      `json:"stable"`
	Rank     []int     `json:"rank"` // rank[i] = position of commit i's address in byte order
	Unstable string    `json:"unstable,omitempty"`
}

// Graph is a commit graph created through the real datas / doltdb API on an in-memory store.
type Graph struct {
	DDB   *doltdb.DoltDB
	DB    datas.Database
	VRW   types.ValueReadWriter
	NS    tree.NodeStore
	Addrs []hash.Hash
	Idx   map[hash.Hash]int
	Bytes [][]byte // serialized commit as written
}

// BranchName is the branch (dataset refs/heads/<name>) whose head is commit i.
func BranchName(i int) string { return fmt.Sprintf("b%d", i) }

// Build creates one commit per entry of h; commit i is the head of its own branch b<i>.
// onCreated (may be nil) is called after each commit is written.
func Build(ctx context.Context, h [][]int, salt int, onCreated func(g *Graph, i int) error) (*Graph, error) {
	return BuildAmend(ctx, h, salt, nil, onCreated)
}

// BuildAmend is Build with amend commits: amend[i] = j writes commit i as an amendment of commit j.
func BuildAmend(ctx context.Context, h [][]int, salt int, amend map[int]int, onCreated func(g *Graph, i int) error) (*Graph, error) {
	storage := &chunks.TestStorage{}
	cs := storage.NewViewWithDefaultFormat()
	ddb, err := doltdb.DoltDBFromCS(cs, "verif")
	if err != nil {
		return nil, err
	}
	g := &Graph{DDB: ddb, DB: doltdb.ExposeDatabaseFromDoltDB(ddb), VRW: ddb.ValueReadWriter(), NS: ddb.NodeStore(), Idx: map[hash.Hash]int{}}
	for i, ps := range h {
		parents := make([]hash.Hash, len(ps))
		for j, p := range ps {
			if p < 0 || p >= i {
				return nil, fmt.Errorf("commit %d: parent %d is not an earlier commit", i, p)
			}
			parents[j] = g.Addrs[p]
		}
		dsName := "refs/heads/" + BranchName(i)
		var amended hash.Hash
		if j, ok := amend[i]; ok {
			if j < 0 || j >= i {
				return nil, fmt.Errorf("commit %d: amends %d which is not an earlier commit", i, j)
			}
			dsName = "refs/heads/" + BranchName(j)
			amended = g.Addrs[j]
		}
		ds, err := g.DB.GetDataset(ctx, dsName)
		if err != nil {
			return nil, err
		}
		when := datas.CommitDateAt(time.UnixMilli(int64(1000 * (i + 1))))
		id := datas.CommitIdent{Name: "v", Email: "v@v", Date: when}
		meta := &datas.CommitMeta{Author: id, Committer: id, Description: fmt.Sprintf("c%d-%d", i, salt)}
		ds, err = g.DB.Commit(ctx, ds, types.String(fmt.Sprintf("v%d", i)), datas.CommitOptions{Parents: parents, Meta: meta, AmendedCommit: amended})
		if err != nil {
			return nil, fmt.Errorf("commit %d: %w", i, err)
		}
		addr, ok := ds.MaybeHeadAddr()
		if !ok {
			return nil, fmt.Errorf("commit %d: no head after commit", i)
		}
		if _, dup := g.Idx[addr]; dup {
			return nil, fmt.Errorf("commit %d: address collides with an earlier commit", i)
		}
		c, err := datas.LoadCommitAddr(ctx, g.VRW, addr)
		if err != nil {
			return nil, err
		}
		g.Addrs = append(g.Addrs, addr)
		g.Idx[addr] = i
		g.Bytes = append(g.Bytes, append([]byte(nil), []byte(c.NomsValue().(types.SerialMessage))...))
		if onCreated != nil {
			if err := onCreated(g, i); err != nil {
				return nil, err
			}
		}
	}
	return g, nil
}

// Load reads commit i back from the store by its address.
func (g *Graph) Load(ctx context.Context, i int) (*datas.Commit, error) {
	return datas.LoadCommitAddr(ctx, g.VRW, g.Addrs[i])
}

// Rank returns, per commit, the position of its address in byte order.
func (g *Graph) Rank() []int {
	order := make([]int, len(g.Addrs))
	for i := range order {
		order[i] = i
	}
	sort.Slice(order, func(a, b int) bool { return g.Addrs[order[a]].Less(g.Addrs[order[b]]) })
	rank := make([]int, len(order))
	for pos, i := range order {
		rank[i] = pos
	}
	return rank
}

// Closure iterates the stored parent closure of commit c (IterAllReverse order).
func (g *Graph) Closure(ctx context.Context, c *datas.Commit) ([][]int, error) {
	out := [][]int{}
	sm, ok := c.NomsValue().(types.SerialMessage)
	if !ok {
		return nil, errors.New("commit is not a SerialMessage")
	}
	cc, err := datas.NewParentsClosure(ctx, c, sm, g.VRW, g.NS)
	if err != nil {
		return nil, err
	}
	if cc.IsEmpty() {
		return out, nil
	}
	it, err := cc.IterAllReverse(ctx)
	if err != nil {
		return nil, err
	}
	for {
		k, _, err := it.Next(ctx)
		if err == io.EOF {
			break
		}
		if err != nil {
			return nil, err
		}
		idx, ok := g.Idx[k.Addr()]
		if !ok {
			idx = 1000000 // an address that is not a commit of this graph
		}
		out = append(out, []int{int(k.Height()), idx})
	}
	return out, nil
}

func (g *Graph) closureLevels(ctx context.Context, i int) int {
	c, err := g.Load(ctx, i)
	if err != nil {
		return -1
	}
	sm, ok := c.NomsValue().(types.SerialMessage)
	if !ok {
		return -1
	}
	cc, err := datas.NewParentsClosure(ctx, c, sm, g.VRW, g.NS)
	if err != nil {
		return -1
	}
	if cc.IsEmpty() {
		return 0
	}
	return cc.Height()
}

type snapshot struct {
	height  int
	parents []int
	closure [][]int
}

func (g *Graph) snap(ctx context.Context, i int) (snapshot, error) {
	c, err := g.Load(ctx, i)
	if err != nil {
		return snapshot{}, err
	}
	ps, err := datas.GetCommitParents(ctx, g.VRW, c.NomsValue())
	if err != nil {
		return snapshot{}, err
	}
	s := snapshot{height: int(c.Height()), parents: []int{}}
	for _, p := range ps {
		idx, ok := g.Idx[p.Addr()]
		if !ok {
			idx = 1000000
		}
		s.parents = append(s.parents, idx)
	}
	s.closure, err = g.Closure(ctx, c)
	return s, err
}

func sameSnap(a, b snapshot) bool {
	ja, _ := json.Marshal([]any{a.height, a.parents, a.closure})
	jb, _ := json.Marshal([]any{b.height, b.parents, b.closure})
	return bytes.Equal(ja, jb)
}

// stillSame re-reads commit i: same bytes under the same address, address = hash of the bytes.
func (g *Graph) stillSame(ctx context.Context, i int, first snapshot) string {
	c, err := g.Load(ctx, i)
	if err != nil {
		return fmt.Sprintf("commit %d: reload: %v", i, err)
	}
	if !bytes.Equal([]byte(c.NomsValue().(types.SerialMessage)), g.Bytes[i]) {
		return fmt.Sprintf("commit %d: stored bytes changed", i)
	}
	hh, err := c.NomsValue().Hash(g.VRW.Format())
	if err != nil || hh != g.Addrs[i] || c.Addr() != g.Addrs[i] {
		return fmt.Sprintf("commit %d: address changed", i)
	}
	now, err := g.snap(ctx, i)
	if err != nil {
		return fmt.Sprintf("commit %d: re-read: %v", i, err)
	}
	if !sameSnap(first, now) {
		return fmt.Sprintf("commit %d: height/parents/closure read differently later", i)
	}
	return ""
}

func Run(raw json.RawMessage) (any, error) {
	var c Case
	if err := json.Unmarshal(raw, &c); err != nil {
		return nil, err
	}
	ctx := context.Background()
	snaps := []snapshot{}
	unstable := ""
	amend := map[int]int{}
	for k, v := range c.Amend {
		var i int
		if _, err := fmt.Sscanf(k, "%d", &i); err != nil {
			return nil, err
		}
		amend[i] = v
	}
	g, err := BuildAmend(ctx, c.H, c.Salt, amend, func(g *Graph, i int) error {
		s, err := g.snap(ctx, i)
		if err != nil {
			return err
		}
		snaps = append(snaps, s)
		// spot-check an older commit while the history is still growing
		if i > 0 && unstable == "" {
			j := (i*7 + 3) % i
			unstable = g.stillSame(ctx, j, snaps[j])
		}
		return nil
	})
	if err != nil {
		return nil, err
	}
	o := Obs{Heights: []int{}, Parents: [][]int{}, Closures: [][][]int{}, Levels: []int{}, Rank: g.Rank()}
	sel := map[int]bool{}
	for _, i := range c.Sel {
		sel[i] = true
	}
	closures := map[int][][]int{}
	for i := range c.H {
		if unstable == "" {
			unstable = g.stillSame(ctx, i, snaps[i])
		}
		// the reported values are the ones read after the whole history was written
		s, err := g.snap(ctx, i)
		if err != nil {
			return nil, err
		}
		o.Heights = append(o.Heights, s.height)
		o.Parents = append(o.Parents, s.parents)
		closures[i] = s.closure
		o.Levels = append(o.Levels, g.closureLevels(ctx, i))
	}
	if c.Sel == nil {
		for i := range c.H {
			o.Closures = append(o.Closures, closures[i])
		}
	} else {
		for _, i := range c.Sel {
			if i < 0 || i >= len(c.H) {
				return nil, fmt.Errorf("sel: %d out of range", i)
			}
			o.Closures = append(o.Closures, closures[i])
		}
	}
	o.Stable = unstable == ""
	o.Unstable = unstable
	return o, nil
}
