// Package c45: push-on-write replication to a file remote and a read replica of it (property C45,
// file-remote variants).
//
// One case = a sequence of steps over three actors wired the way `dolt sql-server` wires them from the
// @@dolt_replicate_to_remote / @@dolt_read_replica_remote / @@dolt_replicate_all_heads variables:
//
//	primary — an on-disk repository with an in-process SQL engine; every dolt_commit runs the
//	          push-on-write commit hook against the file:// remote
//	remote  — a file:// remote (directory), inspected by opening it as a DoltDB after each step
//	replica — an on-disk clone of the remote registered as a ReadReplicaDatabase: starting a
//	          transaction pulls from the remote
//
// After each step the branch heads of the remote and of the replica are reported; commits are named by
// the index of the step that created them (0 = the initial commit).
package c45

import (
	"context"
	"encoding/json"
	"fmt"
	"os"
	"path/filepath"
	"sort"
	"strings"
	"sync/atomic"
	"time"

	"github.com/sirupsen/logrus"

	"github.com/dolthub/go-mysql-server/sql"

	"github.com/dolthub/dolt/go/libraries/doltcore/dbfactory"
	"github.com/dolthub/dolt/go/libraries/doltcore/doltdb"
	"github.com/dolthub/dolt/go/libraries/doltcore/sqle/cluster"
	"github.com/dolthub/dolt/go/libraries/doltcore/sqle/dsess"
	"github.com/dolthub/dolt/go/store/types"

	"verifharness/hk"
	"verifharness/util"
)

func init() { hk.Register("c45", Run) }

type Step struct {
	Op     string `json:"op"`     // commit | pull | break | fix | tag | delbranch
	Branch int    `json:"branch"` // commit: 0 = main, k = branch bk (k odd) / vk (k even) (created from main's current head on first use); tag: the tag is NAMED bk (at main's head); delbranch: branch bk is deleted on the primary
}

type Case struct {
	Mode  string `json:"mode,omitempty"` // "" = push-on-write / read replica over a file remote; "cluster" = the cluster commit hook
	Steps []Step `json:"steps"`
}

type Heads [][2]int // (branch id, commit id), sorted by branch id

type StepObs struct {
	Remote  Heads  `json:"remote"`
	Replica Heads  `json:"replica"`
	Warn    bool   `json:"warn"`
	Err     string `json:"err,omitempty"`
}

type Obs struct {
	Steps   []StepObs  `json:"steps"`
	Cluster []ClusterO `json:"cluster,omitempty"`
}

// ClusterO: what is seen after one step of a cluster case. Roots are named by the index i of the commit step that
// produced them: 2(i+1), and 2(i+1)+1 for the second write of a commit2 step (0 = the root the primary had when the hook started); -1 = the standby store is still empty.
type ClusterO struct {
	Primary  int    `json:"primary"`
	Standby  int    `json:"standby"`
	Dirty    bool   `json:"dirty"`   // the hook is not caught up (nextHead != lastPushedHead)
	Swapped  bool   `json:"swapped"` // the hook has been moved to the standby role by a transition
	Retry    bool   `json:"retry"`   // a retry is scheduled (nextPushAttempt set) after a failed attempt
	AckErr   string `json:"ackerr,omitempty"`
	Refused  bool   `json:"refused,omitempty"` // transition refused: not caught up within the wait
	StepErr  string `json:"err,omitempty"`
	Raced    bool   `json:"raced,omitempty"` // commit2: the second write was made while the push of the first was held in flight
}

func branchName(b int) string {
	if b == 0 {
		return "main"
	}
	if b%2 == 0 {
		return fmt.Sprintf("v%d", b) // even ids sort after "main", odd ids before it
	}
	return fmt.Sprintf("b%d", b)
}

func unS(s string) string { return strings.TrimPrefix(s, "s:") }

func branchID(name string) int {
	name = unS(name)
	if name == "main" {
		return 0
	}
	var k int
	if _, err := fmt.Sscanf(name, "b%d", &k); err == nil {
		return k
	}
	if _, err := fmt.Sscanf(name, "v%d", &k); err == nil {
		return k
	}
	return -1
}

func setGlobal(name string, v interface{}) error {
	return sql.SystemVariables.SetGlobal(sql.NewEmptyContext(), name, v)
}

func remoteHeads(ctx context.Context, url string, ids map[string]int) (Heads, error) {
	var ddb *doltdb.DoltDB
	var err error
	for attempt := 0; attempt < 6; attempt++ {
		ddb, err = doltdb.LoadDoltDBWithParams(ctx, types.Format_DOLT, url, nil, map[string]interface{}{dbfactory.DisableSingletonCacheParam: struct{}{}})
		if err == nil || !strings.Contains(err.Error(), "lock timeout") {
			break
		}
		time.Sleep(time.Duration(200*(attempt+1)) * time.Millisecond) // manifest LOCK held by the pusher: retry
	}
	if err != nil {
		return nil, err
	}
	defer ddb.Close()
	bs, err := ddb.GetBranchesWithHashes(ctx)
	if err != nil {
		return nil, err
	}
	var h Heads
	for _, b := range bs {
		hs := b.Hash.String()
		if cm, cerr := ddb.ResolveCommitRef(ctx, b.Ref); cerr == nil {
			if ch, herr := cm.HashOf(); herr == nil {
				hs = ch.String()
			}
		}
		id, ok := ids[hs]
		if !ok {
			id = 9999 // a commit the primary never made
		}
		h = append(h, [2]int{branchID(b.Ref.GetPath()), id})
	}
	sort.Slice(h, func(i, j int) bool { return h[i][0] < h[j][0] })
	return h, nil
}

func sqlHeads(s *util.Session, ids map[string]int) (Heads, string) {
	r := s.Exec("select name, hash from dolt_branches order by name")
	if r.Err != "" {
		return nil, r.Err
	}
	var h Heads
	for _, row := range r.Rows {
		id, ok := ids[unS(row[1])]
		if !ok {
			id = 9999
		}
		if branchID(row[0]) < 0 {
			return nil, fmt.Sprintf("unexpected branch row %q", row)
		}
		h = append(h, [2]int{branchID(row[0]), id})
	}
	sort.Slice(h, func(i, j int) bool { return h[i][0] < h[j][0] })
	return h, ""
}

// ---------------------------------------------------------------- the cluster commit hook, in-process
// The real cluster.commithook (constructed through the verif export, background threads running) replicates the
// primary repository's noms root to a second, initially empty, file-backed DoltDB that plays the standby's store.
// Ops: start | commit2 (see below) | commit (SQL commit on the primary, then the post-commit callback Execute; when the standby is
// reachable the replication wait returned by Execute is awaited: that is the acknowledgement path) | down | up
// (destDBF fails / works: only meaningful before the first successful connection) | await (block until caught up)
// | transition (what Controller.gracefulTransitionToStandby does with the hook: wait for isCaughtUp, then
// setRole(standby); refused when the wait times out).
func runCluster(c Case) (any, error) {
	ctx := context.Background()
	defer fmt.Fprintln(os.Stdout)
	prim, err := util.NewEnv(true)
	if err != nil {
		return nil, err
	}
	defer prim.Close()
	ps, err := prim.NewSession()
	if err != nil {
		return nil, err
	}
	if err := ps.MustExec("create table t (pk int primary key, v int)", "call dolt_commit('-Am', 'init')"); err != nil {
		return nil, err
	}
	src := prim.DEnv.DoltDB(ctx)
	tmp, err := os.MkdirTemp("", "c45-cl-")
	if err != nil {
		return nil, err
	}
	defer os.RemoveAll(tmp)
	destDir := filepath.Join(tmp, "standby")
	if err := os.MkdirAll(destDir, 0o755); err != nil {
		return nil, err
	}
	var dest *doltdb.DoltDB
	for attempt := 0; attempt < 6; attempt++ {
		dest, err = doltdb.LoadDoltDBWithParams(ctx, types.Format_DOLT, "file://"+destDir, nil, map[string]interface{}{dbfactory.DisableSingletonCacheParam: struct{}{}})
		if err == nil || !strings.Contains(err.Error(), "lock timeout") {
			break
		}
		time.Sleep(time.Duration(200*(attempt+1)) * time.Millisecond)
	}
	if err != nil {
		return nil, err
	}
	defer dest.Close()
	tempDir, err := prim.DEnv.TempTableFilesDir()
	if err != nil {
		return nil, err
	}
	var down atomic.Bool
	destDBF := func(context.Context) (*doltdb.DoltDB, error) {
		if down.Load() {
			return nil, fmt.Errorf("standby unreachable (injected)")
		}
		return dest, nil
	}
	lgr := logrus.New()
	lgr.SetLevel(logrus.PanicLevel)
	// the hook asks for a sql.Context at the beginning of every replication attempt, after it has captured the root to
	// push and released its lock: an armed stall holds the attempt there ("push in flight") until the harness releases it
	var armed atomic.Bool
	stalled := make(chan struct{}, 1)
	releaseCh := make(chan struct{}, 1)
	ctxF := func(ctx context.Context) (*sql.Context, error) {
		if armed.CompareAndSwap(true, false) {
			stalled <- struct{}{}
			select {
			case <-releaseCh:
			case <-ctx.Done():
			case <-time.After(10 * time.Second):
			}
		}
		return prim.Eng.NewLocalContext(ctx)
	}
	hook := cluster.VerifNewCommitHook(lgr, prim.DBName, true, destDBF, src, tempDir, ctxF)
	defer hook.Stop()

	ids := map[string]int{}
	r0, err := src.NomsRoot(ctx)
	if err != nil {
		return nil, err
	}
	ids[r0.String()] = 0
	started, swapped := false, false
	waitCaughtUp := func(d time.Duration) bool {
		deadline := time.Now().Add(d)
		for time.Now().Before(deadline) {
			if _, _, cu, _, _ := hook.State(); cu {
				return true
			}
			time.Sleep(10 * time.Millisecond)
		}
		return false
	}
	var o Obs
	for i, st := range c.Steps {
		var co ClusterO
		switch st.Op {
		case "down":
			down.Store(true)
		case "up":
			down.Store(false)
			if started {
				waitCaughtUp(8 * time.Second) // the hook's own retry (nextPushAttempt, 1 s tick) picks the standby up
			}
		case "start":
			hook.Start()
			started = true
			if !down.Load() {
				waitCaughtUp(8 * time.Second)
			} else {
				time.Sleep(150 * time.Millisecond) // let the first attempt fail
			}
		case "commit":
			if !started {
				return nil, fmt.Errorf("commit before start")
			}
			if err := ps.MustExec(fmt.Sprintf("insert into t values (%d, %d)", 2*(i+1), i), "call dolt_commit('-Am', 'step')"); err != nil {
				co.StepErr = err.Error()
			}
			if rt, err := src.NomsRoot(ctx); err == nil {
				if _, ok := ids[rt.String()]; !ok {
					ids[rt.String()] = 2 * (i + 1)
				}
			}
			wait, err := hook.Execute(ctx, src)
			if err != nil {
				co.StepErr = err.Error()
			}
			if !swapped && !down.Load() {
				// acknowledged write: block on the replication wait, as the engine does with
				// @@dolt_cluster_ack_writes_timeout_secs > 0
				if wait != nil {
					wctx, cancel := context.WithTimeout(ctx, 8*time.Second)
					if werr := wait(wctx); werr != nil {
						co.AckErr = werr.Error()
					}
					cancel()
				}
				waitCaughtUp(8 * time.Second)
			} else {
				time.Sleep(150 * time.Millisecond)
			}
		case "commit2":
			// two writes, the second one landing while the push of the first is in flight (the replication attempt for
			// root A is held after it captured A), and nothing after it: roots 2(i+1) and 2(i+1)+1
			if !started {
				return nil, fmt.Errorf("commit before start")
			}
			race := !swapped && !down.Load()
			if race {
				waitCaughtUp(8 * time.Second)
				armed.Store(true)
			}
			didStall := false
			var wait func(context.Context) error
			for k := 0; k < 2; k++ {
				if err := ps.MustExec(fmt.Sprintf("insert into t values (%d, %d)", 2*(i+1)+k, i), "call dolt_commit('-Am', 'step')"); err != nil {
					co.StepErr = err.Error()
				}
				if rt, err := src.NomsRoot(ctx); err == nil {
					if _, ok := ids[rt.String()]; !ok {
						ids[rt.String()] = 2*(i+1) + k
					}
				}
				w, err := hook.Execute(ctx, src)
				if err != nil {
					co.StepErr = err.Error()
				}
				wait = w
				if k == 0 && race {
					select {
					case <-stalled:
						didStall = true
					case <-time.After(5 * time.Second):
						armed.Store(false)
					}
				}
			}
			co.Raced = didStall
			if didStall {
				releaseCh <- struct{}{}
			}
			if race {
				if wait != nil {
					wctx, cancel := context.WithTimeout(ctx, 8*time.Second)
					if werr := wait(wctx); werr != nil {
						co.AckErr = werr.Error()
					}
					cancel()
				}
				waitCaughtUp(8 * time.Second)
			} else {
				time.Sleep(150 * time.Millisecond)
			}
		case "await":
			waitCaughtUp(8 * time.Second)
		case "transition":
			if waitCaughtUp(1500 * time.Millisecond) {
				hook.SetPrimary(false)
				swapped = true
			} else {
				co.Refused = true
			}
		default:
			return nil, fmt.Errorf("unknown cluster op %q", st.Op)
		}
		pr, err := src.NomsRoot(ctx)
		if err != nil {
			return nil, err
		}
		co.Primary = ids[pr.String()]
		co.Standby = -1
		if err := dest.Rebase(ctx); err == nil {
			if dr, err := dest.NomsRoot(ctx); err == nil && !dr.IsEmpty() {
				id, ok := ids[dr.String()]
				if !ok {
					id = 9999 // a root the primary never had
				}
				co.Standby = id
			}
		}
		_, _, cu, primaryRole, retry := hook.State()
		co.Dirty = !cu
		co.Swapped = !primaryRole
		co.Retry = retry
		if !started { // nothing is observed before the hook runs
			co.Dirty, co.Retry = false, false
		}
		o.Cluster = append(o.Cluster, co)
	}
	return o, nil
}

func Run(raw json.RawMessage) (any, error) {
	var c Case
	if err := json.Unmarshal(raw, &c); err != nil {
		return nil, err
	}
	if c.Mode == "cluster" {
		return runCluster(c)
	}
	ctx := context.Background()
	// push failures are written to the process's stdout without a newline; terminate that text before the kernel
	// flushes this case's JSON line
	defer fmt.Fprintln(os.Stdout)
	// clean global replication state
	setGlobal(dsess.ReplicateToRemote, "")
	setGlobal(dsess.ReadReplicaRemote, "")
	setGlobal(dsess.ReplicateAllHeads, int8(0))
	defer func() {
		setGlobal(dsess.ReplicateToRemote, "")
		setGlobal(dsess.ReadReplicaRemote, "")
		setGlobal(dsess.ReplicateAllHeads, int8(0))
	}()

	tmp, err := os.MkdirTemp("", "c45-")
	if err != nil {
		return nil, err
	}
	defer os.RemoveAll(tmp)
	remoteDir := filepath.Join(tmp, "remote")
	remoteURL := "file://" + remoteDir
	broken := false

	prim, err := util.NewEnv(true)
	if err != nil {
		return nil, err
	}
	defer prim.Close()
	ps, err := prim.NewSession()
	if err != nil {
		return nil, err
	}
	if err := ps.MustExec("create table t (pk int primary key, v int)", "call dolt_commit('-Am', 'init')",
		"call dolt_remote('add', 'origin', '"+remoteURL+"')", "call dolt_push('origin', 'main')"); err != nil {
		return nil, err
	}
	ids := map[string]int{}
	r := ps.Exec("select dolt_hashof('main')")
	if r.Err != "" {
		return nil, fmt.Errorf("hashof: %s", r.Err)
	}
	ids[unS(r.Rows[0][0])] = 0
	if err := setGlobal(dsess.ReplicateToRemote, "origin"); err != nil {
		return nil, err
	}

	// the read replica: a clone of the remote made while @@dolt_read_replica_remote is set
	if err := setGlobal(dsess.ReadReplicaRemote, "origin"); err != nil {
		return nil, err
	}
	if err := setGlobal(dsess.ReplicateAllHeads, int8(1)); err != nil {
		return nil, err
	}
	// replication errors are reported as warnings, not statement failures (what an operator sets to keep serving)
	if err := setGlobal(dsess.SkipReplicationErrors, int8(1)); err != nil {
		return nil, err
	}
	defer setGlobal(dsess.SkipReplicationErrors, int8(0))
	rep, err := util.NewEnv(true)
	if err != nil {
		return nil, err
	}
	defer rep.Close()
	rs0, err := rep.NewSession()
	if err != nil {
		return nil, err
	}
	if err := rs0.MustExec("call dolt_clone('" + remoteURL + "', 'rep')"); err != nil {
		return nil, err
	}

	var o Obs
	created := map[int]bool{0: true}
	tagged := map[int]bool{}
	n := 0
	for i, st := range c.Steps {
		var so StepObs
		switch st.Op {
		case "commit":
			n++
			b := branchName(st.Branch)
			var qs []string
			if !created[st.Branch] {
				qs = append(qs, "call dolt_checkout('main')", "call dolt_checkout('-b', '"+b+"')")
				created[st.Branch] = true
			} else if tagged[st.Branch] {
				// dolt_checkout('<name>') resolves a name that is both a branch and a tag to the tag ("detached head"
				// error): work on the branch through its revision database instead
				qs = append(qs, "call dolt_checkout('main')", "use `"+prim.DBName+"/"+b+"`")
			} else {
				qs = append(qs, "call dolt_checkout('"+b+"')")
			}
			qs = append(qs, fmt.Sprintf("insert into t values (%d, %d)", 1000*st.Branch+i+1, i), "call dolt_commit('-Am', 'step')")
			if created[st.Branch] && tagged[st.Branch] {
				qs = append(qs, "use `"+prim.DBName+"`")
			}
			ps.Ctx.ClearWarnings()
			if err := ps.MustExec(qs...); err != nil {
				so.Err = err.Error()
			}
			so.Warn = len(ps.Ctx.Warnings()) > 0
			hr := ps.Exec("select hash from dolt_branches where name = '" + b + "'") // (a tag of the same name may exist)
			if hr.Err == "" && len(hr.Rows) == 1 {
				if _, ok := ids[unS(hr.Rows[0][0])]; !ok {
					ids[unS(hr.Rows[0][0])] = i + 1
				}
			}
		case "tag":
			// a tag named like a branch (b1, v2) or sorting between branch names (b15); push-on-write sends
			// refs/tags/<name> to the remote, the replica fetches it with @@dolt_replicate_all_heads
			if !tagged[st.Branch] && st.Branch != 0 {
				tagged[st.Branch] = true
				if err := ps.MustExec("call dolt_checkout('main')", "call dolt_tag('"+branchName(st.Branch)+"', 'main')"); err != nil {
					so.Err = err.Error()
				}
			}
		case "delbranch":
			// delete the branch on the primary: the push-on-write hook deletes refs/heads/<name> on the remote
			if created[st.Branch] && st.Branch != 0 {
				created[st.Branch] = false
				if err := ps.MustExec("call dolt_checkout('main')", "call dolt_branch('-D', '"+branchName(st.Branch)+"')"); err != nil {
					so.Err = err.Error()
				}
			}
		case "break":
			// make the remote unreachable: the directory is moved away and a regular file takes its place
			if !broken {
				if err := os.Rename(remoteDir, remoteDir+".off"); err != nil {
					return nil, err
				}
				if err := os.WriteFile(remoteDir, []byte("not a directory"), 0o644); err != nil {
					return nil, err
				}
				broken = true
			}
		case "fix":
			if broken {
				os.Remove(remoteDir)
				if err := os.Rename(remoteDir+".off", remoteDir); err != nil {
					return nil, err
				}
				broken = false
			}
		case "pull":
			// a new session on the replica database: its first transaction pulls
		default:
			return nil, fmt.Errorf("unknown op %q", st.Op)
		}
		inspectURL := remoteURL
		if broken {
			inspectURL = remoteURL + ".off"
		}
		rh, err := remoteHeads(ctx, inspectURL, ids)
		if err != nil {
			return nil, err
		}
		so.Remote = rh
		{
			// reading the replica's heads WITHOUT triggering a pull is not possible through SQL; the replica is
			// observed only on pull steps, other steps repeat its last observed heads (the model does the same:
			// its replica changes on pulls only)
		}
		if st.Op == "pull" {
			rs, err := rep.NewSession()
			if err != nil {
				return nil, err
			}
			if err := rs.MustExec("use rep"); err != nil {
				so.Err = err.Error()
			}
			h, e := sqlHeads(rs, ids)
			if e != "" {
				so.Err = e
			}
			so.Replica = h
		} else if len(o.Steps) > 0 {
			so.Replica = o.Steps[len(o.Steps)-1].Replica
		} else {
			so.Replica = Heads{{0, 0}}
		}
		o.Steps = append(o.Steps, so)
	}
	return o, nil
}
