package c42

// GitBlobstore as a third backend of the CAS correspondence (property C42): two
// GitBlobstore clients (each with its own local bare repository) share one bare
// remote in a /tmp directory (file-path remote, no network).  Operations are executed
// sequentially at API granularity, except "race": the acting client's
// CheckAndPutManifest is interrupted right before its first push (between its
// fetch/validate and its push-with-lease) by a complete CheckAndPutManifest of the
// other client — the interleaving in which a lease retry must re-validate the
// expected version.

import (
	"context"
	"encoding/json"
	"fmt"
	"os"
	"os/exec"
	"path/filepath"

	"github.com/dolthub/dolt/go/store/blobstore"
)

type GOp struct {
	C     int    `json:"c"`
	Op    string `json:"op"` // get | cap | race
	Off   int64  `json:"off"`
	Len   int64  `json:"len"`
	Exp   string `json:"exp"` // cur | empty | bogus | ref
	Ref   int    `json:"ref"`
	Data  []int  `json:"data"`
	FExp  string `json:"fexp"` // race: the foreign client's expectation (cur | bogus)
	FData []int  `json:"fdata"`
}

type GCase struct {
	Ops []GOp `json:"ops"`
}

type GRes struct {
	Res     Res  `json:"res"`
	Foreign *Res `json:"foreign,omitempty"` // race: the foreign client's result (it completes first)
	Pushes  int  `json:"pushes"`            // race: push attempts of the acting client
}

type GitObs struct {
	Steps []GRes `json:"steps"`
}

func gitRun(dir string, args ...string) error {
	cmd := exec.Command("git", args...)
	cmd.Dir = dir
	cmd.Env = append(os.Environ(), "GIT_CONFIG_NOSYSTEM=1", "GIT_TERMINAL_PROMPT=0")
	out, err := cmd.CombinedOutput()
	if err != nil {
		return fmt.Errorf("git %v: %v: %s", args, err, string(out))
	}
	return nil
}

func runGit(raw json.RawMessage) (any, error) {
	var c GCase
	if err := json.Unmarshal(raw, &c); err != nil {
		return nil, err
	}
	if _, err := exec.LookPath("git"); err != nil {
		return nil, fmt.Errorf("git binary not available: %v", err)
	}
	ctx := context.Background()
	root, err := os.MkdirTemp("/tmp", "c42-git-*")
	if err != nil {
		return nil, err
	}
	defer os.RemoveAll(root)
	remote := filepath.Join(root, "remote.git")
	if err := gitRun(root, "init", "--bare", "-q", remote); err != nil {
		return nil, err
	}
	clients := make([]*blobstore.GitBlobstore, 2)
	hooks := make([]func(int), 2)
	for i := range clients {
		dir := filepath.Join(root, fmt.Sprintf("client%d.git", i))
		if err := gitRun(root, "init", "--bare", "-q", dir); err != nil {
			return nil, err
		}
		if err := gitRun(root, "--git-dir="+dir, "remote", "add", "origin", remote); err != nil {
			return nil, err
		}
		i := i
		bs, err := blobstore.VerifC42NewGitBlobstore(dir, blobstore.DoltDataRef, func(n int) {
			if h := hooks[i]; h != nil {
				h(n)
			}
		})
		if err != nil {
			return nil, err
		}
		clients[i] = bs
	}
	defer func() {
		for _, bs := range clients {
			_ = bs.Teardown(ctx)
			_ = bs.Close()
		}
	}()

	steps := make([]GRes, len(c.Ops))
	resolve := func(bs blobstore.Blobstore, exp string, ref int) string {
		switch exp {
		case "cur":
			return currentManifestVersion(ctx, bs)
		case "bogus":
			return "0000000000000000000000000000000000000bad"
		case "ref":
			if ref >= 0 && ref < len(steps) && steps[ref].Res.R == "ver" {
				return steps[ref].Res.verS
			}
		}
		return ""
	}
	for i, o := range c.Ops {
		bs := clients[o.C%2]
		switch o.Op {
		case "get":
			steps[i].Res = doGet(ctx, bs, Op{Op: "get", K: 0, Off: o.Off, Len: o.Len})
		case "cap":
			exp := resolve(bs, o.Exp, o.Ref)
			steps[i].Res = doWrite(ctx, bs, Op{Op: "cap", Data: o.Data}, exp)
		case "race":
			other := clients[(o.C+1)%2]
			exp := resolve(bs, o.Exp, o.Ref)
			pushes := 0
			var fres *Res
			blobstore.VerifC42ResetPushCount(bs)
			hooks[o.C%2] = func(n int) {
				pushes = n
				if n == 1 {
					fexp := resolve(other, o.FExp, -1)
					r := doWrite(ctx, other, Op{Op: "cap", Data: o.FData}, fexp)
					fres = &r
				}
			}
			steps[i].Res = doWrite(ctx, bs, Op{Op: "cap", Data: o.Data}, exp)
			hooks[o.C%2] = nil
			steps[i].Foreign = fres
			steps[i].Pushes = pushes
		default:
			return nil, fmt.Errorf("unknown git op %q", o.Op)
		}
	}

	ids := map[string]int{"": 0}
	intern := func(r *Res) {
		for _, s := range []string{r.expS, r.verS} {
			if _, ok := ids[s]; !ok {
				ids[s] = len(ids)
			}
		}
		r.Exp = ids[r.expS]
		if r.hasVer {
			r.Ver = ids[r.verS]
		}
	}
	for i := range steps {
		if steps[i].Foreign != nil {
			intern(steps[i].Foreign)
		}
		intern(&steps[i].Res)
	}
	return GitObs{Steps: steps}, nil
}
