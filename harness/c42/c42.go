// Package c42: blobstore conditional put (CAS), ranged reads, concatenation (property C42).
//
// One case = a fresh blobstore (in-memory, or local under a temp dir in /tmp that is
// removed afterwards), a sequential prefix of operations, a group of operations
// executed by concurrent goroutines (released together), and a sequential suffix.
// The observation is, per operation, the canonical result; version strings
// (uuid / mtime) are mapped to small integers by first occurrence ("" = 0).
package c42

import (
	"context"
	"encoding/json"
	"fmt"
	"io"
	"os"
	"strings"
	"sync"

	"github.com/dolthub/dolt/go/store/blobstore"

	"verifharness/hk"
)

func init() { hk.Register("c42", Run) }

// Run dispatches on the case kind and retries a case (up to 5 times) when the only thing that went wrong is
// lock acquisition under load (fslock / flock timeouts), which is not an observation of the property.
func Run(raw json.RawMessage) (any, error) {
	var k struct {
		Kind string `json:"kind"`
	}
	_ = json.Unmarshal(raw, &k)
	var obs any
	var err error
	for try := 0; try < 5; try++ {
		if k.Kind == "nbs" {
			obs, err = runNbs(raw)
		} else if k.Kind == "git" {
			obs, err = runGit(raw)
		} else if k.Kind == "stress" {
			obs, err = runStress(raw)
		} else {
			obs, err = runBlob(raw)
		}
		if !lockTrouble(obs, err) {
			break
		}
	}
	return obs, err
}

func isLockMsg(m string) bool {
	m = strings.ToLower(m)
	return strings.Contains(m, "could not acquire lock") || strings.Contains(m, "lock timeout exceeded") ||
		strings.Contains(m, "flock") || strings.Contains(m, "resource temporarily unavailable")
}

func lockTrouble(obs any, err error) bool {
	if err != nil {
		return isLockMsg(err.Error())
	}
	switch o := obs.(type) {
	case Obs:
		for _, l := range [][]Res{o.Pre, o.Conc, o.Post} {
			for _, r := range l {
				if r.R == "err" && isLockMsg(r.Msg) {
					return true
				}
			}
		}
	case NbsObs:
		for _, l := range [][]NStep{o.BsInmem, o.BsLocal, o.Local} {
			for _, r := range l {
				if r.Res == 3 && isLockMsg(r.Err) {
					return true
				}
			}
		}
	}
	return false
}

type Op struct {
	Op   string `json:"op"` // get | put | cap | cat
	K    int    `json:"k"`
	Off  int64  `json:"off"`
	Len  int64  `json:"len"`
	Data []int  `json:"data"`
	Exp  string `json:"exp"` // cap: cur | empty | bogus | ref
	Ref  int    `json:"ref"` // cap with exp=ref: flat index (pre++conc++post) of an earlier op whose returned version is used
	Srcs []int  `json:"srcs"`
}

type Case struct {
	Backend string `json:"backend"` // inmem | local
	Pre     []Op   `json:"pre"`
	Conc    []Op   `json:"conc"`
	Post    []Op   `json:"post"`
}

type Res struct {
	R      string `json:"r"` // bytes | notfound | ver | casfail | err | panic
	Data   []int  `json:"data"`
	Size   uint64 `json:"size"`
	Ver    int    `json:"ver"`    // bytes / ver: version; casfail: actual version
	Exp    int    `json:"exp"`    // cap: the resolved expected version
	Msg    string `json:"msg,omitempty"`
	verS   string // raw version strings, interned at the end
	expS   string
	hasVer bool
}

type Obs struct {
	Pre  []Res `json:"pre"`
	Conc []Res `json:"conc"`
	Post []Res `json:"post"`
}

func keyName(k int) string {
	if k == 0 {
		return blobstore.ManifestKey
	}
	return fmt.Sprintf("k%d", k)
}

func toBytes(b []int) []byte {
	out := make([]byte, len(b))
	for i, x := range b {
		out[i] = byte(x)
	}
	return out
}

func fromBytes(b []byte) []int {
	out := make([]int, len(b))
	for i, x := range b {
		out[i] = int(x)
	}
	return out
}

func doGet(ctx context.Context, bs blobstore.Blobstore, o Op) (r Res) {
	defer func() {
		if p := recover(); p != nil {
			r = Res{R: "panic", Msg: fmt.Sprint(p), Data: []int{}}
		}
	}()
	br := blobstore.NewBlobRange(o.Off, o.Len)
	rc, size, ver, err := bs.Get(ctx, keyName(o.K), br)
	if err != nil {
		if blobstore.IsNotFoundError(err) {
			return Res{R: "notfound", Data: []int{}}
		}
		return Res{R: "err", Msg: err.Error(), Data: []int{}}
	}
	defer rc.Close()
	data, err := io.ReadAll(rc)
	if err != nil {
		return Res{R: "err", Msg: "read: " + err.Error(), Data: []int{}}
	}
	return Res{R: "bytes", Data: fromBytes(data), Size: size, verS: ver, hasVer: true}
}

func currentManifestVersion(ctx context.Context, bs blobstore.Blobstore) string {
	_, ver, err := blobstore.GetBytes(ctx, bs, blobstore.ManifestKey, blobstore.AllRange)
	if err != nil {
		return ""
	}
	return ver
}

func doWrite(ctx context.Context, bs blobstore.Blobstore, o Op, exp string) (r Res) {
	defer func() {
		if p := recover(); p != nil {
			r = Res{R: "panic", Msg: fmt.Sprint(p), Data: []int{}, expS: exp}
		}
	}()
	var ver string
	var err error
	switch o.Op {
	case "put":
		ver, err = blobstore.PutBytes(ctx, bs, keyName(o.K), toBytes(o.Data))
	case "cap":
		ver, err = bs.CheckAndPutManifest(ctx, exp, toBytes(o.Data))
		if err != nil {
			if ce, ok := err.(blobstore.CheckAndPutError); ok {
				return Res{R: "casfail", Data: []int{}, verS: ce.ActualVersion, hasVer: true, expS: exp}
			}
		}
	case "cat":
		srcs := make([]string, len(o.Srcs))
		for i, s := range o.Srcs {
			srcs[i] = keyName(s)
		}
		ver, err = bs.Concatenate(ctx, keyName(o.K), srcs)
	default:
		return Res{R: "err", Msg: "unknown op " + o.Op, Data: []int{}}
	}
	if err != nil {
		return Res{R: "err", Msg: err.Error(), Data: []int{}, expS: exp}
	}
	return Res{R: "ver", Data: []int{}, verS: ver, hasVer: true, expS: exp}
}

func runBlob(raw json.RawMessage) (any, error) {
	var c Case
	if err := json.Unmarshal(raw, &c); err != nil {
		return nil, err
	}
	ctx := context.Background()
	var bs blobstore.Blobstore
	switch c.Backend {
	case "inmem":
		bs = blobstore.NewInMemoryBlobstore("c42")
	case "local":
		dir, err := os.MkdirTemp("/tmp", "c42-local-*")
		if err != nil {
			return nil, err
		}
		defer os.RemoveAll(dir)
		bs = blobstore.NewLocalBlobstore(dir)
	default:
		return nil, fmt.Errorf("unknown backend %q", c.Backend)
	}

	flat := []*Res{} // results in flat order, for exp=ref
	resolve := func(o Op, cur func() string) string {
		switch o.Exp {
		case "cur":
			return cur()
		case "empty":
			return ""
		case "bogus":
			return "bogus-version"
		case "ref":
			if o.Ref >= 0 && o.Ref < len(flat) && flat[o.Ref].R == "ver" {
				return flat[o.Ref].verS
			}
			return ""
		}
		return ""
	}
	runSeq := func(ops []Op) []Res {
		out := make([]Res, len(ops))
		for i, o := range ops {
			if o.Op == "get" {
				out[i] = doGet(ctx, bs, o)
			} else {
				exp := ""
				if o.Op == "cap" {
					exp = resolve(o, func() string { return currentManifestVersion(ctx, bs) })
				}
				out[i] = doWrite(ctx, bs, o, exp)
			}
			flat = append(flat, &out[i])
		}
		return out
	}

	var obs Obs
	obs.Pre = runSeq(c.Pre)

	// concurrent group: expected versions are resolved once, before the goroutines start
	obs.Conc = make([]Res, len(c.Conc))
	if len(c.Conc) > 0 {
		cur := currentManifestVersion(ctx, bs)
		exps := make([]string, len(c.Conc))
		for i, o := range c.Conc {
			if o.Op == "cap" {
				exps[i] = resolve(o, func() string { return cur })
			}
		}
		start := make(chan struct{})
		var wg sync.WaitGroup
		for i := range c.Conc {
			wg.Add(1)
			go func(i int) {
				defer wg.Done()
				<-start
				o := c.Conc[i]
				if o.Op == "get" {
					obs.Conc[i] = doGet(ctx, bs, o)
				} else {
					obs.Conc[i] = doWrite(ctx, bs, o, exps[i])
				}
			}(i)
		}
		close(start)
		wg.Wait()
		for i := range obs.Conc {
			flat = append(flat, &obs.Conc[i])
		}
	}
	obs.Post = runSeq(c.Post)

	// intern version strings by first occurrence in flat order ("" = 0)
	ids := map[string]int{"": 0}
	intern := func(s string) int {
		if v, ok := ids[s]; ok {
			return v
		}
		ids[s] = len(ids)
		return ids[s]
	}
	for _, r := range flat {
		r.Exp = intern(r.expS)
		if r.hasVer {
			r.Ver = intern(r.verS)
		}
	}
	_ = bs.Teardown(ctx)
	return obs, nil
}
