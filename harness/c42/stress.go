package c42

// Bounded stress for "Get returns the (version, contents) of ONE store state"
// (property C42): one writer performs |updates| CheckAndPutManifest calls whose
// contents are a counter, each expecting the version its previous call returned,
// while |readers| goroutines spin on Get(manifest).  The observation is the
// writer's (version, contents) list and the distinct (version, contents) pairs the
// readers saw.

import (
	"context"
	"encoding/json"
	"fmt"
	"os"
	"sync"
	"sync/atomic"

	"github.com/dolthub/dolt/go/store/blobstore"
)

type SCase struct {
	Backend string `json:"backend"`
	Updates int    `json:"updates"`
	Readers int    `json:"readers"`
}

type SPair struct {
	Ver  int   `json:"ver"`
	Data []int `json:"data"`
}

type StressObs struct {
	Writer  []Res   `json:"writer"`  // result of every CheckAndPutManifest (exp = resolved expectation)
	Seen    []SPair `json:"seen"`    // distinct pairs observed by the readers
	Reads   int64   `json:"reads"`   // total number of reads
	ReadErr string  `json:"readerr"` // first unexpected reader error, if any
}

func counterBytes(i int) []byte { return []byte{byte(i >> 8), byte(i & 0xff)} }

func runStress(raw json.RawMessage) (any, error) {
	var c SCase
	if err := json.Unmarshal(raw, &c); err != nil {
		return nil, err
	}
	ctx := context.Background()
	var bs blobstore.Blobstore
	switch c.Backend {
	case "inmem":
		bs = blobstore.NewInMemoryBlobstore("c42-stress")
	case "local":
		dir, err := os.MkdirTemp("/tmp", "c42-stress-*")
		if err != nil {
			return nil, err
		}
		defer os.RemoveAll(dir)
		bs = blobstore.NewLocalBlobstore(dir)
	default:
		return nil, fmt.Errorf("unknown backend %q", c.Backend)
	}

	type rawPair struct{ ver, data string }
	var stop atomic.Bool
	var reads atomic.Int64
	var wg sync.WaitGroup
	seen := make([]map[rawPair]struct{}, c.Readers)
	errs := make([]string, c.Readers)
	for r := 0; r < c.Readers; r++ {
		seen[r] = map[rawPair]struct{}{}
		wg.Add(1)
		go func(r int) {
			defer wg.Done()
			for !stop.Load() {
				data, ver, err := blobstore.GetBytes(ctx, bs, blobstore.ManifestKey, blobstore.AllRange)
				reads.Add(1)
				if err != nil {
					if !blobstore.IsNotFoundError(err) && errs[r] == "" {
						errs[r] = err.Error()
					}
					continue
				}
				seen[r][rawPair{ver, string(data)}] = struct{}{}
			}
		}(r)
	}

	var o StressObs
	o.Writer = make([]Res, c.Updates)
	prev := ""
	for i := 0; i < c.Updates; i++ {
		o.Writer[i] = doWrite(ctx, bs, Op{Op: "cap", Data: fromBytes(counterBytes(i))}, prev)
		if o.Writer[i].R == "ver" {
			prev = o.Writer[i].verS
		}
	}
	stop.Store(true)
	wg.Wait()

	ids := map[string]int{"": 0}
	intern := func(s string) int {
		if v, ok := ids[s]; ok {
			return v
		}
		ids[s] = len(ids)
		return ids[s]
	}
	for i := range o.Writer {
		o.Writer[i].Exp = intern(o.Writer[i].expS)
		if o.Writer[i].hasVer {
			o.Writer[i].Ver = intern(o.Writer[i].verS)
		}
	}
	all := map[rawPair]struct{}{}
	for r := range seen {
		for p := range seen[r] {
			all[p] = struct{}{}
		}
		if errs[r] != "" && o.ReadErr == "" {
			o.ReadErr = errs[r]
		}
	}
	o.Seen = []SPair{}
	for p := range all {
		o.Seen = append(o.Seen, SPair{Ver: intern(p.ver), Data: fromBytes([]byte(p.data))})
	}
	sortPairs(o.Seen)
	o.Reads = reads.Load()
	return o, nil
}

func sortPairs(ps []SPair) {
	less := func(a, b SPair) bool {
		if a.Ver != b.Ver {
			return a.Ver < b.Ver
		}
		for i := 0; i < len(a.Data) && i < len(b.Data); i++ {
			if a.Data[i] != b.Data[i] {
				return a.Data[i] < b.Data[i]
			}
		}
		return len(a.Data) < len(b.Data)
	}
	for i := 1; i < len(ps); i++ {
		for j := i; j > 0 && less(ps[j], ps[j-1]); j-- {
			ps[j], ps[j-1] = ps[j-1], ps[j]
		}
	}
}
