package c42

// NBS on a blobstore (property C42, "a database stored on a blobstore offers the same
// root and chunk semantics as a local one"): the same Put / Rebase / Commit history of
// 1-2 clients is executed, at API granularity, on
//   - a NomsBlockStore over an InMemoryBlobstore (nbs.NewBSStore),
//   - a NomsBlockStore over a LocalBlobstore in a /tmp dir (nbs.NewNoConjoinBSStore),
//   - a local directory store (nbs.NewLocalStore, file manifest),
// and after every step the harness records the result, the caller's Root(), the
// persisted manifest's root (parsed from the manifest blob / file) and what a fresh
// open sees (Root, Has of every chunk of the universe).

import (
	"bytes"
	"context"
	"encoding/json"
	"errors"
	"fmt"
	"os"
	"path/filepath"
	"sync/atomic"

	"github.com/dolthub/dolt/go/store/blobstore"
	"github.com/dolthub/dolt/go/store/chunks"
	"github.com/dolthub/dolt/go/store/constants"
	"github.com/dolthub/dolt/go/store/hash"
	"github.com/dolthub/dolt/go/store/nbs"
)

type NOp struct {
	C    int    `json:"c"`
	Op   string `json:"op"`   // put | rebase | commit
	X    int    `json:"x"`    // put: chunk id
	Cur  int    `json:"cur"`  // commit: chunk id, 0 = empty hash
	Last int    `json:"last"` // commit: chunk id, 0 = empty hash, -1 = caller's Root()
}

type NCase struct {
	N    int   `json:"n"`
	Univ []int `json:"univ"`
	Ops  []NOp `json:"ops"`
}

type NStep struct {
	Res   int    `json:"res"` // 0 ok/true, 1 false, 2 dangling ref, 3 other error
	Err   string `json:"err,omitempty"`
	CRoot int    `json:"croot"`
	DRoot int    `json:"droot"`
	FRoot int    `json:"froot"`
	FHas  []int  `json:"fhas"`
}

type NbsObs struct {
	BsInmem []NStep `json:"bsinmem"`
	BsLocal []NStep `json:"bslocal"`
	Local   []NStep `json:"local"`
}

const nUnknown = 999999
const nbsMemTable = 1 << 20

var nbsSeq int64

func nChunk(id int) chunks.Chunk { return chunks.NewChunk([]byte(fmt.Sprintf("c42chunk-%04d", id))) }

func nNoAddrs(chunks.Chunk) chunks.InsertAddrsCb {
	return func(context.Context, hash.HashSet, chunks.PendingRefExists) error { return nil }
}

type nbsBackend struct {
	open     func() (*nbs.NomsBlockStore, error)
	manifest func() ([]byte, bool, error) // raw persisted manifest
}

func runHistory(ctx context.Context, c NCase, be nbsBackend) ([]NStep, error) {
	idOf := map[hash.Hash]int{{}: 0}
	for _, id := range c.Univ {
		idOf[nChunk(id).Hash()] = id
	}
	rootID := func(h hash.Hash) int {
		if id, ok := idOf[h]; ok {
			return id
		}
		return nUnknown
	}
	hashOf := func(id int) hash.Hash {
		if id == 0 {
			return hash.Hash{}
		}
		return nChunk(id).Hash()
	}
	clients := make([]*nbs.NomsBlockStore, c.N)
	for i := range clients {
		st, err := be.open()
		if err != nil {
			return nil, err
		}
		clients[i] = st
		defer st.Close()
	}
	steps := []NStep{}
	for _, op := range c.Ops {
		st := clients[op.C]
		s := NStep{FHas: []int{}}
		switch op.Op {
		case "put":
			if err := st.Put(ctx, nChunk(op.X), nNoAddrs); err != nil {
				s.Res, s.Err = 3, err.Error()
			}
		case "rebase":
			if err := st.Rebase(ctx); err != nil {
				s.Res, s.Err = 3, err.Error()
			}
		case "commit":
			self, err := st.Root(ctx)
			if err != nil {
				return nil, err
			}
			last := self
			if op.Last >= 0 {
				last = hashOf(op.Last)
			}
			ok, err := st.Commit(ctx, hashOf(op.Cur), last)
			switch {
			case err != nil && errors.Is(err, nbs.ErrDanglingRef):
				s.Res, s.Err = 2, err.Error()
			case err != nil:
				s.Res, s.Err = 3, err.Error()
			case !ok:
				s.Res = 1
			}
		default:
			return nil, fmt.Errorf("unknown nbs op %q", op.Op)
		}
		r, err := st.Root(ctx)
		if err != nil {
			return nil, err
		}
		s.CRoot = rootID(r)
		raw, ok, err := be.manifest()
		if err != nil {
			return nil, err
		}
		if ok {
			mi, perr := nbs.ParseManifest(bytes.NewReader(raw))
			if perr != nil {
				return nil, perr
			}
			s.DRoot = rootID(mi.GetRoot())
		}
		fr, err := be.open()
		if err != nil {
			s.FRoot = nUnknown
			s.Err += " fresh-open: " + err.Error()
		} else {
			h, err := fr.Root(ctx)
			if err != nil {
				fr.Close()
				return nil, err
			}
			s.FRoot = rootID(h)
			for _, id := range c.Univ {
				has, err := fr.Has(ctx, nChunk(id).Hash())
				if err != nil {
					fr.Close()
					return nil, err
				}
				if has {
					s.FHas = append(s.FHas, id)
				}
			}
			if err := fr.Close(); err != nil {
				return nil, err
			}
		}
		steps = append(steps, s)
	}
	return steps, nil
}

func bsManifest(ctx context.Context, bs blobstore.Blobstore) func() ([]byte, bool, error) {
	return func() ([]byte, bool, error) {
		data, _, err := blobstore.GetBytes(ctx, bs, blobstore.ManifestKey, blobstore.AllRange)
		if err != nil {
			if blobstore.IsNotFoundError(err) {
				return nil, false, nil
			}
			return nil, false, err
		}
		return data, true, nil
	}
}

func runNbs(raw json.RawMessage) (any, error) {
	var c NCase
	if err := json.Unmarshal(raw, &c); err != nil {
		return nil, err
	}
	ctx := context.Background()
	q := nbs.NewUnlimitedMemQuotaProvider()
	var o NbsObs
	var err error

	// the manifest cache of nbs is keyed by the manifest's name (= blobstore path): unique per case
	mem := blobstore.NewInMemoryBlobstore(fmt.Sprintf("c42-nbs-inmem-%d-%d", os.Getpid(), atomic.AddInt64(&nbsSeq, 1)))
	o.BsInmem, err = runHistory(ctx, c, nbsBackend{
		open: func() (*nbs.NomsBlockStore, error) {
			return nbs.NewBSStore(ctx, constants.FormatDefaultString, mem, nbsMemTable, q)
		},
		manifest: bsManifest(ctx, mem),
	})
	if err != nil {
		return nil, fmt.Errorf("bsinmem: %w", err)
	}

	bdir, err := os.MkdirTemp("/tmp", "c42-nbs-bs-*")
	if err != nil {
		return nil, err
	}
	defer os.RemoveAll(bdir)
	o.BsLocal, err = runHistory(ctx, c, nbsBackend{
		open: func() (*nbs.NomsBlockStore, error) {
			return nbs.NewNoConjoinBSStore(ctx, constants.FormatDefaultString, blobstore.NewLocalBlobstore(bdir), nbsMemTable, q)
		},
		manifest: bsManifest(ctx, blobstore.NewLocalBlobstore(bdir)),
	})
	if err != nil {
		return nil, fmt.Errorf("bslocal: %w", err)
	}

	ldir, err := os.MkdirTemp("/tmp", "c42-nbs-local-*")
	if err != nil {
		return nil, err
	}
	defer os.RemoveAll(ldir)
	o.Local, err = runHistory(ctx, c, nbsBackend{
		open: func() (*nbs.NomsBlockStore, error) {
			return nbs.NewLocalStore(ctx, constants.FormatDefaultString, ldir, nbsMemTable, q, false)
		},
		manifest: func() ([]byte, bool, error) {
			data, err := os.ReadFile(filepath.Join(ldir, "manifest"))
			if err != nil {
				if os.IsNotExist(err) {
					return nil, false, nil
				}
				return nil, false, err
			}
			return data, true, nil
		},
	})
	if err != nil {
		return nil, fmt.Errorf("local: %w", err)
	}
	return o, nil
}
