"""C11 — Prolly maps behave as sorted dictionaries."""
from lib import vlib
from lib.vlib import cq_bool, cq_list

ID = "C11"
HARNESS_PKG = "c11"
HARNESS_RUNNER = "c11"
COQ_TARGETS = ["theories/C11/Corr.vo"]
COQ_CORR_MODULE = "Prolly.Tree Prolly.Cursor C11.Model C11.Spec C11.Corr"
COQ_CASE_TYPE = "C11.Corr.case"
COQ_CHECK = "C11.Corr.check_case"
COQ_MODEL_OBS = "(fun c => C11.Corr.model_obs (fst c))"
COQ_SHARD = 30
DESIGN_REF = "§5 C11"
TECHNIQUE = ("Coq proof: every read API of the static map, written as the search/descend recursion of node_cursor.go over a tree of arbitrary "
             "well-formed shape, equals the sorted-dictionary function of flatten(t); mutable map = edit log + checkpoint + stash state machine refined "
             "to (current, checkpoint) dictionaries; in-Coq correspondence on the real tree shape dumped from the implementation")
LEVEL_TEXT = ("Proof (F/M): (1) for every well-formed tree of any depth and fan-out, Get/Has/GetPrefix/HasPrefix/IterAll/IterAllReverse/IterKeyRange/"
              "IterOrdinalRange/FetchOrdinalRange/GetOrdinalForKey/GetKeyRangeCardinality/Count/LastKey of the model equal the dictionary functions of "
              "the flattened contents, and the executable oracle accepts the model's observation on every static case (static_oracle_holds). "
              "(2) mutable_refines: for every rebuild function and every Put/Delete/Checkpoint/Revert/flush(deep or not, automatic or explicit) "
              "sequence satisfying the decidable side condition hist_ok (no Revert across a flush since the governing checkpoint), Get/Has/IterAll/"
              "IterRange/Map() of the mutable map equal the reads of the dictionary obtained by applying the operations; GetPrefix/HasPrefix under "
              "'no pending edit has that prefix', IterKeyRange under 'no pending edit'. The excluded configurations are refuted by five "
              "machine-checked witnesses that reproduce on the real code (IterKeyRange ignores pending edits; GetPrefix/HasPrefix shadowed by a "
              "pending edit; Revert after a flush loses a checkpoint taken on an empty buffer; a second Revert after a stashed checkpoint keeps later "
              "writes; StaticMap.IterKeyRange(start above every key, nil) runs off the last leaf).")
LEVEL_NOTE = ("Trusted: Coq kernel, Go harness + Python glue. The static API functions are defined by structural recursion on the tree (binary search per "
              "level, keepInBounds, cached subtree counts); the cursor advance/compare loop of OrderedTreeIter is represented by the ordinal window it "
              "visits. hist_ok is sufficient, not necessary: the history 'checkpoint on a non-empty buffer, flush, one Revert', which the stash handles "
              "correctly, is outside the proved set and rests on the correspondence. Modelled, not verified: tuple comparator (order on N), "
              "chunker/ApplyMutations (any tree with the right contents: rb_ok; shape fed from the implementation), node store, skip-list towers "
              "(the list is its node array + checkpoint index).")
THEOREMS = ["search_spec", "get_spec", "has_spec", "get_prefix_spec", "has_prefix_spec", "iter_all_spec", "iter_all_reverse_spec",
            "iter_key_range_spec", "iter_window_spec", "key_range_cardinality_spec", "ordinal_for_key_spec", "iter_ordinal_range_spec", "count_spec",
            "last_key_spec", "static_oracle_holds", "mutable_refines", "mutable_get_refines_partial"]
REFUTED = ["iter_key_range_open_stop_refuted", "iter_key_range_refuted", "get_prefix_refuted", "revert_empty_checkpoint_refuted", "second_revert_refuted"]
RULE = ("maps of 0..600 entries over (uint32,uint32,pad) keys with pad widths chosen so that trees have 1..4 levels; probes = present, absent, "
        "below-min, above-max keys, every bound combination incl. unbounded/empty/inverted, ordinal ranges incl. the error cases; mutable cases = "
        "random put/delete/checkpoint/revert/flush sequences with maxPending in {1,2,7,64,default}, reads at random points; non-trivial = at least "
        "one entry or one op; distinct by full case content")
ASSUMPTIONS = ["keys and values are drawn from fixed-width integer tuples (the tuple comparator is abstracted as an order)",
               "IterRange is probed with ranges on the first key column only"]
REQUIRED_TAGS = ["height-1", "height-2", "height-3+", "empty-map", "mutable", "auto-flush", "stash", "revert", "pending-at-read",
                 "inverted-range", "ordinal-error", "absent-probe"]

W = 16
K1 = "MutableMap.IterKeyRange:ignores-unflushed-edits"
K2 = "MutableMap.GetPrefix:pending-edit-shadows-prefix-matches"
K3 = "MutableMap.Revert:checkpoint-on-empty-buffer-lost-by-flush"
K4 = "MutableMap.Revert:second-revert-after-stash-keeps-later-writes"
K5 = "StaticMap.IterKeyRange:start-past-last-key-open-stop-reads-past-leaf"


# ---------------------------------------------------------------- generator
def gen_init(rng, n, amax):
    space = amax * W
    n = min(n, space)
    ks = sorted(rng.sample(range(space), n))
    return [[k, rng.randrange(1000)] for k in ks]


def gen_probes(rng, init, mutable):
    ks = [k for k, _ in init]
    q = []
    if ks:
        q += [ks[0], ks[-1], max(0, ks[0] - 1), ks[-1] + 1, ks[len(ks) // 2]]
        q += [rng.choice(ks) for _ in range(3)]
        q += [rng.randrange(ks[-1] + 20) for _ in range(4)]
    else:
        q += [0, 5, 17]
    pre = sorted(set([k // W for k in q] + [0, (ks[-1] // W + 1) if ks else 1]))[:8]
    hi = (ks[-1] if ks else 10) + 20

    def b():
        x = rng.randrange(hi)
        if mutable:
            x = (x // W) * W
        return x
    rngs = [[None, None]]
    for _ in range(4):
        lo = b() if rng.random() < 0.8 else None
        up = b() if rng.random() < 0.8 else None
        rngs.append([lo, up])
    if ks:
        k0 = rng.choice(ks)
        if mutable:
            k0 = (k0 // W) * W
        rngs.append([k0, k0])
        rngs.append([k0, k0 + W])
        rngs.append([k0 + W, k0])          # inverted
    n = len(ks)
    ords = [[0, n], [0, 0], [n, n], [0, n + 1], [3, 1]]
    for _ in range(3):
        a = rng.randrange(n + 1)
        c = rng.randrange(a, n + 1)
        ords.append([a, c])
    return q, pre, rngs, ords


def gen_static(rng, n, kw):
    amax = max(4, (3 * n) // W + 2)
    init = gen_init(rng, n, amax)
    q, pre, rngs, ords = gen_probes(rng, init, False)
    return {"kw": kw, "vw": 0, "init": init, "maxp": 0, "ops": [], "q": q, "pre": pre, "rng": rngs, "ord": ords}


def gen_mutable(rng, n, kw):
    amax = max(4, (3 * n) // W + 2)
    init = gen_init(rng, n, amax)
    q, pre, rngs, ords = gen_probes(rng, init, True)
    space = amax * W + 8
    ks = [k for k, _ in init]
    ops = []
    nops = rng.randint(3, 30)
    for _ in range(nops):
        x = rng.random()
        if x < 0.45:
            k = rng.choice(ks) if ks and rng.random() < 0.4 else rng.randrange(space)
            ops.append({"t": "put", "k": k, "v": rng.randrange(1000)})
            if k not in q and rng.random() < 0.3 and len(q) < 16:
                q.append(k)
        elif x < 0.65:
            k = rng.choice(ks) if ks and rng.random() < 0.7 else rng.randrange(space)
            ops.append({"t": "del", "k": k})
        elif x < 0.75:
            ops.append({"t": "cp"})
        elif x < 0.83:
            ops.append({"t": "rv"})
        elif x < 0.90:
            ops.append({"t": "fl", "deep": rng.random() < 0.4})
        else:
            ops.append({"t": "rd"})
    ops.append({"t": "rd"})
    maxp = rng.choice([0, 0, 1, 2, 7, 64])
    return {"kw": kw, "vw": 0, "init": init, "maxp": maxp, "ops": ops, "q": q, "pre": pre, "rng": rngs[:6], "ord": []}


WITNESSES = [
    # K1: IterKeyRange ignores pending edits
    {"kw": 0, "vw": 0, "init": [[16, 1], [32, 2], [48, 3]], "maxp": 0,
     "ops": [{"t": "put", "k": 20, "v": 9}, {"t": "del", "k": 32}, {"t": "rd"}], "q": [16, 20, 32], "pre": [], "rng": [[None, None], [16, 48]], "ord": []},
    # K2: pending delete of (1,0) hides (1,5)
    {"kw": 0, "vw": 0, "init": [[16, 1], [21, 2]], "maxp": 0, "ops": [{"t": "del", "k": 16}, {"t": "rd"}], "q": [16, 21], "pre": [1], "rng": [], "ord": []},
    # K3: checkpoint on an empty buffer, auto-flush, revert
    {"kw": 0, "vw": 0, "init": [[16, 1]], "maxp": 2,
     "ops": [{"t": "cp"}, {"t": "put", "k": 1, "v": 1}, {"t": "put", "k": 2, "v": 2}, {"t": "put", "k": 3, "v": 3}, {"t": "rv"}, {"t": "rd"}],
     "q": [1, 2, 3, 16], "pre": [], "rng": [], "ord": []},
    # K5: IterKeyRange(start above every key, open stop) on a two-level tree
    {"kw": 300, "vw": 0, "init": [[i, i] for i in range(0, 60)], "maxp": 0, "ops": [], "q": [3], "pre": [], "rng": [[70, None], [59, None]], "ord": []},
    # K4: second revert after a stashed checkpoint
    {"kw": 0, "vw": 0, "init": [[16, 1]], "maxp": 2,
     "ops": [{"t": "put", "k": 1, "v": 1}, {"t": "cp"}, {"t": "put", "k": 2, "v": 2}, {"t": "put", "k": 3, "v": 3}, {"t": "put", "k": 4, "v": 4},
             {"t": "rv"}, {"t": "put", "k": 5, "v": 5}, {"t": "rv"}, {"t": "rd"}],
     "q": [1, 2, 3, 4, 5, 16], "pre": [], "rng": [], "ord": []},
]


def gen_cases(rng, tier):
    cases = [gen_static(rng, 0, 0), gen_static(rng, 1, 0), gen_static(rng, 2, 300)]
    cases += [dict(w) for w in WITNESSES]
    ns = 14 if tier == "quick" else 600
    nm = 34 if tier == "quick" else 3000
    for i in range(ns):
        kw = rng.choice([0, 150, 300, 300, 450])
        if kw == 0:
            n = rng.choice([3, 10, 40, 200])
        else:
            n = rng.choice([5, 30, 80, 150, 250])
        if i < 2:
            kw, n = 450, 400      # deep trees every run
        cases.append(gen_static(rng, n, kw))
    for i in range(nm):
        kw = rng.choice([0, 300, 450])
        n = rng.choice([0, 1, 4, 12, 40]) if kw == 0 else rng.choice([4, 20, 45, 70])
        cases.append(gen_mutable(rng, n, kw))
    return cases


# ---------------------------------------------------------------- Coq printers
# Every number that comes from the implementation goes through _n: a value outside [0, 2^64) (a negative or wrapped
# ordinal / cardinality / count, the -1 "wrong key" marker of the harness) is printed as a sentinel >= 2^64 that no model
# run produces, and the observation's o_bad bit is set, which the oracle rejects. The term printer is total.
_BIG = 1 << 64
_BAD = [False]


def _n(x):
    try:
        x = int(x)
    except (TypeError, ValueError):
        _BAD[0] = True
        return str(_BIG)
    if x < 0 or x >= _BIG:
        _BAD[0] = True
        return str(_BIG + (abs(x) % 1000003))
    return str(x)


def cq_kv(p):
    return "(%s,%s)" % (_n(p[0]), _n(p[1]))


def cq_kvl(l):
    return "[" + ";".join(cq_kv(p) for p in l) + "]"


def cq_okvl(l):
    return "None" if l is None else "(Some %s)" % cq_kvl(l)


def cq_shape(s):
    if s is None:
        return "(Leaf [])"
    if s.get("leaf"):
        return "(Leaf %s)" % cq_kvl(s.get("l") or [])
    return "(Inner [" + ";".join("(%s,%s,%s)" % (_n(c["k"]), _n(c["c"]), cq_shape(c["t"])) for c in (s.get("n") or [])) + "])"


def cq_on(x):
    return "None" if x is None else "(Some %s)" % _n(x)


def cq_getp(x):
    return "None" if not x else "(Some (%s,%s))" % (_n(x[0]), _n(x[1]))


def cq_op(o):
    t = o["t"]
    if t == "put":
        return "OPut %d %d" % (o["k"], o["v"])
    if t == "del":
        return "ODel %d" % o["k"]
    if t == "cp":
        return "OCp"
    if t == "rv":
        return "ORv"
    if t == "fl":
        return "OFl %s" % cq_bool(o.get("deep", False))
    return "ORd"


BAD = "(0, 0)"


def coq_case(case, out):
    _BAD[0] = False
    o = out.get("obs")
    pr = "{| p_keys := %s; p_pre := %s; p_rng := %s; p_ord := %s |}" % (
        cq_list(str(k) for k in case["q"]), cq_list(str(a) for a in case["pre"]),
        cq_list("(%s,%s)" % (cq_on(r[0]), cq_on(r[1])) for r in case["rng"]),
        cq_list("(%d,%d)" % (a, b) for a, b in case["ord"]))
    maxp = case["maxp"] if case["maxp"] > 0 else 65536
    if o is None or out.get("panic"):
        # harness error / panic: an observation no model run produces and no oracle accepts
        ops = cq_list("(%s, None)" % cq_op(x) for x in case["ops"])
        inp = "{| i_w := %d; i_init := %s; i_tree := Leaf [(0,0);(0,0)]; i_probes := %s; i_maxp := %d; i_ops := %s |}" % (
            W, cq_kvl(case["init"]), pr, maxp, ops)
        sr = ("{| s_get := []; s_has := []; s_getp := []; s_hasp := []; s_all := [(0,0);(0,0)]; s_rev := []; s_rng := []; s_card := []; "
              "s_ordrng := []; s_fetch := []; s_ord := []; s_count := 77; s_last := None |}")
        return "(%s, {| o_s := %s; o_changed := []; o_pend := []; o_stash := []; o_reads := []; o_bad := true |})" % (inp, sr)
    ops = cq_list("(%s, %s)" % (cq_op(x), "None" if f is None else "Some " + cq_shape(f)) for x, f in zip(case["ops"], o["flush"]))
    inp = "{| i_w := %d; i_init := %s; i_tree := %s; i_probes := %s; i_maxp := %d; i_ops := %s |}" % (
        W, cq_kvl(case["init"]), cq_shape(o["tree0"]), pr, maxp, ops)
    s = o["s0"]
    sr = ("{| s_get := %s; s_has := %s; s_getp := %s; s_hasp := %s; s_all := %s; s_rev := %s; s_rng := %s; s_card := %s; "
          "s_ordrng := %s; s_fetch := %s; s_ord := %s; s_count := %s; s_last := %s |}") % (
        cq_list(cq_on(x) for x in (s["get"] or [])), cq_list(cq_bool(x) for x in (s["has"] or [])),
        cq_list(cq_getp(x) for x in (s["getp"] or [])), cq_list(cq_bool(x) for x in (s["hasp"] or [])),
        cq_kvl(s["all"]), cq_kvl(s["rev"]), cq_list(cq_okvl(x) for x in (s["rng"] or [])),
        cq_list(_n(x) for x in (s["card"] or [])),
        cq_list(cq_okvl(x) for x in (s["ordrng"] or [])), cq_list(cq_okvl(x) for x in (s["fetch"] or [])),
        cq_list(_n(x) for x in (s["ord"] or [])), _n(s["count"]), cq_on(s["last"]))
    rds = []
    for r in o["reads"]:
        rds.append(("{| r_get := %s; r_has := %s; r_getp := %s; r_hasp := %s; r_all := %s; r_rng := %s; r_krng := %s; r_map := %s; r_edits := %s |}") % (
            cq_list(cq_on(x) for x in (r["get"] or [])), cq_list(cq_bool(x) for x in (r["has"] or [])),
            cq_list(cq_getp(x) for x in (r["getp"] or [])), cq_list(cq_bool(x) for x in (r["hasp"] or [])),
            cq_kvl(r["all"]), cq_list(cq_kvl(x) for x in (r["rng"] or [])), cq_list(cq_okvl(x) for x in (r["krng"] or [])),
            cq_shape(r["map"]), cq_bool(r["edits"])))
    body = (sr, cq_list(cq_bool(f is not None) for f in o["flush"]), cq_list(_n(x) for x in o["pend"]),
            cq_list(cq_bool(x) for x in o["stash"]), cq_list(rds))
    ob = "{| o_s := %s; o_changed := %s; o_pend := %s; o_stash := %s; o_reads := %s; o_bad := %s |}" % (body + (cq_bool(_BAD[0]),))
    return "(%s, %s)" % (inp, ob)


# ---------------------------------------------------------------- classification
def _depth(s):
    d = 1
    while s is not None and not s.get("leaf"):
        d += 1
        s = s["n"][0]["t"]
    return d


def classify(case, out):
    o = out.get("obs")
    if o is None or out.get("panic"):
        return ["panic"]
    t = []
    h = _depth(o["tree0"])
    t.append("height-%s" % (h if h < 3 else "3+"))
    if not case["init"]:
        t.append("empty-map")
    present = set(k for k, _ in case["init"])
    if any(q not in present for q in case["q"]):
        t.append("absent-probe")
    if any(r[0] is not None and r[1] is not None and r[0] > r[1] for r in case["rng"]):
        t.append("inverted-range")
    if any(x is None for x in (o["s0"]["ordrng"] or [])):
        t.append("ordinal-error")
    if any(x is None for x in (o["s0"]["rng"] or [])):
        t.append("iter-key-range-panic")
    if case["ops"]:
        t.append("mutable")
        for op, f, st in zip(case["ops"], o["flush"], o["stash"]):
            if op["t"] == "put" and f is not None:
                t.append("auto-flush")
            if op["t"] == "fl":
                t.append("explicit-flush" + ("-deep" if op.get("deep") else ""))
            if op["t"] == "rv":
                t.append("revert")
                if f is not None:
                    t.append("revert-restores-stashed-tree")
            if op["t"] == "del":
                t.append("delete")
            if op["t"] == "cp":
                t.append("checkpoint")
            if st:
                t.append("stash")
        for r in o["reads"]:
            if r["edits"]:
                t.append("pending-at-read")
            if _depth(r["map"]) > 1:
                t.append("materialised-multi-level")
    dev = _deviations(case, o)
    if dev is None:
        t.append("deviation:UNEXPLAINED")
    for k in sorted(dev or []):
        t.append("deviation:" + k)
    return sorted(set(t))


def nontrivial(case, out):
    return bool(case["init"]) or bool(case["ops"])


# ---------------------------------------------------------------- known findings
def _dict_reads(d, case):
    ks = sorted(d)
    items = [[k, d[k]] for k in ks]

    def inr(k, lo, hi):
        return (lo is None or lo <= k) and (hi is None or k < hi)
    getp, hasp = [], []
    for a in case["pre"]:
        m = [k for k in ks if k // W == a]
        getp.append([m[0], d[m[0]]] if m else [])
        hasp.append(bool(m))
    return {"get": [d.get(q) for q in case["q"]], "has": [q in d for q in case["q"]], "getp": getp, "hasp": hasp, "all": items,
            "rng": [[kv for kv in items if inr(kv[0], r[0], r[1])] for r in case["rng"]]}


def _flat(s):
    if s is None:
        return []
    if s.get("leaf"):
        return [list(x) for x in (s.get("l") or [])]
    out = []
    for c in s["n"]:
        out += _flat(c["t"])
    return out


def _deviations(case, o):
    """Set of known-finding keys explaining every place where the implementation's reads differ from the sorted
    dictionary; None if some difference has no known explanation."""
    cur = {k: v for k, v in case["init"]}
    chk = dict(cur)
    keys = set()
    # static map
    exp0 = _dict_reads(cur, case)
    s = o["s0"]
    if (s["get"] or []) != exp0["get"] or (s["has"] or []) != exp0["has"] or s["all"] != exp0["all"] or _flat(o["tree0"]) != exp0["all"] \
            or (s["getp"] or []) != exp0["getp"] or (s["hasp"] or []) != exp0["hasp"] or s["rev"] != exp0["all"][::-1]:
        return None
    kmax = max(cur) if cur else -1
    for r, got, want in zip(case["rng"], s["rng"] or [], exp0["rng"]):
        if got is None:
            if r[0] is not None and r[1] is None and r[0] > kmax and _depth(o["tree0"]) >= 2:
                keys.add(K5)
            else:
                return None
        elif got != want:
            return None
    reads = {r["at"]: r for r in o["reads"]}
    # history facts for the revert findings
    cp_on_empty = True      # creation counts as a checkpoint taken on an empty buffer
    flushed_since_cp = False
    reverts_since_cp = 0
    stash_at_first_rv = False
    tainted = set()
    pend_before = 0
    for i, op in enumerate(case["ops"]):
        t = op["t"]
        if t == "put":
            cur[op["k"]] = op["v"]
        elif t == "del":
            cur.pop(op["k"], None)
        elif t == "cp":
            chk = dict(cur)
            cp_on_empty = (pend_before == 0)
            flushed_since_cp = False
            reverts_since_cp = 0
            stash_at_first_rv = False
        elif t == "rv":
            cur = dict(chk)
            if reverts_since_cp == 0:
                stash_at_first_rv = bool(i > 0 and o["stash"][i - 1])
            reverts_since_cp += 1
            if cp_on_empty and flushed_since_cp:
                tainted.add(K3)
            if reverts_since_cp >= 2 and stash_at_first_rv:
                tainted.add(K4)
        if o["flush"][i] is not None and t in ("put", "fl"):
            flushed_since_cp = True
        pend_before = o["pend"][i]
        if t == "rd":
            r = reads[i]
            exp = _dict_reads(cur, case)
            for f in ("get", "has", "all", "rng"):
                if (r[f] or []) != exp[f]:
                    if not tainted:
                        return None
                    keys |= tainted
            if _flat(r["map"]) != exp["all"]:
                if not tainted:
                    return None
                keys |= tainted
            if (r["getp"] or []) != exp["getp"] or (r["hasp"] or []) != exp["hasp"]:
                if r["edits"]:
                    keys.add(K2)
                elif tainted:
                    keys |= tainted
                else:
                    return None
            for rg, got, want in zip(case["rng"], r["krng"] or [], exp["rng"]):
                if got is None:
                    if rg[0] is not None and rg[1] is None:
                        keys.add(K5)
                    else:
                        return None
                elif got != want:
                    if r["edits"]:
                        keys.add(K1)
                    elif tainted:
                        keys |= tainted
                    else:
                        return None
    return keys


def match_known(finding, case, out):
    o = out.get("obs")
    if o is None or out.get("panic"):
        return False
    dev = _deviations(case, o)
    if not dev:
        return False
    open_keys = set(f["key"] for f in vlib.load_known(ID) if str(f.get("status", "")).startswith("open"))
    return finding.get("key") in dev and dev <= open_keys


# ---------------------------------------------------------------- shrinking / search
def shrink_candidates(case):
    ops = case["ops"]
    for i in range(len(ops) - 1):
        c = dict(case)
        c["ops"] = ops[:i] + ops[i + 1:]
        yield c
    init = case["init"]
    if len(init) > 1:
        for cut in (len(init) // 2, 1):
            c = dict(case)
            c["init"] = init[cut:]
            c["ord"] = []
            yield c
            c = dict(case)
            c["init"] = init[:-cut]
            c["ord"] = []
            yield c
    for f in ("q", "pre", "rng", "ord"):
        if len(case[f]) > 1:
            for i in range(len(case[f])):
                c = dict(case)
                c[f] = case[f][:i] + case[f][i + 1:]
                yield c


def neighbours(case, rng):
    out = []
    for _ in range(40):
        c = dict(case)
        if case["ops"]:
            ops = list(case["ops"])
            i = rng.randrange(len(ops))
            ops.insert(i, rng.choice([{"t": "cp"}, {"t": "rv"}, {"t": "fl", "deep": False}, {"t": "rd"}, {"t": "del", "k": rng.randrange(64)}]))
            c["ops"] = ops
        else:
            c["q"] = case["q"] + [rng.randrange(2000)]
            c["rng"] = case["rng"] + [[rng.randrange(2000), rng.randrange(2000)]]
        out.append(c)
    return out


def search_cases(rng):
    return [gen_mutable(rng, rng.choice([0, 3, 20]), 0) for _ in range(60)] + [gen_static(rng, rng.choice([7, 50]), rng.choice([0, 300])) for _ in range(20)]
