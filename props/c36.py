"""C36 — Dump and re-import reproduce the database."""
from lib.vlib import cq_bytes, cq_bool, cq_list

ID = "C36"
HARNESS_PKG = "c36"
HARNESS_RUNNER = "c36"
COQ_TARGETS = ["theories/C36/Corr.vo"]
COQ_CORR_MODULE = "Base.Str Gen.C36Consts C36.Model C36.Spec C36.Corr"
COQ_CASE_TYPE = "C36.Corr.case"
COQ_CHECK = "C36.Corr.check_case"
DESIGN_REF = "§5 C36"
TECHNIQUE = ("Coq proofs of the quoting round trips for every byte string (SQL string literal, hex literal, CSV field) + vm_compute refutation "
             "witnesses for the CSV record round trip + in-Coq correspondence with sqlfmt / vitess tokenizer / CSV writer+reader, and a differential "
             "dump-and-reimport of generated tables through the real code")
LEVEL_TEXT = ("Proof, partial (P). Carried by theorems, for every byte string: sql_string_roundtrip (the vitess lexer's scanString undoes "
              "quoteAndEscapeString = encodeBytesSQL: all nine escapes, unknown escapes, doubled quotes), hex_roundtrip (0x literals for binary columns), "
              "csv_field_roundtrip (what writeCsvRow writes for a field — quoted or not, NULL vs empty string, embedded quotes / commas / line feeds / "
              "leading white space of every Unicode White_Space rune — is read back by parseField / parseQuotedField as the same field, whatever follows). "
              "Per-type value formatting (interfaceValueAsSqlString classes): int_fmt_roundtrip (every integer) and value_fmt_roundtrip_partial (NULL, "
              "integers, quoted text, 0x binary, quoted temporal text free of quotes/backslashes read back as the same value); refuted for the BIT class "
              "(raw value bytes: not a literal, or ASCII digits denoting another value). dec_fmt_roundtrip: sign, integer part and every fraction digit (the scale) of a decimal literal survive. concat_chunks: batching rows into INSERT statements (BatchSqlExportWriter, batchSize regenerated from the source) loses and reorders nothing, "
              "every batch size and row list; the real writer is driven with row counts around the batch boundary and its statements are parsed back. Float text and the "
              "date/time formatters themselves are not modelled (temporal values are covered as quoted text). Refuted at record level (witnesses replayed on the real code every run): a value containing CR LF comes back with LF only (readLine normalises "
              "CR LF inside quoted fields); a record that is a single NULL is written as an empty line and skipped by the reader. Resting on correspondence "
              "only: value formatting per column type, CREATE TABLE text, the JSON/Parquet writers, the SQL engine's parsing of the dump — checked by dumping "
              "generated tables (SHOW CREATE TABLE + sqlfmt.SqlRowAsInsertStmt; CSV writer/reader) into fresh databases and comparing every row and the schema text.")
LEVEL_NOTE = ("Trusted: Coq kernel, Go harness + Python glue. Modelled, not verified: vitess tokenizer buffering, bufio line reading, UTF-8 decoding "
              "(modelled as the White_Space rune table on raw bytes), BOM handling. `dolt dump` itself is a CLI command: the harness uses the same "
              "library calls (sqlfmt row formatting, csv writer) in-process; mvdata/Parquet/JSON file writers are not exercised.")
THEOREMS = ["sql_string_roundtrip", "hex_roundtrip", "csv_field_roundtrip (generic in the space predicate)", "csv_field_roundtrip_std",
            "int_fmt_roundtrip", "dec_fmt_roundtrip", "value_fmt_roundtrip_partial (NULL / integer / quoted text / 0x binary / quoted temporal; BIT excluded)",
            "oracle_on_model_str", "model_agrees_on_model_str", "concat_chunks", "chunks_bound", "oracle_on_model_batch",
            "csv_record_roundtrip_refuted_crlf", "csv_record_roundtrip_refuted_single_null", "value_fmt_roundtrip_refuted_bit"]
REFUTED = ["csv_record_roundtrip (full): csv_record_roundtrip_refuted_crlf, csv_record_roundtrip_refuted_single_null",
           "value_fmt_roundtrip (full): value_fmt_roundtrip_refuted_bit (BIT values are emitted as raw bytes)"]
RULE = ("str: byte strings biased to quotes, backslashes, NUL, ctrl-Z, escape look-alikes (\\q \\0 \\Z \\% \\_), invalid UTF-8; csv: records of 1-5 optional "
        "fields with quotes, commas, CR, LF, CR LF, leading ASCII / Unicode white space, the Postgres terminator; table: 2-6 columns over integer, decimal, "
        "float, char/varchar/text, binary/varbinary/blob, date/time, enum/set, json, bit, bool types with boundary and nasty values; distinct by content")
ASSUMPTIONS = ["CSV delimiter is ',' and line terminator LF (the defaults of dolt's exporter on this platform)",
               "generated rows that the source database itself rejects are not part of the table"]
REQUIRED_TAGS = ["batch-over-boundary", "batch-within", "batch-three-statements", "str", "str-escaped", "str-nonutf8", "csv", "csv-null", "csv-empty", "csv-quoted", "csv-crlf", "csv-leading-space", "table", "table-sql-same", "table-binary", "table-json"]

NASTY = [b"'", b"\\", b"\x00", b"\x1a", b'"', b"\n", b"\r", b"\t", b"\x08", b"\\q", b"\\0", b"\\Z", b"\\%", b"\\_", b"''", b"\\'", b"\xff", b"\xc3\x28",
         b"%", b"_", b"a", b"b", b" ", b"\xc3\xa9", b"\\\\", b"\\n", b";", b"--", b"/*", b"x'", b"0x"]


def gen_str(rng):
    n = rng.choice([0, 1, 1, 2, 3, 5, 8])
    return b"".join(rng.choice(NASTY) for _ in range(n))


CSVF = [b"a", b"", b"b c", b",", b'"', b'""', b"\n", b"\r", b"\r\n", b" x", b"\tx", b"\xc2\xa0x", b"\xe3\x80\x80x", b"\xe2\x80\x83", b"\\.", b"NULL", b"x\ry",
        b"a,b", b'q"t', b"\xc2", b"\xe2\x80", b"0", b"line1\nline2", b"tail ", b"\xff"]


def gen_csv(rng):
    n = rng.choice([1, 1, 2, 3, 4, 5])
    fs = []
    for _ in range(n):
        r = rng.random()
        if r < 0.2:
            fs.append([-1])
        elif r < 0.6:
            fs.append(list(rng.choice(CSVF)))
        else:
            fs.append(list(b"".join(rng.choice(CSVF) for _ in range(rng.randint(1, 3)))))
    return {"kind": "csv", "fields": fs}


def sqlq(b):
    """python-side SQL literal for generated values (independent of the code under check: hex for anything non-trivial)"""
    if all(32 <= c < 127 and c not in (39, 92) for c in b):
        return "'" + b.decode() + "'"
    return "0x" + b.hex() if b else "''"


COLTYPES = [
    ("tinyint", ["-128", "127", "0", "NULL"]),
    ("bigint", ["-9223372036854775808", "9223372036854775807", "0", "NULL"]),
    ("bigint unsigned", ["18446744073709551615", "0", "NULL"]),
    ("decimal(20,6)", ["-0.000001", "12345678901234.123456", "0", "NULL", "1.500000"]),
    ("double", ["1.5", "-0", "1e100", "0.1", "NULL"]),
    ("float", ["1.5", "0.1", "NULL"]),
    ("varchar(200)", None),
    ("char(20)", None),
    ("text", None),
    ("varchar(200) collate utf8mb4_bin", None),
    ("varbinary(200)", "bin"),
    ("blob", "bin"),
    ("binary(4)", "bin4"),
    ("date", ["'2020-02-29'", "'1000-01-01'", "'9999-12-31'", "NULL"]),
    ("datetime(6)", ["'2020-01-02 03:04:05.123456'", "'1000-01-01 00:00:00'", "'9999-12-31 23:59:59.999999'", "NULL"]),
    ("timestamp", ["'2020-01-02 03:04:05'", "'1970-01-01 00:00:01'", "NULL"]),
    ("time", ["'-838:59:59'", "'838:59:59'", "'00:00:00'", "'12:34:56'", "NULL"]),
    ("year", ["1901", "2155", "2024", "NULL"]),
    ("enum('a','b''c','d,e')", ["'a'", "'b''c'", "'d,e'", "NULL"]),
    ("set('x','y','z w')", ["'x'", "'x,y'", "'z w'", "''", "NULL"]),
    ("json", ["'{\"a\": 1}'", "'[1, \"x\\\\ny\", null, {\"k\": \"it''s\"}]'", "'\"str\"'", "'null'", "NULL", "'{\"q\": \"a\\\\\"b\"}'"]),
    ("bit(8)", ["b'10101010'", "b'0'", "NULL"]),
    ("bool", ["true", "false", "NULL"]),
]
TEXTV = [b"", b"plain", b"it's", b"back\\slash", b"\\q\\0\\Z", b"nul\x00in", b"ctrl\x1az", b'dq"dq', b"line\nfeed", b"cr\rlf\r\n", b"tab\t", b"\xc3\xa9t\xc3\xa9", b"%_", b" lead", b"trail ", b"a,b", b"NULL", b"\\"]
BINV = [b"", b"\x00\x01\x02", b"\xff\xfe", b"'\\\x00\x1a\"", b"abc", b"\r\n", b"\x80\x81"]


def gen_table(rng):
    cols = rng.sample(COLTYPES, rng.randint(2, 6))
    if rng.random() < 0.3 and not any(t == "json" for t, _ in cols):
        cols.append(COLTYPES[20])
    defs = ["c%d %s" % (i, t) for i, (t, _) in enumerate(cols)]
    rows = []
    for pk in range(1, rng.randint(3, 7)):
        vals = [str(pk)]
        for t, pool in cols:
            if pool is None:
                v = rng.choice(TEXTV)
                if t.startswith("char"):
                    v = v.rstrip(b" ")[:20]
                vals.append("NULL" if rng.random() < 0.1 else sqlq(v))
            elif pool == "bin":
                vals.append("NULL" if rng.random() < 0.1 else sqlq(rng.choice(BINV)))
            elif pool == "bin4":
                vals.append("NULL" if rng.random() < 0.1 else sqlq(rng.choice([b"abcd", b"\x00\x01\x02\x03", b"'\\\"\x1a"])))
            else:
                vals.append(rng.choice(pool))
        rows.append("(" + ", ".join(vals) + ")")
    return {"kind": "table", "cols": defs, "rows": rows, "types": [t for t, _ in cols]}


def gen_cases(rng, tier):
    q = tier == "quick"
    n_str, n_csv, n_tab = (400, 400, 12) if q else (20000, 20000, 400)
    cases = [{"kind": "str", "s": [b]} for b in range(256)]
    cases += [{"kind": "str", "s": list(x)} for x in (b"", b"\\q", b"\\0\\Z", b"a'b", b"a''b", b"\\'", b"'\\", b"\\")]
    # refutation witnesses of the record-level CSV round trip, replayed on the implementation
    cases += [{"kind": "csv", "fields": [[13, 10]]}, {"kind": "csv", "fields": [[-1]]},
              {"kind": "csv", "fields": [[97], [-1], [], [34, 44, 10], [32, 120], [97, 13]]}]
    for _ in range(n_str):
        cases.append({"kind": "str", "s": list(gen_str(rng))})
    for _ in range(n_csv):
        cases.append(gen_csv(rng))
    for _ in range(n_tab):
        cases.append(gen_table(rng))
    # rows through the batched SQL export writer, around the INSERT batch boundary (batchSize from the source)
    bs = batch_size_from_source()
    for n in ([0, 1, bs - 1, bs, bs + 1, 2 * bs + 1] if q else [0, 1, 2, bs - 1, bs, bs + 1, bs + 2, 2 * bs, 2 * bs + 1, 3 * bs + 1]):
        cases.append({"kind": "batch", "n": n, "bs": bs})
    return cases


def batch_size_from_source():
    import os, re
    from lib import vlib
    try:
        src = open(os.path.join(vlib.REPO, "go/libraries/doltcore/table/untyped/sqlexport/batch_sqlwriter.go")).read()
        return int(re.search(r"const\s+batchSize\s*=\s*(\d+)", src).group(1))
    except Exception:
        return 10000


def cq_field(f):
    return "None" if f == [-1] else "(Some %s)" % cq_bytes(f)


def coq_case(case, out):
    o = out.get("obs")
    k = case["kind"]
    if k == "str":
        ci = "CStr %s" % cq_bytes(case["s"])
        ob = "OBad" if o is None else "OStr %s %s %s %s" % (cq_bytes(o["q"]), cq_bytes(o["h"]), cq_bool(o["lex_ok"]), cq_bytes(o["u"] or []))
    elif k == "csv":
        ci = "CCsv %s" % cq_list(cq_field(f) for f in case["fields"])
        ob = "OBad" if o is None else "OCsv %s %s %s" % (cq_bytes(o["text"]), cq_list(cq_list(cq_field(f) for f in r) for r in o["rows"]), cq_bool(o["rerr"]))
    elif k == "batch":
        ci = "CBatch %d" % case["n"]
        ob = "OBad" if o is None else "OBatch %s %d %d %s" % (cq_list(str(x) for x in o["counts"]), o["nmissing"], o["extra"], cq_bool(bool(o["perr"])))
    else:
        ci = "CTable"
        ob = "OBad" if o is None else "OTable %s %s %s %s" % (cq_bool(o["setup_err"] == ""), cq_bool(o["sql_same"]), cq_bool(o["ddl_same"]), cq_bool(o["csv_same"]))
    return "(%s, %s)" % (ci, ob)


def classify(case, out):
    o = out.get("obs")
    if o is None:
        return ["panic-or-error"]
    k = case["kind"]
    t = [k]
    if k == "str":
        s = bytes(case["s"])
        if any(c in s for c in b"'\\\x00\x1a\"\n\r\t\x08"):
            t.append("str-escaped")
        try:
            s.decode("utf-8")
        except UnicodeDecodeError:
            t.append("str-nonutf8")
    elif k == "csv":
        fs = case["fields"]
        if [-1] in fs:
            t.append("csv-null")
        if [] in fs:
            t.append("csv-empty")
        if any(f != [-1] and (34 in f or 44 in f or 10 in f) for f in fs):
            t.append("csv-quoted")
        if any(f != [-1] and b"\r\n" in bytes(f) for f in fs):
            t.append("csv-crlf")
        if any(f != [-1] and f and bytes(f)[:1] in (b" ", b"\t", b"\xc2", b"\xe3", b"\xe2") for f in fs):
            t.append("csv-leading-space")
        if o["rerr"]:
            t.append("csv-read-error")
    elif k == "batch":
        bs = case.get("bs", 10000)
        t.append("batch-over-boundary" if case["n"] > bs else "batch-within")
        if len(o["counts"]) >= 3:
            t.append("batch-three-statements")
        if o["nmissing"]:
            t.append("batch-rows-missing")
    else:
        t.append("table-sql-same" if o["sql_same"] else "table-sql-differs")
        t.append("table-csv-same" if o["csv_same"] else "table-csv-differs")
        if not o["ddl_same"]:
            t.append("table-ddl-differs")
        if o["setup_err"]:
            t.append("table-setup-error")
        for ty in case.get("types", []):
            if "binary" in ty or "blob" in ty:
                t.append("table-binary")
            if ty == "json":
                t.append("table-json")
    return sorted(set(t))


def nontrivial(case, out):
    if case["kind"] == "table":
        return (out.get("obs") or {}).get("nrows", 0) > 0
    return True


def csv_causes(case):
    c = set()
    fs = case["fields"]
    if fs == [[-1]]:
        c.add("csv:single-null-record-is-empty-line")
    if any(f != [-1] and b"\r\n" in bytes(f) for f in fs):
        c.add("csv:crlf-in-value-becomes-lf")
    return c


def match_known(finding, case, out):
    key = finding.get("key", "")
    if case["kind"] == "csv":
        return key in csv_causes(case)
    if case["kind"] == "table":
        o = out.get("obs") or {}
        causes = set()
        if not o.get("csv_same") and "vs" in o.get("csv_diff", "") and any("0d0a" in r for r in case["rows"]):
            causes.add("table:csv-crlf-in-value-becomes-lf")
        if (not o.get("sql_same")) and o.get("sql_diff", "").startswith("import: syntax error") and any(t.startswith("bit") for t in case.get("types", [])):
            causes.add("table:bit-column-sql-dump-raw-bytes")
        bad_csv = not o.get("csv_same") and "table:csv-crlf-in-value-becomes-lf" not in causes
        bad_sql = not (o.get("sql_same") and o.get("ddl_same")) and "table:bit-column-sql-dump-raw-bytes" not in causes
        return key in causes and not bad_csv and not bad_sql
    return False
