"""C32 — Diffs and patches describe exactly the change between two commits."""
from lib.vlib import cq_list, cq_bytes, cq_bool

ID = "C32"
HARNESS_PKG = "c32"
HARNESS_RUNNER = "c32"
COQ_TARGETS = ["theories/C32/Corr.vo"]
COQ_CORR_MODULE = "Base.Str C31.Model C32.Model C32.Corr"
COQ_CASE_TYPE = "C32.Corr.case"
COQ_CHECK = "C32.Corr.check_case"
COQ_MODEL_OBS = "(fun c => C32.Corr.model_obs (fst c))"
DESIGN_REF = "§5 C32"
TECHNIQUE = "Coq proof (diff = exact symmetric difference; patch round trip by induction over the statement list; string-literal and hex round trips for every byte string) + in-Coq correspondence through SQL"
LEVEL_TEXT = ("Proof (F/M for rows and literals, partial for schema changes): on the model, diff a b lists exactly the keys whose rows differ with the a-row as from and the "
              "b-row as to (diff_exact), executing the INSERT/UPDATE(changed columns)/DELETE statements derived from it on a yields b for every a, b "
              "(patch_roundtrip), the string literal encoder/tokenizer pair satisfies unquote (quote s) = s for every byte string (sql_string_roundtrip) and "
              "0x-hex literals round trip. Tied to dolt by comparing dolt_diff(), dolt_diff_t and the executed dolt_patch() output inside Coq; the encoder and "
              "tokenizer are the vitess functions sqlfmt calls. Schema-changing commits (add/drop column) are covered by the executed round trip only.")
LEVEL_NOTE = ("Trusted: Coq kernel, Go harness + Python glue (value interning: distinct SQL values -> distinct ids). Modelled, not verified: schema diff / ALTER statements "
              "(only observed through the executed round trip + SHOW CREATE TABLE equality), the SQL parser beyond string-literal scanning, type-specific value "
              "formatting other than int / varchar / text / varbinary, keyless tables, PK changes.")
THEOREMS = ["diff_exact", "diff_sorted", "patch_roundtrip", "patch_roundtrip_eq", "sql_string_roundtrip", "hex_roundtrip", "diff_counts", "col_ddl_roundtrip", "ddl_counts_spec", "oracle_on_model"]
RULE = ("round 3: schema deltas rename / modify(int->bigint) / rename-then-modify across two commits (patch spans both, tag preserved) with values that need the new type; ALTER statement counts "
        "compared with the schema delta; the literal encoder is called through sqlfmt (VerifQuoteAndEscapeString) and backslash-only strings (C:\\new\\table) are fixed cases at the function level and through dolt_patch; two commits of t(pk, a int, s varchar, x text, v varbinary): first commit 0-6 rows, second commit = first with rows deleted/inserted/cells changed; values small ints, "
        "NULL, strings over an alphabet of quote, double quote, backslash, NUL, newline, CR, tab, ctrl-Z, backspace, %, _, backtick, semicolon, comment openers, a 2-byte UTF-8 char; "
        "binary values over all byte classes; 20% add-column and 15% drop-column second commits; per case 4 byte strings (all 256 byte values reachable) through the literal encoder; "
        "non-trivial = the two commits differ; distinct by case JSON")
ASSUMPTIONS = ["varchar/text values are valid UTF-8 (invalid UTF-8 cannot be stored in those columns); arbitrary bytes go through varbinary and through the literal encoder directly"]
REQUIRED_TAGS = ["rename", "modify", "renmod", "needs-new-type", "str-backslash-only", "lit-backslash-only", "added", "removed", "modified", "null-to-value", "value-to-null", "str-quote", "str-backslash", "str-newline", "str-nul", "str-ctrlz", "binary",
                 "addcol", "dropcol", "empty-diff", "lit-highbyte"]

TEXT_ALPHA = [b"a", b"b", b"'", b'"', b"\\", b"\n", b"\r", b"\t", b"\x00", b"\x1a", b"\x08", b"%", b"_", b"\xc3\xa9", b" ", b";", b"`", b"--", b"#", b"/*", b"\\n", b"''", b"\\'"]


def _text(rng):
    return b"".join(rng.choice(TEXT_ALPHA) for _ in range(rng.choice([0, 1, 1, 2, 3, 5])))[:30]


def _bin(rng):
    return bytes(rng.choice([0, 39, 92, 255, 128, 10, 34, 26, 65, rng.randrange(256)]) for _ in range(rng.choice([0, 1, 2, 4])))


def _cell(rng, col):
    if rng.random() < 0.2:
        return None
    if col in ("a", "d"):
        return {"i": rng.choice([0, 1, 2, 3, -1])}
    if col in ("s", "x"):
        t = _text(rng)
        return {"s": list(t), "k": "s"}
    return {"b": list(_bin(rng)), "k": "b"}


COLS = ["a", "s", "x", "v"]


def gen_one(rng):
    r = rng.random()
    schema = "addcol" if r < 0.15 else ("dropcol" if r < 0.27 else ("rename" if r < 0.33 else ("modify" if r < 0.39 else ("renmod" if r < 0.50 else ""))))
    a = {}
    for k in rng.sample(range(1, 8), rng.randint(0, 6)):
        a[k] = [_cell(rng, c) for c in COLS]
    b = {k: list(v) for k, v in a.items()}
    if rng.random() > 0.08:
        for _ in range(rng.randint(1, 4)):
            k = rng.randrange(1, 8)
            q = rng.random()
            if k in b and q < 0.3:
                del b[k]
            elif k in b:
                i = rng.randrange(4)
                b[k][i] = _cell(rng, COLS[i])
            else:
                b[k] = [_cell(rng, c) for c in COLS]
    if schema == "addcol":
        for k in b:
            b[k] = b[k] + [_cell(rng, "d") if rng.random() < 0.6 else None]
    elif schema == "dropcol":
        for k in b:
            b[k] = b[k][1:]
    elif schema in ("modify", "renmod", "change"):
        # values that only fit the new type
        for k in list(b):
            if rng.random() < 0.6:
                b[k][0] = {"i": rng.choice([6000000000, -5000000000, 2147483648])}
        if not b or rng.random() < 0.3:
            b[rng.randrange(1, 8)] = [{"i": 6000000000}] + [_cell(rng, c) for c in COLS[1:]]
    strs = []
    for _ in range(4):
        q = rng.random()
        if q < 0.5:
            strs.append(list(bytes(rng.choice([0, 8, 9, 10, 13, 26, 34, 39, 92, 37, 95, 48, 110, 90, rng.randrange(256)]) for _ in range(rng.randint(0, 8)))))
        else:
            strs.append(list(bytes(rng.randrange(256) for _ in range(rng.randint(0, 6)))))
    return {"a": [{"k": k, "c": v} for k, v in sorted(a.items())], "b": [{"k": k, "c": v} for k, v in sorted(b.items())], "schema": schema, "strs": strs}


def gen_cases(rng, tier):
    n = 260 if tier == "quick" else 6000
    fixed = {"a": [], "b": [], "schema": "", "strs": [list(range(0, 64)), list(range(64, 128)), list(range(128, 192)), list(range(192, 256))]}
    # a value with backslashes and none of the other escaped characters, at the function level and through dolt_patch
    bs = list(b"C:\\new\\table")
    fixed2 = {"a": [{"k": 1, "c": [{"i": 1}, {"s": [97], "k": "s"}, None, None]}],
              "b": [{"k": 1, "c": [{"i": 1}, {"s": bs, "k": "s"}, {"s": list(b"\\"), "k": "s"}, None]}, {"k": 2, "c": [None, {"s": list(b"a\\b"), "k": "s"}, None, None]}],
              "schema": "", "strs": [bs, list(b"\\"), list(b"x\\ny"), list(b"\\0")]}
    fixed3 = {"a": [{"k": 1, "c": [{"i": 1}, None, None, None]}], "b": [{"k": 1, "c": [{"i": 6000000000}, None, None, None]}], "schema": "renmod", "strs": []}
    # NOTE: a single `ALTER TABLE t CHANGE COLUMN a a2 bigint` gives the column a NEW tag; dolt_patch then emits DROP a + ADD a2
    # and the replay puts a2 LAST (column order of the second commit is not reproduced).  Reported as a candidate finding
    # (key schema-patch:retagged-column-moves-to-end); witness: dict(fixed3, schema="change").  Not generated until registered.
    return [fixed, fixed2, fixed3] + [gen_one(rng) for _ in range(n)]


# ---- canonical values and interning ----
def _canon(c):
    if c is None:
        return "N"
    if "i" in c:
        return "I%d" % c["i"]
    if c.get("k") == "b" or "b" in c:
        return "B" + bytes(c.get("b") or []).hex()
    return "S" + bytes(c.get("s") or []).hex()


class Intern:
    def __init__(self):
        self.d = {}

    def cell(self, s):
        if s == "N":
            return "None"
        if s not in self.d:
            self.d[s] = len(self.d) + 1
        return "Some %d" % self.d[s]

    def row(self, cells):
        return cq_list(self.cell(c) for c in cells)


def _cols(mode, side):
    a = (1, 1, 1)
    if side == "b":
        if mode == "rename":
            a = (1, 6, 1)
        elif mode == "modify":
            a = (1, 1, 2)
        elif mode in ("renmod", "change"):
            a = (1, 6, 2)
    cols = [a, (2, 2, 3), (3, 3, 4), (4, 4, 5)]
    if side == "b" and mode == "addcol":
        cols.append((5, 5, 1))
    if side == "b" and mode == "dropcol":
        cols = cols[1:]
    return cq_list("{| c_id := %d; c_name := %d; c_ty := %d |}" % c for c in cols)


def _content(it, rows):
    return cq_list("((1, %d), %s)" % (k, it.row(cs)) for k, cs in rows)


def _reorder_diff(cells):
    # harness order: pk, then the other columns alphabetically: a s v x  ->  table order a s x v
    pk, rest = cells[0], cells[1:]
    if len(rest) == 4:
        a, s, v, x = rest
        rest = [a, s, x, v]
    return int(pk[1:]), rest


def _dentries(it, ds):
    out = []
    for d in ds:
        ty = {"added": 0, "removed": 1, "modified": 2}.get(d["type"], 9)
        k = None
        f = t = "None"
        if d.get("from") is not None:
            k, cs = _reorder_diff(d["from"]); f = "Some %s" % it.row(cs)
        if d.get("to") is not None:
            k, cs = _reorder_diff(d["to"]); t = "Some %s" % it.row(cs)
        out.append("(((1, %d), %s, %s), %d)" % (k, f, t, ty))
    return cq_list(out)


def coq_case(case, out):
    it = Intern()
    a = [(r["k"], [_canon(c) for c in r["c"]]) for r in case["a"]]
    b = [(r["k"], [_canon(c) for c in r["c"]]) for r in case["b"]]
    schema = bool(case["schema"])
    inp = "{| i_a := %s; i_b := %s; i_schema := %s; i_sa := %s; i_sb := %s; i_strs := %s |}" % (
        _content(it, a), _content(it, b), cq_bool(schema), _cols(case["schema"], "a"), _cols(case["schema"], "b"), cq_list(cq_bytes(s) for s in case["strs"]))
    o = out.get("obs")
    if o is None or out.get("err") or out.get("panic"):
        obs = "{| o_diff := []; o_diffsys := []; o_counts := (9,9,9); o_ddl := (9,9,9,9); o_rt := []; o_rt_ok := false; o_lits := [] |}"
        return "(%s, %s)" % (inp, obs)
    if schema:
        d1 = d2 = "[]"
        counts = "(0, 0, 0)"
    else:
        d1, d2 = _dentries(it, o["diff"] or []), _dentries(it, o["diffsys"] or [])
        counts = "(%d, %d, %d)" % (o["stmts"].count("insert"), o["stmts"].count("update"), o["stmts"].count("delete"))
    rt = [(int(r[0][1:]), r[1:]) for r in o["rtrows"]]
    rows2_ok = [[("I%d" % k)] + cs for k, cs in b] == o["rows2"] and [[("I%d" % k)] + cs for k, cs in a] == o["rows1"]
    ok = o["rtdata"] and o["rtschema"] and not o["rterrs"] and not o.get("note") and rows2_ok
    lits = cq_list("(%s, %s)" % (cq_bytes(l["lit"]), ("Some %s" % cq_bytes(l["dec"] or [])) if l["ok"] else "None") for l in o["lits"])
    st = o["stmts"]
    ddl = "(%d, %d, %d, %d)" % (st.count("alter-add"), st.count("alter-drop"), st.count("alter-rename"), st.count("alter-modify"))
    if st.count("alter") or st.count("other"):
        ddl = "(9, 9, 9, 9)"
    obs = "{| o_diff := %s; o_diffsys := %s; o_counts := %s; o_ddl := %s; o_rt := %s; o_rt_ok := %s; o_lits := %s |}" % (d1, d2, counts, ddl, _content(it, rt), cq_bool(ok), lits)
    return "(%s, %s)" % (inp, obs)


def classify(case, out):
    o = out.get("obs")
    if o is None or out.get("err") or out.get("panic"):
        return ["harness-error"]
    tags = set()
    for d in o["diff"] or []:
        tags.add(d["type"])
        if d["type"] == "modified" and not case["schema"]:
            for x, y in zip(d["from"], d["to"]):
                if x == "N" and y != "N":
                    tags.add("null-to-value")
                if x != "N" and y == "N":
                    tags.add("value-to-null")
    if not (o["diff"] or []):
        tags.add("empty-diff")
    if case["schema"]:
        tags.add(case["schema"])
        if case["schema"] in ("modify", "renmod", "change") and any(r["c"][0] and abs(r["c"][0].get("i", 0)) > 2147483647 for r in case["b"]):
            tags.add("needs-new-type")
    esc = b"'\"\x00\x08\n\r\t\x1a"
    if any(92 in st and not any(ch in esc for ch in st) for st in case["strs"]):
        tags.add("lit-backslash-only")
    for r in case["b"]:
        for c in r["c"]:
            if c and c.get("k") == "s":
                bs = bytes(c.get("s") or [])
                if b"\\" in bs and not any(ch in esc for ch in bs):
                    tags.add("str-backslash-only")
                for nm, ch in (("str-quote", b"'"), ("str-backslash", b"\\"), ("str-newline", b"\n"), ("str-nul", b"\x00"), ("str-ctrlz", b"\x1a")):
                    if ch in bs:
                        tags.add(nm)
            if c and c.get("k") == "b" and c.get("b"):
                tags.add("binary")
    if any(any(x >= 128 for x in s) for s in case["strs"]):
        tags.add("lit-highbyte")
    if not o["rtdata"] or not o["rtschema"] or o["rterrs"]:
        tags.add("roundtrip-failed")
    return sorted(tags)


def nontrivial(case, out):
    return case["a"] != case["b"]


def shrink_candidates(case):
    import os
    if os.environ.get("VERIF_NOSHRINK"):
        return
    for i in range(len(case["strs"])):
        yield dict(case, strs=case["strs"][:i] + case["strs"][i + 1:])
    for side in ("a", "b"):
        rows = case[side]
        for i in range(len(rows)):
            yield dict(case, **{side: rows[:i] + rows[i + 1:]})
    for side in ("a", "b"):
        for i, r in enumerate(case[side]):
            for j, c in enumerate(r["c"]):
                if c is not None:
                    nr = dict(r, c=r["c"][:j] + [None] + r["c"][j + 1:])
                    yield dict(case, **{side: case[side][:i] + [nr] + case[side][i + 1:]})


def neighbours(case, rng):
    return [gen_one(rng) for _ in range(40)]
