"""C37 — Schemas serialize faithfully and column tags are deterministic."""
import copy

from lib.vlib import cq_bytes, cq_bool, cq_list

ID = "C37"
HARNESS_PKG = "c37"
HARNESS_RUNNER = "c37"
COQ_TARGETS = ["theories/C37/Corr.vo"]
COQ_CORR_MODULE = "Base.Str C37.Model C37.Spec C37.Corr"
COQ_CASE_TYPE = "C37.Corr.case"
COQ_CHECK = "C37.Corr.check_case"
COQ_MODEL_OBS = "(fun c => C37.Corr.model_obs (fst c))"
COQ_SHARD = 60
HARNESS_TIMEOUT = 2400
COQ_EVAL_TIMEOUT = 1500
DESIGN_REF = "§5 C37"
TECHNIQUE = ("Coq proof (tag generation = first draw of a seeded sequence outside the existing tag set, for every tag set, every random source and "
             "every DDL sequence; run-level invariant for pairwise distinct tags on a decidable class of runs; serialized-field models of "
             "SerializeSchema/DeserializeSchema and of the foreign key collection with round-trip theorems; the oracle proved on the model's own "
             "observation) + in-Coq correspondence through SQL DDL on two branches and three repositories, with the real serializers run on every "
             "stored schema / foreign key collection and their determinism observed")
LEVEL_TEXT = ("Proof (F/M), partial for one clause: for every random source, existing tag set and seed the generated tag is fresh (tag_fresh) and below "
              "the bound for the root size, hence below the reserved range for < 8192 tags (tag_below_reserved); the tags assigned by any DDL sequence "
              "(CREATE / ADD / DROP / RENAME / MODIFY COLUMN, DROP TABLE, commit) depend on the rest of the root only through its SET of tags "
              "(same_ddl_same_tags) and on names only through simpleString (tag_simple_names). Tags stay pairwise distinct in every state of every run "
              "of the decidable class safe_run — every re-creation of a table HEAD still has finds none of the re-used tags in the working root — "
              "(tags_distinct_run_partial), in particular of every run that never re-creates such a table, a condition on the statement list and table "
              "names alone (no_recreate_safe, tags_distinct_run_no_recreate); outside that class the statement is REFUTED (tags_distinct_refuted, witness "
              "replayed on the real code). deserialize(serialize s) = s for every well-formed schema over the modelled fields (schema_roundtrip: columns "
              "with name, tag, type, nullability, pk flag, auto-increment, default / generated / on-update expressions, virtual, comment, hidden, "
              "system-hidden; pk ordinals; indexes by column position with comment, prefix lengths, unique / user-defined / spatial / fulltext / vector "
              "flags, predicate, fulltext table names and key info, vector distance type; checks incl. not-valid flag; collation; comment; row size; "
              "keyless marker columns) and for the foreign key collection (fk_roundtrip). The executable oracle is proved true on the model's own "
              "observation: clauses (a) round trip and (b) same tags everywhere outright for well-formed inputs (oracle_a_on_model, oracle_b_on_model), "
              "clause (c) distinct tags on the class input_safe (oracle_on_model_partial). Tied to the code by generated DDL scripts run on two branches "
              "and in independent repositories, the stored schemas read back through the doltdb API and pushed through the real serializers, compared "
              "field by field inside Coq.")
LEVEL_NOTE = ("Trusted: Coq kernel, Go harness (script runner, seed-key derivation with the real doltdb.GetExistingColumns, candidate enumeration by "
              "calling the real schema.AutoGenerateTag with growing exclusion sets), Python glue. Section variables (visible in the theorems): rand_seq "
              "= the math/rand stream seeded from sha512 of the seed key (fed from the implementation in the correspondence), type_string / parse_type "
              "= sqlTypeString / typeinfoFromSqlType+WithEncoding with the hypothesis that a type string parses back (checked per column on the real "
              "code: TypeInfo.Equals), encode_name / decode_name = the table-name encoding of the foreign key collection with the hypothesis that a name "
              "decodes back (checked on the real code field by field). Correspondence-only clause (bytes are not modelled): SerializeSchema and "
              "SerializeForeignKeys are deterministic on the real code — serializing twice, serializing the deserialized value again, and serializing "
              "the schema read in repository A and in repository B give identical bytes, and table.GetSchemaHash agrees on b1, b2 and in repository B; "
              "the oracle requires all of these. Modelled, not verified: flatbuffers byte layout (the model is the list of fields written and read; "
              "fields written but never read back — display order, key/value column vectors, adaptive-encoding markers — are left out), the SQL engine's "
              "translation of DDL text to column lists and kinds (reported by the harness), Unicode case folding of names (ASCII names generated), "
              "tag assignment for the pseudo-index tables of FULLTEXT indexes (fulltext / vector / spatial indexes and foreign keys are exercised in a "
              "third repository where only the serialization round trips are observed).")
THEOREMS = ["tag_fresh", "tag_below_reserved", "auto_tag_same_set", "tag_simple_names", "same_ddl_same_tags", "tags_distinct_partial",
            "addcol_tag_fresh", "tags_distinct_run_partial", "no_recreate_safe", "tags_distinct_run_no_recreate", "tags_distinct_refuted", "commit_placement_refuted",
            "schema_roundtrip", "fk_roundtrip", "sschema_eqb_eq", "oracle_a_on_model", "oracle_b_on_model", "oracle_c_on_model_partial",
            "oracle_on_model_partial", "reserved_tag_min_pinned"]
EXPLANATION = ("Open findings replayed on every run (known_findings.json, witnesses in known_witness_cases with a passing control each): spurious schema "
               "conflicts / merge errors between branches that ran the same DDL (CHECK on a column with upper-case letters; two indexes over the same "
               "columns; keyless table with ON UPDATE and no DEFAULT), a generated expression stored with an unquoted table qualifier after CREATE INDEX, "
               "the implementation replay of tags_distinct_refuted (duplicate tag after DROP TABLE / ADD COLUMN / re-CREATE), and the implementation replay "
               "of commit_placement_refuted (a re-created table whose kept columns change seed position gets other tags when a commit separates DROP and "
               "CREATE; the class where the kept columns are a prefix of both definitions is required to be commit-independent by oracle clause (d)).")
REFUTED = ["tags_distinct_refuted", "commit_placement_refuted"]
RULE = ("DDL scripts: 1-3 CREATE TABLE (2-7 columns over every reachable typeinfo family with parameters, NOT NULL / DEFAULT / COMMENT / ON UPDATE / "
        "AUTO_INCREMENT / generated columns / column collations, multi-column primary keys in non-declaration order or keyless, secondary / unique / "
        "prefix indexes, named and unnamed checks, table collation and comment; table-name twins such as t1 / T_1 that share a tag seed so that "
        "collisions are the norm), then ALTERs (ADD COLUMN FIRST/AFTER, DROP, RENAME, MODIFY across kinds, CREATE INDEX, ADD CHECK), commits, DROP TABLE + "
        "re-CREATE with shared columns; 0-4 more statements run on both branches and in the second repository; in 40% of the cases the scenario \"same "
        "statements, different commit placement\" (a committed table is dropped and re-created with >= 1 column kept, >= 1 omitted, >= 1 added: in one "
        "working set on branch x, with a commit in between on branch y and in an independent repository, and alone in an empty repository; tags "
        "compared column by column, x merged into y); in 45% of the cases an extra script in a "
        "third repository (foreign keys with actions, composite, self-referencing and unresolved; FULLTEXT, VECTOR and SPATIAL indexes; index comments) "
        "whose schemas and foreign key collection go through the real serializers; non-trivial = at least one table "
        "stored and one tag drawn; distinct by script text")
ASSUMPTIONS = ["names are ASCII (strings.EqualFold / simpleString modelled on bytes)",
               "fewer than 8192 columns per root (maxTagVal stays 16384 in generated cases; the model covers the growth loop)"]
REQUIRED_TAGS = ["tag-collision", "head-reuse", "addcol", "addcol-positioned", "dropcol", "rename", "modify-kind", "keyless", "multi-pk-reordered",
                 "index", "unique-index", "prefix-index", "prefix-index-before-plain", "check", "default", "generated", "on-update", "comment", "table-collation", "col-collation",
                 "merge-clean", "branch-ddl", "ty-decimal", "ty-enum", "ty-set", "ty-json", "ty-geometry", "ty-bit", "ty-year", "ty-datetime-fsp",
                 "ty-blob", "ty-text", "ty-unsigned", "ty-float", "autoinc", "fulltext-index", "vector-index", "spatial-index", "index-comment",
                 "system-index", "foreign-key", "fk-unresolved", "fk-actions", "fk-composite", "same-ddl-different-commit-placement-recreate"]

# (sql type, class, tag)
TYPES = [
    ("tinyint", "int", ""), ("smallint", "int", ""), ("mediumint", "int", ""), ("int", "int", ""), ("bigint", "int", ""),
    ("tinyint unsigned", "int", "ty-unsigned"), ("int unsigned", "int", "ty-unsigned"), ("bigint unsigned", "int", "ty-unsigned"),
    ("boolean", "int", ""),
    ("float", "float", "ty-float"), ("double", "float", "ty-float"),
    ("decimal(10,2)", "dec", "ty-decimal"), ("decimal(5,0)", "dec", "ty-decimal"), ("decimal(30,10)", "dec", "ty-decimal"),
    ("char(5)", "str", ""), ("varchar(20)", "str", ""), ("varchar(255)", "str", ""),
    ("tinytext", "text", "ty-text"), ("text", "text", "ty-text"), ("mediumtext", "text", "ty-text"), ("longtext", "text", "ty-text"),
    ("binary(4)", "bin", ""), ("varbinary(16)", "bin", ""),
    ("tinyblob", "blob", "ty-blob"), ("blob", "blob", "ty-blob"), ("mediumblob", "blob", "ty-blob"), ("longblob", "blob", "ty-blob"),
    ("date", "date", ""), ("time", "time", ""), ("time(6)", "time", ""), ("datetime", "dt", ""), ("datetime(3)", "dt", "ty-datetime-fsp"),
    ("datetime(6)", "dt", "ty-datetime-fsp"), ("timestamp", "dt", ""), ("timestamp(6)", "dt", "ty-datetime-fsp"),
    ("year", "year", "ty-year"), ("bit(1)", "bit", "ty-bit"), ("bit(17)", "bit", "ty-bit"),
    ("enum('a','b','c')", "enum", "ty-enum"), ("set('x','y','z')", "set", "ty-set"),
    ("json", "json", "ty-json"),
    ("geometry", "geo", "ty-geometry"), ("point", "geo", "ty-geometry"), ("linestring", "geo", "ty-geometry"), ("polygon", "geo", "ty-geometry"),
    ("point srid 4326", "geo", "ty-geometry"),
]
DEFAULTS = {"int": ["7", "0", "1"], "float": ["1.5"], "dec": ["1.25"], "str": ["'dflt'", "''", "'a b'"], "date": ["'2020-01-02'"],
            "dt": ["CURRENT_TIMESTAMP", "'2020-01-02 03:04:05'"], "year": ["2001"], "enum": ["'a'"], "set": ["'x'"], "time": ["'01:02:03'"],
            "text": ["('t')"], "json": ["(json_object())"]}
PKABLE = {"int", "dec", "str", "date", "dt", "year", "enum", "bin", "time"}
INDEXABLE = PKABLE | {"float", "set", "bit"}
TABLE_TWINS = [["t1", "T_1", "t-1"], ["tab", "TAB_", "Tab!"], ["my_table", "My Table", "MYTABLE"], ["x", "X_", "x$"]]
COLNAMES = ["a", "b", "c1", "C_1", "id", "val", "k", "col a", "Name", "n2", "zz", "w_w"]
COLLS = ["utf8mb4_0900_ai_ci", "utf8mb4_bin", "utf8mb4_general_ci", "latin1_swedish_ci", "utf8mb4_unicode_ci"]


def bq(n):
    return "`%s`" % n


def pick_type(rng):
    if rng.random() < 0.35:
        return rng.choice([t for t in TYPES if t[1] in ("int", "str")])
    return rng.choice(TYPES)


def gen_col(rng, name, allow_gen_from=None):
    ty, cls, _ = pick_type(rng)
    c = {"name": name, "ty": ty, "cls": cls, "notnull": False, "opts": ""}
    x = rng.random()
    if allow_gen_from and cls == "int" and x < 0.12:
        c["opts"] = " as (%s + 1) %s" % (bq(allow_gen_from), rng.choice(["stored", "virtual"]))
        c["gen"] = True
        return c
    if x < 0.45:
        c["notnull"] = True
        c["opts"] += " not null"
    if cls in DEFAULTS and rng.random() < 0.35:
        d = rng.choice(DEFAULTS[cls])
        if d == "CURRENT_TIMESTAMP" and "(" in ty:
            d = "CURRENT_TIMESTAMP" + ty[ty.index("("):]
        c["opts"] += " default %s" % d
        c["default"] = True
    if cls == "dt" and rng.random() < 0.25:
        c["opts"] += " on update CURRENT_TIMESTAMP" + (ty[ty.index("("):] if "(" in ty else "")
        c["onupd"] = True
    if cls in ("str", "text") and rng.random() < 0.2:
        c["opts"] = " collate %s" % rng.choice(COLLS) + c["opts"]
        c["coll"] = True
    if rng.random() < 0.25:
        c["opts"] += " comment '%s'" % rng.choice(["hi", "a comment", "x_y", "café"])
    return c


def gen_create(rng, tname, colnames=None):
    n = rng.randint(2, 7)
    names = colnames or rng.sample(COLNAMES, n)
    cols = []
    first_int = None
    for nm in names:
        c = gen_col(rng, nm, first_int)
        if c["cls"] == "int" and not c.get("gen") and first_int is None:
            first_int = nm
        cols.append(c)
    parts = []
    pkc = [c for c in cols if c["cls"] in PKABLE and not c.get("gen")]
    pk = []
    if pkc and rng.random() < 0.8:
        pk = rng.sample(pkc, min(len(pkc), rng.choice([1, 1, 2, 2, 3])))
        rng.shuffle(pk)
        for c in pk:
            if not c["notnull"]:
                c["notnull"] = True
                c["opts"] = c["opts"].replace(" default", " not null default", 1) if " default" in c["opts"] else c["opts"] + " not null"
    autoinc = False
    if pk and len(pk) == 1 and pk[0]["cls"] == "int" and pk[0]["ty"] not in ("boolean",) and "default" not in pk[0] and rng.random() < 0.3:
        pk[0]["opts"] = " not null auto_increment"
        autoinc = True
    for c in cols:
        parts.append("%s %s%s" % (bq(c["name"]), c["ty"], c["opts"]))
    if pk:
        parts.append("primary key (%s)" % ", ".join(bq(c["name"]) for c in pk))
    idxs = []
    idxdef = {}          # index name -> declared prefix length per column (0 = whole column)
    used_sets = set()
    ixc = [c for c in cols if c["cls"] in INDEXABLE and not c.get("gen")]
    for j in range(rng.choice([0, 0, 1, 1, 2])):
        if not ixc:
            break
        sel = rng.sample(ixc, min(len(ixc), rng.choice([1, 1, 2])))
        uniq = rng.random() < 0.4
        parts.append("%skey ix%d (%s)" % ("unique " if uniq else "", j, ", ".join(bq(c["name"]) for c in sel)))
        idxs.append("unique" if uniq else "plain")
        used_sets.add(tuple(c["name"] for c in sel))
        idxdef["ix%d" % j] = [0] * len(sel)
    pfx = [c for c in cols if c["cls"] in ("text", "blob") or c["ty"] == "varchar(255)"]
    pfx_before_plain = False
    if pfx and rng.random() < 0.45:
        c = rng.choice(pfx)
        # indexes are stored in name order: "a_pre" sorts before every plain index, "ixp" after ix0, ix1
        early = rng.random() < 0.6
        plen = rng.choice([3, 10])
        parts.append("key %s (%s(%d))" % ("a_pre" if early else "ixp", bq(c["name"]), plen))
        idxs.append("prefix")
        idxdef["a_pre" if early else "ixp"] = [plen]
        free_ix = [c2 for c2 in ixc if (c2["name"],) not in used_sets]
        if early and free_ix:
            c2 = rng.choice(free_ix)
            parts.append("key zz_plain (%s)" % bq(c2["name"]))
            idxs.append("plain")
            idxdef["zz_plain"] = [0]
        pfx_before_plain = early and ("plain" in idxs or "unique" in idxs)
    checks = 0
    ints = [c for c in cols if c["cls"] == "int" and not c.get("gen")]
    if ints and rng.random() < 0.35:
        c = rng.choice(ints)
        parts.append(rng.choice(["constraint ck_%s check (%s > -5)" % (simple(tname), bq(c["name"])), "check (%s < 100)" % bq(c["name"])]))
        checks += 1
    tail = ""
    tcoll = None
    if rng.random() < 0.35:
        tcoll = rng.choice(COLLS)
        tail += " collate %s" % tcoll
    if rng.random() < 0.2:
        tail += " comment='%s'" % rng.choice(["tbl", "table comment"])
    q = "create table %s (%s)%s" % (bq(tname), ", ".join(parts), tail)
    return {"op": "create", "table": tname, "q": q,
            "meta": {"cols": [{k: v for k, v in c.items() if k != "opts"} for c in cols], "pk": [c["name"] for c in pk], "idx": idxs, "checks": checks,
                     "tcoll": tcoll, "autoinc": autoinc, "pfx_before_plain": pfx_before_plain, "idxdef": idxdef}}


def simple(s):
    return "".join(ch for ch in s if ch.isalnum() and ord(ch) < 128).lower()


class Sim:
    """enough of the schema state to write mostly valid statements (errors are tolerated: the statement is then skipped by the model too)"""

    def __init__(self):
        self.tabs = {}   # name -> {"cols": [names], "pk": [names], "cls": {name: cls}}

    def create(self, st):
        m = st["meta"]
        self.tabs[st["table"]] = {"cols": [c["name"] for c in m["cols"]], "pk": list(m["pk"]), "cls": {c["name"]: c["cls"] for c in m["cols"]},
                                  "gen": [c["name"] for c in m["cols"] if c.get("gen")], "nidx": 10}


def gen_alter(rng, sim, only=None):
    if not sim.tabs:
        return None
    t = rng.choice(sorted(sim.tabs))
    T = sim.tabs[t]
    kind = only or rng.choice(["addcol", "addcol", "addcol", "dropcol", "rename", "modify", "index", "check"])
    free = [n for n in COLNAMES + ["extra", "more", "E_x"] if n.lower() not in [c.lower() for c in T["cols"]]]
    plain = [c for c in T["cols"] if c not in T["pk"] and c not in T["gen"]]
    if kind == "addcol" and free:
        c = gen_col(rng, rng.choice(free))
        where = ""
        x = rng.random()
        pos = None
        if x < 0.2:
            where = " first"
            pos = 0
        elif x < 0.45 and T["cols"]:
            after = rng.choice(T["cols"])
            where = " after %s" % bq(after)
            pos = T["cols"].index(after) + 1
        T["cols"].insert(len(T["cols"]) if pos is None else pos, c["name"])
        T["cls"][c["name"]] = c["cls"]
        return {"op": "addcol", "table": t, "col": c["name"], "q": "alter table %s add column %s %s%s%s" % (bq(t), bq(c["name"]), c["ty"], c["opts"], where),
                "meta": {"cols": [{k: v for k, v in c.items() if k != "opts"}], "positioned": pos is not None}}
    if kind == "dropcol" and len(plain) >= 1 and len(T["cols"]) > 2:
        # a column used by a generated column / check / index may be refused: tolerated
        c = rng.choice(plain)
        T["cols"].remove(c)
        return {"op": "dropcol", "table": t, "col": c, "q": "alter table %s drop column %s" % (bq(t), bq(c))}
    if kind == "rename" and plain and free:
        c = rng.choice(plain)
        to = rng.choice(free)
        T["cols"][T["cols"].index(c)] = to
        T["cls"][to] = T["cls"].pop(c)
        return {"op": "rename", "table": t, "col": c, "to": to, "q": "alter table %s rename column %s to %s" % (bq(t), bq(c), bq(to))}
    if kind == "modify" and plain:
        c = rng.choice(plain)
        ty, cls, _ = rng.choice([x for x in TYPES if x[1] in ("int", "str", "text", "dec", "float")])
        T["cls"][c] = cls
        return {"op": "modify", "table": t, "col": c, "q": "alter table %s modify column %s %s" % (bq(t), bq(c), ty), "meta": {"ty": ty, "cls": cls}}
    if kind == "index":
        ixc = [c for c in T["cols"] if T["cls"].get(c) in INDEXABLE and c not in T["gen"]]
        if ixc:
            T["nidx"] += 1
            uniq = rng.random() < 0.3
            return {"op": "other", "table": t, "q": "create %sindex ix%d on %s (%s)" % ("unique " if uniq else "", T["nidx"], bq(t), bq(rng.choice(ixc))),
                    "meta": {"idx": "unique" if uniq else "plain"}}
    if kind == "check":
        ints = [c for c in T["cols"] if T["cls"].get(c) == "int" and c not in T["gen"]]
        if ints:
            T["nidx"] += 1
            return {"op": "other", "table": t, "q": "alter table %s add constraint ck%d check (%s <> 77)" % (bq(t), T["nidx"], bq(rng.choice(ints))),
                    "meta": {"check": True}}
    return None


FK_ACTIONS = ["", " on delete cascade", " on delete set null", " on update cascade", " on delete restrict on update set null", " on delete no action"]


def gen_extra(rng):
    """script for the third repository: what the tag model does not cover (indexes with fulltext / vector / spatial properties and comments,
    foreign keys incl. composite, self-referencing and unresolved ones); only the serialization round trips are observed there"""
    q = []
    x = rng.random()
    q.append("create table p (id int primary key, v varchar(20), w int not null, u int, unique key uw (w), key kv (v) comment 'idx %s', key kwu (w, u))" % rng.choice(["c", "comment", "x y"]))
    q.append("create table c (id int primary key, pid int, pw int, pu int, constraint fk1 foreign key (pid) references p(id)%s, "
             "constraint fk2 foreign key (pw) references p(w)%s)" % (rng.choice(FK_ACTIONS), rng.choice(FK_ACTIONS)))
    if rng.random() < 0.6:
        q.append("alter table c add constraint fk3 foreign key (pw, pu) references p(w, u)%s" % rng.choice(FK_ACTIONS))
    if rng.random() < 0.5:
        q.append("create table tree (id int primary key, parent int, constraint fkself foreign key (parent) references tree(id)%s)" % rng.choice(FK_ACTIONS))
    if rng.random() < 0.6:
        cols = rng.choice(["doc", "doc, title", "title"])
        q.append("create table `%s` (id int primary key, doc text, title varchar(100), fulltext key ftx (%s))" % (rng.choice(["ft", "F_T", "docs"]), cols))
    if rng.random() < 0.5:
        q.append("create table vt (id int primary key, emb %s not null, vector index vix (emb))" % rng.choice(["json", "vector(3)"]))
    if rng.random() < 0.5:
        q.append("create table sp (id int primary key, g %s not null srid %d, spatial key sg (g))" % (rng.choice(["point", "geometry", "polygon"]), rng.choice([0, 4326])))
    if rng.random() < 0.5:
        q.append("set foreign_key_checks=0")
        q.append("create table c2 (id int primary key, x int, y int, constraint fku foreign key (x%s) references nope(a%s))" % ((", y", ", b") if rng.random() < 0.4 else ("", "")))
    return q


RC_TYPES = ["int", "bigint", "varchar(20)", "text", "double", "decimal(10,2)", "datetime", "blob", "json", "int unsigned"]


def mk_recreate(tname, old, new, other=None):
    """old/new: lists of (column name, sql type).  Base = the old table committed; route x = DROP + CREATE in one working set;
    route y = the same two statements with a commit in between; fresh = the CREATE alone in an empty repository."""
    def create(cols):
        return {"op": "create", "table": tname, "q": "create table %s (%s)" % (bq(tname), ", ".join("%s %s" % (bq(n), t) for n, t in cols))}
    drop = {"op": "droptable", "table": tname, "q": "drop table %s" % bq(tname)}
    commit = {"op": "commit", "q": "call dolt_commit('-Am','between')"}
    base = [create(old)]
    if other:
        base.append({"op": "create", "table": other[0], "q": "create table %s (%s)" % (bq(other[0]), ", ".join("%s %s" % (bq(n), t) for n, t in other[1]))})
    return {"base": base, "x": [drop, create(new)], "y": [drop, commit, create(new)], "fresh": [create(new)], "old": [list(c) for c in old], "new": [list(c) for c in new]}


def prefix_preserving(rc):
    """the kept columns are a prefix of the old definition and, in the same order, a prefix of the new one: every column then has the same seed
    (kinds of the columns before it) whether its tag is re-used from HEAD or drawn afresh"""
    old, new = [tuple(c) for c in rc.get("old", [])], [tuple(c) for c in rc.get("new", [])]
    kept = [c for c in new if c in old]
    k = len(kept)
    return bool(k and old[:k] == kept and new[:k] == kept)


def gen_recreate(rng):
    names = rng.sample(COLNAMES, rng.randint(3, 7))
    nkeep = rng.randint(1, len(names) - 2)
    nomit = rng.randint(1, len(names) - nkeep - 1)
    keep, omit, add = names[:nkeep], names[nkeep:nkeep + nomit], names[nkeep + nomit:]
    ty = {n: rng.choice(RC_TYPES) for n in names}
    old = [(n, ty[n]) for n in keep + omit]
    new = [(n, ty[n]) for n in keep]
    if rng.random() < 0.6:
        new += [(n, ty[n]) for n in add]           # kept columns stay a prefix: the class in which the tags must not depend on the commit
    else:
        rng.shuffle(old)
        for n in add:
            new.insert(rng.randint(0, len(new)), (n, ty[n]))
    other = None
    if rng.random() < 0.4:
        other = (rng.choice(["other_tbl", "zz9", "side"]), [(n, rng.choice(RC_TYPES)) for n in rng.sample(COLNAMES, 2)])
    return mk_recreate(rng.choice(["t", "r1", "Re Created", "imp"]), old, new, other)


def gen_one(rng):
    c = gen_one_tags(rng)
    if rng.random() < 0.45:
        c["extra"] = gen_extra(rng)
    if rng.random() < 0.4:
        c["recreate"] = gen_recreate(rng)
    return c


def gen_one_tags(rng):
    sim = Sim()
    main, branch = [], []
    twins = rng.choice(TABLE_TWINS)
    other = rng.choice([t for t in TABLE_TWINS if t is not twins])
    ntab = rng.choice([1, 2, 2, 3])
    names = rng.sample(twins, min(ntab, len(twins))) if rng.random() < 0.7 else [twins[0]] + rng.sample(other, ntab - 1)
    shared_cols = rng.sample(COLNAMES, rng.randint(2, 5))
    for i, t in enumerate(names):
        # twins often share their leading column names (same seed => the second table's candidates collide with the first's tags)
        cn = None
        if i > 0 and rng.random() < 0.7:
            extra = [n for n in COLNAMES if n not in shared_cols]
            cn = shared_cols[:rng.randint(1, len(shared_cols))] + rng.sample(extra, rng.randint(0, 2))
        elif i == 0:
            cn = list(shared_cols)
        st = gen_create(rng, t, cn)
        sim.create(st)
        main.append(st)
        if rng.random() < 0.25:
            main.append({"op": "commit", "q": "call dolt_commit('-Am','c%d')" % i})
    for _ in range(rng.choice([0, 1, 2, 3])):
        st = gen_alter(rng, sim)
        if st:
            main.append(st)
    if rng.random() < 0.3 and sim.tabs:
        # drop + re-create with some shared columns (tags of columns with the same name and kind are re-used from HEAD when not yet committed)
        t = rng.choice(sorted(sim.tabs))
        old = [s for s in main if s["op"] == "create" and s["table"] == t][0]
        if rng.random() < 0.7:
            main.append({"op": "commit", "q": "call dolt_commit('-Am','before drop')"})
        main.append({"op": "droptable", "table": t, "q": "drop table %s" % bq(t)})
        if rng.random() < 0.4:
            main.append({"op": "commit", "q": "call dolt_commit('-Am','dropped')"})
        if rng.random() < 0.5 and len(sim.tabs) > 1:
            del sim.tabs[t]
            st = gen_alter(rng, sim, "addcol")
            if st:
                main.append(st)
        if rng.random() < 0.5:
            st = copy.deepcopy(old)     # same statement again: every column shared
        else:
            keep = [c["name"] for c in old["meta"]["cols"] if rng.random() < 0.6]
            extra = [n for n in COLNAMES if n not in keep]
            st = gen_create(rng, t, (keep + rng.sample(extra, rng.randint(1, 2))) if keep else None)
        sim.create(st)
        main.append(st)
    for _ in range(rng.choice([0, 1, 1, 2, 3, 4])):
        if rng.random() < 0.15:
            free = [t for tw in TABLE_TWINS for t in tw if t not in sim.tabs and t not in [s.get("table") for s in main]]
            st = gen_create(rng, rng.choice(free))
            sim.create(st)
        else:
            st = gen_alter(rng, sim, "addcol" if rng.random() < 0.5 else None)
        if st:
            branch.append(st)
    return {"main": main, "branch": branch}


def fixed_cases():
    c1 = {"main": [
        {"op": "create", "table": "t1", "q": "create table t1 (a int not null, b varchar(20) default 'x' comment 'hi', c decimal(10,2), d datetime(3), "
         "e enum('a','b'), primary key (b, a), unique key ub (c), check (a > 0)) collate utf8mb4_bin", "meta": {
             "cols": [{"name": "a", "ty": "int", "cls": "int"}, {"name": "b", "ty": "varchar(20)", "cls": "str", "default": True},
                      {"name": "c", "ty": "decimal(10,2)", "cls": "dec"}, {"name": "d", "ty": "datetime(3)", "cls": "dt"},
                      {"name": "e", "ty": "enum('a','b')", "cls": "enum"}], "pk": ["b", "a"], "idx": ["unique"], "checks": 1, "tcoll": "utf8mb4_bin", "autoinc": False}},
        {"op": "create", "table": "T_1", "q": "create table `T_1` (a int not null, b varchar(20), primary key (a))", "meta": {
            "cols": [{"name": "a", "ty": "int", "cls": "int"}, {"name": "b", "ty": "varchar(20)", "cls": "str"}], "pk": ["a"], "idx": [], "checks": 0, "tcoll": None, "autoinc": False}},
        {"op": "commit", "q": "call dolt_commit('-Am','x')"},
        {"op": "droptable", "table": "t1", "q": "drop table t1"},
        {"op": "create", "table": "t1", "q": "create table t1 (a int primary key, z int, b varchar(3))", "meta": {
            "cols": [{"name": "a", "ty": "int", "cls": "int"}, {"name": "z", "ty": "int", "cls": "int"}, {"name": "b", "ty": "varchar(3)", "cls": "str"}],
            "pk": ["a"], "idx": [], "checks": 0, "tcoll": None, "autoinc": False}}],
        "branch": [
        {"op": "addcol", "table": "T_1", "col": "nc", "q": "alter table `T_1` add column nc bigint after a", "meta": {"cols": [{"name": "nc", "ty": "bigint", "cls": "int"}], "positioned": True}},
        {"op": "dropcol", "table": "T_1", "col": "b", "q": "alter table `T_1` drop column b"},
        {"op": "rename", "table": "t1", "col": "z", "to": "zz", "q": "alter table t1 rename column z to zz"},
        {"op": "modify", "table": "t1", "col": "zz", "q": "alter table t1 modify column zz varchar(10)", "meta": {"ty": "varchar(10)", "cls": "str"}}]}
    c2 = {"main": [
        {"op": "create", "table": "kl", "q": "create table kl (a int, g int as (a + 1) stored, j json, p point srid 4326, t text, bb bit(17), y year, s set('x','y'), "
         "ts timestamp(6) default CURRENT_TIMESTAMP(6) on update CURRENT_TIMESTAMP(6), key ixp (t(10)))", "meta": {
             "cols": [{"name": "a", "ty": "int", "cls": "int"}, {"name": "g", "ty": "int", "cls": "int", "gen": True}, {"name": "j", "ty": "json", "cls": "json"},
                      {"name": "p", "ty": "point srid 4326", "cls": "geo"}, {"name": "t", "ty": "text", "cls": "text"}, {"name": "bb", "ty": "bit(17)", "cls": "bit"},
                      {"name": "y", "ty": "year", "cls": "year"}, {"name": "s", "ty": "set('x','y')", "cls": "set"},
                      {"name": "ts", "ty": "timestamp(6)", "cls": "dt", "default": True, "onupd": True}], "pk": [], "idx": ["prefix"], "checks": 0, "tcoll": None, "autoinc": False}}],
        "branch": []}
    c3 = {"main": [c1["main"][1]], "branch": [], "extra": [
        "create table p (id int primary key, v varchar(20), w int not null, u int, unique key uw (w), key kv (v) comment 'idx c', key kwu (w, u))",
        "create table c (id int primary key, pid int, pw int, pu int, constraint fk1 foreign key (pid) references p(id) on delete cascade on update set null, "
        "constraint fk2 foreign key (pw) references p(w), constraint fk3 foreign key (pw, pu) references p(w, u))",
        "create table tree (id int primary key, parent int, constraint fkself foreign key (parent) references tree(id) on delete set null)",
        "create table ft (id int primary key, doc text, title varchar(100), fulltext key ftx (doc, title))",
        "create table vt (id int primary key, emb json not null, vector index vix (emb))",
        "create table vt2 (id int primary key, emb vector(3) not null, vector index vix (emb))",
        "create table sp (id int primary key, g point not null srid 0, spatial key sg (g))",
        "set foreign_key_checks=0",
        "create table c2 (id int primary key, x int, constraint fku foreign key (x) references nope(y))"]}
    # the same statements with the commit placed differently (seeded/C37-1: README's example)
    c4 = {"main": [], "branch": [], "recreate": mk_recreate(
        "t", [("a", "int"), ("b", "int"), ("x", "varchar(20)")], [("a", "int"), ("b", "int"), ("c", "int")])}
    # open finding tags:recreate-tags-depend-on-commit-placement: the new column comes first, so the kept column a moves to another seed position
    c5 = {"main": [], "branch": [], "recreate": mk_recreate(
        "t", [("a", "int"), ("x", "varchar(20)")], [("n", "int"), ("a", "int")])}
    # a prefix index that sorts (by name) before a plain index: per-index prefix lengths must survive the round trip separately
    c6 = {"main": [{"op": "create", "table": "p", "q": "create table p (id int primary key, v1 varchar(255), v2 varchar(255), n int, "
                    "key a_pre (v1(3)), key b_plain (v2), key c_int (n), key d_pre (v2(10), v1(5)), key e_two (n, v1))", "meta": {
                        "cols": [{"name": "id", "ty": "int", "cls": "int"}, {"name": "v1", "ty": "varchar(255)", "cls": "str"},
                                 {"name": "v2", "ty": "varchar(255)", "cls": "str"}, {"name": "n", "ty": "int", "cls": "int"}],
                        "pk": ["id"], "idx": ["prefix", "plain", "plain", "prefix", "plain"], "checks": 0, "tcoll": None, "autoinc": False,
                        "pfx_before_plain": True,
                        "idxdef": {"a_pre": [3], "b_plain": [0], "c_int": [0], "d_pre": [10, 5], "e_two": [0, 0]}}}],
          "branch": [{"op": "addcol", "table": "p", "col": "x", "q": "alter table p add column x int",
                      "meta": {"cols": [{"name": "x", "ty": "int", "cls": "int"}], "positioned": False}}]}
    return [c1, c2, c3, c4, c5, c6] + known_witness_cases()


def known_witness_cases():
    """open finding merge:check-on-uppercase-column-spurious-schema-conflict (first case) and its lower-case control (second case)"""
    out = []
    for col in ("C1", "c1"):
        out.append({"main": [{"op": "create", "table": "t", "q": "create table t (`%s` int, constraint ck check (`%s` > 0))" % (col, col), "meta": {
            "cols": [{"name": col, "ty": "int", "cls": "int"}], "pk": [], "idx": [], "checks": 1, "tcoll": None, "autoinc": False}}],
            "branch": [{"op": "addcol", "table": "t", "col": "x", "q": "alter table t add column x int",
                        "meta": {"cols": [{"name": "x", "ty": "int", "cls": "int"}], "positioned": False}}]})
    # open finding merge:duplicate-index-column-set-spurious-schema-conflict, and its control
    for second in ("a", "b"):
        out.append({"main": [{"op": "create", "table": "t", "q": "create table t (a int, b int, key i0 (a), key i1 (%s))" % second, "meta": {
            "cols": [{"name": "a", "ty": "int", "cls": "int"}, {"name": "b", "ty": "int", "cls": "int"}], "pk": [], "idx": ["plain", "plain"], "checks": 0,
            "tcoll": None, "autoinc": False}}],
            "branch": [{"op": "addcol", "table": "t", "col": "x", "q": "alter table t add column x int",
                        "meta": {"cols": [{"name": "x", "ty": "int", "cls": "int"}], "positioned": False}}]})
    # open finding schema:generated-expr-unquoted-table-qualifier-unparseable, and its control (a table name that needs no quoting)
    for tn in ("t-1", "t1"):
        out.append({"main": [{"op": "create", "table": tn, "q": "create table `%s` (a int, k int as (a + 1) stored, c1 int not null, primary key (c1))" % tn, "meta": {
            "cols": [{"name": "a", "ty": "int", "cls": "int"}, {"name": "k", "ty": "int", "cls": "int", "gen": True}, {"name": "c1", "ty": "int", "cls": "int"}],
            "pk": ["c1"], "idx": [], "checks": 0, "tcoll": None, "autoinc": False}},
            {"op": "other", "table": tn, "q": "create unique index ix on `%s` (c1)" % tn, "meta": {"idx": "unique"}}], "branch": []})
    # open finding merge:keyless-on-update-without-default-merge-error, and its control (keyed table)
    for pk in ("", " primary key"):
        out.append({"main": [{"op": "create", "table": "t", "q": "create table t (a int%s, ts timestamp on update current_timestamp)" % pk, "meta": {
            "cols": [{"name": "a", "ty": "int", "cls": "int"}, {"name": "ts", "ty": "timestamp", "cls": "dt", "onupd": True}],
            "pk": ["a"] if pk else [], "idx": [], "checks": 0, "tcoll": None, "autoinc": False}}],
            "branch": [{"op": "addcol", "table": "t", "col": "x", "q": "alter table t add column x int",
                        "meta": {"cols": [{"name": "x", "ty": "int", "cls": "int"}], "positioned": False}}]})
    # open finding tags:duplicate-tag-after-drop-addcol-recreate = the witness of Proofs.v tags_distinct_refuted replayed on the implementation.
    # x16536 was found with the harness runner c37find: the first tag AutoGenerateTag draws for (v, [IntKind], x16536, IntKind) is 13438,
    # the tag of t.a.  (If the seeding ever changes the case simply stops colliding.)
    ic = {"name": "a", "ty": "int", "cls": "int"}
    out.append({"main": [
        {"op": "create", "table": "t", "q": "create table t (a int primary key)", "meta": {"cols": [ic], "pk": ["a"], "idx": [], "checks": 0, "tcoll": None, "autoinc": False}},
        {"op": "create", "table": "v", "q": "create table v (p int primary key)", "meta": {"cols": [dict(ic, name="p")], "pk": ["p"], "idx": [], "checks": 0, "tcoll": None, "autoinc": False}},
        {"op": "commit", "q": "call dolt_commit('-Am','c')"},
        {"op": "droptable", "table": "t", "q": "drop table t"},
        {"op": "addcol", "table": "v", "col": "x16536", "q": "alter table v add column x16536 int", "meta": {"cols": [dict(ic, name="x16536")], "positioned": False}},
        {"op": "create", "table": "t", "q": "create table t (a int primary key)", "meta": {"cols": [ic], "pk": ["a"], "idx": [], "checks": 0, "tcoll": None, "autoinc": False}}],
        "branch": []})
    return out


def gen_cases(rng, tier):
    n = 70 if tier == "quick" else 3000
    cases = fixed_cases()
    seen = set()
    while len(cases) < n:
        c = gen_one(rng)
        k = repr([s["q"] for s in c["main"] + c["branch"]])
        if k in seen:
            continue
        seen.add(k)
        cases.append(c)
    return cases


# ---------------------------------------------------------------------------------------------------------
def B(s):
    """bytes of s as a Coq term: a string literal through Corr.bs when printable, else a list of numerals"""
    raw = s.encode("utf-8")
    if not raw:
        return "[]"
    if all(32 <= b < 127 or b >= 128 for b in raw):
        return '(bs "%s"%%string)' % s.replace('"', '""')
    return cq_bytes(raw)


def cq_root(tabs):
    return cq_list("(%s, %s)" % (B(t["name"]), cq_list("{| c_name := %s; c_kind := %d; c_tag := %d |}" % (B(c["name"]), c["kind"], c["tag"]) for c in t["cols"]))
                   for t in tabs)


def cq_ddl(st, so):
    ok = so["err"] == ""
    op = st["op"]
    t = B(st.get("table", ""))
    if not ok or op == "other":
        return "(Commit, false)"
    if op == "create":
        return "(Create %s %s, true)" % (t, cq_list("(%s, %d)" % (B(n), k) for n, k in zip(so["names"], so["kinds"])))
    if op == "addcol":
        return "(AddCol %s %s %d %d%%nat, true)" % (t, B(st["col"]), so["kinds"][0], so["pos"])
    if op == "dropcol":
        return "(DropCol %s %s, true)" % (t, B(st["col"]))
    if op == "droptable":
        return "(DropTable %s, true)" % t
    if op == "rename":
        return "(RenameCol %s %s %s, true)" % (t, B(st["col"]), B(st["to"]))
    if op == "modify":
        return "(ModifyKind %s %s %d, true)" % (t, B(st["col"]), so["kinds"][0])
    if op == "commit":
        return "(Commit, true)"
    return "(Commit, false)"


def cq_ft(t):
    if not any([t["config"], t["pos"], t["doccount"], t["global"], t["rowcount"], t["keytype"], t["keyname"], t["keypos"]]):
        return "ft_zero"
    return ("{| ft_config := %s; ft_pos := %s; ft_doccount := %s; ft_global := %s; ft_rowcount := %s; ft_keytype := %d; ft_keyname := %s; ft_keypos := %s |}" % (
        B(t["config"]), B(t["pos"]), B(t["doccount"]), B(t["global"]), B(t["rowcount"]), t["keytype"], B(t["keyname"]), cq_list(str(p) for p in t["keypos"])))


def cq_fks(l):
    return cq_list("{| fk_name := %s; fk_table := %s; fk_index := %s; fk_cols := %s; fk_reftable := %s; fk_refindex := %s; fk_refcols := %s; "
                   "fk_onupdate := %d; fk_ondelete := %d; fk_unres := %s; fk_unresref := %s; fk_notvalid := %s; fk_match := %d |}" % (
                       B(k["name"]), B(k["table"]), B(k["index"]), cq_list(str(t) for t in k["cols"]), B(k["reftable"]), B(k["refindex"]),
                       cq_list(str(t) for t in k["refcols"]), k["onupdate"], k["ondelete"], cq_list(B(x) for x in k["unrescols"]),
                       cq_list(B(x) for x in k["unresref"]), cq_bool(k["notvalid"]), k["match"]) for k in l)


def cq_schema(f):
    cols = cq_list(
        "{| sc_name := %s; sc_tag := %d; sc_ty := %s; sc_nullable := %s; sc_pk := %s; sc_autoinc := %s; sc_default := %s; sc_generated := %s; "
        "sc_onupdate := %s; sc_virtual := %s; sc_comment := %s; sc_hidden := %s; sc_syshidden := %s |}" % (
            B(c["name"]), c["tag"], B(c["ty"]), cq_bool(c["nullable"]), cq_bool(c["pk"]), cq_bool(c["autoinc"]), B(c["default"]), B(c["gen"]),
            B(c["onupd"]), cq_bool(c["virtual"]), B(c["comment"]), cq_bool(c["hidden"]), cq_bool(c["syshidden"])) for c in f["cols"])
    idx = cq_list("{| ix_name := %s; ix_tags := %s; ix_unique := %s; ix_comment := %s; ix_prefix := %s; ix_userdef := %s; ix_spatial := %s; "
                  "ix_fulltext := %s; ix_vector := %s; ix_predicate := %s; ix_ft := %s; ix_vecdist := %d |}" % (
        B(x["name"]), cq_list(str(t) for t in x["tags"]), cq_bool(x["unique"]), B(x["comment"]), cq_list(str(p) for p in x["prefix"]),
        cq_bool(x["userdef"]), cq_bool(x["spatial"]), cq_bool(x["fulltext"]), cq_bool(x["vector"]), B(x["predicate"]), cq_ft(x["ft"]), x["vecdist"])
        for x in f["idx"])
    chk = cq_list("{| ck_name := %s; ck_expr := %s; ck_enforced := %s; ck_notvalid := %s |}" % (
        B(k["name"]), B(k["expr"]), cq_bool(k["enforced"]), cq_bool(k["notvalid"])) for k in f["chk"])
    return "{| s_cols := %s; s_pk_ord := %s; s_indexes := %s; s_checks := %s; s_collation := %d; s_comment := %s; s_rowsize := %d |}" % (
        cols, cq_list("%d%%nat" % p for p in f["pkord"]), idx, chk, f["coll"], B(f["comment"]), f["rowsize"])


BAD = ("({| i_main := []; i_branch := []; i_cands := []; i_schemas := []; i_fks := []; i_rc_base := []; i_rc_x := []; i_rc_y := []; i_rc_fresh := [] |}, "
       "{| o_states := []; o_b2 := []; o_envb := []; o_merged := []; "
       "o_merge := 9; o_back := []; o_flags := [false]; o_fks_back := []; o_fkflags := []; o_rc_x := []; o_rc_y := []; o_rc_yrepo := []; o_rc_fresh := []; o_rc_merge := 9 |})")


def merge_class(o):
    m = o["merge"]
    if m.get("err"):
        return 2
    try:
        conf = m["rows"][0][m["cols"].index("conflicts")]
        sc = o["schconf"]
        nsc = len(sc["rows"]) if not sc.get("err") else 0
    except (KeyError, IndexError, ValueError):
        return 2
    return 0 if conf == "i:0" and nsc == 0 else 1


def rt_basic(o, r):
    """SchemasAreEqual, TypeInfo.Equals per column, SerializeSchema deterministic (twice, after the round trip; for repository A also:
    same bytes and same stored schema hash in repository B and on branch b2)"""
    ok = bool(r["err"] == "" and r["equal"] and all(c["tyeq"] for c in r["back"]["cols"]) and len(r["back"]["cols"]) == len(r["stored"]["cols"])
              and r["twice"] and r["reser"])
    if r.get("env") == "A":
        t = r["table"]
        ok = ok and r["bytes"] == o["bytesb"].get(t) and r["hash"] != "" and r["hash"] == o["hashb"].get(t) == o["hashb2"].get(t)
    return ok


def declared_indexes(case, o):
    """table -> {index name -> declared prefix lengths} from the last accepted CREATE TABLE of the script (main ++ branch on b1)"""
    d = {}
    for st, so in zip(case["main"] + case["branch"], o["steps"]):
        if so["err"]:
            continue
        if st["op"] == "create" and "idxdef" in st.get("meta", {}):
            d[st["table"].lower()] = st["meta"]["idxdef"]
        elif st["op"] in ("create", "droptable", "modify"):
            # (MODIFY COLUMN may change a column to a type that cannot carry a prefix: the declaration no longer binds)
            d.pop(st["table"].lower(), None)
    return d


def prefix_as_declared(o, r):
    """the reloaded schema's per-index prefix lengths are the ones the DDL declared (an index that still has its declared number of columns)"""
    decl = (o.get("_decl") or {}).get(r["table"].lower())
    if not decl or r.get("env") != "A":
        return True
    for x in r["stored"]["idx"]:
        want = decl.get(x["name"]) or decl.get(x["name"].lower())
        if want is None or len(want) != len(x["tags"]):
            continue
        got = list(x["prefix"])
        if (got if any(got) else []) != (want if any(want) else []):
            return False
    return True


def rt_flag(o, r):
    ok = rt_basic(o, r) and not r["create"].startswith("ERR") and prefix_as_declared(o, r)
    if r.get("env") == "A":
        ok = ok and o["createb"].get(r["table"]) == r["create"]
    return bool(ok)


def coq_case(case, out):
    o = out.get("obs")
    if not o or out.get("err") or out.get("panic"):
        return BAD
    stmts = case["main"] + case["branch"]
    if len(o["steps"]) != len(stmts):
        return BAD
    o["_decl"] = declared_indexes(case, o)
    nm = len(case["main"])
    ddls = [cq_ddl(st, so) for st, so in zip(stmts, o["steps"])]
    # statements that are no-ops for the tag model (rejected / index / check) are left out together with the state after them,
    # except the last statement of each part (the final state is always compared)
    keep = [i for i, d in enumerate(ddls) if d != "(Commit, false)" or i == nm - 1 or i == len(ddls) - 1]
    cands = cq_list("((%s, %s, %s, %d), %s)" % (B(c["table"]), B(c["col"]), cq_list(str(k) for k in c["kinds"]), c["kind"], cq_list(str(x) for x in c["seq"]))
                    for c in o["cands"])
    rc, rco = case.get("recreate"), o.get("rc")
    rcd = {}
    for part in ("base", "x", "y", "fresh"):
        if rc and rco and len(rco[part]) == len(rc[part]):
            rcd[part] = cq_list(cq_ddl(st, so) for st, so in zip(rc[part], rco[part]))
        else:
            rcd[part] = "[]"
    inp = "{| i_main := %s; i_branch := %s; i_cands := %s; i_schemas := %s; i_fks := %s; i_rc_base := %s; i_rc_x := %s; i_rc_y := %s; i_rc_fresh := %s |}" % (
        cq_list(ddls[i] for i in keep if i < nm), cq_list(ddls[i] for i in keep if i >= nm), cands, cq_list(cq_schema(r["stored"]) for r in o["rt"]),
        cq_list(cq_fks(f["stored"]) for f in o["fks"]), rcd["base"], rcd["x"], rcd["y"], rcd["fresh"])
    # a statement the implementation accepts on b1 must be accepted on b2 and in repository B as well (and vice versa)
    errs_a = [so["err"] != "" for so in o["steps"]]
    same_acc = ([e != "" for e in o["b2errs"]] == errs_a[nm:]) and ([e != "" for e in o["envberrs"]] == errs_a)
    if rc and rco:
        # the y route must be accepted / rejected the same way on the branch and in the independent repository, and the merged branch = both
        same = [e != "" for e in rco["yrepoerrs"]] == [so["err"] != "" for so in rco["y"]] and rco["merged"] == rco["yt"]
        rcobs = "o_rc_x := %s; o_rc_y := %s; o_rc_yrepo := %s; o_rc_fresh := %s; o_rc_merge := %d" % (
            cq_root(rco["xt"]), cq_root(rco["yt"]), cq_root(rco["yrepot"]), cq_root(rco["fresht"]),
            merge_class({"merge": rco["merge"], "schconf": rco["schconf"]}) if same else 3)
    else:
        rcobs = "o_rc_x := []; o_rc_y := []; o_rc_yrepo := []; o_rc_fresh := []; o_rc_merge := %d" % (9 if rc else 0)
    obs = "{| o_states := %s; o_b2 := %s; o_envb := %s; o_merged := %s; o_merge := %d; o_back := %s; o_flags := %s; o_fks_back := %s; o_fkflags := %s; " + rcobs.replace("%", "%%") + " |}"
    obs = obs % (
        cq_list(cq_root(o["steps"][i]["after"]) for i in keep), cq_root(o["b2"]), cq_root(o["envb"]), cq_root(o["merged"]),
        merge_class(o) if same_acc else 3,
        cq_list(("None" if r["err"] else "(Some %s)" % cq_schema(r["back"])) for r in o["rt"]),
        cq_list(cq_bool(rt_flag(o, r)) for r in o["rt"]),
        cq_list(("None" if f["err"] else "(Some %s)" % cq_fks(f["back"])) for f in o["fks"]),
        cq_list(cq_bool(f["twice"] and not f["err"]) for f in o["fks"]))
    return "(%s, %s)" % (inp, obs)


def classify(case, out):
    o = out.get("obs")
    if not o or out.get("err") or out.get("panic"):
        return ["harness-error"]
    if len(o["steps"]) == len(case["main"] + case["branch"]):
        o["_decl"] = declared_indexes(case, o)
    t = set()
    stmts = case["main"] + case["branch"]
    nm = len(case["main"])
    if case["branch"]:
        t.add("branch-ddl")
    for i, (st, so) in enumerate(zip(stmts, o["steps"])):
        if so["err"]:
            t.add("ddl-rejected")
            continue
        m = st.get("meta", {})
        op = st["op"]
        if op in ("addcol", "dropcol", "rename"):
            t.add(op)
        if op == "addcol" and m.get("positioned"):
            t.add("addcol-positioned")
        if op == "modify":
            prev = o["steps"][i - 1]["after"] if i else []
            pk = [c["kind"] for tb in prev if tb["name"] == st["table"] for c in tb["cols"] if c["name"].lower() == st["col"].lower()]
            if pk and so["kinds"] and pk[0] != so["kinds"][0]:
                t.add("modify-kind")
        if op == "create":
            if not m.get("pk"):
                t.add("keyless")
            decl = [c["name"] for c in m.get("cols", []) if c["name"] in m.get("pk", [])]
            if len(m.get("pk", [])) >= 2 and decl != m["pk"]:
                t.add("multi-pk-reordered")
            for x in m.get("idx", []):
                t.add({"plain": "index", "unique": "unique-index", "prefix": "prefix-index"}[x])
            if m.get("pfx_before_plain"):
                t.add("prefix-index-before-plain")
            if m.get("checks"):
                t.add("check")
            if m.get("tcoll"):
                t.add("table-collation")
            if m.get("autoinc"):
                t.add("autoinc")
        if m.get("idx") and op == "other":
            t.add({"plain": "index", "unique": "unique-index"}[m["idx"]])
        if m.get("check"):
            t.add("check")
        for c in m.get("cols", []):
            for ty, cls, tag in TYPES:
                if ty == c["ty"] and tag:
                    t.add(tag)
            if c.get("default"):
                t.add("default")
            if c.get("gen"):
                t.add("generated")
            if c.get("onupd"):
                t.add("on-update")
            if c.get("coll"):
                t.add("col-collation")
    for r in o["rt"]:
        if any(c["comment"] for c in r["stored"]["cols"]) or r["stored"]["comment"]:
            t.add("comment")
    # a tag that is not the first candidate of its seed: a collision was stepped over
    first = {c["seq"][0] for c in o["cands"] if c["seq"]}
    alltags = {c["tag"] for so in o["steps"] for tb in so["after"] for c in tb["cols"]}
    later = {x for c in o["cands"] for x in c["seq"][1:-1]}
    if alltags & later:
        t.add("tag-collision")
    # re-created table that kept tags from HEAD
    for i, (st, so) in enumerate(zip(stmts, o["steps"])):
        if st["op"] == "create" and not so["err"] and any(s["op"] == "droptable" and s.get("table") == st["table"] for s in stmts[:i]):
            seen_before = {c["tag"] for s2 in o["steps"][:i] for tb in s2["after"] if tb["name"] == st["table"] for c in tb["cols"]}
            now = {c["tag"] for tb in so["after"] if tb["name"] == st["table"] for c in tb["cols"]}
            if seen_before & now:
                t.add("head-reuse")
    for r in o["rt"]:
        for x in r["stored"]["idx"]:
            if x["fulltext"]:
                t.add("fulltext-index")
            if x["vector"]:
                t.add("vector-index")
            if x["spatial"]:
                t.add("spatial-index")
            if x["comment"]:
                t.add("index-comment")
            if not x["userdef"]:
                t.add("system-index")
    for f in o["fks"]:
        for k in f["stored"]:
            t.add("foreign-key")
            if not k["cols"]:
                t.add("fk-unresolved")
            if k["ondelete"] or k["onupdate"]:
                t.add("fk-actions")
            if len(k["cols"]) >= 2:
                t.add("fk-composite")
    if any(e for e in o.get("extraerr", [])):
        t.add("extra-rejected")
    rc, rco = case.get("recreate"), o.get("rc")
    if rc and rco:
        if all(so["err"] == "" for part in ("base", "x", "y", "fresh") for so in rco[part]) and prefix_preserving(rc):
            t.add("same-ddl-different-commit-placement-recreate")
        elif not prefix_preserving(rc):
            t.add("recreate-reordered")
        else:
            t.add("recreate-rejected")
        if rco["xt"] != rco["yt"] or rco["xt"] != rco["yrepot"]:
            t.add("recreate-tags-differ")
        if merge_class({"merge": rco["merge"], "schconf": rco["schconf"]}) != 0:
            t.add("recreate-merge-not-clean")
    mc = merge_class(o)
    t.add(["merge-clean", "merge-conflict", "merge-error"][mc])
    if not all(rt_flag(o, r) for r in o["rt"]):
        t.add("roundtrip-flag-false")
    return sorted(t)


def nontrivial(case, out):
    o = out.get("obs")
    return bool(o and o.get("cands") and (o.get("rt") or o.get("rc")))


def shrink_candidates(case):
    # whole parts first
    if case.get("recreate") and (case["main"] or case["branch"] or case.get("extra")):
        yield {"main": [], "branch": [], "recreate": copy.deepcopy(case["recreate"])}
    if case.get("recreate") and (case["main"] or case["branch"]):
        c = copy.deepcopy(case)
        del c["recreate"]
        yield c
    if case.get("recreate") and len(case["recreate"]["base"]) > 1:
        c = copy.deepcopy(case)
        c["recreate"]["base"] = c["recreate"]["base"][:1]
        yield c
    if case["branch"]:
        c = copy.deepcopy(case)
        c["branch"] = []
        yield c
    if case.get("extra"):
        c = copy.deepcopy(case)
        del c["extra"]
        yield c
        for i in range(len(case["extra"]) - 1, -1, -1):
            c = copy.deepcopy(case)
            del c["extra"][i]
            yield c
    for part in ("branch", "main"):
        for i in range(len(case[part]) - 1, -1, -1):
            c = copy.deepcopy(case)
            del c[part][i]
            yield c


def neighbours(case, rng):
    return list(shrink_candidates(case))[:40]


def search_cases(rng):
    return [gen_one(rng) for _ in range(60)]


def _upper_check_conflict(case, out):  # noqa: C901
    """both branches and repository B agree on everything, the round trips are faithful, and the only complaint of the merge is
    "check ... references a column that will be deleted after merge" on a table whose check names a column with upper-case letters"""
    o = out.get("obs")
    if not o or not _all_else_fine(o, 1):
        return False
    rows = o["schconf"].get("rows") or []
    if not rows:
        return False
    for tn, desc in rows:
        if "references a column that will be deleted after merge" not in desc:
            return False
        r = [x for x in o["rt"] if "s:" + x["table"] == tn]
        if not r:
            return False
        up = [c["name"] for c in r[0]["stored"]["cols"] if c["name"] != c["name"].lower()]
        if not any("`%s`" % n in k["expr"] for n in up for k in r[0]["stored"]["chk"]):
            return False
    return True


def _all_else_fine(o, want_merge, rt=True):
    return (merge_class(o) == want_merge and (want_merge == 2 or not o["merge"].get("err")) and o["b1"] == o["b2"] == o["envb"] == o["merged"]
            and all((rt_flag(o, r) or not rt) and r["stored"] == r["back"] and r["equal"] and not r["err"] for r in o["rt"]))


def _gen_expr_unparseable(case, out):
    """everything agrees, merges and round-trips; the only complaint is SHOW CREATE TABLE failing with "Invalid default value" on a table
    whose name needs quoting and whose stored default / generated expression carries that name as an unquoted qualifier"""
    o = out.get("obs")
    if not o or not _all_else_fine(o, 0, rt=False):
        return False
    bad = [r for r in o["rt"] if not rt_flag(o, r)]
    if not bad:
        return False
    for r in bad:
        tn = r["table"]
        if not r["create"].startswith("ERR Invalid default value for") or tn.isalnum():
            return False
        if not any((tn + ".") in c["gen"] or (tn + ".") in c["default"] or (tn.lower() + ".") in c["gen"] or (tn.lower() + ".") in c["default"]
                   for c in r["stored"]["cols"]):
            return False
    return True


def _keyless_onupdate_merge_error(case, out):
    """everything agrees and round-trips; the merge of the two identical branches fails with "unable to find default or generated
    expression" and a keyless table has a column with ON UPDATE but no DEFAULT"""
    o = out.get("obs")
    if not o or not _all_else_fine(o, 2):
        return False
    if o["merge"].get("err") != "unable to find default or generated expression":
        return False
    return any(not r["stored"]["pkord"] and any(c["onupd"] and not c["default"] for c in r["stored"]["cols"]) for r in o["rt"])


def _dup_index_conflict(case, out):
    """everything agrees and the only complaint of the merge is "multiple indexes covering the same column set" on a table that
    really has two indexes over the same columns on both (identical) sides"""
    o = out.get("obs")
    if not o or not _all_else_fine(o, 1):
        return False
    rows = o["schconf"].get("rows") or []
    if not rows:
        return False
    for tn, desc in rows:
        if "multiple indexes covering the same column set cannot be merged" not in desc:
            return False
        r = [x for x in o["rt"] if "s:" + x["table"] == tn]
        if not r:
            return False
        sets = [tuple(ix["tags"]) for ix in r[0]["stored"]["idx"]]
        if len(set(sets)) == len(sets):
            return False
    return True


def _dup_tag_after_recreate(case, out):
    """everything agrees and merges cleanly, and every duplicated tag is shared by a column of a table that was dropped and re-created
    (its tags come back from HEAD) and a column added with ADD COLUMN (which only avoids the working root's tags) in between"""
    o = out.get("obs")
    if not o or not _all_else_fine(o, 0):
        return False
    stmts = case["main"] + case["branch"]
    pairs = set()     # (re-created table, altered table, added column)
    for i, st in enumerate(stmts):
        if st["op"] != "droptable":
            continue
        for j in range(i + 1, len(stmts)):
            if stmts[j]["op"] == "create" and stmts[j].get("table") == st["table"]:
                for a in stmts[i + 1:j]:
                    if a["op"] == "addcol":
                        pairs.add((st["table"], a["table"], a["col"].lower()))
                break
    if not pairs:
        return False
    found = False
    for tabs in [so["after"] for so in o["steps"]] + [o["b2"], o["envb"], o["merged"]]:
        holders = {}
        for tb in tabs:
            for c in tb["cols"]:
                holders.setdefault(c["tag"], []).append((tb["name"], c["name"].lower()))
        for tag, hs in holders.items():
            if len(hs) < 2:
                continue
            found = True
            if len(hs) != 2:
                return False
            (t1, c1), (t2, c2) = hs
            if not any((t1 == rt and t2 == at and c2 == ac) or (t2 == rt and t1 == at and c1 == ac) for rt, at, ac in pairs):
                return False
    return found


def _recreate_reordered(case, out):
    """the main scenario is fine; the only complaint is that the re-created table got other tags (and a schema conflict) on the route with a
    commit between DROP and CREATE, and the new definition moves a kept column to another seed position (not prefix-preserving)"""
    o = out.get("obs")
    rc = case.get("recreate")
    if not o or not rc or not o.get("rc") or prefix_preserving(rc):
        return False
    if not _all_else_fine(o, 0):
        return False
    ro = o["rc"]
    if any(so["err"] for part in ("base", "x", "y", "fresh") for so in ro[part]) or any(ro["yrepoerrs"]):
        return False
    # the two executions of the y route agree with each other and with the fresh repository
    if ro["yt"] != ro["yrepot"] or any(t not in ro["yt"] for t in ro["fresht"]):
        return False
    return ro["xt"] != ro["yt"]


def match_known(finding, case, out):
    k = finding.get("key")
    o_ = out.get("obs") if out else None
    if o_ and len(o_.get("steps", [])) == len(case["main"] + case["branch"]):
        o_["_decl"] = declared_indexes(case, o_)
    if k == "tags:recreate-tags-depend-on-commit-placement":
        return _recreate_reordered(case, out)
    if k == "merge:check-on-uppercase-column-spurious-schema-conflict":
        return _upper_check_conflict(case, out)
    if k == "merge:duplicate-index-column-set-spurious-schema-conflict":
        return _dup_index_conflict(case, out)
    if k == "tags:duplicate-tag-after-drop-addcol-recreate":
        return _dup_tag_after_recreate(case, out)
    if k == "schema:generated-expr-unquoted-table-qualifier-unparseable":
        return _gen_expr_unparseable(case, out)
    if k == "merge:keyless-on-update-without-default-merge-error":
        return _keyless_onupdate_merge_error(case, out)
    return False
