"""C26 — Dolt returns the same query results as the reference engine."""
import copy
import json

from lib.vlib import cq_list, cq_bool

ID = "C26"
HARNESS_PKG = "c26"
HARNESS_RUNNER = "c26"
COQ_TARGETS = ["theories/C26/Corr.vo"]
COQ_CORR_MODULE = "C26.Model C26.Spec C26.Corr"
COQ_CASE_TYPE = "C26.Corr.case"
COQ_CHECK = "C26.Corr.check_case"
COQ_MODEL_OBS = "(fun c => C26.Corr.model_obs (fst c))"
COQ_SHARD = 40
HARNESS_TIMEOUT = 2400
COQ_EVAL_TIMEOUT = 1800
DESIGN_REF = "§5 C26"
TECHNIQUE = ("Coq proof (index range construction + prolly range scan = declarative cut predicate for every sorted key list and every range; "
             "merge join and lookup join over key-sorted inputs = nested-loop join; COUNT fast path = length) + in-Coq correspondence on explicit "
             "ranges driven through the real range builder and map iterator + differential run of generated SELECTs against go-mysql-server's "
             "in-memory engine, with the declarative answer recomputed in Coq from the data")
LEVEL_TEXT = ("Proof (P): for every key width, nullability vector, integer encodings, key list sorted in tuple order and every index range (per "
              "column: lower/upper cut among BelowNull, AboveNull, Below k, Above k, AboveAll; any number of columns, prefix ranges included) the model of "
              "pruneEmptyRanges + prollyRangesFromSqlRanges + Map.IterRange (KeyRangeLookup/IncrementTuple with the overflow guard of every signed width, "
              "start/stop searches, Matches post-filter) returns exactly the keys lying between the cuts, in order, and a pruned range contains no key "
              "(ranges_sound_complete; above_start_monotone, below_stop_antitone justify the binary searches; range_oracle_on_model: the oracle accepts the "
              "model's own range observation). The merge-join iterator is modelled as the explicit state machine of merge_join.go (leftKey, rightKey, "
              "nextRightKey, lookaheadBuf, matchPos, matchedLeft, exhaustLeft, the labels compare/match) and proved, for every left input and key-sorted "
              "right input, to terminate with exactly the row SEQUENCE of the staged formulation (merge_join_sm_refines); hence it is a permutation of the "
              "nested-loop join for inner joins (merge_join_sm_inner_spec) and for left joins with at most one NULL left key "
              "(merge_join_sm_left_spec_partial); the unrestricted left-join statement is refuted on the state machine itself "
              "(merge_join_sm_left_refuted, reproduced on dolt). The lookup join equals the nested-loop join (lookup_join_spec); COUNT equals the declarative count "
              "on keyed tables through the fast path and on keyless tables, which the fast path declines, through the row executor (count_answer_spec). Whole queries (planning, expression evaluation, "
              "DISTINCT, GROUP BY, LIMIT, subqueries, ORDER BY, AS OF tag/branch/HEAD~n) are covered differentially: every generated SELECT must return the "
              "rows of the reference engine and the rows computed declaratively in Coq from the data; merge-join output is compared with the state machine "
              "in dolt's row ORDER.")
LEVEL_NOTE = ("Partial: the theorems cover the key-value executors and range construction over signed integer columns; the SQL analyzer, type coercion, "
              "other column types and collations rest on the differential part. Trusted: Coq kernel, Go harness (it also runs the reference engine and "
              "reports agreement as a boolean, and reads the join sides' indexes off EXPLAIN), Python glue. sort.Search is modelled as 'first index where "
              "the predicate holds', justified by the monotonicity theorems; fillMatchBuf is one step of the state machine. Open findings "
              "(known_findings.json): LEFT merge join loses right rows after a group of NULL left keys; NOT IN "
              " (subquery) planned as LeftOuterMergeJoin + IS NULL filter ignores NULL semantics (shared go-mysql-server analyzer: both engines "
              "agree, the declarative answer disagrees). No oracle_on_model theorem for the query part: the model reproduces the first defect. Repaired: COUNT(col) on keyless tables (d707d55), kept as a regression case.")
THEOREMS = ["ranges_sound_complete", "above_start_monotone", "below_stop_antitone", "range_oracle_on_model", "merge_join_sm_refines",
            "merge_join_sm_inner_spec", "merge_join_sm_left_spec_partial", "merge_join_spec", "merge_join_inner_spec",
            "merge_join_left_spec_partial", "lookup_join_spec", "count_fast_path_spec", "count_answer_spec"]
REFUTED = ["merge_join_sm_left_refuted", "merge_join_left_refuted"]
RULE = ("tables t(id pk, a, b, c; indexes (a), (a,b)), u((x,y) pk, z; index (z)), keyless k(a,b; index (a)), w(p int, q bigint, s smallint, v; pk (p,q,s); "
        "index (v,q)) with 0-40 rows (joins: <= 12) of small "
        "integers, int32 extremes and NULLs, duplicates in indexed columns; optional commit followed by deletes/updates/inserts; explicit ranges over "
        "every index (1-2 columns, all cut kinds, empty and inverted ranges included) and SELECTs: filters from < <= = >= > <> BETWEEN IN IS [NOT] NULL "
        "AND OR NOT, [NOT] IN (subquery), projections with DISTINCT, LIMIT, GROUP BY, ORDER BY pk, AS OF tag/branch/HEAD/HEAD~1, COUNT(*)/COUNT(col), inner/left joins with MERGE_JOIN / LOOKUP_JOIN / HASH_JOIN hints; non-trivial = "
        "some range visits a key or some query returns a row; distinct by case content")
ASSUMPTIONS = ["integer (INT) columns only; one or two tables per query; the model evaluates a filter through an index only when it is a conjunction "
               "of one-column atoms matching the index prefix, otherwise model = declarative filter"]
REQUIRED_TAGS = ["range-pruned", "range-contig", "range-noncontig", "range-all-eq", "range-null-cut", "range-int32-max", "range-visits", "range-2col",
                 "q-merge", "q-lookup", "q-left", "q-asof", "q-count", "q-ita", "q-null-join-keys", "q-dup-both-sides", "q-ordered", "q-via-index", "q-keyless", "q-merge-ordered", "q-group-by", "q-distinct", "q-limit", "q-projection", "q-in-subquery",
                 "q-not-in-subquery", "q-asof-tag", "q-asof-branch", "q-asof-head", "q-asof-head-n", "range-3col", "range-mixed-widths",
                 "range-prefix-of-composite", "range-int64-or-int16-max", "range-earlier-noneq-later-abovenull-with-nulls",
                 "q-earlier-noneq-later-abovenull-with-nulls", "multi-range-empty-middle", "multi-range-empty-middle-count", "q-join-static-ranges"]

VALS = [-1, 0, 1, 2, 3]
EXT = [2147483647, -2147483648, 2147483646]

T_COLS = ["id", "a", "b", "c"]
U_COLS = ["x", "y", "z"]
K_COLS = ["a", "b"]
W_COLS = ["p", "q", "s", "v"]          # int, bigint, smallint, int; primary key (p, q, s); index iv (v, q)
V_COLS = ["id", "a", "b"]               # only the composite index vab (a, b): the planner has to scan through it
TABLES = {"t": (0, T_COLS), "u": (1, U_COLS), "k": (2, K_COLS), "w": (3, W_COLS), "v": (4, V_COLS)}
I64 = [9223372036854775807, -9223372036854775808, 9223372036854775806]
I16 = [32767, -32768, 32766]
W_EXT = {0: EXT, 1: I64, 2: I16, 3: EXT}
# index -> (table, key column positions in the table row: indexed columns then pk, number of indexed columns)
INDEXES = {("t", "PRIMARY"): ([0], 1), ("t", "ia"): ([1, 0], 1), ("t", "iab"): ([1, 2, 0], 2),
           ("u", "PRIMARY"): ([0, 1], 2), ("u", "iz"): ([2, 0, 1], 1),
           ("w", "PRIMARY"): ([0, 1, 2], 3), ("w", "iv"): ([3, 1, 0, 2], 2), ("v", "vab"): ([1, 2, 0], 2)}


def val(rng, null_p=0.2, ext_p=0.04, vals=VALS):
    x = rng.random()
    if x < null_p:
        return None
    if x < null_p + ext_p:
        return rng.choice(EXT)
    return rng.choice(vals)


def lit(v):
    return "NULL" if v is None else str(v)


def gen_tables(rng, join):
    vals = [0, 1, 2, 3] if join else VALS
    nt = rng.choice([0, 1, 2, 5, 8, 12]) if join else rng.choice([0, 1, 3, 8, 15, 25, 40])
    ids = sorted(rng.sample(range(1, 80), nt))
    if ids and rng.random() < 0.15:
        ids[-1] = 2147483647
    t = [[i, val(rng, vals=vals), val(rng, vals=vals), val(rng, vals=vals)] for i in ids]
    nu = rng.choice([0, 1, 3, 6, 10]) if join else rng.choice([0, 2, 6, 12, 20])
    keys = set()
    while len(keys) < nu:
        keys.add((rng.choice(vals + [4, 5]), rng.choice(vals + [4])))
    u = [[x, y, val(rng, vals=vals)] for x, y in sorted(keys)]
    nk = rng.choice([0, 0, 2, 5, 9])
    k = [[val(rng, vals=[0, 1]), val(rng, vals=[0, 1])] for _ in range(nk)]
    wk = set()
    while len(wk) < (0 if join else rng.choice([0, 3, 8, 14])):
        wk.add((rng.choice([0, 1, 2]), rng.choice([0, 1, 2] + (I64 if rng.random() < 0.3 else [])), rng.choice([0, 1] + (I16 if rng.random() < 0.3 else []))))
    w = [[p_, q_, s_, val(rng, vals=[0, 1, 2])] for p_, q_, s_ in sorted(wk)]
    nv = 0 if join else rng.choice([0, 4, 9, 15])
    v = [[i, val(rng, 0.1, 0.0), val(rng, 0.35, 0.0)] for i in sorted(rng.sample(range(1, 40), nv))]
    return {"t": t, "u": u, "k": k, "w": w, "v": v}


def ins_sql(name, rows):
    return ["insert into %s values %s" % (name, ", ".join("(%s)" % ", ".join(lit(v) for v in r) for r in rows[i:i + 20]))
            for i in range(0, len(rows), 20)]


def setup_sql(tb):
    s = ["create table t (id int primary key, a int, b int, c int, key ia (a), key iab (a, b))",
         "create table u (x int, y int, z int, primary key (x, y), key iz (z))",
         "create table k (a int, b int, key ka (a))",
         "create table w (p int, q bigint, s smallint, v int, primary key (p, q, s), key iv (v, q))",
         "create table v (id int primary key, a int, b int, key vab (a, b))"]
    for n in ("t", "u", "k", "w", "v"):
        s += ins_sql(n, tb.get(n, []))
    return s


def gen_later(rng, tb):
    """changes after the commit; returns (sql list, new tables)"""
    cur = copy.deepcopy(tb)
    sql = []
    for _ in range(rng.randint(1, 4)):
        x = rng.random()
        if x < 0.35 and cur["t"]:
            r = rng.choice(cur["t"])
            cur["t"].remove(r)
            sql.append("delete from t where id = %d" % r[0])
        elif x < 0.6 and cur["t"]:
            r = rng.choice(cur["t"])
            ci = rng.choice([1, 2, 3])
            v = val(rng)
            r[ci] = v
            sql.append("update t set %s = %s where id = %d" % (T_COLS[ci], lit(v), r[0]))
        elif x < 0.8:
            used = {r[0] for r in cur["t"]}
            i = rng.choice([j for j in range(1, 90) if j not in used])
            r = [i, val(rng), val(rng), val(rng)]
            cur["t"].append(r)
            cur["t"].sort(key=lambda r: r[0])
            sql.append("insert into t values (%s)" % ", ".join(lit(v) for v in r))
        elif cur["u"]:
            r = rng.choice(cur["u"])
            cur["u"].remove(r)
            sql.append("delete from u where x = %d and y = %d" % (r[0], r[1]))
    return sql, cur


# ---- predicates -----------------------------------------------------------------
OPS = ["<", "<=", "=", ">=", ">", "<>"]


def gen_atom(rng, col):
    x = rng.random()
    k = rng.choice(VALS + [4]) if rng.random() < 0.93 else rng.choice(EXT)
    if x < 0.55:
        return ["cmp", col, rng.choice(OPS), k]
    if x < 0.67:
        lo = rng.choice(VALS)
        return ["between", col, lo, lo + rng.choice([-1, 0, 1, 2, 3])]
    if x < 0.8:
        return ["in", col, sorted(set(rng.choice(VALS + [4, 7]) for _ in range(rng.randint(1, 3))))]
    if x < 0.9:
        return ["isnull", col]
    return ["notnull", col]


def gen_pred(rng, ncols, depth=0):
    x = rng.random()
    if depth >= 2 or x < 0.45:
        return gen_atom(rng, rng.randrange(ncols))
    if x < 0.7:
        return ["and", gen_pred(rng, ncols, depth + 1), gen_pred(rng, ncols, depth + 1)]
    if x < 0.93:
        return ["or", gen_pred(rng, ncols, depth + 1), gen_pred(rng, ncols, depth + 1)]
    return ["not", gen_pred(rng, ncols, depth + 1)]


def pred_sql(p, cols, al="", sub_asof=""):
    k = p[0]
    if k in ("and", "or"):
        return "(%s %s %s)" % (pred_sql(p[1], cols, al, sub_asof), k, pred_sql(p[2], cols, al, sub_asof))
    if k == "not" and p[1][0] == "insub":
        q_ = p[1]
        return "%s not in (select %s from %s%s)" % (al + cols[q_[1]], TABLES[q_[2]][1][q_[3]], q_[2], sub_asof)
    if k == "not":
        return "(not %s)" % pred_sql(p[1], cols, al, sub_asof)
    c = al + cols[p[1]]
    if k == "insub":
        return "%s in (select %s from %s%s)" % (c, TABLES[p[2]][1][p[3]], p[2], sub_asof)
    if k == "cmp":
        return "%s %s %d" % (c, p[2], p[3])
    if k == "between":
        return "%s between %d and %d" % (c, p[2], p[3])
    if k == "in":
        return "%s in (%s)" % (c, ", ".join(str(v) for v in p[2]))
    if k == "isnull":
        return "%s is null" % c
    return "%s is not null" % c


def cq_z(v):
    return "(%d)%%Z" % v


def cq_pred(p, tabs=None):
    k = p[0]
    if k == "and":
        return "(PAnd %s %s)" % (cq_pred(p[1], tabs), cq_pred(p[2], tabs))
    if k == "or":
        return "(POr %s %s)" % (cq_pred(p[1], tabs), cq_pred(p[2], tabs))
    if k == "not":
        return "(PNot %s)" % cq_pred(p[1], tabs)
    c = "%d%%nat" % p[1]
    if k == "insub":
        return "(PInCells %s %s)" % (c, cq_list(cq_cell(r[p[3]]) for r in tabs[p[2]]))
    if k == "cmp":
        return "(PCmp %s %s %s)" % (c, {"<": "OLt", "<=": "OLe", "=": "OEq", ">=": "OGe", ">": "OGt", "<>": "ONe"}[p[2]], cq_z(p[3]))
    if k == "between":
        return "(PBetween %s %s %s)" % (c, cq_z(p[2]), cq_z(p[3]))
    if k == "in":
        return "(PIn %s %s)" % (c, cq_list(cq_z(v) for v in p[2]))
    if k == "isnull":
        return "(PIsNull %s)" % c
    return "(PNotNull %s)" % c


def is_atom(p):
    return p[0] in ("cmp", "between", "in", "isnull", "notnull")


def index_for(tbl, p):
    """index the model evaluates p through: (key positions, nullable flags) or None"""
    first = {"t": {0: ([0], [False]), 1: None}, "u": {0: ([0, 1], [False, False]), 2: ([2, 0, 1], [True, True, True])}}
    if tbl == "v":
        if is_atom(p):
            return {0: ([0], [False]), 1: ([1, 2, 0], [True, True, True])}.get(p[1])
        if p[0] == "and" and is_atom(p[1]) and is_atom(p[2]) and (p[1][1], p[2][1]) == (1, 2):
            return ([1, 2, 0], [True, True, True])
        return None
    if tbl not in ("t", "u"):
        return None
    if is_atom(p):
        c = p[1]
        if tbl == "t":
            if c == 0:
                return ([0], [False])
            if c == 1:
                return ([1, 0], [True, True])
            return None
        return first["u"].get(c)
    if p[0] == "and" and is_atom(p[1]) and is_atom(p[2]):
        a, b = p[1][1], p[2][1]
        if tbl == "t" and (a, b) == (1, 2):
            return ([1, 2, 0], [True, True, True])
        if tbl == "u" and (a, b) == (0, 1):
            return ([0, 1], [False, False])
    return None


# ---- ranges ---------------------------------------------------------------------
def gen_cut(rng, lower):
    x = rng.random()
    k = rng.choice(VALS + [4]) if rng.random() < 0.9 else rng.choice(EXT)
    if lower:
        if x < 0.15:
            return ["bn"]
        if x < 0.3:
            return ["an"]
        if x < 0.63:
            return ["b", k]
        if x < 0.97:
            return ["a", k]
        return ["aa"]
    if x < 0.15:
        return ["aa"]
    if x < 0.27:
        return ["an"]
    if x < 0.6:
        return ["b", k]
    if x < 0.97:
        return ["a", k]
    return ["bn"]


def gen_col(rng, data_vals):
    x = rng.random()
    if x < 0.35:
        k = rng.choice(data_vals) if data_vals and rng.random() < 0.8 else rng.choice(VALS)
        return [["b", k], ["a", k]]          # = k
    if x < 0.42:
        return [["bn"], ["an"]]              # IS NULL
    if x < 0.47:
        return [["an"], ["aa"]]              # IS NOT NULL
    if x < 0.52:
        return [["bn"], ["aa"]]              # unrestricted
    return [gen_cut(rng, True), gen_cut(rng, False)]


def gen_range(rng, tb):
    (tname, ix), (pos, nidx) = rng.choice(sorted(INDEXES.items()))
    n = rng.randint(1, nidx)
    cuts = []
    for j in range(n):
        dv = [r[pos[j]] for r in tb[tname] if r[pos[j]] is not None]
        col = gen_col(rng, dv)
        if tname == "w":
            # extremes of the column's own type (the int32 ones would be out of range for smallint)
            ext = W_EXT[pos[j]]
            col = [[c[0], (rng.choice(ext) if (len(c) > 1 and c[1] in EXT) else c[1])] if len(c) > 1 else c for c in col]
            if rng.random() < 0.15:
                k_ = rng.choice(ext)
                col = [["b", k_], ["a", k_]]
        cuts.append(col)
    return {"t": tname, "ix": ix, "cuts": cuts}


def gen_range_noneq_abovenull(rng, tb):
    """index (a,b): a range (not an equality) on a, an AboveNull lower cut on the nullable b"""
    tn = rng.choice(["t", "v"])
    avals = [r[1] for r in tb[tn] if r[1] is not None and r[2] is None] or [r[1] for r in tb[tn] if r[1] is not None] or [1]
    k = rng.choice([x for x in avals if abs(x) < 1000] or [1])
    c0 = rng.choice([[["a", k - 1], ["aa"]], [["b", k - 1], ["a", k + 1]], [["an"], ["a", k]], [["b", k], ["aa"]], [["an"], ["aa"]]])
    kb = rng.choice(VALS + [4])
    c1 = rng.choice([[["an"], ["b", kb]], [["an"], ["a", kb]], [["an"], ["aa"]], [["an"], ["b", kb]]])
    return {"t": tn, "ix": "iab" if tn == "t" else "vab", "cuts": [c0, c1]}


def gen_sel_noneq_abovenull(rng, ctx):
    """select ... where <range on a> and <open-below restriction on b> through index (a,b)"""
    tabs = ctx["cur"]
    avals = [r[1] for r in tabs["v"] if r[1] is not None and r[2] is None] or [r[1] for r in tabs["v"] if r[1] is not None] or [1]
    k = rng.choice([x for x in avals if abs(x) < 1000] or [1])
    pa = rng.choice([["cmp", 1, ">", k - 1], ["cmp", 1, ">=", k], ["between", 1, k - 1, k + 1], ["cmp", 1, "<=", k], ["cmp", 1, "<", k + 1]])
    kb = rng.choice(VALS + [4])
    pb = rng.choice([["cmp", 2, "<", kb], ["cmp", 2, "<=", kb], ["cmp", 2, "<>", kb], ["notnull", 2]])
    p = ["and", pa, pb]
    ordered = rng.random() < 0.5
    proj = rng.choice([None, [0], [0, 1, 2]])
    w = pred_sql(p, V_COLS)
    sel = "*" if proj is None else ", ".join(V_COLS[c] for c in proj)
    q = "select %s from v where %s%s" % (sel, w, " order by id" if ordered else "")
    return {"kind": "sel", "tbl": "v", "p": p, "snap": False, "ref": "", "ord": ordered, "proj": proj, "distinct": False, "limit": None,
            "q": q, "rq": q, "rdb": "cur"}


# ---- queries --------------------------------------------------------------------
def asof(q, snap):
    """snap: falsy = working set; True = 'HEAD'; otherwise the revision text (tag, branch, HEAD~1)"""
    if not snap:
        return ""
    return " as of '%s'" % ("HEAD" if snap is True else snap)


def pick_ref(rng, ctx, p_):
    if ctx["commit"] and rng.random() < p_:
        return rng.choice(ctx["refs"])
    return ""


def gen_sel(rng, ctx):
    tname = rng.choice(["t", "t", "t", "u", "u", "k", "v"])
    _, cols = TABLES[tname]
    p = gen_pred(rng, len(cols))
    x = rng.random()
    if x < 0.3:
        # index-shaped on purpose
        if tname == "t":
            p = rng.choice([gen_atom(rng, 1), gen_atom(rng, 0), ["and", gen_atom(rng, 1), gen_atom(rng, 2)]])
        elif tname == "u":
            p = rng.choice([gen_atom(rng, 0), gen_atom(rng, 2), ["and", gen_atom(rng, 0), gen_atom(rng, 1)]])
    elif x < 0.45:
        # IN / NOT IN (subquery), NULLs on both sides
        t2 = rng.choice([n for n in ("t", "u", "k") if n != tname] + ["u"])
        sub = ["insub", rng.randrange(len(cols)), t2, rng.randrange(len(TABLES[t2][1]))]
        if rng.random() < 0.5:
            sub = ["not", sub]
        p = sub if rng.random() < 0.6 else [rng.choice(["and", "or"]), sub, gen_atom(rng, rng.randrange(len(cols)))]
    ref = pick_ref(rng, ctx, 0.25)
    ordered = tname != "k" and rng.random() < 0.6
    proj, distinct, limit = None, False, None
    y = rng.random()
    if y < 0.2:
        proj = {"t": rng.choice([[1, 0], [1], [1, 2], [2, 1, 0], [3]]), "u": rng.choice([[2], [0], [2, 0, 1], [1, 2]]), "k": rng.choice([[0], [1, 0]]),
                "v": rng.choice([[1, 2], [0], [2, 1, 0]])}[tname]
        distinct = rng.random() < 0.6
        ordered = False
    elif y < 0.35 and ordered:
        limit = rng.choice([0, 1, 2, 5])
    order = {"t": " order by id", "u": " order by x, y", "v": " order by id"}.get(tname, "") if ordered else ""
    w = pred_sql(p, cols, sub_asof=asof(None, ref))
    w0 = pred_sql(p, cols)
    sel = ("distinct " if distinct else "") + ("*" if proj is None else ", ".join(cols[c] for c in proj))
    lim = "" if limit is None else " limit %d" % limit
    q = "select %s from %s%s where %s%s%s" % (sel, tname, asof(None, ref), w, order, lim)
    rq = "select %s from %s where %s%s%s" % (sel, tname, w0, order, lim)
    return {"kind": "sel", "tbl": tname, "p": p, "snap": bool(ref), "ref": ref, "ord": ordered, "proj": proj, "distinct": distinct, "limit": limit,
            "q": q, "rq": rq, "rdb": "snap" if ref else "cur"}


def gen_group(rng, ctx):
    tname = rng.choice(["t", "t", "u", "k"])
    _, cols = TABLES[tname]
    col = {"t": rng.choice([1, 1, 2, 3]), "u": rng.choice([2, 0]), "k": 0}[tname]
    ref = pick_ref(rng, ctx, 0.2)
    q = "select %s, count(*) from %s%s group by %s" % (cols[col], tname, asof(None, ref), cols[col])
    rq = "select %s, count(*) from %s group by %s" % (cols[col], tname, cols[col])
    return {"kind": "group", "tbl": tname, "col": col, "snap": bool(ref), "ref": ref, "ord": False, "q": q, "rq": rq, "rdb": "snap" if ref else "cur"}


def gen_count(rng, ctx):
    tname = rng.choice(["t", "u", "k"])
    _, cols = TABLES[tname]
    col = None if rng.random() < 0.5 else rng.randrange(len(cols))
    ref = pick_ref(rng, ctx, 0.25)
    e = "*" if col is None else cols[col]
    q = "select count(%s) from %s%s" % (e, tname, asof(None, ref))
    rq = "select count(%s) from %s" % (e, tname)
    return {"kind": "count", "tbl": tname, "col": col, "snap": bool(ref), "ref": ref, "ord": False, "q": q, "rq": rq, "rdb": "snap" if ref else "cur"}


def multi_in(rng, tabs, tname, col):
    """IN list / OR of equalities over an indexed column whose sorted values have an ABSENT value strictly between
    present ones (an empty range in the middle of a multi-range lookup)"""
    present = sorted({r[col] for r in tabs[tname] if r[col] is not None and abs(r[col]) < 1000})
    pool = list(range(-2, 8))
    absent = [v for v in pool if v not in present]
    vals = set()
    if len(present) >= 2 and absent:
        lo, hi = present[0], present[-1]
        mids = [v for v in absent if lo < v < hi] or absent
        vals = {lo, hi, rng.choice(mids)}
        if rng.random() < 0.5:
            vals.add(rng.choice(present))
        if rng.random() < 0.3:
            vals.add(rng.choice(absent))
    else:
        vals = set(rng.sample(pool, 3))
    vals = sorted(vals)
    if rng.random() < 0.7:
        return ["in", col, vals]
    p = ["cmp", col, "=", vals[0]]
    for v in vals[1:]:
        p = ["or", p, ["cmp", col, "=", v]]
    return p


def in_values(p):
    """(column, sorted values) when p is an IN list or an OR of equalities on one column, else None"""
    if p[0] == "in":
        return p[1], sorted(set(p[2]))
    if p[0] == "cmp" and p[2] == "=":
        return p[1], [p[3]]
    if p[0] == "or":
        a, b = in_values(p[1]), in_values(p[2])
        if a and b and a[0] == b[0]:
            return a[0], sorted(set(a[1] + b[1]))
    return None


def empty_middle(p, rows):
    iv = in_values(p) if p else None
    if not iv or len(iv[1]) < 3:
        return False
    col, vals = iv
    have = {r[col] for r in rows}
    return any(vals[i] not in have and any(v in have for v in vals[i + 1:]) and any(v in have for v in vals[:i]) for i in range(1, len(vals) - 1))


def gen_countp(rng, ctx):
    tname, col = rng.choice([("t", 1), ("t", 0), ("u", 0), ("u", 2)])
    _, cols = TABLES[tname]
    ref = pick_ref(rng, ctx, 0.15)
    p = multi_in(rng, ctx["tb"] if ref else ctx["cur"], tname, col)
    w = pred_sql(p, cols)
    q = "select count(*) from %s%s where %s" % (tname, asof(None, ref), w)
    rq = "select count(*) from %s where %s" % (tname, w)
    return {"kind": "countp", "tbl": tname, "p": p, "snap": bool(ref), "ref": ref, "ord": False, "q": q, "rq": rq, "rdb": "snap" if ref else "cur"}


def gen_join(rng, ctx):
    lt, rt = rng.choice([("t", "u"), ("t", "u"), ("u", "t"), ("t", "t")])
    lc = rng.choice({"t": [1, 1, 2, 0], "u": [0, 2, 1]}[lt])
    rc = rng.choice({"t": [1, 1, 0, 2], "u": [0, 0, 2, 1]}[rt])
    hint = rng.choice(["/*+ MERGE_JOIN(l,r) */ ", "/*+ MERGE_JOIN(l,r) */ ", "/*+ LOOKUP_JOIN(l,r) */ ", "/*+ LOOKUP_JOIN(l,r) */ ",
                       "/*+ HASH_JOIN(l,r) */ ", "/*+ INNER_JOIN(l,r) */ ", "/*+ JOIN_ORDER(l,r) */ ", ""])
    left = rng.random() < 0.4
    snap = pick_ref(rng, ctx, 0.2)
    lcols, rcols = TABLES[lt][1], TABLES[rt][1]
    sel = ", ".join(["l." + c for c in lcols] + ["r." + c for c in rcols])
    # static multi-range restrictions on the join's inputs (IN list / ORs on an indexed column)
    tabs = ctx["tb"] if snap else ctx["cur"]
    lp = rp = None
    icol = {"t": [1, 0], "u": [0, 2]}
    if "tb" in ctx and rng.random() < 0.45:
        lp = multi_in(rng, tabs, lt, rng.choice(icol[lt]))
    if "tb" in ctx and not left and rng.random() < 0.3:
        rp = multi_in(rng, tabs, rt, rng.choice(icol[rt]))
    wh = " and ".join(x for x in [pred_sql(lp, lcols, "l.") if lp else "", pred_sql(rp, rcols, "r.") if rp else ""] if x)
    wh = (" where " + wh) if wh else ""
    q = "select %s%s from %s%s l %sjoin %s%s r on l.%s = r.%s%s" % (hint, sel, lt, asof(None, snap), "left " if left else "", rt, asof(None, snap), lcols[lc], rcols[rc], wh)
    rq = "select %s%s from %s l %sjoin %s r on l.%s = r.%s%s" % (hint, sel, lt, "left " if left else "", rt, lcols[lc], rcols[rc], wh)
    return {"kind": "join", "lt": lt, "rt": rt, "lc": lc, "rc": rc, "left": left, "snap": bool(snap), "ref": snap, "ord": False, "q": q, "rq": rq,
            "rdb": "snap" if snap else "cur", "lp": lp, "rp": rp}


def build(tb, commit, later_sql, cur, ranges, qs, commit2=False):
    return {"tables": tb, "cur": cur, "setup": setup_sql(tb), "commit": commit, "commit2": commit2, "later": later_sql, "ranges": ranges, "qs": qs,
            "queries": [{"q": q["q"], "rq": q["rq"], "rdb": q["rdb"], "ord": q["ord"]} for q in qs]}


def gen_one(rng, join):
    tb = gen_tables(rng, join)
    commit = rng.random() < 0.5
    commit2 = commit and rng.random() < 0.5
    later_sql, cur = gen_later(rng, tb) if commit else ([], copy.deepcopy(tb))
    ctx = {"commit": commit, "refs": ["v1", "b1", "HEAD~1"] if commit2 else ["v1", "b1", "HEAD"], "tb": tb, "cur": cur}
    if join:
        ranges = []
        qs = [gen_join(rng, ctx) for _ in range(6)] + [gen_count(rng, ctx), gen_countp(rng, ctx)]
    else:
        ranges = [gen_range(rng, cur) for _ in range(5)] + [gen_range_noneq_abovenull(rng, cur)]
        qs = [gen_sel(rng, ctx) for _ in range(6)] + [gen_sel_noneq_abovenull(rng, ctx), gen_count(rng, ctx), gen_countp(rng, ctx), gen_group(rng, ctx)]
    return build(tb, commit, later_sql, cur, ranges, qs, commit2)


def fixed_cases():
    tb = {"t": [[1, 1, 1, 0], [2, None, 2, 0], [3, 2, None, 1], [4, 2, 5, 1], [5, 2, 5, None], [6, 2147483647, 0, 2], [7, None, None, None]],
          "u": [[1, 1, 1], [2, 1, None], [2, 2, 2], [2, 3, 2], [4, 0, None]], "k": [[0, 0], [0, 0], [None, 1]],
          "w": [[0, 0, 0, 1], [0, 0, 32767, None], [0, 9223372036854775807, 0, 2], [0, 9223372036854775807, 1, 2], [1, -9223372036854775808, -32768, 0], [1, 5, 5, 2]]}
    later = ["delete from t where id = 1"]
    cur = copy.deepcopy(tb)
    cur["t"] = cur["t"][1:]
    ranges = [{"t": "t", "ix": "ia", "cuts": [[["an"], ["b", 2]]]},
              {"t": "t", "ix": "iab", "cuts": [[["b", 2], ["a", 2]], [["bn"], ["an"]]]},
              {"t": "u", "ix": "PRIMARY", "cuts": [[["b", 2], ["a", 2]], [["b", 2], ["a", 2]]]},
              {"t": "t", "ix": "PRIMARY", "cuts": [[["b", 5], ["a", 5]]]},
              {"t": "t", "ix": "ia", "cuts": [[["b", 2147483647], ["a", 2147483647]]]},
              {"t": "t", "ix": "ia", "cuts": [[["a", 3], ["b", 3]]]},
              {"t": "t", "ix": "iab", "cuts": [[["b", 2], ["a", 2]], [["a", 3], ["aa"]]]},
              {"t": "t", "ix": "iab", "cuts": [[["a", 1], ["aa"]], [["b", 5], ["a", 5]]]},
              {"t": "u", "ix": "iz", "cuts": [[["bn"], ["an"]]]},
              {"t": "u", "ix": "PRIMARY", "cuts": [[["b", 2], ["a", 2]]]},
              {"t": "w", "ix": "PRIMARY", "cuts": [[["b", 0], ["a", 0]], [["b", 9223372036854775807], ["a", 9223372036854775807]], [["b", 1], ["a", 1]]]},
              {"t": "w", "ix": "PRIMARY", "cuts": [[["b", 0], ["a", 0]], [["b", 0], ["a", 0]], [["b", 32767], ["a", 32767]]]},
              {"t": "w", "ix": "PRIMARY", "cuts": [[["b", 0], ["a", 0]], [["b", 9223372036854775807], ["a", 9223372036854775807]]]},
              {"t": "w", "ix": "PRIMARY", "cuts": [[["b", 0], ["a", 1]], [["a", 0], ["aa"]], [["bn"], ["b", 1]]]},
              {"t": "w", "ix": "iv", "cuts": [[["b", 2], ["a", 2]], [["b", 9223372036854775807], ["a", 9223372036854775807]]]},
              {"t": "w", "ix": "iv", "cuts": [[["bn"], ["an"]]]}]

    def j(lt, rt, lc, rc, hint, left, snap=False):
        lcols, rcols = TABLES[lt][1], TABLES[rt][1]
        sel = ", ".join(["l." + c for c in lcols] + ["r." + c for c in rcols])
        q = "select %s%s from %s%s l %sjoin %s%s r on l.%s = r.%s" % (hint, sel, lt, asof(None, snap), "left " if left else "", rt, asof(None, snap), lcols[lc], rcols[rc])
        rq = "select %s%s from %s l %sjoin %s r on l.%s = r.%s" % (hint, sel, lt, "left " if left else "", rt, lcols[lc], rcols[rc])
        return {"kind": "join", "lt": lt, "rt": rt, "lc": lc, "rc": rc, "left": left, "snap": snap, "ord": False, "q": q, "rq": rq, "rdb": "snap" if snap else "cur"}
    M, L = "/*+ MERGE_JOIN(l,r) */ ", "/*+ LOOKUP_JOIN(l,r) */ "
    qs = [j("t", "u", 1, 0, M, False), j("t", "u", 1, 0, M, True), j("t", "u", 1, 0, L, False), j("t", "u", 1, 0, L, True),
          j("t", "u", 2, 2, M, True), j("t", "u", 2, 2, L, True), j("u", "t", 2, 1, M, True), j("t", "t", 1, 2, M, False, True),
          j("t", "u", 1, 0, L, True, True)]
    # witness of merge_join_left_refuted and the regression case of the repaired keyless COUNT (d707d55; duplicates in k so that
    # one-count-per-stored-entry would show as well), replayed on every run
    wt = {"t": [[1, None, 0, 0], [2, 0, 0, 0]], "u": [[1, 1, None], [1, 2, None], [1, 3, 0]], "k": [[None, 1], [None, 1], [0, 0], [0, 0], [1, None]]}
    wq = [j("u", "t", 2, 1, M, True), j("u", "t", 2, 1, L, True), j("u", "t", 2, 1, M, False),
          {"kind": "count", "tbl": "k", "col": 0, "snap": False, "ord": False, "q": "select count(a) from k", "rq": "select count(a) from k", "rdb": "cur"},
          {"kind": "count", "tbl": "k", "col": None, "snap": False, "ord": False, "q": "select count(*) from k", "rq": "select count(*) from k", "rdb": "cur"},
          {"kind": "count", "tbl": "k", "col": 1, "snap": False, "ord": False, "q": "select count(b) from k", "rq": "select count(b) from k", "rdb": "cur"},
          # NOT IN (subquery): NULL on the left (t.a of row 1) and NULL inside the subquery (u.z)
          {"kind": "sel", "tbl": "t", "p": ["not", ["insub", 1, "u", 0]], "snap": False, "ref": "", "ord": True, "proj": None, "distinct": False, "limit": None,
           "q": "select * from t where a not in (select x from u) order by id", "rq": "select * from t where a not in (select x from u) order by id", "rdb": "cur"},
          {"kind": "sel", "tbl": "t", "p": ["not", ["insub", 0, "u", 2]], "snap": False, "ref": "", "ord": True, "proj": None, "distinct": False, "limit": None,
           "q": "select * from t where id not in (select z from u) order by id", "rq": "select * from t where id not in (select z from u) order by id", "rdb": "cur"},
          {"kind": "sel", "tbl": "t", "p": ["insub", 1, "u", 2], "snap": False, "ref": "", "ord": True, "proj": None, "distinct": False, "limit": None,
           "q": "select * from t where a in (select z from u) order by id", "rq": "select * from t where a in (select z from u) order by id", "rdb": "cur"}]
    # NOT IN (subquery) rewritten to LeftOuterMergeJoin + Filter(IS NULL) once the tables are big enough for that plan
    nt = {"t": [[1, None, 0, 0], [2, 0, 0, 0], [3, 5, 0, 0]],
          "u": [[1, 1, None], [1, 2, None], [1, 3, 0], [2, 1, 7], [3, 1, 7], [4, 1, 7], [5, 1, 7], [6, 1, 7]], "k": []}
    nq = [q_ for q_ in wq if q_["kind"] == "sel"]
    # multi-range lookups with an empty range in the middle (IN list with absent values)
    mt = {"t": [[1, 1, 0, 0], [2, 7, None, 0], [3, 7, 1, 0], [4, 9, 2, 0], [5, 12, 2, 0], [6, None, 2, 0]],
          "u": [[1, 0, 1], [7, 0, 7], [7, 1, None], [9, 0, 9], [12, 0, 1]], "k": [], "w": [],
          "v": [[1, 1, 1], [2, 2, None], [3, 2, 3], [4, 3, None], [5, 3, 7], [6, None, 2]]}
    mp = ["in", 0, [1, 4, 7, 9]]

    def cp(tname, p_):
        w_ = pred_sql(p_, TABLES[tname][1])
        q_ = "select count(*) from %s where %s" % (tname, w_)
        return {"kind": "countp", "tbl": tname, "p": p_, "snap": False, "ref": "", "ord": False, "q": q_, "rq": q_, "rdb": "cur"}

    def jp(lt, rt, lc, rc, hint, left, lp, rp=None):
        q_ = j(lt, rt, lc, rc, hint, left)
        wh = " and ".join(x for x in [pred_sql(lp, TABLES[lt][1], "l.") if lp else "", pred_sql(rp, TABLES[rt][1], "r.") if rp else ""] if x)
        q_["q"] += " where " + wh
        q_["rq"] += " where " + wh
        q_["lp"], q_["rp"], q_["ref"] = lp, rp, ""
        return q_
    ma = ["in", 1, [1, 4, 7, 9]]
    mq = [cp("u", mp), cp("t", ma), cp("t", ["or", ["or", ["cmp", 1, "=", 1], ["cmp", 1, "=", 5]], ["cmp", 1, "=", 12]]),
          jp("u", "t", 0, 1, L, False, mp), jp("u", "t", 0, 1, L, True, mp), jp("t", "u", 1, 0, M, False, ma), jp("t", "u", 1, 0, M, False, ma, mp),
          jp("u", "t", 0, 1, M, True, mp)]
    return [build(tb, True, later, cur, ranges, qs), build(wt, False, [], copy.deepcopy(wt), [], wq), build(nt, False, [], copy.deepcopy(nt), [], nq),
            build(mt, False, [], copy.deepcopy(mt), [gen_fixed_c261()], mq + [gen_fixed_c261_sql()])]


def gen_fixed_c261():
    return {"t": "v", "ix": "vab", "cuts": [[["a", 1], ["aa"]], [["an"], ["b", 5]]]}


def gen_fixed_c261_sql():
    p_ = ["and", ["cmp", 1, ">", 1], ["cmp", 2, "<", 5]]
    q_ = "select id from v where a > 1 and b < 5 order by id"
    return {"kind": "sel", "tbl": "v", "p": p_, "snap": False, "ref": "", "ord": True, "proj": [0], "distinct": False, "limit": None, "q": q_, "rq": q_, "rdb": "cur"}


def gen_cases(rng, tier):
    n = 36 if tier == "quick" else 1500
    cases = fixed_cases()
    for i in range(n):
        cases.append(gen_one(rng, False))
        cases.append(gen_one(rng, True))
    return cases


# ---- Coq terms --------------------------------------------------------------------
def cq_cell(v):
    return "None" if v is None else "(I %s)" % (str(v) if v >= 0 else "(%d)" % v)


def cq_row(r):
    return cq_list(cq_cell(v) for v in r)


def cq_rows(rows):
    return cq_list(cq_row(r) for r in rows)


def cq_cut(c):
    k = c[0]
    if k == "bn":
        return "BelowNull"
    if k == "an":
        return "AboveNull"
    if k == "aa":
        return "AboveAll"
    return "(%s %s)" % ("Below" if k == "b" else "Above", str(int(c[1])) if c[1] >= 0 else "(%d)" % c[1])


def cq_nats(l):
    return cq_list("%d%%nat" % x for x in l)


def cq_bools(l):
    return cq_list(cq_bool(b) for b in l)


def cq_tables(tb):
    return cq_list(cq_rows(tb.get(n, [])) for n in ("t", "u", "k", "w", "v"))


def cq_bound(b):
    return "{| b_val := %s; b_bind := %s; b_incl := %s |}" % (cq_cell(b["v"]), cq_bool(b["b"]), cq_bool(b["i"]))


BAD_R = "{| ro_n := 9; ro_fields := []; ro_tup := []; ro_contig := false; ro_skip := false; ro_all := []; ro_visit := [] |}"
BAD_Q = "{| q_rows := []; q_ref := false; q_err := true |}"

PLAN = {"merge": 0, "lookup": 1}


def cq_query(case, q, qo):
    snap = cq_bool(q["snap"])
    tabs = case["tables"] if q["snap"] else case["cur"]
    if q["kind"] == "sel":
        ix = index_for(q["tbl"], q["p"])
        ixs = "None" if ix is None else "(Some (%s, %s))" % (cq_nats(ix[0]), cq_bools(ix[1]))
        proj = q.get("proj")
        lim = q.get("limit")
        return "(QSel %d%%nat %s %s %s %s %s %s %s)" % (
            TABLES[q["tbl"]][0], snap, cq_pred(q["p"], tabs), cq_bool(q["ord"]), ixs,
            "None" if proj is None else "(Some %s)" % cq_nats(proj), cq_bool(q.get("distinct", False)),
            "None" if lim is None else "(Some %d%%nat)" % lim)
    if q["kind"] == "countp":
        return "(QCountP %d%%nat %s %s)" % (TABLES[q["tbl"]][0], snap, cq_pred(q["p"], tabs))
    if q["kind"] == "group":
        return "(QGroup %d%%nat %s %d%%nat)" % (TABLES[q["tbl"]][0], snap, q["col"])
    if q["kind"] == "count":
        return "(QCount %d%%nat %s %s %s)" % (TABLES[q["tbl"]][0], snap, cq_bool(q["tbl"] == "k"), "None" if q["col"] is None else "(Some %d%%nat)" % q["col"])
    plan = PLAN.get((qo or {}).get("plan"), 2)
    def optp(x):
        return "None" if not x else "(Some %s)" % cq_pred(x, tabs)
    return "(QJoin %d %s %s %d%%nat %d%%nat %d%%nat %d%%nat %d%%nat %s %s %s)" % (
        plan, cq_bool(q["left"]), snap, TABLES[q["lt"]][0], TABLES[q["rt"]][0], q["lc"], q["rc"], len(TABLES[q["rt"]][1]), cq_ord(q, qo),
        optp(q.get("lp")), optp(q.get("rp")))


PKS = {"t": [0], "u": [0, 1]}


def join_ord(q, qo):
    """(swap, key columns of the iterator's left index, of its right index) when the plan is a merge join whose two
    index accesses could be read off EXPLAIN; None otherwise"""
    if not qo or qo.get("plan") != "merge" or len(qo.get("palias") or []) != 2 or len(qo.get("pindex") or []) != 2:
        return None
    if sorted(qo["palias"]) != ["l", "r"]:
        return None
    swap = qo["palias"][0] == "r"
    if swap and q["left"]:
        return None
    tabs = [q["rt"], q["lt"]] if swap else [q["lt"], q["rt"]]
    out = []
    for tname, ix in zip(tabs, qo["pindex"]):
        cols = TABLES[tname][1]
        pos = []
        for c in ix.split(","):
            c = c.strip().split(".")[-1]
            if c not in cols:
                return None
            pos.append(cols.index(c))
        if tname not in PKS:
            return None
        pos += [p_ for p_ in PKS[tname] if p_ not in pos]
        out.append(pos)
    return (swap, out[0], out[1])


def cq_ord(q, qo):
    o = join_ord(q, qo)
    if o is None:
        return "None"
    return "(Some (%s, %s, %s))" % (cq_bool(o[0]), cq_nats(o[1]), cq_nats(o[2]))


def coq_case(case, out):
    o = out.get("obs") if out else None
    ok = bool(o) and not o.get("setup_err") and len(o["queries"]) == len(case["qs"]) and len(o["ranges"]) == len(case["ranges"])
    ranges, robs = [], []
    for i, rc in enumerate(case["ranges"]):
        pos, _ = INDEXES[(rc["t"], rc["ix"])]
        ro = o["ranges"][i] if ok else None
        nullable = ro["nullable"] if ro and len(ro["nullable"]) == len(pos) else [True] * len(pos)
        bits = ro["bits"] if ro and len(ro.get("bits") or []) == len(pos) else [32] * len(pos)
        encs = cq_list("(%s, %s)" % (cq_z(-(1 << (b - 1))), cq_z((1 << (b - 1)) - 1)) for b in bits)
        ranges.append("{| rc_tbl := %d%%nat; rc_cols := %s; rc_nullable := %s; rc_encs := %s; rc_rs := %s |}" % (
            TABLES[rc["t"]][0], cq_nats(pos), cq_bools(nullable), encs, cq_list("(%s, %s)" % (cq_cut(c[0]), cq_cut(c[1])) for c in rc["cuts"])))
        if not ro or ro["err"]:
            robs.append(BAD_R)
        else:
            robs.append("{| ro_n := %d; ro_fields := %s; ro_tup := %s; ro_contig := %s; ro_skip := %s; ro_all := %s; ro_visit := %s |}" % (
                ro["n"], cq_list("{| f_lo := %s; f_hi := %s; f_eq := %s |}" % (cq_bound(f["lo"]), cq_bound(f["hi"]), cq_bool(f["eq"])) for f in ro["fields"]),
                cq_row(ro["tup"]), cq_bool(ro["contig"]), cq_bool(ro["skip"]), cq_rows(ro["all"]), cq_rows(ro["visit"])))
    queries, qobs = [], []
    for i, q in enumerate(case["qs"]):
        qo = o["queries"][i] if ok else None
        queries.append(cq_query(case, q, qo))
        if not qo or qo["err"]:
            qobs.append(BAD_Q)
        else:
            qobs.append("{| q_rows := %s; q_ref := %s; q_err := false |}" % (cq_rows(qo["rows"]), cq_bool(qo["ref_eq"] and not qo["ref_err"])))
    inp = "{| i_cur := %s; i_snap := %s; i_ranges := %s; i_queries := %s |}" % (
        cq_tables(case["cur"]), cq_tables(case["tables"]), cq_list(ranges), cq_list(queries))
    return "(%s, {| o_ranges := %s; o_queries := %s |})" % (inp, cq_list(robs), cq_list(qobs))


# ---- distribution -------------------------------------------------------------------
def classify(case, out):
    o = out.get("obs") if out else None
    if not o:
        return ["harness-error"]
    if o.get("setup_err"):
        return ["setup-error"]
    t = set()
    for rc, ro in zip(case["ranges"], o["ranges"]):
        if ro["err"]:
            t.add("range-error")
            continue
        if ro["n"] == 0:
            t.add("range-pruned")
            continue
        t.add("range-contig" if ro["contig"] else "range-noncontig")
        if ro["fields"] and all(f["eq"] for f in ro["fields"]):
            t.add("range-all-eq")
        if any(c[0][0] in ("bn", "an") or c[1][0] in ("an",) for c in rc["cuts"]):
            t.add("range-null-cut")
        if any(f["eq"] and f["lo"]["v"] == 2147483647 for f in ro["fields"]):
            t.add("range-int32-max")
        if ro["visit"]:
            t.add("range-visits")
            if len(ro["visit"]) < len(ro["all"]):
                t.add("range-visits-proper-subset")
        if len(rc["cuts"]) == 2:
            t.add("range-2col")
        if len(rc["cuts"]) == 3:
            t.add("range-3col")
        if (rc["t"], rc["ix"]) in (("t", "iab"), ("v", "vab")) and len(rc["cuts"]) == 2:
            c0, c1 = rc["cuts"]
            eq0 = c0[0][0] == "b" and c0[1][0] == "a" and c0[0][1] == c0[1][1]
            if not eq0 and c1[0][0] == "an" and any(k_[1] is None and py_sat([c0], k_[:1]) for k_ in ro["all"]):
                t.add("range-earlier-noneq-later-abovenull-with-nulls")
        if rc["t"] == "w":
            t.add("range-mixed-widths")
            if len(rc["cuts"]) < INDEXES[(rc["t"], rc["ix"])][1]:
                t.add("range-prefix-of-composite")
            if any(f["eq"] and f["lo"]["v"] in (I64[0], I16[0]) for f in ro["fields"]):
                t.add("range-int64-or-int16-max")
    for q, qo in zip(case["qs"], o["queries"]):
        if qo["err"]:
            t.add("q-error")
            continue
        if qo["ref_err"]:
            t.add("q-ref-error")
        if not qo["ref_eq"]:
            t.add("q-ref-differs")
        if qo["ita"]:
            t.add("q-ita")
        if q["snap"]:
            t.add("q-asof")
        if q["ord"]:
            t.add("q-ordered")
        if q["kind"] == "count":
            t.add("q-count")
        if q["kind"] == "group":
            t.add("q-group-by")
        tabs_ = case["tables"] if q["snap"] else case["cur"]
        if q["kind"] == "countp":
            t.add("q-count-where")
            if empty_middle(q["p"], tabs_[q["tbl"]]):
                t.add("multi-range-empty-middle")
                t.add("multi-range-empty-middle-count")
        if q["kind"] == "join":
            for side, key in (("lt", "lp"), ("rt", "rp")):
                if q.get(key):
                    t.add("q-join-static-ranges")
                    if empty_middle(q[key], tabs_[q[side]]):
                        t.add("multi-range-empty-middle")
                        t.add("multi-range-empty-middle-" + qo["plan"])
        if q["kind"] == "sel" and q["tbl"] == "v" and q["p"][0] == "and" and is_atom(q["p"][1]) and is_atom(q["p"][2]):
            pa, pb = q["p"][1], q["p"][2]
            noneq = pa[1] == 1 and (pa[0] == "between" or (pa[0] == "cmp" and pa[2] in ("<", "<=", ">", ">=")))
            openb = pb[1] == 2 and (pb[0] == "notnull" or (pb[0] == "cmp" and pb[2] in ("<", "<=", "<>")))
            if noneq and openb and any(r[2] is None and py_eval(pa, r) is True for r in tabs_["v"]) and "v.a,v.b" in (qo.get("pindex") or []):
                t.add("q-earlier-noneq-later-abovenull-with-nulls")
        if q["kind"] == "sel":
            if q.get("distinct"):
                t.add("q-distinct")
            if q.get("limit") is not None:
                t.add("q-limit")
            if q.get("proj") is not None:
                t.add("q-projection")
            txt = json.dumps(q["p"])
            if "insub" in txt:
                t.add("q-in-subquery")
                if '"not", ["insub"' in txt:
                    t.add("q-not-in-subquery")
        if q.get("ref"):
            t.add("q-asof-" + {"v1": "tag", "b1": "branch", "HEAD": "head", "HEAD~1": "head-n"}.get(q["ref"], "other"))
        if q.get("tbl") == "k":
            t.add("q-keyless")
        if q["kind"] == "sel" and index_for(q["tbl"], q["p"]) is not None:
            t.add("q-via-index")
        if q["kind"] == "join":
            t.add("q-" + qo["plan"])
            o_ = join_ord(q, qo)
            if o_ is not None:
                t.add("q-merge-ordered")
                if o_[0]:
                    t.add("q-merge-swapped")
            if q["left"]:
                t.add("q-left")
            tabs = case["tables"] if q["snap"] else case["cur"]
            lk = [r[q["lc"]] for r in tabs[q["lt"]]]
            rk = [r[q["rc"]] for r in tabs[q["rt"]]]
            if None in lk and None in rk:
                t.add("q-null-join-keys")
            if any(v is not None and lk.count(v) > 1 and rk.count(v) > 1 for v in set(lk)):
                t.add("q-dup-both-sides")
    return sorted(t)


def nontrivial(case, out):
    o = out.get("obs") if out else None
    return bool(o) and (any(r["visit"] for r in o["ranges"]) or any(q["rows"] for q in o["queries"]))


def rebuild(case, ranges=None, qs=None, tables=None, cur=None, later=None):
    return build(tables if tables is not None else case["tables"], case["commit"], later if later is not None else case["later"],
                 cur if cur is not None else case["cur"], ranges if ranges is not None else case["ranges"], qs if qs is not None else case["qs"],
                 case.get("commit2", False))


def shrink_candidates(case):
    """single items first (one query or one range alone), then whole tables emptied, halves of tables, single rows
    (rows only when there is no post-commit change, to keep current and committed data consistent)"""
    nq, nr = len(case["qs"]), len(case["ranges"])
    if nq + nr > 1:
        for i in range(nq):
            yield rebuild(case, qs=[case["qs"][i]], ranges=[])
        for i in range(nr):
            yield rebuild(case, qs=[], ranges=[case["ranges"][i]])
    if not case["later"]:
        def without(n, idx):
            tb = copy.deepcopy(case["tables"])
            tb[n] = [r for i_, r in enumerate(tb.get(n, [])) if i_ not in idx]
            return rebuild(case, tables=tb, cur=copy.deepcopy(tb))
        for n in ("t", "u", "k", "w", "v"):
            rows = case["tables"].get(n, [])
            if len(rows) > 1:
                yield without(n, set(range(len(rows))))
                yield without(n, set(range(len(rows) // 2)))
                yield without(n, set(range(len(rows) // 2, len(rows))))
        for n in ("t", "u", "k", "w", "v"):
            rows = case["tables"].get(n, [])
            if 0 < len(rows) <= 8:
                for i in range(len(rows)):
                    yield without(n, {i})


def neighbours(case, rng):
    return list(shrink_candidates(case))[:60]


def search_cases(rng):
    return [gen_one(rng, i % 2 == 0) for i in range(30)]


# ---- known findings --------------------------------------------------------------------
# The declarative answers are recomputed here only to decide WHICH queries of a failing case fail, so that a case is
# attributed to a known finding only when every failing query is an instance of it (the verdict itself comes from Coq).
def py_eval(p, r, tabs=None):
    k = p[0]
    if k == "insub":
        v = r[p[1]]
        if v is None:
            return None
        vs = [x[p[3]] for x in tabs[p[2]]]
        return True if v in vs else (None if None in vs else False)
    if k == "and":
        a, b = py_eval(p[1], r, tabs), py_eval(p[2], r, tabs)
        return False if (a is False or b is False) else (True if (a is True and b is True) else None)
    if k == "or":
        a, b = py_eval(p[1], r, tabs), py_eval(p[2], r, tabs)
        return True if (a is True or b is True) else (False if (a is False and b is False) else None)
    if k == "not":
        a = py_eval(p[1], r, tabs)
        return None if a is None else (not a)
    v = r[p[1]]
    if k == "isnull":
        return v is None
    if k == "notnull":
        return v is not None
    if v is None:
        return None
    if k == "cmp":
        return {"<": v < p[3], "<=": v <= p[3], "=": v == p[3], ">=": v >= p[3], ">": v > p[3], "<>": v != p[3]}[p[2]]
    if k == "between":
        return p[2] <= v <= p[3]
    return v in p[2]


def py_expected(case, q):
    tabs = case["tables"] if q["snap"] else case["cur"]
    if q["kind"] == "sel":
        rows = [list(r) for r in tabs[q["tbl"]] if py_eval(q["p"], r, tabs) is True]
        if q.get("proj") is not None:
            rows = [[r[c] for c in q["proj"]] for r in rows]
        if q.get("distinct"):
            seen, out = set(), []
            for r in rows:
                if tuple(r) not in seen:
                    seen.add(tuple(r))
                    out.append(r)
            rows = out
        if q.get("limit") is not None:
            rows = rows[:q["limit"]]
        return rows
    if q["kind"] == "group":
        keys = []
        for r in tabs[q["tbl"]]:
            if r[q["col"]] not in keys:
                keys.append(r[q["col"]])
        return [[k_, sum(1 for r in tabs[q["tbl"]] if r[q["col"]] == k_)] for k_ in keys]
    if q["kind"] == "countp":
        return [[sum(1 for r in tabs[q["tbl"]] if py_eval(q["p"], r, tabs) is True)]]
    if q["kind"] == "count":
        rows = tabs[q["tbl"]]
        return [[len(rows) if q["col"] is None else sum(1 for r in rows if r[q["col"]] is not None)]]
    out = []
    nr = len(TABLES[q["rt"]][1])
    lrows = [r for r in tabs[q["lt"]] if not q.get("lp") or py_eval(q["lp"], r, tabs) is True]
    rrows = [r for r in tabs[q["rt"]] if not q.get("rp") or py_eval(q["rp"], r, tabs) is True]
    for l in lrows:
        ms = [r for r in rrows if l[q["lc"]] is not None and l[q["lc"]] == r[q["rc"]]]
        if ms:
            out += [list(l) + list(r) for r in ms]
        elif q["left"]:
            out.append(list(l) + [None] * nr)
    return out


def _canon(rows, ordered):
    rows = [tuple(r) for r in rows]
    return rows if ordered else sorted(rows, key=lambda r: tuple((0, 0) if v is None else (1, v) for v in r))


def py_sat(cuts, key):
    for (lo, hi), v in zip(cuts, key):
        below = {"bn": True, "an": v is not None, "aa": False}.get(lo[0])
        if below is None:
            below = v is not None and (lo[1] <= v if lo[0] == "b" else lo[1] < v)
        above = {"aa": True, "bn": False, "an": v is None}.get(hi[0])
        if above is None:
            above = v is None or (v < hi[1] if hi[0] == "b" else v <= hi[1])
        if not (below and above):
            return False
    return True


def failing_queries(case, o):
    bad = []
    for q, qo in zip(case["qs"], o["queries"]):
        ok = (not qo["err"]) and qo["ref_eq"] and not qo["ref_err"] and \
            _canon(qo["rows"], q["ord"]) == _canon(py_expected(case, q), q["ord"])
        if not ok:
            bad.append((q, qo))
    return bad


KEY_MERGE = "kvexec:left-merge-join-refills-lookahead-after-null-keys"
KEY_NOTIN = "gms:not-in-subquery-ignores-nulls"


def category(case, q, qo):
    if q["kind"] == "sel" and '"not", ["insub"' in json.dumps(q["p"]) and not qo["err"] and qo["ref_eq"]:
        return KEY_NOTIN
    if q["kind"] == "join" and q["left"] and qo["plan"] == "merge" and not qo["err"]:
        tabs = case["tables"] if q["snap"] else case["cur"]
        if sum(1 for r in tabs[q["lt"]] if r[q["lc"]] is None and (not q.get("lp") or py_eval(q["lp"], r, tabs) is True)) >= 2:
            return KEY_MERGE
    return None


def match_known(finding, case, out):
    o = out.get("obs") if out else None
    if not o or o.get("setup_err") or len(o["queries"]) != len(case["qs"]) or len(o["ranges"]) != len(case["ranges"]):
        return False
    for rc, ro in zip(case["ranges"], o["ranges"]):
        if ro["err"] or ro["n"] not in (0, 1):
            return False
        if [tuple(k) for k in ro["visit"]] != [tuple(k) for k in ro["all"] if py_sat(rc["cuts"], k)]:
            return False
        pos, _ = INDEXES[(rc["t"], rc["ix"])]
        want = sorted((tuple(r[p] for p in pos) for r in case["cur"][rc["t"]]), key=lambda r: tuple((0, 0) if v is None else (1, v) for v in r))
        if [tuple(k) for k in ro["all"]] != want:
            return False
    bad = failing_queries(case, o)
    cats = [category(case, q, qo) for q, qo in bad]
    return bool(bad) and all(c is not None for c in cats) and finding.get("key") in cats
