"""C13 — Diffs report exactly the changed keys."""
from lib import vlib
from lib.vlib import cq_list

ID = "C13"
HARNESS_PKG = "c13"
HARNESS_RUNNER = "c13"
COQ_TARGETS = ["theories/C13/Corr.vo"]
COQ_CORR_MODULE = "Prolly.Tree Prolly.Cursor C13.Model C13.Spec C13.Corr"
COQ_CASE_TYPE = "C13.Corr.case"
COQ_CHECK = "C13.Corr.check_case"
COQ_MODEL_OBS = "(fun c => C13.Corr.model_obs (fst c))"
COQ_SHARD = 25
DESIGN_REF = "§5 C13"
TECHNIQUE = ("Coq: two-cursor differ (stack-of-frames cursors with advance, skipCommon / skipCommonParents with parentsAreNew, stop-cursor "
             "comparison) modelled as implemented and run on the real tree shapes; declarative diff of sorted dictionaries as spec and oracle; "
             "cursor semantics lemma (advance drops exactly the current item at any depth), skip soundness under addr_inj")
LEVEL_TEXT = ("Proof (F): for every pair of well-formed trees of any depths and shapes (related or not), under addr_inj (equal child address => "
              "equal subtree), the differ as implemented (two stack cursors, advance, skipCommon / skipCommonParents with parentsAreNew, stop "
              "cursors compared with compareCursors, either value of considerAllRowsModified, the model's own fuel) composed with makeDiffCallBack "
              "(modelled explicitly) returns, for every decoding of stored values into rows, exactly the declarative diff on decoded rows: "
              "tree_diff_spec / diff_maps_spec for whole maps, range_diff_spec for DiffMapsKeyRange and RangeDiffMaps over every [start, stop) "
              "(absent, empty and inverted bounds included). The declarative diff is proved to list exactly the keys whose presence or value differs, "
              "with the right kind and values (list_diff_complete), ascending, each key at most once (list_diff_sorted). The model is tied to the code "
              "by the correspondence, which probes all entry points on maps holding hand-crafted non-canonical value tuples, with shared and with "
              "separately allocated (Equal) descriptors.")
LEVEL_NOTE = ("Trusted: Coq kernel, Go harness + Python glue. Proof ingredients: cursor invariant cinv + structural position `located`, "
              "cursor_at_search has exactly the entries satisfying the start predicate ahead (at_search_props), compareCursors against an in-tree "
              "stop cursor cuts exactly at the stop predicate (cmp_search), skip_ok / diff_okw / diff_totalw. Modelled, not verified: tuple "
              "comparator (order on N), node store, RangeDiffMaps probed with ranges on the first key column.")
THEOREMS = ["tree_diff_spec", "diff_maps_spec", "range_diff_spec", "list_diff_complete", "list_diff_sorted", "canonical_filter_g", "list_diff_d_id",
            "cmp_search", "at_search_props", "advance_cinv", "skip_ok", "skip_sound", "node_eqb_sound"]
RULE = ("value rows in two byte encodings (canonical / trailing NULL kept, hand-crafted) on either or both sides; second map with shared or separately "
        "allocated Equal descriptors; pairs of maps of 0..400 entries with trees of 1..3 levels: B derived from A by 0..all-keys edits through the mutable map (shared chunks), or "
        "built independently (unrelated, different heights); key ranges unbounded / inside shared subtrees / empty / inverted / past the end; "
        "non-trivial = at least one entry in either map; distinct by case content")
ASSUMPTIONS = ["keys are fixed-width integer tuples; a value row has two byte encodings (canonical, and with the trailing NULL field kept)",
               "RangeDiffMaps is probed with ranges on the first key column"]
REQUIRED_TAGS = ["related", "unrelated", "no-change", "height-diff", "multi-level", "added", "removed", "modified", "range-inverted", "range-open",
                 "single-edit-deep", "noncanonical-value-one-side", "separate-descriptors", "noncanonical-and-separate-descriptors"]

W = 16


# A stored value is exchanged as the code 2*row + nc: nc = 1 is the same row in the non-canonical tuple encoding (trailing NULL
# field kept), hand-crafted by the harness — TupleBuilder never produces it, legacy data can contain it.
def gen_init(rng, n, space):
    n = min(n, space)
    ks = sorted(rng.sample(range(space), n))
    return [[k, 2 * rng.randrange(1000)] for k in ks]


def sprinkle_nc(rng, l, p):
    """the same rows, some of them stored non-canonically"""
    return [[k, (v | 1) if rng.random() < p else v] for k, v in l]


def apply_edits(a, edits):
    d = {k: v for k, v in a}
    for e in edits:
        if e["del"]:
            d.pop(e["k"], None)
        else:
            d[e["k"]] = e["v"]
    return [[k, d[k]] for k in sorted(d)]


def gen_ranges(rng, hi):
    def b():
        return (rng.randrange(hi + 2 * W) // W) * W
    out = [[None, None]]
    for _ in range(3):
        out.append([b() if rng.random() < 0.75 else None, b() if rng.random() < 0.75 else None])
    x = b()
    out.append([x + W, x])
    out.append([hi + 3 * W - (hi % W), None])
    return out


def gen_case(rng, big):
    kw = rng.choice([0, 300, 450])
    if kw == 0:
        n = rng.choice([0, 1, 5, 30, 120])
    else:
        n = rng.choice([3, 25, 60, 120, 200] if not big else [350])
    space = max(4 * W, 3 * n + W)
    a = gen_init(rng, n, space)
    rel = rng.random() < 0.7
    ncmode = rng.choice(["none", "none", "b", "b", "a", "both"])     # which side holds non-canonical encodings
    if ncmode in ("a", "both"):
        a = sprinkle_nc(rng, a, 0.3)
    if rel:
        m = rng.choice([0, 1, 1, 2, 5, 20, max(1, n)])
        edits = []
        ks = [k for k, _ in a]
        cur = dict((k, v) for k, v in a)
        for _ in range(m):
            x = rng.random()
            if x < 0.35 and ks:
                edits.append({"k": rng.choice(ks), "v": 2 * rng.randrange(1000) + (1 if ncmode in ("b", "both") and rng.random() < 0.3 else 0), "del": False})
            elif x < 0.65 and ks:
                edits.append({"k": rng.choice(ks), "v": 0, "del": True})
            else:
                edits.append({"k": rng.randrange(space + W), "v": 2 * rng.randrange(1000), "del": False})
        if ncmode in ("b", "both") and ks:
            # re-store some unchanged rows in the other encoding: same row, different bytes
            for k in rng.sample(ks, min(len(ks), rng.choice([1, 2, 5]))):
                edits.append({"k": k, "v": cur[k] ^ 1, "del": False})
        b = apply_edits(a, edits)
        c = {"kw": kw, "a": a, "b": b, "edits": edits, "rel": True}
    else:
        nb = rng.choice([0, 2, n, n, max(1, n // 8), min(400, n * 4 + 1)])
        if nb == n and ncmode != "none":
            b = [[k, v ^ 1 if rng.random() < 0.3 else v] for k, v in a]      # same rows, some re-encoded, built independently
            if rng.random() < 0.5 and b:
                i = rng.randrange(len(b))
                b[i] = [b[i][0], b[i][1] + 2]                                # and one real change
        else:
            b = gen_init(rng, nb, space)
            if ncmode in ("b", "both"):
                b = sprinkle_nc(rng, b, 0.3)
        c = {"kw": kw, "a": a, "b": b, "edits": [], "rel": False}
    c["sep"] = rng.random() < 0.4
    hi = max([k for k, _ in a] + [k for k, _ in c["b"]] + [W])
    c["rng"] = gen_ranges(rng, hi)
    return c


def gen_cases(rng, tier):
    n = 45 if tier == "quick" else 2000
    cases = []
    # fixed: identical maps, one edit deep inside a three-level tree, empty vs non-empty
    a = [[i * 2, 2 * i] for i in range(300)]
    cases.append({"kw": 450, "a": a, "b": apply_edits(a, [{"k": 301, "v": 14, "del": False}]), "edits": [{"k": 301, "v": 14, "del": False}], "rel": True,
                  "sep": False, "rng": [[None, None], [288, 320], [304, 320], [0, 16], [320, 288]]})
    cases.append({"kw": 300, "a": a[:80], "b": a[:80], "edits": [], "rel": True, "sep": False, "rng": [[None, None], [16, 64]]})
    cases.append({"kw": 0, "a": [], "b": a[:5], "edits": [], "rel": False, "sep": False, "rng": [[None, None], [0, 16]]})
    cases.append({"kw": 0, "a": a[:5], "b": [], "edits": [], "rel": False, "sep": True, "rng": [[None, None]]})
    # the same row stored canonically on one side and non-canonically (trailing NULL kept) on the other: not a change,
    # through every entry point, with shared and with separately allocated (Equal) descriptors, next to one real change
    small = [[1, 10], [2, 20], [3, 30], [20, 40]]
    for sep in (False, True):
        for (x, y) in ((small, [[1, 11], [2, 20], [3, 32], [20, 40]]), ([[1, 11], [2, 21], [3, 30], [20, 40]], small)):
            cases.append({"kw": 0, "a": x, "b": y, "edits": [], "rel": False, "sep": sep, "rng": [[None, None], [0, 16], [16, 32]]})
        eds = [{"k": 2, "v": 21, "del": False}, {"k": 3, "v": 34, "del": False}]
        cases.append({"kw": 0, "a": small, "b": apply_edits(small, eds), "edits": eds, "rel": True, "sep": sep, "rng": [[None, None], [0, 16]]})
        eds = [{"k": 150, "v": a[75][1] | 1, "del": False}]
        cases.append({"kw": 450, "a": a[:200], "b": apply_edits(a[:200], eds), "edits": eds, "rel": True, "sep": sep, "rng": [[None, None], [144, 160]]})
    for i in range(n):
        cases.append(gen_case(rng, big=(i < 2)))
    return cases


# numbers reported by the implementation are printed through _n: anything outside [0, 2^64) becomes a sentinel >= 2^64 that
# neither the model nor the declarative diff ever produces, so the case is a concrete oracle failure (the printer is total)
_BIG = 1 << 64


def _n(x):
    try:
        x = int(x)
    except (TypeError, ValueError):
        return str(_BIG)
    return str(_BIG + (abs(x) % 1000003)) if (x < 0 or x >= _BIG) else str(x)


def cq_kvl(l):
    return "[" + ";".join("(%s,%s)" % (_n(p[0]), _n(p[1])) for p in l) + "]"


def cq_shape(s):
    if s is None:
        return "(Leaf [])"
    if s.get("leaf"):
        return "(Leaf %s)" % cq_kvl(s.get("l") or [])
    return "(Inner [" + ";".join("(%s,%s,%s)" % (_n(c["k"]), _n(c["c"]), cq_shape(c["t"])) for c in (s.get("n") or [])) + "])"


def cq_on(x):
    return "None" if x is None else "(Some %d)" % x


def cq_changes(l):
    if l is None:
        return "None"
    out = []
    for t, k, f, to in l:
        if t == 1:
            out.append("Added %s %s" % (_n(k), _n(to)))
        elif t == 3:
            out.append("Removed %s %s" % (_n(k), _n(f)))
        elif t == 2:
            out.append("Modified %s %s %s" % (_n(k), _n(f), _n(to)))
        else:
            out.append("Modified %s 0 0" % _BIG)
    return "(Some [" + ";".join(out) + "])"


def coq_case(case, out):
    o = out.get("obs")
    rng = cq_list("(%s,%s)" % (cq_on(r[0]), cq_on(r[1])) for r in case["rng"])
    if o is None or out.get("panic"):
        return ("({| i_da := %s; i_db := %s; i_ta := Leaf [(0,0);(0,0)]; i_tb := Leaf []; i_rng := %s |}, "
                "{| o_diff := None; o_all := None; o_krng := []; o_rrng := [] |})") % (cq_kvl(case["a"]), cq_kvl(case["b"]), rng)
    inp = "{| i_da := %s; i_db := %s; i_ta := %s; i_tb := %s; i_rng := %s |}" % (
        cq_kvl(case["a"]), cq_kvl(case["b"]), cq_shape(o["ta"]), cq_shape(o["tb"]), rng)
    ob = "{| o_diff := %s; o_all := %s; o_krng := %s; o_rrng := %s |}" % (
        cq_changes(o["diff"]), cq_changes(o["all"]), cq_list(cq_changes(x) for x in o["krng"]), cq_list(cq_changes(x) for x in o["rrng"]))
    return "(%s, %s)" % (inp, ob)


def _depth(s):
    d = 1
    while s is not None and not s.get("leaf"):
        d += 1
        s = s["n"][0]["t"]
    return d


def classify(case, out):
    o = out.get("obs")
    if o is None or out.get("panic"):
        return ["panic"]
    t = ["related" if case["rel"] else "unrelated"]
    da_, db_ = dict((k, v) for k, v in case["a"]), dict((k, v) for k, v in case["b"])
    nc_one = any(k in db_ and da_[k] != db_[k] and da_[k] // 2 == db_[k] // 2 for k in da_)
    if nc_one:
        t.append("noncanonical-value-one-side")
    if case.get("sep"):
        t.append("separate-descriptors")
    if nc_one and case.get("sep"):
        t.append("noncanonical-and-separate-descriptors")
    if any(v % 2 for _, v in case["a"]) or any(v % 2 for _, v in case["b"]):
        t.append("noncanonical-present")
    da, db = _depth(o["ta"]), _depth(o["tb"])
    if da != db:
        t.append("height-diff")
    if max(da, db) >= 2:
        t.append("multi-level")
    if max(da, db) >= 3:
        t.append("three-level")
    d = o["diff"] or []
    if not d:
        t.append("no-change")
    for c in d:
        t.append({1: "added", 2: "modified", 3: "removed"}.get(c[0], "unknown-type"))
    if len(d) == 1 and max(da, db) >= 2:
        t.append("single-edit-deep")
    for r in case["rng"]:
        if r[0] is not None and r[1] is not None and r[0] > r[1]:
            t.append("range-inverted")
        if r[0] is None or r[1] is None:
            t.append("range-open")
    if any(x is None for x in [o["diff"], o["all"]] + o["krng"] + o["rrng"]):
        t.append("impl-panic")
    return sorted(set(t))


def nontrivial(case, out):
    return bool(case["a"]) or bool(case["b"])


def shrink_candidates(case):
    if case["rel"]:
        ed = case["edits"]
        for i in range(len(ed)):
            e2 = ed[:i] + ed[i + 1:]
            c = dict(case)
            c["edits"] = e2
            c["b"] = apply_edits(case["a"], e2)
            yield c
        a = case["a"]
        if len(a) > 1:
            for cut in (len(a) // 2, 1):
                for a2 in (a[cut:], a[:-cut]):
                    c = dict(case)
                    c["a"] = a2
                    c["b"] = apply_edits(a2, ed)
                    yield c
    else:
        for f in ("a", "b"):
            l = case[f]
            if len(l) > 0:
                for cut in (max(1, len(l) // 2), 1):
                    for l2 in (l[cut:], l[:-cut]):
                        c = dict(case)
                        c[f] = l2
                        yield c
    if len(case["rng"]) > 1:
        for i in range(len(case["rng"])):
            c = dict(case)
            c["rng"] = case["rng"][:i] + case["rng"][i + 1:]
            yield c


def neighbours(case, rng):
    out = []
    for _ in range(40):
        c = dict(case)
        hi = max([k for k, _ in case["a"]] + [k for k, _ in case["b"]] + [W])
        c["rng"] = gen_ranges(rng, hi)
        if case["rel"]:
            e2 = list(case["edits"]) + [{"k": rng.randrange(hi + W), "v": rng.randrange(2000), "del": rng.random() < 0.4}]
            c["edits"] = e2
            c["b"] = apply_edits(case["a"], e2)
        out.append(c)
    return out


def search_cases(rng):
    return [gen_case(rng, False) for _ in range(60)]


def match_known(finding, case, out):
    return False
