"""C18 — Commit metadata describes the commit graph exactly."""
from lib import vlib
from lib.vlib import cq_bool, cq_list

ID = "C18"
HARNESS_PKG = "c18"
HARNESS_RUNNER = "c18"
COQ_TARGETS = ["theories/C18/Corr.vo"]
COQ_CORR_MODULE = "Graph.CommitDag C18.Model C18.Spec C18.Corr"
COQ_CASE_TYPE = "C18.Corr.case"
COQ_CHECK = "C18.Corr.check_case"
COQ_MODEL_OBS = "(fun c => C18.Corr.model_obs (fst c))"
COQ_SHARD = 60
DESIGN_REF = "§5 C18"
TECHNIQUE = ("Coq proof by induction over append-only histories (height = longest parent path, stored closure = exact ancestor set, "
             "prefix-stability of stored records) + in-Coq correspondence against commit graphs built through datas.Database.Commit")
LEVEL_TEXT = ("Proof (F/M): for every well-formed history (list of parent lists naming earlier commits; any arity, duplicate parents, "
              "criss-cross merges, several roots) the model of newCommitForValue / writeFbCommitParentClosure stores height = 1 + max parent "
              "height = length of the longest parent path, and a closure that is exactly the set of proper ancestors, each once, each keyed "
              "with its height (closure_spec, assuming only that distinct commits have distinct addresses); the record stored for a commit is "
              "identical in every extension of the history (addr_stable). The model is tied to the code by building random DAGs through the "
              "real datas API and comparing heights, parent lists, closure iteration order and re-read stability inside Coq.")
LEVEL_NOTE = ("Trusted: Coq kernel, Go harness + Python glue. Modelled, not verified: the prolly-tree map behind CommitClosure (modelled as a "
              "sorted duplicate-free list with set insertion; its chunking/serialisation is C07-C10's subject), flatbuffer (de)serialisation of the "
              "commit, SHA-512/20 addressing (ids are creation positions; the byte order of the addresses is fed from the implementation as a "
              "rank table; injectivity of addressing is a visible hypothesis of closure_spec). Immutability is modelled as append-only storage: "
              "the theorem says no later operation of the history changes an existing record; that chunk stores never overwrite is C01-C06's subject.")
THEOREMS = ["height_spec", "ancestor_lower", "closure_spec", "closure_sorted", "ancestors_spec", "addr_stable",
            "commit_is_function_of_parents", "oracle_accepts_model"]
RULE = ("random commit DAGs of 5-60 commits created through datas.Database.Commit on chunks.TestStorage: chains, branchy graphs with 2-, 3- and "
        "4-parent merges, duplicate parents, criss-cross merge ladders, several roots later merged, amend/squash commits (CommitOptions.AmendedCommit), and long-mainline / short-branch histories (330 commits in quick, up to 800 in thorough) merged both ways, so that the parents' stored closures live in prolly trees of different depth (tree depth reported by the harness; for histories > 60 commits the closures of the merges, their children and a few other commits are compared in full, heights and parent lists for all commits); non-trivial = at least one merge or two roots; "
        "distinct by parent lists + salt")
ASSUMPTIONS = ["commit messages are unique per commit (index + salt), so distinct commits have distinct addresses",
               "parents are named by address, hence are earlier commits (the API cannot name a commit that does not exist yet)"]
REQUIRED_TAGS = ["merge2", "merge3plus", "dup-parent", "multi-root", "crisscross", "long-chain", "closure-union-adds",
                 "same-height-keys", "root-only-closure-empty", "amend", "merge-first-parent-shallow-closure-second-deep",
                 "merge-first-parent-deep-closure-second-shallow"]


# ---------------------------------------------------------------- generators
def gen_chain(rng, n):
    return [[]] + [[i - 1] for i in range(1, n)]


def gen_branchy(rng, n, p_root=0.05, p_merge=0.3, p_multi=0.08, p_dup=0.05):
    h = [[]]
    for i in range(1, n):
        k = rng.random()
        recent = list(range(max(0, i - 8), i))
        if k < p_root:
            h.append([])
        elif k < p_root + p_dup:
            p = rng.choice(recent)
            q = rng.choice(recent)
            h.append(rng.choice([[p, p], [p, q, p], [p, q, q]]))
        elif k < p_root + p_dup + p_multi:
            m = rng.choice([3, 3, 4])
            pool = list(range(i))
            ps = [rng.choice(recent)] + [rng.choice(pool) for _ in range(m - 1)]
            h.append(ps)
        elif k < p_root + p_dup + p_multi + p_merge and i >= 2:
            a = rng.choice(recent)
            b = rng.choice([x for x in range(i) if x != a])
            h.append([a, b])
        else:
            h.append([rng.choice(recent) if rng.random() < 0.8 else rng.randrange(i)])
    return h


def gen_crisscross(rng, n):
    """two (or three) lines that repeatedly merge each other: a' = merge(a, b), b' = merge(b, a)"""
    h = [[]]
    lines = [0]
    while len(lines) < rng.choice([2, 2, 3]) and len(h) < n:
        h.append([0] if rng.random() < 0.8 else [])
        lines.append(len(h) - 1)
    while len(h) < n:
        k = rng.random()
        if k < 0.5 and len(lines) >= 2 and len(h) + 2 <= n:
            i, j = rng.sample(range(len(lines)), 2)
            a, b = lines[i], lines[j]
            h.append([a, b])
            na = len(h) - 1
            h.append([b, a])
            nb = len(h) - 1
            lines[i], lines[j] = na, nb
        else:
            i = rng.randrange(len(lines))
            h.append([lines[i]])
            lines[i] = len(h) - 1
    return h


def gen_multiroot(rng, n):
    r = rng.randint(2, max(2, min(5, n // 2)))
    h = [[] for _ in range(r)]
    tips = list(range(r))
    while len(h) < n:
        k = rng.random()
        if k < 0.25 and len(tips) >= 2:
            a, b = rng.sample(tips, 2)
            h.append([a, b])
            tips = [t for t in tips if t not in (a, b)] + [len(h) - 1]
            if rng.random() < 0.5:
                tips.append(a)
        elif k < 0.33:
            h.append([])
            tips.append(len(h) - 1)
        else:
            t = rng.randrange(len(tips))
            h.append([tips[t]])
            if rng.random() < 0.7:
                tips[t] = len(h) - 1
            else:
                tips.append(len(h) - 1)
    return h


def gen_dag(rng, n=None):
    style = rng.choice(["chain", "branchy", "branchy", "branchy", "criss", "criss", "multiroot", "dense"])
    if n is None:
        n = rng.choice([5, 6, 7, 8, 9, 10, 10, 12, 12, 14, 16, 20, 24, 30])
    if style == "chain":
        return gen_chain(rng, n)
    if style == "branchy":
        return gen_branchy(rng, n)
    if style == "criss":
        return gen_crisscross(rng, n)
    if style == "multiroot":
        return gen_multiroot(rng, n)
    return gen_branchy(rng, min(n, 30), p_root=0.03, p_merge=0.55, p_multi=0.2, p_dup=0.08)


FIXED = [
    [[]],
    [[], [0]],
    [[], [0], [0], [1, 2], [2, 1], [3, 4, 4], [], [5, 6, 0]],
    [[], [], [0, 1], [1, 0], [2, 3], [3, 2], [4, 5]],
    [[], [0, 0]],
    [[], [0], [1], [2], [0], [4], [3, 5], [5, 3], [6, 7], [7, 6, 2]],
]


def gen_cases(rng, tier):
    n = 90 if tier == "quick" else 3000
    cases = [{"h": h, "salt": 0} for h in FIXED]
    cases.append({"h": gen_chain(rng, 40), "salt": 1})
    cases.append({"h": gen_crisscross(rng, 60), "salt": 2})
    cases.append({"h": gen_multiroot(rng, 60), "salt": 3})
    cases.append(gen_long_short(rng, 330 if tier == "quick" else 600))
    if tier != "quick":
        for _ in range(12):
            cases.append(gen_long_short(rng, rng.choice([250, 400, 600, 800])))
    while len(cases) < n:
        big = tier != "quick" and rng.random() < 0.15
        c = {"h": gen_dag(rng, rng.choice([40, 50, 60]) if big else None), "salt": rng.randrange(1 << 30)}
        if rng.random() < 0.25:
            add_amends(rng, c)
        cases.append(c)
    return cases


def gen_long_short(rng, main_len, fork_at=None, feat_len=None):
    """a long mainline, a short feature branch forked early, then merge(feature, main) [feature head FIRST parent: its stored closure
    fits one prolly leaf while the mainline head's closure has spilled into a two-level tree], the mirror merge(main, feature), and a
    child of each.  Only the closures of the merges, their children and a few others are reported (sel)."""
    fork_at = rng.randint(3, 20) if fork_at is None else fork_at
    feat_len = rng.randint(1, 4) if feat_len is None else feat_len
    h = [[]] + [[i - 1] for i in range(1, main_len)]
    main_head = main_len - 1
    prev = fork_at
    for _ in range(feat_len):
        h.append([prev])
        prev = len(h) - 1
    feat_head = prev
    h.append([feat_head, main_head]); m1 = len(h) - 1      # feature first
    h.append([main_head, feat_head]); m2 = len(h) - 1      # mirror
    h.append([m1]); c1 = len(h) - 1
    h.append([m2]); c2 = len(h) - 1
    sel = [m1, c1, m2, feat_head, fork_at, rng.randrange(main_len), 0]
    if rng.random() < 0.5:
        sel.append(c2)
    return {"h": h, "salt": rng.randrange(1 << 30), "sel": sel}


def add_amends(rng, c):
    """commit --amend / squash through the datas API: a new commit with the parents of an earlier commit j, written with
    AmendedCommit = j on j's dataset (j itself stays in the store and must stay unchanged)."""
    h = c["h"]
    amend = {}
    for j in rng.sample(range(len(h)), min(len(h), rng.choice([1, 2, 3]))):
        h.append(list(h[j]))
        amend[str(len(h) - 1)] = j
        if rng.random() < 0.5:                       # history continues from the amended commit
            h.append([len(h) - 1])
    c["amend"] = amend


# ---------------------------------------------------------------- graph helpers (python side: classification only)
def ancestors_sets(h):
    anc = []
    for ps in h:
        s = set()
        for p in ps:
            s.add(p)
            s |= anc[p]
        anc.append(s)
    return anc


def heights(h):
    hs = []
    for ps in h:
        hs.append(1 + max([hs[p] for p in ps], default=0))
    return hs


def has_crisscross(h, anc=None, hs=None):
    """some pair of commits has two distinct common ancestors of maximal height"""
    anc = anc or ancestors_sets(h)
    hs = hs or heights(h)
    n = len(h)
    for a in range(n):
        for b in range(a + 1, n):
            com = (anc[a] | {a}) & (anc[b] | {b})
            if len(com) >= 2:
                m = max(hs[x] for x in com)
                if sum(1 for x in com if hs[x] == m) >= 2:
                    return True
    return False


# ---------------------------------------------------------------- Coq printers
def cq_hist(h):
    return cq_list(cq_list(str(p) for p in ps) for ps in h)


def coq_case(case, out):
    o = out.get("obs")
    h = case["h"]
    sel = cq_list(str(i) for i in (case["sel"] if case.get("sel") is not None else range(len(h))))
    if o is None:
        # harness error / panic: an observation no model agrees with and the oracle rejects
        return "(((%s, %s), %s), {| o_heights := []; o_parents := []; o_closures := []; o_stable := false |})" % (
            cq_hist(h), cq_list(str(i) for i in range(len(h))), sel)
    cl = cq_list(cq_list("(%d,%d)" % (k[0], k[1]) for k in c) for c in o["closures"])
    return "(((%s, %s), %s), {| o_heights := %s; o_parents := %s; o_closures := %s; o_stable := %s |})" % (
        cq_hist(h), cq_list(str(r) for r in o["rank"]), sel, cq_list(str(x) for x in o["heights"]),
        cq_hist(o["parents"]), cl, cq_bool(o["stable"]))


def classify(case, out):
    o = out.get("obs")
    if o is None:
        return ["panic" if out.get("panic") else "harness-error"]
    h = case["h"]
    t = []
    n = len(h)
    t.append("n<=10" if n <= 10 else "n<=30" if n <= 30 else "n<=60" if n <= 60 else "n>60")
    lv = o.get("levels") or []
    selset = set(case["sel"]) if case.get("sel") is not None else set(range(n))
    for i, ps in enumerate(h):
        if len(ps) >= 2 and i in selset and lv:
            if any(lv[ps[0]] < lv[p] for p in ps[1:]):
                t.append("merge-first-parent-shallow-closure-second-deep")
            if any(lv[ps[0]] > lv[p] for p in ps[1:]):
                t.append("merge-first-parent-deep-closure-second-shallow")
    roots = sum(1 for ps in h if not ps)
    if roots >= 2:
        t.append("multi-root")
    if any(len(set(ps)) == 2 for ps in h):
        t.append("merge2")
    if any(len(set(ps)) >= 3 for ps in h):
        t.append("merge3plus")
    if any(len(set(ps)) < len(ps) for ps in h):
        t.append("dup-parent")
    anc = ancestors_sets(h)
    hs = heights(h)
    if max(hs) >= 20:
        t.append("long-chain")
    if n <= 40 and has_crisscross(h, anc, hs):
        t.append("crisscross")
    if any(len(ps) >= 2 and any((anc[p] - anc[ps[0]]) for p in ps[1:]) for ps in h):
        t.append("closure-union-adds")
    if any(len(set(k[0] for k in c)) < len(c) for c in o["closures"]):
        t.append("same-height-keys")
    sel_list = case["sel"] if case.get("sel") is not None else list(range(n))
    if any(not h[i] and not o["closures"][k] for k, i in enumerate(sel_list)):
        t.append("root-only-closure-empty")
    if not o["stable"]:
        t.append("unstable")
    if case.get("amend"):
        t.append("amend")
        if any(not h[int(i)] for i in case["amend"]):
            t.append("amend-root")
    return t


def nontrivial(case, out):
    h = case["h"]
    return any(len(ps) >= 2 for ps in h) or sum(1 for ps in h if not ps) >= 2 or len(h) >= 3


def _renumber_drop(h, d):
    """drop commit d; children lose that parent edge"""
    out = []
    for i, ps in enumerate(h):
        if i == d:
            continue
        out.append([p - 1 if p > d else p for p in ps if p != d])
    return out


def shrink_candidates(case):
    h = case["h"]
    if case.get("sel") is not None:
        # keep the history, report fewer closures
        sel = case["sel"]
        for k in range(len(sel)):
            if len(sel) > 1:
                yield dict(case, sel=sel[:k] + sel[k + 1:])
        return
    if case.get("amend"):
        yield {"h": h, "salt": case.get("salt", 0)}      # same shape without the amend flag
        return
    for d in range(len(h) - 1, -1, -1):
        if len(h) > 1:
            yield {"h": _renumber_drop(h, d), "salt": case.get("salt", 0)}
    for i, ps in enumerate(h):
        for j in range(len(ps)):
            yield {"h": h[:i] + [ps[:j] + ps[j + 1:]] + h[i + 1:], "salt": case.get("salt", 0)}


def neighbours(case, rng):
    h = case["h"]
    if len(h) > 60:
        return []
    out = []
    n = len(h)
    for _ in range(40):
        g = [list(ps) for ps in h]
        k = rng.random()
        if k < 0.4 and n >= 2:
            i = rng.randrange(1, n)
            g[i] = g[i] + [rng.randrange(i)]
        elif k < 0.7:
            g.append([rng.randrange(n) for _ in range(rng.choice([1, 2, 2, 3]))])
        else:
            i = rng.randrange(n)
            if g[i]:
                rng.shuffle(g[i])
        out.append({"h": g, "salt": rng.randrange(1 << 30)})
    return out


def search_cases(rng):
    return [{"h": gen_dag(rng, rng.choice([5, 7, 9, 12])), "salt": rng.randrange(1 << 30)} for _ in range(60)]
