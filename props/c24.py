"""C24 — Committed data always satisfies declared constraints."""
from lib.vlib import cq_list
from props import sqlsched_gen as G

ID = "C24"
HARNESS_PKG = "c24"
HARNESS_RUNNER = "c24"
COQ_TARGETS = ["theories/C24/Corr2.vo"]
COQ_CORR_MODULE = "C23.Model C23.Corr C24.Model C24.Spec C24.Corr C24.Corr2"
COQ_CASE_TYPE = "C24.Corr2.acase"
COQ_CHECK = "C24.Corr2.check_any"
COQ_SHARD = 400
DESIGN_REF = "§5 C24"
TECHNIQUE = ("Coq proof: invariant over every schedule of the transaction machine (statement-level enforcement as an explicit oracle hypothesis, "
             "commit-time validators modelled from validateWorkingSetForCommit / uniqValidator / checkValidator / nullValidator / RegisterForeignKeyViolations "
             "and proved sound) + exactness of the recorded CHECK / NOT NULL / FOREIGN KEY violations of a merge + in-Coq correspondence on two-table "
             "schedules and forced-commit branch merges, with an independent constraint evaluator as oracle")
LEVEL_TEXT = ("Proof (F/M for transaction commits; partial overall): two tables p(pk, a NOT NULL, b), t(pk, a UNIQUE, b REFERENCES p(pk), CHECK a<=b). "
              "committed_consistent: for every schedule of concurrent transactions every committed database satisfies PK / NOT NULL / CHECK / UNIQUE / FOREIGN KEY, "
              "given (explicit hypothesis) that the engine's statement execution keeps a valid working state valid for sessions that have not disabled checks; "
              "the commit-time validators are modelled diff-wise as in the code and proved sound (validators_sound: they find nothing => merged state valid; "
              "uscan_nothing_unique for the unique validator with its stale-entry behaviour). violations_exact_partial: after a merge the recorded CHECK, NOT NULL "
              "and FOREIGN KEY violations are exactly the rows of the merged data breaking them; for UNIQUE exactness is refuted on the faithful model "
              "(uniq_violations_exact_refuted: a merge moving a unique value between rows records a violation on a valid table) and completeness is not proved: "
              "[fkadd cases: FOREIGN KEY t(b) -> p(b) on a non-pk column that is NEW in the merge — fkadd_dangling_exact: the model's violation set is exactly the "
              "child rows whose non-NULL reference has no parent row with that value; fkadd_oracle_on_model: the oracle accepts the model's observation for every input] "
              "the unique validator's verdict is the artifact set left after clearArtifact (urec); 'empty set => unique' is open, so the model's commit also "
              "re-validates uniqueness of the merged table (never decisive on the implementation so far).")
LEVEL_NOTE = ("Trusted: Coq kernel, Go harness + Python glue. Oracle hypothesis, not verified: go-mysql-server / table-writer statement-level enforcement "
              "(instantiated in the correspondence by a rejecting writer that re-validates the whole state). Modelled, not verified: prolly diffs (key-wise "
              "comparison), artifact maps (sets of keys per violation type). Not covered: CASCADE / SET NULL actions, several unique keys per table, NOT NULL "
              "added by a schema merge, foreign_key_checks=0 sessions (explicit exception: outside the enforcement hypothesis; probed by hand: an orphan row is committed).")
THEOREMS = ["committed_consistent", "validators_sound", "uscan_nothing_unique", "exec_c_enforces", "failed_commit_keeps_committed_state",
            "row_bad_exact", "fk_bad_exact", "violations_exact_partial", "merge_keeps_notnull",
            "fkadd_dangling_exact", "fkadd_oracle_on_model", "fkadd_check_on_model"]
REFUTED = ["uniq_violations_exact_refuted"]
RULE = ("txn cases: C23-style schedules over both tables (child keys 1-4, parent keys 101-103; values 0-2/NULL, child.b in parent pks) so that single statements "
        "and combinations of valid transactions frequently violate UNIQUE / CHECK / FK; committed database dumped after every statement. merge cases: two "
        "branches with 1-5 statements each on disjoint or overlapping rows, merged with @@dolt_force_transaction_commit=1; non-trivial = a commit attempt "
        "with changes or a merge with recorded violations; distinct by content")
ASSUMPTIONS = ["constraints: PRIMARY KEY, NOT NULL, UNIQUE (one), CHECK, FOREIGN KEY (RESTRICT) on two tables; checks not disabled in the generated sessions",
               "branch-merge cases with data conflicts are reported as such (merr=5) and not judged"]
REQUIRED_TAGS = ["commit-ok", "stmt-constraint-error", "commit-constraint-error", "commit-conflict", "merge-nonff",
                 "merge-case", "rec-fk", "rec-unique", "rec-check", "merge-clean",
                 "fkadd-case", "fkadd-parent-ref-updated", "fkadd-child-ref-updated", "fkadd-rec-fk", "fkadd-clean"]
EXPLANATION = ("The model mirrors uniqValidator.validateDiff including its stale-entry behaviour: a merge that moves a unique value from one row to another is "
               "reported as a unique violation although the merged table is valid (spurious refusal of a transaction / spurious recorded violation of a branch "
               "merge); committed data stays consistent, so the property itself is not violated.")

CH = [1, 2, 3, 4]
PA = [101, 102, 103]
K = G


def _cv(rng):
    return -1 if rng.random() < 0.12 else rng.randint(0, 2)


def _fkv(rng):
    return -1 if rng.random() < 0.1 else rng.randint(1, 3)


def gen_stmt2(rng, sess):
    """one statement over both tables"""
    r = rng.random()
    if r < 0.06:
        return [sess, K.K_BEGIN, 0, 0, 0]
    if r < 0.22:
        return [sess, K.K_COMMIT, 0, 0, 0]
    if r < 0.25:
        return [sess, K.K_ROLLBACK, 0, 0, 0]
    if r < 0.32:
        return [sess, K.K_SELECT, 0, 0, 0]
    return gen_dml2(rng, sess)


def gen_dml2(rng, sess):
    if rng.random() < 0.3:
        k = rng.choice(PA)
        r = rng.random()
        if r < 0.35:
            return [sess, K.K_INSERT, k, _cv(rng), _cv(rng)]
        if r < 0.65:
            return [sess, K.K_DELETE, k, 0, 0]
        if r < 0.9:
            return [sess, K.K_UPDATE, k, rng.randint(0, 1), _cv(rng)]
        return [sess, K.K_UPDADD, k, rng.randint(0, 1), 1]
    k = rng.choice(CH)
    r = rng.random()
    if r < 0.35:
        return [sess, K.K_INSERT, k, _cv(rng), _fkv(rng)]
    if r < 0.5:
        return [sess, K.K_DELETE, k, 0, 0]
    if r < 0.75:
        return [sess, K.K_UPDATE, k, 0, _cv(rng)]
    if r < 0.92:
        return [sess, K.K_UPDATE, k, 1, _fkv(rng)]
    return [sess, K.K_UPDADD, k, rng.randint(0, 1), 1]


def gen_init(rng):
    init = []
    parents = [k for k in PA if rng.random() < 0.75] or [101]
    for k in parents:
        init.append([k, rng.randint(0, 2), _cv(rng)])
    used = set()
    for k in CH:
        if rng.random() < 0.55:
            b = rng.choice(parents) - 100 if rng.random() < 0.85 else -1
            a = _cv(rng)
            if a >= 0 and (a in used or (b >= 0 and a > b)):
                a = -1
            if a >= 0:
                used.add(a)
            init.append([k, a, b])
    return init


def gen_txn(rng):
    nsess = rng.choice([2, 2, 3, 3, 4])
    autos = [s for s in range(nsess) if rng.random() < 0.15]
    steps = []
    cur = rng.randrange(nsess)
    for _ in range(rng.randint(8, 26)):
        if rng.random() < 0.45:
            cur = rng.randrange(nsess)
        steps.append(gen_stmt2(rng, cur))
    order = list(range(nsess)); rng.shuffle(order)
    for s in order:
        steps.append([s, K.K_COMMIT, 0, 0, 0])
    return {"init": gen_init(rng), "nsess": nsess, "autos": autos, "steps": steps}


def gen_merge(rng):
    return {"mode": "merge", "init": gen_init(rng), "nsess": 0, "autos": [], "steps": [],
            "left": [gen_dml2(rng, 0) for _ in range(rng.randint(1, 5))],
            "right": [gen_dml2(rng, 0) for _ in range(rng.randint(1, 5))]}


FIXED = [
    # unique value inserted by two transactions
    {"init": [[101, 0, 0], [102, 1, 2], [1, 0, 1]], "nsess": 2, "autos": [], "steps": [[0, 4, 3, 2, 2], [1, 4, 4, 2, 2], [0, 1, 0, 0, 0], [1, 1, 0, 0, 0], [1, 3, 0, 0, 0]]},
    # CHECK broken by the cell-wise merge of two valid updates
    {"init": [[101, 0, 0], [102, 1, 2], [1, 1, 2]], "nsess": 2, "autos": [], "steps": [[0, 5, 1, 0, 2], [1, 5, 1, 1, 1], [0, 1, 0, 0, 0], [1, 1, 0, 0, 0], [1, 3, 0, 0, 0]]},
    # parent deleted by one transaction, child inserted by another (both orders)
    {"init": [[101, 0, 0], [102, 1, 1], [1, 0, 1]], "nsess": 2, "autos": [], "steps": [[0, 6, 102, 0, 0], [1, 4, 2, 1, 2], [0, 1, 0, 0, 0], [1, 1, 0, 0, 0], [1, 3, 0, 0, 0]]},
    {"init": [[101, 0, 0], [102, 1, 1], [1, 0, 1]], "nsess": 2, "autos": [], "steps": [[1, 4, 2, 1, 2], [0, 6, 102, 0, 0], [1, 1, 0, 0, 0], [0, 1, 0, 0, 0], [0, 3, 0, 0, 0]]},
    # statement-level FK / NOT NULL refusals
    {"init": [[101, 0, 0], [102, 1, 1], [1, 0, 1]], "nsess": 1, "autos": [], "steps": [[0, 6, 101, 0, 0], [0, 4, 2, 1, 3], [0, 5, 101, 0, -1], [0, 4, 103, -1, 0], [0, 5, 1, 1, 3], [0, 7, 1, 1, 1], [0, 3, 0, 0, 0], [0, 8, 101, 0, 0]]},
    # the unique validator's stale entry: a valid transaction is refused
    {"init": [[101, 0, 0], [102, 1, 1], [2, 2, -1], [3, 0, 1], [4, -1, 1]], "nsess": 2, "autos": [],
     "steps": [[0, 5, 3, 0, 1], [0, 4, 1, 0, 1], [1, 5, 4, 0, 2], [1, 1, 0, 0, 0], [0, 1, 0, 0, 0], [0, 3, 0, 0, 0]]},
    # merges recording FK / unique / check violations
    {"mode": "merge", "init": [[101, 0, 0], [102, 1, 1], [1, 0, 1]], "nsess": 0, "autos": [], "steps": [], "left": [[0, 6, 102, 0, 0]], "right": [[0, 4, 2, 1, 2], [0, 4, 3, 2, 2]]},
    {"mode": "merge", "init": [[101, 0, 0], [102, 1, 2], [1, 0, 1], [2, 1, 2]], "nsess": 0, "autos": [], "steps": [], "left": [[0, 4, 3, 2, 2]], "right": [[0, 4, 4, 2, 2], [0, 5, 1, 0, 1], [0, 5, 2, 0, 0]]},
    {"mode": "merge", "init": [[101, 0, 0], [102, 1, 2], [1, 0, 2]], "nsess": 0, "autos": [], "steps": [], "left": [[0, 5, 1, 0, 2]], "right": [[0, 5, 1, 1, 1]]},
    # merge moving a unique value between rows on the right branch: spurious recorded violation
    {"mode": "merge", "init": [[101, 0, 0], [102, 1, 2], [3, 0, 1]], "nsess": 0, "autos": [], "steps": [], "left": [[0, 4, 4, 2, 2]], "right": [[0, 5, 3, 0, 1], [0, 4, 1, 0, 1]]},
]


def gen_fkadd(rng):
    """base without a foreign key; main adds UNIQUE p(b) + FOREIGN KEY t(b) -> p(b); the other branch edits freely"""
    bvals = rng.sample([0, 1, 2, 3], rng.randint(2, 3))
    init = [[101 + i, rng.randint(0, 2), b] for i, b in enumerate(bvals)]
    used = set()
    for k in CH:
        if rng.random() < 0.65:
            b = rng.choice(bvals) if rng.random() < 0.9 else -1
            a = _cv(rng)
            if a >= 0 and (a in used or (b >= 0 and a > b)):
                a = -1
            if a >= 0:
                used.add(a)
            init.append([k, a, b])
    right = []
    for _ in range(rng.randint(1, 4)):
        r = rng.random()
        if r < 0.3:
            right.append([0, K.K_UPDATE, rng.choice(init)[0] if False else 101 + rng.randrange(len(bvals)), 1, rng.randint(0, 4)])   # parent: referenced column
        elif r < 0.55:
            right.append([0, K.K_UPDATE, rng.choice(CH), 1, rng.randint(0, 4)])                      # child: referencing column
        elif r < 0.7:
            right.append([0, K.K_DELETE, 101 + rng.randrange(len(bvals)), 0, 0])
        elif r < 0.85:
            right.append([0, K.K_INSERT, rng.choice(CH), -1, rng.randint(0, 4)])
        else:
            right.append(gen_dml2(rng, 0))
    left = [gen_dml2(rng, 0) for _ in range(rng.randint(0, 2))]
    return {"mode": "fkadd", "init": init, "nsess": 0, "autos": [], "steps": [], "left": left, "right": right}


FIXED_FKADD = [
    # the other branch UPDATEs the referenced (non-pk) column of a parent row that a child points at
    {"mode": "fkadd", "init": [[101, 0, 1], [102, 1, 2], [1, 0, 1], [2, 1, 2]], "nsess": 0, "autos": [], "steps": [], "left": [], "right": [[0, 5, 101, 1, 3]]},
    # the other branch UPDATEs a child row to a value without a parent
    {"mode": "fkadd", "init": [[101, 0, 1], [102, 1, 2], [1, 0, 1], [2, 1, 2]], "nsess": 0, "autos": [], "steps": [], "left": [], "right": [[0, 5, 1, 1, 3]]},
    {"mode": "fkadd", "init": [[101, 0, 1], [102, 1, 2], [1, 0, 1], [2, 1, 2]], "nsess": 0, "autos": [], "steps": [], "left": [[0, 4, 3, 2, 2]],
     "right": [[0, 6, 102, 0, 0], [0, 4, 4, -1, 4], [0, 5, 101, 1, 2]]},
]


def gen_cases(rng, tier):
    n = 300 if tier == "quick" else 9000
    cases = [dict(c) for c in FIXED]
    while len(cases) < n:
        cases.append(gen_merge(rng) if rng.random() < 0.4 else gen_txn(rng))
    cases += [dict(c) for c in FIXED_FKADD]
    for _ in range(100 if tier == "quick" else 3000):
        cases.append(gen_fkadd(rng))
    return cases


def _keys(case):
    ks = set(r[0] for r in case["init"])
    for st in case["steps"] + case.get("left", []) + case.get("right", []):
        if st[1] in (K.K_INSERT, K.K_UPDATE, K.K_DELETE, K.K_UPDADD, K.K_SELKEY):
            ks.add(st[2])
    # a child may reference any parent key: the universe must contain the referenced parent keys
    for r in case["init"]:
        if r[0] < 100 and r[2] >= 0:
            ks.add(100 + r[2])
    for st in case["steps"] + case.get("left", []) + case.get("right", []):
        if st[2] < 100 and st[1] == K.K_INSERT and st[4] >= 0:
            ks.add(100 + st[4])
        if st[2] < 100 and st[1] == K.K_UPDATE and st[3] == 1 and st[4] >= 0:
            ks.add(100 + st[4])
    for x in range(101, 108):
        ks.add(x)          # col + d may walk through the parent keys
    return sorted(ks)


def cq_input(case):
    base = "{| i_U := %s; i_init := %s; i_autos := %s; i_sched := %s |}" % (
        cq_list(str(k) for k in _keys(case)), cq_list(G.cq_row(r) for r in case["init"]),
        cq_list(str(a) for a in case.get("autos", [])),
        cq_list("(%d, %s)" % (st[0], G.cq_stmt(st)) for st in case["steps"]))
    return "{| i_base := %s; i_merge := %s; i_left := %s; i_right := %s |}" % (
        base, "true" if case.get("mode") == "merge" else "false",
        cq_list(G.cq_stmt(st) for st in case.get("left", [])), cq_list(G.cq_stmt(st) for st in case.get("right", [])))


def coq_case(case, out):
    if case.get("mode") == "fkadd":
        o = out.get("obs")
        if o is None or out.get("err") or out.get("panic"):
            # the set-up itself failed (e.g. the base data does not admit the FOREIGN KEY being added): not a judged case
            return "F2 ({| f_merged := []; f_merr := 9 |}, {| fo_fk := [] |})"
        return "F2 ({| f_merged := %s; f_merr := %d |}, {| fo_fk := %s |})" % (
            cq_list(G.cq_row(r) for r in o["merged"]), o["mergeerr"], cq_list(str(v[1]) for v in o["vrows"] if v[0] == 1))
    return "F1 " + coq_case_main(case, out)


def coq_case_main(case, out):
    o = out.get("obs")
    inp = cq_input(case)
    if o is None or out.get("err") or out.get("panic"):
        return "(%s, {| o_steps := []; o_merr := 99; o_merged := []; o_vrows := [(99, 99)] |})" % inp
    if case.get("mode") == "merge":
        steps = cq_list("(%s, [], 0)" % G.cq_sobs(s) for s in o["steps"])
        return "(%s, {| o_steps := %s; o_merr := %d; o_merged := %s; o_vrows := %s |})" % (
            inp, steps, o["mergeerr"], cq_list(G.cq_row(r) for r in o["merged"]),
            cq_list("(%d, %d)" % (v[0], v[1]) for v in o["vrows"]))
    steps = cq_list("(%s, %s, %d)" % (G.cq_sobs(s), cq_list(G.cq_row(r) for r in c), v if v >= 0 else 999)
                    for s, c, v in zip(o["steps"], o["committed"], o["viol"]))
    return "(%s, {| o_steps := %s; o_merr := 0; o_merged := []; o_vrows := [] |})" % (inp, steps)


def classify(case, out):
    o = out.get("obs")
    if o is None:
        return ["fkadd-setup-error"] if case.get("mode") == "fkadd" and not out.get("panic") else ["panic"]
    t = set()
    if case.get("mode") == "fkadd":
        t.add("fkadd-case")
        if o["mergeerr"]:
            t.add("fkadd-merge-conflict-or-error")
            return sorted(t)
        ok = [st for st, s in zip(case["left"] + case["right"], o["steps"]) if s["err"] == 0]
        rights = case["right"]
        if any(st[1] == K.K_UPDATE and st[2] >= 100 and st[3] == 1 for st in rights):
            t.add("fkadd-parent-ref-updated")
        if any(st[1] == K.K_UPDATE and st[2] < 100 and st[3] == 1 for st in rights):
            t.add("fkadd-child-ref-updated")
        if any(v[0] == 1 for v in o["vrows"]):
            t.add("fkadd-rec-fk"); t.add("nontrivial")
        if not o["vrows"]:
            t.add("fkadd-clean")
        return sorted(t)
    if case.get("mode") == "merge":
        t.add("merge-case")
        if o["mergeerr"] == 5:
            t.add("merge-data-conflict")
        elif o["mergeerr"]:
            t.add("merge-error")
        elif not o["vrows"]:
            t.add("merge-clean")
        for v in o["vrows"]:
            t.add({1: "rec-fk", 2: "rec-unique", 3: "rec-check", 4: "rec-notnull"}.get(v[0], "rec-other"))
        if any(s["err"] == 2 for s in o["steps"]):
            t.add("stmt-constraint-error")
        if o["vrows"]:
            t.add("nontrivial")
        return sorted(t)
    fake = {"obs": {"steps": o["steps"], "final": []}}
    for x in G.classify_txn(case, fake):
        t.add(x)
    for st, s in zip(case["steps"], o["steps"]):
        if s["err"] == 2:
            t.add("commit-constraint-error" if st[1] in (G.K_COMMIT, G.K_BEGIN) else "stmt-constraint-error")
    if any(v > 0 for v in o["viol"]):
        t.add("violations-recorded")
    return sorted(t)


def nontrivial(case, out):
    return "nontrivial" in classify(case, out)


_SHRINK_BUDGET = [30]


def shrink_candidates(case):
    for c in _shrink_all(case):
        if _SHRINK_BUDGET[0] <= 0:
            return
        _SHRINK_BUDGET[0] -= 1
        yield c


def _shrink_all(case):
    for f in ("steps", "left", "right", "init"):
        st = case.get(f, [])
        for i in range(len(st)):
            c = dict(case); c[f] = st[:i] + st[i + 1:]
            yield c


def neighbours(case, rng):
    return [gen_merge(rng) if case.get("mode") == "merge" else gen_txn(rng) for _ in range(60)]
