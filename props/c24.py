"""C24 — Committed data always satisfies declared constraints."""
from lib.vlib import cq_list
from props import sqlsched_gen as G

ID = "C24"
HARNESS_PKG = "c24"
HARNESS_RUNNER = "c24"
COQ_TARGETS = ["theories/C24/Corr.vo"]
COQ_CORR_MODULE = "C23.Model C23.Corr C24.Model C24.Spec C24.Corr"
COQ_CASE_TYPE = "C24.Corr.case"
COQ_CHECK = "C24.Corr.check_case"
COQ_MODEL_OBS = "(fun c => C24.Corr.model_obs (fst c))"
COQ_SHARD = 400
DESIGN_REF = "§5 C24"
TECHNIQUE = ("Coq proof (invariant over every schedule of the transaction machine with a rejecting writer and commit-time re-validation of the merged "
             "state) + in-Coq correspondence: committed table dumped after every statement and checked by an independent constraint evaluator")
LEVEL_TEXT = ("Proof (partial): for PRIMARY KEY, UNIQUE and CHECK on one table, for every schedule of concurrent transactions, Coq proves that every committed "
              "state satisfies the constraints PROVIDED statements that would violate a constraint are rejected by the engine (modelled as an oracle: the "
              "rejecting writer) and the non-fast-forward commit re-validates the merged state and rolls back on a violation (as validateWorkingSetForCommit "
              "does with the violations recorded by the merge). What rests on the engine: go-mysql-server's statement-level enforcement, the merge validators "
              "finding every violation of the merged rows. Not covered: NOT NULL, FOREIGN KEY, dolt_merge of branches recording dolt_constraint_violations, "
              "disabled checks / dolt_force_transaction_commit.")
LEVEL_NOTE = ("Trusted: Coq kernel, Go harness + Python glue. Modelled, not verified: statement-level constraint enforcement (oracle), uniqValidator / "
              "checkValidator completeness (the model re-validates the whole merged table), error texts mapped to classes.")
THEOREMS = ["committed_consistent_partial", "failed_commit_keeps_committed_state"]
RULE = ("C23 schedules on t(pk,a,b) with UNIQUE KEY(a) and CHECK(a<=b), values 0-2/NULL so that single statements and combinations of valid transactions "
        "frequently violate; committed table dumped after every statement; non-trivial = a commit attempt with changes; distinct by schedule content")
ASSUMPTIONS = ["constraints: PRIMARY KEY, UNIQUE, CHECK on a single table; no FOREIGN KEY / NOT NULL; checks not disabled"]
REQUIRED_TAGS = ["commit-ok", "stmt-constraint-error", "commit-constraint-error", "commit-conflict", "merge-nonff"]
EXPLANATION = ("The model mirrors uniqValidator.validateDiff including its stale-entry behaviour: a transaction merge that moves a unique value from one row "
               "to another is refused with a constraint-violation error although the merged table is valid (spurious refusal; committed data stays consistent, "
               "so the property itself is not violated).")


def gen_cases(rng, tier):
    n = 250 if tier == "quick" else 8000
    cases = [
        {"init": [[1, 0, 0], [2, 1, 2]], "nsess": 2, "autos": [], "steps": [[0, 4, 3, 2, 2], [1, 4, 4, 2, 2], [0, 1, 0, 0, 0], [1, 1, 0, 0, 0], [1, 3, 0, 0, 0]]},
        {"init": [[1, 1, 2], [2, 0, 2]], "nsess": 2, "autos": [], "steps": [[0, 5, 1, 0, 2], [1, 5, 1, 1, 1], [0, 1, 0, 0, 0], [1, 1, 0, 0, 0], [1, 3, 0, 0, 0]]},
        {"init": [[1, 1, 2], [2, 0, 2]], "nsess": 2, "autos": [], "steps": [[0, 4, 3, 2, 2], [1, 5, 2, 0, 2], [0, 1, 0, 0, 0], [1, 1, 0, 0, 0], [1, 3, 0, 0, 0]]},
    ]
    # a valid transaction that moves a unique value between rows while another transaction committed: refused by the
    # engine's merge-time unique validator (stale index entry) although the merged table is valid
    cases.append({"init": [[2, 2, -1], [3, 0, 1], [4, -1, 1]], "nsess": 2, "autos": [],
                  "steps": [[0, 5, 3, 0, 1], [0, 4, 1, 0, 1], [1, 5, 4, 1, 0], [1, 1, 0, 0, 0], [0, 1, 0, 0, 0], [0, 3, 0, 0, 0]]})
    while len(cases) < n:
        c = G.gen_one_txn(rng)
        # initial rows must satisfy the constraints
        seen, init = set(), []
        for k, a, b in c["init"]:
            if a >= 0 and b >= 0 and a > b:
                a, b = b, a
            if a >= 0 and a in seen:
                a = -1
            if a >= 0:
                seen.add(a)
            init.append([k, a, b])
        c["init"] = init
        cases.append(c)
    return cases


def coq_case(case, out):
    o = out.get("obs")
    inp = G.cq_input(case)
    if o is None or out.get("err") or out.get("panic"):
        return "(%s, {| o_steps := [] |})" % inp
    steps = cq_list("(%s, %s, %d)" % (G.cq_sobs(s), cq_list(G.cq_row(r) for r in c), max(v, 0) if v >= 0 else 999)
                    for s, c, v in zip(o["steps"], o["committed"], o["viol"]))
    return "(%s, {| o_steps := %s |})" % (inp, steps)


def classify(case, out):
    o = out.get("obs")
    if o is None:
        return ["panic"]
    t = set()
    fake = {"obs": {"steps": [dict(s, err=(1 if s["err"] == 1 else (0 if s["err"] == 0 else s["err"]))) for s in o["steps"]], "final": []}}
    for x in G.classify_txn(case, fake):
        t.add(x)
    for st, s in zip(case["steps"], o["steps"]):
        if s["err"] == 2:
            if st[1] in (G.K_COMMIT, G.K_BEGIN):
                t.add("commit-constraint-error")
            else:
                t.add("stmt-constraint-error")
    if any(v > 0 for v in o["viol"]):
        t.add("violations-recorded")
    return sorted(t)


def nontrivial(case, out):
    return "nontrivial" in classify(case, out)


shrink_candidates = G.shrink_txn
neighbours = G.neighbours_txn
