"""C23 — Concurrent transactions merge at commit and never lose committed writes."""
from lib import vlib
from lib.vlib import cq_list
from props import sqlsched_gen as G

ID = "C23"
HARNESS_PKG = "c23"
HARNESS_RUNNER = "c23"
COQ_TARGETS = ["theories/C23/Corr3.vo"]
COQ_CORR_MODULE = "C23.Model C23.Spec C23.Corr C23.Staged C23.Corr3"
COQ_CASE_TYPE = "C23.Corr3.acase"
COQ_CHECK = "C23.Corr3.check_any"
COQ_SHARD = 400
DESIGN_REF = "§5 C23"
TECHNIQUE = ("Coq proof over every schedule of a step-by-step model of doCommit / mergeRoots / ThreeWayDiffer / valueMerger "
             "(refinement to a cell-wise overlay spec) + in-Coq correspondence on generated multi-session SQL schedules")
LEVEL_TEXT = ("Proof (F/M): for every schedule (list of (session, statement)) of the transaction machine — snapshot at BEGIN, own working copy, "
              "COMMIT = fast-forward if the persisted state equals the start state else key-wise three-way merge with the code's conflict rule — "
              "Coq proves: a successful commit gives every changed cell the transaction's value and changes no other cell; a refused commit leaves "
              "the committed state unchanged; a commit is refused iff some cell was changed to different values by both sides (delete = all cells of the row); "
              "the final state is the fold of the cell-wise merges of the committed transactions in commit order; no committed cell value is replaced "
              "except by a later committed transaction that changed that cell and had read the value it replaced. The model is tied to the engine by "
              "running generated schedules on 2-4 real SQL sessions and comparing every statement result and the final table inside Coq. "
              "Second machine (Staged.v): the branch state is (HEAD, STAGED, WORKING) and transactions CALL DOLT_ADD / DOLT_COMMIT while others are open; doCommit's "
              "fast-forward test on WORKING and STAGED, the per-root merges, and doltCommit's merge of a moved HEAD are proved to refine the cell-wise spec on every root; "
              "for every schedule no dolt-committed cell leaves HEAD except through a later dolt commit that changed it, and a SQL COMMIT moves STAGED only where the "
              "transaction itself staged (STAGED never falls behind HEAD); HEAD, STAGED and WORKING are read by an independent session after every statement.")
LEVEL_NOTE = ("Trusted: Coq kernel, Go harness + Python glue. Modelled, not verified: go-mysql-server statement execution (INSERT/UPDATE/DELETE/SELECT on one "
              "3-column table are modelled as functions on the session's working table), the commit lock and CAS retry loop (commits are atomic steps in a "
              "schedule; the harness issues statements one at a time), prolly-tree diffing (a key-wise comparison in the model), staged/HEAD roots "
              "(only plain COMMIT is modelled, not CALL dolt_commit inside concurrent transactions), schema changes.")
THEOREMS = ["commit_applies_own", "commit_touches_only_own", "failed_commit_no_trace", "commit_fails_iff_conflict",
            "final_is_merge", "no_lost_committed_write", "do_commit_refines_spec", "failed_commit_rolls_back", "oracle_accepts_model",
            "do_commit3_refines_spec", "no_lost_head_write", "staged_moves_only_where_staged", "plain_commit_keeps_head", "failed_commit3_no_trace"]
RULE = ("schedules of 8-30 statements over 2-4 sessions (some with autocommit on) on t(pk,a,b), keys 1-4, values 0-2/NULL; statement mix BEGIN/COMMIT/ROLLBACK/"
        "SELECT/INSERT/UPDATE cell/UPDATE col=col+d/DELETE; every session commits at the end; non-trivial = at least one commit attempt with a non-empty "
        "change set; distinct by schedule content")
ASSUMPTIONS = ["statements are issued one at a time (a schedule is a total order of statements); true parallelism inside doCommit is serialised by the engine's commit lock",
               "roots cases (HEAD/STAGED/WORKING with DOLT_ADD('-A'), DOLT_COMMIT('-m'), DOLT_COMMIT('-a','-m')): sessions run with autocommit off; the theorems about HEAD and "
               "STAGED assume no cell conflict in the STAGED / HEAD merges of a commit (the code checks only the WORKING merge); the oracle stops judging a schedule at the first such conflict"]
REQUIRED_TAGS = ["commit-ok", "commit-conflict", "merge-nonff", "cellwise-merge", "delete-vs-modify", "insert-insert", "dup-key", "autocommit", "begin-in-txn",
                 "roots-case", "dolt-commit-am-concurrent", "sql-commit-after-concurrent-dolt-commit", "dolt-add", "dolt-commit-staged", "nothing-to-commit",
                 "head-merge", "staged-differs-from-head"]

K_DCOMMIT, K_DADD, K_DCOMMIT_ALL = 9, 10, 11


def gen_stmt3(rng, sess, hot):
    r = rng.random()
    if r < 0.10:
        return [sess, K_DCOMMIT_ALL, 0, 0, 0]
    if r < 0.15:
        return [sess, K_DCOMMIT, 0, 0, 0]
    if r < 0.21:
        return [sess, K_DADD, 0, 0, 0]
    if r < 0.36:
        return [sess, G.K_COMMIT, 0, 0, 0]
    if r < 0.40:
        return [sess, G.K_BEGIN, 0, 0, 0]
    if r < 0.43:
        return [sess, G.K_ROLLBACK, 0, 0, 0]
    if r < 0.50:
        return [sess, G.K_SELECT, 0, 0, 0]
    st = G.gen_stmt(rng, sess, hot)
    while st[1] in (G.K_BEGIN, G.K_COMMIT, G.K_ROLLBACK):
        st = G.gen_stmt(rng, sess, hot)
    return st


def gen_roots(rng):
    nsess = rng.choice([2, 2, 3])
    init = [[k, G._val(rng), G._val(rng)] for k in G.KEYS if rng.random() < 0.5]
    hot = rng.sample(G.KEYS, 2)
    steps = []
    cur = rng.randrange(nsess)
    for _ in range(rng.randint(8, 24)):
        if rng.random() < 0.5:
            cur = rng.randrange(nsess)
        steps.append(gen_stmt3(rng, cur, hot))
    order = list(range(nsess)); rng.shuffle(order)
    for s in order:
        steps.append([s, rng.choice([G.K_COMMIT, G.K_COMMIT, K_DCOMMIT_ALL]), 0, 0, 0])
    steps.append([0, K_DCOMMIT, 0, 0, 0])
    return {"mode": "roots", "init": init, "nsess": nsess, "autos": [], "steps": steps}


FIXED_ROOTS = [
    # unstaged rows in the working set; B dolt-commits them (-am) while A is open; A then SQL-commits a row change;
    # finally what is staged is dolt-committed: nothing B committed may leave HEAD
    {"mode": "roots", "init": [[1, 0, 0]], "nsess": 2, "autos": [],
     "steps": [[0, 4, 2, 1, 1], [0, 1, 0, 0, 0], [0, 3, 0, 0, 0], [1, 3, 0, 0, 0], [1, 11, 0, 0, 0], [0, 5, 1, 0, 2], [0, 1, 0, 0, 0],
               [0, 9, 0, 0, 0], [1, 9, 0, 0, 0], [1, 10, 0, 0, 0], [1, 1, 0, 0, 0], [1, 9, 0, 0, 0]]},
    # the same with DOLT_ADD + COMMIT by B, and a follow-up commit of the staged root
    {"mode": "roots", "init": [[1, 0, 0]], "nsess": 2, "autos": [],
     "steps": [[0, 4, 2, 1, 1], [0, 1, 0, 0, 0], [0, 3, 0, 0, 0], [1, 10, 0, 0, 0], [1, 1, 0, 0, 0], [0, 4, 3, 2, 2], [0, 1, 0, 0, 0],
               [1, 9, 0, 0, 0], [0, 3, 0, 0, 0]]},
    # two concurrent dolt commits: HEAD of the second is merged with the first's
    {"mode": "roots", "init": [[1, 0, 0]], "nsess": 2, "autos": [],
     "steps": [[0, 5, 1, 0, 1], [1, 5, 1, 1, 2], [0, 11, 0, 0, 0], [1, 11, 0, 0, 0], [0, 4, 3, 0, 0], [0, 10, 0, 0, 0], [0, 5, 3, 0, 1],
               [1, 4, 4, 0, 0], [1, 11, 0, 0, 0], [0, 9, 0, 0, 0], [0, 1, 0, 0, 0]]},
]


def gen_cases(rng, tier):
    cases = G.gen_cases_txn(rng, tier)
    n3 = 170 if tier == "quick" else 6000
    cases = cases[:230 if tier == "quick" else len(cases)]
    cases += [dict(c) for c in FIXED_ROOTS]
    for _ in range(n3):
        cases.append(gen_roots(rng))
    return cases


def cq_stmt3(st):
    if st[1] == K_DCOMMIT:
        return "SDoltCommit false"
    if st[1] == K_DCOMMIT_ALL:
        return "SDoltCommit true"
    if st[1] == K_DADD:
        return "SAdd"
    if 12 <= st[1] <= 15:
        return "SReadAs %d" % (st[1] - 12)
    if st[1] in (16, 17):      # the database name written in upper / mixed case: the same read as 12 / 13
        return "SReadAs %d" % (st[1] - 16)
    return "SBase (%s)" % G.cq_stmt(st)


def coq_case(case, out):
    if case.get("mode") != "roots":
        return "A1 %s" % G.coq_case_txn(case, out)
    inp = "{| j_U := %s; j_init := %s; j_sched := %s |}" % (
        cq_list(str(k) for k in G.case_keys(case)), cq_list(G.cq_row(r) for r in case["init"]),
        cq_list("(%d, %s)" % (st[0], cq_stmt3(st)) for st in case["steps"]))
    o = out.get("obs")
    if o is None or out.get("err") or out.get("panic"):
        return "A3 (%s, {| o3_steps := [] |})" % inp
    rows = lambda rs: cq_list(G.cq_row(r) for r in rs)
    steps = cq_list("(%s, %s, %s, %s)" % (G.cq_sobs(s), rows(h), rows(sg), rows(w))
                    for s, h, sg, w in zip(o["steps"], o["head"], o["staged"], o["working"]))
    return "A3 (%s, {| o3_steps := %s |})" % (inp, steps)


def classify3(case, out):
    o = out.get("obs")
    if o is None:
        return ["panic"]
    t = {"roots-case"}
    active = {}          # session -> head version at transaction start
    wrote = {}           # session -> made row changes in this transaction
    hv = 0
    for st, s, h, sg in zip(case["steps"], o["steps"], o["head"], o["staged"]):
        i, k = st[0], st[1]
        if h != sg:
            t.add("staged-differs-from-head")
        ends = k in (G.K_COMMIT, G.K_ROLLBACK, K_DCOMMIT, K_DCOMMIT_ALL)
        if k == G.K_BEGIN:
            active[i] = hv; wrote[i] = False
            continue
        if i not in active and k != G.K_ROLLBACK:
            active[i] = hv; wrote[i] = False
        if k in (G.K_INSERT, G.K_UPDATE, G.K_DELETE, G.K_UPDADD) and s["err"] == 0 and s.get("aff", 0) > 0:
            wrote[i] = True
        if k == K_DADD:
            t.add("dolt-add")
        if k in (K_DCOMMIT, K_DCOMMIT_ALL):
            if s["err"] == 0:
                t.add("dolt-commit-staged" if k == K_DCOMMIT else "dolt-commit-am")
                if any(j != i for j in active):
                    t.add("dolt-commit-am-concurrent" if k == K_DCOMMIT_ALL else "dolt-commit-concurrent")
                if active.get(i, hv) != hv:
                    t.add("head-merge")
                hv += 1
                t.add("nontrivial")
            elif s["err"] == 3:
                t.add("nothing-to-commit")
            elif s["err"] == 1:
                t.add("commit-conflict")
        if k == G.K_COMMIT and i in active:
            if s["err"] == 0 and wrote.get(i) and active[i] != hv:
                t.add("sql-commit-after-concurrent-dolt-commit")
            if s["err"] == 1:
                t.add("commit-conflict")
        if ends:
            active.pop(i, None)
    return sorted(t)


def classify(case, out):
    if case.get("mode") == "roots":
        return classify3(case, out)
    return G.classify_txn(case, out)


def nontrivial(case, out):
    return "nontrivial" in classify(case, out)


_SHRINK_BUDGET = [45]   # candidates offered per run: each one costs a harness run and a coqc start


def shrink_candidates(case):
    st = case["steps"]
    n = len(st)
    cands = []
    # the damage shows at some statement: cut the schedule after it (bisection), then drop single statements
    for m in (n // 2, (3 * n) // 4, n - 2, n - 1):
        if 0 < m < n:
            cands.append(dict(case, steps=st[:m]))
    if n <= 12:
        for i in range(n):
            cands.append(dict(case, steps=st[:i] + st[i + 1:]))
        for i in range(len(case["init"])):
            cands.append(dict(case, init=case["init"][:i] + case["init"][i + 1:]))
    for c in cands:
        if _SHRINK_BUDGET[0] <= 0:
            return
        _SHRINK_BUDGET[0] -= 1
        yield c


def neighbours(case, rng):
    if case.get("mode") == "roots":
        return [gen_roots(rng) for _ in range(60)]
    return G.neighbours_txn(case, rng)
