"""C23 — Concurrent transactions merge at commit and never lose committed writes."""
from lib import vlib
from lib.vlib import cq_list
from props import sqlsched_gen as G

ID = "C23"
HARNESS_PKG = "c23"
HARNESS_RUNNER = "c23"
COQ_TARGETS = ["theories/C23/Corr.vo"]
COQ_CORR_MODULE = "C23.Model C23.Spec C23.Corr"
COQ_CASE_TYPE = "C23.Corr.case"
COQ_CHECK = "C23.Corr.check_case"
COQ_MODEL_OBS = "(fun c => C23.Corr.model_obs (fst c))"
COQ_SHARD = 400
DESIGN_REF = "§5 C23"
TECHNIQUE = ("Coq proof over every schedule of a step-by-step model of doCommit / mergeRoots / ThreeWayDiffer / valueMerger "
             "(refinement to a cell-wise overlay spec) + in-Coq correspondence on generated multi-session SQL schedules")
LEVEL_TEXT = ("Proof (F/M): for every schedule (list of (session, statement)) of the transaction machine — snapshot at BEGIN, own working copy, "
              "COMMIT = fast-forward if the persisted state equals the start state else key-wise three-way merge with the code's conflict rule — "
              "Coq proves: a successful commit gives every changed cell the transaction's value and changes no other cell; a refused commit leaves "
              "the committed state unchanged; a commit is refused iff some cell was changed to different values by both sides (delete = all cells of the row); "
              "the final state is the fold of the cell-wise merges of the committed transactions in commit order; no committed cell value is replaced "
              "except by a later committed transaction that changed that cell and had read the value it replaced. The model is tied to the engine by "
              "running generated schedules on 2-4 real SQL sessions and comparing every statement result and the final table inside Coq.")
LEVEL_NOTE = ("Trusted: Coq kernel, Go harness + Python glue. Modelled, not verified: go-mysql-server statement execution (INSERT/UPDATE/DELETE/SELECT on one "
              "3-column table are modelled as functions on the session's working table), the commit lock and CAS retry loop (commits are atomic steps in a "
              "schedule; the harness issues statements one at a time), prolly-tree diffing (a key-wise comparison in the model), staged/HEAD roots "
              "(only plain COMMIT is modelled, not CALL dolt_commit inside concurrent transactions), schema changes.")
THEOREMS = ["commit_applies_own", "commit_touches_only_own", "failed_commit_no_trace", "commit_fails_iff_conflict",
            "final_is_merge", "no_lost_committed_write", "do_commit_refines_spec", "failed_commit_rolls_back", "oracle_accepts_model"]
RULE = ("schedules of 8-30 statements over 2-4 sessions (some with autocommit on) on t(pk,a,b), keys 1-4, values 0-2/NULL; statement mix BEGIN/COMMIT/ROLLBACK/"
        "SELECT/INSERT/UPDATE cell/UPDATE col=col+d/DELETE; every session commits at the end; non-trivial = at least one commit attempt with a non-empty "
        "change set; distinct by schedule content")
ASSUMPTIONS = ["statements are issued one at a time (a schedule is a total order of statements); true parallelism inside doCommit is serialised by the engine's commit lock",
               "sessions use plain COMMIT (working set only); CALL dolt_commit inside concurrent transactions is outside this model"]
REQUIRED_TAGS = ["commit-ok", "commit-conflict", "merge-nonff", "cellwise-merge", "delete-vs-modify", "insert-insert", "dup-key", "autocommit", "begin-in-txn"]

gen_cases = G.gen_cases_txn
coq_case = G.coq_case_txn
classify = G.classify_txn
nontrivial = G.nontrivial_txn
shrink_candidates = G.shrink_txn
neighbours = G.neighbours_txn
