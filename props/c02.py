"""C02 — Root commit is an atomic compare-and-swap and acknowledged commits persist."""
import sys

from lib import vlib
from lib.vlib import cq_list

ID = "C02"
HARNESS_PKG = "c02"
HARNESS_RUNNER = "c02"
COQ_TARGETS = ["theories/C02/Corr.vo"]
COQ_CORR_MODULE = "Base.Str C02.Model C02.Spec C02.Corr"
COQ_CASE_TYPE = "C02.Corr.case"
COQ_CHECK = "C02.Corr.check_case"
COQ_MODEL_OBS = "C02.Corr.model_obs_any"
COQ_SHARD = 135
DESIGN_REF = "§5 C02"
TECHNIQUE = ("Coq proof over all interleavings (list (client*step), manifest.Update one atomic step, Commit split into begin + one step per "
             "updateManifest call) by invariant induction + in-Coq correspondence against 1-3 real NomsBlockStore clients on one directory")
LEVEL_TEXT = ("Proof (P): 'a failed commit changes nothing', root_history_linear and ack_persist (chunks; root for commits that went through the "
              "manifest) are proved for all schedules. commit_is_cas as stated is REFUTED on the faithful model (two witnesses, both reproduced on "
              "the real code on every run); the strongest true version (success = swap at root=last | persisted manifest already exactly the "
              "intended one | nothing-novel cur=last shortcut) is proved as commit_is_cas_partial. The executable oracle is the exact CAS register.")
LEVEL_NOTE = ("Trusted: Coq kernel, Go harness + Python glue. Modelled, not verified: fslock/flock and nbs.mu give mutual exclusion (manifest.Update "
              "is one atomic step; one updateManifest call is one atomic step because everything before the Update is client-local or writes "
              "content-addressed files nobody reads yet); SHA-512 collision-freeness (lock = (root, set of table names), table name = ordered "
              "chunk list); hasCache, conjoin (>256 tables), GC/prune (C05), appendix specs, AWS/blobstore manifests are outside the model. "
              "Journaling store: second model (one writer holding the exclusive LOCK; ChunkJournal.Persist/Update; graceful close + reopen; a second "
              "handle is read-only) with the same theorems and its own correspondence; crash recovery of the journal is C03's, the lagging backing "
              "manifest file is not modelled. gcGen is constant in both models (Update rejecting a gcGen change is not modelled).")
THEOREMS = ["commit_is_cas_refuted", "commit_is_cas_refuted_noop", "commit_is_cas_statement_false", "commit_is_cas_partial",
            "failure_changes_nothing", "root_history_linear", "root_changes_are_swaps", "ack_persist", "ack_persist_refuted",
            "oracle_rejects_double", "oracle_rejects_noop",
            "j_never_stale", "j_failure_changes_nothing", "j_commit_is_cas_refuted", "j_commit_is_cas_partial",
            "j_root_history_linear", "j_ack_persist"]
REFUTED = ["commit_is_cas (full statement): witness_double, witness_noop", "ack_persist root part for the shortcut: witness_noop",
           "journaling store: commit_is_cas (full statement): [JCommit 3 3]"]
RULE = ("1-3 clients on one directory, memtable capacity 1-4 chunks, up to 12 API calls: Put (own chunk ids, repeats allowed), Rebase, "
        "Commit(cur,last) with cur an own chunk (possibly never Put: dangling) or the caller's Root(), last the caller's Root() or an explicit "
        "(possibly stale / wrong) root; plus journaling-store histories (one writer): Put / Rebase / Commit / Reopen (close + fresh journaling open) / "
        "Probe (second handle while the writer is open); non-trivial = at least one Commit; distinct by JSON")
ASSUMPTIONS = [
    "generated schedules never contain the two known deviations, which are replayed separately on every run (see 'explanation'): "
    "(1) two clients never commit the same (cur, table set): Put ids are disjoint per client and cur is an own chunk or the caller's Root() with last = Root(); "
    "(2) a Commit whose cur can equal last is always immediately preceded by a Put or a Rebase of the same client, so the "
    "'nothing novel and current == last' shortcut only runs with a fresh view",
    "memTableSize = cap * 10 bytes with 10-byte chunks; cap >= 1",
    "API calls are executed sequentially in one goroutine (each call atomic at this granularity); sub-call interleavings are covered by the theorems only",
    "fewer than 256 tables (no conjoin); no GC / prune (C05)",
    "journaling histories: one writer in one process, default memtable size (no overflow flush on Put), graceful Close before every reopen "
    "(crash recovery is C03); an explicit last is never equal to cur (the shortcut deviation is replayed separately)",
    "a spurious 100 ms flock timeout of fileManifest under load is retried by the harness (up to 5 times per case) and never reported as an observation",
]
REQUIRED_TAGS = ["commit-ok-root-moves", "commit-ok-same-root", "commit-false", "dangling", "ok-after-foreign-commit",
                 "noop-commit", "three-clients", "tables>=3",
                 "journal", "j-commit-ok", "j-commit-false", "j-dangling", "j-reopen", "j-probe-readonly", "j-noop-commit", "j-reopen-after-ack",
                 "ok-same-root-publishes-carried-novel", "j-probe-after-2-commits"]
EXPLANATION = ""

KEY_DOUBLE = "nbs.updateManifest:idempotent-double-success"
KEY_NOOP = "nbs.commit:noop-shortcut-ignores-last"

WITNESSES = [
    (KEY_DOUBLE,
     "Commit(cur,last) returns true although the persisted root != last at its manifest step and it swapped nothing: "
     "updateManifest decides success by newContents.lock == returned.lock, which also holds when another client already installed the identical manifest",
     {"n": 2, "cap": 4, "univ": [1, 2, 5],
      "ops": [{"c": 0, "op": "put", "x": 1}, {"c": 1, "op": "put", "x": 1},
              {"c": 0, "op": "commit", "cur": 1, "last": 0}, {"c": 1, "op": "commit", "cur": 1, "last": 0}]}),
    (KEY_NOOP,
     "Commit(x,x) by a client with nothing novel returns true whatever the persisted root is (shortcut in NomsBlockStore.commit skips the last check)",
     {"n": 2, "cap": 4, "univ": [1, 2, 5],
      "ops": [{"c": 0, "op": "put", "x": 1}, {"c": 0, "op": "commit", "cur": 1, "last": 0},
              {"c": 1, "op": "commit", "cur": 5, "last": 5}]}),
    (KEY_NOOP,
     "journaling store: Commit(x,x) by a writer with nothing novel returns true whatever the journal's root is (same shortcut)",
     {"mode": "journal", "univ": [1, 2, 3],
      "ops": [{"op": "put", "x": 1}, {"op": "reopen"}, {"op": "commit", "cur": 3, "last": 3}]}),
]


def own_ids(c):
    return [c * 4 + k for k in (1, 2, 3, 4)]


def gen_one(rng, tier):
    n = rng.choice([1, 2, 2, 2, 3, 3])
    cap = rng.choice([1, 2, 2, 3, 4])
    univ = [x for c in range(n) for x in own_ids(c)]
    ops = []
    maxops = rng.randint(4, 12)

    putset = [[] for _ in range(n)]

    def pick_cur(c):
        if putset[c] and rng.random() < 0.8:
            return rng.choice(putset[c])
        return rng.choice(own_ids(c))

    def put(c):
        x = rng.choice(own_ids(c)[:3])
        putset[c].append(x)
        return {"c": c, "op": "put", "x": x}

    def commit(c, guarded):
        """guarded: the previous op is a Put/Rebase of the same client, so cur may equal last."""
        k = rng.random()
        if guarded and k < 0.50:
            return {"c": c, "op": "commit", "cur": pick_cur(c), "last": -1}
        if guarded and k < 0.80:
            return {"c": c, "op": "commit", "cur": -1, "last": -1}
        cur = pick_cur(c)
        last = rng.choice([0] + univ)
        while last == cur:
            last = rng.choice([0] + univ)
        return {"c": c, "op": "commit", "cur": cur, "last": last}

    while len(ops) < maxops:
        c = rng.randrange(n)
        k = rng.random()
        if k < 0.30:
            ops.append(put(c))
        elif k < 0.38:
            ops.append({"c": c, "op": "rebase"})
        elif k < 0.70:
            ops.append(put(c))
            ops.append(commit(c, True))
        elif k < 0.84:
            ops.append({"c": c, "op": "rebase"})
            ops.append(commit(c, True))
        elif k < 0.92:
            # a Commit that fails AFTER flushing the memtable (dangling current = an own chunk that is never Put, or a
            # possibly lost race), so that novel tables are carried; later a root-preserving Commit must publish them
            ops.append(put(c))
            if rng.random() < 0.5:
                ops.append({"c": c, "op": "commit", "cur": own_ids(c)[3], "last": -1})
            else:
                ops.append(commit(c, True))
            if rng.random() < 0.5:
                d = rng.randrange(n)
                if d != c:
                    ops.append(put(d))
                    ops.append(commit(d, True))
            ops.append({"c": c, "op": "rebase"})
            ops.append({"c": c, "op": "commit", "cur": -1, "last": -1})
        else:
            ops.append(commit(c, False))
    return {"n": n, "cap": cap, "univ": univ, "ops": ops}


def gen_journal(rng):
    univ = [1, 2, 3, 4, 5, 6]
    ops = []
    puts = []
    n = rng.randint(4, 12)
    if rng.random() < 0.2:
        # several acknowledged root-changing commits without a Close, then a second handle (the backing manifest lags the journal)
        xs = rng.sample(univ[:4], rng.choice([2, 3]))
        for x in xs:
            puts.append(x)
            ops.append({"op": "put", "x": x})
            ops.append({"op": "commit", "cur": x, "last": -1})
        ops.append({"op": "probe", "x": 6})
    while len(ops) < n:
        k = rng.random()
        if k < 0.35:
            x = rng.choice(univ[:4])
            puts.append(x)
            ops.append({"op": "put", "x": x})
        elif k < 0.75:
            cur = rng.choice(puts) if puts and rng.random() < 0.8 else rng.choice(univ[:5])
            m = rng.random()
            if m < 0.55:
                ops.append({"op": "commit", "cur": cur, "last": -1})
            elif m < 0.8:
                ops.append({"op": "commit", "cur": -1, "last": -1})
            else:
                last = rng.choice([0] + univ[:5])
                while last == cur:
                    last = rng.choice([0] + univ[:5])
                ops.append({"op": "commit", "cur": cur, "last": last})
            if rng.random() < 0.12:
                ops.append({"op": "probe", "x": 6})
        elif k < 0.8:
            ops.append({"op": "rebase"})
        elif k < 0.95:
            ops.append({"op": "reopen"})
        else:
            ops.append({"op": "probe", "x": 6})
    return {"mode": "journal", "univ": univ, "ops": ops}


def gen_cases(rng, tier):
    n = 260 if tier == "quick" else 12000
    fixed = [
        # the non-vacuity sample of Proofs.v (sample_api)
        {"n": 2, "cap": 2, "univ": [1, 2, 3, 4, 5, 6], "ops": [
            {"c": 0, "op": "put", "x": 1}, {"c": 0, "op": "put", "x": 2}, {"c": 0, "op": "commit", "cur": 2, "last": -1},
            {"c": 1, "op": "put", "x": 3}, {"c": 1, "op": "commit", "cur": 3, "last": -1},
            {"c": 0, "op": "put", "x": 5}, {"c": 0, "op": "commit", "cur": -1, "last": -1},
            {"c": 1, "op": "put", "x": 4}, {"c": 1, "op": "commit", "cur": -1, "last": -1},
            {"c": 0, "op": "rebase"}, {"c": 0, "op": "commit", "cur": -1, "last": -1},
            {"c": 1, "op": "commit", "cur": 6, "last": 2}]},
        # Put of an already persisted chunk: the flush writes nothing (emptyChunkSource), Commit(self,self) goes through the manifest
        {"n": 2, "cap": 2, "univ": [1, 2, 5, 6], "ops": [
            {"c": 0, "op": "put", "x": 1}, {"c": 0, "op": "commit", "cur": 1, "last": -1},
            {"c": 0, "op": "put", "x": 1}, {"c": 0, "op": "commit", "cur": -1, "last": -1},
            {"c": 1, "op": "rebase"}, {"c": 1, "op": "commit", "cur": -1, "last": -1}]},
        # memtable overflow on Put (cap 1): tables appear before any Commit
        {"n": 1, "cap": 1, "univ": [1, 2, 3, 4], "ops": [
            {"c": 0, "op": "put", "x": 1}, {"c": 0, "op": "put", "x": 2}, {"c": 0, "op": "put", "x": 3},
            {"c": 0, "op": "commit", "cur": 3, "last": 0}, {"c": 0, "op": "commit", "cur": 2, "last": 1},
            {"c": 0, "op": "commit", "cur": 2, "last": 3}]},
    ]
    # lost race with flushed chunks, then a root-preserving Commit: the carried novel table must be published
    fixed.append({"n": 2, "cap": 4, "univ": [1, 2, 3, 4, 5, 6, 7, 8], "ops": [
        {"c": 1, "op": "put", "x": 5}, {"c": 1, "op": "commit", "cur": 5, "last": -1},
        {"c": 0, "op": "put", "x": 1}, {"c": 0, "op": "put", "x": 2}, {"c": 0, "op": "commit", "cur": 1, "last": -1},
        {"c": 0, "op": "rebase"}, {"c": 0, "op": "commit", "cur": -1, "last": -1},
        {"c": 1, "op": "rebase"}]})
    cases = list(fixed)
    while len(cases) < n + len(fixed):
        cases.append(gen_one(rng, tier))
    # journaling store
    cases.append({"mode": "journal", "univ": [1, 2, 3, 4, 5], "ops": [
        {"op": "probe", "x": 5}, {"op": "put", "x": 1}, {"op": "commit", "cur": 1, "last": -1}, {"op": "put", "x": 2},
        {"op": "probe", "x": 5}, {"op": "commit", "cur": 3, "last": -1}, {"op": "reopen"}, {"op": "put", "x": 3}, {"op": "reopen"},
        {"op": "commit", "cur": 2, "last": 0}, {"op": "put", "x": 1}, {"op": "commit", "cur": -1, "last": -1}, {"op": "rebase"},
        {"op": "commit", "cur": 2, "last": -1}, {"op": "reopen"}, {"op": "probe", "x": 5}]})
    # a journal that exists but was never committed: Close fails ("Lock hash cannot be empty"), the chunk stays in the journal
    cases.append({"mode": "journal", "univ": [1, 2, 3], "ops": [
        {"op": "put", "x": 1}, {"op": "commit", "cur": 2, "last": -1}, {"op": "reopen"}, {"op": "put", "x": 2},
        {"op": "commit", "cur": 1, "last": -1}, {"op": "commit", "cur": 2, "last": -1}, {"op": "reopen"}]})
    # second handle after several acknowledged commits without a Close: the backing manifest lags the journal
    cases.append({"mode": "journal", "univ": [1, 2, 3, 4], "ops": [
        {"op": "put", "x": 1}, {"op": "commit", "cur": 1, "last": -1}, {"op": "put", "x": 2}, {"op": "commit", "cur": 2, "last": -1},
        {"op": "probe", "x": 4}, {"op": "put", "x": 3}, {"op": "commit", "cur": 3, "last": -1}, {"op": "probe", "x": 4},
        {"op": "reopen"}, {"op": "probe", "x": 4}]})
    nj = 70 if tier == "quick" else 3000
    for _ in range(nj):
        cases.append(gen_journal(rng))
    return cases


# ---------------------------------------------------------------- Coq terms
def _rref(v):
    return "RSelf" if v < 0 else "(RId %d)" % v


def _op(o):
    if o["op"] == "put":
        a = "(APut %d)" % o["x"]
    elif o["op"] == "rebase":
        a = "ARebase"
    else:
        a = "(ACommit %s %s)" % (_rref(o["cur"]), _rref(o["last"]))
    return "(%d%%nat, %s)" % (o["c"], a)


def _nl(l):
    return "[" + "; ".join(str(int(x)) for x in l) + "]"


def coq_input(case):
    return "(Build_input %d%%nat %d %s %s)" % (
        case["n"], case["cap"], _nl(case["univ"]), cq_list(_op(o) for o in case["ops"]))


def _jop(o):
    if o["op"] == "put":
        return "(JAPut %d)" % o["x"]
    if o["op"] == "commit":
        return "(JACommit %s %s)" % (_rref(o["cur"]), _rref(o["last"]))
    return {"rebase": "JARebase", "reopen": "JAReopen", "probe": "JAProbe"}[o["op"]]


def coq_jcase(case, out):
    inp = "(Build_jinput %s %s)" % (_nl(case["univ"]), cq_list(_jop(o) for o in case["ops"]))
    o = (out or {}).get("obs")
    if o is None:
        return "(CJrn %s [])" % inp
    steps = ["(JK %d %d %s %s %s)" % (s["res"], s["croot"], _nl(s["has"] or []), "true" if s.get("ro") else "false", _nl(s.get("phas") or []))
             for s in o["steps"]]
    return "(CJrn %s %s)" % (inp, cq_list(steps))


def coq_case(case, out):
    """Compact transport form (Corr.csobs): table set / Has set only when they changed since the previous step."""
    if case.get("mode") == "journal":
        return coq_jcase(case, out)
    o = (out or {}).get("obs")
    if o is None:
        return "(CDir %s [])" % coq_input(case)   # no observation: disagrees with every model run and fails the oracle
    steps = []
    pspecs, phas = [], []
    for s in o["steps"]:
        specs, has = s["dspecs"] or [], s["fhas"] or []
        sp = "None" if specs == pspecs else "(Some %s)" % cq_list(_nl(t) for t in specs)
        hs = "None" if has == phas else "(Some %s)" % _nl(has)
        steps.append("(K %d %d %d %d %s %s)" % (s["res"], s["croot"], s["droot"], s["froot"], sp, hs))
        pspecs, phas = specs, has
    return "(CDir %s %s)" % (coq_input(case), cq_list(steps))


# ---------------------------------------------------------------- history analysis (distribution, known patterns)
def _walk(case, out):
    """Yield (op, step, before) with before = dict(droot, dspecs, croots) and resolved cur/last for commits."""
    o = (out or {}).get("obs")
    if not o:
        return
    droot, dspecs = 0, []
    croots = [0] * case["n"]
    for op, s in zip(case["ops"], o["steps"]):
        info = {"droot": droot, "dspecs": dspecs, "self": croots[op["c"]]}
        if op["op"] == "commit":
            info["cur"] = info["self"] if op["cur"] < 0 else op["cur"]
            info["last"] = info["self"] if op["last"] < 0 else op["last"]
        yield op, s, info
        droot, dspecs = s["droot"], s["dspecs"] or []
        croots[op["c"]] = s["croot"]


def _canon(specs):
    return sorted(tuple(t) for t in specs)


def _jwalk(case, out):
    o = (out or {}).get("obs")
    if not o:
        return
    reg, self_ = 0, 0
    for op, s in zip(case["ops"], o["steps"]):
        info = {"reg": reg, "self": self_}
        if op["op"] == "commit":
            info["cur"] = self_ if op["cur"] < 0 else op["cur"]
            info["last"] = self_ if op["last"] < 0 else op["last"]
        yield op, s, info
        if op["op"] == "commit" and s["res"] == 0:
            reg = info["cur"]
        if op["op"] != "probe":
            self_ = s["croot"]


def jclassify(case, out):
    t = ["journal"]
    acked = False
    moves = 0     # root-changing acknowledged commits since the writer was (re)opened
    for op, s, b in _jwalk(case, out):
        if op["op"] == "commit":
            if s["res"] == 0:
                t.append("j-commit-ok")
                acked = True
                if b["cur"] != b["reg"]:
                    moves += 1
                if b["cur"] == b["last"]:
                    t.append("j-noop-commit")
            elif s["res"] == 1:
                t.append("j-commit-false")
            elif s["res"] == 2:
                t.append("j-dangling")
            else:
                t.append("j-commit-error")
        elif op["op"] == "reopen":
            t.append("j-reopen")
            moves = 0
            if acked:
                t.append("j-reopen-after-ack")
            if s["res"] != 0:
                t.append("j-close-error")
        elif op["op"] == "probe":
            t.append("j-probe-readonly" if s.get("ro") and s["res"] == 4 else "j-probe-other")
            if moves >= 2:
                t.append("j-probe-after-2-commits")
    for k in patterns(case, out):
        t.append("pattern:" + k)
    return sorted(set(t))


def patterns(case, out):
    if case.get("mode") == "journal":
        return {KEY_NOOP for op, s, b in _jwalk(case, out)
                if op["op"] == "commit" and s["res"] == 0 and b["cur"] == b["last"] and b["reg"] != b["last"]}
    found = set()
    oks = []
    for op, s, b in _walk(case, out):
        if op["op"] != "commit" or s["res"] != 0:
            continue
        unchanged = s["droot"] == b["droot"] and _canon(s["dspecs"] or []) == _canon(b["dspecs"])
        if b["droot"] != b["last"]:
            if b["cur"] == b["last"] and unchanged:
                found.add(KEY_NOOP)
            elif unchanged and b["droot"] == b["cur"] and any(c != op["c"] and a == (b["cur"], b["last"]) for c, a in oks):
                found.add(KEY_DOUBLE)
        oks.append((op["c"], (b["cur"], b["last"])))
    return found


def match_known(finding, case, out):
    return finding.get("key") in patterns(case, out)


def classify(case, out):
    o = (out or {}).get("obs")
    if o is None:
        return ["panic"]
    if case.get("mode") == "journal":
        return jclassify(case, out)
    t = ["clients=%d" % case["n"], "cap=%d" % case["cap"]]
    if case["n"] == 3:
        t.append("three-clients")
    put_since_commit = [False] * case["n"]   # did the client Put since its last Commit attempt (memtable non-empty)?
    synced_at = [0] * case["n"]      # index of the last step at which the client refreshed its view
    foreign = [-1] * case["n"]       # index of the last manifest change by another client
    idx = 0
    maxtables = 0
    for op, s, b in _walk(case, out):
        idx += 1
        changed = s["droot"] != b["droot"] or _canon(s["dspecs"] or []) != _canon(b["dspecs"])
        maxtables = max(maxtables, len(s["dspecs"] or []))
        if op["op"] == "commit":
            if s["res"] == 0:
                t.append("commit-ok-root-moves" if s["droot"] != b["droot"] else "commit-ok-same-root")
                if not changed:
                    t.append("noop-commit")
                if changed and b["cur"] == b["last"] == b["droot"] and not put_since_commit[op["c"]]:
                    t.append("ok-same-root-publishes-carried-novel")
                if foreign[op["c"]] > synced_at[op["c"]]:
                    t.append("ok-after-foreign-commit")
                synced_at[op["c"]] = idx
            elif s["res"] == 1:
                t.append("commit-false")
                if b["self"] == b["last"]:
                    t.append("commit-false-root-moved")
            elif s["res"] == 2:
                t.append("dangling")
            else:
                t.append("commit-error")
            if changed:
                for c in range(case["n"]):
                    if c != op["c"]:
                        foreign[c] = idx
            put_since_commit[op["c"]] = False
        elif op["op"] == "put":
            if s["res"] == 0:
                put_since_commit[op["c"]] = True
            else:
                t.append("put-error")
        elif op["op"] == "rebase":
            synced_at[op["c"]] = idx
    if maxtables >= 3:
        t.append("tables>=3")
    for k in patterns(case, out):
        t.append("pattern:" + k)
    return sorted(set(t))


def nontrivial(case, out):
    return any(o["op"] == "commit" for o in case["ops"])


def shrink_candidates(case):
    ops = case["ops"]
    for i in range(len(ops)):
        yield dict(case, ops=ops[:i] + ops[i + 1:])
    if case.get("mode") != "journal" and case["n"] > 1 and all(o["c"] < case["n"] - 1 for o in ops):
        yield dict(case, n=case["n"] - 1)


def neighbours(case, rng):
    out = []
    ops = case["ops"]
    if case.get("mode") == "journal":
        for i in range(len(ops) + 1):
            for extra in ({"op": "reopen"}, {"op": "rebase"}, {"op": "put", "x": 1}, {"op": "commit", "cur": -1, "last": -1}):
                out.append(dict(case, ops=ops[:i] + [extra] + ops[i:]))
        for i in range(len(ops)):
            out.append(dict(case, ops=ops[:i] + ops[i + 1:]))
        rng.shuffle(out)
        return out[:150]
    for i in range(len(ops) + 1):
        for c in range(case["n"]):
            out.append(dict(case, ops=ops[:i] + [{"c": c, "op": "rebase"}] + ops[i:]))
            out.append(dict(case, ops=ops[:i] + [{"c": c, "op": "put", "x": own_ids(c)[0]}, {"c": c, "op": "commit", "cur": -1, "last": -1}] + ops[i:]))
    for i in range(len(ops)):
        out.append(dict(case, ops=ops[:i] + ops[i + 1:]))
    rng.shuffle(out)
    return out[:150]


def search_cases(rng):
    return [gen_one(rng, "quick") for _ in range(110)] + [gen_journal(rng) for _ in range(40)]


# ---------------------------------------------------------------- implementation run + witness replay
def run_impl(ctx, binary, cases):
    """Runs the generated cases and, on every run, replays the refutation witnesses of Proofs.v on the real code.
    The witness cases are appended to the case list: the exact-CAS oracle is false on them as long as the
    implementation shows the deviation, and the generic machinery reports that as KNOWN-FINDING only while the
    matching entry of known_findings.json is open (match_known); otherwise it is a VIOLATION. If the implementation
    stops showing a deviation the model no longer corresponds on the witness and that is reported too."""
    global EXPLANATION
    outs = vlib.run_harness(binary, HARNESS_RUNNER, cases, timeout=1800)
    wcases = [w[2] for w in WITNESSES]
    wouts = vlib.run_harness(binary, HARNESS_RUNNER, wcases, timeout=300)
    notes = []
    for j, (key, what, wc) in enumerate(WITNESSES):
        seen = key in patterns(wc, wouts[j])
        res = [s["res"] for s in (wouts[j].get("obs") or {}).get("steps", [])]
        notes.append("witness %s%s: %s on the real code; impl results %s"
                     % (key, " (journal)" if wc.get("mode") == "journal" else "", "REPRODUCED" if seen else "NOT reproduced", res))
        cases.append(wc)
        outs.append(wouts[j])
    EXPLANATION = " | ".join(notes)
    ctx.log("witness replay: " + EXPLANATION)
    return outs
