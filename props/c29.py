"""C29 — dolt_merge produces the row-level three-way merge."""
import copy

from lib.vlib import cq_list

ID = "C29"
HARNESS_PKG = "c29"
HARNESS_RUNNER = "c29"
COQ_TARGETS = ["theories/C29/Corr.vo"]
COQ_CORR_MODULE = "C29.Model C29.Spec C29.Corr"
COQ_CASE_TYPE = "C29.Corr.case"
COQ_CHECK = "C29.Corr.check_case"
COQ_MODEL_OBS = "(fun c => C29.Corr.model_obs (fst c))"
COQ_SHARD = 150
DESIGN_REF = "§5 C29, §6 F5"
TECHNIQUE = ("Coq proof (model of ThreeWayDiffer + valueMerger.TryMerge/processBaseColumn/processColumn + mergeColumns refines a declarative "
             "cell-wise three-way merge, for all tables and all one-sided column adds/drops) + in-Coq correspondence through SQL in both merge directions")
LEVEL_TEXT = ("Proof (F/P): for every schema triple whatsoever and all tables the repaired TryMerge never reaches an internal-error branch (merge_total; "
              "the line as found is refuted: F5). For every ancestor/left/right table and every schema triple in the one-sided add/drop class "
              "(schemas_ok) the model of dolt's row merge (differ + TryMerge + primaryMerger) equals the declarative cell-wise three-way merge "
              "(row_merge_refines_spec_exact; conflict_iff_in_scope, merge_one_sided, merge_agree, merge_cellwise, and the full merge_swap: same "
              "conflicting keys with mirrored entries and, on every other key, the same data column name by column name) inside a decidable scope "
              "(in_scope = schemas_okb && conv_okb && delete_exactb): compat_schemas_ok shows the readable class (one side keeps the ancestor's column "
              "list, the other changes the column SET or nothing) lies inside schemas_ok, conflict_iff_boundary shows delete_exact is necessary, and "
              "oracle_on_model shows the oracle accepts the model on every in-scope input. Representation-aware part (any class function: collation-equal, "
              "byte-different cells): merge_total_g, and merge_swap_g — the two directions store the same BYTES on every non-conflicting key (the "
              "tie-break 'larger byte string' at both sites of processColumn is what makes it true); the value-only theorems are the cls = identity "
              "instance (row_merge_g_id). Partial: the full conflict_iff / merge_swap "
              "statements are false of the faithful model and of dolt in three situations, kept as *_refuted witnesses that are replayed on the "
              "implementation on every run: delete vs. update confined to an added column (resolved silently), byte-identical stored tuples under "
              "different column lists (taken for a convergent edit), moved columns with a byte-equal row (update invisible to the differ). "
              "The model is tied to the code by CALL dolt_merge in both directions on generated branch histories.")
LEVEL_NOTE = ("Trusted: Coq kernel, Go harness (SQL script runner over the in-process engine), Python glue. Modelled, not verified: SQL DML (the three "
              "input tables are read back from the three commits), prolly-tree diff/patch machinery (C14/C30; the model is key-wise), value encodings and type "
              "conversion (a cell is its stored bytes plus a value class fed from the generator's vocabulary: case variants under utf8mb4_0900_ai_ci share a class, "
              "every other value is its own class; sqlType.Compare is modelled as class equality, bytes.Equal/bytes.Compare on the bytes; type widening is not "
              "generated), column defaults (added columns have none), "
              "secondary indexes and constraint validators (only their effect of selecting the slow merge path is exercised).")
THEOREMS = ["merge_total", "merge_total_g", "merge_swap_g", "row_merge_g_id", "merge_total_as_found_refuted", "row_merge_refines_spec_exact", "row_merge_refines_spec", "conflict_iff_in_scope",
            "conflict_iff_boundary", "conflict_iff_partial", "conflict_iff_refuted", "merge_swap", "spec_swap", "compat_schemas_ok", "schemas_okb_iff",
            "merge_one_sided_left", "merge_one_sided_right", "merge_agree", "merge_cellwise", "reorder_update_lost", "byte_coincidence_refuted",
            "table_merge_get", "conflicts_exact", "oracle_on_model"]
REFUTED = ["merge_total_as_found_refuted (F5: processBaseColumn rightSchema with left index)",
           "byte_coincidence_refuted (byte-equal stored tuples under different schemas taken for a convergent edit)",
           "conflict_iff_refuted (delete vs update of a newly added column resolved silently)",
           "merge_swap_refuted / reorder_update_lost (reordered columns, byte-equal row)"]
RULE = ("schemas with 1-2 int key columns and 2-4 nullable int / varchar / case-insensitive varchar (utf8mb4_0900_ai_ci, values differing only in case) columns, 0-12 base rows over a small key space, two branches with 0-7 "
        "inserts/updates/deletes each biased to a hot set of keys and cells, optional one-sided ADD COLUMN (any position) / DROP COLUMN / column move, "
        "optional secondary index (forces the row-by-row merge path); non-trivial = both branches differ from the base; distinct by script text")
ASSUMPTIONS = ["added columns carry no DEFAULT; no type widening is generated (a cell is its stored bytes plus a value class; only case variants of a ci collation share a class)",
               "at most one schema-changing statement per case, on one side"]
REQUIRED_TAGS = ["conflict", "clean", "cellwise", "delete-modify", "insert-insert", "schema-add", "schema-drop", "schema-move",
                 "no-schema-change", "with-index", "convergent", "convergent-insert-case-variant", "swap-bytes-compared"]

KEY_F5 = "processBaseColumn:rightSchema-with-left-index"
KEY_NEWCOL = "TryMerge:delete-vs-update-of-added-column-resolved-silently"
KEY_REORDER = "ThreeWayDiffer:moved-columns-byte-equal-row-update-lost"
KEY_COINCIDE = "ThreeWayDiffer:leftAndRightSchemasDiffer-ignored-byte-equal-rows-taken-as-convergent"

INTS = [0, 1, 2, 3]
STRS = ["a", "b", "c"]
# values of a varchar column with a case-insensitive collation: representations (stored bytes) of two value classes
CIVOC = sorted(["ab", "AB", "Ab", "cd", "CD"])      # byte order = the order bytes.Compare sees
CICLASS = ["ab", "cd"]
CI_SQLTY = "varchar(8) collate utf8mb4_0900_ai_ci"


# --------------------------------------------------------------------------
# generator
# --------------------------------------------------------------------------
def lit(ty, rng, null_p=0.15):
    if rng.random() < null_p:
        return "NULL"
    if ty == "ci":
        return "'%s'" % rng.choice(CIVOC)
    return str(rng.choice(INTS)) if ty == "int" else "'%s'" % rng.choice(STRS)


def sqlty(ty):
    return {"int": "int", "str": "varchar(8)", "ci": CI_SQLTY}[ty]


def colty(rng):
    x = rng.random()
    return "int" if x < 0.6 else ("str" if x < 0.78 else "ci")


def case_variant(lit_, rng):
    """another representation of the same value class (or the same literal when there is none)"""
    v = lit_.strip("'")
    alts = [w for w in CIVOC if w.lower() == v.lower() and w != v]
    return "'%s'" % rng.choice(alts) if alts and lit_ != "NULL" else lit_


def keylit(k):
    return ", ".join(str(x) for x in k)


def keywhere(pk, k):
    return " and ".join("%s=%d" % (p, x) for p, x in zip(pk, k))


def gen_dml(rng, pk, cols, hot, keyspace, n, hotcols):
    """cols: list of (name, ty) of the side's current schema. Returns SQL statements."""
    out = []
    for _ in range(n):
        k = rng.choice(hot) if rng.random() < 0.75 else rng.choice(keyspace)
        x = rng.random()
        if x < 0.25:
            names = pk + [c for c, _ in cols]
            vals = [str(v) for v in k] + [lit(t, rng) for _, t in cols]
            out.append("replace into t (%s) values (%s)" % (", ".join(names), ", ".join(vals)))
        elif x < 0.5:
            out.append("delete from t where %s" % keywhere(pk, k))
        else:
            m = 1 if rng.random() < 0.7 else 2
            pool = [c for c in cols if c[0] in hotcols] if rng.random() < 0.6 else cols
            pool = pool or cols
            cs = [rng.choice(pool) for _ in range(m)]
            sets = ", ".join("%s=%s" % (c, lit(t, rng)) for c, t in dict(cs).items())
            out.append("update t set %s where %s" % (sets, keywhere(pk, k)))
    return out


def gen_one(rng):
    npk = 1 if rng.random() < 0.7 else 2
    pk = ["p%d" % i for i in range(npk)]
    ncol = rng.randint(2, 4)
    cols = [("c%d" % i, colty(rng)) for i in range(ncol)]
    keyspace = [(a,) for a in range(6)] if npk == 1 else [(a, b) for a in range(4) for b in range(2)]
    hot = rng.sample(keyspace, 3)
    hotcols = [c for c, _ in rng.sample(cols, min(2, len(cols)))]
    setup = ["create table t (%s, %s, primary key (%s))" % (
        ", ".join("%s int not null" % p for p in pk), ", ".join("%s %s" % (c, sqlty(t)) for c, t in cols), ", ".join(pk))]
    index = rng.random() < 0.25
    if index:
        setup.append("create index ix on t (%s)" % cols[0][0])
    nb = rng.choice([0, 1, 2, 3, 4, 5, 6, 8, 12])
    bkeys = rng.sample(keyspace, min(nb, len(keyspace))) + [h for h in hot if rng.random() < 0.5]
    seen = set()
    for k in bkeys:
        if k in seen:
            continue
        seen.add(k)
        setup.append("insert into t values (%s, %s)" % (keylit(k), ", ".join(lit(t, rng) for _, t in cols)))
    sides = {}
    schema_side = rng.choice(["l", "r"]) if rng.random() < 0.6 else None
    kind = None
    for s in ("l", "r"):
        scols = list(cols)
        n = rng.choice([0, 1, 2, 3, 4, 5, 7])
        stmts = []
        if s == schema_side:
            kind = rng.choice(["add", "add", "drop", "drop", "move"])
            if index and kind == "drop":
                cand = scols[1:]
            else:
                cand = scols
            if kind == "drop" and (len(scols) < 2 or not cand):
                kind = "add"
            n1 = rng.randint(0, n)
            stmts += gen_dml(rng, pk, scols, hot, keyspace, n1, hotcols)
            if kind == "add":
                ty = colty(rng)
                pos = rng.randint(0, len(scols))
                where = "first" if pos == 0 and rng.random() < 0.5 else ("after %s" % scols[pos - 1][0] if pos > 0 else "after %s" % pk[-1])
                if pos == len(scols) and rng.random() < 0.5:
                    where = ""
                stmts.append("alter table t add column c9 %s %s" % (sqlty(ty), where))
                scols.insert(pos, ("c9", ty))
                hc = hotcols + ["c9"]
            elif kind == "drop":
                c = rng.choice(cand)
                stmts.append("alter table t drop column %s" % c[0])
                scols.remove(c)
                hc = hotcols
            else:
                c = rng.choice(scols)
                rest = [x for x in scols if x != c]
                pos = rng.randint(0, len(rest))
                where = "after %s" % (rest[pos - 1][0] if pos > 0 else pk[-1])
                stmts.append("alter table t modify column %s %s %s" % (c[0], sqlty(c[1]), where))
                rest.insert(pos, c)
                scols = rest
                hc = hotcols
            stmts += gen_dml(rng, pk, scols, hot, keyspace, n - n1, hc)
        else:
            stmts += gen_dml(rng, pk, scols, hot, keyspace, n, hotcols)
        sides[s] = stmts
    ci_cols = [c for c, t in cols if t == "ci"]
    if ci_cols and kind in (None, "add") and rng.random() < 0.7:
        # the same row written on both branches, the case-insensitive cells in different case:
        # convergent inserts / convergent updates whose stored bytes differ
        for _ in range(rng.choice([1, 1, 2])):
            k = rng.choice(keyspace)
            names = pk + [c for c, _ in cols]
            vals = [lit(t, rng, 0.05) for _, t in cols]
            vals2 = [case_variant(v, rng) if t == "ci" else v for v, (_, t) in zip(vals, cols)]
            for side, vv in (("l", vals), ("r", vals2)):
                sides[side].insert(rng.randint(0, len(sides[side])),
                                   "replace into t (%s) values (%s)" % (", ".join(names), ", ".join([str(x) for x in k] + vv)))
    if kind is None and sides["l"] and rng.random() < 0.35:
        # the same statement on both branches: convergent edits / inserts
        sides["r"].insert(rng.randint(0, len(sides["r"])), rng.choice(sides["l"]))
    return {"pk": pk, "setup": setup, "l": sides["l"], "r": sides["r"], "kind": kind, "index": index}


def fixed_cases():
    base2 = ["create table t (p0 int not null, c0 int, c1 int, primary key (p0))", "insert into t values (1,1,1),(2,2,2),(3,3,3)"]
    return [
        # F5 witness: right dropped a column and deleted a row that left modified
        {"pk": ["p0"], "setup": base2, "l": ["update t set c1=9 where p0=1"],
         "r": ["alter table t drop column c0", "delete from t where p0=1"], "kind": "drop", "index": False, "witness": KEY_F5},
        # delete vs update of an added column
        {"pk": ["p0"], "setup": base2, "l": ["delete from t where p0=1"],
         "r": ["alter table t add column c9 int", "update t set c9=5 where p0=1"], "kind": "add", "index": False, "witness": KEY_NEWCOL},
        # moved column, byte-equal row
        {"pk": ["p0"], "setup": ["create table t (p0 int not null, c0 int, c1 int, primary key (p0))", "insert into t values (1,1,2),(2,2,2)"],
         "l": ["alter table t modify column c0 int after c1", "update t set c0=2, c1=1 where p0=1"], "r": ["update t set c0=3 where p0=1"],
         "kind": "move", "index": False, "witness": KEY_REORDER},
        # byte coincidence across schemas: (c0=0, c1=NULL) is stored as [0], the same bytes as (c1=0) after DROP COLUMN c0
        {"pk": ["p0"], "setup": ["create table t (p0 int not null, c0 int, c1 int, primary key (p0))", "insert into t values (1,0,0)"],
         "l": ["update t set c1=NULL where p0=1"], "r": ["alter table t drop column c0"], "kind": "drop", "index": False, "witness": KEY_COINCIDE},
        # convergent insert and convergent update whose case-insensitive cells differ in case only: both directions must store the same bytes
        {"pk": ["p0"], "setup": ["create table t (p0 int not null, c0 int, c1 %s, primary key (p0))" % CI_SQLTY, "insert into t values (1,1,'ab'),(2,2,'cd')"],
         "l": ["insert into t values (3,3,'ab')", "update t set c1='AB', c0=5 where p0=1", "insert into t values (4,4,'CD')"],
         "r": ["insert into t values (3,3,'AB')", "update t set c1='Ab', c0=5 where p0=1", "insert into t values (4,4,'cd')"], "kind": None, "index": False},
        # plain: cell-wise merge, modify/modify, delete/modify, insert/insert
        {"pk": ["p0"], "setup": base2, "l": ["update t set c0=7 where p0=1", "update t set c1=7 where p0=2", "delete from t where p0=3", "insert into t values (4,4,4)"],
         "r": ["update t set c1=8 where p0=1", "update t set c1=8 where p0=2", "update t set c0=0 where p0=3", "insert into t values (4,4,5)"],
         "kind": None, "index": False},
    ]


def gen_cases(rng, tier):
    n = 230 if tier == "quick" else 6000
    cases = fixed_cases()
    while len(cases) < n:
        cases.append(gen_one(rng))
    return [with_steps(c) for c in cases]


def with_steps(c):
    c = dict(c)
    S = []

    def q(s, keep=""):
        S.append({"q": s, "keep": keep} if keep else {"q": s})
    sel = "select * from t order by %s" % ", ".join(c["pk"])
    for s in c["setup"]:
        q(s)
    q("call dolt_commit('-Am','base')")
    q(sel, "B")
    for side in ("l", "r"):
        q("call dolt_checkout('main')")
        q("call dolt_checkout('-b','%s')" % side)
        for s in c[side]:
            q(s)
        q("call dolt_commit('--allow-empty','-Am','%s')" % side)
        q(sel, side.upper())
    q("set @@dolt_allow_commit_conflicts=1")
    q("set @@dolt_force_transaction_commit=1")
    for name, ours, theirs in (("m1", "l", "r"), ("m2", "r", "l")):
        q("call dolt_checkout('%s')" % ours)
        q("call dolt_checkout('-b','%s')" % name)
        q("call dolt_merge('%s')" % theirs, name)
        q(sel, name + "t")
        q("select * from dolt_conflicts_t", name + "c")
    c["steps"] = S
    return c


# --------------------------------------------------------------------------
# observation -> Coq
# --------------------------------------------------------------------------
def colid(name):
    return int(name[1:])


def val(s):
    if s == "NULL":
        return None
    if s.startswith("i:"):
        return int(s[2:])
    if s.startswith("s:") and s[2:] in CIVOC:
        return 2000 + CIVOC.index(s[2:])          # representation: rank in byte order
    if s.startswith("s:"):
        x = s[2:]
        return 1000 + (STRS.index(x) if x in STRS else 500 + sum(ord(ch) for ch in x))
    return 99999


def vclass(v):
    """value class of a representation (identity except for the case-insensitive vocabulary)"""
    if v is not None and 2000 <= v < 2000 + len(CIVOC):
        return 3000 + CICLASS.index(CIVOC[v - 2000].lower())
    return v


CQ_CLS = "[" + "; ".join("(%d, %d)" % (2000 + i, vclass(2000 + i)) for i in range(len(CIVOC))) + "]"


def keyN(vals):
    k = 0
    for v in vals:
        k = k * 16 + (v if v is not None else 15)
    return k


def read_table(res, pk):
    """-> (schema ids in order, [(keyN, [cells])])"""
    cols = res["cols"]
    nonpk = [i for i, c in enumerate(cols) if c not in pk]
    pki = [cols.index(p) for p in pk]
    sch = [colid(cols[i]) for i in nonpk]
    rows = [(keyN([val(r[i]) for i in pki]), trim([val(r[i]) for i in nonpk])) for r in res["rows"]]
    return sch, rows


def trim(cells):
    """the stored form of a value tuple: trailing NULL fields are trimmed (val.NewTuple)"""
    cells = list(cells)
    while cells and cells[-1] is None:
        cells.pop()
    return cells


def read_conflicts(res, pk, sb, sm, st):
    cols = res["cols"]
    ix = {c: i for i, c in enumerate(cols)}
    out = []
    for r in res["rows"]:
        odt, tdt = r[ix["our_diff_type"]], r[ix["their_diff_type"]]
        has_b = not (odt == "s:added" or tdt == "s:added")
        has_o = odt != "s:removed"
        has_t = tdt != "s:removed"

        def side(prefix, sch, present):
            if not present:
                return None
            return [val(r[ix[prefix + "c%d" % c]]) if (prefix + "c%d" % c) in ix else 99999 for c in sch]
        key = None
        for prefix, present in (("base_", has_b), ("our_", has_o), ("their_", has_t)):
            if present:
                key = keyN([val(r[ix[prefix + p]]) for p in pk])
                break
        tb, tt = side("base_", sb, has_b), side("their_", st, has_t)
        out.append((key if key is not None else 9999, None if tb is None else trim(tb), side("our_", sm, has_o), None if tt is None else trim(tt)))
    return out


def cq_cell(v):
    return "None" if v is None else "(Some %d)" % v


def cq_row(r):
    return cq_list(cq_cell(v) for v in r)


def cq_orow(r):
    return "None" if r is None else "(Some %s)" % cq_row(r)


def cq_table(t):
    return cq_list("(%d, %s)" % (k, cq_row(r)) for k, r in t)


def cq_sch(s):
    return cq_list(str(c) for c in s)


def parse(case, out):
    """-> dict with sb, sl, sr, B, L, R and per direction (class, sm, rows, conf, err) or None"""
    o = out.get("obs")
    if not o or any(k not in o for k in ("B", "L", "R", "m1", "m1t", "m1c", "m2", "m2t", "m2c")):
        return None
    if o["B"]["err"] or o["L"]["err"] or o["R"]["err"]:
        return None
    pk = case["pk"]
    d = {}
    d["sb"], d["B"] = read_table(o["B"], pk)
    d["sl"], d["L"] = read_table(o["L"], pk)
    d["sr"], d["R"] = read_table(o["R"], pk)
    for name, st in (("m1", d["sr"]), ("m2", d["sl"])):
        err = o[name]["err"]
        if err or o[name + "t"]["err"] or o[name + "c"]["err"]:
            d[name] = {"cls": 2, "sm": [], "rows": [], "conf": [], "err": err or o[name + "t"]["err"] or o[name + "c"]["err"]}
            continue
        sm, rows = read_table(o[name + "t"], pk)
        conf = read_conflicts(o[name + "c"], pk, d["sb"], sm, st)
        d[name] = {"cls": 1 if conf else 0, "sm": sm, "rows": rows, "conf": conf, "err": ""}
    return d


def cq_dir(m):
    return "{| d_class := %d; d_sm := %s; d_rows := %s; d_conf := %s |}" % (
        m["cls"], cq_sch(m["sm"]), cq_table(m["rows"]),
        cq_list("(%d, (%s, %s, %s))" % (k, cq_orow(b), cq_orow(o_), cq_orow(t)) for k, b, o_, t in m["conf"]))


BAD_OBS = "{| o_lr := {| d_class := 7; d_sm := []; d_rows := []; d_conf := [] |}; o_rl := {| d_class := 7; d_sm := []; d_rows := []; d_conf := [] |} |}"


def coq_case(case, out):
    d = parse(case, out)
    if d is None:
        return "({| i_sb := []; i_sl := []; i_sr := []; i_b := []; i_l := []; i_r := []; i_cls := [] |}, %s)" % BAD_OBS
    inp = "{| i_sb := %s; i_sl := %s; i_sr := %s; i_b := %s; i_l := %s; i_r := %s; i_cls := %s |}" % (
        cq_sch(d["sb"]), cq_sch(d["sl"]), cq_sch(d["sr"]), cq_table(d["B"]), cq_table(d["L"]), cq_table(d["R"]), CQ_CLS)
    return "(%s, {| o_lr := %s; o_rl := %s |})" % (inp, cq_dir(d["m1"]), cq_dir(d["m2"]))


# --------------------------------------------------------------------------
# classification / known findings
# --------------------------------------------------------------------------
def logical(sch, row):
    return None if row is None else dict(zip(sch, list(row) + [None] * (len(sch) - len(row))))


def analyse(d):
    """per-key situation flags computed from the three input tables"""
    B, L, R = dict(d["B"]), dict(d["L"]), dict(d["R"])
    sb, sl, sr = d["sb"], d["sl"], d["sr"]
    tags = set()
    info = {"f5": {"m1": False, "m2": False}, "newcol": False, "reorder": False, "coincide": False, "casevar": False}
    for k in set(B) | set(L) | set(R):
        b, l, r = logical(sb, B.get(k)), logical(sl, L.get(k)), logical(sr, R.get(k))

        def changed(x, sch):
            if (x is None) != (b is None):
                return True
            if x is None:
                return False
            return any(x.get(c) != b.get(c) for c in sch if c in sb) or any(x.get(c) is not None for c in sch if c not in sb)
        cl, cr = changed(l, sl), changed(r, sr)
        if b is not None and ((l is None and r is not None and cr) or (r is None and l is not None and cl)):
            tags.add("delete-modify")
        if b is None and l is not None and r is not None:
            tags.add("insert-insert")
        if l is not None and r is not None and cl and cr:
            if L.get(k) == R.get(k) and sl == sr:
                tags.add("convergent")
            elif b is not None:
                cols = set(sl) & set(sr)
                lc = {c for c in cols if l.get(c) != b.get(c)}
                rc = {c for c in cols if r.get(c) != b.get(c)}
                if lc and rc and not (lc & rc):
                    tags.add("cellwise")
        if b is not None and l is None and r is None:
            tags.add("delete-delete")
        if l is not None and r is not None:
            common = [c for c in sl if c in sr]
            if any(l.get(c) != r.get(c) and vclass(l.get(c)) == vclass(r.get(c)) for c in common):
                info["casevar"] = True
                if b is None and all(vclass(l.get(c)) == vclass(r.get(c)) for c in common):
                    tags.add("convergent-insert-case-variant")
        # F5 precondition per direction (ours, theirs): theirs deleted a row on which ours has a diff, and the two sides' column lists differ
        # (processBaseColumn then indexes theirs' schema with ours' column index: out of range -> panic, wrong type -> conversion error)
        for name, (o_, so, t_, st) in (("m1", (l, sl, r, sr)), ("m2", (r, sr, l, sl))):
            ours_row = (L if name == "m1" else R).get(k)
            if b is not None and t_ is None and o_ is not None and so != st and (B.get(k) != ours_row or set(so) != set(sb)):
                info["f5"][name] = True
        # delete vs update confined to added columns
        for x, sx, y in ((l, sl, r), (r, sr, l)):
            if b is not None and y is None and x is not None:
                if all(x.get(c) == b.get(c) for c in sx if c in sb) and any(x.get(c) is not None for c in sx if c not in sb):
                    info["newcol"] = True
        # byte-identical stored tuples under different column lists, both sides having a diff
        if sl != sr and L.get(k) is not None and L.get(k) == R.get(k) and l != r:
            ld = b is None or L.get(k) != B.get(k) or set(sl) != set(sb)
            rd = b is None or R.get(k) != B.get(k) or set(sr) != set(sb)
            if ld and rd:
                info["coincide"] = True
        # moved columns, byte-equal row whose logical content changed
        for tbl, sx in ((L, sl), (R, sr)):
            if sx != sb and sorted(sx) == sorted(sb) and b is not None and tbl.get(k) is not None:
                if tbl.get(k) == B.get(k) and logical(sx, tbl.get(k)) != b:
                    info["reorder"] = True
    return tags, info


def classify(case, out):
    d = parse(case, out)
    if d is None:
        return ["harness-error"]
    tags, info = analyse(d)
    t = sorted(tags)
    t.append({"add": "schema-add", "drop": "schema-drop", "move": "schema-move", None: "no-schema-change"}[case.get("kind")])
    if case.get("index"):
        t.append("with-index")
    for name in ("m1", "m2"):
        m = d[name]
        t.append(["clean", "conflict", "internal-error"][m["cls"]])
    if d["m1"]["cls"] == 2 or d["m2"]["cls"] == 2:
        if "panic" in (d["m1"]["err"] + d["m2"]["err"]).lower():
            t.append("panic")
    if not case.get("kind") and not case.get("index"):
        t.append("fast-path-eligible")
    if info["newcol"]:
        t.append("delete-vs-added-column-update")
    if info["reorder"]:
        t.append("moved-byte-equal")
    if info["coincide"]:
        t.append("cross-schema-byte-coincidence")
    if info["casevar"] and d["m1"]["cls"] != 2 and d["m2"]["cls"] != 2:
        # value-equal, byte-different cells met in a merge and both directions were read back and compared byte for byte
        t.append("swap-bytes-compared")
    if info["f5"]["m1"] or info["f5"]["m2"]:
        t.append("f5-precondition")
    return sorted(set(t))


def nontrivial(case, out):
    d = parse(case, out)
    return d is not None and d["L"] != d["B"] and d["R"] != d["B"]


def match_known(finding, case, out):
    d = parse(case, out)
    if d is None:
        return False
    _, info = analyse(d)
    key = finding.get("key")
    errs = {n: d[n]["cls"] == 2 for n in ("m1", "m2")}
    if key == KEY_F5:
        # exactly: every internal error of this case is in a direction where theirs dropped a column and deleted a row ours modified
        if not any(errs.values()):
            return False
        return all(info["f5"][n] for n in ("m1", "m2") if errs[n])
    if any(errs.values()):
        return False
    if key == KEY_NEWCOL:
        return info["newcol"]
    if key == KEY_REORDER:
        return info["reorder"]
    if key == KEY_COINCIDE:
        return info["coincide"]
    return False


# --------------------------------------------------------------------------
# shrinking / directed search
# --------------------------------------------------------------------------
def shrink_candidates(case):
    for side in ("l", "r"):
        for i in range(len(case[side])):
            if case[side][i].startswith("alter"):
                continue
            c = copy.deepcopy(case)
            del c[side][i]
            yield with_steps(c)
    for i in range(1, len(case["setup"])):
        if case["setup"][i].startswith("insert"):
            c = copy.deepcopy(case)
            del c["setup"][i]
            yield with_steps(c)


def neighbours(case, rng):
    out = []
    for _ in range(40):
        c = copy.deepcopy(case)
        side = rng.choice(["l", "r"])
        if c[side] and rng.random() < 0.5:
            i = rng.randrange(len(c[side]))
            if not c[side][i].startswith("alter"):
                del c[side][i]
        else:
            c["l"], c["r"] = c["r"], c["l"]
        out.append(with_steps(c))
    return out


def search_cases(rng):
    """every schema op x every pair of row ops on one key"""
    out = []
    base = ["create table t (p0 int not null, c0 int, c1 int, c2 int, primary key (p0))", "insert into t values (1,1,1,1),(2,2,2,2)"]
    schema_ops = [[], ["alter table t drop column c0"], ["alter table t drop column c2"], ["alter table t add column c9 int"],
                  ["alter table t add column c9 int first"], ["alter table t modify column c0 int after c1"]]
    row_ops = [[], ["delete from t where p0=1"], ["update t set c1=5 where p0=1"], ["update t set c0=5 where p0=1"], ["update t set c2=5 where p0=1"],
               ["insert into t (p0, c1) values (3, 7)"], ["insert into t (p0, c1) values (3, 8)"]]
    for so in schema_ops:
        for a in row_ops:
            for b in row_ops:
                for side in ("l", "r"):
                    c = {"pk": ["p0"], "setup": base, "kind": None, "index": False,
                         "l": list(a), "r": list(b)}
                    c[side] = so + c[side]
                    out.append(with_steps(c))
    return out
