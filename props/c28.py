"""C28 — Auto-increment values are never handed out twice."""
from lib.vlib import cq_list

ID = "C28"
HARNESS_PKG = "c28"
HARNESS_RUNNER = "c28"
COQ_TARGETS = ["theories/C28/Corr2.vo"]
COQ_CORR_MODULE = "C28.Model C28.Spec C28.Corr C28.Server C28.Corr2"
COQ_CASE_TYPE = "C28.Corr2.acase"
COQ_CHECK = "C28.Corr2.check_any"
COQ_SHARD = 400
DESIGN_REF = "§5 C28"
TECHNIQUE = ("Coq proof over every sequence of atomic tracker steps (any sessions, any branches) of a model of SequenceTracker.Next "
             "+ in-Coq correspondence on sessions checked out on different branches: deterministic interleavings and goroutine-parallel inserts")
LEVEL_TEXT = ("Proof (F/M, partial overall): the tracker is one counter per table for the whole server; for every schedule of atomic Next steps "
              "(generated or explicit value, by any session on any branch, interleaved with commits / rollbacks / branch switches) Coq proves the generated "
              "values strictly increasing, pairwise distinct, larger than every explicit value inserted before them and never reused after a rollback. "
              "Partial: atomicity of one Next (the per-table mutex mm.Lock) is the Go runtime's job; it is exercised by the goroutine-parallel phase. "
              "Server model (Server.v): several tables with independent sequences, transactions on branches (a committed insert stores id+1 in the branch's table, "
              "a rolled-back one nothing), restart = tracker initialised to the max over all branches' stored counters, ALTER TABLE .. AUTO_INCREMENT as implemented "
              "(raise; lowering is a no-op unless n exceeds every id committed on the branch, then the tracker is re-seated to max(n, other branches' counters)); "
              "without restart / ALTER generated values stay strictly increasing per table across transactions, rollbacks and branch switches.")
LEVEL_NOTE = ("Trusted: Coq kernel, Go harness + Python glue. Modelled, not verified: the per-table mutex (each Next is an atomic step), go-mysql-server's "
              "auto-increment plumbing (which value reaches Next), column type bounds (values stay far below 2^31), ALTER TABLE AUTO_INCREMENT (Set/deepSet) "
              "and tracker initialisation from existing roots (tables are created empty in the cases).")
THEOREMS = ["next_unique", "next_increasing", "explicit_advances", "later_exceeds_earlier", "oracle_accepts_model",
            "init_is_max_over_branches", "alter_lower_is_noop_or_clamped", "recreate_keeps_max_of_others", "next_increasing_tables", "tables_independent"]
RULE = ("2-5 sessions on 1-3 branches of one database (some autocommit), 6-30 steps: generated insert / explicit insert (fresh value: ahead of the "
        "sequence or in a gap left by an earlier jump) / COMMIT / ROLLBACK / switch branch; then one goroutine per session doing 2-6 generated inserts "
        "concurrently; non-trivial = generated inserts on at least two branches; distinct by content")
ASSUMPTIONS = ["server cases: ALTER TABLE .. AUTO_INCREMENT is issued only when no session has an open transaction (observed quirk: a lowering ALTER looks only at rows "
               "visible to the altering session, so with ids held by other sessions' open transactions it re-seats the tracker below them and those ids are handed out again)",
               "explicit values are fresh (never equal to an id already present on any branch), so no insert fails with a duplicate key",
               "each SequenceTracker.Next call is atomic (per-table mutex)"]
REQUIRED_TAGS = ["multi-branch", "explicit-ahead", "explicit-gap", "rollback", "switch", "parallel", "autocommit",
                 "server-case", "restart", "restart-after-rollback", "alter-raise", "alter-lower-noop", "alter-lower-clamped", "two-tables", "recreate", "recreate-continues", "restart-storm-many-branches"]

K_GEN, K_EXPL, K_COMMIT, K_ROLLBACK, K_SWITCH = range(5)


def gen_one(rng):
    nb = rng.choice([1, 2, 2, 3, 3])
    ns = rng.randint(2, 5)
    sess = [rng.randrange(nb) for _ in range(ns)]
    if nb > 1 and len(set(sess)) == 1:
        sess[0] = (sess[0] + 1) % nb
    autos = [s for s in range(ns) if rng.random() < 0.2]
    cur = 1
    used = set()
    steps = []
    for _ in range(rng.randint(6, 30)):
        s = rng.randrange(ns)
        r = rng.random()
        if r < 0.5:
            steps.append([s, K_GEN, 0]); used.add(cur); cur += 1
        elif r < 0.68:
            gaps = [x for x in range(1, cur) if x not in used]
            if gaps and rng.random() < 0.4:
                v = rng.choice(gaps)
            else:
                v = cur + rng.randint(0, 6)
            steps.append([s, K_EXPL, v]); used.add(v)
            if v >= cur:
                cur = v + 1
        elif r < 0.8:
            steps.append([s, K_COMMIT, 0])
        elif r < 0.9:
            steps.append([s, K_ROLLBACK, 0])
        else:
            steps.append([s, K_SWITCH, rng.randrange(nb)])
    par = [rng.randint(2, 6) for _ in range(ns)]
    return {"nbranch": nb, "sess": sess, "autos": autos, "steps": steps, "par": par}


def gen_server(rng):
    nb = rng.choice([1, 2, 2, 3])
    ns = rng.randint(2, 4)
    sess = [rng.randrange(nb) for _ in range(ns)]
    autos = [s for s in range(ns) if rng.random() < 0.3]
    steps = []
    cur = {0: 1, 1: 1}                      # generator's own guess of the tracker, only to pick interesting values
    used = {0: set(), 1: set()}
    for _ in range(rng.randint(8, 26)):
        s = rng.randrange(ns)
        t = 0 if rng.random() < 0.7 else 1
        r = rng.random()
        if r < 0.42:
            steps.append([s, 0, 0, t]); used[t].add(cur[t]); cur[t] += 1
        elif r < 0.55:
            v = cur[t] + rng.randint(0, 5)
            while v in used[t]:
                v += 1
            steps.append([s, 1, v, t]); used[t].add(v); cur[t] = max(cur[t], v + 1)
        elif r < 0.68:
            steps.append([s, 2, 0, 0])
        elif r < 0.76:
            steps.append([s, 3, 0, 0])
        elif r < 0.82:
            steps.append([s, 4, rng.randrange(nb), 0])
        elif r < 0.90:
            # everybody finishes, then the server restarts
            for x in range(ns):
                steps.append([x, rng.choice([2, 2, 3]), 0, 0])
            steps.append([0, 5, 0, 0])
        elif r < 0.95:
            # DROP + CREATE re-seats the sequence as well: every session finishes first
            for x in range(ns):
                steps.append([x, rng.choice([2, 2, 3]), 0, 0])
            steps.append([s, 7, 0, t])
        else:
            # ALTER re-seats the sequence using only what the altering session can see: every session finishes first
            for x in range(ns):
                steps.append([x, rng.choice([2, 2, 3]), 0, 0])
            n = rng.choice([cur[t] + rng.randint(1, 8), max(1, cur[t] - rng.randint(0, 6)), rng.randint(1, 4)])
            steps.append([s, 6, n, t]); cur[t] = max(cur[t], n)
    return {"mode": "server", "nbranch": nb, "sess": sess, "autos": autos, "steps": steps}


FIXED_SERVER = [
    # main generates 1..3; branch b1 drops and re-creates the table: its sequence continues at 4, main then gets 5
    {"mode": "server", "nbranch": 2, "sess": [0, 1], "autos": [0, 1],
     "steps": [[0, 0, 0, 0], [0, 0, 0, 0], [0, 0, 0, 0], [1, 7, 0, 0], [1, 0, 0, 0], [0, 0, 0, 0], [1, 0, 0, 0]]},
    # branch b1 holds the larger ids; a rolled-back insert is forgotten by a restart; the tracker restarts at max over branches
    {"mode": "server", "nbranch": 2, "sess": [0, 1], "autos": [0, 1],
     "steps": [[0, 0, 0, 0], [0, 0, 0, 0], [0, 0, 0, 1], [1, 0, 0, 0], [1, 1, 20, 0], [1, 0, 0, 0], [0, 5, 0, 0], [0, 0, 0, 0], [0, 0, 0, 1],
               [0, 6, 50, 0], [0, 0, 0, 0], [0, 6, 10, 0], [0, 0, 0, 0], [1, 0, 0, 0]]},
    {"mode": "server", "nbranch": 2, "sess": [0, 1], "autos": [],
     "steps": [[0, 0, 0, 0], [0, 2, 0, 0], [1, 0, 0, 0], [1, 1, 9, 0], [1, 3, 0, 0], [1, 0, 0, 0], [1, 2, 0, 0], [0, 5, 0, 0], [0, 0, 0, 0], [1, 0, 0, 0],
               [0, 2, 0, 0], [1, 2, 0, 0], [0, 6, 3, 0], [0, 0, 0, 0], [0, 2, 0, 0]]},
]


def gen_storm(rng, nb=12, rounds=200):
    """many branches with different counters for the same table, then repeated server starts: every start must
    initialise the tracker to the largest of them (the roots are loaded concurrently)"""
    sess = list(range(nb)) + [rng.randrange(nb)]
    steps = []
    order = list(range(nb)); rng.shuffle(order)
    for rank, b in enumerate(order):
        steps.append([b, 1, 5 * (rank + 1) + rng.randint(0, 3), 0])
    for _ in range(rounds):
        steps += [[0, 5, 0, 0], [nb, 0, 0, 0], [nb, 3, 0, 0]]
    return {"mode": "server", "nbranch": nb, "sess": sess, "autos": list(range(nb)), "steps": steps, "storm": True}


def gen_cases(rng, tier):
    n = 100 if tier == "quick" else 4000
    cases = [
        {"nbranch": 3, "sess": [0, 1, 2], "autos": [], "steps": [[0, 0, 0], [1, 0, 0], [2, 0, 0], [0, 1, 10], [1, 0, 0], [2, 3, 0], [2, 0, 0], [1, 1, 5], [0, 0, 0], [0, 2, 0], [1, 4, 0], [1, 0, 0], [2, 1, 30], [2, 3, 0], [0, 0, 0]], "par": [5, 5, 5]},
        {"nbranch": 2, "sess": [0, 1], "autos": [0], "steps": [[0, 0, 0], [1, 0, 0], [0, 0, 0], [1, 3, 0], [1, 0, 0]], "par": [3, 3]},
    ]
    while len(cases) < n:
        cases.append(gen_one(rng))
    cases += [dict(c) for c in FIXED_SERVER]
    for _ in range(120 if tier == "quick" else 4000):
        cases.append(gen_server(rng))
    for _ in range(5 if tier == "quick" else 100):
        cases.append(gen_storm(rng))
    return cases


def _sop(st):
    k, x, t = st[1], st[2], st[3]
    return {0: "SGen %d" % t, 1: "SExpl %d %d" % (t, x), 2: "SCommitT", 3: "SRollbackT", 4: "SSwitch %d" % x, 5: "SRestart", 6: "SAlter %d %d" % (t, x), 7: "SRecreate %d" % t}[k]


def coq_case_server(case, out):
    inp = "{| si_branches := %s; si_tables := [0; 1]; si_autos := %s; si_sbr := %s; si_sched := %s |}" % (
        cq_list(str(b) for b in range(case["nbranch"])), cq_list(str(a) for a in case["autos"]),
        cq_list("(%d, %d)" % (i, b) for i, b in enumerate(case["sess"])),
        cq_list("(%d, %s)" % (st[0], _sop(st)) for st in case["steps"]))
    o = out.get("obs")
    if o is None or out.get("err") or out.get("panic"):
        return "D2 (%s, {| so_ids := []; so_ok := false |})" % inp
    ok = all(v != -2 for v in o["ids"])
    return "D2 (%s, {| so_ids := %s; so_ok := %s |})" % (inp, cq_list(_oN(v) for v in o["ids"]), "true" if ok else "false")


def classify_server(case, out):
    o = out.get("obs")
    if o is None:
        return ["panic", "server-case"]
    t = {"server-case", "nontrivial"}
    last = {0: 0, 1: 0}
    rolled = False
    tabs = set()
    for st, v in zip(case["steps"], o["ids"]):
        k = st[1]
        if v == -2:
            t.add("insert-error")
        if k in (0, 1):
            tabs.add(st[3])
            if v > 0:
                last[st[3]] = max(last[st[3]], v)
        if k == 3:
            rolled = True
        if k == 5:
            t.add("restart")
            if rolled:
                t.add("restart-after-rollback")
        if k == 6:
            t.add("alter")
        if k == 7:
            t.add("recreate")
    # classify alters by what the next generated value on that table shows
    steps = case["steps"]
    for i, st in enumerate(steps):
        if st[1] != 6:
            continue
        prev = max([v for s2, v in zip(steps[:i], o["ids"][:i]) if s2[1] in (0, 1) and s2[3] == st[3] and v > 0] or [0])
        nxt = next((v for s2, v in zip(steps[i + 1:], o["ids"][i + 1:]) if s2[1] == 0 and s2[3] == st[3]), None)
        if nxt is None:
            continue
        if st[2] > prev and nxt >= st[2]:
            t.add("alter-raise")
        elif nxt <= prev:
            t.add("alter-lower-clamped")
        else:
            t.add("alter-lower-noop")
    for i, st in enumerate(steps):
        if st[1] != 7:
            continue
        nxt = next((v for s2, v in zip(steps[i + 1:], o["ids"][i + 1:]) if s2[1] == 0 and s2[3] == st[3]), None)
        if nxt is not None and nxt > 1:
            t.add("recreate-continues")      # another branch still had the table: the sequence went on
        elif nxt == 1:
            t.add("recreate-restarts")
    if len(tabs) == 2:
        t.add("two-tables")
    if case.get("storm"):
        t.add("restart-storm-many-branches")
    return sorted(t)


def _branches(case):
    """branch of the session at each step"""
    cur = list(case["sess"])
    out = []
    for s, k, x in case["steps"]:
        out.append(cur[s])
        if k == K_SWITCH:
            cur[s] = x
    return out


def _op(k, x):
    return "OGen" if k == K_GEN else ("OExplicit %d" % x if k == K_EXPL else "OOther")


def _oN(v):
    return "None" if v is None or v < 0 else "(Some %d)" % v


def coq_case(case, out):
    if case.get("mode") == "server":
        return coq_case_server(case, out)
    return "D1 " + coq_case_plain(case, out)


def coq_case_plain(case, out):
    br = _branches(case)
    sched = cq_list("(%d, %d, %s)" % (st[0], br[i], _op(st[1], st[2])) for i, st in enumerate(case["steps"]))
    inp = "{| i_sched := %s; i_par := %d |}" % (sched, sum(case["par"][:len(case["sess"])]))
    o = out.get("obs")
    if o is None or out.get("err") or out.get("panic"):
        return "(%s, {| o_ids := []; o_last := []; o_par := []; o_ok := false |})" % inp
    ok = o.get("parerr", 0) == 0 and all(v != -2 for v in o["ids"])
    return "(%s, {| o_ids := %s; o_last := %s; o_par := %s; o_ok := %s |})" % (
        inp, cq_list(_oN(v) for v in o["ids"]), cq_list(_oN(v) for v in o["lastid"]),
        cq_list(str(v) for v in o["parids"]), "true" if ok else "false")


def classify(case, out):
    if case.get("mode") == "server":
        return classify_server(case, out)
    t = []
    br = _branches(case)
    gen_br = set(br[i] for i, st in enumerate(case["steps"]) if st[1] == K_GEN)
    if len(gen_br) >= 2:
        t.append("multi-branch")
    cur = 1
    for s, k, x in case["steps"]:
        if k == K_GEN:
            cur += 1
        elif k == K_EXPL:
            if x >= cur:
                t.append("explicit-ahead"); cur = x + 1
            else:
                t.append("explicit-gap")
        elif k == K_ROLLBACK:
            t.append("rollback")
        elif k == K_SWITCH:
            t.append("switch")
        elif k == K_COMMIT:
            t.append("commit")
    if sum(case["par"]) > 0:
        t.append("parallel")
    if case["autos"]:
        t.append("autocommit")
    o = out.get("obs") if out else None
    if o is None:
        t.append("panic")
    elif o.get("parerr") or any(v == -2 for v in o["ids"]):
        t.append("insert-error")
    t.append("branches-%d" % case["nbranch"])
    return sorted(set(t))


def nontrivial(case, out):
    return "multi-branch" in classify(case, out) or case["nbranch"] == 1


_SHRINK_BUDGET = [25]


def shrink_candidates(case):
    for c in _shrink_all(case):
        if _SHRINK_BUDGET[0] <= 0:
            return
        _SHRINK_BUDGET[0] -= 1
        yield c


def _shrink_all(case):
    st = case["steps"]
    if case.get("storm"):
        return              # a race: removing statements proves nothing
    for i in range(min(len(st), 30)):
        c = dict(case); c["steps"] = st[:i] + st[i + 1:]
        yield c
    if case.get("mode") != "server":
        c = dict(case); c["par"] = [0] * len(case["par"])
        yield c


def neighbours(case, rng):
    if case.get("mode") == "server":
        return [gen_server(rng) for _ in range(40)]
    return [gen_one(rng) for _ in range(40)]
