"""C22 — Each SQL transaction reads a stable snapshot."""
from props import sqlsched_gen as G

ID = "C22"
HARNESS_PKG = "c22"
HARNESS_RUNNER = "c22"
COQ_TARGETS = ["theories/C22/Corr.vo"]
COQ_CORR_MODULE = "C23.Model C23.Spec C23.Corr C22.Model C22.Spec C22.Corr"
COQ_CASE_TYPE = "C22.Corr.case"
COQ_CHECK = "C22.Corr.check_case"
COQ_MODEL_OBS = "(fun c => C22.Corr.model_obs (fst c))"
COQ_SHARD = 400
DESIGN_REF = "§5 C22"
TECHNIQUE = ("Coq proof over every interleaving of the transaction machine shared with C23 (snapshot at BEGIN, own working table, commit publishes) "
             "+ in-Coq correspondence on generated multi-session SQL schedules, reads checked against an independent replay specification")
LEVEL_TEXT = ("Proof (F/M, partial overall): for every interleaving of sessions Coq proves that steps of other sessions (including their commits) never "
              "change a session's snapshot or working table; that inside a transaction a session's reads are exactly those of running its own statements "
              "alone on its table (snapshot overlaid with own writes); that every snapshot is a committed state (the initial one or the result of an "
              "acknowledged commit), so uncommitted writes of others are never read; and that a transaction started after a commit reads the committed state. "
              "Partial: the engine's per-session root caching and revision-database plumbing are abstracted as 'copy the committed table'; the tie is the "
              "correspondence run (every result set of generated 2-4 session schedules, autocommit on and off, compared inside Coq).")
LEVEL_NOTE = ("Trusted: Coq kernel, Go harness + Python glue. Modelled, not verified: go-mysql-server execution of the statements, session state caching "
              "(dsess.DoltSession.clear / dbStates), one database, one branch, one table (reads of other branches via AS OF / revision databases are outside "
              "this model), true parallelism (statements are issued one at a time).")
THEOREMS = ["others_invisible", "snapshot_stable", "no_dirty_read", "visible_after_commit_and_begin", "implicit_begin_reads_committed", "oracle_accepts_model"]
RULE = ("schedules of 8-30 statements over 2-4 sessions (some autocommit) on t(pk,a,b), read-heavy mix (SELECT / SELECT WHERE pk=k 35%); every session "
        "commits at the end; non-trivial = a session reads while another session has committed or written since its snapshot; distinct by schedule content")
ASSUMPTIONS = ["single database / branch / table; statements issued one at a time"]
REQUIRED_TAGS = ["read", "read-after-foreign-commit", "read-own-write", "commit-ok", "commit-conflict", "autocommit", "rollback", "begin-in-txn"]


def gen_cases(rng, tier):
    return G.gen_cases_txn(rng, tier, read_bias=0.30)


coq_case = G.coq_case_txn


def classify(case, out):
    return G.classify_txn(case, out, reads=True)


def nontrivial(case, out):
    return "read-after-foreign-commit" in classify(case, out)


shrink_candidates = G.shrink_txn
neighbours = G.neighbours_txn
